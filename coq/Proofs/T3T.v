(* Type 3 Tag (passive tag device): write/read round trip, cut safety, write frame.
   Structure: generic facts about command sequences on the passive tag (apply_cmds / run with a
   power-cut budget), the attribute block codec, the reader loop, the write plan. *)
From Coq Require Import ZArith List Bool Lia ZifyBool.
From NV Require Import Base.Result Base.Bytes Base.PyPrims Proofs.Chunks Model.T3T.
Import ListNotations.
Open Scope Z_scope.
Ltac Zify.zify_post_hook ::= Z.to_euclidean_division_equations.

(* ------------------------------------------------------------ block elements and frames *)
Lemma blk_elems_ok bl : Forall (fun b => 0 <= b < 65536) bl ->
  exists es, blk_elems bl = Ok es /\ len es <= 3 * len bl /\
             (Forall (fun b => b < 256) bl -> len es = 2 * len bl).
Proof.
  induction bl as [|b r IH]; intro H.
  - exists []. cbn. repeat split; auto; intros; unfold len; cbn; lia.
  - inversion H as [|? ? Hb Hr]; subst. destruct (IH Hr) as (er & E & L1 & L2).
    cbn [blk_elems]. unfold blk_elem.
    replace (b <? 0) with false by lia.
    destruct (b <? 256) eqn:E256.
    + cbn [bind]. rewrite E. cbn [bind]. eexists; split; [reflexivity|].
      rewrite len_app, !len_cons, len_nil. split; [lia|]. intro F. inversion F; subst. specialize (L2 H3). lia.
    + replace (b <? 65536) with true by lia. cbn [bind]. rewrite E. cbn [bind]. eexists; split; [reflexivity|].
      rewrite len_app, !len_cons, len_nil. split; [lia|]. intro F. inversion F; subst. lia.
Qed.

Lemma rd_frame_ok idm bl : len idm = 8 -> Forall (fun b => 0 <= b < 65536) bl -> len bl <= 80 ->
  exists f, rd_frame idm bl = Ok f.
Proof.
  intros Hi Hb Hn. destruct (blk_elems_ok bl Hb) as (es & E & L & _).
  unfold rd_frame. rewrite E. cbn [bind]. replace (len bl >? 255) with false by lia.
  unfold t3_frame. rewrite len_app, !len_cons, len_nil.
  replace (2 + len idm + (1 + (1 + (1 + (1 + 0))) + len es) >? 255) with false by lia. eexists; reflexivity.
Qed.

Lemma wr_frame_ok idm bl data : len idm = 8 -> Forall (fun b => 0 <= b < 65536) bl -> len data = 16 * len bl ->
  (len bl <= 12 \/ (len bl <= 13 /\ Forall (fun b => b < 256) bl)) ->
  exists f, wr_frame idm bl data = Ok f.
Proof.
  intros Hi Hb Hd Hn. destruct (blk_elems_ok bl Hb) as (es & E & L & L2).
  unfold wr_frame. rewrite E. cbn [bind]. replace (len bl >? 255) with false by lia.
  unfold t3_frame. rewrite !len_app, !len_cons, len_nil.
  assert (len es + 16 * len bl <= 241).
  { destruct Hn as [Hn|[Hn Hs]]; [lia|]. specialize (L2 Hs). lia. }
  replace (2 + len idm + (1 + (1 + (1 + (1 + 0))) + (len es + len data)) >? 255) with false by lia. eexists; reflexivity.
Qed.

(* ------------------------------------------------------------ blocks of a memory image *)
Lemma zrange_len' a b : a <= b -> len (zrange a b) = b - a.
Proof. intro. unfold len. rewrite zrange_len. lia. Qed.

Lemma flat_blk_get m : forall n a, 0 <= a -> 16 * (a + Z.of_nat n) <= len m ->
  flat_map (blk_get m) (zrange a (a + Z.of_nat n)) = slice m (16 * a) (16 * (a + Z.of_nat n)).
Proof.
  induction n as [|n IH]; intros a Ha Hm.
  - rewrite Z.add_0_r, zrange_nil by lia. cbn. now rewrite slice_nil_eq.
  - rewrite zrange_cons by lia. cbn [flat_map].
    replace (a + Z.of_nat (S n)) with ((a + 1) + Z.of_nat n) by lia.
    rewrite IH by lia. unfold blk_get. replace (16 * a + 16) with (16 * (a + 1)) by lia.
    apply slice_app_adj; lia.
Qed.
Lemma flat_blk_get_range m a b : 0 <= a <= b -> 16 * b <= len m ->
  flat_map (blk_get m) (zrange a b) = slice m (16 * a) (16 * b).
Proof. intros. replace b with (a + Z.of_nat (Z.to_nat (b - a))) by lia. apply flat_blk_get; lia. Qed.

Lemma blks_put_range : forall n m a data, 0 <= a -> len data = 16 * Z.of_nat n -> 16 * (a + Z.of_nat n) <= len m ->
  blks_put m (zrange a (a + Z.of_nat n)) data = splice m (16 * a) data.
Proof.
  induction n as [|n IH]; intros m a data Ha Hd Hm.
  - rewrite Z.add_0_r, zrange_nil by lia. cbn. destruct data; [now rewrite splice_nil | rewrite len_cons in Hd; pose proof (len_nonneg data); lia].
  - rewrite zrange_cons by lia. cbn [blks_put].
    assert (Ht : len (take 16 data) = 16) by (apply len_take; lia).
    replace (a + Z.of_nat (S n)) with ((a + 1) + Z.of_nat n) by lia.
    rewrite IH; try lia.
    + replace (16 * (a + 1)) with (16 * a + len (take 16 data)) by lia.
      rewrite splice_adj by (rewrite ?len_drop; lia). now rewrite take_drop.
    + rewrite len_drop; lia.
    + rewrite len_splice; lia.
Qed.
Lemma blks_put_zrange m a b data : 0 <= a <= b -> len data = 16 * (b - a) -> 16 * b <= len m ->
  blks_put m (zrange a b) data = splice m (16 * a) data.
Proof. intros. replace b with (a + Z.of_nat (Z.to_nat (b - a))) by lia. apply blks_put_range; lia. Qed.

Lemma forallb_blk_ok m a b : 0 <= a -> 16 * b <= len m -> forallb (blk_ok m) (zrange a b) = true.
Proof. intros. apply forallb_forall. intros x Hx. apply in_zrange in Hx. unfold blk_ok, nblocks. lia. Qed.
Lemma Forall_zrange (P : Z -> Prop) a b : (forall x, a <= x < b -> P x) -> Forall P (zrange a b).
Proof. intro H. apply Forall_forall. intros x Hx. apply H, in_zrange, Hx. Qed.

(* ------------------------------------------------------------ the passive tag *)
Definition same_tag (t t' : ptag) : Prop :=
  p_maxr t' = p_maxr t /\ p_maxw t' = p_maxw t /\ p_rw t' = p_rw t.

Lemma p_read_range t a b : p_budget t <> 0 -> 0 <= a < b -> b - a <= p_maxr t -> b - a <= 80 -> b <= 65536 ->
  16 * b <= len (p_mem t) -> p_read t (zrange a b) = (Ok (slice (p_mem t) (16 * a) (16 * b)), t).
Proof.
  intros Hb Ha Hr H80 H64 Hm. unfold p_read.
  destruct (rd_frame_ok p_idm (zrange a b)) as (f & ->);
    [reflexivity | apply Forall_zrange; lia | rewrite zrange_len'; lia |].
  unfold p_dead. replace (p_budget t =? 0) with false by lia.
  rewrite zrange_len' by lia. rewrite forallb_blk_ok by lia.
  replace ((1 <=? b - a) && (b - a <=? p_maxr t) && true) with true by lia.
  now rewrite flat_blk_get_range by lia.
Qed.

(* a write command the tag accepts, independent of the memory contents *)
Definition cmd_ok (t : ptag) (c : list Z * list Z) : Prop :=
  let (bl, d) := c in
  (exists f, wr_frame p_idm bl d = Ok f) /\ 1 <= len bl <= p_maxw t /\
  Forall (fun b => 0 <= b /\ 16 * (b + 1) <= len (p_mem t)) bl /\ len d = 16 * len bl.

Definition apply_cmd (m : list Z) (c : list Z * list Z) : list Z := blks_put m (fst c) (snd c).
Definition apply_cmds (m : list Z) (cs : list (list Z * list Z)) : list Z := fold_left apply_cmd cs m.

Lemma blks_put_len : forall bl m data, Forall (fun b => 0 <= b /\ 16 * (b + 1) <= len m) bl -> len data = 16 * len bl ->
  len (blks_put m bl data) = len m.
Proof.
  induction bl as [|b r IH]; intros m data Hb Hd; [reflexivity|]. inversion Hb as [|? ? [H0 H1] Hr]; subst.
  rewrite len_cons in Hd. pose proof (len_nonneg r). cbn [blks_put].
  assert (Ht : len (take 16 data) = 16) by (apply len_take; lia).
  assert (Hs : len (splice m (16 * b) (take 16 data)) = len m) by (apply len_splice; lia).
  rewrite IH; [exact Hs | rewrite Hs; exact Hr | rewrite len_drop; lia].
Qed.
Lemma blks_put_hi : forall bl m data B, Forall (fun b => 0 <= b < B /\ 16 * (b + 1) <= len m) bl -> len data = 16 * len bl ->
  drop (16 * B) (blks_put m bl data) = drop (16 * B) m.
Proof.
  induction bl as [|b r IH]; intros m data B Hb Hd; [reflexivity|]. inversion Hb as [|? ? [H0 H1] Hr]; subst.
  rewrite len_cons in Hd. pose proof (len_nonneg r). cbn [blks_put].
  assert (Ht : len (take 16 data) = 16) by (apply len_take; lia).
  assert (Hs : len (splice m (16 * b) (take 16 data)) = len m) by (apply len_splice; lia).
  rewrite IH; [apply drop_splice_hi; lia | rewrite Hs; exact Hr | rewrite len_drop; lia].
Qed.
Lemma blks_put_lo : forall bl m data B, Forall (fun b => B <= b /\ 16 * (b + 1) <= len m) bl -> 0 <= B -> len data = 16 * len bl ->
  take (16 * B) (blks_put m bl data) = take (16 * B) m.
Proof.
  induction bl as [|b r IH]; intros m data B Hb HB Hd; [reflexivity|]. inversion Hb as [|? ? [H0 H1] Hr]; subst.
  rewrite len_cons in Hd. pose proof (len_nonneg r). cbn [blks_put].
  assert (Ht : len (take 16 data) = 16) by (apply len_take; lia).
  assert (Hs : len (splice m (16 * b) (take 16 data)) = len m) by (apply len_splice; lia).
  rewrite IH; [apply take_splice_lo; lia | rewrite Hs; exact Hr | lia | rewrite len_drop; lia].
Qed.

Lemma p_write_ok t c : cmd_ok t c -> p_rw t = true -> p_budget t <> 0 ->
  exists t', p_write t (fst c) (snd c) = (Ok tt, t') /\ same_tag t t' /\ p_mem t' = apply_cmd (p_mem t) c /\
             p_budget t' = (if p_budget t <? 0 then p_budget t else p_budget t - 1) /\ p_log t' = c :: p_log t.
Proof.
  destruct c as [bl d]. intros ((f & Hf) & Hn & Hb & Hd) Hrw Hbud. cbn [fst snd]. unfold p_write. rewrite Hf.
  unfold p_dead. replace (p_budget t =? 0) with false by lia. rewrite Hrw.
  assert (Hfb : forallb (blk_ok (p_mem t)) bl = true).
  { apply forallb_forall. intros x Hx. rewrite Forall_forall in Hb. specialize (Hb x Hx). unfold blk_ok, nblocks. lia. }
  rewrite Hfb. replace (true && (1 <=? len bl) && (len bl <=? p_maxw t) && true && (len d =? 16 * len bl)) with true by lia.
  eexists. split; [reflexivity|]. cbn. unfold same_tag. cbn. auto.
Qed.
Lemma p_write_dead t bl d : (exists f, wr_frame p_idm bl d = Ok f) -> p_budget t = 0 ->
  p_write t bl d = (Err (TagCommandError 0), t).
Proof. intros (f & Hf) Hb. unfold p_write. rewrite Hf. unfold p_dead. now replace (p_budget t =? 0) with true by lia. Qed.

Definition cmds_ok (t : ptag) (cs : list (list Z * list Z)) : Prop := Forall (cmd_ok t) cs.

Lemma cmd_ok_same t t' c : same_tag t t' -> len (p_mem t') = len (p_mem t) -> cmd_ok t c -> cmd_ok t' c.
Proof. destruct c as [bl d]. intros (_ & Hw & _) Hl (Hf & Hn & Hb & Hd). unfold cmd_ok. rewrite Hw, Hl. auto. Qed.
Lemma apply_cmd_len t c : cmd_ok t c -> len (apply_cmd (p_mem t) c) = len (p_mem t).
Proof. destruct c as [bl d]. intros (_ & _ & Hb & Hd). unfold apply_cmd. cbn [fst snd]. apply blks_put_len; auto. Qed.

(* running a command list with a power-cut budget *)
Lemma run_cmds_budget : forall cs t, cmds_ok t cs -> p_rw t = true ->
  let k := p_budget t in
  let n := Z.of_nat (length cs) in
  exists t', same_tag t t' /\
    (if (k <? 0) || (n <=? k)
     then run_cmds ptag p_write t cs = (Ok tt, t') /\ p_mem t' = apply_cmds (p_mem t) cs /\
          p_budget t' = (if k <? 0 then k else k - n)
     else run_cmds ptag p_write t cs = (Err (TagCommandError 0), t') /\
          p_mem t' = apply_cmds (p_mem t) (firstn (Z.to_nat k) cs)) /\
    p_log t' = rev (firstn (if k <? 0 then length cs else Z.to_nat k) cs) ++ p_log t.
Proof.
  induction cs as [|c r IH]; intros t Hok Hrw k n.
  - exists t. split; [unfold same_tag; auto|]. subst n. cbn [length Z.of_nat].
    replace ((k <? 0) || (0 <=? k)) with true by lia. cbn. repeat split; auto.
    + destruct (k <? 0); lia.
    + destruct (k <? 0); cbn; [reflexivity | now rewrite firstn_nil].
  - inversion Hok as [|? ? Hc Hr]; subst.
    destruct (Z.eq_dec k 0) as [Hk0|Hk0].
    + (* dead before the first command *)
      exists t. split; [unfold same_tag; auto|]. subst n. cbn [length]. subst k.
      replace ((p_budget t <? 0) || (Z.of_nat (S (length r)) <=? p_budget t)) with false by lia.
      rewrite Hk0. cbn [Z.to_nat firstn]. split; [|reflexivity].
      destruct c as [bl d]. cbn [run_cmds]. destruct Hc as (Hf & _). rewrite p_write_dead by auto. split; reflexivity.
    + destruct (p_write_ok t c Hc Hrw Hk0) as (t1 & Hw & Hs & Hm & Hb & Hl).
      assert (Hlen : len (p_mem t1) = len (p_mem t)) by (rewrite Hm; apply apply_cmd_len; exact Hc).
      assert (Hok1 : cmds_ok t1 r).
      { eapply Forall_impl; [|exact Hr]. intros c0 H0. eapply cmd_ok_same; eauto. }
      assert (Hrw1 : p_rw t1 = true) by (destruct Hs as (_ & _ & ->); exact Hrw).
      destruct (IH t1 Hok1 Hrw1) as (t' & Hs' & Hrun & Hlog).
      exists t'. split.
      { destruct Hs as (A & B & C), Hs' as (A' & B' & C'). unfold same_tag. rewrite A', B', C'. auto. }
      destruct c as [bl d]. cbn [run_cmds]. cbn [fst snd] in Hw. rewrite Hw.
      subst n. cbn [length]. rewrite Nat2Z.inj_succ. fold k in Hb.
      destruct (k <? 0) eqn:Ek.
      * rewrite Hb in Hrun, Hlog. rewrite Ek in Hrun, Hlog. cbn [orb] in *. destruct Hrun as (R1 & R2 & R3).
        split; [repeat split; auto; rewrite R2, Hm; reflexivity|].
        rewrite Hlog, Hl. cbn [firstn rev]. now rewrite <- app_assoc.
      * rewrite Hb in Hrun, Hlog. replace (k - 1 <? 0) with false in * by lia. cbn [orb] in *.
        destruct (Z.succ (Z.of_nat (length r)) <=? k) eqn:En.
        -- replace (Z.of_nat (length r) <=? k - 1) with true in Hrun by lia. destruct Hrun as (R1 & R2 & R3).
           split; [repeat split; auto; [rewrite R2, Hm; reflexivity | lia]|].
           rewrite Hlog, Hl. replace (Z.to_nat k) with (S (Z.to_nat (k - 1))) by lia. cbn [firstn rev]. now rewrite <- app_assoc.
        -- replace (Z.of_nat (length r) <=? k - 1) with false in Hrun by lia. destruct Hrun as (R1 & R2).
           replace (Z.to_nat k) with (S (Z.to_nat (k - 1))) by lia. cbn [firstn].
           split; [split; auto; rewrite R2, Hm; reflexivity|].
           rewrite Hlog, Hl. cbn [rev]. now rewrite <- app_assoc.
Qed.

(* ------------------------------------------------------------ attribute block codec *)
Definition attrs_ok (a : attrs) : Prop :=
  0 <= a_ver a < 256 /\ 0 <= a_nbr a < 256 /\ 0 <= a_nbw a < 256 /\ 0 <= a_nmaxb a < 65536 /\
  0 <= a_writef a < 256 /\ 0 <= a_rwflag a < 256 /\ 0 <= a_ln a < 16777216.

Lemma attr_build_len a : len (attr_build a) = 16.
Proof. reflexivity. Qed.

Lemma attr_roundtrip a : attrs_ok a -> attr_parse (attr_build a) = Some a.
Proof.
  destruct a as [ver nbr nbw nmaxb wf rw ln]. unfold attrs_ok. cbn [a_ver a_nbr a_nbw a_nmaxb a_writef a_rwflag a_ln].
  intros (H1 & H2 & H3 & H4 & H5 & H6 & H7).
  cbv [attr_parse attr_build attr_body bt nth firstn app sum fold_left a_ver a_nbr a_nbw a_nmaxb a_writef a_rwflag a_ln].
  set (s := 0 + ver + nbr + nbw + nmaxb / 256 + nmaxb mod 256 + 0 + 0 + 0 + 0 + wf + rw + ln / 65536 mod 256 + ln / 256 mod 256 + ln mod 256).
  replace (s =? s / 256 * 256 + s mod 256) with true by lia.
  f_equal. f_equal; lia.
Qed.

Lemma nth_byte_ok d k : bytes_ok d -> 0 <= nth k d 0 < 256.
Proof. intro H. destruct (nth_in_or_default k d 0) as [Hin| ->]; [|lia]. unfold bytes_ok in H. rewrite Forall_forall in H. apply H, Hin. Qed.
Lemma attr_parse_ok d a : bytes_ok d -> attr_parse d = Some a -> attrs_ok a.
Proof.
  intros Hb. unfold attr_parse. destruct (_ =? _); [|discriminate]. intro E. inversion E; subst; clear E.
  unfold attrs_ok, bt. cbn [a_ver a_nbr a_nbw a_nmaxb a_writef a_rwflag a_ln].
  pose proof (nth_byte_ok d 0 Hb). pose proof (nth_byte_ok d 1 Hb). pose proof (nth_byte_ok d 2 Hb).
  pose proof (nth_byte_ok d 3 Hb). pose proof (nth_byte_ok d 4 Hb). pose proof (nth_byte_ok d 9 Hb).
  pose proof (nth_byte_ok d 10 Hb). pose proof (nth_byte_ok d 11 Hb). pose proof (nth_byte_ok d 12 Hb).
  pose proof (nth_byte_ok d 13 Hb). lia.
Qed.

(* ------------------------------------------------------------ the reader on a passive tag *)
Lemma read_attr_pt t : p_budget t <> 0 -> 1 <= p_maxr t -> 16 <= len (p_mem t) ->
  read_attr ptag p_read t = (Ok (attr_parse (take 16 (p_mem t))), t).
Proof.
  intros. unfold read_attr. change [0] with (zrange 0 1).
  rewrite p_read_range by lia. change (16 * 0) with 0. change (16 * 1) with 16. now rewrite slice_0.
Qed.

Lemma rd_loop_pt t last nbr : p_budget t <> 0 -> 1 <= nbr <= p_maxr t -> nbr <= 80 -> last <= 65536 ->
  16 * last <= len (p_mem t) ->
  forall fuel i acc, 1 <= i -> (Z.to_nat (last - i) <= fuel)%nat ->
    rd_loop ptag p_read fuel t i last nbr acc =
    (Ok (Some (acc ++ slice (p_mem t) (16 * i) (16 * Z.max i last))), t).
Proof.
  intros Hb Hn H80 H64 Hm. induction fuel as [|f IH]; intros i acc Hi Hf.
  - cbn [rd_loop]. replace (i <? last) with false by lia. rewrite Z.max_l by lia. now rewrite slice_nil_eq, app_nil_r.
  - cbn [rd_loop]. destruct (i <? last) eqn:E.
    + rewrite p_read_range by lia. rewrite IH by lia. rewrite <- app_assoc. do 4 f_equal.
      rewrite (Z.max_r i last) by lia.
      destruct (Z.le_gt_cases last (i + nbr)).
      * rewrite Z.min_r, Z.max_l by lia. now rewrite slice_nil_eq, app_nil_r.
      * rewrite Z.min_l, Z.max_r by lia. apply slice_app_adj; lia.
    + rewrite Z.max_l by lia. now rewrite slice_nil_eq, app_nil_r.
Qed.

Lemma read_ndef_pt t a : p_budget t <> 0 -> attr_parse (take 16 (p_mem t)) = Some a ->
  a_ver a / 16 = 1 -> 1 <= a_nbr a <= p_maxr t -> a_nbr a <= 80 -> 0 <= a_ln a ->
  let last := 1 + (a_ln a + 15) / 16 in
  last <= 65536 -> 16 * last <= len (p_mem t) ->
  pt_read_ndef t = (Ok (Ndef (attr_readable a) (attr_writeable a) (a_nmaxb a * 16)
                             (take (a_ln a) (slice (p_mem t) 16 (16 * last)))), t).
Proof.
  intros Hb Ha Hv Hn H80 Hl last H64 Hm. unfold pt_read_ndef, read_ndef.
  rewrite read_attr_pt by lia. rewrite Ha.
  replace (negb (a_ver a / 16 =? 1)) with false by lia.
  replace (a_nbr a =? 0) with false by lia. fold last.
  rewrite (rd_loop_pt t last (a_nbr a)) by lia.
  cbn [app]. rewrite Z.max_r by lia. reflexivity.
Qed.

(* ------------------------------------------------------------ the write plan *)
Lemma pad16_len d : len (pad16 d) = 16 * ((len d + 15) / 16).
Proof. unfold pad16. rewrite len_app. unfold len at 2. rewrite repeat_length. pose proof (len_nonneg d). lia. Qed.
Lemma pad16_take d : take (len d) (pad16 d) = d.
Proof. apply take_app_len. Qed.

Lemma In_firstn {A} (x : A) n : forall l, In x (firstn n l) -> In x l.
Proof. induction n as [|n IH]; intros l H; [contradiction|]. destruct l; [contradiction|]. cbn in H. destruct H; [left|right]; auto. Qed.
Lemma Forall_firstn {A} (P : A -> Prop) (l : list A) n : Forall P l -> Forall P (firstn n l).
Proof. intro H. apply Forall_forall. intros x Hx. rewrite Forall_forall in H. apply H. eapply In_firstn; exact Hx. Qed.

Lemma batches_nil fuel i nbw : batches fuel i nbw [] = [].
Proof. destruct fuel; reflexivity. Qed.

Lemma apply_cmds_cons m c cs : apply_cmds m (c :: cs) = apply_cmds (apply_cmd m c) cs.
Proof. reflexivity. Qed.
Lemma apply_cmds_app m cs1 cs2 : apply_cmds m (cs1 ++ cs2) = apply_cmds (apply_cmds m cs1) cs2.
Proof. apply fold_left_app. Qed.

Lemma batches_spec (t : ptag) nbw H : 1 <= nbw <= p_maxw t -> H <= 65536 -> 16 * H <= len (p_mem t) ->
  (nbw <= 12 \/ (nbw <= 13 /\ H <= 256)) ->
  forall fuel data i q, (length data <= fuel)%nat -> len data = 16 * q -> 1 <= i -> i + q = H ->
    Forall (cmd_ok t) (batches fuel i nbw data) /\
    Forall (fun c => Forall (fun b => 1 <= b < H) (fst c)) (batches fuel i nbw data) /\
    (forall m, len m = len (p_mem t) -> apply_cmds m (batches fuel i nbw data) = splice m (16 * i) data).
Proof.
  intros Hn H64 Hm Hfr. induction fuel as [|f IH]; intros data i q Hf Hd Hi HH.
  - destruct data; [|cbn in Hf; lia]. cbn. repeat split; auto. intros. now rewrite splice_nil.
  - destruct data as [|x data']; [cbn; repeat split; auto; intros; now rewrite splice_nil|].
    set (data := x :: data') in *. assert (Hq : 1 <= q) by (subst data; rewrite len_cons in Hd; pose proof (len_nonneg data'); lia).
    assert (Hunf : batches (S f) i nbw data =
                   (zrange i (i + len (take (16 * nbw) data) / 16), take (16 * nbw) data) :: batches f (i + nbw) nbw (drop (16 * nbw) data))
      by reflexivity.
    rewrite Hunf. clear Hunf.
    destruct (Z.le_gt_cases q nbw) as [Hle|Hgt].
    + (* last batch *)
      rewrite take_all, drop_all by lia. rewrite batches_nil. rewrite Hd. replace (16 * q / 16) with q by lia.
      assert (Hc : cmd_ok t (zrange i (i + q), data)).
      { unfold cmd_ok. rewrite zrange_len' by lia. repeat split; try lia.
        - apply wr_frame_ok; [reflexivity | apply Forall_zrange; lia | rewrite zrange_len'; lia |].
          rewrite zrange_len' by lia. destruct Hfr as [?|[? ?]]; [left; lia | right; split; [lia | apply Forall_zrange; lia]].
        - apply Forall_zrange; lia. }
      repeat split; [constructor; [exact Hc | constructor] | constructor; [apply Forall_zrange; cbn; lia | constructor] |].
      intros m Hlm. rewrite apply_cmds_cons. unfold apply_cmd. cbn [fst snd apply_cmds fold_left].
      apply blks_put_zrange; lia.
    + (* a full batch, more to come *)
      assert (Ht : len (take (16 * nbw) data) = 16 * nbw) by (apply len_take; lia).
      rewrite Ht. replace (16 * nbw / 16) with nbw by lia.
      assert (Hr : len (drop (16 * nbw) data) = 16 * (q - nbw)) by (rewrite len_drop; lia).
      destruct (IH (drop (16 * nbw) data) (i + nbw) (q - nbw)) as (I1 & I2 & I3); try lia.
      { unfold drop. rewrite skipn_length. subst data. cbn [length] in *. lia. }
      assert (Hc : cmd_ok t (zrange i (i + nbw), take (16 * nbw) data)).
      { unfold cmd_ok. rewrite zrange_len' by lia. repeat split; try lia.
        - apply wr_frame_ok; [reflexivity | apply Forall_zrange; lia | rewrite zrange_len'; lia |].
          rewrite zrange_len' by lia. destruct Hfr as [?|[? ?]]; [left; lia | right; split; [lia | apply Forall_zrange; lia]].
        - apply Forall_zrange; lia. }
      repeat split; [constructor; assumption | constructor; [apply Forall_zrange; cbn; lia | assumption] |].
      intros m Hlm. rewrite apply_cmds_cons. unfold apply_cmd. cbn [fst snd].
      rewrite blks_put_zrange by lia.
      rewrite I3 by (rewrite len_splice; lia).
      replace (16 * (i + nbw)) with (16 * i + len (take (16 * nbw) data)) by lia.
      rewrite splice_adj by lia. now rewrite take_drop.
Qed.

(* ------------------------------------------------------------ shape of command lists *)
Definition cmd_shape (L lo hi : Z) (c : list Z * list Z) : Prop :=
  Forall (fun b => lo <= b < hi /\ 16 * (b + 1) <= L) (fst c) /\ len (snd c) = 16 * len (fst c).

Lemma apply_cmds_shape lo hi : 0 <= lo -> forall cs m, Forall (cmd_shape (len m) lo hi) cs ->
  len (apply_cmds m cs) = len m /\ take (16 * lo) (apply_cmds m cs) = take (16 * lo) m /\
  drop (16 * hi) (apply_cmds m cs) = drop (16 * hi) m.
Proof.
  intro Hlo. induction cs as [|c r IH]; intros m H; [cbn; auto|]. inversion H as [|? ? [Hb Hd] Hr]; subst.
  rewrite apply_cmds_cons. unfold apply_cmd.
  assert (L1 : len (blks_put m (fst c) (snd c)) = len m).
  { apply blks_put_len; [|exact Hd]. eapply Forall_impl; [|exact Hb]. cbn. intros; lia. }
  destruct (IH (blks_put m (fst c) (snd c))) as (A & B & C); [rewrite L1; exact Hr|].
  rewrite A, B, C. split; [exact L1|]. split.
  - apply blks_put_lo; [|lia|exact Hd]. eapply Forall_impl; [|exact Hb]. cbn. intros; lia.
  - apply blks_put_hi; [|exact Hd]. eapply Forall_impl; [|exact Hb]. cbn. intros; lia.
Qed.

Lemma cmd_ok_shape t c lo hi : cmd_ok t c -> Forall (fun b => lo <= b < hi) (fst c) -> cmd_shape (len (p_mem t)) lo hi c.
Proof. destruct c as [bl d]. intros (_ & _ & Hb & Hd) Hr. split; [|exact Hd]. cbn [fst] in *.
  rewrite Forall_forall in *. intros x Hx. specialize (Hb x Hx). specialize (Hr x Hx). lia. Qed.

Lemma splice0 {A} (x d : list A) : splice x 0 d = d ++ drop (len d) x.
Proof. reflexivity. Qed.

(* ------------------------------------------------------------ well-formed tag *)
Record t3_wf (t : ptag) (a : attrs) : Prop := mk_wf {
  wf_attr : attr_parse (take 16 (p_mem t)) = Some a;       (* block 0 is a valid attribute block *)
  wf_aok : attrs_ok a;                                     (* (follows from the memory being bytes) *)
  wf_ver : a_ver a / 16 = 1;                               (* mapping version 1.x *)
  wf_nbr : 1 <= a_nbr a <= p_maxr t;                       (* the tag serves the Nbr blocks per read it declares *)
  wf_nbr80 : a_nbr a <= 80;                                (* a read command frame holds at most 80 block list elements *)
  wf_nbw : 1 <= a_nbw a;
  wf_maxw : Z.min (a_nbw a) 13 <= p_maxw t;                (* ... and min(Nbw, 13) blocks per write *)
  wf_writef : a_writef a = 0;
  wf_rwflag : a_rwflag a <> 0;
  wf_blocks : 16 * (a_nmaxb a + 1) <= len (p_mem t);       (* the Nmaxb data blocks exist *)
  wf_ln : a_ln a <= 16 * a_nmaxb a;
  wf_rw : p_rw t = true                                    (* write service 0009h present *)
}.

Definition nblk (n : Z) : Z := (n + 15) / 16.
Definition attr_final (a : attrs) (d : list Z) : list Z := attr_build (set_ln (set_writef a 0) (len d)).
Definition final_mem (a : attrs) (d m : list Z) : list Z :=
  attr_final a d ++ pad16 d ++ drop (16 + len (pad16 d)) m.

Lemma t3_initial_read t a : t3_wf t a -> p_budget t <> 0 ->
  pt_read_ndef t = (Ok (Ndef true true (a_nmaxb a * 16)
                      (take (a_ln a) (slice (p_mem t) 16 (16 * (1 + nblk (a_ln a)))))), t).
Proof.
  intros W Hb. destruct W. destruct wf_aok0 as (? & ? & ? & ? & ? & ? & ?).
  rewrite (read_ndef_pt t a) by (auto; unfold nblk in *; lia).
  unfold attr_readable, attr_writeable, nblk.
  replace ((a_writef a =? 0) && (0 <? a_nbr a)) with true by lia.
  replace (negb (a_rwflag a =? 0) && (0 <? a_nbw a)) with true by lia. reflexivity.
Qed.

Lemma plan_head_ok t a : t3_wf t a -> cmd_ok t (plan_head a).
Proof.
  intro W. destruct W. destruct wf_aok0 as (? & ? & ? & ? & ? & ? & ?). unfold plan_head, cmd_ok. repeat split.
  - apply wr_frame_ok; [reflexivity | constructor; [lia | constructor] | reflexivity | left; cbn; lia].
  - cbn; lia.
  - cbn. lia.
  - constructor; [lia | constructor].
Qed.
Lemma plan_tail_ok t a d : t3_wf t a -> cmd_ok t (plan_tail a d).
Proof.
  intro W. destruct W. destruct wf_aok0 as (? & ? & ? & ? & ? & ? & ?). unfold plan_tail, cmd_ok. repeat split.
  - apply wr_frame_ok; [reflexivity | constructor; [lia | constructor] | reflexivity | left; cbn; lia].
  - cbn; lia.
  - cbn. lia.
  - constructor; [lia | constructor].
Qed.

Lemma wr_batch_bounds t a n : t3_wf t a -> 0 <= n ->
  1 <= wr_batch a n <= p_maxw t /\ (wr_batch a n <= 12 \/ (wr_batch a n <= 13 /\ 1 + nblk n <= 256)).
Proof. intros W Hn. destruct W. unfold wr_batch, nblk. destruct (1 + (n + 15) / 16 <=? 256) eqn:E; lia. Qed.

Lemma plan_data_ok t a d : t3_wf t a -> len d <= 16 * a_nmaxb a ->
  Forall (cmd_ok t) (plan_data a d) /\
  Forall (fun c => Forall (fun b => 1 <= b < 1 + nblk (len d)) (fst c)) (plan_data a d) /\
  (forall m, len m = len (p_mem t) -> apply_cmds m (plan_data a d) = splice m 16 (pad16 d)).
Proof.
  intros W Hd. pose proof (len_nonneg d) as H0. destruct (wr_batch_bounds t a (len d) W H0) as (Hb & Hfr).
  destruct W. destruct wf_aok0 as (? & ? & ? & ? & ? & ? & ?).
  unfold plan_data.
  assert (Hq : nblk (len d) <= a_nmaxb a) by (unfold nblk; lia).
  apply (batches_spec t (wr_batch a (len d)) (1 + nblk (len d))) with (q := nblk (len d)); try lia.
  rewrite pad16_len. reflexivity.
Qed.

Lemma t3_plan_ok t a d : t3_wf t a -> len d <= 16 * a_nmaxb a ->
  cmds_ok t (t3_plan a d) /\
  Forall (fun c => Forall (fun b => 0 <= b < 1 + nblk (len d)) (fst c)) (t3_plan a d) /\
  apply_cmds (p_mem t) (t3_plan a d) = final_mem a d (p_mem t).
Proof.
  intros W Hd. destruct (plan_data_ok t a d W Hd) as (D1 & D2 & D3).
  pose proof (plan_head_ok t a W) as Hh. pose proof (plan_tail_ok t a d W) as Ht.
  pose proof (len_nonneg d) as H0. assert (Hq : 0 <= nblk (len d) <= a_nmaxb a) by (unfold nblk; lia).
  pose proof (wf_blocks t a W) as Hbl.
  unfold t3_plan. repeat split.
  - constructor; [exact Hh|]. apply Forall_app. split; [exact D1 | constructor; [exact Ht | constructor]].
  - constructor; [unfold plan_head; cbn [fst]; constructor; [lia | constructor]|]. apply Forall_app. split.
    + eapply Forall_impl; [|exact D2]. cbn. intros c Hc. eapply Forall_impl; [|exact Hc]. cbn. intros; lia.
    + constructor; [unfold plan_tail; cbn [fst]; constructor; [lia | constructor] | constructor].
  - assert (Hp : len (pad16 d) = 16 * nblk (len d)) by apply pad16_len.
    assert (E1 : forall m A, len A = 16 -> 16 <= len m -> apply_cmd m ([0], A) = splice m 0 A).
    { intros m A HA Hm. unfold apply_cmd. cbn [fst snd]. change [0] with (zrange 0 1).
      rewrite blks_put_zrange by lia. reflexivity. }
    rewrite apply_cmds_cons, apply_cmds_app.
    change (apply_cmds ?x [plan_tail a d]) with (apply_cmd x (plan_tail a d)).
    unfold plan_head, plan_tail. rewrite (E1 (p_mem t)) by (rewrite ?attr_build_len; lia).
    assert (L1 : len (splice (p_mem t) 0 (attr_build (set_writef a 15))) = len (p_mem t))
      by (apply len_splice; rewrite ?attr_build_len; lia).
    rewrite D3 by exact L1.
    assert (L2 : len (splice (splice (p_mem t) 0 (attr_build (set_writef a 15))) 16 (pad16 d)) = len (p_mem t))
      by (rewrite len_splice; lia).
    rewrite E1; [| apply attr_build_len | lia].
    replace 16 with (0 + len (attr_build (set_writef a 15))) at 1 by (rewrite attr_build_len; lia).
    rewrite splice_adj by (rewrite ?attr_build_len; lia).
    rewrite !splice0. unfold final_mem, attr_final. f_equal.
    rewrite attr_build_len. rewrite len_app, attr_build_len.
    rewrite <- app_assoc.
    change 16 with (len (attr_build (set_writef a 15))) at 1. rewrite drop_app_len. reflexivity.
Qed.

(* ------------------------------------------------------------ running _write_ndef_data *)
Lemma wf_basic t a : t3_wf t a -> 1 <= p_maxr t /\ 16 <= len (p_mem t) /\ 0 <= a_nmaxb a < 65536 /\ 0 <= a_ln a.
Proof. intro W. destruct W. destruct wf_aok0 as (? & ? & ? & ? & ? & ? & ?). lia. Qed.

Lemma pt_write_ndef_run t a d : t3_wf t a -> len d <= 16 * a_nmaxb a -> p_budget t <> 0 ->
  exists t' r, pt_write_ndef t d = (r, t') /\ same_tag t t' /\
    (if (p_budget t <? 0) || (Z.of_nat (length (t3_plan a d)) <=? p_budget t)
     then r = Ok tt /\ p_mem t' = final_mem a d (p_mem t)
     else r = Err (TagCommandError 0) /\
          p_mem t' = apply_cmds (p_mem t) (firstn (Z.to_nat (p_budget t)) (t3_plan a d))) /\
    p_log t' = rev (firstn (if p_budget t <? 0 then length (t3_plan a d) else Z.to_nat (p_budget t)) (t3_plan a d)) ++ p_log t.
Proof.
  intros W Hd Hb. destruct (wf_basic t a W) as (B1 & B2 & B3 & B4).
  destruct (t3_plan_ok t a d W Hd) as (P1 & P2 & P3).
  pose proof (len_nonneg d) as H0. destruct (wr_batch_bounds t a (len d) W H0) as (Hwb & _).
  unfold pt_write_ndef, write_ndef. rewrite read_attr_pt by lia. rewrite (wf_attr t a W).
  replace (wr_batch a (len d) =? 0) with false by lia.
  destruct (run_cmds_budget (t3_plan a d) t P1 (wf_rw t a W)) as (t' & Hs & Hrun & Hlog).
  cbv zeta in Hrun. destruct ((p_budget t <? 0) || (Z.of_nat (length (t3_plan a d)) <=? p_budget t)) eqn:E.
  - destruct Hrun as (R1 & R2 & R3). exists t', (Ok tt). rewrite R1, R2, P3. repeat split; auto; apply Hs.
  - destruct Hrun as (R1 & R2). exists t', (Err (TagCommandError 0)). rewrite R1, R2. repeat split; auto; apply Hs.
Qed.

(* ------------------------------------------------------------ a fresh reader on the final memory *)
Lemma final_mem_len t a d : t3_wf t a -> len d <= 16 * a_nmaxb a -> len (final_mem a d (p_mem t)) = len (p_mem t).
Proof.
  intros W Hd. destruct (wf_basic t a W) as (B1 & B2 & B3 & B4). pose proof (wf_blocks t a W). pose proof (len_nonneg d).
  unfold final_mem, attr_final. rewrite !len_app, attr_build_len, pad16_len, len_drop; rewrite ?pad16_len; lia.
Qed.

Lemma fresh_after_write t a d : t3_wf t a -> len d <= 16 * a_nmaxb a ->
  pt_fresh (final_mem a d (p_mem t)) (p_maxr t) (p_maxw t) (p_rw t) = Ok (Ndef true true (a_nmaxb a * 16) d).
Proof.
  intros W Hd. destruct (wf_basic t a W) as (B1 & B2 & B3 & B4). pose proof (len_nonneg d) as H0.
  pose proof (final_mem_len t a d W Hd) as HL. pose proof (pad16_len d) as HP.
  set (a2 := set_ln (set_writef a 0) (len d)).
  unfold pt_fresh.
  assert (Ha2 : attr_parse (take 16 (final_mem a d (p_mem t))) = Some a2).
  { unfold final_mem, attr_final. fold a2. change 16 with (len (attr_build a2)) at 1. rewrite take_app_len.
    apply attr_roundtrip. destruct (wf_aok t a W) as (? & ? & ? & ? & ? & ? & ?). unfold a2, attrs_ok. cbn. lia. }
  destruct W.
  rewrite (read_ndef_pt _ a2); cbn [p_mem p_budget p_maxr fst]; auto; try (unfold a2; cbn; lia).
  - change (a_ln a2) with (len d). change (a_nmaxb a2) with (a_nmaxb a).
    assert (Hs : slice (final_mem a d (p_mem t)) 16 (16 * (1 + (len d + 15) / 16)) = pad16 d).
    { rewrite slice_take_drop by lia. unfold final_mem, attr_final. fold a2.
      set (A2 := attr_build a2). set (R := drop (16 + len (pad16 d)) (p_mem t)).
      assert (E : drop 16 (A2 ++ pad16 d ++ R) = pad16 d ++ R) by (change 16 with (len A2); apply drop_app_len).
      rewrite E. replace (16 * (1 + (len d + 15) / 16) - 16) with (len (pad16 d)) by lia. apply take_app_len. }
    rewrite Hs, pad16_take. unfold attr_readable, attr_writeable, a2. cbn [a_writef a_nbr a_rwflag a_nbw a_nmaxb set_ln set_writef].
    replace ((0 =? 0) && (0 <? a_nbr a)) with true by lia.
    replace (negb (a_rwflag a =? 0) && (0 <? a_nbw a)) with true by lia. reflexivity.
  - change (a_ln a2) with (len d). lia.
  - change (a_ln a2) with (len d). lia.
Qed.

(* ------------------------------------------------------------ C01 *)
Theorem t3_write_read_pt t a d : t3_wf t a -> p_budget t < 0 -> len d <= a_nmaxb a * 16 ->
  exists old t',
    pt_read_ndef t = (Ok (Ndef true true (a_nmaxb a * 16) old), t) /\
    pt_set_octets (Ndef true true (a_nmaxb a * 16) old) t d = (Ok tt, t') /\
    pt_fresh (p_mem t') (p_maxr t') (p_maxw t') (p_rw t') = Ok (Ndef true true (a_nmaxb a * 16) d).
Proof.
  intros W Hb Hd. eexists. 
  destruct (pt_write_ndef_run t a d W) as (t' & r & Hw & Hs & Hm & _); [lia | lia |].
  exists t'. split; [apply t3_initial_read; [exact W | lia]|].
  replace ((p_budget t <? 0) || _) with true in Hm by lia. destruct Hm as (-> & Hm).
  split.
  - unfold pt_set_octets, set_octets. cbn [negb]. replace (len d >? a_nmaxb a * 16) with false by lia. exact Hw.
  - destruct Hs as (-> & -> & ->). rewrite Hm. apply fresh_after_write; [exact W | lia].
Qed.

Theorem t3_capacity_sound_pt t a : t3_wf t a -> 16 + a_nmaxb a * 16 <= len (p_mem t).
Proof. intro W. pose proof (wf_blocks t a W). lia. Qed.

Theorem t3_oversize_rejected_pt t r cap old d : len d > cap ->
  pt_set_octets (Ndef r true cap old) t d = (Err ValueError, t).
Proof. intro H. unfold pt_set_octets, set_octets. cbn [negb]. now replace (len d >? cap) with true by lia. Qed.
