(* C05 - progress: from every reachable state a finite continuation of link and receive steps (no
   further send) delivers everything that was accepted, in both directions.  Together with
   in_order_exactly_once: every accepted message is eventually returned, exactly once, in order,
   provided the link keeps exchanging and the applications keep receiving. *)
From Coq Require Import ZArith List Bool Lia ZifyBool Arith.
From NV Require Import Base.Result Base.Bytes Model.Dlc Proofs.DlcBase Proofs.Dlc Proofs.DlcCor.
Import ListNotations.
Open Scope Z_scope.
Ltac Zify.zify_post_hook ::= Z.to_euclidean_division_equations.

Lemma fold_repeat_S o n s : fold_left step (repeat o (S n)) s = fold_left step (repeat o n) (step s o).
Proof. reflexivity. Qed.

Lemma inv_run_from s ops : Inv s -> Inv (fold_left step ops s).
Proof. revert s; induction ops as [|o ops IH]; intros s H; cbn [fold_left]; [exact H|]. apply IH, inv_step, H. Qed.

(* ---- frame facts of emit / deliver / recv (no invariant needed) ---- *)
Lemma emit_ep s sd x' po : get_ep (fst (emit s sd (x', po))) sd = x'.
Proof. unfold emit. destruct po; cbn [fst]; gs; reflexivity. Qed.
Lemma emit_ep_o s sd r : get_ep (fst (emit s sd r)) (other sd) = get_ep s (other sd).
Proof. unfold emit. destruct r as [x' [p|]]; cbn [fst]; gs; reflexivity. Qed.
Lemma emit_w_o s sd r : get_w (fst (emit s sd r)) (other sd) = get_w s (other sd).
Proof. unfold emit. destruct r as [x' [p|]]; cbn [fst]; gs; reflexivity. Qed.

Lemma deliver_w s sd : get_w (step s (Deliver sd)) (other sd) = tl (get_w s (other sd)).
Proof.
  unfold step, step_full. destruct (get_w s (other sd)) as [|p w] eqn:E; cbn [fst]; [rewrite E; reflexivity|].
  destruct (ep_enqueue (get_ep s sd) p) as [x' r]. cbn [fst tl].
  destruct sd, s; reflexivity.
Qed.
Lemma deliver_w_own s sd : get_w (step s (Deliver sd)) sd = get_w s sd.
Proof.
  unfold step, step_full. destruct (get_w s (other sd)) as [|p w] eqn:E; cbn [fst]; [reflexivity|].
  destruct (ep_enqueue (get_ep s sd) p) as [x' r]. cbn [fst]. destruct sd, s; reflexivity.
Qed.
Lemma deliver_ep_o s sd : get_ep (step s (Deliver sd)) (other sd) = get_ep s (other sd).
Proof.
  unfold step, step_full. destruct (get_w s (other sd)) as [|p w] eqn:E; cbn [fst]; [reflexivity|].
  destruct (ep_enqueue (get_ep s sd) p) as [x' r]. cbn [fst]. destruct sd, s; reflexivity.
Qed.

Lemma recv_frame s sd :
  get_ep (step s (Recv sd)) (other sd) = get_ep s (other sd) /\
  get_w (step s (Recv sd)) sd = get_w s sd /\ get_w (step s (Recv sd)) (other sd) = get_w s (other sd) /\
  sq (get_ep (step s (Recv sd)) sd) = sq (get_ep s sd).
Proof.
  unfold step, step_full.
  assert (Hsq : sq (fst (ep_recv_nb (get_ep s sd))) = sq (get_ep s sd)).
  { unfold ep_recv_nb, ep_poll_recv, ep_recv. destruct (negb (est (get_ep s sd))); [reflexivity|].
    destruct (rq (get_ep s sd)); [reflexivity|]. destruct (rwl (get_ep s sd) <? confs (get_ep s sd) + 1); reflexivity. }
  destruct (ep_recv_nb (get_ep s sd)) as [x' r]. cbn [fst] in *.
  destruct r as [[d|]|e| |]; try destruct e; destruct sd, s; cbn in *; auto.
Qed.

(* ---- one dequeue step under the invariant ---- *)
Definition pend (x : ep) : nat := (length (sq x) + if eqb (busy_sent x) (busy x) then 0 else 1)%nat.

Lemma deq_step s sd M : Inv s ->
  Forall (fun p => pdu_info_size p 0 <= M) (sq (get_ep s sd)) ->
  let x' := get_ep (step s (Deq sd M 0)) sd in
  Forall (fun p => pdu_info_size p 0 <= M) (sq x') /\ pend x' = pred (pend (get_ep s sd)) /\ rq x' = rq (get_ep s sd).
Proof.
  intros HI Hsz. destruct (HI sd) as (_ & Ex & Ix & _).
  cbv zeta. unfold step, step_full.
  destruct (ep_dequeue (get_ep s sd) M 0) as [x1 po] eqn:E. rewrite emit_ep.
  unfold ep_dequeue in E. rewrite Ex in E. cbn [andb] in E. unfold pend.
  destruct (eqb (busy_sent (get_ep s sd)) (busy (get_ep s sd))) eqn:Eb; cbn [negb] in E.
  2:{ injection E as <- _. sim. rewrite eqb_reflx. repeat split; [assumption|lia]. }
  destruct (sq (get_ep s sd)) as [|p q] eqn:Esq.
  { unfold necessary_ack, ack_now in E. cbv zeta in E. rewrite Ex in E.
    destruct (true && negb (confs (get_ep s sd) =? 0) && (recv_window_slots (get_ep s sd) =? 0)); injection E as <- _; sim;
      rewrite ?Esq, ?Eb; repeat split; auto. }
  inversion Hsz as [|? ? Hp Hq]; subst. inversion Ix as [|? ? HpI Iq]; subst.
  replace (M <? pdu_info_size p 0) with false in E by lia.
  destruct p as [ns nr d| | |]; try discriminate HpI.
  destruct (negb (confs (get_ep s sd) =? 0) && negb (vr (get_ep s sd) =? vra (get_ep s sd))); injection E as <- _; sim;
    rewrite ?Eb; repeat split; auto; cbn [length]; lia.
Qed.

Lemma deq_drain sd M n : forall s, Inv s ->
  Forall (fun p => pdu_info_size p 0 <= M) (sq (get_ep s sd)) -> (pend (get_ep s sd) <= n)%nat ->
  let s' := fold_left step (repeat (Deq sd M 0) n) s in
  sq (get_ep s' sd) = [] /\ rq (get_ep s' sd) = rq (get_ep s sd) /\
  get_ep s' (other sd) = get_ep s (other sd) /\ get_w s' (other sd) = get_w s (other sd).
Proof.
  induction n as [|n IH]; intros s HI Hsz Hn; cbn zeta.
  - cbn [repeat fold_left]. unfold pend in Hn. destruct (sq (get_ep s sd)); [auto|cbn [length] in Hn; lia].
  - rewrite fold_repeat_S. destruct (deq_step s sd M HI Hsz) as (H1 & H2 & H3).
    destruct (IH (step s (Deq sd M 0)) (inv_step _ _ HI) H1 ltac:(lia)) as (A1 & A2 & A3 & A4).
    repeat split; [exact A1 | rewrite A2; exact H3 | rewrite A3 | rewrite A4]; unfold step, step_full.
    + apply emit_ep_o.
    + apply emit_w_o.
Qed.

Lemma deliver_drain sd n : forall s, (length (get_w s (other sd)) <= n)%nat ->
  let s' := fold_left step (repeat (Deliver sd) n) s in
  get_w s' (other sd) = [] /\ get_ep s' (other sd) = get_ep s (other sd) /\ get_w s' sd = get_w s sd.
Proof.
  induction n as [|n IH]; intros s Hn; cbn zeta.
  - cbn [repeat fold_left]. destruct (get_w s (other sd)); [auto|cbn [length] in Hn; lia].
  - rewrite fold_repeat_S.
    destruct (IH (step s (Deliver sd))) as (A1 & A2 & A3).
    { rewrite deliver_w. destruct (get_w s (other sd)); cbn [tl length] in *; lia. }
    repeat split; [exact A1 | rewrite A2; apply deliver_ep_o | rewrite A3; apply deliver_w_own].
Qed.

Lemma recv_step s sd : Inv s -> rq (get_ep (step s (Recv sd)) sd) = tl (rq (get_ep s sd)).
Proof.
  intro HI. destruct (HI sd) as (_ & Ex & _).
  unfold step, step_full, ep_recv_nb, ep_poll_recv, ep_recv. rewrite Ex. cbn [negb].
  destruct (rq (get_ep s sd)) as [|d q] eqn:E.
  - cbn [fst]. gs. rewrite E. reflexivity.
  - destruct (rwl (get_ep s sd) <? confs (get_ep s sd) + 1); cbn [fst]; gs; reflexivity.
Qed.

Lemma recv_drain sd n : forall s, Inv s -> (length (rq (get_ep s sd)) <= n)%nat ->
  let s' := fold_left step (repeat (Recv sd) n) s in
  rq (get_ep s' sd) = [] /\ sq (get_ep s' sd) = sq (get_ep s sd) /\ get_ep s' (other sd) = get_ep s (other sd) /\
  get_w s' sd = get_w s sd /\ get_w s' (other sd) = get_w s (other sd).
Proof.
  induction n as [|n IH]; intros s HI Hn; cbn zeta.
  - cbn [repeat fold_left]. destruct (rq (get_ep s sd)); [auto 6|cbn [length] in Hn; lia].
  - rewrite fold_repeat_S. destruct (recv_frame s sd) as (F1 & F2 & F3 & F4).
    destruct (IH (step s (Recv sd)) (inv_step _ _ HI)) as (A1 & A2 & A3 & A4 & A5).
    { rewrite (recv_step s sd HI). destruct (rq (get_ep s sd)); cbn [tl length] in *; lia. }
    repeat split; [exact A1 | rewrite A2; exact F4 | rewrite A3; exact F1 | rewrite A4; exact F2 | rewrite A5; exact F3].
Qed.

(* Deliver keeps the receiving side's send queue (no frame reject under the invariant) *)
Lemma deliver_sq s sd : Inv s -> sq (get_ep (step s (Deliver sd)) sd) = sq (get_ep s sd).
Proof.
  intro HI. destruct (HI sd) as (Hxy & Ex & Ix & Fxy). destruct (HI (other sd)) as (Hyx & Ey & Iy & Fyx).
  rewrite other_other in Hyx.
  unfold step, step_full.
  destruct (get_w s (other sd)) as [|p w] eqn:Ew; [reflexivity|].
  inversion Fyx as [|? ? HpF Fw]; subst.
  unfold ep_enqueue. rewrite Ex; cbn [negb].
  destruct p as [ns nr d|nr|nr|]; try discriminate HpF; clear HpF.
  - unfold Dir in Hyx. cbn [Is app] in Hyx. apply dir_accept in Hyx. destruct Hyx as (Hns & Hd & Hroom & _).
    destruct (rmiu (get_ep s sd) <? len d) eqn:E1; [lia|].
    destruct (negb (ns =? vr (get_ep s sd))) eqn:E2; [lia|].
    unfold process_nr. destruct ((nr - vsa (get_ep s sd)) mod 16 =? 0); sim;
      (destruct (len (rq (get_ep s sd)) <? rbuf (get_ep s sd)) eqn:E3; [|lia]); cbn [fst]; gs; reflexivity.
  - unfold process_nr. destruct ((nr - vsa (get_ep s sd)) mod 16 =? 0); cbn [fst]; gs; reflexivity.
  - unfold process_nr. destruct ((nr - vsa (get_ep s sd)) mod 16 =? 0); cbn [fst]; gs; reflexivity.
Qed.

Lemma deliver_sq_n sd n : forall s, Inv s -> sq (get_ep (fold_left step (repeat (Deliver sd) n) s) sd) = sq (get_ep s sd).
Proof.
  induction n as [|n IH]; intros s HI; [reflexivity|]. rewrite fold_repeat_S, IH by (apply inv_step, HI). apply deliver_sq, HI.
Qed.

(* ---- flushing one direction ---- *)
Definition Drained (s : sys) (sd : side) : Prop :=
  sq (get_ep s sd) = [] /\ get_w s sd = [] /\ rq (get_ep s (other sd)) = [].

Definition no_send (o : op) : Prop := match o with Send _ _ => False | _ => True end.

Lemma Forall_repeat {A} (P : A -> Prop) x n : P x -> Forall P (repeat x n).
Proof. intro H. induction n; cbn; constructor; auto. Qed.

Lemma flush_dir s sd : Inv s -> exists ops, Forall no_send ops /\
  let s' := fold_left step ops s in Drained s' sd /\ (Drained s (other sd) -> Drained s' (other sd)).
Proof.
  intro HI. destruct (HI sd) as (Hxy & _).
  (* every queued I PDU is within the MIU, so a dequeue with that MIU never re-queues *)
  set (M := rmiu (get_ep s (other sd))).
  assert (Hsz : Forall (fun p => pdu_info_size p 0 <= M) (sq (get_ep s sd))).
  { destruct (HI sd) as (_ & _ & Ix & _). unfold Dir in Hxy. dir_intro Hxy. clear - Hsz Ix. fold M in Hsz.
    rewrite map_app, Forall_app in Hsz. destruct Hsz as [_ Hsz]. revert Ix Hsz.
    induction (sq (get_ep s sd)) as [|p q IH]; intros Ix Hsz; [constructor|].
    inversion Ix as [|? ? HpI Iq]; subst. destruct p as [ns nr d| | |]; try discriminate HpI.
    cbn [Is map snd] in Hsz. inversion Hsz; subst. constructor; [cbn; lia|auto]. }
  set (n1 := pend (get_ep s sd)).
  set (s1 := fold_left step (repeat (Deq sd M 0) n1) s).
  destruct (deq_drain sd M n1 s HI Hsz (le_n _)) as (D1 & D2 & D3 & D4). fold s1 in D1, D2, D3, D4.
  assert (HI1 : Inv s1) by (apply inv_run_from, HI).
  set (n2 := length (get_w s1 sd)).
  set (s2 := fold_left step (repeat (Deliver (other sd)) n2) s1).
  destruct (deliver_drain (other sd) n2 s1) as (E1 & E2 & E3); [rewrite other_other; apply le_n|].
  rewrite other_other in E1, E2. fold s2 in E1, E2, E3.
  assert (HI2 : Inv s2) by (apply inv_run_from, HI1).
  set (n3 := length (rq (get_ep s2 (other sd)))).
  set (s3 := fold_left step (repeat (Recv (other sd)) n3) s2).
  destruct (recv_drain (other sd) n3 s2 HI2 (le_n _)) as (R1 & R2 & R3 & R4 & R5).
  rewrite other_other in R3, R5. fold s3 in R1, R2, R3, R4, R5.
  exists (repeat (Deq sd M 0) n1 ++ repeat (Deliver (other sd)) n2 ++ repeat (Recv (other sd)) n3).
  split.
  - rewrite !Forall_app. repeat split; apply Forall_repeat; exact I.
  - cbn zeta. rewrite !fold_left_app. fold s1. fold s2. fold s3. split.
    + unfold Drained. rewrite R3, E2, R5, E1, R1. auto.
    + intros (G1 & G2 & G3). rewrite other_other in G3. unfold Drained. rewrite other_other.
      repeat split.
      * rewrite R2. unfold s2. rewrite deliver_sq_n by exact HI1. rewrite D3. exact G1.
      * rewrite R4, E3, D4. exact G2.
      * rewrite R3, E2, D2. exact G3.
Qed.

Theorem progress c ops : cfg_ok c -> exists ops', Forall no_send ops' /\
  let h := outs (init c) (ops ++ ops') in
  returned B h = accepted A h /\ returned A h = accepted B h.
Proof.
  intro Hc. pose proof (inv_reachable c ops Hc) as HI0.
  destruct (flush_dir (run c ops) A HI0) as (o1 & N1 & DA & _). cbn zeta in DA.
  set (s1 := fold_left step o1 (run c ops)) in *.
  assert (HI1 : Inv s1) by (apply inv_run_from, HI0).
  destruct (flush_dir s1 B HI1) as (o2 & N2 & DB & KA). cbn zeta in DB, KA. cbn [other] in KA.
  specialize (KA DA).
  exists (o1 ++ o2). split; [apply Forall_app; auto|]. cbn zeta.
  pose proof (in_order_exactly_once c (ops ++ o1 ++ o2) A Hc) as PA.
  pose proof (in_order_exactly_once c (ops ++ o1 ++ o2) B Hc) as PB. cbn zeta in PA, PB.
  assert (Er : run c (ops ++ o1 ++ o2) = fold_left step o2 s1).
  { unfold run. rewrite !fold_left_app. reflexivity. }
  rewrite Er in PA, PB. cbn [other] in PA, PB.
  destruct KA as (A1 & A2 & A3). destruct DB as (B1 & B2 & B3). cbn [other] in A3, B3.
  rewrite A1, A2, A3 in PA. rewrite B1, B2, B3 in PB. cbn [Is map app] in PA, PB.
  rewrite app_nil_r in PA, PB. split; symmetry; assumption.
Qed.
