(* ISO-DEP: what the reader as pinned (before fixes/c12-*.diff) does wrong, as concrete runs of
   the model with the fix flags off, and what remains wrong after the repairs (an exchange
   that follows a failed one).  Witnesses are computed with vm_compute. *)
From Coq Require Import ZArith List Bool Lia ZifyBool.
From NV Require Import Base.Result Base.Bytes Model.IsoDep Proofs.IsoDep Proofs.IsoDepSync.
Import ListNotations.
Open Scope Z_scope.

Definition k_legacy : cfg :=
  {| miu := 13; n_nak := 1; n_ack := 1; fix_wtx_try := false; fix_wtx_chain := false; fix_rack := false |}.
Definition k_repaired : cfg :=
  {| miu := 13; n_nak := 1; n_ack := 1; fix_wtx_try := true; fix_wtx_chain := true; fix_rack := true |}.
Definition kc16 : ccfg := {| cfsc := 16; cmiu := 13 |}.

(* S(WTX) request answered outside the try: the loss of the card's next block escapes as a raw
   nfc.clf.TimeoutError although one lost block is within the retry budget *)
Lemma legacy_wtx_raw_timeout :
  o_res (exchange demo_app 50 k_legacy kc16 [255; 0; 0; 5] 0 (picc_init [[1]]) [(FD, FD); (FD, FL)])
  = Err TimeoutError.
Proof. vm_compute. reflexivity. Qed.
Lemma repaired_wtx_recovers :
  o_res (exchange demo_app 50 k_repaired kc16 [255; 0; 0; 5] 0 (picc_init [[1]]) [(FD, FD); (FD, FL)])
  = Ok (demo_app 0 [255; 0; 0; 5]).
Proof. vm_compute. reflexivity. Qed.

(* S(WTX) while the card chains its response is not honoured: without any fault the exchange fails *)
Lemma legacy_wtx_chaining_fails :
  exists e, o_res (exchange demo_app 50 k_legacy kc16 [255; 0; 0; 30] 0 (picc_init [[]; [3]]) []) = Err (TagCommandError e).
Proof. eexists. vm_compute. reflexivity. Qed.
Lemma repaired_wtx_chaining :
  o_res (exchange demo_app 50 k_repaired kc16 [255; 0; 0; 30] 0 (picc_init [[]; [3]]) []) = Ok (demo_app 0 [255; 0; 0; 30]).
Proof. vm_compute. reflexivity. Qed.

(* a responder that always answers R(ACK) with the other block number keeps the unbudgeted
   reader sending for ever: Hang for EVERY amount of fuel *)
Lemma absorb_rack_unbudgeted k cmd off i d pn : bit pn -> fix_rack k = false ->
  pcd_absorb k cmd (mkp pn (PSend off i d)) (ARx [Z.lor 162 (flip pn)]) = mkp pn (PSend off (i + 1) (iblock k cmd pn off)).
Proof.
  intros Hb Hr. unfold pcd_absorb. cbn [ph pni mkp]. rewrite len_cons_eqb0, idx0, Hr.
  destruct Hb as [-> | ->]; cbn [flip Z.eqb]; change (Z.lor 162 1) with 163; change (Z.lor 162 0) with 162.
  - change (is_wtx 163) with false. change (is_rack_other 0 163) with true. cbn [andb].
    destruct (fix_wtx_try k); reflexivity.
  - change (is_wtx 162) with false. change (is_rack_other 1 162) with true. cbn [andb].
    destruct (fix_wtx_try k); reflexivity.
Qed.

Lemma rack_loop_from k cmd : fix_rack k = false ->
  forall fuel i n, run_stream fuel k cmd (mkp 0 (PSend 0 i (iblock k cmd 0 0))) (fun _ => ARx [163]) n = Hang.
Proof.
  intros Hr fuel. induction fuel as [|f IH]; intros i n; [reflexivity|].
  cbn [run_stream ph mkp].
  change {| pni := 0; ph := PSend 0 i (iblock k cmd 0 0) |} with (mkp 0 (PSend 0 i (iblock k cmd 0 0))).
  change [163] with [Z.lor 162 (flip 0)].
  rewrite (absorb_rack_unbudgeted k cmd 0 i (iblock k cmd 0 0) 0 (or_introl eq_refl) Hr). apply IH.
Qed.

Theorem rack_loop_unbudgeted k cmd : fix_rack k = false -> 0 < miu k -> 0 < len cmd ->
  forall fuel, run_stream fuel k cmd (pcd_start k cmd 0) (fun _ => ARx [163]) 0 = Hang.
Proof.
  intros Hr Hm Hc fuel. unfold pcd_start.
  replace (miu k =? 0) with false by lia. replace ((len cmd <=? 0) || (miu k <? 0)) with false by lia.
  apply (rack_loop_from k cmd Hr).
Qed.

(* what the repairs do not cure: after an exchange has FAILED (here: the response and the answer to the
   R(NAK) are lost, budget 1) reader and card block numbers may be out of step, and the next exchange
   - a single lost block, within the budget - makes the card execute the APDU twice *)
Definition after_failure_session : list outcome :=
  session demo_app 50 k_repaired kc16 0 (picc_init [])
    [([255; 1; 0; 5], [(FD, FL); (FD, FL)], []); ([255; 2; 0; 5], [(FD, FL)], [])].

Lemma after_failed_exchange_duplicate :
  map o_res after_failure_session = [Err (TagCommandError E_TIMEOUT); Ok (demo_app 2 [255; 2; 0; 5])] /\
  map (fun o => execs (o_card o)) after_failure_session =
    [[[255; 1; 0; 5]]; [[255; 1; 0; 5]; [255; 2; 0; 5]; [255; 2; 0; 5]]].
Proof. vm_compute. split; reflexivity. Qed.

(* ... or hands the previous command's response to the caller (stale), without executing anything *)
Definition after_failure_stale : list outcome :=
  session demo_app 50 k_repaired kc16 0 (picc_init [])
    [([255; 1; 0; 5], [(FD, FL); (FD, FL)], []); ([255; 2; 0; 5], [(FL, FD)], [])].
Lemma after_failed_exchange_stale :
  map o_res after_failure_stale = [Err (TagCommandError E_TIMEOUT); Ok (demo_app 0 [255; 1; 0; 5])] /\
  map (fun o => execs (o_card o)) after_failure_stale = [[[255; 1; 0; 5]]; [[255; 1; 0; 5]]].
Proof. vm_compute. split; reflexivity. Qed.

(* ---------------------------------------------------------------- activation parameters *)
Lemma t4_params_fsc fsci fwti max_send max_recv :
  let p := t4_params fsci fwti max_send max_recv in
  a_fsc p <= fsc_of (if fsci >? 8 then 8 else fsci) /\ a_fsc p <= Z.max max_send (a_fsc p) /\
  (a_fsc p <= max_send \/ a_fsc p = fsc_of (if fsci >? 8 then 8 else fsci)) /\ a_miu p = a_fsc p - 3.
Proof.
  cbv zeta. unfold t4_params. cbn [a_fsc a_miu].
  destruct (fsc_of (if fsci >? 8 then 8 else fsci) >? max_send) eqn:E; repeat split; try lia.
Qed.

(* a concrete exchange with chaining both ways, S(WTX) twice and four faulty rounds (non-vacuity) *)
Definition nv_cmd : bytes := [255; 7; 0; 20; 1; 2; 3; 4; 5; 6; 7; 8; 9; 10; 11; 12; 13; 14; 15; 16].
Definition nv_script : list (fate * fate) := [(FL, FD); (FD, FD); (FD, FC); (FD, FD); (FD, FD); (FD, FL); (FC, FD)].
Definition nv_card : picc := picc_init [[]; [7]; [9]].
Definition k_nv : cfg :=
  {| miu := 13; n_nak := 3; n_ack := 3; fix_wtx_try := true; fix_wtx_chain := true; fix_rack := true |}.
Lemma nv_hyps : repaired k_nv /\ params_ok k_nv kc16 /\ in_step 0 nv_card /\ 0 < len nv_cmd /\
  enough_fuel demo_app k_nv nv_cmd nv_card 900.
Proof. unfold repaired, params_ok, in_step, enough_fuel, bit. vm_compute. intuition congruence. Qed.
Lemma nv_run :
  let o := exchange demo_app 900 k_nv kc16 nv_cmd 0 nv_card nv_script in
  o_res o = Ok (demo_app 0 nv_cmd) /\ execs (o_card o) = [nv_cmd] /\ length (o_blocks o) = 10%nat.
Proof. vm_compute. repeat split. Qed.

(* outside C12 (non-conformant responder, recorded for C08): an S(WTX) block without the WTXM byte crashed the
   pinned reader with IndexError (data[1]); since fixes/c08-03 (HEAD, flags on) it is PROTOCOL_ERROR *)
Lemma short_wtx_crash :
  run_stream 5 k_legacy [0; 164; 0; 0] (pcd_start k_legacy [0; 164; 0; 0] 0) (fun _ => ARx [242]) 0 = Crash IndexErr /\
  run_stream 5 k_repaired [0; 164; 0; 0] (pcd_start k_repaired [0; 164; 0; 0] 0) (fun _ => ARx [242]) 0
    = Err (TagCommandError E_PROTOCOL).
Proof. vm_compute. split; reflexivity. Qed.
