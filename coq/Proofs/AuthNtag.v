(* C20: NTAG21x password authentication against the tag model, password provisioning. *)
From Coq Require Import ZArith List Bool Lia.
From NV Require Import Base.Result Base.Bytes Base.PyPrims Model.FelicaMac Model.Ntag Proofs.AuthTag.
Import ListNotations.
Open Scope Z_scope.

Lemma list4 {A} (l : list A) : length l = 4%nat -> exists a b c d, l = [a; b; c; d].
Proof. intro H. do 4 (destruct l as [|? l]; [discriminate|]). destruct l; [|discriminate]. repeat eexists. Qed.
Lemma list6 {A} (l : list A) : length l = 6%nat -> exists a b c d e f, l = [a; b; c; d; e; f].
Proof. intro H. do 6 (destruct l as [|? l]; [discriminate|]). destruct l; [|discriminate]. repeat eexists. Qed.

Lemma ntag_key_length pw key : ntag_key pw = Ok key -> length key = 6%nat.
Proof.
  unfold ntag_key. destruct ((0 <? len pw) && (len pw <? 6)) eqn:E; [discriminate|].
  intro H. assert (Hk : key = (if len pw =? 0 then [255; 255; 255; 255; 0; 0] else firstn 6 pw)) by congruence.
  clear H. subst key. destruct (len pw =? 0) eqn:E0; [reflexivity|].
  rewrite firstn_length. apply Z.eqb_neq in E0. apply andb_false_iff in E. unfold len in *.
  destruct E as [E|E]; [apply Z.ltb_ge in E | apply Z.ltb_ge in E]; lia.
Qed.

(* PWD_AUTH against the tag: exact comparison of all 48 bits *)
Theorem ntag_auth_exact tg st pw key :
  n_target st = true -> ntag_key pw = Ok key ->
  exists b tg', ntag_authenticate nhonest pw (tg, st) = ((tg', mkN true b), Ok b) /\
    nt_cfg tg' = nt_cfg tg /\ nt_mem tg' = nt_mem tg /\ nt_eff tg' = nt_eff tg /\
    (b = true <-> (firstn 4 key = nt_pwd tg /\ nt_pack tg = skipn 4 key)).
Proof.
  intros Ht Hk. destruct (list6 key (ntag_key_length pw key Hk)) as (k0 & k1 & k2 & k3 & k4 & k5 & ->).
  unfold ntag_authenticate, ntag_authenticate_inner, nbind, nlift. rewrite Hk.
  unfold transceive. cbn [fst snd]. rewrite Ht. cbn [negb firstn nexchange_retry]. unfold nhonest.
  cbn [ntag_step]. destruct st as [tgt au]. cbn [n_target n_auth] in *. subst tgt.
  destruct (list_eqb [k0; k1; k2; k3] (nt_pwd tg)) eqn:EP.
  - apply list_eqb_eq in EP. cbn [slice Z.max Z.sub Z.to_nat skipn firstn Z.opp Z.add Pos.to_nat Pos.iter_op Nat.add Z.pos_sub Pos.pred_double].
    change (slice [k0; k1; k2; k3; k4; k5] 4 6) with [k4; k5].
    exists (list_eqb (nt_pack tg) [k4; k5]), (mkNT (nt_cfg tg) (nt_mem tg) (nt_eff tg) true).
    split; [reflexivity|]. split; [reflexivity|]. split; [reflexivity|]. split; [reflexivity|]. split.
    + intro H. apply list_eqb_eq in H. split; [exact EP | exact H].
    + intros [_ H]. apply list_eqb_eq. exact H.
  - change (slice [k0; k1; k2; k3; k4; k5] 4 6) with [k4; k5].
    exists false, (mkNT (nt_cfg tg) (nt_mem tg) (nt_eff tg) false).
    split.
    + unfold NAK. cbn [list_eqb]. rewrite andb_false_r. reflexivity.
    + split; [reflexivity|]. split; [reflexivity|]. split; [reflexivity|]. split; [discriminate|].
      intros [H _]. cbn [firstn] in H. rewrite <- H, list_eqb_refl in EP. discriminate.
Qed.

(* ---- undisturbed READ / WRITE -------------------------------------------------------------------- *)
Definition nt_wf (tg : ntag) : Prop := forall q, length (nt_mem tg q) = 4%nat.

Lemma nt_read_page_len tg p : nt_wf tg -> length (nt_read_page tg p) = 4%nat.
Proof.
  intro H. unfold nt_read_page. destruct (_ =? _); [reflexivity|]. destruct (_ =? _); [|apply H].
  rewrite app_length, skipn_length, H. reflexivity.
Qed.

Lemma nhonest_read tg st p :
  nt_wf tg -> n_target st = true -> 0 <= p < 256 -> p < nt_npages tg ->
  nt_prot tg && negb (nt_authed tg) && (nt_auth0 tg <=? p) = false ->
  nread nhonest nsense_present p (tg, st) =
    ((tg, st), Ok (nt_read_page tg p ++ nt_read_page tg (p + 1) ++ nt_read_page tg (p + 2) ++ nt_read_page tg (p + 3))).
Proof.
  intros Hwf Ht Hp Hn Hacc. unfold nread, nbind, transceive. cbn [fst snd]. rewrite Ht. cbn [negb nexchange_retry].
  rewrite Z.mod_small by lia. unfold nhonest. cbn [ntag_step].
  replace ((p <? 0) || (nt_npages tg <=? p)) with false
    by (symmetry; apply orb_false_iff; split; [apply Z.ltb_ge | apply Z.leb_gt]; lia).
  rewrite Hacc.
  set (data := nt_read_page tg p ++ _).
  assert (HL : len data = 16) by (unfold data, len; rewrite !app_length, !nt_read_page_len by assumption; reflexivity).
  rewrite HL. cbn [Z.eqb Pos.eqb andb negb]. unfold nret. reflexivity.
Qed.

Definition nt_with_page (tg : ntag) (p : Z) (d : list Z) : ntag :=
  mkNT (nt_cfg tg) (mem_set (nt_mem tg) p d) (nt_eff tg) (nt_authed tg).

Lemma nt_with_page_wf tg p d : nt_wf tg -> length d = 4%nat -> nt_wf (nt_with_page tg p d).
Proof. intros H Hd q. unfold nt_with_page, mem_set. cbn [nt_mem]. destruct (q =? p); [exact Hd | apply H]. Qed.

Lemma nhonest_write tg st p a b c d :
  n_target st = true -> 0 <= p < 256 -> 2 <= p < nt_npages tg ->
  negb (nt_authed tg) && (nt_auth0 tg <=? p) = false ->
  nwrite nhonest p [a; b; c; d] (tg, st) = ((nt_with_page tg p [a; b; c; d], st), Ok true).
Proof.
  intros Ht Hp Hn Hacc. unfold nwrite. cbn [len length Z.of_nat Pos.of_succ_nat Pos.succ Z.eqb Pos.eqb negb].
  unfold nbind, transceive. cbn [fst snd]. rewrite Ht. cbn [negb app nexchange_retry].
  rewrite Z.mod_small by lia. unfold nhonest. cbn [ntag_step].
  replace ((p <? 2) || (nt_npages tg <=? p)) with false
    by (symmetry; apply orb_false_iff; split; [apply Z.ltb_ge | apply Z.leb_gt]; lia).
  rewrite Hacc. reflexivity.
Qed.

(* ---- protect(pw) on a tag whose configuration is still open --------------------------------------- *)
(* open = not yet protected: AUTH0 beyond the last page, so that every page can be read and written *)
Definition nt_open (tg : ntag) : Prop :=
  nt_wf tg /\ nt_authed tg = false /\ 4 <= nt_cfg tg /\ nt_cfg tg + 3 < 256 /\ nt_cfg tg + 3 < nt_auth0 tg.

Theorem ntag_protect_honest tg st pw rp pf key :
  nt_open tg -> n_target st = true -> ntag_key pw = Ok key ->
  exists tg', ntag_protect nhonest nsense_present (nt_cfg tg) pw rp pf (tg, st) = ((tg', mkN true true), Ok true) /\
    nt_cfg tg' = nt_cfg tg /\ nt_pwd tg' = firstn 4 key /\ nt_pack tg' = skipn 4 key.
Proof.
  intros (Hwf & Hau & Hc4 & Hc256 & Ha0) Ht Hk.
  destruct (list6 key (ntag_key_length pw key Hk)) as (k0 & k1 & k2 & k3 & k4 & k5 & ->).
  set (cfg := nt_cfg tg) in *.
  assert (Hacc : forall tg1 p, nt_eff tg1 = nt_eff tg -> nt_cfg tg1 = cfg -> nt_authed tg1 = false -> p <= cfg + 3 ->
            nt_prot tg1 && negb (nt_authed tg1) && (nt_auth0 tg1 <=? p) = false).
  { intros tg1 p He Hc Haa Hp. unfold nt_auth0. rewrite He, Hc. change (nth 3 (nt_eff tg cfg) 255) with (nt_auth0 tg).
    replace (nt_auth0 tg <=? p) with false by (symmetry; apply Z.leb_gt; lia). apply andb_false_r. }
  assert (Haccw : forall tg1 p, nt_eff tg1 = nt_eff tg -> nt_cfg tg1 = cfg -> p <= cfg + 3 ->
            negb (nt_authed tg1) && (nt_auth0 tg1 <=? p) = false).
  { intros tg1 p He Hc Hp. unfold nt_auth0. rewrite He, Hc. change (nth 3 (nt_eff tg cfg) 255) with (nt_auth0 tg).
    replace (nt_auth0 tg <=? p) with false by (symmetry; apply Z.leb_gt; lia). apply andb_false_r. }
  unfold ntag_protect. unfold nbind at 1. unfold nlift at 1. rewrite Hk.
  (* read the configuration pages *)
  unfold nbind at 1. rewrite nhonest_read; [ | exact Hwf | exact Ht | lia | unfold nt_npages; fold cfg; lia | apply Hacc; auto; lia ].
  assert (Hrp0 : nt_read_page tg cfg = nt_mem tg cfg).
  { unfold nt_read_page, nt_npages. fold cfg. rewrite Z.mod_small by lia.
    replace (cfg =? cfg + 2) with false by (symmetry; apply Z.eqb_neq; lia).
    replace (cfg =? cfg + 3) with false by (symmetry; apply Z.eqb_neq; lia). reflexivity. }
  assert (Hrp1 : nt_read_page tg (cfg + 1) = nt_mem tg (cfg + 1)).
  { unfold nt_read_page, nt_npages. fold cfg. rewrite Z.mod_small by lia.
    replace (cfg + 1 =? cfg + 2) with false by (symmetry; apply Z.eqb_neq; lia).
    replace (cfg + 1 =? cfg + 3) with false by (symmetry; apply Z.eqb_neq; lia). reflexivity. }
  assert (Hrp2 : nt_read_page tg (cfg + 2) = [0; 0; 0; 0]).
  { unfold nt_read_page, nt_npages. fold cfg. rewrite Z.mod_small by lia. rewrite Z.eqb_refl. reflexivity. }
  assert (Hrp3 : nt_read_page tg (cfg + 3) = [0; 0] ++ skipn 2 (nt_mem tg (cfg + 3))).
  { unfold nt_read_page, nt_npages. fold cfg. rewrite Z.mod_small by lia.
    replace (cfg + 3 =? cfg + 2) with false by (symmetry; apply Z.eqb_neq; lia). rewrite Z.eqb_refl. reflexivity. }
  rewrite Hrp0, Hrp1, Hrp2, Hrp3.
  destruct (list4 _ (Hwf cfg)) as (c0 & c1 & c2 & c3 & Hm0).
  destruct (list4 _ (Hwf (cfg + 1))) as (d0 & d1 & d2 & d3 & Hm1).
  destruct (list4 _ (Hwf (cfg + 3))) as (e0 & e1 & e2 & e3 & Hm3).
  rewrite Hm0, Hm1, Hm3. cbn [app skipn]. unfold ntag_cfg_edit. cbv zeta.
  change (take 8 [c0; c1; c2; c3; d0; d1; d2; d3; 0; 0; 0; 0; 0; 0; e2; e3]) with [c0; c1; c2; c3; d0; d1; d2; d3].
  change (drop 14 [c0; c1; c2; c3; d0; d1; d2; d3; 0; 0; 0; 0; 0; 0; e2; e3]) with [e2; e3].
  cbn [app].
  set (a0 := Z.max 3 (Z.min pf 255)).
  change (set_byte [c0; c1; c2; c3; d0; d1; d2; d3; k0; k1; k2; k3; k4; k5; e2; e3] 3 a0)
    with [c0; c1; c2; a0; d0; d1; d2; d3; k0; k1; k2; k3; k4; k5; e2; e3].
  change (nth 4 [c0; c1; c2; a0; d0; d1; d2; d3; k0; k1; k2; k3; k4; k5; e2; e3] 0) with d0.
  set (d0' := if rp then Z.lor d0 128 else Z.land d0 127).
  change (set_byte [c0; c1; c2; a0; d0; d1; d2; d3; k0; k1; k2; k3; k4; k5; e2; e3] 4 d0')
    with [c0; c1; c2; a0; d0'; d1; d2; d3; k0; k1; k2; k3; k4; k5; e2; e3].
  change (slice [c0; c1; c2; a0; d0'; d1; d2; d3; k0; k1; k2; k3; k4; k5; e2; e3] 0 4) with [c0; c1; c2; a0].
  change (slice [c0; c1; c2; a0; d0'; d1; d2; d3; k0; k1; k2; k3; k4; k5; e2; e3] 4 8) with [d0'; d1; d2; d3].
  change (slice [c0; c1; c2; a0; d0'; d1; d2; d3; k0; k1; k2; k3; k4; k5; e2; e3] 8 12) with [k0; k1; k2; k3].
  change (slice [c0; c1; c2; a0; d0'; d1; d2; d3; k0; k1; k2; k3; k4; k5; e2; e3] 12 16) with [k4; k5; e2; e3].
  (* the four configuration page writes *)
  unfold nbind at 1. rewrite nhonest_write; [ | exact Ht | lia | unfold nt_npages; fold cfg; lia | apply Haccw; auto; lia ].
  set (tg1 := nt_with_page tg cfg [c0; c1; c2; a0]).
  unfold nbind at 1. rewrite nhonest_write; [ | exact Ht | lia | unfold nt_npages; cbn [nt_cfg tg1 nt_with_page]; fold cfg; lia | apply Haccw; auto; lia ].
  set (tg2 := nt_with_page tg1 (cfg + 1) [d0'; d1; d2; d3]).
  unfold nbind at 1. rewrite nhonest_write; [ | exact Ht | lia | unfold nt_npages; cbn [nt_cfg tg2 tg1 nt_with_page]; fold cfg; lia | apply Haccw; auto; lia ].
  set (tg3 := nt_with_page tg2 (cfg + 2) [k0; k1; k2; k3]).
  unfold nbind at 1. rewrite nhonest_write; [ | exact Ht | lia | unfold nt_npages; cbn [nt_cfg tg3 tg2 tg1 nt_with_page]; fold cfg; lia | apply Haccw; auto; lia ].
  set (tg4 := nt_with_page tg3 (cfg + 3) [k4; k5; e2; e3]).
  assert (Hwf4 : nt_wf tg4) by (repeat apply nt_with_page_wf; auto).
  (* the capability container update, if any, then re-activation and PWD_AUTH *)
  assert (Hfin : forall tg5 : ntag, nt_cfg tg5 = cfg -> nt_mem tg5 (cfg + 2) = [k0; k1; k2; k3] ->
            nt_mem tg5 (cfg + 3) = [k4; k5; e2; e3] ->
            exists tg', (nbind (do_sense nsense_present)
                           (fun present : bool => if present then ntag_authenticate nhonest [k0; k1; k2; k3; k4; k5] else nret false))
                          (tg5, st) = ((tg', mkN true true), Ok true) /\
                        nt_cfg tg' = cfg /\ nt_pwd tg' = [k0; k1; k2; k3] /\ nt_pack tg' = [k4; k5]).
  { intros tg5 H5c H5p H5k. unfold nbind at 1, do_sense, nsense_present. cbn [fst snd].
    destruct (ntag_auth_exact (ntag_reselect tg5) (mkN true (n_auth st)) [k0; k1; k2; k3; k4; k5] [k0; k1; k2; k3; k4; k5])
      as (b & tg' & HA & Hc' & Hm' & He' & Hb); [reflexivity | reflexivity |].
    assert (Hp5 : nt_pwd (ntag_reselect tg5) = [k0; k1; k2; k3]) by (unfold nt_pwd, ntag_reselect; cbn [nt_eff nt_cfg]; rewrite H5c; exact H5p).
    assert (Hk5 : nt_pack (ntag_reselect tg5) = [k4; k5]) by (unfold nt_pack, ntag_reselect; cbn [nt_eff nt_cfg]; rewrite H5c, H5k; reflexivity).
    assert (b = true) by (apply Hb; rewrite Hp5, Hk5; split; reflexivity). subst b.
    exists tg'. rewrite HA. split; [reflexivity|].
    split; [rewrite Hc'; cbn [ntag_reselect nt_cfg]; exact H5c|].
    unfold nt_pwd, nt_pack in *. rewrite Hc', He'. split; [exact Hp5 | exact Hk5]. }
  assert (Hm42 : nt_mem tg4 (cfg + 2) = [k0; k1; k2; k3]).
  { unfold tg4, tg3, nt_with_page, mem_set. cbn [nt_mem].
    replace (cfg + 2 =? cfg + 3) with false by (symmetry; apply Z.eqb_neq; lia). rewrite Z.eqb_refl. reflexivity. }
  assert (Hm43 : nt_mem tg4 (cfg + 3) = [k4; k5; e2; e3]).
  { unfold tg4, nt_with_page, mem_set. cbn [nt_mem]. rewrite Z.eqb_refl. reflexivity. }
  destruct (pf <=? 3).
  - unfold nbind at 1. unfold nbind at 1.
    rewrite nhonest_read; [ | exact Hwf4 | exact Ht | lia | unfold nt_npages; cbn [nt_cfg tg4 tg3 tg2 tg1 nt_with_page]; fold cfg; lia
                            | apply Hacc; auto; lia ].
    assert (Hrp : nt_read_page tg4 3 = nt_mem tg4 3).
    { unfold nt_read_page, nt_npages. cbn [nt_cfg tg4 tg3 tg2 tg1 nt_with_page]. fold cfg. rewrite Z.mod_small by lia.
      replace (3 =? cfg + 2) with false by (symmetry; apply Z.eqb_neq; lia).
      replace (3 =? cfg + 3) with false by (symmetry; apply Z.eqb_neq; lia). reflexivity. }
    rewrite Hrp. destruct (list4 _ (Hwf4 3)) as (f0 & f1 & f2 & f3 & Hm3').
    rewrite Hm3'. cbn [app].
    repeat match goal with |- context [slice ?l 0 4] => change (slice l 0 4) with [f0; f1; f2; f3] end.
    unfold ntag_cc_test, ntag_cc_edit. cbn [nth].
    destruct ((f0 =? 225) && (Z.land f1 240 =? 16)).
    + unfold nbind at 1.
      match goal with |- context [set_byte [f0; f1; f2; f3] 3 ?v] => change (set_byte [f0; f1; f2; f3] 3 v) with [f0; f1; f2; v] end.
      rewrite nhonest_write; [ | exact Ht | lia | unfold nt_npages; cbn [nt_cfg tg4 tg3 tg2 tg1 nt_with_page]; fold cfg; lia | apply Haccw; auto; lia ].
      unfold nret at 1.
      match goal with |- context [nt_with_page tg4 3 ?d] => set (tg5 := nt_with_page tg4 3 d) end.
      destruct (Hfin tg5) as (tg' & HF & Hc' & Hp' & Hk').
      * reflexivity.
      * unfold tg5, nt_with_page, mem_set. cbn [nt_mem]. replace (cfg + 2 =? 3) with false by (symmetry; apply Z.eqb_neq; lia). exact Hm42.
      * unfold tg5, nt_with_page, mem_set. cbn [nt_mem]. replace (cfg + 3 =? 3) with false by (symmetry; apply Z.eqb_neq; lia). exact Hm43.
      * exists tg'. split; [exact HF|]. auto.
    + unfold nret at 1. destruct (Hfin tg4) as (tg' & HF & Hc' & Hp' & Hk'); [reflexivity | exact Hm42 | exact Hm43 |].
      exists tg'. split; [exact HF|]. auto.
  - unfold nbind at 1. unfold nret at 1.
    destruct (Hfin tg4) as (tg' & HF & Hc' & Hp' & Hk'); [reflexivity | exact Hm42 | exact Hm43 |].
    exists tg'. split; [exact HF|]. auto.
Qed.

(* after protect(pw): authenticate(pw) is True, and False for every password whose 6 key bytes differ *)
Theorem ntag_protect_then_auth tg st pw rp pf key :
  nt_open tg -> n_target st = true -> ntag_key pw = Ok key ->
  exists s1, ntag_protect nhonest nsense_present (nt_cfg tg) pw rp pf (tg, st) = (s1, Ok true) /\
    snd (ntag_authenticate nhonest pw s1) = Ok true /\
    forall pw' key', ntag_key pw' = Ok key' -> key' <> key -> snd (ntag_authenticate nhonest pw' s1) = Ok false.
Proof.
  intros Ho Ht Hk. destruct (ntag_protect_honest tg st pw rp pf key Ho Ht Hk) as (tg' & HP & Hc & Hpwd & Hpack).
  exists (tg', mkN true true). split; [exact HP|]. split.
  - destruct (ntag_auth_exact tg' (mkN true true) pw key eq_refl Hk) as (b & tg2 & HA & _ & _ & _ & Hb).
    rewrite HA. cbn [snd]. f_equal. apply Hb. split; congruence.
  - intros pw' key' Hk' Hne.
    destruct (ntag_auth_exact tg' (mkN true true) pw' key' eq_refl Hk') as (b & tg2 & HA & _ & _ & _ & Hb).
    rewrite HA. cbn [snd]. f_equal. destruct b; [|reflexivity]. exfalso. apply Hne.
    destruct Hb as [Hb _]. destruct (Hb eq_refl) as [H1 H2].
    rewrite <- (firstn_skipn 4 key'), <- (firstn_skipn 4 key). congruence.
Qed.

(* the factory-state tag models are open *)
Lemma ntag_blank_open cfg : In cfg [16; 37; 41; 131; 227] -> nt_open (ntag_blank cfg).
Proof.
  intro H. unfold nt_open, ntag_blank, nt_wf, nt_auth0, ntag_blank_mem. cbn [nt_mem nt_eff nt_cfg nt_authed].
  rewrite Z.eqb_refl. cbn [nth]. repeat split; try (cbn in H; intuition lia).
  intro q. destruct (q =? cfg); [reflexivity|]. destruct (q =? cfg + 2); [reflexivity|]. destruct (q =? 3); reflexivity.
Qed.
