(* dep_nofault_exact and dep_safety: Initiator.exchange against the Target machine,
   for every fault script. *)
From Coq Require Import ZArith List Bool Lia ZifyBool.
From NV Require Import Base.Result Base.Bytes Model.Dep Proofs.DepCodec Proofs.DepTarget Proofs.DepSrr Proofs.DepExact.
Import ListNotations.
Open Scope Z_scope.
Ltac Zify.zify_post_hook ::= Z.to_euclidean_division_equations.

Section Safety.
Variables (ic : icfg) (tc : tcfg) (fuel : nat) (timeout : Z).
Hypothesis H106 : ic_106 ic = tc_106 tc.
Hypothesis Hdid : tc_did tc = ic_did ic.
Hypothesis Hmt : 1 <= tc_miu tc /\ tc_miu tc + 3 + b2z (is_some (tc_did tc)) + b2z (is_some (tc_nad tc)) <= 254.
Hypothesis Hmi : 1 <= ic_miu ic /\ ic_miu ic + 3 + b2z (is_some (ic_did ic)) + b2z (is_some (ic_nad ic)) <= 254.
Hypothesis Hfuel : Z.max 0 timeout < Z.of_nat fuel.

(* scripts on which every protocol step succeeds: no fault at all, or isolated single faults *)
Definition Good (sc : list (fate * fate)) : Prop := (sc = [] /\ 1 <= timeout) \/ (Sparse sc /\ 2 <= timeout).
(* the responses of the ideal run: information PDUs, or an ACK to a chained information PDU *)
Definition fmt_ok (r d : deppdu) : Prop := fmt r = F_INF \/ fmt r = F_MORE \/ (fmt r = F_ACK /\ fmt d = F_MORE).

(* one call of send_dep_req_recv_dep_res for a request the target is ready to accept *)
Lemma srr_call p w out w' t0 t1 d r :
  req_ok ic d -> (fmt d = F_INF \/ fmt d = F_MORE \/ fmt d = F_ACK) ->
  Tinv tc t0 -> t_pos t0 <> TStop -> t_pni t0 <> Some (pni d) -> (t_pos t0 = TListen \/ t_pos t0 = TFirst -> pni d = 0) ->
  t_accept tc t0 d = (t1, Some (PDepRes r)) -> w_t w = t0 -> 0 <= p <= 3 ->
  srr fuel ic tc p d 1 timeout w = (out, w') ->
  (w_t w' = t0 \/ w_t w' = awake t0 \/ w_t w' = t1) /\
  ((out = Ok r /\ w_t w' = t1) \/ (exists e, out = Err e /\ comm e)) /\
  (Good (w_script w) -> fmt_ok r d -> out = Ok r /\ Good (w_script w')).
Proof.
  intros Hreq Hf HI Hpos Hnew Hfirst Hacc Hw Hp H.
  assert (Hin : InS t0 t1 (w_t w)) by (left; exact Hw).
  destruct (srr_safe ic tc H106 Hdid Hmt Hmi t0 t1 d r Hreq Hf HI Hpos Hnew Hfirst Hacc fuel p 1 timeout w out w' Hin Hp ltac:(lia) H) as (A & B).
  split; [exact A|]. split.
  - destruct B as [B|[B|[_ B]]]; [left; exact B | right; exact B | lia].
  - intros [[Hs Hto]|[Hs Hto]] Hn.
    + destruct (srr_nofault ic tc H106 Hdid Hmt Hmi t0 t1 d r Hreq Hf HI Hpos Hnew Hfirst Hacc fuel p 1 timeout w Hin) as (w2 & E & _ & E2 & _);
        [rewrite Hs; reflexivity | lia | exact Hto | lia | unfold fmt_ok, F_INF, F_MORE, F_ACK, F_NAK in *; lia|].
      rewrite E in H. injection H as <- <-. split; [reflexivity|]. left. rewrite E2, Hs. auto.
    + destruct (srr_sparse ic tc H106 Hdid Hmt Hmi t0 t1 d r Hreq Hf HI Hpos Hnew Hfirst Hacc fuel p timeout w (or_introl Hw) Hp Hs Hto ltac:(lia)) as (w2 & E & _ & E2 & _).
      { destruct Hn as [Hn|[Hn|Hn]]; auto. }
      rewrite E in H. injection H as <- <-. split; [reflexivity|]. right. auto.
Qed.

Lemma inf_fmt q sd : fmt (inf tc q sd) = F_INF \/ fmt (inf tc q sd) = F_MORE.
Proof. unfold inf; cbn. destruct (tc_miu tc <? len sd); auto. Qed.
Lemma inf_fmt3 q sd d : fmt_ok (inf tc q sd) d.
Proof. unfold fmt_ok. destruct (inf_fmt q sd); auto. Qed.

Lemma awake_out t : t_out (awake t) = t_out t.
Proof. unfold awake. destruct (t_pos t); reflexivity. Qed.

(* what the target application has seen is unchanged or extended by exactly the payload x *)
Definition Safe (out0 : list tres) (x : list Z) (t : tgt) : Prop :=
  t_out t = out0 \/ t_out t = out0 ++ [TOk x].

Lemma take_all {A} n (l : list A) : len l <= n -> take n l = l.
Proof. intro H. unfold take. apply firstn_all2. unfold len in H. lia. Qed.

(* ------------------------------------------------------------ the send loop *)
Lemma send_loop_spec resp rest n : forall p sd last acc t w out w',
  Ready tc t p acc -> w_t w = t -> t_app t = (0, resp) :: rest -> resp <> [] -> sd <> [] -> (length sd <= n)%nat ->
  send_loop n fuel ic tc p sd last timeout w = (out, w') ->
  ((exists e, out = Err e /\ comm e) /\ Safe (t_out t) (acc ++ sd) (w_t w')
   \/ exists q, 0 <= q <= 3 /\ out = Ok ((q + 1) mod 4, inf tc q resp) /\ Sending tc (w_t w') q resp /\
                t_app (w_t w') = rest /\ t_out (w_t w') = t_out t ++ [TOk (acc ++ sd)] /\ t_rtx (w_t w') = t_rtx t) /\
  (Good (w_script w) -> (exists y, out = Ok y) /\ Good (w_script w')).
Proof.
  induction n as [|n IH]; intros p sd last acc t w out w' HR Hw Happ Hne Hsd Hlen H.
  { destruct sd; [congruence | cbn in Hlen; lia]. }
  destruct sd as [|b sd0]; [congruence|]. remember (b :: sd0) as sd eqn:Esd.
  assert (Hsd0 : send_loop (S n) fuel ic tc p sd last timeout w =
     match srr fuel ic tc p (i_dep ic (if nonempty (drop (ic_miu ic) sd) then F_MORE else F_INF) p (take (ic_miu ic) sd)) 1 timeout w with
     | (Ok r0, w1) =>
         match after_rtox fuel ic tc p r0 timeout w1 with
         | (Ok r, w2) =>
             if (fmt r =? F_ACK) && negb (nonempty (drop (ic_miu ic) sd)) then (Err ProtocolError, w2)
             else if negb (pni r =? p) then (Err ProtocolError, w2)
             else send_loop n fuel ic tc ((p + 1) mod 4) (drop (ic_miu ic) sd) (Some r) timeout w2
         | (Err e, w2) => (Err e, w2) | (Crash c, w2) => (Crash c, w2) | (Hang, w2) => (Hang, w2)
         end
     | (Err e, w1) => (Err e, w1) | (Crash c, w1) => (Crash c, w1) | (Hang, w1) => (Hang, w1)
     end) by (rewrite Esd; reflexivity).
  rewrite Hsd0 in H. clear Hsd0.
  destruct (ready_facts tc t p acc HR) as (HI & Hpos & Hnew & Hfirst).
  pose proof HR as (_ & Hp & _).
  remember (take (ic_miu ic) sd) as chunk eqn:Echunk. remember (drop (ic_miu ic) sd) as sd' eqn:Esd'.
  assert (Hcs : chunk ++ sd' = sd) by (subst chunk sd'; apply len_drop_take; lia).
  assert (Hchunk : len chunk <= ic_miu ic) by (subst chunk; apply len_take_le; lia).
  destruct sd' as [|b' sd1].
  - (* last chunk *)
    cbn [nonempty] in H.
    assert (Hc : chunk = sd) by (rewrite <- Hcs; symmetry; apply app_nil_r).
    set (d := i_dep ic F_INF p chunk) in *.
    assert (Hreq : req_ok ic d) by (apply (i_dep_ok ic tc); unfold F_INF; lia).
    destruct (ready_last tc Hmt t p acc d resp rest HR eq_refl eq_refl Happ Hne) as (Hacc & HS).
    match type of Hacc with _ = (?tt, _) => set (t1 := tt) in * end.
    destruct (srr fuel ic tc p d 1 timeout w) as [o1 w1] eqn:Es.
    destruct (srr_call p w o1 w1 t t1 d (inf tc p resp) Hreq ltac:(auto) HI Hpos Hnew Hfirst Hacc Hw Hp Es) as (A & B & C).
    assert (Hsafe : Safe (t_out t) (acc ++ sd) (w_t w1)).
    { destruct A as [-> |[-> | ->]]; [left; reflexivity | left; apply awake_out | right; cbn; rewrite <- Hc; reflexivity]. }
    assert (Hfr : fmt (inf tc p resp) <> F_RTOX /\ fmt (inf tc p resp) <> F_ACK /\ fmt (inf tc p resp) <> F_NAK).
    { unfold inf. cbn. destruct (tc_miu tc <? len resp); unfold F_MORE, F_INF, F_RTOX, F_ACK, F_NAK; lia. }
    destruct B as [[-> B]|[e [-> He]]].
    + unfold after_rtox in H. replace (fmt (inf tc p resp) =? F_RTOX) with false in H by lia.
      replace (fmt (inf tc p resp) =? F_ACK) with false in H by lia. cbn [andb] in H.
      change (pni (inf tc p resp)) with p in H. rewrite Z.eqb_refl in H. cbn [negb] in H.
      destruct n; cbn [send_loop] in H; injection H as <- <-.
      all: split; [right; exists p; split; [exact Hp|]; split; [reflexivity|]; rewrite B; split; [exact HS|];
                   unfold t1, d; cbn; rewrite Hc; auto |
                   intros Hs; destruct (C Hs (inf_fmt3 _ _ _)) as [_ C2]; split; [eauto | exact C2]].
    + injection H as <- <-. split; [left; split; [eauto | exact Hsafe]|].
      intros Hs. destruct (C Hs (inf_fmt3 _ _ _)) as [C1 _]. discriminate.
  - (* more chunks follow *)
    cbn [nonempty] in H.
    set (d := i_dep ic F_MORE p chunk) in *.
    assert (Hreq : req_ok ic d) by (apply (i_dep_ok ic tc); unfold F_MORE; lia).
    destruct (ready_more tc Hmt t p acc d HR eq_refl eq_refl) as (Hacc & HR1).
    match type of Hacc with _ = (?tt, _) => set (t1 := tt) in * end.
    destruct (srr fuel ic tc p d 1 timeout w) as [o1 w1] eqn:Es.
    destruct (srr_call p w o1 w1 t t1 d (ack tc p) Hreq ltac:(auto) HI Hpos Hnew Hfirst Hacc Hw Hp Es) as (A & B & C).
    assert (Hsafe : Safe (t_out t) (acc ++ sd) (w_t w1)).
    { destruct A as [-> |[-> | ->]]; [left; reflexivity | left; apply awake_out | left; reflexivity]. }
    assert (Hackok : Good (w_script w) -> fmt_ok (ack tc p) d) by (intros _; right; right; split; reflexivity).
    destruct B as [[-> B]|[e [-> He]]].
    + unfold after_rtox in H. change (fmt (ack tc p) =? F_RTOX) with false in H. cbv iota in H.
      change (fmt (ack tc p) =? F_ACK) with true in H. cbn [andb negb nonempty] in H.
      change (pni (ack tc p)) with p in H. rewrite Z.eqb_refl in H. cbn [negb] in H.
      assert (Hlen' : (length (b' :: sd1) <= n)%nat).
      { assert (E : len chunk + len (b' :: sd1) = len sd) by (rewrite <- Hcs, len_app; reflexivity).
        assert (0 < len chunk).
        { rewrite Echunk. unfold take, len. rewrite firstn_length. subst sd. cbn [length]. lia. }
        unfold len in *. lia. }
      assert (Eacc : (acc ++ data d) ++ b' :: sd1 = acc ++ sd).
      { cbn [data d i_dep]. rewrite <- app_assoc, Hcs. reflexivity. }
      destruct (IH ((p + 1) mod 4) (b' :: sd1) (Some (ack tc p)) (acc ++ data d) t1 w1 out w' HR1 B Happ Hne ltac:(discriminate) Hlen' H) as (X & Y).
      rewrite Eacc in X. split; [exact X|].
      intros Hs. destruct (C Hs (Hackok Hs)) as [_ C2]. apply Y; assumption.
    + injection H as <- <-. split; [left; split; [eauto | exact Hsafe]|].
      intros Hs. destruct (C Hs (Hackok Hs)) as [C1 _]. discriminate.
Qed.

(* ------------------------------------------------------------ the receive loop *)
Lemma recv_loop_spec resp n : forall q sd acc t w out w',
  Sending tc t q sd -> w_t w = t -> 0 <= q <= 3 -> acc ++ drop (tc_miu tc) sd = resp -> (length sd <= n)%nat ->
  recv_loop n fuel ic tc ((q + 1) mod 4) (inf tc q sd) acc timeout w = (out, w') ->
  ((exists e, out = Err e /\ comm e) /\ t_out (w_t w') = t_out t
   \/ exists p', out = Ok (p', resp) /\ Ready tc (w_t w') p' [] /\
                 t_app (w_t w') = t_app t /\ t_out (w_t w') = t_out t /\ t_rtx (w_t w') = t_rtx t) /\
  (Good (w_script w) -> (exists y, out = Ok y) /\ Good (w_script w')).
Proof.
  induction n as [|n IH]; intros q sd acc t w out w' HS Hw Hq Hacc Hlen H.
  { destruct HS as (_ & _ & _ & _ & Hne). destruct sd; [congruence | cbn in Hlen; lia]. }
  pose proof HS as (HI & Hpos & Hpni & Hres & Hne).
  cbn [recv_loop] in H. unfold inf at 1 in H. cbn [fmt] in H.
  destruct (tc_miu tc <? len sd) eqn:Em.
  - (* the target chains: acknowledge *)
    change (F_MORE =? F_MORE) with true in H. cbn [negb] in H.
    set (p := (q + 1) mod 4) in *.
    set (d := i_dep ic F_ACK p []) in *.
    assert (Hreq : req_ok ic d) by (apply (i_dep_ok ic tc); unfold F_ACK; try lia; change (len (@nil Z)) with 0; lia).
    destruct (sending_ack tc Hmt t q sd d HS ltac:(lia) eq_refl eq_refl Hq) as (Hac & HS1).
    fold p in Hac, HS1.
    match type of Hac with _ = (?tt, _) => set (t1 := tt) in * end.
    destruct (srr fuel ic tc p d 1 timeout w) as [o1 w1] eqn:Es.
    assert (Hnew : t_pni t <> Some (pni d)) by (rewrite Hpni; cbn; intro E; injection E as E; unfold p in E; lia).
    destruct (srr_call p w o1 w1 t t1 d (inf tc p (drop (tc_miu tc) sd)) Hreq ltac:(auto) HI ltac:(rewrite Hpos; discriminate) Hnew
                ltac:(rewrite Hpos; intros [E|E]; discriminate) Hac Hw ltac:(unfold p; lia) Es) as (A & B & C).
    assert (Hout : t_out (w_t w1) = t_out t).
    { destruct A as [-> |[-> | ->]]; [reflexivity | apply awake_out | reflexivity]. }
    assert (Hfr : fmt (inf tc p (drop (tc_miu tc) sd)) <> F_RTOX /\ fmt (inf tc p (drop (tc_miu tc) sd)) <> F_NAK /\
                  (fmt (inf tc p (drop (tc_miu tc) sd)) = F_INF \/ fmt (inf tc p (drop (tc_miu tc) sd)) = F_MORE)).
    { unfold inf. cbn. destruct (tc_miu tc <? len (drop (tc_miu tc) sd)); unfold F_MORE, F_INF, F_RTOX, F_NAK; lia. }
    destruct B as [[-> B]|[e [-> He]]].
    + unfold after_rtox in H. replace (fmt (inf tc p (drop (tc_miu tc) sd)) =? F_RTOX) with false in H by lia.
      replace ((fmt (inf tc p (drop (tc_miu tc) sd)) =? F_INF) || (fmt (inf tc p (drop (tc_miu tc) sd)) =? F_MORE)) with true in H by lia.
      cbn [negb] in H. change (pni (inf tc p (drop (tc_miu tc) sd))) with p in H. rewrite Z.eqb_refl in H. cbn [negb] in H.
      assert (Hlen' : (length (drop (tc_miu tc) sd) <= n)%nat).
      { unfold drop. rewrite skipn_length. destruct sd; [congruence|]. cbn [length] in *. lia. }
      assert (Hacc' : (acc ++ data (inf tc p (drop (tc_miu tc) sd))) ++ drop (tc_miu tc) (drop (tc_miu tc) sd) = resp).
      { unfold inf. cbn [data]. rewrite <- app_assoc, len_drop_take by lia. exact Hacc. }
      destruct (IH p (drop (tc_miu tc) sd) _ t1 w1 out w' HS1 B ltac:(unfold p; lia) Hacc' Hlen' H) as (X & Y).
      split; [exact X|].
      intros Hs. destruct (C Hs (inf_fmt3 _ _ _)) as [_ C2]. apply Y; assumption.
    + injection H as <- <-. split; [left; split; [eauto | exact Hout]|].
      intros Hs. destruct (C Hs (inf_fmt3 _ _ _)) as [C1 _]. discriminate.
  - (* that was the last chunk *)
    change (F_INF =? F_MORE) with false in H. cbn [negb] in H. injection H as <- <-.
    assert (Hd : drop (tc_miu tc) sd = []) by (apply drop_nil_iff; lia).
    rewrite Hd, app_nil_r in Hacc. subst acc.
    split.
    + right. exists ((q + 1) mod 4). split; [reflexivity|]. rewrite Hw.
      split; [apply (sending_ready tc t q sd HS); lia | auto].
    + intros Hs. split; [eauto | exact Hs].
Qed.

(* ------------------------------------------------------------ Initiator.exchange *)
Lemma exchange_spec n resp rest p x t w out w' :
  Ready tc t p [] -> w_t w = t -> t_app t = (0, resp) :: rest -> resp <> [] -> x <> [] ->
  (length x <= n)%nat -> (length resp <= n)%nat ->
  ini_exchange n fuel ic tc p x timeout w = (out, w') ->
  ((exists e, out = Err e /\ comm e) /\ Safe (t_out t) x (w_t w')
   \/ exists p', out = Ok (p', resp) /\ Ready tc (w_t w') p' [] /\
                 t_app (w_t w') = rest /\ t_out (w_t w') = t_out t ++ [TOk x] /\ t_rtx (w_t w') = t_rtx t) /\
  (Good (w_script w) -> (exists y, out = Ok y) /\ Good (w_script w')).
Proof.
  intros HR Hw Happ Hne Hx Hlx Hlr H. unfold ini_exchange in H.
  destruct (send_loop n fuel ic tc p x None timeout w) as [o1 w1] eqn:Es.
  destruct (send_loop_spec resp rest n p x None [] t w o1 w1 HR Hw Happ Hne Hx Hlx Es) as (A & B).
  cbn [app] in A.
  destruct A as [((e & -> & He) & Hsafe)|(q & Hq & -> & HS & Ha & Ho & Hr)].
  - injection H as <- <-. split; [left; split; [eauto | exact Hsafe]|].
    intros Hs. destruct (B Hs) as [[y Hy] _]. discriminate.
  - assert (Hf : (fmt (inf tc q resp) =? F_INF) || (fmt (inf tc q resp) =? F_MORE) = true).
    { unfold inf. cbn. destruct (tc_miu tc <? len resp); reflexivity. }
    rewrite Hf in H. cbn [negb] in H.
    assert (Hacc : data (inf tc q resp) ++ drop (tc_miu tc) resp = resp) by (unfold inf; cbn [data]; apply len_drop_take; lia).
    destruct (recv_loop_spec resp n q resp _ (w_t w1) w1 out w' HS eq_refl Hq Hacc Hlr H) as (X & Y).
    split.
    + destruct X as [((e & -> & He) & Hout)|(p' & -> & HR' & Ha' & Ho' & Hr')].
      * left. split; [eauto|]. right. rewrite Hout. exact Ho.
      * right. exists p'. split; [reflexivity|]. split; [exact HR'|]. rewrite Ha', Ho', Hr'. auto.
    + intros Hs. destruct (B Hs) as [_ B2]. apply Y; assumption.
Qed.

(* ------------------------------------------------------------ the whole conversation *)
Definition app_of (R : list (list Z)) : list (Z * list Z) := map (fun r => (0, r)) R.

Definition nonempty_all (L : list (list Z)) : Prop := Forall (fun x => x <> []) L.
Definition fits (n : nat) (L : list (list Z)) : Prop := Forall (fun x => (length x <= n)%nat) L.

Lemma ini_app_spec n : forall P R p t w l w',
  Ready tc t p [] -> w_t w = t -> t_app t = app_of R -> nonempty_all P -> nonempty_all R ->
  fits n P -> fits n R -> (length P <= length R)%nat ->
  ini_app n fuel ic tc p P timeout w = (l, w') ->
  ((exists j e, (j < length P)%nat /\ l = map IOk (firstn j R) ++ [IErr e] /\ comm e /\
                (t_out (w_t w') = t_out t ++ map TOk (firstn j P) \/ t_out (w_t w') = t_out t ++ map TOk (firstn (S j) P)))
   \/ (l = map IOk (firstn (length P) R) /\ t_out (w_t w') = t_out t ++ map TOk P /\
       exists p', Ready tc (w_t w') p' [])) /\
  (Good (w_script w) -> l = map IOk (firstn (length P) R) /\ Good (w_script w')).
Proof.
  induction P as [|x P IH]; intros R p t w l w' HR Hw Happ HnP HnR HfP HfR Hlen H; cbn [ini_app] in H.
  - injection H as <- <-. split.
    + right. cbn. rewrite app_nil_r, Hw. split; [reflexivity|]. split; [reflexivity|]. eauto.
    + intros Hs. cbn. auto.
  - destruct R as [|resp R]; [cbn in Hlen; lia|].
    inversion HnP as [|? ? Hx HnP']; subst. inversion HnR as [|? ? Hr HnR']; subst.
    inversion HfP as [|? ? Hlx HfP']; subst. inversion HfR as [|? ? Hlr HfR']; subst.
    destruct (ini_exchange n fuel ic tc p x timeout w) as [o1 w1] eqn:Ee.
    destruct (exchange_spec n resp (app_of R) p x (w_t w) w o1 w1 HR eq_refl Happ Hr Hx Hlx Hlr Ee) as (A & B).
    destruct A as [((e & -> & He) & Hsafe)|(p' & -> & HR' & Ha' & Ho' & Hr')].
    + injection H as <- <-. split.
      * left. exists 0%nat, e. cbn [firstn map app length]. split; [lia|]. split; [reflexivity|]. split; [exact He|].
        destruct Hsafe as [Hs|Hs]; [left; rewrite Hs, app_nil_r; reflexivity | right; exact Hs].
      * intros Hs. destruct (B Hs) as [[y Hy] _]. discriminate.
    + destruct (ini_app n fuel ic tc p' P timeout w1) as [l2 w2] eqn:Ea. injection H as <- <-.
      cbn in Hlen.
      destruct (IH R p' (w_t w1) w1 l2 w2 HR' eq_refl Ha' HnP' HnR' HfP' HfR' ltac:(lia) Ea) as (X & Y).
      split.
      * destruct X as [(j & e & Hj & -> & He & Hout)|(-> & Hout & Hrd)].
        -- left. exists (S j), e. cbn [firstn map app length]. split; [lia|]. split; [reflexivity|]. split; [exact He|].
           rewrite Ho' in Hout. rewrite <- !app_assoc in Hout. exact Hout.
        -- right. cbn [firstn map app length]. split; [reflexivity|]. split; [|exact Hrd].
           rewrite Hout, Ho', <- app_assoc. reflexivity.
      * intros Hs. destruct (B Hs) as [_ B2]. destruct (Y B2) as [-> Y2]. cbn. auto.
Qed.
End Safety.

(* ------------------------------------------------------------ release and end of the link *)
Section Release.
Variables (ic : icfg) (tc : tcfg).
Hypothesis H106 : ic_106 ic = tc_106 tc.
Hypothesis Hdid : tc_did tc = ic_did ic.

Definition tail_ok (tail : list tres) : Prop := tail = [] \/ tail = [TNone] \/ tail = [TErr TimeoutError].

Lemma release_out t rsp : t_out (fst (t_release t rsp)) = t_out t \/
  (t_out (fst (t_release t rsp)) = t_out t ++ [TNone] /\ t_pos (fst (t_release t rsp)) = TStop).
Proof. unfold t_release. destruct (t_pos t); cbn; auto. Qed.

Lemma absorb_release t (b : bool) f : t_pos t <> TStop ->
  encode_frame (ic_106 ic) (enc_pdu (if b then PRlsReq (ic_did ic) else PDslReq (ic_did ic))) = Ok f ->
  fst (tgt_absorb tc t f) = fst (t_release t (if b then PRlsRes (tc_did tc) else PDslRes (tc_did tc))).
Proof.
  intros Hpos He. unfold tgt_absorb. rewrite <- H106.
  assert (Hd : decode_frame_tgt (ic_106 ic) f = Ok (if b then PRlsReq (ic_did ic) else PDslReq (ic_did ic))).
  { destruct b; [apply decode_tgt_rls | apply decode_tgt_dsl]; exact He. }
  rewrite Hd.
  assert (Hs : tgt_step tc t (if b then PRlsReq (ic_did ic) else PDslReq (ic_did ic)) =
               t_release t (if b then PRlsRes (tc_did tc) else PDslRes (tc_did tc))).
  { unfold tgt_step. destruct b; cbn [pdu_did]; rewrite <- Hdid, opt_eqb_refl; cbn [negb]; destruct (t_pos t); try congruence; reflexivity. }
  rewrite Hs.
  assert (He2 : exists f2, encode_frame (ic_106 ic) (enc_pdu (if b then PRlsRes (tc_did tc) else PDslRes (tc_did tc))) = Ok f2).
  { eexists. apply encode_frame_ok. destruct b; cbn [enc_pdu]; rewrite len_app; destruct (tc_did tc); cbn; lia. }
  destruct He2 as [f2 He2].
  destruct (t_pos t) eqn:Ep; try congruence;
    unfold t_release; rewrite Ep; cbn [fst snd t_stop t_stop_rtx]; rewrite He2; reflexivity.
Qed.

Lemma deactivate_out release w :
  let w' := ini_deactivate ic tc release w in
  t_out (w_t w') = t_out (w_t w) \/ (t_out (w_t w') = t_out (w_t w) ++ [TNone] /\ t_pos (w_t w') = TStop).
Proof.
  cbv zeta. unfold ini_deactivate. destruct release as [b|]; [|left; reflexivity].
  unfold srr1.
  assert (He : exists f, encode_frame (ic_106 ic) (enc_pdu (if b then PRlsReq (ic_did ic) else PDslReq (ic_did ic))) = Ok f).
  { eexists. apply encode_frame_ok. destruct b; cbn [enc_pdu]; rewrite len_app; destruct (ic_did ic); cbn; lia. }
  destruct He as [f He]. rewrite He.
  assert (Hair : w_t (snd (air tc f 1 w)) = w_t w \/ w_t (snd (air tc f 1 w)) = fst (tgt_absorb tc (w_t w) f)).
  { unfold air. destruct (fst (hd (FD, FD) (w_script w))); [|left; reflexivity|left; reflexivity].
    destruct (tgt_absorb tc (w_t w) f) as [t1 o]. destruct o; [destruct (snd (hd (FD, FD) (w_script w)))|]; right; reflexivity. }
  assert (Hw : forall o w1, air tc f 1 w = (o, w1) ->
     w_t (snd (match o with
       | OTimeout => (Err TimeoutError, w1) | OTransErr => (Err TransmissionError, w1)
       | OFrame rsp => match decode_frame_ini (ic_106 ic) rsp with
                       | Ok r => if pdu_name r =? pdu_name (if b then PRlsReq (ic_did ic) else PDslReq (ic_did ic)) then (Ok r, w1) else (Err ProtocolError, w1)
                       | Err e => (Err e, w1) | Crash x => (Crash x, w1) | Hang => (Hang, w1) end end)) = w_t w1).
  { intros o w1 _. destruct o; try reflexivity. destruct (decode_frame_ini (ic_106 ic) f0); try reflexivity.
    destruct (pdu_name a =? _); reflexivity. }
  destruct (air tc f 1 w) as [o w1] eqn:Ea. rewrite (Hw o w1 eq_refl). cbn [snd] in Hair.
  destruct Hair as [-> | ->]; [left; reflexivity|].
  destruct (t_pos (w_t w)) eqn:Ep.
  6:{ unfold tgt_absorb. rewrite Ep. left; reflexivity. }
  all: pose proof (absorb_release (w_t w) b f) as Har; rewrite Har; [apply release_out | rewrite Ep; discriminate | assumption].
Qed.

Lemma close_out t : t_pos t = TStop /\ tgt_close t = t \/ t_out (tgt_close t) = t_out t \/ t_out (tgt_close t) = t_out t ++ [TErr TimeoutError].
Proof. unfold tgt_close. destruct (t_pos t); cbn; auto. Qed.

Lemma end_out release w :
  exists tail, t_out (tgt_close (w_t (ini_deactivate ic tc release w))) = t_out (w_t w) ++ tail /\ tail_ok tail.
Proof.
  destruct (deactivate_out release w) as [E|[E Hs]].
  - destruct (close_out (w_t (ini_deactivate ic tc release w))) as [[_ ->]|[->| ->]].
    + exists []. rewrite app_nil_r. split; [exact E | left; reflexivity].
    + exists []. rewrite app_nil_r. split; [exact E | left; reflexivity].
    + exists [TErr TimeoutError]. rewrite E. split; [reflexivity | right; right; reflexivity].
  - unfold tgt_close. rewrite Hs. exists [TNone]. split; [exact E | right; left; reflexivity].
Qed.
End Release.

(* ------------------------------------------------------------ the theorems *)
Lemma lr_of_range_s i : 64 <= lr_of i <= 254.
Proof. unfold lr_of. destruct (i =? 0), (i =? 1), (i =? 2); lia. Qed.

Definition valid_cfg (ic : icfg) (tc : tcfg) : Prop :=
  ic_106 ic = tc_106 tc /\ tc_did tc = ic_did ic /\
  (1 <= tc_miu tc /\ tc_miu tc + 3 + b2z (is_some (tc_did tc)) + b2z (is_some (tc_nad tc)) <= 254) /\
  (1 <= ic_miu ic /\ ic_miu ic + 3 + b2z (is_some (ic_did ic)) + b2z (is_some (ic_nad ic)) <= 254).

Theorem dep_safety_thm ic tc n fuel script P R timeout release :
  valid_cfg ic tc -> Z.max 0 timeout < Z.of_nat fuel ->
  nonempty_all P -> nonempty_all R -> fits n P -> fits n R -> (length P <= length R)%nat ->
  let o := conversation n fuel ic tc script P (app_of R) timeout release in
  exists j k itail ttail,
    o_ini o = map IOk (firstn j R) ++ itail /\
    (itail = [] /\ j = length P \/ exists e, itail = [IErr e] /\ comm e /\ (j < length P)%nat) /\
    o_tgt o = map TOk (firstn k P) ++ ttail /\ tail_ok ttail /\
    (j <= k <= j + 1)%nat /\ (k <= length P)%nat.
Proof.
  intros (H106 & Hdid & Hmt & Hmi) Hfuel HnP HnR HfP HfR Hlen. cbv zeta. unfold conversation.
  destruct (ini_app n fuel ic tc 0 P timeout (mkw (tgt_init (app_of R)) script 0 [])) as [ir w1] eqn:Ea.
  destruct (ini_app_spec ic tc fuel timeout H106 Hdid Hmt Hmi Hfuel n P R 0 (tgt_init (app_of R)) (mkw (tgt_init (app_of R)) script 0 []) ir w1
              (ready_init tc (app_of R)) eq_refl eq_refl HnP HnR HfP HfR Hlen Ea) as (A & _).
  cbn [o_ini o_tgt].
  destruct (end_out ic tc H106 Hdid release w1) as (tail & Et & Htail). rewrite Et.
  destruct A as [(j & e & Hj & -> & He & [Ho|Ho])|(-> & Ho & _)]; rewrite Ho; cbn [tgt_init t_out app].
  - exists j, j, [IErr e], tail. repeat split; auto; try lia. right. eauto.
  - exists j, (S j), [IErr e], tail. repeat split; auto; try lia. right. eauto.
  - exists (length P), (length P), [], tail. rewrite app_nil_r, firstn_all. repeat split; auto; lia.
Qed.

Theorem dep_nofault_exact_thm ic tc n fuel P R timeout release :
  valid_cfg ic tc -> Z.max 0 timeout < Z.of_nat fuel -> 1 <= timeout ->
  nonempty_all P -> nonempty_all R -> fits n P -> fits n R -> (length P <= length R)%nat ->
  let o := conversation n fuel ic tc [] P (app_of R) timeout release in
  o_ini o = map IOk (firstn (length P) R) /\
  exists ttail, o_tgt o = map TOk P ++ ttail /\ tail_ok ttail.
Proof.
  intros (H106 & Hdid & Hmt & Hmi) Hfuel Hto HnP HnR HfP HfR Hlen. cbv zeta. unfold conversation.
  destruct (ini_app n fuel ic tc 0 P timeout (mkw (tgt_init (app_of R)) [] 0 [])) as [ir w1] eqn:Ea.
  destruct (ini_app_spec ic tc fuel timeout H106 Hdid Hmt Hmi Hfuel n P R 0 (tgt_init (app_of R)) (mkw (tgt_init (app_of R)) [] 0 []) ir w1
              (ready_init tc (app_of R)) eq_refl eq_refl HnP HnR HfP HfR Hlen Ea) as (A & B).
  destruct (B (or_introl (conj eq_refl Hto))) as [-> _]. cbn [o_ini o_tgt]. split; [reflexivity|].
  destruct (end_out ic tc H106 Hdid release w1) as (tail & Et & Htail). rewrite Et.
  destruct A as [(j & e & Hj & E & _)|(_ & Ho & _)].
  - exfalso. assert (Hin : In (IErr e) (map IOk (firstn (length P) R))).
    { rewrite E. apply in_or_app. right. left. reflexivity. }
    apply in_map_iff in Hin. destruct Hin as (x & Hx & _). discriminate.
  - rewrite Ho. cbn. eauto.
Qed.

(* liveness under the stated budget: if every faulty round is followed by two fault free rounds (every lost or
   corrupted frame is the only fault of its protocol step) the conversation completes with the exact data *)
Theorem dep_single_fault_recovered_thm ic tc n fuel script P R timeout release :
  valid_cfg ic tc -> Z.max 0 timeout < Z.of_nat fuel -> 2 <= timeout -> Sparse script ->
  nonempty_all P -> nonempty_all R -> fits n P -> fits n R -> (length P <= length R)%nat ->
  let o := conversation n fuel ic tc script P (app_of R) timeout release in
  o_ini o = map IOk (firstn (length P) R) /\
  exists ttail, o_tgt o = map TOk P ++ ttail /\ tail_ok ttail.
Proof.
  intros (H106 & Hdid & Hmt & Hmi) Hfuel Hto Hsp HnP HnR HfP HfR Hlen. cbv zeta. unfold conversation.
  destruct (ini_app n fuel ic tc 0 P timeout (mkw (tgt_init (app_of R)) script 0 [])) as [ir w1] eqn:Ea.
  destruct (ini_app_spec ic tc fuel timeout H106 Hdid Hmt Hmi Hfuel n P R 0 (tgt_init (app_of R)) (mkw (tgt_init (app_of R)) script 0 []) ir w1
              (ready_init tc (app_of R)) eq_refl eq_refl HnP HnR HfP HfR Hlen Ea) as (A & B).
  destruct (B (or_intror (conj Hsp Hto))) as [-> _]. cbn [o_ini o_tgt]. split; [reflexivity|].
  destruct (end_out ic tc H106 Hdid release w1) as (tail & Et & Htail). rewrite Et.
  destruct A as [(j & e & Hj & E & _)|(_ & Ho & _)].
  - exfalso. assert (Hin : In (IErr e) (map IOk (firstn (length P) R))).
    { rewrite E. apply in_or_app. right. left. reflexivity. }
    apply in_map_iff in Hin. destruct Hin as (x & Hx & _). discriminate.
  - rewrite Ho. cbn. eauto.
Qed.

(* the configurations produced by activation (Model/Dep.v mk_icfg / mk_tcfg; C19 proves that these are
   the values the two activate() methods compute) are valid when the DID is absent or positive *)
Definition did_valid (did : option Z) : Prop := match did with None => True | Some d => 0 < d end.
Lemma valid_mk b lri lrt did nad : did_valid did -> valid_cfg (mk_icfg b lrt did nad) (mk_tcfg b lri did).
Proof.
  intro Hd. pose proof (lr_of_range_s lri). pose proof (lr_of_range_s lrt).
  unfold valid_cfg, mk_icfg, mk_tcfg. cbn [ic_106 tc_106 tc_did ic_did tc_miu ic_miu tc_nad ic_nad].
  assert (Ht : tdid_of did = did).
  { destruct did as [d|]; [|reflexivity]. cbn in *. replace (0 <? d) with true by lia. reflexivity. }
  rewrite Ht. split; [reflexivity|]. split; [reflexivity|].
  destruct did, nad; cbn [is_some b2z]; lia.
Qed.

(* activating used objects again: the conversation is the one fresh objects would have, whatever the history *)
Theorem reactivation_fresh p_old t_old n fuel ic tc script payloads app timeout release :
  conversation_after p_old t_old n fuel ic tc script payloads app timeout release =
  conversation n fuel ic tc script payloads app timeout release.
Proof. reflexivity. Qed.
Theorem activate_state p_old t_old app : ini_activate p_old = 0 /\ tgt_activate t_old app = tgt_init app.
Proof. split; reflexivity. Qed.
