(* dep_nofault_exact and dep_safety: Initiator.exchange against the Target machine,
   for every fault script. *)
From Coq Require Import ZArith List Bool Lia ZifyBool.
From NV Require Import Base.Result Base.Bytes Model.Dep Proofs.DepCodec Proofs.DepTarget Proofs.DepSrr Proofs.DepExact.
Import ListNotations.
Open Scope Z_scope.
Ltac Zify.zify_post_hook ::= Z.to_euclidean_division_equations.

Section Safety.
Variables (ic : icfg) (tc : tcfg) (fuel : nat) (timeout : Z).
(* norx: the target application never calls send_timeout_extension *)
Variable norx : Prop.
Hypothesis H106 : ic_106 ic = tc_106 tc.
Hypothesis Hdid : tc_did tc = ic_did ic.
Hypothesis Hmt : 1 <= tc_miu tc /\ tc_miu tc + 3 + b2z (is_some (tc_did tc)) + b2z (is_some (tc_nad tc)) <= 254.
Hypothesis Hmi : 1 <= ic_miu ic /\ ic_miu ic + 3 + b2z (is_some (ic_did ic)) + b2z (is_some (ic_nad ic)) <= 254.
Hypothesis Hfuel : Z.max 0 timeout < Z.of_nat fuel.

(* scripts on which every protocol step succeeds: no fault at all, or isolated single faults - where a corrupted RTOX
   response is not recoverable by design (an RTOX response to NAK is a protocol error), so either no response is
   corrupted (and the time-out covers the largest RTOX value) or the target application requests no extension *)
Definition Good (sc : list (fate * fate)) : Prop :=
  (sc = [] /\ 1 <= timeout) \/ (Sparse sc /\ NC sc /\ 60 <= timeout) \/ (Sparse sc /\ 2 <= timeout /\ norx).
(* what the target answers in the ideal run: information PDUs, an ACK to a chained information PDU, or an RTOX *)
Definition fmt_ok (r d : deppdu) (sc : list (fate * fate)) : Prop :=
  fmt r <> F_NAK /\ (fmt r = F_INF \/ fmt r = F_MORE \/ (fmt r = F_ACK /\ fmt d = F_MORE) \/ sc = [] \/ NC sc).

(* one call of send_dep_req_recv_dep_res for a request the target is ready to accept *)
Lemma srr_call p w out w' t0 t1 d r :
  req_ok ic d -> (fmt d = F_INF \/ fmt d = F_MORE \/ fmt d = F_ACK) ->
  Tinv tc t0 -> t_pos t0 <> TStop -> t_pni t0 <> Some (pni d) -> (t_pos t0 = TListen \/ t_pos t0 = TFirst -> pni d = 0) ->
  t_accept tc t0 d = (t1, Some (PDepRes r)) -> w_t w = t0 -> 0 <= p <= 3 ->
  srr fuel ic tc p d 1 timeout w = (out, w') ->
  (w_t w' = t0 \/ w_t w' = awake t0 \/ w_t w' = t1) /\
  ((out = Ok r /\ w_t w' = t1) \/ (exists e, out = Err e /\ comm e)) /\
  (Good (w_script w) -> fmt_ok r d (w_script w) -> out = Ok r /\ Good (w_script w')).
Proof.
  intros Hreq Hf HI Hpos Hnew Hfirst Hacc Hw Hp H.
  assert (Hin : InS t0 t1 (w_t w)) by (left; exact Hw).
  destruct (srr_safe ic tc H106 Hdid Hmt Hmi t0 t1 d r Hreq Hf HI Hpos Hnew Hfirst Hacc fuel p 1 timeout w out w' Hin Hp ltac:(lia) H) as (A & B).
  split; [exact A|]. split.
  - destruct B as [B|[B|[_ B]]]; [left; exact B | right; exact B | lia].
  - intros HG [Hnak Hn].
    assert (Hnof : w_script w = [] -> 1 <= timeout -> out = Ok r /\ w_script w' = []).
    { intros Hs Hto.
      destruct (srr_nofault ic tc H106 Hdid Hmt Hmi t0 t1 d r Hreq Hf HI Hpos Hnew Hfirst Hacc fuel p 1 timeout w Hin) as (w2 & E & _ & E2 & _);
        [rewrite Hs; reflexivity | lia | exact Hto | lia | exact Hnak|].
      rewrite E in H. injection H as <- <-. split; [reflexivity|]. rewrite E2, Hs. reflexivity. }
    assert (Hsp : Sparse (w_script w) -> 2 <= timeout ->
               ((fmt r = F_INF \/ fmt r = F_MORE) \/ (fmt r = F_ACK /\ fmt d = F_MORE) \/ NC (w_script w)) ->
               out = Ok r /\ Sparse (w_script w') /\ exists k, w_script w' = skipn k (w_script w)).
    { intros Hs Hto Hfr.
      destruct (srr_sparse ic tc H106 Hdid Hmt Hmi t0 t1 d r Hreq Hf HI Hpos Hnew Hfirst Hacc fuel p timeout w Hnak (or_introl Hw) Hp Hs Hto ltac:(lia) Hfr) as (w2 & E & _ & E2 & E3).
      rewrite E in H. injection H as <- <-. auto. }
    destruct HG as [[Hs Hto]|[(Hs & Hnc & Hto)|(Hs & Hto & Hx)]].
    + destruct (Hnof Hs Hto) as [-> E]. split; [reflexivity|]. left. auto.
    + destruct (Hsp Hs ltac:(lia)) as (-> & S' & k & Ek); [tauto|].
      split; [reflexivity|]. right; left. rewrite Ek at 2. split; [exact S'|]. split; [apply NC_skipn, Hnc | exact Hto].
    + destruct Hn as [Hn|[Hn|[Hn|[He|Hnc]]]].
      * destruct (Hsp Hs Hto) as (-> & S' & _); [tauto|]. split; [reflexivity|]. right; right. auto.
      * destruct (Hsp Hs Hto) as (-> & S' & _); [tauto|]. split; [reflexivity|]. right; right. auto.
      * destruct (Hsp Hs Hto) as (-> & S' & _); [tauto|]. split; [reflexivity|]. right; right. auto.
      * destruct (Hnof He ltac:(lia)) as [-> E]. split; [reflexivity|]. left. split; [exact E | lia].
      * destruct (Hsp Hs Hto) as (-> & S' & _); [tauto|]. split; [reflexivity|]. right; right. auto.
Qed.

Lemma inf_fmt q sd : fmt (inf tc q sd) = F_INF \/ fmt (inf tc q sd) = F_MORE.
Proof. unfold inf; cbn. destruct (tc_miu tc <? len sd); auto. Qed.
Lemma inf_fmt3 q sd d sc : fmt_ok (inf tc q sd) d sc.
Proof. unfold fmt_ok. destruct (inf_fmt q sd) as [E|E]; rewrite E; split; auto; unfold F_INF, F_MORE, F_NAK; lia. Qed.

Lemma awake_out t : t_out (awake t) = t_out t.
Proof. unfold awake. destruct (t_pos t); reflexivity. Qed.

(* what the target application has seen is unchanged or extended by exactly the payload x *)
Definition Safe (out0 : list tres) (x : list Z) (t : tgt) : Prop :=
  t_out t = out0 \/ t_out t = out0 ++ [TOk x].

Lemma take_all {A} n (l : list A) : len l <= n -> take n l = l.
Proof. intro H. unfold take. apply firstn_all2. unfold len in H. lia. Qed.

(* the last information PDU of a payload: it goes to the application, which requests the time-out extensions rt
   one after the other and then answers with resp *)
Lemma ready_last_gen t q acc d rt resp rest : Ready tc t q acc -> fmt d = F_INF -> pni d = q ->
  t_app t = (rt, resp) :: rest -> resp <> [] -> Forall rt_ok rt ->
  exists t1 r1, t_accept tc t d = (t1, Some (PDepRes r1)) /\
                Rph tc q resp rest (t_out t ++ [TOk (acc ++ data d)]) (length rt) t1 /\ t_res t1 = Some r1 /\
                (rt = [] -> r1 = inf tc q resp).
Proof.
  intros HR Hf Hp Happ Hne Hrt. pose proof HR as (HI & Hq & Hc).
  destruct rt as [|x rt'].
  - destruct (ready_last tc Hmt t q acc d resp rest HR Hf Hp Happ Hne) as (Hacc & (A1 & A2 & A3 & A4 & A5)).
    do 2 eexists. split; [exact Hacc|]. split; [|split; [exact A4 | reflexivity]].
    apply Rph_send; auto.
  - assert (HRp : forall a, Rph tc q resp rest (t_out t ++ [TOk (acc ++ data d)]) (length (x :: rt'))
               (mktgt (Some q) TRtox (Some (rtoxres tc x)) ((rt', resp) :: rest) (t_out t ++ [TOk (acc ++ data d)]) (t_rtx t) a)).
    { intro a. apply (Rph_rtox tc q resp rest _ _ _ x rt'); cbn; auto.
      split; cbn; [intros p0 E; injection E as <-; exact Hq | intros r0 E; injection E as <-; apply (rtoxres_ok ic tc Hmt)]. }
    assert (Hstart : forall a pos res0,
       t_app_step tc (mktgt (Some q) pos res0 (t_app t) (t_out t) (t_rtx t) a) (acc ++ data d) =
       (mktgt (Some q) TRtox (Some (rtoxres tc x)) ((rt', resp) :: rest) (t_out t ++ [TOk (acc ++ data d)]) (t_rtx t) a,
        Some (PDepRes (rtoxres tc x)))).
    { intros a pos res0. unfold t_app_step, t_app_continue. cbn [t_app t_pni t_pos t_res t_out t_rtx t_act]. rewrite Happ. reflexivity. }
    unfold t_accept.
    destruct Hc as [(Hpos & -> & -> & Hn)|[(sd & pt & Hpos & Hl & Hn & -> & ->)|(pt & Hpos & Hn & ->)]]; rewrite Hpos.
    + unfold t_recv_chain. rewrite Hf. change (F_INF =? F_MORE) with false. cbv iota. rewrite Hstart.
      do 2 eexists. split; [reflexivity|]. split; [apply HRp|]. split; [reflexivity | discriminate].
    + replace (tc_miu tc <? len sd) with false by lia. cbn [andb]. rewrite Hn, Hp. rewrite Z.eqb_refl. cbn [negb].
      replace (drop (tc_miu tc) sd) with (@nil Z) by (symmetry; apply drop_nil_iff; lia).
      unfold t_recv_chain, t_set_pni. rewrite Hf. change (F_INF =? F_MORE) with false. cbv iota. rewrite Hstart.
      do 2 eexists. split; [reflexivity|]. split; [apply HRp|]. split; [reflexivity | discriminate].
    + rewrite Hn, Hp. rewrite Z.eqb_refl. cbn [negb].
      unfold t_recv_chain, t_set_pni. rewrite Hf. change (F_INF =? F_MORE) with false. cbv iota. rewrite Hstart.
      do 2 eexists. split; [reflexivity|]. split; [apply HRp|]. split; [reflexivity | discriminate].
Qed.

Lemma Rph0_sending q resp rest out0 t : resp <> [] -> Rph tc q resp rest out0 0 t ->
  Sending tc t q resp /\ t_app t = rest /\ t_out t = out0.
Proof.
  intros Hne [x rt A B C D E F G I|A B C D E F]; [lia|]. split; [|auto]. split; [exact A|]. auto.
Qed.

(* ------------------------------------------------------------ the send loop *)
Lemma send_loop_spec rt resp rest n : forall p sd last acc t w out w',
  Ready tc t p acc -> w_t w = t -> t_app t = (rt, resp) :: rest -> resp <> [] -> sd <> [] -> (length sd <= n)%nat ->
  Forall rt_ok rt -> (length rt <= 3)%nat -> (norx -> rt = []) ->
  send_loop n fuel ic tc p sd last timeout w = (out, w') ->
  ((exists e, out = Err e /\ comm e) /\ Safe (t_out t) (acc ++ sd) (w_t w')
   \/ exists q, 0 <= q <= 3 /\ out = Ok ((q + 1) mod 4, inf tc q resp) /\ Sending tc (w_t w') q resp /\
                t_app (w_t w') = rest /\ t_out (w_t w') = t_out t ++ [TOk (acc ++ sd)]) /\
  (Good (w_script w) -> (exists y, out = Ok y) /\ Good (w_script w')).
Proof.
  induction n as [|n IH]; intros p sd last acc t w out w' HR Hw Happ Hne Hsd Hlen Hrt Hrl Hnx H.
  { destruct sd; [congruence | cbn in Hlen; lia]. }
  destruct sd as [|b sd0]; [congruence|]. remember (b :: sd0) as sd eqn:Esd.
  assert (Hsd0 : send_loop (S n) fuel ic tc p sd last timeout w =
     match srr fuel ic tc p (i_dep ic (if nonempty (drop (ic_miu ic) sd) then F_MORE else F_INF) p (take (ic_miu ic) sd)) 1 timeout w with
     | (Ok r0, w1) =>
         match after_rtox fuel ic tc p r0 timeout w1 with
         | (Ok r, w2) =>
             if (fmt r =? F_ACK) && negb (nonempty (drop (ic_miu ic) sd)) then (Err ProtocolError, w2)
             else if negb (pni r =? p) then (Err ProtocolError, w2)
             else send_loop n fuel ic tc ((p + 1) mod 4) (drop (ic_miu ic) sd) (Some r) timeout w2
         | (Err e, w2) => (Err e, w2) | (Crash c, w2) => (Crash c, w2) | (Hang, w2) => (Hang, w2)
         end
     | (Err e, w1) => (Err e, w1) | (Crash c, w1) => (Crash c, w1) | (Hang, w1) => (Hang, w1)
     end) by (rewrite Esd; reflexivity).
  rewrite Hsd0 in H. clear Hsd0.
  destruct (ready_facts tc t p acc HR) as (HI & Hpos & Hnew & Hfirst).
  pose proof HR as (_ & Hp & _).
  remember (take (ic_miu ic) sd) as chunk eqn:Echunk. remember (drop (ic_miu ic) sd) as sd' eqn:Esd'.
  assert (Hcs : chunk ++ sd' = sd) by (subst chunk sd'; apply len_drop_take; lia).
  assert (Hchunk : len chunk <= ic_miu ic) by (subst chunk; apply len_take_le; lia).
  destruct sd' as [|b' sd1].
  - (* last chunk *)
    cbn [nonempty] in H.
    assert (Hc : chunk = sd) by (rewrite <- Hcs; symmetry; apply app_nil_r).
    set (d := i_dep ic F_INF p chunk) in *.
    assert (Hreq : req_ok ic d) by (apply (i_dep_ok ic tc); unfold F_INF; lia).
    destruct (ready_last_gen t p acc d rt resp rest HR eq_refl eq_refl Happ Hne Hrt) as (t1 & r1 & Hacc & HP1 & Er1 & Hr1).
    set (out1 := t_out t ++ [TOk (acc ++ data d)]) in *.
    assert (Eout1 : out1 = t_out t ++ [TOk (acc ++ sd)]) by (unfold out1, d; cbn; rewrite Hc; reflexivity).
    destruct (Rph_facts ic tc Hmt p resp rest out1 Hp _ _ HP1) as (_ & _ & Eo1 & r0 & Er0 & Hok1 & Hnak1 & Hk1).
    rewrite Er1 in Er0. injection Er0 as <-.
    destruct (srr fuel ic tc p d 1 timeout w) as [o1 w1] eqn:Es.
    destruct (srr_call p w o1 w1 t t1 d r1 Hreq ltac:(auto) HI Hpos Hnew Hfirst Hacc Hw Hp Es) as (A & B & C).
    assert (Hsafe : Safe (t_out t) (acc ++ sd) (w_t w1)).
    { destruct A as [-> |[-> | ->]]; [left; reflexivity | left; apply awake_out | right; rewrite Eo1; exact Eout1]. }
    assert (Hfr : fmt (inf tc p resp) <> F_RTOX /\ fmt (inf tc p resp) <> F_ACK /\ fmt (inf tc p resp) <> F_NAK).
    { unfold inf. cbn. destruct (tc_miu tc <? len resp); unfold F_MORE, F_INF, F_RTOX, F_ACK, F_NAK; lia. }
    (* what the script class tells about an RTOX answer *)
    assert (Hfok : Good (w_script w) -> fmt_ok r1 d (w_script w)).
    { intro HG. split; [exact Hnak1|]. destruct Hk1 as [[-> _]|(x1 & -> & _ & _)].
      - destruct (inf_fmt p resp) as [E|E]; unfold infr; fold (inf tc p resp); rewrite E; auto.
      - destruct HG as [[E _]|[(_ & N & _)|(_ & _ & Hx)]]; [auto | auto 6|].
        specialize (Hr1 (Hnx Hx)). exfalso. apply (f_equal fmt) in Hr1. unfold inf in Hr1. cbn in Hr1. destruct (tc_miu tc <? len resp); discriminate. }
    destruct B as [[-> B]|[e [-> He]]].
    2:{ injection H as <- <-. split; [left; split; [eauto | exact Hsafe]|].
        intros Hs. destruct (C Hs (Hfok Hs)) as [C1 _]. discriminate. }
    (* the time-out extension rounds *)
    assert (Hrx : exists o2 w2, after_rtox fuel ic tc p r1 timeout w1 = (o2, w2) /\
              (((exists e, o2 = Err e /\ comm e) /\ Safe (t_out t) (acc ++ sd) (w_t w2)) \/
               (o2 = Ok (inf tc p resp) /\ Rph tc p resp rest out1 0 (w_t w2))) /\
              (Good (w_script w1) -> o2 = Ok (inf tc p resp) /\ Good (w_script w2))).
    { unfold after_rtox. destruct (fmt r1 =? F_RTOX) eqn:Ex.
      - assert (HP3 : Rph tc p resp rest out1 3 (w_t w1)) by (rewrite B; apply (Rph_mono ic tc p resp rest out1 (length rt)); [exact Hrl | exact HP1]).
        destruct (rtox_loop 3 fuel ic tc p r1 timeout w1) as [o2 w2] eqn:El. exists o2, w2. split; [reflexivity|]. split.
        + destruct (rtox_loop_R ic tc H106 Hdid Hmt Hmi p resp rest out1 Hp Hne 3 fuel p r1 timeout w1 o2 w2 HP3 ltac:(rewrite B; exact Er1) ltac:(lia) Hp Hfuel El) as [[X Y]|[X Y]].
          * left. split; [exact X|]. right.
            destruct (Rph_facts ic tc Hmt p resp rest out1 Hp _ _ Y) as (_ & _ & E & _). rewrite E. exact Eout1.
          * right. auto.
        + intro HG.
          assert (HG' : (w_script w1 = [] /\ 1 <= timeout) \/ (Sparse (w_script w1) /\ NC (w_script w1) /\ 60 <= timeout)).
          { destruct HG as [G1|[G2|(_ & _ & Hx)]]; [left; exact G1 | right; exact G2|].
            specialize (Hr1 (Hnx Hx)). exfalso. rewrite Hr1 in Ex. unfold inf in Ex. cbn in Ex. destruct (tc_miu tc <? len resp); discriminate. }
          destruct (rtox_loop_R_good ic tc H106 Hdid Hmt Hmi p resp rest out1 Hp Hne 3 fuel p r1 timeout w1 HP3 ltac:(rewrite B; exact Er1) ltac:(lia) Hp ltac:(lia) HG')
            as (w2' & E & _ & U1 & U2).
          rewrite E in El. injection El as <- <-. split; [reflexivity|].
          destruct HG' as [[Hs Hto]|(Hs & Hnc & Hto)]; [left; split; [apply U1, Hs | exact Hto] | right; left; destruct (U2 Hs Hnc); auto].
      - exists (Ok r1), w1. split; [reflexivity|].
        assert (E1 : r1 = inf tc p resp) by (destruct Hk1 as [[-> _]|(x1 & -> & _)]; [reflexivity | cbn in Ex; discriminate]).
        split; [right; split; [rewrite E1; reflexivity|]|intro HG; split; [rewrite E1; reflexivity | exact HG]].
        rewrite B. destruct HP1 as [x2 rt2 A1 A2 A3 A4 A5 A6 A7 A8|A1 A2 A3 A4 A5 A6]; [|apply Rph_send; auto].
        exfalso. rewrite A5 in Er1. injection Er1 as <-. cbn in Ex. discriminate. }
    destruct Hrx as (o2 & w2 & Erx & Hres & Hgood). rewrite Erx in H.
    destruct Hres as [[(e & -> & He) Hs2]|[-> HP0]].
    { injection H as <- <-. split; [left; split; [eauto | exact Hs2]|].
      intros Hs. destruct (C Hs (Hfok Hs)) as [_ C2]. destruct (Hgood C2) as [X _]. discriminate. }
    replace (fmt (inf tc p resp) =? F_ACK) with false in H by lia. cbn [andb] in H.
    change (pni (inf tc p resp)) with p in H. rewrite Z.eqb_refl in H. cbn [negb] in H.
    destruct (Rph0_sending p resp rest out1 _ Hne HP0) as (HS & Ha & Ho).
    destruct n; cbn [send_loop] in H; injection H as <- <-.
    all: split; [right; exists p; split; [exact Hp|]; split; [reflexivity|]; split; [exact HS|]; split; [exact Ha | rewrite Ho; exact Eout1] |
                 intros Hs; destruct (C Hs (Hfok Hs)) as [_ C2]; destruct (Hgood C2) as [_ X]; split; [eauto | exact X]].
  - (* more chunks follow *)
    cbn [nonempty] in H.
    set (d := i_dep ic F_MORE p chunk) in *.
    assert (Hreq : req_ok ic d) by (apply (i_dep_ok ic tc); unfold F_MORE; lia).
    destruct (ready_more tc Hmt t p acc d HR eq_refl eq_refl) as (Hacc & HR1).
    match type of Hacc with _ = (?tt, _) => set (t1 := tt) in * end.
    destruct (srr fuel ic tc p d 1 timeout w) as [o1 w1] eqn:Es.
    destruct (srr_call p w o1 w1 t t1 d (ack tc p) Hreq ltac:(auto) HI Hpos Hnew Hfirst Hacc Hw Hp Es) as (A & B & C).
    assert (Hsafe : Safe (t_out t) (acc ++ sd) (w_t w1)).
    { destruct A as [-> |[-> | ->]]; [left; reflexivity | left; apply awake_out | left; reflexivity]. }
    assert (Hackok : Good (w_script w) -> fmt_ok (ack tc p) d (w_script w)).
    { intros _. split; [cbn; unfold F_ACK, F_NAK; lia | right; right; left; split; reflexivity]. }
    destruct B as [[-> B]|[e [-> He]]].
    + unfold after_rtox in H. change (fmt (ack tc p) =? F_RTOX) with false in H. cbv iota in H.
      change (fmt (ack tc p) =? F_ACK) with true in H. cbn [andb negb nonempty] in H.
      change (pni (ack tc p)) with p in H. rewrite Z.eqb_refl in H. cbn [negb] in H.
      assert (Hlen' : (length (b' :: sd1) <= n)%nat).
      { assert (E : len chunk + len (b' :: sd1) = len sd) by (rewrite <- Hcs, len_app; reflexivity).
        assert (0 < len chunk).
        { rewrite Echunk. unfold take, len. rewrite firstn_length. subst sd. cbn [length]. lia. }
        unfold len in *. lia. }
      assert (Eacc : (acc ++ data d) ++ b' :: sd1 = acc ++ sd).
      { cbn [data d i_dep]. rewrite <- app_assoc, Hcs. reflexivity. }
      destruct (IH ((p + 1) mod 4) (b' :: sd1) (Some (ack tc p)) (acc ++ data d) t1 w1 out w' HR1 B Happ Hne ltac:(discriminate) Hlen' Hrt Hrl Hnx H) as (X & Y).
      rewrite Eacc in X. split; [exact X|].
      intros Hs. destruct (C Hs (Hackok Hs)) as [_ C2]. apply Y; assumption.
    + injection H as <- <-. split; [left; split; [eauto | exact Hsafe]|].
      intros Hs. destruct (C Hs (Hackok Hs)) as [C1 _]. discriminate.
Qed.

(* ------------------------------------------------------------ the receive loop *)
Lemma recv_loop_spec resp n : forall q sd acc t w out w',
  Sending tc t q sd -> w_t w = t -> 0 <= q <= 3 -> acc ++ drop (tc_miu tc) sd = resp -> (length sd <= n)%nat ->
  recv_loop n fuel ic tc ((q + 1) mod 4) (inf tc q sd) acc timeout w = (out, w') ->
  ((exists e, out = Err e /\ comm e) /\ t_out (w_t w') = t_out t
   \/ exists p', out = Ok (p', resp) /\ Ready tc (w_t w') p' [] /\
                 t_app (w_t w') = t_app t /\ t_out (w_t w') = t_out t /\ t_rtx (w_t w') = t_rtx t) /\
  (Good (w_script w) -> (exists y, out = Ok y) /\ Good (w_script w')).
Proof.
  induction n as [|n IH]; intros q sd acc t w out w' HS Hw Hq Hacc Hlen H.
  { destruct HS as (_ & _ & _ & _ & Hne). destruct sd; [congruence | cbn in Hlen; lia]. }
  pose proof HS as (HI & Hpos & Hpni & Hres & Hne).
  cbn [recv_loop] in H. unfold inf at 1 in H. cbn [fmt] in H.
  destruct (tc_miu tc <? len sd) eqn:Em.
  - (* the target chains: acknowledge *)
    change (F_MORE =? F_MORE) with true in H. cbn [negb] in H.
    set (p := (q + 1) mod 4) in *.
    set (d := i_dep ic F_ACK p []) in *.
    assert (Hreq : req_ok ic d) by (apply (i_dep_ok ic tc); unfold F_ACK; try lia; change (len (@nil Z)) with 0; lia).
    destruct (sending_ack tc Hmt t q sd d HS ltac:(lia) eq_refl eq_refl Hq) as (Hac & HS1).
    fold p in Hac, HS1.
    match type of Hac with _ = (?tt, _) => set (t1 := tt) in * end.
    destruct (srr fuel ic tc p d 1 timeout w) as [o1 w1] eqn:Es.
    assert (Hnew : t_pni t <> Some (pni d)) by (rewrite Hpni; cbn; intro E; injection E as E; unfold p in E; lia).
    destruct (srr_call p w o1 w1 t t1 d (inf tc p (drop (tc_miu tc) sd)) Hreq ltac:(auto) HI ltac:(rewrite Hpos; discriminate) Hnew
                ltac:(rewrite Hpos; intros [E|E]; discriminate) Hac Hw ltac:(unfold p; lia) Es) as (A & B & C).
    assert (Hout : t_out (w_t w1) = t_out t).
    { destruct A as [-> |[-> | ->]]; [reflexivity | apply awake_out | reflexivity]. }
    assert (Hfr : fmt (inf tc p (drop (tc_miu tc) sd)) <> F_RTOX /\ fmt (inf tc p (drop (tc_miu tc) sd)) <> F_NAK /\
                  (fmt (inf tc p (drop (tc_miu tc) sd)) = F_INF \/ fmt (inf tc p (drop (tc_miu tc) sd)) = F_MORE)).
    { unfold inf. cbn. destruct (tc_miu tc <? len (drop (tc_miu tc) sd)); unfold F_MORE, F_INF, F_RTOX, F_NAK; lia. }
    destruct B as [[-> B]|[e [-> He]]].
    + unfold after_rtox in H. replace (fmt (inf tc p (drop (tc_miu tc) sd)) =? F_RTOX) with false in H by lia.
      replace ((fmt (inf tc p (drop (tc_miu tc) sd)) =? F_INF) || (fmt (inf tc p (drop (tc_miu tc) sd)) =? F_MORE)) with true in H by lia.
      cbn [negb] in H. change (pni (inf tc p (drop (tc_miu tc) sd))) with p in H. rewrite Z.eqb_refl in H. cbn [negb] in H.
      assert (Hlen' : (length (drop (tc_miu tc) sd) <= n)%nat).
      { unfold drop. rewrite skipn_length. destruct sd; [congruence|]. cbn [length] in *. lia. }
      assert (Hacc' : (acc ++ data (inf tc p (drop (tc_miu tc) sd))) ++ drop (tc_miu tc) (drop (tc_miu tc) sd) = resp).
      { unfold inf. cbn [data]. rewrite <- app_assoc, len_drop_take by lia. exact Hacc. }
      destruct (IH p (drop (tc_miu tc) sd) _ t1 w1 out w' HS1 B ltac:(unfold p; lia) Hacc' Hlen' H) as (X & Y).
      split; [exact X|].
      intros Hs. destruct (C Hs (inf_fmt3 _ _ _ _)) as [_ C2]. apply Y; assumption.
    + injection H as <- <-. split; [left; split; [eauto | exact Hout]|].
      intros Hs. destruct (C Hs (inf_fmt3 _ _ _ _)) as [C1 _]. discriminate.
  - (* that was the last chunk *)
    change (F_INF =? F_MORE) with false in H. cbn [negb] in H. injection H as <- <-.
    assert (Hd : drop (tc_miu tc) sd = []) by (apply drop_nil_iff; lia).
    rewrite Hd, app_nil_r in Hacc. subst acc.
    split.
    + right. exists ((q + 1) mod 4). split; [reflexivity|]. rewrite Hw.
      split; [apply (sending_ready tc t q sd HS); lia | auto].
    + intros Hs. split; [eauto | exact Hs].
Qed.

(* ------------------------------------------------------------ Initiator.exchange *)
Lemma exchange_spec n rt resp rest p x t w out w' :
  Ready tc t p [] -> w_t w = t -> t_app t = (rt, resp) :: rest -> resp <> [] -> x <> [] ->
  (length x <= n)%nat -> (length resp <= n)%nat ->
  Forall rt_ok rt -> (length rt <= 3)%nat -> (norx -> rt = []) ->
  ini_exchange n fuel ic tc p x timeout w = (out, w') ->
  ((exists e, out = Err e /\ comm e) /\ Safe (t_out t) x (w_t w')
   \/ exists p', out = Ok (p', resp) /\ Ready tc (w_t w') p' [] /\
                 t_app (w_t w') = rest /\ t_out (w_t w') = t_out t ++ [TOk x]) /\
  (Good (w_script w) -> (exists y, out = Ok y) /\ Good (w_script w')).
Proof.
  intros HR Hw Happ Hne Hx Hlx Hlr Hrt Hrl Hnx H. unfold ini_exchange in H.
  destruct (send_loop n fuel ic tc p x None timeout w) as [o1 w1] eqn:Es.
  destruct (send_loop_spec rt resp rest n p x None [] t w o1 w1 HR Hw Happ Hne Hx Hlx Hrt Hrl Hnx Es) as (A & B).
  cbn [app] in A.
  destruct A as [((e & -> & He) & Hsafe)|(q & Hq & -> & HS & Ha & Ho)].
  - injection H as <- <-. split; [left; split; [eauto | exact Hsafe]|].
    intros Hs. destruct (B Hs) as [[y Hy] _]. discriminate.
  - assert (Hf : (fmt (inf tc q resp) =? F_INF) || (fmt (inf tc q resp) =? F_MORE) = true).
    { unfold inf. cbn. destruct (tc_miu tc <? len resp); reflexivity. }
    rewrite Hf in H. cbn [negb] in H.
    assert (Hacc : data (inf tc q resp) ++ drop (tc_miu tc) resp = resp) by (unfold inf; cbn [data]; apply len_drop_take; lia).
    destruct (recv_loop_spec resp n q resp _ (w_t w1) w1 out w' HS eq_refl Hq Hacc Hlr H) as (X & Y).
    split.
    + destruct X as [((e & -> & He) & Hout)|(p' & -> & HR' & Ha' & Ho' & Hr')].
      * left. split; [eauto|]. right. rewrite Hout. exact Ho.
      * right. exists p'. split; [reflexivity|]. split; [exact HR'|]. rewrite Ha', Ho'. auto.
    + intros Hs. destruct (B Hs) as [_ B2]. apply Y; assumption.
Qed.

(* ------------------------------------------------------------ the whole conversation *)
(* the target application: per received payload the RTOX values it requests and its response *)
Definition app_of (R : list (list Z)) : list (list Z * list Z) := map (fun r => ([], r)) R.
Definition resps (app : list (list Z * list Z)) : list (list Z) := map snd app.
(* RTOX values in 1..59, at most three extensions per response (the initiator's range(3)) *)
Definition app_ok (app : list (list Z * list Z)) : Prop :=
  Forall (fun e => Forall rt_ok (fst e) /\ (length (fst e) <= 3)%nat /\ (norx -> fst e = [])) app.

Definition nonempty_all (L : list (list Z)) : Prop := Forall (fun x => x <> []) L.
Definition fits (n : nat) (L : list (list Z)) : Prop := Forall (fun x => (length x <= n)%nat) L.

Lemma ini_app_spec n : forall P ap p t w l w',
  Ready tc t p [] -> w_t w = t -> t_app t = ap -> nonempty_all P -> nonempty_all (resps ap) ->
  fits n P -> fits n (resps ap) -> (length P <= length ap)%nat -> app_ok ap ->
  ini_app n fuel ic tc p P timeout w = (l, w') ->
  ((exists j e, (j < length P)%nat /\ l = map IOk (firstn j (resps ap)) ++ [IErr e] /\ comm e /\
                (t_out (w_t w') = t_out t ++ map TOk (firstn j P) \/ t_out (w_t w') = t_out t ++ map TOk (firstn (S j) P)))
   \/ (l = map IOk (firstn (length P) (resps ap)) /\ t_out (w_t w') = t_out t ++ map TOk P /\
       exists p', Ready tc (w_t w') p' [])) /\
  (Good (w_script w) -> l = map IOk (firstn (length P) (resps ap)) /\ Good (w_script w')).
Proof.
  induction P as [|x P IH]; intros ap p t w l w' HR Hw Happ HnP HnR HfP HfR Hlen Hok H; cbn [ini_app] in H.
  - injection H as <- <-. split.
    + right. cbn. rewrite app_nil_r, Hw. split; [reflexivity|]. split; [reflexivity|]. eauto.
    + intros Hs. cbn. auto.
  - destruct ap as [|[rt resp] ap]; [cbn in Hlen; lia|]. unfold resps in *. cbn [map snd] in *.
    inversion HnP as [|? ? Hx HnP']; subst. inversion HnR as [|? ? Hr HnR']; subst.
    inversion HfP as [|? ? Hlx HfP']; subst. inversion HfR as [|? ? Hlr HfR']; subst.
    inversion Hok as [|? ? (Hrt & Hrl & Hnx) Hok']; subst. cbn [fst] in *.
    destruct (ini_exchange n fuel ic tc p x timeout w) as [o1 w1] eqn:Ee.
    destruct (exchange_spec n rt resp ap p x (w_t w) w o1 w1 HR eq_refl Happ Hr Hx Hlx Hlr Hrt Hrl Hnx Ee) as (A & B).
    destruct A as [((e & -> & He) & Hsafe)|(p' & -> & HR' & Ha' & Ho')].
    + injection H as <- <-. split.
      * left. exists 0%nat, e. cbn [firstn map app length]. split; [lia|]. split; [reflexivity|]. split; [exact He|].
        destruct Hsafe as [Hs|Hs]; [left; rewrite Hs, app_nil_r; reflexivity | right; exact Hs].
      * intros Hs. destruct (B Hs) as [[y Hy] _]. discriminate.
    + destruct (ini_app n fuel ic tc p' P timeout w1) as [l2 w2] eqn:Ea. injection H as <- <-.
      cbn in Hlen.
      destruct (IH ap p' (w_t w1) w1 l2 w2 HR' eq_refl Ha' HnP' HnR' HfP' HfR' ltac:(lia) Hok' Ea) as (X & Y).
      split.
      * destruct X as [(j & e & Hj & -> & He & Hout)|(-> & Hout & Hrd)].
        -- left. exists (S j), e. cbn [firstn map app length]. split; [lia|]. split; [reflexivity|]. split; [exact He|].
           rewrite Ho' in Hout. rewrite <- !app_assoc in Hout. exact Hout.
        -- right. cbn [firstn map app length]. split; [reflexivity|]. split; [|exact Hrd].
           rewrite Hout, Ho', <- app_assoc. reflexivity.
      * intros Hs. destruct (B Hs) as [_ B2]. destruct (Y B2) as [-> Y2]. cbn. auto.
Qed.
End Safety.

(* ------------------------------------------------------------ release and end of the link *)
Section Release.
Variables (ic : icfg) (tc : tcfg).
Hypothesis H106 : ic_106 ic = tc_106 tc.
Hypothesis Hdid : tc_did tc = ic_did ic.

Definition tail_ok (tail : list tres) : Prop := tail = [] \/ tail = [TNone] \/ tail = [TErr TimeoutError].

Lemma release_out t rsp : t_out (fst (t_release t rsp)) = t_out t \/
  (t_out (fst (t_release t rsp)) = t_out t ++ [TNone] /\ t_pos (fst (t_release t rsp)) = TStop).
Proof. unfold t_release. destruct (t_pos t); cbn; auto. Qed.

Lemma absorb_release t (b : bool) f : t_pos t <> TStop ->
  encode_frame (ic_106 ic) (enc_pdu (if b then PRlsReq (ic_did ic) else PDslReq (ic_did ic))) = Ok f ->
  fst (tgt_absorb tc t f) = fst (t_release t (if b then PRlsRes (tc_did tc) else PDslRes (tc_did tc))).
Proof.
  intros Hpos He. unfold tgt_absorb. rewrite <- H106.
  assert (Hd : decode_frame_tgt (ic_106 ic) f = Ok (if b then PRlsReq (ic_did ic) else PDslReq (ic_did ic))).
  { destruct b; [apply decode_tgt_rls | apply decode_tgt_dsl]; exact He. }
  rewrite Hd.
  assert (Hs : tgt_step tc t (if b then PRlsReq (ic_did ic) else PDslReq (ic_did ic)) =
               t_release t (if b then PRlsRes (tc_did tc) else PDslRes (tc_did tc))).
  { unfold tgt_step. destruct b; cbn [pdu_did]; rewrite <- Hdid, opt_eqb_refl; cbn [negb]; destruct (t_pos t); try congruence; reflexivity. }
  rewrite Hs.
  assert (He2 : exists f2, encode_frame (ic_106 ic) (enc_pdu (if b then PRlsRes (tc_did tc) else PDslRes (tc_did tc))) = Ok f2).
  { eexists. apply encode_frame_ok. destruct b; cbn [enc_pdu]; rewrite len_app; destruct (tc_did tc); cbn; lia. }
  destruct He2 as [f2 He2].
  destruct (t_pos t) eqn:Ep; try congruence;
    unfold t_release; rewrite Ep; cbn [fst snd t_stop t_stop_rtx]; rewrite He2; reflexivity.
Qed.

Lemma deactivate_out release w :
  let w' := ini_deactivate ic tc release w in
  t_out (w_t w') = t_out (w_t w) \/ (t_out (w_t w') = t_out (w_t w) ++ [TNone] /\ t_pos (w_t w') = TStop).
Proof.
  cbv zeta. unfold ini_deactivate. destruct release as [b|]; [|left; reflexivity].
  unfold srr1.
  assert (He : exists f, encode_frame (ic_106 ic) (enc_pdu (if b then PRlsReq (ic_did ic) else PDslReq (ic_did ic))) = Ok f).
  { eexists. apply encode_frame_ok. destruct b; cbn [enc_pdu]; rewrite len_app; destruct (ic_did ic); cbn; lia. }
  destruct He as [f He]. rewrite He.
  assert (Hair : w_t (snd (air tc f 1 w)) = w_t w \/ w_t (snd (air tc f 1 w)) = fst (tgt_absorb tc (w_t w) f)).
  { unfold air. destruct (fst (hd (FD, FD) (w_script w))); [|left; reflexivity|left; reflexivity].
    destruct (tgt_absorb tc (w_t w) f) as [t1 o]. destruct o; [destruct (snd (hd (FD, FD) (w_script w)))|]; right; reflexivity. }
  assert (Hw : forall o w1, air tc f 1 w = (o, w1) ->
     w_t (snd (match o with
       | OTimeout => (Err TimeoutError, w1) | OTransErr => (Err TransmissionError, w1)
       | OFrame rsp => match decode_frame_ini (ic_106 ic) rsp with
                       | Ok r => if pdu_name r =? pdu_name (if b then PRlsReq (ic_did ic) else PDslReq (ic_did ic)) then (Ok r, w1) else (Err ProtocolError, w1)
                       | Err e => (Err e, w1) | Crash x => (Crash x, w1) | Hang => (Hang, w1) end end)) = w_t w1).
  { intros o w1 _. destruct o; try reflexivity. destruct (decode_frame_ini (ic_106 ic) f0); try reflexivity.
    destruct (pdu_name a =? _); reflexivity. }
  destruct (air tc f 1 w) as [o w1] eqn:Ea. rewrite (Hw o w1 eq_refl). cbn [snd] in Hair.
  destruct Hair as [-> | ->]; [left; reflexivity|].
  destruct (t_pos (w_t w)) eqn:Ep.
  6:{ unfold tgt_absorb. rewrite Ep. left; reflexivity. }
  all: pose proof (absorb_release (w_t w) b f) as Har; rewrite Har; [apply release_out | rewrite Ep; discriminate | assumption].
Qed.

Lemma close_out t : t_pos t = TStop /\ tgt_close t = t \/ t_out (tgt_close t) = t_out t \/ t_out (tgt_close t) = t_out t ++ [TErr TimeoutError].
Proof. unfold tgt_close. destruct (t_pos t); cbn; auto. Qed.

Lemma end_out release w :
  exists tail, t_out (tgt_close (w_t (ini_deactivate ic tc release w))) = t_out (w_t w) ++ tail /\ tail_ok tail.
Proof.
  destruct (deactivate_out release w) as [E|[E Hs]].
  - destruct (close_out (w_t (ini_deactivate ic tc release w))) as [[_ ->]|[->| ->]].
    + exists []. rewrite app_nil_r. split; [exact E | left; reflexivity].
    + exists []. rewrite app_nil_r. split; [exact E | left; reflexivity].
    + exists [TErr TimeoutError]. rewrite E. split; [reflexivity | right; right; reflexivity].
  - unfold tgt_close. rewrite Hs. exists [TNone]. split; [exact E | right; left; reflexivity].
Qed.
End Release.

(* ------------------------------------------------------------ the theorems *)
Lemma lr_of_range_s i : 64 <= lr_of i <= 254.
Proof. unfold lr_of. destruct (i =? 0), (i =? 1), (i =? 2); lia. Qed.

Definition valid_cfg (ic : icfg) (tc : tcfg) : Prop :=
  ic_106 ic = tc_106 tc /\ tc_did tc = ic_did ic /\
  (1 <= tc_miu tc /\ tc_miu tc + 3 + b2z (is_some (tc_did tc)) + b2z (is_some (tc_nad tc)) <= 254) /\
  (1 <= ic_miu ic /\ ic_miu ic + 3 + b2z (is_some (ic_did ic)) + b2z (is_some (ic_nad ic)) <= 254).

(* RTOX values in 1..59 and at most three extensions per response *)
Definition rtox_ok (ap : list (list Z * list Z)) : Prop :=
  Forall (fun e => Forall (fun x => 0 < x < 60) (fst e) /\ (length (fst e) <= 3)%nat) ap.
Definition no_rtox (ap : list (list Z * list Z)) : Prop := Forall (fun e => fst e = []) ap.

Lemma app_ok_of (norx : Prop) ap : rtox_ok ap -> (norx -> no_rtox ap) -> app_ok norx ap.
Proof.
  intros H1 H2. unfold app_ok, rtox_ok, no_rtox in *. rewrite Forall_forall in *. intros e He.
  destruct (H1 e He) as [A B]. split; [exact A|]. split; [exact B|]. intro Hx. apply (H2 Hx), He.
Qed.
Lemma resps_app_of R : resps (app_of R) = R.
Proof. unfold resps, app_of. rewrite map_map. cbn. apply map_id. Qed.
Lemma rtox_ok_app_of R : rtox_ok (app_of R) /\ no_rtox (app_of R).
Proof. unfold rtox_ok, no_rtox, app_of. split; apply Forall_forall; intros e He; apply in_map_iff in He; destruct He as (r & <- & _); cbn; auto. Qed.

(* ---- with time-out extensions: the target application may call send_timeout_extension up to three times before
   each response.  Safety for EVERY fault script: the payloads handed to either application are prefixes of what the
   other one passed to exchange() - in particular an RTOX value octet is never delivered as payload ---- *)
Theorem dep_safety_rtox_thm ic tc n fuel script P ap timeout release :
  valid_cfg ic tc -> Z.max 0 timeout < Z.of_nat fuel -> rtox_ok ap ->
  nonempty_all P -> nonempty_all (resps ap) -> fits n P -> fits n (resps ap) -> (length P <= length ap)%nat ->
  let o := conversation n fuel ic tc script P ap timeout release in
  exists j k itail ttail,
    o_ini o = map IOk (firstn j (resps ap)) ++ itail /\
    (itail = [] /\ j = length P \/ exists e, itail = [IErr e] /\ comm e /\ (j < length P)%nat) /\
    o_tgt o = map TOk (firstn k P) ++ ttail /\ tail_ok ttail /\
    (j <= k <= j + 1)%nat /\ (k <= length P)%nat.
Proof.
  intros (H106 & Hdid & Hmt & Hmi) Hfuel Hrx HnP HnR HfP HfR Hlen. cbv zeta. unfold conversation.
  destruct (ini_app n fuel ic tc 0 P timeout (mkw (tgt_init ap) script 0 [])) as [ir w1] eqn:Ea.
  destruct (ini_app_spec ic tc fuel timeout False H106 Hdid Hmt Hmi Hfuel n P ap 0 (tgt_init ap) (mkw (tgt_init ap) script 0 []) ir w1
              (ready_init tc ap) eq_refl eq_refl HnP HnR HfP HfR Hlen (app_ok_of False ap Hrx (fun f : False => match f with end)) Ea) as (A & _).
  cbn [o_ini o_tgt].
  destruct (end_out ic tc H106 Hdid release w1) as (tail & Et & Htail). rewrite Et.
  destruct A as [(j & e & Hj & -> & He & [Ho|Ho])|(-> & Ho & _)]; rewrite Ho; cbn [tgt_init t_out app].
  - exists j, j, [IErr e], tail. repeat split; auto; try lia. right. eauto.
  - exists j, (S j), [IErr e], tail. repeat split; auto; try lia. right. eauto.
  - exists (length P), (length P), [], tail. rewrite app_nil_r, firstn_all. repeat split; auto; lia.
Qed.

(* exactness on scripts without unrecoverable faults: fault free, or isolated single faults (lost / corrupted request, lost
   response) with no corrupted response and a time-out of at least 60 RWT (above the largest RTOX value), or - without
   time-out extension - isolated single faults of any kind *)
Theorem dep_exact_rtox_thm ic tc n fuel script P ap timeout release :
  valid_cfg ic tc -> Z.max 0 timeout < Z.of_nat fuel -> rtox_ok ap ->
  ((script = [] /\ 1 <= timeout) \/ (Sparse script /\ NC script /\ 60 <= timeout) \/ (Sparse script /\ 2 <= timeout /\ no_rtox ap)) ->
  nonempty_all P -> nonempty_all (resps ap) -> fits n P -> fits n (resps ap) -> (length P <= length ap)%nat ->
  let o := conversation n fuel ic tc script P ap timeout release in
  o_ini o = map IOk (firstn (length P) (resps ap)) /\
  exists ttail, o_tgt o = map TOk P ++ ttail /\ tail_ok ttail.
Proof.
  intros (H106 & Hdid & Hmt & Hmi) Hfuel Hrx HG HnP HnR HfP HfR Hlen. cbv zeta. unfold conversation.
  destruct (ini_app n fuel ic tc 0 P timeout (mkw (tgt_init ap) script 0 [])) as [ir w1] eqn:Ea.
  destruct (ini_app_spec ic tc fuel timeout (no_rtox ap) H106 Hdid Hmt Hmi Hfuel n P ap 0 (tgt_init ap) (mkw (tgt_init ap) script 0 []) ir w1
              (ready_init tc ap) eq_refl eq_refl HnP HnR HfP HfR Hlen (app_ok_of _ ap Hrx (fun h => h)) Ea) as (A & B).
  destruct (B HG) as [-> _]. cbn [o_ini o_tgt]. split; [reflexivity|].
  destruct (end_out ic tc H106 Hdid release w1) as (tail & Et & Htail). rewrite Et.
  destruct A as [(j & e & Hj & E & _)|(_ & Ho & _)].
  - exfalso. assert (Hin : In (IErr e) (map IOk (firstn (length P) (resps ap)))).
    { rewrite E. apply in_or_app. right. left. reflexivity. }
    apply in_map_iff in Hin. destruct Hin as (x & Hx & _). discriminate.
  - rewrite Ho. cbn. eauto.
Qed.

(* ---- the statements without time-out extension are the instances ap = app_of R ---- *)
Theorem dep_safety_thm ic tc n fuel script P R timeout release :
  valid_cfg ic tc -> Z.max 0 timeout < Z.of_nat fuel ->
  nonempty_all P -> nonempty_all R -> fits n P -> fits n R -> (length P <= length R)%nat ->
  let o := conversation n fuel ic tc script P (app_of R) timeout release in
  exists j k itail ttail,
    o_ini o = map IOk (firstn j R) ++ itail /\
    (itail = [] /\ j = length P \/ exists e, itail = [IErr e] /\ comm e /\ (j < length P)%nat) /\
    o_tgt o = map TOk (firstn k P) ++ ttail /\ tail_ok ttail /\
    (j <= k <= j + 1)%nat /\ (k <= length P)%nat.
Proof.
  intros Hv Hfuel HnP HnR HfP HfR Hlen.
  pose proof (dep_safety_rtox_thm ic tc n fuel script P (app_of R) timeout release Hv Hfuel (proj1 (rtox_ok_app_of R))) as H.
  rewrite resps_app_of in H. apply H; try assumption. unfold app_of. rewrite map_length. exact Hlen.
Qed.

Theorem dep_nofault_exact_thm ic tc n fuel P R timeout release :
  valid_cfg ic tc -> Z.max 0 timeout < Z.of_nat fuel -> 1 <= timeout ->
  nonempty_all P -> nonempty_all R -> fits n P -> fits n R -> (length P <= length R)%nat ->
  let o := conversation n fuel ic tc [] P (app_of R) timeout release in
  o_ini o = map IOk (firstn (length P) R) /\
  exists ttail, o_tgt o = map TOk P ++ ttail /\ tail_ok ttail.
Proof.
  intros Hv Hfuel Hto HnP HnR HfP HfR Hlen.
  pose proof (dep_exact_rtox_thm ic tc n fuel [] P (app_of R) timeout release Hv Hfuel (proj1 (rtox_ok_app_of R))
                (or_introl (conj eq_refl Hto))) as H.
  rewrite resps_app_of in H. apply H; try assumption. unfold app_of. rewrite map_length. exact Hlen.
Qed.

Theorem dep_single_fault_recovered_thm ic tc n fuel script P R timeout release :
  valid_cfg ic tc -> Z.max 0 timeout < Z.of_nat fuel -> 2 <= timeout -> Sparse script ->
  nonempty_all P -> nonempty_all R -> fits n P -> fits n R -> (length P <= length R)%nat ->
  let o := conversation n fuel ic tc script P (app_of R) timeout release in
  o_ini o = map IOk (firstn (length P) R) /\
  exists ttail, o_tgt o = map TOk P ++ ttail /\ tail_ok ttail.
Proof.
  intros Hv Hfuel Hto Hsp HnP HnR HfP HfR Hlen.
  pose proof (dep_exact_rtox_thm ic tc n fuel script P (app_of R) timeout release Hv Hfuel (proj1 (rtox_ok_app_of R))
                (or_intror (or_intror (conj Hsp (conj Hto (proj2 (rtox_ok_app_of R))))))) as H.
  rewrite resps_app_of in H. apply H; try assumption. unfold app_of. rewrite map_length. exact Hlen.
Qed.

(* the configurations produced by activation (Model/Dep.v mk_icfg / mk_tcfg; C19 proves that these are
   the values the two activate() methods compute) are valid when the DID is absent or positive *)
Definition did_valid (did : option Z) : Prop := match did with None => True | Some d => 0 < d end.
Lemma valid_mk b lri lrt did nad : did_valid did -> valid_cfg (mk_icfg b lrt did nad) (mk_tcfg b lri did).
Proof.
  intro Hd. pose proof (lr_of_range_s lri). pose proof (lr_of_range_s lrt).
  unfold valid_cfg, mk_icfg, mk_tcfg. cbn [ic_106 tc_106 tc_did ic_did tc_miu ic_miu tc_nad ic_nad].
  assert (Ht : tdid_of did = did).
  { destruct did as [d|]; [|reflexivity]. cbn in *. replace (0 <? d) with true by lia. reflexivity. }
  rewrite Ht. split; [reflexivity|]. split; [reflexivity|].
  destruct did, nad; cbn [is_some b2z]; lia.
Qed.

(* activating used objects again: the conversation is the one fresh objects would have, whatever the history *)
Theorem reactivation_fresh p_old t_old n fuel ic tc script payloads app timeout release :
  conversation_after p_old t_old n fuel ic tc script payloads app timeout release =
  conversation n fuel ic tc script payloads app timeout release.
Proof. reflexivity. Qed.
Theorem activate_state p_old t_old app : ini_activate p_old = 0 /\ tgt_activate t_old app = tgt_init app.
Proof. split; reflexivity. Qed.
