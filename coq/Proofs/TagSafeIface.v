(* C08: everything the Type 3 / Type 4 safety proofs (Proofs/TagSafeBlk.v) need to know about the SHARED model
   functions of Model/T3T.v, Model/T4T.v and Model/IsoDep.v, as small lemmas.  TagSafeBlk.v never unfolds a
   shared definition; when one of those models is refactored, only the short proofs in this file have to follow. *)
From Coq Require Import ZArith List Bool Lia ZifyBool.
From NV Require Import Base.Result Base.Bytes Base.PyPrims Proofs.Chunks Model.IsoDep Model.T3T Model.T4T.
Import ListNotations.
Open Scope Z_scope.
Ltac Zify.zify_post_hook ::= Z.to_euclidean_division_equations.

(* ------------------------------------------------------------ bytes *)
Lemma bytes_ok_skipn n (l : list Z) : bytes_ok l -> bytes_ok (skipn n l).
Proof. revert l. induction n as [|n IH]; intros [|x l] H; cbn; auto. apply IH. inversion H; auto. Qed.
Lemma bytes_ok_firstn n (l : list Z) : bytes_ok l -> bytes_ok (firstn n l).
Proof. revert l. induction n as [|n IH]; intros [|x l] H; cbn; try constructor. - inversion H; auto. - apply IH. inversion H; auto. Qed.
Lemma len_firstn_le {A} n (l : list A) : len (firstn n l) <= Z.of_nat n.
Proof. unfold len. rewrite firstn_length. lia. Qed.

(* frames, block ranges and the attribute block (the facts of Proofs/T3T.v this file needs, re-proved here so that it
   depends on the definitions of Model/T3T.v only) *)
Lemma blk_elems_ok bl : Forall (fun b => 0 <= b < 65536) bl -> exists es, blk_elems bl = Ok es /\ len es <= 3 * len bl.
Proof.
  induction bl as [|b r IH]; intro H.
  - exists []. cbn. split; auto; unfold len; cbn; lia.
  - inversion H as [|? ? Hb Hr]; subst. destruct (IH Hr) as (er & E & L1).
    cbn [blk_elems]. unfold blk_elem. replace (b <? 0) with false by lia.
    destruct (b <? 256) eqn:E256.
    + cbn [bind]. rewrite E. cbn [bind]. eexists; split; [reflexivity|]. rewrite len_app, !len_cons, len_nil. lia.
    + replace (b <? 65536) with true by lia. cbn [bind]. rewrite E. cbn [bind]. eexists; split; [reflexivity|].
      rewrite len_app, !len_cons, len_nil. lia.
Qed.
Lemma rd_frame_ok idm bl : len idm = 8 -> Forall (fun b => 0 <= b < 65536) bl -> len bl <= 80 -> exists f, rd_frame idm bl = Ok f.
Proof.
  intros Hi Hb Hn. destruct (blk_elems_ok bl Hb) as (es & E & L).
  unfold rd_frame. rewrite E. cbn [bind]. replace (len bl >? 255) with false by lia.
  unfold t3_frame. rewrite len_app, !len_cons, len_nil.
  replace (2 + len idm + (1 + (1 + (1 + (1 + 0))) + len es) >? 255) with false by lia. eexists; reflexivity.
Qed.
Lemma zrange_len' a b : a <= b -> len (zrange a b) = b - a.
Proof. intro. unfold len. rewrite zrange_len. lia. Qed.
Lemma Forall_zrange (P : Z -> Prop) a b : (forall x, a <= x < b -> P x) -> Forall P (zrange a b).
Proof. intro H. apply Forall_forall. intros x Hx. apply H, in_zrange, Hx. Qed.
Definition attrs_ok (a : attrs) : Prop :=
  0 <= a_ver a < 256 /\ 0 <= a_nbr a < 256 /\ 0 <= a_nbw a < 256 /\ 0 <= a_nmaxb a < 65536 /\
  0 <= a_writef a < 256 /\ 0 <= a_rwflag a < 256 /\ 0 <= a_ln a < 16777216.
Lemma nth_byte_ok d k : bytes_ok d -> 0 <= nth k d 0 < 256.
Proof. intro H. destruct (nth_in_or_default k d 0) as [Hin| ->]; [|lia]. unfold bytes_ok in H. rewrite Forall_forall in H. apply H, Hin. Qed.
Lemma attr_parse_ok d a : bytes_ok d -> attr_parse d = Some a -> attrs_ok a.
Proof.
  intros Hb. unfold attr_parse. destruct (_ =? _); [|discriminate]. intro E. inversion E; subst; clear E.
  unfold attrs_ok, bt. cbn [a_ver a_nbr a_nbw a_nmaxb a_writef a_rwflag a_ln].
  pose proof (nth_byte_ok d 0 Hb). pose proof (nth_byte_ok d 1 Hb). pose proof (nth_byte_ok d 2 Hb).
  pose proof (nth_byte_ok d 3 Hb). pose proof (nth_byte_ok d 4 Hb). pose proof (nth_byte_ok d 9 Hb).
  pose proof (nth_byte_ok d 10 Hb). pose proof (nth_byte_ok d 11 Hb). pose proof (nth_byte_ok d 12 Hb).
  pose proof (nth_byte_ok d 13 Hb). lia.
Qed.

(* the two functions of Model/T3T.v the reader is built from, as equations *)
Lemma read_attr_eq (S : Type) (dev : S -> list Z -> res (list Z) * S) s :
  read_attr S dev s = match dev s [0] with
                      | (Ok d, s1) => (Ok (attr_parse d), s1)
                      | (Err _, s1) => (Ok None, s1)
                      | (Crash c, s1) => (Crash c, s1)
                      | (Hang, s1) => (Hang, s1)
                      end.
Proof. unfold read_attr. destruct (dev s [0]) as [[d|e|c|] s1]; reflexivity. Qed.
Lemma rd_loop_eq (S : Type) (dev : S -> list Z -> res (list Z) * S) fuel s i last nbr acc :
  rd_loop S dev fuel s i last nbr acc =
  if i <? last then
    match fuel with
    | O => (Hang, s)
    | Datatypes.S f =>
      match dev s (zrange i (Z.min (i + nbr) last)) with
      | (Ok d, s1) => rd_loop S dev f s1 (i + nbr) last nbr (acc ++ d)
      | (Err _, s1) => (Ok None, s1)
      | (Crash c, s1) => (Crash c, s1)
      | (Hang, s1) => (Hang, s1)
      end
    end
  else (Ok (Some acc), s).
Proof. destruct fuel; cbn [rd_loop]; destruct (i <? last); try reflexivity;
  destruct (dev s (zrange i (Z.min (i + nbr) last))) as [[d|e|c|] s1]; reflexivity. Qed.

(* ------------------------------------------------------------ Type 4 / ISO-DEP *)
Lemma last2_two (l : list Z) : (2 <= length l)%nat -> exists a b, last2 l = [a; b].
Proof.
  intro H. unfold last2. remember (skipn (length l - 2) l) as t eqn:E.
  assert (L : length t = 2%nat) by (subst t; rewrite skipn_length; lia).
  destruct t as [|a [|b [|c t]]]; try discriminate. eauto.
Qed.
Lemma apdu_finish_cases d : bytes_ok d ->
  (exists r, apdu_finish true (Ok d) = Ok r /\ bytes_ok r) \/ exists e, apdu_finish true (Ok d) = Err (TagCommandError e).
Proof.
  intro Hb. unfold apdu_finish. cbn [bind]. destruct (len d <? 2) eqn:E; [right; eauto|].
  destruct (last2_two d) as (a & b & ->); [unfold len in E; lia|].
  destruct (Z.eq_dec a 144) as [->|Ha].
  - destruct (Z.eq_dec b 0) as [->|Hb0]; [left; eexists; split; [reflexivity|]; apply bytes_ok_firstn, Hb|].
    right. destruct b as [|p|p]; try congruence; eauto.
  - right. destruct a as [|p|p]; eauto. repeat (destruct p as [p|p|]; eauto). congruence.
Qed.

Lemma apdu_sel_aid v2 : exists a, apdu_of_op (SelAid v2) = Ok a.
Proof. destruct v2; cbn; eauto. Qed.
Lemma apdu_sel_fid p2 fid : len fid <= 255 -> exists a, apdu_of_op (SelFid p2 fid) = Ok a.
Proof.
  intro H. cbn [apdu_of_op]. unfold short_apdu. replace (len fid >? 255) with false by lia.
  rewrite andb_false_r. cbn. eauto.
Qed.
Lemma apdu_rd off m : 0 <= off <= 65535 -> m <= 256 -> exists a, apdu_of_op (RdBin off m) = Ok a.
Proof.
  intros Ho Hm. cbn [apdu_of_op]. replace ((off <? 0) || (off >? 65535)) with false by lia.
  unfold short_apdu. cbn [len length Z.of_nat Z.eqb negb andb]. replace (m >? 256) with false by lia.
  rewrite andb_false_r. eauto.
Qed.

Lemma be_nonneg l : bytes_ok l -> 0 <= be l.
Proof.
  unfold be. assert (G : forall l a, bytes_ok l -> 0 <= a -> 0 <= fold_left (fun a x => a * 256 + x) l a).
  { induction l0 as [|x l0 IH]; intros a Hb Ha; cbn; [exact Ha|]. inversion Hb; subst. apply IH; auto. unfold byte_ok in *. lia. }
  intro Hb. apply G; auto; lia.
Qed.

(* what discovery yields is usable: short Le, file identifier of two bytes, capacity inside the 16 bit offset range *)
Definition info_ok (i : ccinfo) : Prop :=
  i_mle i <= 256 /\ (i_nlen i = 2 \/ i_nlen i = 4) /\ i_nlen i + i_cap i <= 65536 /\ len (i_fid i) <= 2.
Lemma cc_parse_ok p2 cap i : cc_parse p2 cap = Some i -> info_ok i.
Proof.
  (* independent of how the tests of cc_parse are nested: every branch that yields Some builds the record from
     Z.min mle 256, a constant NLEN size 2 / 4, Z.min mfs 65536 - that size, and firstn 2 of the TLV value *)
  unfold cc_parse; try unfold cc_fields.
  repeat match goal with |- context [if ?b then _ else _] => destruct b end; try discriminate;
    (intro E; injection E as <-; unfold info_ok; cbn [i_mle i_nlen i_cap i_fid]; repeat split; try lia; apply (len_firstn_le 2)).
Qed.

