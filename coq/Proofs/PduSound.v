(* decode_sound: whatever decode returns is what the independent reading of the frame formats (Model/PduSpec.v)
   assigns to the PDU's own bytes. *)
From Coq Require Import ZArith List Bool Lia ZifyBool.
From NV Require Import Base.Result Base.Bytes Model.Pdu Model.PduSpec
  Proofs.PduBase Proofs.PduWin Proofs.PduTotal Proofs.PduAgf.
Import ListNotations.
Open Scope Z_scope.
Ltac Zify.zify_post_hook ::= Z.to_euclidean_division_equations.

(* ---------------------------------------------------------------- parameters *)
Definition tlv_of (tv : Z * list Z) : tlv :=
  let (T, V) := tv in
  if T =? 1 then TVersion (be8 V) else if T =? 2 then TMiux (be16 V mod 2048) else if T =? 3 then TWks (be16 V)
  else if T =? 4 then TLto (be8 V) else if T =? 5 then TRw (be8 V mod 16) else if T =? 6 then TSn V
  else if T =? 7 then TOpt (be8 V mod 8)
  else if T =? 8 then match V with tid :: sn => TSdreq tid sn | [] => TOther 8 [] end
  else if T =? 9 then match V with [a; b] => TSdres a b | _ => TOther 9 V end
  else if T =? 10 then TEcpk V else if T =? 11 then TRn V else TOther T V.

Lemma tlv_interp_of T L V t : len V = L -> tlv_interp T L V = Ok t -> param_wf (T, V) /\ t = tlv_of (T, V).
Proof.
  intros HL. unfold tlv_interp, tlv_of, param_wf.
  repeat match goal with |- context [if ?c then _ else _] => destruct c eqn:? end; intro H; try discriminate H.
  all: try (injection H as <-; split; [repeat split; intros; lia | reflexivity]).
  all: destruct V as [|v0 [|v1 [|v2 V']]]; try discriminate H; rewrite ?len_cons in HL; change (len (@nil Z)) with 0 in HL;
    try (pose proof (len_nonneg V'); lia).
  all: injection H as <-; rewrite ?land2047, ?land15, ?land7; cbn [be8 be16].
  all: split; [repeat split; intros; rewrite ?len_cons; change (len (@nil Z)) with 0; try (pose proof (len_nonneg V')); lia | reflexivity].
Qed.

Lemma tlvs_w_params step : forall fuel w st p, bytes_ok w -> tlvs_w fuel step w st = Ok p ->
  exists L, params w L /\ Forall param_wf L /\ p = fold_left step (map tlv_of L) st.
Proof.
  induction fuel as [|f IH]; intros w st p Hw H.
  - destruct w as [|T [|L rest]]; cbn [tlvs_w] in H; try discriminate H; injection H as <-.
    + exists []. repeat split; constructor.
    + exists []. repeat split; constructor.
  - destruct w as [|T [|L rest]]; cbn [tlvs_w] in H.
    + injection H as <-. exists []. repeat split; constructor.
    + injection H as <-. exists []. repeat split; constructor.
    + pose proof (byte_of _ _ (bytes_tl _ _ Hw)) as HL. pose proof (bytes_tl _ _ (bytes_tl _ _ Hw)) as Hr.
      pose proof (len_nonneg rest) as Hn.
      destruct (L >? len rest) eqn:E; [discriminate H|].
      assert (Hlt : len (take L rest) = L) by (apply len_take; lia).
      destruct (tlv_interp T L (take L rest)) as [t| | |] eqn:Et; cbn [bind] in H; try discriminate H.
      destruct (tlv_interp_of _ _ _ _ Hlt Et) as [Hwf ->].
      destruct (IH _ _ _ (bytes_ok_drop _ L Hr) H) as (Ls & Hp & Hwfs & ->).
      exists ((T, take L rest) :: Ls). split; [|split].
      * pose proof (params_cons T (take L rest) (drop L rest) Ls Hp) as Hc.
        rewrite Hlt, take_drop in Hc. exact Hc.
      * constructor; assumption.
      * reflexivity.
Qed.

(* ---------------------------------------------------------------- field = value of the last parameter of its type *)
Definition upd (T : Z) (f : list Z -> Z) (L : list (Z * list Z)) (old : option Z) : option Z :=
  match last_param T L with Some V => Some (f V) | None => old end.
Definition updz (T : Z) (f : list Z -> Z) (L : list (Z * list Z)) (old : Z) : Z :=
  match last_param T L with Some V => f V | None => old end.
Definition updb (T : Z) (L : list (Z * list Z)) (old : option (list Z)) : option (list Z) :=
  match last_param T L with Some V => Some V | None => old end.

Lemma upd_cons T f T' V r old :
  upd T f ((T', V) :: r) old = upd T f r (if T' =? T then Some (f V) else old).
Proof. unfold upd. cbn [last_param]. destruct (last_param T r); [reflexivity|]. destruct (T' =? T); reflexivity. Qed.
Lemma updz_cons T f T' V r old :
  updz T f ((T', V) :: r) old = updz T f r (if T' =? T then f V else old).
Proof. unfold updz. cbn [last_param]. destruct (last_param T r); [reflexivity|]. destruct (T' =? T); reflexivity. Qed.
Lemma updb_cons T T' V r old :
  updb T ((T', V) :: r) old = updb T r (if T' =? T then Some V else old).
Proof. unfold updb. cbn [last_param]. destruct (last_param T r); [reflexivity|]. destruct (T' =? T); reflexivity. Qed.

Ltac case_T T :=
  destruct (T =? 1) eqn:E1; [apply Z.eqb_eq in E1; subst T|];
  [|destruct (T =? 2) eqn:E2; [apply Z.eqb_eq in E2; subst T|];
  [|destruct (T =? 3) eqn:E3; [apply Z.eqb_eq in E3; subst T|];
  [|destruct (T =? 4) eqn:E4; [apply Z.eqb_eq in E4; subst T|];
  [|destruct (T =? 5) eqn:E5; [apply Z.eqb_eq in E5; subst T|];
  [|destruct (T =? 6) eqn:E6; [apply Z.eqb_eq in E6; subst T|];
  [|destruct (T =? 7) eqn:E7; [apply Z.eqb_eq in E7; subst T|];
  [|destruct (T =? 8) eqn:E8; [apply Z.eqb_eq in E8; subst T|];
  [|destruct (T =? 9) eqn:E9; [apply Z.eqb_eq in E9; subst T|];
  [|destruct (T =? 10) eqn:E10; [apply Z.eqb_eq in E10; subst T|];
  [|destruct (T =? 11) eqn:E11; [apply Z.eqb_eq in E11; subst T|]]]]]]]]]]].

Lemma tlv_of_other T V : (T =? 1) = false -> (T =? 2) = false -> (T =? 3) = false -> (T =? 4) = false ->
  (T =? 5) = false -> (T =? 6) = false -> (T =? 7) = false -> (T =? 8) = false -> (T =? 9) = false ->
  (T =? 10) = false -> (T =? 11) = false -> tlv_of (T, V) = TOther T V.
Proof. intros. unfold tlv_of. repeat match goal with H : _ = false |- _ => rewrite H; clear H end. reflexivity. Qed.

Lemma pax_fold L : forall d s v m w l o,
  fold_left pax_step (map tlv_of L) (Pax d s v m w l o) =
  Pax d s (upd 1 be8 L v) (upd 2 (fun V => be16 V mod 2048) L m) (upd 3 be16 L w) (upd 4 be8 L l)
          (upd 7 (fun V => be8 V mod 8) L o).
Proof.
  induction L as [|[T V] r IH]; intros; [reflexivity|].
  cbn [map fold_left]. rewrite !upd_cons.
  case_T T; try (rewrite tlv_of_other by assumption; cbn [pax_step]; apply IH);
    try (cbn [tlv_of Z.eqb Pos.eqb pax_step]; try (destruct V as [|? [|? [|? ?]]]); apply IH).
Qed.

Lemma connect_fold L : forall d s miu rw sn,
  fold_left connect_step (map tlv_of L) (Connect d s miu rw sn) =
  Connect d s (updz 2 (fun V => 128 + be16 V mod 2048) L miu) (updz 5 (fun V => be8 V mod 16) L rw) (updb 6 L sn).
Proof.
  induction L as [|[T V] r IH]; intros; [reflexivity|].
  cbn [map fold_left]. rewrite !updz_cons, updb_cons.
  case_T T; try (rewrite tlv_of_other by assumption; cbn [connect_step]; apply IH);
    try (cbn [tlv_of Z.eqb Pos.eqb connect_step]; try (destruct V as [|? [|? [|? ?]]]); apply IH).
Qed.

Lemma cc_fold L : forall d s miu rw,
  fold_left cc_step (map tlv_of L) (CC d s miu rw) =
  CC d s (updz 2 (fun V => 128 + be16 V mod 2048) L miu) (updz 5 (fun V => be8 V mod 16) L rw).
Proof.
  induction L as [|[T V] r IH]; intros; [reflexivity|].
  cbn [map fold_left]. rewrite !updz_cons.
  case_T T; try (rewrite tlv_of_other by assumption; cbn [cc_step]; apply IH);
    try (cbn [tlv_of Z.eqb Pos.eqb cc_step]; try (destruct V as [|? [|? [|? ?]]]); apply IH).
Qed.

Lemma dps_fold L : forall d s e rn,
  fold_left dps_step (map tlv_of L) (Dps d s e rn) = Dps d s (updb 10 L e) (updb 11 L rn).
Proof.
  induction L as [|[T V] r IH]; intros; [reflexivity|].
  cbn [map fold_left]. rewrite !updb_cons.
  case_T T; try (rewrite tlv_of_other by assumption; cbn [dps_step]; apply IH);
    try (cbn [tlv_of Z.eqb Pos.eqb dps_step]; try (destruct V as [|? [|? [|? ?]]]); apply IH).
Qed.

Lemma snl_fold' L : Forall param_wf L -> forall d s q0 r0,
  fold_left snl_step (map tlv_of L) (Snl d s q0 r0) = Snl d s (q0 ++ sdreqs L) (r0 ++ sdress L).
Proof.
  induction 1 as [|[T V] r Hwf Hr IH]; intros; [cbn; rewrite !app_nil_r; reflexivity|].
  cbn [map fold_left sdreqs sdress].
  case_T T; try (rewrite tlv_of_other by assumption; cbn [snl_step]; apply IH);
    try (cbn [tlv_of Z.eqb Pos.eqb snl_step]; try (destruct V as [|? [|? [|? ?]]]); apply IH).
  - (* SDREQ *) cbn [tlv_of Z.eqb Pos.eqb]. destruct V as [|tid sn].
    + unfold param_wf in Hwf. cbn in Hwf. lia.
    + cbn [snl_step]. rewrite IH. rewrite <- app_assoc. reflexivity.
  - (* SDRES *) cbn [tlv_of Z.eqb Pos.eqb]. unfold param_wf in Hwf. destruct Hwf as (_ & _ & _ & _ & _ & _ & _ & H9).
    specialize (H9 eq_refl). destruct V as [|a [|b [|c V']]]; rewrite ?len_cons in H9; change (len (@nil Z)) with 0 in H9;
      try (pose proof (len_nonneg V')); try lia.
    cbn [snl_step]. rewrite IH. rewrite <- app_assoc. reflexivity.
Qed.

(* ---------------------------------------------------------------- header arithmetic *)
Lemma ptype_arith a b : 0 <= a < 256 -> 0 <= b < 256 ->
  Z.land (Z.shiftr (a * 256 + b) 6) 15 = (a mod 4) * 4 + b / 64.
Proof. intros. rewrite land15, shr6. lia. Qed.

Lemma upd_none T f L : upd T f L None = opt_field T f L.
Proof. unfold upd, opt_field. destruct (last_param T L); reflexivity. Qed.
Lemma updb_none T L : updb T L None = last_param T L.
Proof. unfold updb. destruct (last_param T L); reflexivity. Qed.

(* ---------------------------------------------------------------- every class but AGF *)
Definition wpt (w : list Z) : Z := match w with a :: b :: _ => a mod 4 * 4 + b / 64 | _ => -1 end.
Lemma dec_w_sound agfh w p : bytes_ok w -> dec_w agfh w = Ok p -> denotes1 w p \/ (wpt w = 2 /\ agfh w = Ok p).
Proof.
  intros Hw H. destruct w as [|a [|b info]]; try discriminate H.
  pose proof (byte_of _ _ Hw) as Ha. pose proof (byte_of _ _ (bytes_tl _ _ Hw)) as Hb.
  pose proof (bytes_tl _ _ (bytes_tl _ _ Hw)) as Hi.
  unfold dec_w in H. cbv zeta in H. rewrite ptype_arith in H by assumption. rewrite shr2, land63 in H.
  unfold denotes1.
  assert (Hpu : Z.land (Z.lor (Z.shiftl a 2) (Z.shiftr b 6)) 15 = a mod 4 * 4 + b / 64)
    by (rewrite ptype_alt, ptype_arith by assumption; reflexivity).
  set (pu := Z.land (Z.lor (Z.shiftl a 2) (Z.shiftr b 6)) 15) in *. clearbody pu.
  set (d := a / 4) in *. set (s := b mod 64) in *. set (pt := a mod 4 * 4 + b / 64) in *.
  assert (Hpt : 0 <= pt <= 15) by (unfold pt; lia).
  assert (Htlv : forall step st q, tlvs_w (Z.to_nat (len info)) step info st = Ok q ->
            exists L, params info L /\ Forall param_wf L /\ q = fold_left step (map tlv_of L) st).
  { intros. eapply tlvs_w_params; eassumption. }
  destruct (pt =? 0) eqn:E0.
  { destruct (negb (d =? 0) || negb (s =? 0)) eqn:Z0; [discriminate H|]. destruct info; [|discriminate H].
    injection H as <-. left. repeat split; lia. }
  destruct (pt =? 1) eqn:E1.
  { destruct (negb (d =? 0) || negb (s =? 0)) eqn:Z0; [discriminate H|].
    destruct (Htlv _ _ _ H) as (L & Hp & Hwf & ->). rewrite pax_fold. rewrite !upd_none. left.
    repeat (split; [lia|]). exists L. repeat split; assumption || reflexivity. }
  destruct (pt =? 2) eqn:E2; [right; split; [cbn [wpt]; fold pt; lia | exact H]|].
  destruct (pt =? 3) eqn:E3.
  { injection H as <-. left. repeat split; lia. }
  destruct (pt =? 4) eqn:E4.
  { destruct (Htlv _ _ _ H) as (L & Hp & Hwf & ->). rewrite connect_fold. rewrite updb_none. left.
    repeat (split; [lia || reflexivity|]). exists L. repeat split; assumption || reflexivity. }
  destruct (pt =? 5) eqn:E5.
  { injection H as <-. left. repeat split; lia. }
  destruct (pt =? 6) eqn:E6.
  { destruct (Htlv _ _ _ H) as (L & Hp & Hwf & ->). rewrite cc_fold. left.
    repeat (split; [lia || reflexivity|]). exists L. repeat split; assumption || reflexivity. }
  destruct (pt =? 7) eqn:E7.
  { destruct info as [|r [|r2 l]]; try discriminate H. injection H as <-. left. repeat split; lia. }
  destruct (pt =? 8) eqn:E8.
  { destruct info as [|b0 [|b1 [|b2 [|b3 [|b4 l]]]]]; try discriminate H. injection H as <-. left.
    pose proof (byte_of _ _ Hi) as B0. pose proof (byte_of _ _ (bytes_tl _ _ Hi)) as B1.
    pose proof (byte_of _ _ (bytes_tl _ _ (bytes_tl _ _ Hi))) as B2.
    pose proof (byte_of _ _ (bytes_tl _ _ (bytes_tl _ _ (bytes_tl _ _ Hi)))) as B3.
    rewrite !shr4, !land15. repeat (split; [lia || reflexivity|]).
    split; [|lia]. f_equal; [lia|]. f_equal; [lia|]. f_equal; [lia|]. f_equal; lia. }
  destruct (pt =? 9) eqn:E9.
  { destruct (negb (d =? 1) || negb (s =? 1)) eqn:Z1; [discriminate H|].
    destruct (Htlv _ _ _ H) as (L & Hp & Hwf & ->). rewrite (snl_fold' L Hwf). left.
    repeat (split; [lia|]). exists L. repeat split; assumption || reflexivity. }
  destruct (pt =? 10) eqn:E10.
  { destruct (negb (d =? 0) || negb (s =? 0)) eqn:Z0; [discriminate H|].
    destruct (Htlv _ _ _ H) as (L & Hp & Hwf & ->). rewrite dps_fold. rewrite !updb_none. left.
    repeat (split; [lia|]). exists L. repeat split; assumption || reflexivity. }
  destruct (pt =? 12) eqn:E12.
  { destruct info as [|q data]; [discriminate H|]. injection H as <-. left.
    repeat (split; [lia || reflexivity|]). exists q. rewrite shr4, land15. repeat split; reflexivity. }
  destruct (pt =? 13) eqn:E13.
  { destruct info as [|q data]; [discriminate H|]. injection H as <-. left.
    repeat (split; [lia || reflexivity|]). exists q, data. rewrite land15. split; reflexivity. }
  destruct (pt =? 14) eqn:E14.
  { destruct info as [|q data]; [discriminate H|]. injection H as <-. left.
    repeat (split; [lia || reflexivity|]). exists q, data. rewrite land15. split; reflexivity. }
  injection H as <-. left. rewrite Hpu.
  split; [reflexivity|]. split; [lia|]. repeat split; reflexivity.
Qed.

Lemma sub_w_sound e p : bytes_ok e -> sub_w e = Ok p -> denotes1 e p.
Proof. intros He H. destruct (dec_w_sound _ _ _ He H) as [Hd|[_ Hd]]; [exact Hd | discriminate Hd]. Qed.

Theorem decode_w_sound w p : bytes_ok w -> decode_w w = Ok p -> denotes w p.
Proof.
  intros Hw H. destruct (dec_w_sound _ _ _ Hw H) as [Hd|[Hpt Hd]].
  - destruct p; try exact Hd. destruct w as [|a [|b info]]; contradiction.
  - destruct w as [|a [|b info]]; try discriminate Hd. unfold agfdec_w in Hd.
    pose proof (byte_of _ _ Hw) as Ha. pose proof (byte_of _ _ (bytes_tl _ _ Hw)) as Hb.
    destruct (negb (Z.shiftr a 2 =? 0) || negb (Z.land b 63 =? 0)) eqn:Z0; [discriminate Hd|].
    destruct (agf_w (Z.to_nat (len info)) info []) as [l| | |] eqn:El; cbn [bind] in Hd; try discriminate Hd.
    injection Hd as <-.
    destruct (agf_w_members _ _ _ _ (bytes_tl _ _ (bytes_tl _ _ Hw)) El) as (subs & ps & Hl & Hi & Hf).
    cbn [app] in Hl. subst l. cbn [denotes].
    cbn [wpt] in Hpt.
    exists a, b, subs. rewrite shr2, land63 in Z0 |- *.
    split; [rewrite Hi; reflexivity|]. repeat (split; [lia|]).
    assert (Hbs : bytes_ok (concat (map frame subs))) by (rewrite <- Hi; exact (bytes_tl _ _ (bytes_tl _ _ Hw))).
    clear - Hf Hbs. split.
    + revert Hbs. induction Hf as [|e p subs ps [He _] _ IH]; intro Hbs; constructor.
      * cbn [map concat] in Hbs. apply bytes_ok_app in Hbs. destruct Hbs as [Hfr _]. unfold frame in Hfr.
        apply bytes_ok_app in Hfr. apply sub_w_sound; [apply Hfr | exact He].
      * apply IH. cbn [map concat] in Hbs. apply bytes_ok_app in Hbs. apply Hbs.
    + clear Hbs. induction Hf as [|e p subs ps [_ Hl] _ IH]; [constructor | constructor; assumption].
Qed.

Theorem decode_sound data off size p : 0 <= off -> bytes_ok data ->
  decode data off size = Ok p -> denotes (slice data off (off + size)) p.
Proof.
  intros Ho Hd. rewrite decode_char by assumption.
  destruct ((off + size >? len data) || (size <? 2)); [discriminate|].
  assert (Hs : bytes_ok (slice data off (off + size))).
  { rewrite slice_eq by lia. apply bytes_ok_take. apply bytes_ok_drop, Hd. }
  apply decode_w_sound, Hs.
Qed.
