(* C06 - connection handover: request and select message through MIU slicing and
   decode-until-complete reassembly, for every interleaving and channel implementation. *)
From Coq Require Import ZArith List Bool Lia ZifyBool.
From NV Require Import Base.Result Base.Bytes Base.PyPrims Model.Snep Proofs.SnepChunks Proofs.SnepSched.
Import ListNotations.
Open Scope Z_scope.

Section HoProofs.
  Variable A : Type.
  Variable app_ho : A -> list Z -> A * list Z.
  Variables complete is_hr : list Z -> bool.
  Variable miu_cs miu_sc : Z.
  Hypothesis Hmiu_cs : 1 <= miu_cs.
  Hypothesis Hmiu_sc : 1 <= miu_sc.

  Notation hreact0 := (ho_react A app_ho complete is_hr miu_sc true).
  Notation hreact := (ho_sys_react A app_ho complete is_hr miu_sc true).
  Notation creact := (cl_react complete miu_cs).
  Notation mkh := (Build_hsrv A).
  Notation mkc := Build_csess.
  Notation G := (mkg csess (hsrv A)).
  Notation runH := (run csess (hsrv A) creact hreact list_chan miu_cs miu_sc).

  (* the premise on ndeflib's strict decoder: a non-empty proper prefix of the message is
     rejected (DecodeError or ValueError: it is not complete) *)
  Definition prefix_free (m : list Z) : Prop :=
    forall p q, p <> [] -> q <> [] -> m = p ++ q -> complete p = false.

  (* ------------------------------------------------------------ server *)
  Lemma hreact_wrap s i : ho_server_stopped (fst (hreact0 s i)) = false ->
    hreact s i = (fst (hreact0 s i), map IMsg (snd (hreact0 s i))).
  Proof. intro H. unfold ho_sys_react. rewrite H. cbn [andb]. rewrite app_nil_r. reflexivity. Qed.

  Lemma hfeed_stay msg : prefix_free msg -> forall fs data a log q,
    Forall (fun c => c <> []) fs -> q <> [] -> msg = data ++ concat fs ++ q ->
    feed hreact (mkh (HAccum data) a log) (map IMsg fs) = (mkh (HAccum (data ++ concat fs)) a log, []).
  Proof.
    intros Hpf. induction fs as [|f fs IH]; intros data a log q Hne Hq Hm.
    - cbn [map feed concat]. rewrite app_nil_r. reflexivity.
    - apply Forall_cons_iff in Hne. destruct Hne as [Hf Hfs]. cbn [map feed concat] in *.
      assert (Hnz : data ++ f <> []) by (destruct data; [cbn; exact Hf | discriminate]).
      assert (Hc : complete (data ++ f) = false). apply (Hpf (data ++ f) (concat fs ++ q)).
      { exact Hnz. } { destruct (concat fs); [exact Hq | discriminate]. } { rewrite Hm, <- !app_assoc. reflexivity. }
      assert (E : hreact0 (mkh (HAccum data) a log) (IMsg f) = (mkh (HAccum (data ++ f)) a log, [])).
      { unfold ho_react. cbn [hv_st hv_app hv_log]. rewrite Hc.
        replace (len (data ++ f) =? 0) with false; [reflexivity|].
        symmetry. apply Z.eqb_neq. intro H0. apply len_0_nil in H0. contradiction. }
      rewrite hreact_wrap; rewrite E; [|reflexivity]. cbn [fst snd app].
      rewrite (IH (data ++ f) a log q Hfs Hq) by (rewrite Hm, <- !app_assoc; reflexivity).
      rewrite <- app_assoc. reflexivity.
  Qed.

  Lemma hfeed_all msg a log fs : prefix_free msg -> msg <> [] -> complete msg = true -> is_hr msg = true ->
    Forall (fun c => c <> []) fs -> concat fs = msg ->
    feed hreact (mkh (HAccum []) a log) (map IMsg fs) =
      (mkh (HAccum []) (fst (app_ho a msg)) (log ++ [CallHo msg]), map IMsg (chunks miu_sc (snd (app_ho a msg)))).
  Proof.
    intros Hpf Hnz Hc Hhr Hne Hcat.
    assert (Hnil : fs <> []) by (intro E; subst fs; cbn in Hcat; congruence).
    destruct (exists_last Hnil) as (init & last & ->).
    apply Forall_app in Hne. destruct Hne as [Hinit Hlast]. inversion Hlast as [|? ? Hl _]; subst.
    rewrite concat_app in *. cbn [concat] in *. rewrite app_nil_r in *.
    rewrite map_app, feed_app.
    rewrite (hfeed_stay (concat init ++ last) Hpf init [] a log last Hinit Hl) by reflexivity.
    cbn [fst snd map feed app].
    assert (E : hreact0 (mkh (HAccum (concat init)) a log) (IMsg last) =
                (mkh (HAccum []) (fst (app_ho a (concat init ++ last))) (log ++ [CallHo (concat init ++ last)]),
                 chunks miu_sc (snd (app_ho a (concat init ++ last))))).
    { unfold ho_react, ho_process. cbn [hv_st hv_app hv_log]. rewrite Hc, Hhr.
      replace (len (concat init ++ last) =? 0) with false; [reflexivity|].
      symmetry. apply Z.eqb_neq. intro H0. apply len_0_nil in H0. contradiction. }
    rewrite hreact_wrap; rewrite E; [|reflexivity]. cbn [fst snd]. rewrite app_nil_r. reflexivity.
  Qed.

  (* ------------------------------------------------------------ client *)
  Lemma creact_go st p r i st' outs :
    client_react complete st i = (st', outs) -> st <> CIdle -> (forall x, st' <> CDone x) ->
    creact (mkc st p r) i = (mkc st' p r, map IMsg outs).
  Proof.
    intros E Hni Hnd. unfold cl_react, csess_react. cbn [c_cur c_pending c_results].
    destruct st; try congruence; rewrite E; destruct st'; try reflexivity; exfalso; eapply Hnd; reflexivity.
  Qed.
  Lemma creact_done st p r i x outs :
    client_react complete st i = (CDone x, outs) -> st <> CIdle ->
    creact (mkc st p r) i = (fst (start_ops miu_cs p (r ++ [x])), map IMsg outs ++ snd (start_ops miu_cs p (r ++ [x]))).
  Proof.
    intros E Hni. unfold cl_react, csess_react. cbn [c_cur c_pending c_results].
    destruct st; try congruence; rewrite E; reflexivity.
  Qed.

  Lemma cfeed_stay msg : prefix_free msg -> forall fs data p r q,
    Forall (fun c => c <> []) fs -> q <> [] -> msg = data ++ concat fs ++ q ->
    feed creact (mkc (CHoRecv data) p r) (map IMsg fs) = (mkc (CHoRecv (data ++ concat fs)) p r, []).
  Proof.
    intros Hpf. induction fs as [|f fs IH]; intros data p r q Hne Hq Hm.
    - cbn [map feed concat]. rewrite app_nil_r. reflexivity.
    - apply Forall_cons_iff in Hne. destruct Hne as [Hf Hfs]. cbn [map feed concat] in *.
      assert (Hnz : data ++ f <> []) by (destruct data; [cbn; exact Hf | discriminate]).
      assert (Hc : complete (data ++ f) = false). apply (Hpf (data ++ f) (concat fs ++ q)).
      { exact Hnz. } { destruct (concat fs); [exact Hq | discriminate]. } { rewrite Hm, <- !app_assoc. reflexivity. }
      rewrite (creact_go _ _ _ _ (CHoRecv (data ++ f)) []); [ | | discriminate | discriminate].
      + cbn [fst snd map app]. rewrite (IH (data ++ f) p r q Hfs Hq) by (rewrite Hm, <- !app_assoc; reflexivity).
        rewrite <- app_assoc. reflexivity.
      + cbn [client_react]. rewrite Hc. reflexivity.
  Qed.

  Lemma cfeed_all msg p r fs : prefix_free msg -> complete msg = true ->
    Forall (fun c => c <> []) fs -> fs <> [] -> concat fs = msg ->
    feed creact (mkc (CHoRecv []) p r) (map IMsg fs) =
      (fst (start_ops miu_cs p (r ++ [ROctets msg])), snd (start_ops miu_cs p (r ++ [ROctets msg]))).
  Proof.
    intros Hpf Hc Hne Hnil Hcat.
    destruct (exists_last Hnil) as (init & last & ->).
    apply Forall_app in Hne. destruct Hne as [Hinit Hlast]. inversion Hlast as [|? ? Hl _]; subst.
    rewrite concat_app in *. cbn [concat] in *. rewrite app_nil_r in *.
    rewrite map_app, feed_app.
    rewrite (cfeed_stay (concat init ++ last) Hpf init [] p r last Hinit Hl) by reflexivity.
    cbn [fst snd map feed app].
    rewrite (creact_done _ _ _ _ (ROctets (concat init ++ last)) []); [ | | discriminate].
    - cbn [map app]. rewrite app_nil_r. reflexivity.
    - cbn [client_react]. rewrite Hc. reflexivity.
  Qed.

  (* ------------------------------------------------------------ sizes *)
  Lemma atb_map lim outs : Forall (fun m => len m <= lim) outs -> any_too_big lim (map IMsg outs) = false.
  Proof.
    induction 1 as [|m outs Hm _ IH]; [reflexivity|]. cbn [map any_too_big existsb too_big].
    unfold any_too_big in IH. rewrite IH. replace (len m >? lim) with false by lia. reflexivity.
  Qed.
  Lemma client_start_fits op : Forall (fun m => len m <= miu_cs) (snd (client_start miu_cs op)).
  Proof.
    assert (Hsr : forall k acc req, Forall (fun m => len m <= miu_cs) (snd (send_request miu_cs k acc req))).
    { intros k acc req. unfold send_request. destruct (len req <=? miu_cs) eqn:E; cbn [snd].
      - constructor; [lia | constructor].
      - constructor; [apply len_take_le; lia | constructor]. }
    destruct op as [o|o acc|o]; cbn [client_start].
    - destruct (snep_request (OpPut o)); try apply Hsr; constructor.
    - destruct (snep_request (OpGet o acc)); try apply Hsr; constructor.
    - cbn [snd]. apply chunks_le. lia.
  Qed.
  Lemma start_fits : forall ops results, any_too_big miu_cs (snd (start_ops miu_cs ops results)) = false.
  Proof.
    induction ops as [|op ops IH]; intro results; [reflexivity|].
    cbn [start_ops]. pose proof (client_start_fits op) as Hf.
    destruct (client_start miu_cs op) as [st outs]. cbn [snd] in Hf.
    destruct st; cbn [snd]; try (apply atb_map; exact Hf).
    rewrite any_too_big_app, IH, (atb_map _ _ Hf). reflexivity.
  Qed.

  (* ------------------------------------------------------------ one exchange, sessions *)
  Definition BH (ops : list cop) (results : list cres) (a : A) (log : list call) :=
    G (fst (start_ops miu_cs ops results)) (mkh (HAccum []) a log) (snd (start_ops miu_cs ops results)) [] false.

  Lemma run_trans sa sb g g1 g2 : runH sa g = Some g1 -> runH sb g1 = Some g2 -> runH (sa ++ sb) g = Some g2.
  Proof. intros H1 H2. rewrite run_app, H1. exact H2. Qed.

  Lemma ho_init_BH a ops : ho_init A list_chan miu_cs a ops = BH ops [] a [].
  Proof. unfold ho_init, ginit, BH, mkg. rewrite push_all_list, start_fits. reflexivity. Qed.

  Lemma ho_op req ops results a log :
    req <> [] -> prefix_free req -> complete req = true -> is_hr req = true ->
    let sel := snd (app_ho a req) in
    sel <> [] -> prefix_free sel -> complete sel = true ->
    exists sch, runH sch (BH (OpHo req :: ops) results a log) =
                Some (BH ops (results ++ [ROctets sel]) (fst (app_ho a req)) (log ++ [CallHo req])).
  Proof.
    intros Hreq Hpf Hc Hhr sel Hsel Hpfs Hcs.
    set (fs := chunks miu_cs req). set (gs := chunks miu_sc sel).
    exists (repeat false (length (map IMsg fs)) ++ repeat true (length (map IMsg gs))).
    unfold BH at 1. cbn [start_ops client_start fst snd]. fold fs.
    eapply run_trans.
    - rewrite <- (app_nil_r (map IMsg fs)) at 2. rewrite burst_server.
      rewrite (hfeed_all req a log fs Hpf Hreq Hc Hhr) by (try apply chunks_nonempty; try apply chunks_concat; lia).
      cbn [fst snd app orb]. fold sel. fold gs.
      rewrite atb_map by (apply chunks_le; lia). reflexivity.
    - rewrite <- (app_nil_r (map IMsg gs)) at 2. rewrite burst_client.
      rewrite (cfeed_all sel ops results gs Hpfs Hcs).
      + cbn [fst snd app orb]. rewrite start_fits. reflexivity.
      + apply chunks_nonempty; lia.
      + intro E. apply chunks_eq_nil in E. contradiction.
      + apply chunks_concat; lia.
  Qed.

  Fixpoint ho_session_ok (a : A) (ops : list cop) : Prop :=
    match ops with
    | [] => True
    | OpHo req :: r =>
        req <> [] /\ prefix_free req /\ complete req = true /\ is_hr req = true /\
        snd (app_ho a req) <> [] /\ prefix_free (snd (app_ho a req)) /\ complete (snd (app_ho a req)) = true /\
        ho_session_ok (fst (app_ho a req)) r
    | _ :: _ => False
    end.
  Fixpoint ho_results (a : A) (ops : list cop) : list cres :=
    match ops with
    | OpHo req :: r => ROctets (snd (app_ho a req)) :: ho_results (fst (app_ho a req)) r
    | _ => []
    end.
  Fixpoint ho_log (a : A) (ops : list cop) : list call :=
    match ops with
    | OpHo req :: r => CallHo req :: ho_log (fst (app_ho a req)) r
    | _ => []
    end.
  Fixpoint ho_app (a : A) (ops : list cop) : A :=
    match ops with
    | OpHo req :: r => ho_app (fst (app_ho a req)) r
    | _ => a
    end.

  Lemma ho_session_run : forall ops results a log, ho_session_ok a ops ->
    exists sch, runH sch (BH ops results a log) =
                Some (BH [] (results ++ ho_results a ops) (ho_app a ops) (log ++ ho_log a ops)).
  Proof.
    induction ops as [|op ops IH]; intros results a log Hok.
    - exists []. cbn [run ho_results ho_log ho_app]. rewrite !app_nil_r. reflexivity.
    - destruct op as [msg|o acc|req]; cbn [ho_session_ok] in Hok; try contradiction.
      destruct Hok as (H1 & H2 & H3 & H4 & H5 & H6 & H7 & Hok).
      destruct (ho_op req ops results a log H1 H2 H3 H4 H5 H6 H7) as (s1 & R1).
      destruct (IH (results ++ [ROctets (snd (app_ho a req))]) _ (log ++ [CallHo req]) Hok) as (s2 & R2).
      exists (s1 ++ s2). cbn [ho_results ho_log ho_app]. rewrite <- !app_assoc in R2.
      eapply run_trans; eassumption.
  Qed.

  Definition hfinal (results : list cres) (a : A) (log : list call) :=
    G (mkc CIdle [] results) (mkh HClosed a log) [] [] false.
  Lemma hclose_run results a log : runH [false] (BH [] results a log) = Some (hfinal results a log).
  Proof. reflexivity. Qed.
  Lemma hfinal_quiescent results a log : quiescentL _ _ creact hreact miu_cs miu_sc (hfinal results a log).
  Proof. split; reflexivity. Qed.

  Section AnyChannel.
    Variable C : chan_ops.
    Variable Cok : chan_ok C.
    Notation runC := (run csess (hsrv A) creact hreact C miu_cs miu_sc).

    Definition ho_ends_in (a : A) (ops : list cop) (results : list cres) (a' : A) (log : list call) : Prop :=
      exists n, forall sch g, runC sch (ho_init A C miu_cs a ops) = Some g ->
        exists sch' g', (length sch + length sch' = n)%nat /\ runC sch' g = Some g' /\
          g_c g' = mkc CIdle [] results /\ g_s g' = mkh HClosed a' log /\
          qlist C Cok (g_cs g') = [] /\ qlist C Cok (g_sc g') = [] /\ g_err g' = false.

    Lemma ho_ends_from_run a ops sch results a' log :
      runH sch (BH ops [] a []) = Some (BH [] results a' log) -> ho_ends_in a ops results a' log.
    Proof.
      intro Hrun. exists (length (sch ++ [false])). intros sch1 g Hr.
      destruct (refine_always_ends csess (hsrv A) creact hreact miu_cs miu_sc C Cok (length (sch ++ [false]))
                  (ho_init A C miu_cs a ops) (hfinal results a' log)) with (sch := sch1) (g := g)
        as (sch' & g' & Hl & Hr' & Habs); [|exact Hr|].
      - intros sch2 g2 H2. unfold ho_init in H2. rewrite ginit_abs in H2.
        change (ginit csess (hsrv A) list_chan miu_cs (fst (start_ops miu_cs ops [])) (snd (start_ops miu_cs ops []))
                  {| hv_st := HAccum []; hv_app := a; hv_log := [] |}) with (ho_init A list_chan miu_cs a ops) in H2.
        rewrite ho_init_BH in H2.
        apply (confluence csess (hsrv A) creact hreact miu_cs miu_sc (length (sch ++ [false])) (sch ++ [false])
                 (BH ops [] a []) (hfinal results a' log)); [reflexivity | | apply hfinal_quiescent | exact H2].
        eapply run_trans; [exact Hrun | apply hclose_run].
      - exists sch', g'. split; [exact Hl|]. split; [exact Hr'|].
        unfold absg, hfinal, mkg in Habs. inversion Habs. repeat split; reflexivity.
    Qed.

    Theorem handover_session_exact a ops : ho_session_ok a ops ->
      ho_ends_in a ops (ho_results a ops) (ho_app a ops) (ho_log a ops).
    Proof.
      intro Hok. destruct (ho_session_run ops [] a [] Hok) as (sch & H). cbn [app] in H.
      eapply ho_ends_from_run. exact H.
    Qed.

    (* one exchange: the request reaches the server application exactly once, octet for octet,
       and the select message it answers with reaches the client octet for octet *)
    Theorem handover_exact a req :
      req <> [] -> prefix_free req -> complete req = true -> is_hr req = true ->
      snd (app_ho a req) <> [] -> prefix_free (snd (app_ho a req)) -> complete (snd (app_ho a req)) = true ->
      ho_ends_in a [OpHo req] [ROctets (snd (app_ho a req))] (fst (app_ho a req)) [CallHo req].
    Proof.
      intros. apply (handover_session_exact a [OpHo req]). cbn [ho_session_ok]. repeat (split; [assumption|]). exact I.
    Qed.
  End AnyChannel.

  Theorem handover_run_cp_ends a ops : ho_session_ok a ops ->
    exists n, forall k, (n <= k)%nat ->
      run_cp csess (hsrv A) creact hreact list_chan miu_cs miu_sc k (ho_init A list_chan miu_cs a ops) =
      hfinal (ho_results a ops) (ho_app a ops) (ho_log a ops).
  Proof.
    intro Hok. destruct (ho_session_run ops [] a [] Hok) as (sch & H). cbn [app] in H.
    exists (length (sch ++ [false])). intros k Hk. rewrite ho_init_BH.
    eapply run_cp_ends; [reflexivity | | apply hfinal_quiescent | exact Hk].
    eapply run_trans; [exact H | apply hclose_run].
  Qed.
End HoProofs.

(* the premise is satisfiable: a decoder that accepts exactly one message *)
Lemma prefix_free_exact (m : list Z) : prefix_free (fun l => list_eqb l m) m.
Proof.
  intros p q Hp Hq Hm.
  destruct (list_eqb p m) eqn:E; [|reflexivity]. apply list_eqb_eq in E. subst p.
  apply (f_equal (@length Z)) in Hm. rewrite app_length in Hm. destruct q; [congruence | cbn in Hm; lia].
Qed.

(* ---------------------------------------------------------------- the code before the repair *)
(* HandoverServer.serve without the buffer reset (reset = false): a decoder that, like ndeflib,
   stops at the record with the ME flag and ignores what follows; two requests that each meet
   the premises of handover_exact; the second one is not delivered intact. *)
Definition w_starts (p l : list Z) : bool := list_eqb (firstn (length p) l) p.
Definition w_complete (l : list Z) : bool := w_starts [1; 2; 3] l || w_starts [4; 5; 6] l || w_starts [7; 8] l.
Definition w_app (a : nat) (_ : list Z) : nat * list Z := (S a, [7; 8]).

Lemma handover_unrepaired_refuted :
  let g := run_cp csess (hsrv nat) (cl_react w_complete 128)
             (ho_sys_react nat w_app w_complete (fun _ => true) 128 false) list_chan 128 128 20
             (ho_init nat list_chan 128 O [OpHo [1; 2; 3]; OpHo [4; 5; 6]]) in
  hv_log (g_s g) = [CallHo [1; 2; 3]; CallHo [1; 2; 3; 4; 5; 6]] /\
  hv_log (g_s g) <> [CallHo [1; 2; 3]; CallHo [4; 5; 6]].
Proof. vm_compute. split; [reflexivity | discriminate]. Qed.
