(* NFC-DEP frame codec: decode_frame (encode_frame pdu) = pdu for both directions. *)
From Coq Require Import ZArith List Bool Lia ZifyBool.
From NV Require Import Base.Result Base.Bytes Model.Dep.
Import ListNotations.
Open Scope Z_scope.
Ltac Zify.zify_post_hook ::= Z.to_euclidean_division_equations.

Definition dep_wf (d : deppdu) : Prop := 0 <= fmt d <= 15 /\ 0 <= pni d <= 3.

Lemma strip_frame_encode b body f :
  encode_frame b body = Ok f -> 2 <= len body -> strip_frame b f = Ok body.
Proof.
  unfold encode_frame. destruct (255 <? len body + 1) eqn:E; [discriminate|].
  intros H Hl. injection H as <-. unfold strip_frame.
  destruct b; cbn [app bind].
  - change (240 =? 240) with true. cbv iota. cbn [bind]. rewrite len_cons.
    replace (1 + len body =? len body + 1) with true by lia.
    replace (len body <? 2) with false by lia. reflexivity.
  - rewrite len_cons. replace (1 + len body =? len body + 1) with true by lia.
    replace (len body <? 2) with false by lia. reflexivity.
Qed.

Lemma encode_frame_ok b body : len body + 1 <= 255 ->
  encode_frame b body = Ok ((if b then [240] else []) ++ [len body + 1] ++ body).
Proof. intro H. unfold encode_frame. replace (255 <? len body + 1) with false by lia. reflexivity. Qed.

Lemma pfb_fields d : dep_wf d ->
  pfb_byte d / 16 = fmt d /\ pfb_byte d mod 4 = pni d /\
  ((pfb_byte d / 4) mod 2 =? 1) = is_some (did d) /\ ((pfb_byte d / 8) mod 2 =? 1) = is_some (nad d).
Proof.
  intros [Hf Hp]. unfold pfb_byte. destruct (did d), (nad d); cbn [is_some b2z]; repeat split; lia.
Qed.

Lemma dec_dep_enc d : dep_wf d ->
  dec_dep ([pfb_byte d] ++ opt_list (did d) ++ opt_list (nad d) ++ data d) = Ok d.
Proof.
  intro Hwf. destruct (pfb_fields d Hwf) as (H1 & H2 & H3 & H4).
  unfold dec_dep. cbn [app]. rewrite H1, H2, H3, H4.
  destruct d as [f p dd nn dat]; cbn [Dep.did Dep.nad Dep.data Dep.fmt Dep.pni] in *.
  destruct dd, nn; cbn; reflexivity.
Qed.

Lemma len_enc_dep code d :
  len (enc_dep code d) = len code + 1 + b2z (is_some (did d)) + b2z (is_some (nad d)) + len (data d).
Proof.
  unfold enc_dep. rewrite !len_app. destruct (did d), (nad d); cbn [opt_list is_some b2z]; rewrite ?len_cons, ?len_nil; lia.
Qed.

Lemma decode_tgt_dep b d f : dep_wf d ->
  encode_frame b (enc_pdu (PDepReq d)) = Ok f -> decode_frame_tgt b f = Ok (PDepReq d).
Proof.
  intros Hwf He. unfold decode_frame_tgt.
  rewrite (strip_frame_encode _ _ _ He).
  2:{ cbn [enc_pdu]. rewrite len_enc_dep. change (len [212; 6]) with 2.
      destruct (did d), (nad d); cbn [is_some b2z]; pose proof (len_nonneg (data d)); lia. }
  cbn [bind enc_pdu enc_dep app]. change (212 =? 212) with true. cbn [negb].
  change (6 =? 0) with false. change (6 =? 4) with false. change (6 =? 6) with true. cbv iota.
  unfold drop. change (Z.to_nat 2) with 2%nat. cbn [skipn].
  change (pfb_byte d :: opt_list (did d) ++ opt_list (nad d) ++ data d)
    with ([pfb_byte d] ++ opt_list (did d) ++ opt_list (nad d) ++ data d).
  rewrite (dec_dep_enc d Hwf). reflexivity.
Qed.

Lemma decode_ini_dep b d f : dep_wf d ->
  encode_frame b (enc_pdu (PDepRes d)) = Ok f -> decode_frame_ini b f = Ok (PDepRes d).
Proof.
  intros Hwf He. unfold decode_frame_ini.
  rewrite (strip_frame_encode _ _ _ He).
  2:{ cbn [enc_pdu]. rewrite len_enc_dep. change (len [213; 7]) with 2.
      destruct (did d), (nad d); cbn [is_some b2z]; pose proof (len_nonneg (data d)); lia. }
  cbn [bind enc_pdu enc_dep app]. change (213 =? 213) with true. cbn [negb].
  change (7 =? 1) with false. change (7 =? 5) with false. change (7 =? 7) with true. cbv iota.
  unfold drop. change (Z.to_nat 2) with 2%nat. cbn [skipn].
  change (pfb_byte d :: opt_list (did d) ++ opt_list (nad d) ++ data d)
    with ([pfb_byte d] ++ opt_list (did d) ++ opt_list (nad d) ++ data d).
  rewrite (dec_dep_enc d Hwf). reflexivity.
Qed.

(* DSL / RLS *)
Lemma decode_tgt_rls b x f :
  encode_frame b (enc_pdu (PRlsReq x)) = Ok f -> decode_frame_tgt b f = Ok (PRlsReq x).
Proof.
  intro He. unfold decode_frame_tgt. rewrite (strip_frame_encode _ _ _ He).
  2:{ cbn [enc_pdu]. rewrite len_app. change (len [212; 10]) with 2. pose proof (len_nonneg (opt_list x)). lia. }
  destruct x; cbn; reflexivity.
Qed.
Lemma decode_tgt_dsl b x f :
  encode_frame b (enc_pdu (PDslReq x)) = Ok f -> decode_frame_tgt b f = Ok (PDslReq x).
Proof.
  intro He. unfold decode_frame_tgt. rewrite (strip_frame_encode _ _ _ He).
  2:{ cbn [enc_pdu]. rewrite len_app. change (len [212; 8]) with 2. pose proof (len_nonneg (opt_list x)). lia. }
  destruct x; cbn; reflexivity.
Qed.
Lemma decode_ini_rls b x f :
  encode_frame b (enc_pdu (PRlsRes x)) = Ok f -> decode_frame_ini b f = Ok (PRlsRes x).
Proof.
  intro He. unfold decode_frame_ini. rewrite (strip_frame_encode _ _ _ He).
  2:{ cbn [enc_pdu]. rewrite len_app. change (len [213; 11]) with 2. pose proof (len_nonneg (opt_list x)). lia. }
  destruct x; cbn; reflexivity.
Qed.
Lemma decode_ini_dsl b x f :
  encode_frame b (enc_pdu (PDslRes x)) = Ok f -> decode_frame_ini b f = Ok (PDslRes x).
Proof.
  intro He. unfold decode_frame_ini. rewrite (strip_frame_encode _ _ _ He).
  2:{ cbn [enc_pdu]. rewrite len_app. change (len [213; 9]) with 2. pose proof (len_nonneg (opt_list x)). lia. }
  destruct x; cbn; reflexivity.
Qed.

(* decode_frame never hangs, and its only crash is IndexError/ValueError on short input (for C07) *)
Lemma strip_frame_nonempty b f : 2 <= len f -> (b = true -> 3 <= len f) ->
  match strip_frame b f with Crash _ | Hang => False | _ => True end.
Proof.
  intros H Hb. unfold strip_frame. destruct b.
  - specialize (Hb eq_refl). destruct f as [|x [|y r]]; cbn [bind]; try (unfold len in *; cbn in *; lia).
    destruct (x =? 240); cbn [bind]; [|exact I].
    destruct (len (y :: r) =? y); [|exact I]. destruct (len r <? 2); exact I.
  - destruct f as [|y r]; cbn [bind]; [unfold len in *; cbn in *; lia|].
    destruct (len (y :: r) =? y); [|exact I]. destruct (len r <? 2); exact I.
Qed.
