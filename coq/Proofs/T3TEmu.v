(* The library's own Type 3 Tag emulation (Type3TagEmulation.process_command serving an application
   memory array) is a device in the sense of Proofs/T3T.v section Dev: the frames the reader builds
   (rd_frame / wr_frame) are parsed back by process_command to the same block lists, the response
   frames pass send_cmd_recv_rsp's checks.  Hence the C01-C03 theorems hold for a Type3Tag reader
   talking to the emulation. *)
From Coq Require Import ZArith List Bool Lia ZifyBool.
From NV Require Import Base.Result Base.Bytes Base.PyPrims Proofs.Chunks Model.T3T Proofs.T3T.
Import ListNotations.
Open Scope Z_scope.
Ltac Zify.zify_post_hook ::= Z.to_euclidean_division_equations.

(* ------------------------------------------------------------ frames built by the reader *)
Lemma Ok_inj {A} (a b : A) : @Ok A a = Ok b -> a = b.
Proof. intro H. now injection H. Qed.

Lemma blk_elems_cons b r es : blk_elems (b :: r) = Ok es ->
  exists e er, blk_elem b = Ok e /\ blk_elems r = Ok er /\ es = e ++ er.
Proof.
  cbn [blk_elems]. destruct (blk_elem b) as [e| | |]; cbn [bind]; try discriminate.
  destruct (blk_elems r) as [er| | |]; cbn [bind]; try discriminate. intro H. inversion H. eauto.
Qed.

Lemma rd_frame_shape bl f : rd_frame e_idm bl = Ok f ->
  exists es, blk_elems bl = Ok es /\ f = (14 + len es) :: 6 :: e_idm ++ [1; 11; 0; len bl] ++ es /\ 14 + len es <= 255.
Proof.
  unfold rd_frame. destruct (blk_elems bl) as [es| | |]; cbn [bind]; try discriminate.
  destruct (len bl >? 255); [discriminate|]. unfold t3_frame.
  rewrite len_app. change (len e_idm) with 8. change (len [1; 11; 0; len bl]) with 4.
  destruct (2 + 8 + (4 + len es) >? 255) eqn:E; [discriminate|]. intro H. apply Ok_inj in H. subst f.
  exists es. split; [reflexivity|]. split; [f_equal; lia | lia].
Qed.
Lemma wr_frame_shape bl d f : wr_frame e_idm bl d = Ok f ->
  exists es, blk_elems bl = Ok es /\ f = (14 + len es + len d) :: 8 :: e_idm ++ [1; 9; 0; len bl] ++ es ++ d /\
             14 + len es + len d <= 255.
Proof.
  unfold wr_frame. destruct (blk_elems bl) as [es| | |]; cbn [bind]; try discriminate.
  destruct (len bl >? 255); [discriminate|]. unfold t3_frame.
  rewrite !len_app. change (len e_idm) with 8. change (len [1; 9; 0; len bl]) with 4.
  destruct (2 + 8 + (4 + (len es + len d)) >? 255) eqn:E; [discriminate|]. intro H. apply Ok_inj in H. subst f.
  exists es. split; [reflexivity|]. split; [f_equal; lia | lia].
Qed.

(* ------------------------------------------------------------ process_command on such frames *)
Lemma hd_not_polling n c : c = 6 \/ c = 8 ->
  list_eqb [n; c; 3; 254] [6; 0; 255; 255] || list_eqb [n; c; 3; 254] ([6; 0] ++ e_sys) = false.
Proof. intros [-> | ->]; cbn [list_eqb app e_sys]; destruct (n =? 6); reflexivity. Qed.

Lemma emu_process_cmd mem n c body : c = 6 \/ c = 8 -> n = 10 + len body ->
  emu_process mem (n :: c :: e_idm ++ body) =
  if c =? 6 then (emu_wrap 7 (emu_read mem body), mem)
  else let (r, mem1) := emu_write mem body in (emu_wrap 9 r, mem1).
Proof.
  intros Hc Hn. unfold emu_process.
  change (idx (n :: c :: e_idm ++ body) 0) with (Ok n).
  assert (Hl : len (n :: c :: e_idm ++ body) = n).
  { rewrite !len_cons, len_app. change (len e_idm) with 8. lia. }
  rewrite Hl. replace (negb (n =? n)) with false by lia.
  change (take 4 (n :: c :: e_idm ++ body)) with [n; c; 3; 254]. rewrite (hd_not_polling n c Hc).
  change (slice (n :: c :: e_idm ++ body) 2 10) with e_idm. replace (list_eqb e_idm e_idm) with true by reflexivity.
  change (bt (n :: c :: e_idm ++ body) 1) with c. change (drop 10 (n :: c :: e_idm ++ body)) with body.
  destruct Hc as [-> | ->]; reflexivity.
Qed.

(* ------------------------------------------------------------ the block list parser inverts BlockCode.pack *)
Lemma parse_blks_ok sc : forall bl es, blk_elems bl = Ok es -> forall i acc rest,
  parse_blks (length bl) i [sc] (es ++ rest) acc = Ok (inl (rev acc ++ map (fun b => (sc, b)) bl, rest)).
Proof.
  induction bl as [|b r IH]; intros es Hes i acc rest.
  - cbn in Hes. apply Ok_inj in Hes. subst es. cbn. now rewrite app_nil_r.
  - destruct (blk_elems_cons b r es Hes) as (e & er & He & Her & ->).
    unfold blk_elem in He. destruct (b <? 0) eqn:E0; [discriminate|].
    destruct (b <? 256) eqn:E1.
    + apply Ok_inj in He. subst e. cbn [length app]. cbn [parse_blks].
      change (nth_error [sc] (Z.to_nat (Z.land 128 15))) with (Some sc). change (128 >=? 128) with true. cbv iota.
      change (idx (128 :: b :: er ++ rest) 1) with (Ok b). cbn [bind].
      change (drop 2 (128 :: b :: er ++ rest)) with (er ++ rest).
      rewrite (IH er Her). cbn [rev map]. now rewrite <- app_assoc.
    + destruct (b <? 65536) eqn:E2; [|discriminate]. apply Ok_inj in He. subst e. cbn [length app]. cbn [parse_blks].
      change (nth_error [sc] (Z.to_nat (Z.land 0 15))) with (Some sc). change (0 >=? 128) with false. cbv iota.
      change (idx (0 :: b mod 256 :: b / 256 :: er ++ rest) 2) with (Ok (b / 256)).
      change (idx (0 :: b mod 256 :: b / 256 :: er ++ rest) 1) with (Ok (b mod 256)). cbn [bind].
      change (drop 3 (0 :: b mod 256 :: b / 256 :: er ++ rest)) with (er ++ rest).
      rewrite (IH er Her). cbn [rev map]. rewrite <- app_assoc. cbn [app].
      replace (b / 256 * 256 + b mod 256) with b by lia. reflexivity.
Qed.

Lemma emu_read_head mem nb es : emu_read mem ([1; 11; 0; nb] ++ es) =
  if nb >? 15 then Ok [255; 162] else
  do pb <- parse_blks (Z.to_nat nb) 0 [11] es [];
  match pb with inr i => Ok [pow2 i; 163] | inl (bl, _) => Ok (emu_rd_blocks mem 0 bl []) end.
Proof. reflexivity. Qed.
Lemma emu_write_head mem nb rest : emu_write mem ([1; 9; 0; nb] ++ rest) =
  match (do pb <- parse_blks (Z.to_nat nb) 0 [9] rest [];
         match pb with
         | inr i => Ok (inl [pow2 i; 163])
         | inl (bl, rest') => if negb (len rest' mod 16 =? 0) then Ok (inl [255; 162]) else Ok (inr (bl, rest'))
         end) with
  | Ok (inl st) => (Ok st, mem)
  | Ok (inr (bl, rest')) => emu_wr_blocks mem 0 bl rest'
  | Err e => (Err e, mem) | Crash c => (Crash c, mem) | Hang => (Hang, mem)
  end.
Proof. reflexivity. Qed.

(* ------------------------------------------------------------ serving the blocks *)
Lemma emu_rd_blocks_ok mem sc : forall bl i acc, Forall (fun b => 0 <= b /\ 16 * (b + 1) <= len mem) bl ->
  emu_rd_blocks mem i (map (fun b => (sc, b)) bl) acc =
  [0; 0; len (acc ++ flat_map (blk_get mem) bl) / 16] ++ acc ++ flat_map (blk_get mem) bl.
Proof.
  induction bl as [|b r IH]; intros i acc Hb.
  - cbn. now rewrite app_nil_r.
  - inversion Hb as [|? ? [H0 H1] Hr]; subst. cbn [map emu_rd_blocks flat_map]. unfold app_read.
    replace (16 * b <? len mem) with true by lia. fold (blk_get mem b).
    rewrite IH by exact Hr. now rewrite <- !app_assoc.
Qed.
Lemma flat_blk_len mem : forall bl, Forall (fun b => 0 <= b /\ 16 * (b + 1) <= len mem) bl ->
  len (flat_map (blk_get mem) bl) = 16 * len bl.
Proof.
  induction bl as [|b r IH]; intro Hb; [reflexivity|]. inversion Hb as [|? ? [H0 H1] Hr]; subst.
  cbn [flat_map]. rewrite len_app, len_cons, IH by exact Hr. unfold blk_get. rewrite len_slice by lia. lia.
Qed.

Lemma emu_wr_blocks_ok (mem0 : list Z) : forall (bl mem : list Z) i (data : list Z), len mem = len mem0 ->
  Forall (fun b => 0 <= b /\ 16 * (b + 1) <= len mem0) bl -> 0 <= i -> 16 * (i + len bl) <= len data ->
  emu_wr_blocks mem i (map (fun b => (9, b)) bl) data = (Ok [0; 0], blks_put mem bl (drop (16 * i) data)).
Proof.
  induction bl as [|b r IH]; intros mem i data Hl Hb Hi Hd; [reflexivity|].
  inversion Hb as [|? ? [H0 H1] Hr]; subst. rewrite len_cons in Hd. pose proof (len_nonneg r).
  cbn [map emu_wr_blocks blks_put]. change (9 =? 9) with true. cbv iota. unfold app_write.
  replace (16 * b <? len mem) with true by lia.
  assert (Hs : slice data (16 * i) (16 * i + 16) = take 16 (drop (16 * i) data)).
  { rewrite slice_take_drop by lia. f_equal. lia. }
  rewrite Hs.
  assert (Ht : len (take 16 (drop (16 * i) data)) = 16) by (apply len_take; rewrite len_drop; lia).
  assert (Hsp : take (16 * b) mem ++ take 16 (drop (16 * i) data) ++ drop (16 * b + 16) mem =
                splice mem (16 * b) (take 16 (drop (16 * i) data))) by (unfold splice; now rewrite Ht).
  rewrite Hsp. rewrite IH; [| rewrite len_splice; lia | exact Hr | lia | lia].
  f_equal. f_equal. rewrite drop_drop by lia. f_equal. lia.
Qed.

(* ------------------------------------------------------------ the emulation as a device *)
Definition em_inv (s : emu) : Prop := True.
Definition em_fresh_of (m : list Z) : emu := mkEmu m (-1) [].

Lemma emu_eta s : mkEmu (e_mem s) (e_budget s) (e_log s) = s.
Proof. destruct s; reflexivity. Qed.

Lemma e_read_ok s bl : em_inv s -> e_budget s <> 0 -> rd_ok (len (e_mem s)) 15 bl ->
  e_read s bl = (Ok (flat_map (blk_get (e_mem s)) bl), s).
Proof.
  intros _ Hb (Hn & _ & Hf). unfold e_read.
  destruct (rd_frame_ok e_idm bl) as (f & Hfr); [reflexivity | eapply Forall_impl; [|exact Hf]; cbn; intros; lia | lia |].
  rewrite Hfr. destruct (rd_frame_shape bl f Hfr) as (es & Hes & -> & Hlen).
  assert (Hf' : Forall (fun b => 0 <= b /\ 16 * (b + 1) <= len (e_mem s)) bl) by (eapply Forall_impl; [|exact Hf]; cbn; intros; lia).
  pose proof (flat_blk_len (e_mem s) bl Hf') as HD.
  (* the emulation's answer *)
  assert (Hp : emu_process (e_mem s) ((14 + len es) :: 6 :: e_idm ++ [1; 11; 0; len bl] ++ es) =
               (Ok (Some ((13 + 16 * len bl) :: 7 :: e_idm ++ [0; 0; len bl] ++ flat_map (blk_get (e_mem s)) bl)), e_mem s)).
  { rewrite emu_process_cmd; [| left; reflexivity | rewrite len_app; change (len [1; 11; 0; len bl]) with 4; lia].
    change (6 =? 6) with true. cbv iota. rewrite emu_read_head. replace (len bl >? 15) with false by lia.
    unfold len at 1. rewrite Nat2Z.id. rewrite <- (app_nil_r es). rewrite (parse_blks_ok 11 bl es Hes 0 [] []).
    cbn [bind rev app]. rewrite emu_rd_blocks_ok by exact Hf'. cbn [app]. rewrite HD. replace (16 * len bl / 16) with (len bl) by lia.
    unfold emu_wrap. cbn [bind]. rewrite !len_cons, HD.
    replace (10 + (1 + (1 + (1 + 16 * len bl))) >? 255) with false by lia.
    do 4 f_equal. lia. }
  unfold emu_xchg3, emu_xchg. replace (e_budget s =? 0) with false by lia. rewrite Hp.
  change (bt ((14 + len es) :: 6 :: e_idm ++ [1; 11; 0; len bl] ++ es) 1) with 6. change (6 =? 8) with false. cbn [andb].
  rewrite emu_eta.
  (* send_cmd_recv_rsp and read_without_encryption accept it *)
  set (D := flat_map (blk_get (e_mem s)) bl) in *.
  assert (Hr : t3_rsp 6 e_idm ((13 + 16 * len bl) :: 7 :: e_idm ++ [0; 0; len bl] ++ D) = Ok (len bl :: D)).
  { unfold t3_rsp.
    assert (Hl : len ((13 + 16 * len bl) :: 7 :: e_idm ++ [0; 0; len bl] ++ D) = 13 + 16 * len bl).
    { rewrite !len_cons, !len_app. change (len e_idm) with 8. change (len [0; 0; len bl]) with 3. lia. }
    rewrite Hl. change (bt ((13 + 16 * len bl) :: 7 :: e_idm ++ [0; 0; len bl] ++ D) 0) with (13 + 16 * len bl).
    replace ((13 + 16 * len bl <? 2) || negb (13 + 16 * len bl =? 13 + 16 * len bl)) with false by lia.
    change (bt ((13 + 16 * len bl) :: 7 :: e_idm ++ [0; 0; len bl] ++ D) 1) with 7.
    change (negb (7 =? 6 + 1)) with false. cbv iota.
    change (slice ((13 + 16 * len bl) :: 7 :: e_idm ++ [0; 0; len bl] ++ D) 2 10) with e_idm.
    replace (list_eqb e_idm e_idm) with true by reflexivity. cbn [negb].
    replace (13 + 16 * len bl <? 12) with false by lia.
    change (bt ((13 + 16 * len bl) :: 7 :: e_idm ++ [0; 0; len bl] ++ D) 10) with 0.
    change (negb (0 =? 0)) with false. cbv iota. reflexivity. }
  rewrite Hr. cbn [bind]. rewrite len_cons. subst D. rewrite HD.
  replace (negb (1 + 16 * len bl =? 1 + 16 * len bl)) with false by lia. reflexivity.
Qed.

Lemma e_dead_xchg1 s cmd : e_budget s = 0 -> emu_xchg s cmd = (None, s).
Proof. intro Hb. unfold emu_xchg. rewrite Hb. reflexivity. Qed.
Lemma e_dead_xchg s cmd : e_budget s = 0 -> emu_xchg3 s cmd = (None, s).
Proof. intro Hb. unfold emu_xchg3. rewrite !e_dead_xchg1 by exact Hb. reflexivity. Qed.

Lemma e_read_dead s : em_inv s -> e_budget s = 0 -> e_read s [0] = (Err (TagCommandError 0), s).
Proof.
  intros _ Hb. unfold e_read.
  destruct (rd_frame_ok e_idm [0]) as (f & ->); [reflexivity | constructor; [lia | constructor] | cbn; lia |].
  now rewrite e_dead_xchg.
Qed.

Lemma e_write_ok s c : em_inv s -> e_budget s <> 0 -> cmd_ok (len (e_mem s)) 13 c ->
  exists s', e_write s (fst c) (snd c) = (Ok tt, s') /\ em_inv s' /\ e_mem s' = apply_cmd (e_mem s) c /\
             e_budget s' = (if e_budget s <? 0 then e_budget s else e_budget s - 1).
Proof.
  destruct c as [bl d]. intros _ Hb (Hfr & Hn & Hf & Hd). cbn [fst snd] in *. unfold e_write.
  destruct (Hfr e_idm eq_refl) as (f & Hf0). rewrite Hf0.
  destruct (wr_frame_shape bl d f Hf0) as (es & Hes & -> & Hlen).
  assert (Hf' : Forall (fun b => 0 <= b /\ 16 * (b + 1) <= len (e_mem s)) bl) by (eapply Forall_impl; [|exact Hf]; cbn; intros; lia).
  assert (Hp : emu_process (e_mem s) ((14 + len es + len d) :: 8 :: e_idm ++ [1; 9; 0; len bl] ++ es ++ d) =
               (Ok (Some [12; 9; 3; 254; 1; 2; 3; 4; 5; 6; 0; 0]), blks_put (e_mem s) bl d)).
  { rewrite emu_process_cmd; [| right; reflexivity | rewrite !len_app; change (len [1; 9; 0; len bl]) with 4; lia].
    change (8 =? 6) with false. cbv iota. rewrite emu_write_head.
    unfold len at 1. rewrite Nat2Z.id. rewrite (parse_blks_ok 9 bl es Hes 0 [] d). cbn [bind rev app].
    replace (negb (len d mod 16 =? 0)) with false by lia.
    rewrite (emu_wr_blocks_ok (e_mem s)); [| reflexivity | exact Hf' | lia | lia]. reflexivity. }
  unfold emu_xchg3, emu_xchg. replace (e_budget s =? 0) with false by lia. rewrite Hp.
  change (bt ((14 + len es + len d) :: 8 :: e_idm ++ [1; 9; 0; len bl] ++ es ++ d) 1) with 8.
  change (8 =? 8) with true. change (bt [12; 9; 3; 254; 1; 2; 3; 4; 5; 6; 0; 0] 10 =? 0) with true.
  rewrite orb_true_r. cbn [andb].
  change (t3_rsp 8 e_idm [12; 9; 3; 254; 1; 2; 3; 4; 5; 6; 0; 0]) with (@Ok (list Z) []). cbn [bind].
  eexists. split; [reflexivity|]. cbn [e_mem e_budget]. unfold em_inv, apply_cmd. cbn [fst snd]. auto.
Qed.

Lemma e_write_dead s c : em_inv s -> e_budget s = 0 -> cmd_ok (len (e_mem s)) 13 c ->
  e_write s (fst c) (snd c) = (Err (TagCommandError 0), s).
Proof.
  intros _ Hb (Hfr & _). unfold e_write. destruct (Hfr e_idm eq_refl) as (f & ->). now rewrite e_dead_xchg.
Qed.

Lemma em_fresh_ok m : em_inv (em_fresh_of m) /\ e_mem (em_fresh_of m) = m /\ e_budget (em_fresh_of m) = -1.
Proof. unfold em_inv, em_fresh_of. cbn. auto. Qed.

(* ------------------------------------------------------------ the theorems for reader + emulation *)
Definition em_wf (s : emu) (a : attrs) : Prop := t3_wf emu e_mem em_inv 15 13 s a.

Theorem t3emu_write_read s a d : em_wf s a -> e_budget s < 0 -> len d <= a_nmaxb a * 16 ->
  exists old s',
    em_read_ndef s = (Ok (Ndef true true (a_nmaxb a * 16) old), s) /\
    em_set_octets (Ndef true true (a_nmaxb a * 16) old) s d = (Ok tt, s') /\
    em_fresh (e_mem s') = Ok (Ndef true true (a_nmaxb a * 16) d).
Proof.
  intros W Hb Hd.
  eapply (t3_write_read_dev emu e_read e_write e_mem e_budget em_inv 15 13 em_fresh_of);
    eauto using e_read_ok, e_read_dead, e_write_ok, e_write_dead, em_fresh_ok.
Qed.

Theorem t3emu_cut_safe s a d old : em_wf s a -> len d <= a_nmaxb a * 16 -> 0 <= e_budget s ->
  let k := e_budget s in
  let n := Z.of_nat (length (t3_plan a d)) in
  exists r s', em_set_octets (Ndef true true (a_nmaxb a * 16) old) s d = (r, s') /\ em_inv s' /\
    (k = 0 -> e_mem s' = e_mem s) /\
    (0 < k < n -> exists w c x, em_fresh (e_mem s') = Ok (Ndef false w c x)) /\
    (n <= k -> em_fresh (e_mem s') = Ok (Ndef true true (a_nmaxb a * 16) d)).
Proof.
  intros W Hd Hk.
  eapply (t3_cut_safe_dev emu e_read e_write e_mem e_budget em_inv 15 13 em_fresh_of);
    eauto using e_read_ok, e_read_dead, e_write_ok, e_write_dead, em_fresh_ok.
Qed.

Theorem t3emu_write_frame s a d old : em_wf s a -> len d <= a_nmaxb a * 16 ->
  let hi := 1 + nblk (len d) in
  hi <= 1 + a_nmaxb a /\
  Forall (fun c => Forall (fun b => 0 <= b < hi) (fst c)) (t3_plan a d) /\
  exists r s', em_set_octets (Ndef true true (a_nmaxb a * 16) old) s d = (r, s') /\
    (exists j, e_mem s' = apply_cmds (e_mem s) (firstn j (t3_plan a d))) /\
    len (e_mem s') = len (e_mem s) /\ drop (16 * hi) (e_mem s') = drop (16 * hi) (e_mem s).
Proof.
  intros W Hd.
  eapply (t3_write_frame_dev emu e_read e_write e_mem e_budget em_inv 15 13);
    eauto using e_read_ok, e_read_dead, e_write_ok, e_write_dead, em_fresh_ok.
Qed.
