(* C20: the two defects of FelicaLiteS found by the check, as witnesses on the model of the code as
   found (repaired = false), and the behaviour of the repaired code on the same inputs. *)
From Coq Require Import ZArith List Bool.
From NV Require Import Base.Result Base.Bytes Base.PyPrims Model.Des Model.FelicaMac Model.Ntag Model.AuthRun.
Import ListNotations.
Open Scope Z_scope.

Definition w_idm : list Z := [1; 2; 3; 4; 5; 6; 7; 8].
Definition w_key : list Z := [48; 49; 50; 51; 52; 53; 54; 55; 56; 57; 97; 98; 99; 100; 101; 102].  (* "0123456789abcdef" *)
Definition w_rc : list Z := [0; 1; 2; 3; 4; 5; 6; 7; 8; 9; 10; 11; 12; 13; 14; 15].

(* a mutual authentication with the right key in which one bit of the MAC of the STATE read
   (last response, byte 29: BDh -> BCh) was flipped in transit *)
Definition w_rsps : list xres :=
  [ XRsp [12; 9; 1; 2; 3; 4; 5; 6; 7; 8; 0; 0];
    XRsp [45; 7; 1; 2; 3; 4; 5; 6; 7; 8; 0; 0; 2; 0; 1; 2; 3; 4; 5; 6; 7; 8; 9; 10; 11; 12; 13; 14; 15; 126; 97; 200; 232; 108; 182; 80; 79; 0; 0; 0; 0; 0; 0; 0; 0];
    XRsp [29; 7; 1; 2; 3; 4; 5; 6; 7; 8; 0; 0; 1; 0; 254; 255; 0; 0; 0; 0; 0; 0; 0; 0; 0; 0; 0; 0; 0];
    XRsp [12; 9; 1; 2; 3; 4; 5; 6; 7; 8; 0; 0];
    XRsp [45; 7; 1; 2; 3; 4; 5; 6; 7; 8; 0; 0; 2; 1; 0; 0; 0; 0; 0; 0; 0; 0; 0; 0; 0; 0; 0; 0; 0; 188; 115; 235; 114; 148; 160; 2; 121; 0; 0; 0; 0; 0; 0; 0; 0] ].

Definition first_obs (r : list fobs * rstate * list (list Z)) : list fobs := fst (fst r).

Lemma lites_authenticate_found_TypeError :
  first_obs (felica_run true false w_idm w_rsps [OpAuth w_key w_rc]) = [ObBool (Crash TypeErr)].
Proof. vm_compute. reflexivity. Qed.
Lemma lites_authenticate_repaired_False :
  first_obs (felica_run true true w_idm w_rsps [OpAuth w_key w_rc]) = [ObBool (Ok false)].
Proof. vm_compute. reflexivity. Qed.

(* protect(b"0123456789abcdef") on a blank Lite-S card: the memory configuration block is read, then
   the code as found calls .encode() on a bytes object *)
Definition w_mc_rsp : list xres :=
  [ XRsp [29; 7; 1; 2; 3; 4; 5; 6; 7; 8; 0; 0; 1; 255; 255; 255; 1; 7; 0; 0; 0; 0; 0; 0; 0; 0; 0; 0; 0] ].
Lemma lites_protect_found_AttributeError :
  first_obs (felica_run true false w_idm w_mc_rsp [OpProtect (Some w_key) false 1 w_rc]) = [ObProt (Crash AttributeErr)].
Proof. vm_compute. reflexivity. Qed.
