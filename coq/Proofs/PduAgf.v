(* agf_local: the members of a decoded aggregate are the PDUs decoded from their own length-prefixed bytes. *)
From Coq Require Import ZArith List Bool Lia ZifyBool.
From NV Require Import Base.Result Base.Bytes Model.Pdu Model.PduSpec Proofs.PduBase Proofs.PduWin Proofs.PduTotal.
Import ListNotations.
Open Scope Z_scope.
Ltac Zify.zify_post_hook ::= Z.to_euclidean_division_equations.


Lemma sub_w_decode_w e p : sub_w e = Ok p -> decode_w e = Ok p.
Proof.
  unfold sub_w, decode_w. destruct e as [|a [|b info]]; try discriminate. unfold dec_w. cbv zeta.
  repeat match goal with |- context [if ?c then _ else _] => destruct c eqn:? end; try discriminate; exact (fun H => H).
Qed.

Lemma agf_w_members : forall fuel w acc l, bytes_ok w -> agf_w fuel w acc = Ok l ->
  exists subs ps, l = acc ++ ps /\ w = concat (map frame subs) /\
                  Forall2 (fun e p => sub_w e = Ok p /\ len e <= 65535) subs ps.
Proof.
  induction fuel as [|f IH]; intros w acc l Hw H.
  - destruct w as [|h r]; [|discriminate H]. injection H as <-. exists [], []. rewrite app_nil_r. repeat split. constructor.
  - destruct w as [|h [|lo rest]]; cbn [agf_w] in H.
    + injection H as <-. exists [], []. rewrite app_nil_r. repeat split. constructor.
    + discriminate H.
    + pose proof (byte_of _ _ Hw) as Hh. pose proof (byte_of _ _ (bytes_tl _ _ Hw)) as Hl.
      pose proof (bytes_tl _ _ (bytes_tl _ _ Hw)) as Hr. pose proof (len_nonneg rest) as Hn.
      set (n := h * 256 + lo) in *. assert (Hn0 : 0 <= n <= 65535) by (unfold n; lia).
      destruct (n >? len rest) eqn:E; [discriminate H|].
      destruct (sub_w (take n rest)) as [p| | |] eqn:Es; cbn [bind] in H; try discriminate H.
      destruct (IH _ _ _ (bytes_ok_drop _ n Hr) H) as (subs & ps & Hl' & Hw' & Hf).
      assert (Hlen : len (take n rest) = n) by (apply len_take; lia).
      exists (take n rest :: subs), (p :: ps). split; [|split].
      * rewrite Hl', <- app_assoc. reflexivity.
      * cbn [map concat]. unfold frame at 1. rewrite Hlen. rewrite <- Hw'. cbn [app].
        replace (n / 256) with h by (unfold n; lia). replace (n mod 256) with lo by (unfold n; lia).
        rewrite take_drop. reflexivity.
      * constructor; [split; [exact Es | lia] | exact Hf].
Qed.

Theorem agf_members_w w d s ps : bytes_ok w -> decode_w w = Ok (Agf d s ps) ->
  exists a b subs, w = a :: b :: concat (map frame subs) /\ Forall2 (fun e p => decode_w e = Ok p) subs ps.
Proof.
  intros Hw H. destruct w as [|a [|b info]]; try discriminate H.
  assert (Ha : agfdec_w (a :: b :: info) = Ok (Agf d s ps)).
  { unfold decode_w, dec_w in H. cbv zeta in H.
    destruct (Z.land (Z.shiftr (a * 256 + b) 6) 15 =? 2) eqn:E2.
    - repeat match type of H with context [if ?c then _ else _] => destruct c eqn:?; try discriminate end;
        try exact H; try lia.
    - exfalso.
      assert (Hinv : forall fuel step st, (forall st t, is_agf st = false -> is_agf (step st t) = false) -> is_agf st = false ->
                forall w' q, tlvs_w fuel step w' st = Ok q -> is_agf q = false).
      { induction fuel as [|f IHf]; intros step st Hst Hs w' q Hq.
        - destruct w' as [|T [|L r]]; cbn [tlvs_w] in Hq; try discriminate Hq; injection Hq as <-; exact Hs.
        - destruct w' as [|T [|L r]]; cbn [tlvs_w] in Hq; try (injection Hq as <-; exact Hs).
          destruct (L >? len r); [discriminate Hq|].
          destruct (tlv_interp T L (take L r)) as [t| | |]; cbn [bind] in Hq; try discriminate Hq.
          eapply IHf; [exact Hst | apply Hst, Hs | exact Hq]. }
      assert (Hnot : forall r, r = Ok (Agf d s ps) -> (forall q, r = Ok q -> is_agf q = false) -> False).
      { intros r -> Hq. specialize (Hq _ eq_refl). discriminate Hq. }
      repeat match type of H with context [if ?c then _ else _] => destruct c eqn:?; try discriminate H end;
        try (destruct info as [|? [|? [|? [|? [|? ?]]]]]; discriminate H);
        try (apply (Hnot _ H); intros q Hq; eapply Hinv; [| |exact Hq]; [|reflexivity];
             intros st t Hs; destruct st; try discriminate Hs; destruct t; reflexivity). }
  unfold agfdec_w in Ha.
  destruct (negb (Z.shiftr a 2 =? 0) || negb (Z.land b 63 =? 0)); [discriminate Ha|].
  destruct (agf_w (Z.to_nat (len info)) info []) as [l| | |] eqn:El; cbn [bind] in Ha; try discriminate Ha.
  injection Ha as _ _ <-.
  destruct (agf_w_members _ _ _ _ (bytes_tl _ _ (bytes_tl _ _ Hw)) El) as (subs & ps' & Hl & Hi & Hf).
  cbn [app] in Hl. subst l. exists a, b, subs. split; [rewrite Hi; reflexivity|].
  clear - Hf. induction Hf as [|e p subs ps [He _] _ IH]; constructor; [apply sub_w_decode_w, He | exact IH].
Qed.

(* stated on decode: every member of a decoded aggregate is what decode returns for the member's own bytes alone *)
Theorem agf_local data off size d s ps : 0 <= off -> bytes_ok data ->
  decode data off size = Ok (Agf d s ps) ->
  exists hdr subs, slice data off (off + size) = hdr ++ concat (map frame subs) /\ len hdr = 2 /\
                   Forall2 (fun e p => bytes_ok e /\ decode e 0 (len e) = Ok p) subs ps.
Proof.
  intros Ho Hd. rewrite decode_char by assumption.
  destruct ((off + size >? len data) || (size <? 2)); [discriminate|].
  assert (Hs : bytes_ok (slice data off (off + size))).
  { rewrite slice_eq by lia. apply bytes_ok_take. apply bytes_ok_drop, Hd. }
  intro E. destruct (agf_members_w _ _ _ _ Hs E) as (a & b & subs & Hw & Hf).
  exists [a; b], subs. split; [rewrite Hw; reflexivity|]. split; [reflexivity|].
  rewrite Hw in Hs. apply bytes_tl, bytes_tl in Hs.
  clear - Hs Hf. revert Hs. induction Hf as [|e p subs ps He _ IH]; intro Hs; constructor.
  - cbn [map concat] in Hs. apply bytes_ok_app in Hs. destruct Hs as [Hfr _]. unfold frame in Hfr.
    apply bytes_ok_app in Hfr. destruct Hfr as [_ Hbe]. split; [exact Hbe|]. rewrite decode_whole by exact Hbe. exact He.
  - apply IH. cbn [map concat] in Hs. apply bytes_ok_app in Hs. apply Hs.
Qed.
