(* C07: the NFC-DEP frame decoders are total - for every byte string, role and bit rate decode_frame returns a
   PDU object or raises ProtocolError / TransmissionError; never another exception, never None.
   The unrepaired decoders are refuted by the concrete frames the check found. *)
From Coq Require Import ZArith List Bool Lia ZifyBool.
From NV Require Import Base.Result Base.Bytes Model.DepDecode.
Import ListNotations.
Open Scope Z_scope.

Definition dep_doc {A} (r : res (option A)) : Prop :=
  (exists p, r = Ok (Some p)) \/ r = Err ProtocolError \/ r = Err TransmissionError.

Lemma len_slice {A} (l : list A) a b : 0 <= a -> a <= b -> b <= len l -> len (slice l a b) = b - a.
Proof.
  intros Ha Hab Hb. unfold slice, len in *. rewrite firstn_length, skipn_length. lia.
Qed.

Lemma list4 {A} (l : list A) : len l = 4 -> exists a b c d, l = [a; b; c; d].
Proof.
  unfold len. destruct l as [|a [|b [|c [|d [|e l]]]]]; cbn [length]; intro H; try lia.
  now exists a, b, c, d.
Qed.
Lemma list5 {A} (l : list A) : len l = 5 -> exists a b c d e, l = [a; b; c; d; e].
Proof.
  unfold len. destruct l as [|a [|b [|c [|d [|e [|f l]]]]]]; cbn [length]; intro H; try lia.
  now exists a, b, c, d, e.
Qed.

Lemma starts2_cons a b c0 c1 t : c0 =? a = true -> c1 =? b = true -> starts2 (c0 :: c1 :: t) a b = true.
Proof. intros H1 H2. cbn [starts2]. now rewrite H1, H2. Qed.

Lemma dec_atr_req_doc d : starts2 d 212 0 = true -> dep_doc (dec_atr_req d).
Proof.
  intro Hs. unfold dec_atr_req. rewrite Hs. cbn [negb].
  destruct (len d <? 16) eqn:E; [right; left; reflexivity|].
  destruct (list4 (slice d 12 16)) as (a & b & c & e & ->); [apply len_slice; lia|].
  left. eexists. reflexivity.
Qed.
Lemma dec_atr_res_doc d : starts2 d 213 1 = true -> dep_doc (dec_atr_res d).
Proof.
  intro Hs. unfold dec_atr_res. rewrite Hs. cbn [negb].
  destruct (len d <? 17) eqn:E; [right; left; reflexivity|].
  destruct (list5 (slice d 12 17)) as (a & b & c & e & f & ->); [apply len_slice; lia|].
  left. eexists. reflexivity.
Qed.
Lemma dec_psl_req_doc d : starts2 d 212 4 = true -> dep_doc (dec_psl_req d).
Proof.
  intro Hs. unfold dec_psl_req. rewrite Hs. cbn [negb].
  destruct (drop 2 d) as [|a [|b [|c [|e l]]]]; try (right; left; reflexivity). left. eexists. reflexivity.
Qed.
Lemma dec_psl_res_doc d : starts2 d 213 5 = true -> dep_doc (dec_psl_res d).
Proof.
  intro Hs. unfold dec_psl_res. rewrite Hs. cbn [negb].
  destruct (drop 2 d) as [|a [|b l]]; try (right; left; reflexivity). left. eexists. reflexivity.
Qed.
Lemma dec_dep_doc (req : bool) (d : list Z) : (if req then starts2 d 212 6 else starts2 d 213 7) = true -> dep_doc (dec_dep req d).
Proof.
  intro Hs. unfold dec_dep. rewrite Hs. cbn [negb].
  destruct (drop 2 d) as [|p r]; [right; left; reflexivity|].
  destruct (bit p 2); destruct (bit p 3); cbn [bind fst snd];
    repeat match goal with
           | |- dep_doc (bind (match ?l with [] => _ | _ :: _ => _ end) _) => destruct l; cbn [bind fst snd]
           | |- dep_doc (Err ProtocolError) => right; left; reflexivity
           | |- dep_doc (Ok (Some _)) => left; eexists; reflexivity
           end.
Qed.
Lemma dec_dsl_doc (rls req : bool) (d : list Z) :
  starts2 d (if req then 212 else 213) (if rls then (if req then 10 else 11) else (if req then 8 else 9)) = true ->
  dep_doc (dec_dsl rls req d).
Proof.
  intro Hs. unfold dec_dsl. rewrite Hs. cbn [negb].
  destruct (3 <? len d) eqn:E; [right; left; reflexivity|].
  destruct (len d =? 3) eqn:E3.
  - destruct d as [|a [|b [|c [|e l]]]]; rewrite ?len_cons in *; try (change (len (@nil Z)) with 0 in *); try lia.
    + cbn. left. eexists. reflexivity.
    + pose proof (len_nonneg l). lia.
  - cbn [bind]. left. eexists. reflexivity.
Qed.

Lemma decode_body_doc r f : dep_doc (decode_body false r f).
Proof.
  unfold decode_body. destruct (len f <? 2) eqn:E; [right; right; reflexivity|].
  destruct f as [|c0 [|c1 t]]; try (rewrite ?len_cons in E; change (len (@nil Z)) with 0 in E; lia).
  change (idx (c0 :: c1 :: t) 0) with (Ok c0). change (idx (c0 :: c1 :: t) 1) with (Ok c1). cbn [bind].
  destruct r.
  - destruct (c0 =? 213) eqn:E0; cbn [negb orb]; [|right; left; reflexivity].
    destruct (c1 =? 1) eqn:E1; cbn [negb orb].
    { apply dec_atr_res_doc, starts2_cons; assumption. }
    destruct (c1 =? 5) eqn:E5; cbn [negb orb].
    { apply dec_psl_res_doc, starts2_cons; assumption. }
    destruct (c1 =? 7) eqn:E7; cbn [negb orb].
    { apply (dec_dep_doc false), starts2_cons; assumption. }
    destruct (c1 =? 9) eqn:E9; cbn [negb orb].
    { apply (dec_dsl_doc false false), starts2_cons; assumption. }
    destruct (c1 =? 11) eqn:E11; cbn [negb orb]; [|right; left; reflexivity].
    apply (dec_dsl_doc true false), starts2_cons; assumption.
  - destruct (c0 =? 212) eqn:E0; cbn [negb orb]; [|right; left; reflexivity].
    destruct (c1 =? 0) eqn:E1; cbn [negb orb].
    { apply dec_atr_req_doc, starts2_cons; assumption. }
    destruct (c1 =? 4) eqn:E5; cbn [negb orb].
    { apply dec_psl_req_doc, starts2_cons; assumption. }
    destruct (c1 =? 6) eqn:E7; cbn [negb orb].
    { apply (dec_dep_doc true), starts2_cons; assumption. }
    destruct (c1 =? 8) eqn:E9; cbn [negb orb].
    { apply (dec_dsl_doc false true), starts2_cons; assumption. }
    destruct (c1 =? 10) eqn:E11; cbn [negb orb]; [|right; left; reflexivity].
    apply (dec_dsl_doc true true), starts2_cons; assumption.
Qed.

(* every frame, both roles, with and without the F0 start byte *)
Theorem dep_decode_total r b106 frame : dep_doc (decode_frame r b106 frame).
Proof.
  unfold decode_frame.
  assert (H : forall f1, dep_doc (match f1 with
                                  | [] => Err ProtocolError
                                  | l :: t => if negb (len f1 =? l) then Err ProtocolError else decode_body false r t
                                  end)).
  { intros [|l t]; [right; left; reflexivity|]. destruct (negb _); [right; left; reflexivity | apply decode_body_doc]. }
  destruct b106; cbn [bind]; [|apply H].
  destruct frame as [|x t]; cbn [bind]; [right; left; reflexivity|].
  destruct (negb (x =? 240)); cbn [bind]; [right; left; reflexivity | apply H].
Qed.

(* the start byte and length byte rules, as the specification states them *)
Theorem dep_start_byte r frame x : x <> 240 -> decode_frame r true (x :: frame) = Err ProtocolError.
Proof. intro H. unfold decode_frame. replace (x =? 240) with false by lia. reflexivity. Qed.
Theorem dep_length_byte r l body : l <> 1 + len body -> decode_frame r false (l :: body) = Err ProtocolError.
Proof. intro H. unfold decode_frame. cbn [bind]. rewrite len_cons. replace (1 + len body =? l) with false by lia. reflexivity. Qed.
Theorem dep_short_frame r l body : l = 1 + len body -> len body < 2 -> decode_frame r false (l :: body) = Err TransmissionError.
Proof.
  intros H H2. unfold decode_frame. cbn [bind]. rewrite len_cons. replace (1 + len body =? l) with true by lia.
  cbn [negb]. unfold decode_body. replace (len body <? 2) with true by lia. reflexivity.
Qed.

(* the value byte of a timeout extension *)
Theorem rtox_total d : (exists v, rtox_value d = Ok v /\ 0 < v < 60) \/ rtox_value d = Err ProtocolError.
Proof.
  destruct d as [|v t]; cbn [rtox_value]; [right; reflexivity|].
  destruct ((0 <? v) && (v <? 60)) eqn:E; [left; exists v; split; [reflexivity | lia] | right; reflexivity].
Qed.

(* ---- the code as it was: concrete witnesses (found by the check, harness/prop/c07.py corpus) ---- *)
Lemma orig_empty_frame : decode_frame_orig Ini false [] = Crash IndexErr /\ decode_frame_orig Tgt true [] = Crash IndexErr.
Proof. split; reflexivity. Qed.
Lemma orig_start_byte_only : decode_frame_orig Ini true [240] = Crash IndexErr /\ decode_frame_orig Tgt true [240] = Crash IndexErr.
Proof. split; reflexivity. Qed.
Lemma orig_short_atr_res : decode_frame_orig Ini true [240; 3; 213; 1] = Crash ValueErr.
Proof. vm_compute. reflexivity. Qed.
Lemma orig_short_atr_req : decode_frame_orig Tgt false [3; 212; 0] = Crash ValueErr.
Proof. vm_compute. reflexivity. Qed.
Lemma orig_rtox_no_value : rtox_value_orig [] = Crash IndexErr.
Proof. reflexivity. Qed.
