(* ISO-DEP: elementary facts about the reader step machine and the card.
   - list facts (take/slice/drop) behind chaining
   - what the card does with each kind of block (from its PCB classification)
   - what the reader does with each kind of answer
   - every block the reader emits fits the frame size (isodep_block_bound, reader side) *)
From Coq Require Import ZArith List Bool Lia ZifyBool.
From NV Require Import Base.Result Base.Bytes Model.IsoDep.
Import ListNotations.
Open Scope Z_scope.
Ltac Zify.zify_post_hook ::= Z.to_euclidean_division_equations.

(* ---------------------------------------------------------------- block numbers *)
Definition bit (x : Z) : Prop := x = 0 \/ x = 1.

Lemma flip_bit b : bit b -> bit (flip b).
Proof. intros [-> | ->]; cbv; auto. Qed.
Lemma toggle_flip b : bit b -> toggle b = flip b.
Proof. intros [-> | ->]; reflexivity. Qed.
Lemma flip_flip b : bit b -> flip (flip b) = b.
Proof. intros [-> | ->]; reflexivity. Qed.
Lemma flip_neq b : bit b -> flip b <> b.
Proof. intros [-> | ->]; cbv; discriminate. Qed.

(* ---------------------------------------------------------------- lists *)
Lemma firstn_add {A} (l : list A) a b : firstn a l ++ firstn b (skipn a l) = firstn (a + b) l.
Proof.
  revert l. induction a as [|a IH]; intro l; [reflexivity|].
  destruct l as [|x l]; [cbn; rewrite firstn_nil; reflexivity|].
  cbn [Nat.add firstn skipn app]. rewrite <- IH. reflexivity.
Qed.

Lemma slice_at (cmd : bytes) off m : 0 <= off -> 0 <= m ->
  slice cmd off (off + m) = firstn (Z.to_nat m) (skipn (Z.to_nat off) cmd).
Proof.
  intros. unfold slice. rewrite (Z.max_r 0 off) by lia.
  replace (Z.max 0 (off + m - off)) with m by lia. reflexivity.
Qed.
Lemma take_slice (cmd : bytes) off m : 0 <= off -> 0 <= m ->
  take off cmd ++ slice cmd off (off + m) = take (off + m) cmd.
Proof. intros. rewrite slice_at by lia. unfold take. rewrite firstn_add. f_equal. lia. Qed.
Lemma take_all {A} (l : list A) n : len l <= n -> take n l = l.
Proof. unfold take, len. intro. apply firstn_all2. lia. Qed.
Lemma take_0 {A} (l : list A) : take 0 l = [].
Proof. reflexivity. Qed.
Lemma len_slice_le (cmd : bytes) off m : 0 <= off -> 0 <= m -> len (slice cmd off (off + m)) <= m.
Proof. intros. rewrite slice_at by lia. unfold len. rewrite firstn_length. lia. Qed.
Lemma take_drop {A} n (l : list A) : take n l ++ drop n l = l.
Proof. apply firstn_skipn. Qed.
Lemma len_take_le {A} n (l : list A) : 0 <= n -> len (take n l) <= n.
Proof. intro. unfold len, take. rewrite firstn_length. lia. Qed.
Lemma len_drop {A} n (l : list A) : 0 <= n -> len (drop n l) = Z.max 0 (len l - n).
Proof. intro. unfold len, drop. rewrite skipn_length. lia. Qed.
Lemma len_pos_nil {A} (l : list A) : (len l >? 0) = false -> l = [].
Proof. destruct l; [reflexivity|]. rewrite len_cons. pose proof (len_nonneg l). lia. Qed.
Lemma len_pos_cons {A} (l : list A) : (len l >? 0) = true -> l <> [].
Proof. intros H ->. cbn in H. discriminate. Qed.
Lemma nonnil_len {A} (l : list A) : l <> [] -> 0 < len l.
Proof. destruct l; [congruence|]. rewrite len_cons. pose proof (len_nonneg l). lia. Qed.

(* ---------------------------------------------------------------- the card *)
Definition same_core (c c' : picc) : Prop :=
  bn c' = bn c /\ rxbuf c' = rxbuf c /\ txrest c' = txrest c /\ execs c' = execs c.

(* the card has sent [blk], possibly preceded by S(WTX) requests one of which is outstanding *)
Inductive emitted (blk : bytes) (c : picc) : Prop :=
| Em_direct : last c = blk -> pend c = None -> emitted blk c
| Em_wtx w ws : last c = [242; w] -> pend c = Some (w, ws, blk) -> emitted blk c.

Definition plan_weight (pl : list (list Z)) : Z := fold_right (fun ws a => len ws + a) 0 pl.
(* S(WTX) responses the card still expects *)
Definition wtx_weight (c : picc) : Z :=
  plan_weight (plan c) + match pend c with Some (_, ws, _) => 1 + len ws | None => 0 end.

Lemma plan_weight_nonneg pl : 0 <= plan_weight pl.
Proof. induction pl as [|ws pl IH]; [cbn; lia|].
  change (plan_weight (ws :: pl)) with (len ws + plan_weight pl). pose proof (len_nonneg ws). lia. Qed.
Lemma plan_weight_cons ws pl : plan_weight (ws :: pl) = len ws + plan_weight pl.
Proof. reflexivity. Qed.
Lemma wtx_weight_nonneg c : 0 <= wtx_weight c.
Proof. unfold wtx_weight. pose proof (plan_weight_nonneg (plan c)).
  destruct (pend c) as [[[w ws] b]|]; [pose proof (len_nonneg ws)|]; lia. Qed.

Lemma picc_emit_spec c0 blk c' r :
  pend c0 = None -> picc_emit c0 blk = (c', r) ->
  r = Some (last c') /\ same_core c0 c' /\ emitted blk c' /\ wtx_weight c' <= wtx_weight c0.
Proof.
  intros Hp. unfold picc_emit, wtx_weight. rewrite Hp.
  destruct (plan c0) as [|ws pl] eqn:Epl; cbn [tl].
  - intro H; inversion H; subst; clear H. cbn [last bn rxbuf txrest execs pend plan].
    split; [reflexivity|]. split; [repeat split|]. split; [apply Em_direct; reflexivity|]. lia.
  - destruct ws as [|w ws']; intro H; inversion H; subst; clear H; cbn [last bn rxbuf txrest execs pend plan].
    + split; [reflexivity|]. split; [repeat split|]. split; [apply Em_direct; reflexivity|].
      rewrite plan_weight_cons. cbn [len length Z.of_nat]. lia.
    + split; [reflexivity|]. split; [repeat split|]. split; [eapply Em_wtx; reflexivity|].
      rewrite plan_weight_cons, len_cons. lia.
Qed.

Section Card.
Variable app : Z -> bytes -> bytes.
Variable kc : ccfg.

Lemma picc_iblock_chained c pcb inf :
  Z.land pcb 238 = 2 -> Z.land pcb 16 <> 0 -> len inf + 3 <= cfsc kc ->
  picc_absorb app kc c (pcb :: inf) =
  picc_emit {| bn := flip (bn c); last := last c; rxbuf := rxbuf c ++ inf; txrest := []; pend := None;
               plan := plan c; execs := execs c |} [Z.lor 162 (flip (bn c))].
Proof.
  intros H1 H2 H3. unfold picc_absorb.
  replace (len (pcb :: inf) + 2 >? cfsc kc) with false by (rewrite len_cons; lia).
  rewrite H1. change (2 =? 2) with true. cbv iota.
  replace (Z.land pcb 16 =? 0) with false by lia. reflexivity.
Qed.

Lemma picc_iblock_final c pcb inf :
  Z.land pcb 238 = 2 -> Z.land pcb 16 = 0 -> len inf + 3 <= cfsc kc ->
  picc_absorb app kc c (pcb :: inf) =
  let apdu := rxbuf c ++ inf in
  let '(ib, rest) := next_iblock kc (flip (bn c)) (app (len (execs c)) apdu) in
  picc_emit {| bn := flip (bn c); last := last c; rxbuf := []; txrest := rest; pend := None;
               plan := plan c; execs := execs c ++ [apdu] |} ib.
Proof.
  intros H1 H2 H3. unfold picc_absorb.
  replace (len (pcb :: inf) + 2 >? cfsc kc) with false by (rewrite len_cons; lia).
  rewrite H1. change (2 =? 2) with true. cbv iota.
  rewrite H2. reflexivity.
Qed.

(* rule 11 *)
Lemma picc_rblock_same c pcb :
  Z.land pcb 238 = 162 -> Z.land pcb 1 = bn c -> last c <> [] -> 3 <= cfsc kc ->
  picc_absorb app kc c [pcb] = (c, Some (last c)).
Proof.
  intros H1 H2 H3 H4. unfold picc_absorb.
  replace (len [pcb] + 2 >? cfsc kc) with false by (cbn; lia).
  rewrite H1. change (162 =? 2) with false. change (162 =? 162) with true. cbv iota.
  change (len [] =? 0) with true. cbn [negb]. rewrite H2, Z.eqb_refl.
  destruct (last c); [congruence|reflexivity].
Qed.

(* rule 12 *)
Lemma picc_nak_other c pcb :
  Z.land pcb 238 = 162 -> Z.land pcb 1 <> bn c -> Z.land pcb 16 <> 0 -> pend c = None -> 3 <= cfsc kc ->
  picc_absorb app kc c [pcb] =
  ({| bn := bn c; last := [Z.lor 162 (bn c)]; rxbuf := rxbuf c; txrest := txrest c; pend := None;
      plan := plan c; execs := execs c |}, Some [Z.lor 162 (bn c)]).
Proof.
  intros H1 H2 H3 H4 H5. unfold picc_absorb.
  replace (len [pcb] + 2 >? cfsc kc) with false by (cbn; lia).
  rewrite H1. change (162 =? 2) with false. change (162 =? 162) with true. cbv iota.
  change (len [] =? 0) with true. cbn [negb].
  replace (Z.land pcb 1 =? bn c) with false by lia.
  replace (Z.land pcb 16 =? 0) with false by lia. cbn [negb]. rewrite H4. reflexivity.
Qed.

(* rules E and 13 *)
Lemma picc_ack_other c pcb :
  Z.land pcb 238 = 162 -> Z.land pcb 1 <> bn c -> Z.land pcb 16 = 0 -> pend c = None -> txrest c <> [] ->
  3 <= cfsc kc ->
  picc_absorb app kc c [pcb] =
  let '(ib, rest) := next_iblock kc (flip (bn c)) (txrest c) in
  picc_emit {| bn := flip (bn c); last := last c; rxbuf := rxbuf c; txrest := rest; pend := None;
               plan := plan c; execs := execs c |} ib.
Proof.
  intros H1 H2 H3 H4 H5 H6. unfold picc_absorb.
  replace (len [pcb] + 2 >? cfsc kc) with false by (cbn; lia).
  rewrite H1. change (162 =? 2) with false. change (162 =? 162) with true. cbv iota.
  change (len [] =? 0) with true. cbn [negb].
  replace (Z.land pcb 1 =? bn c) with false by lia.
  rewrite H3. change (0 =? 0) with true. cbn [negb]. rewrite H4.
  destruct (txrest c); [congruence|reflexivity].
Qed.

(* rule 3: the S(WTX) response *)
Lemma picc_wtx_response c w ws nxt c' r :
  pend c = Some (w, ws, nxt) -> 4 <= cfsc kc -> picc_absorb app kc c [242; w] = (c', r) ->
  r = Some (last c') /\ same_core c c' /\ emitted nxt c' /\ wtx_weight c' < wtx_weight c.
Proof.
  intros Hp Hf. unfold picc_absorb.
  replace (len [242; w] + 2 >? cfsc kc) with false by (cbn; lia).
  change (Z.land 242 238 =? 2) with false. change (Z.land 242 238 =? 162) with false.
  change (242 =? 242) with true. cbv iota. rewrite Hp, Z.eqb_refl.
  unfold wtx_weight. rewrite Hp.
  destruct ws as [|w2 ws']; intro H; inversion H; subst; clear H; cbn [last bn rxbuf txrest execs pend plan].
  - split; [reflexivity|]. split; [repeat split|]. split; [apply Em_direct; reflexivity|].
    cbn [len length Z.of_nat]. lia.
  - split; [reflexivity|]. split; [repeat split|]. split; [eapply Em_wtx; reflexivity|]. rewrite len_cons. lia.
Qed.

Lemma emitted_last_nonnil blk c : emitted blk c -> blk <> [] -> last c <> [].
Proof. intros [H _|w ws H _] Hb; rewrite H; [exact Hb|discriminate]. Qed.
Lemma emitted_pend blk c w ws nxt : emitted blk c -> pend c = Some (w, ws, nxt) -> nxt = blk.
Proof. intros [_ H|w' ws' _ H] Hp; rewrite H in Hp; [discriminate|]. inversion Hp; reflexivity. Qed.
Lemma emitted_core blk c : emitted blk c ->
  (last c = blk /\ pend c = None) \/ (exists w ws, last c = [242; w] /\ pend c = Some (w, ws, blk)).
Proof. intros [H1 H2|w ws H1 H2]; [left; auto|right; eauto]. Qed.
End Card.

(* ---------------------------------------------------------------- the reader *)
Lemma idx0 b0 (inf : bytes) : idx (b0 :: inf) 0 = Ok b0.
Proof. reflexivity. Qed.
Lemma idx1 b0 b1 (inf : bytes) : idx (b0 :: b1 :: inf) 1 = Ok b1.
Proof. reflexivity. Qed.
Lemma len_cons_eqb0 {A} (x : A) l : (len (x :: l) =? 0) = false.
Proof. rewrite len_cons. pose proof (len_nonneg l). lia. Qed.

Definition mkp (pn : Z) (f : phase) : pcd := {| pni := pn; ph := f |}.

Section Reader.
Variable k : cfg.
Variable cmd : bytes.
Hypothesis Hf1 : fix_wtx_try k = true.
Hypothesis Hf2 : fix_wtx_chain k = true.

Lemma send_timeout pn off i d a : a = ATimeout \/ a = ATxErr ->
  pcd_absorb k cmd (mkp pn (PSend off i d)) a =
  mkp pn (if i <=? n_nak k then PSend off (i + 1) [Z.lor 178 pn]
          else tagerr (match a with ATimeout => E_TIMEOUT | _ => E_RECEIVE end)).
Proof. intros [-> | ->]; reflexivity. Qed.

Lemma recv_timeout pn i d rsp a : a = ATimeout \/ a = ATxErr ->
  pcd_absorb k cmd (mkp pn (PRecv i d rsp)) a =
  mkp pn (if i <=? n_ack k then PRecv (i + 1) [Z.lor 162 pn] rsp
          else tagerr (match a with ATimeout => E_TIMEOUT | _ => E_RECEIVE end)).
Proof. intros [-> | ->]; reflexivity. Qed.

Lemma send_rx_wtx pn off i d w :
  pcd_absorb k cmd (mkp pn (PSend off i d)) (ARx [242; w]) = mkp pn (PSend off i [242; w]).
Proof. unfold pcd_absorb. cbn [ph pni mkp]. rewrite len_cons_eqb0, idx0, Hf1. reflexivity. Qed.

Lemma recv_rx_wtx pn i d rsp w :
  pcd_absorb k cmd (mkp pn (PRecv i d rsp)) (ARx [242; w]) = mkp pn (PRecv i [242; w] rsp).
Proof. unfold pcd_absorb. cbn [ph pni mkp]. rewrite len_cons_eqb0, idx0, Hf2. reflexivity. Qed.

(* R(ACK) with the other block number: retransmit within the budget, else block number error *)
Lemma send_rx_rack_other pn off i d : bit pn ->
  pcd_absorb k cmd (mkp pn (PSend off i d)) (ARx [Z.lor 162 (flip pn)]) =
  if (if fix_rack k then i <=? n_nak k + 1 else true)
  then mkp pn (PSend off (i + 1) (iblock k cmd pn off))
  else mkp pn (tagerr E_PROTOCOL).
Proof.
  intro Hb. unfold pcd_absorb. cbn [ph pni mkp]. rewrite len_cons_eqb0, idx0, Hf1.
  destruct Hb as [-> | ->]; cbn [flip Z.eqb]; change (Z.lor 162 1) with 163; change (Z.lor 162 0) with 162.
  - change (is_wtx 163) with false. change (is_rack_other 0 163) with true. cbn [andb].
    destruct (if fix_rack k then i <=? n_nak k + 1 else true); reflexivity.
  - change (is_wtx 162) with false. change (is_rack_other 1 162) with true. cbn [andb].
    destruct (if fix_rack k then i <=? n_nak k + 1 else true); reflexivity.
Qed.

(* R(ACK) with the reader's block number while the reader is chaining *)
Lemma send_rx_ack pn off i d : bit pn -> more_at k cmd off = true ->
  pcd_absorb k cmd (mkp pn (PSend off i d)) (ARx [Z.lor 162 pn]) =
  mkp (flip pn) (PSend (off + miu k) 1 (iblock k cmd (flip pn) (off + miu k))).
Proof.
  intros Hb Hm. unfold pcd_absorb. cbn [ph pni mkp]. rewrite len_cons_eqb0, idx0, Hf1.
  destruct Hb as [-> | ->]; change (Z.lor 162 1) with 163; change (Z.lor 162 0) with 162.
  - change (is_wtx 162) with false. change (is_rack_other 0 162) with false. cbn [andb].
    unfold after_wtx. change (negb (Z.land 162 1 =? 0)) with false. cbv iota. rewrite Hm.
    change (Z.land 162 254 =? 162) with true. reflexivity.
  - change (is_wtx 163) with false. change (is_rack_other 1 163) with false. cbn [andb].
    unfold after_wtx. change (negb (Z.land 163 1 =? 1)) with false. cbv iota. rewrite Hm.
    change (Z.land 163 254 =? 162) with true. reflexivity.
Qed.

(* the first response I-block, answering the last command block *)
Lemma send_rx_iblock pn off i d ch (chunk : bytes) : bit pn -> more_at k cmd off = false -> bit ch ->
  pcd_absorb k cmd (mkp pn (PSend off i d)) (ARx (Z.lor (Z.lor 2 (16 * ch)) pn :: chunk)) =
  mkp (flip pn) (if ch =? 1 then PRecv 1 [Z.lor 162 (flip pn)] chunk else PDone (Ok chunk)).
Proof.
  intros Hb Hm Hc. unfold pcd_absorb. cbn [ph pni mkp]. rewrite len_cons_eqb0, idx0, Hf1.
  destruct Hb as [-> | ->], Hc as [-> | ->]; cbn [Z.mul Z.lor Pos.lor Z.eqb Pos.eqb tl];
    match goal with |- context [is_wtx ?x] => change (is_wtx x) with false end;
    match goal with |- context [is_rack_other ?a ?x] => change (is_rack_other a x) with false end;
    cbn [andb]; unfold after_wtx; rewrite Hm; reflexivity.
Qed.

(* a further response I-block, answering R(ACK) *)
Lemma recv_rx_iblock pn i d rsp ch (chunk : bytes) : bit pn -> bit ch ->
  pcd_absorb k cmd (mkp pn (PRecv i d rsp)) (ARx (Z.lor (Z.lor 2 (16 * ch)) pn :: chunk)) =
  mkp (flip pn) (if ch =? 1 then PRecv 1 [Z.lor 162 (flip pn)] (rsp ++ chunk) else PDone (Ok (rsp ++ chunk))).
Proof.
  intros Hb Hc. unfold pcd_absorb. cbn [ph pni mkp]. rewrite len_cons_eqb0, idx0, Hf2.
  destruct Hb as [-> | ->], Hc as [-> | ->]; cbn [Z.mul Z.lor Pos.lor Z.eqb Pos.eqb tl];
    match goal with |- context [is_wtx ?x] => change (is_wtx x) with false end;
    cbn [andb]; reflexivity.
Qed.
End Reader.
