(* C18 - sense(), listen(), exchange(): proofs about Model/Connect.v for ALL target lists,
   iteration counts and driver outcome tables / all histories. *)
From Coq Require Import ZArith List Bool Arith Lia.
From NV Require Import Model.Connect.
Import ListNotations.

(* ------------------------------------------------------------------ events of a sense call *)
Definition sense_ev (e : ev) : bool := match e with EvMute | EvSense _ _ => true | _ => false end.
Definition scan_tail (r : scan_res) : list ev := match r with Raised e => [EvRaise e] | _ => [] end.
Definition out_tail {A} (r : out A) : list ev := match r with Raise e => [EvRaise e] | _ => [] end.

Lemma scan_log single call i tb : forall ts j r l,
  scan single call i tb ts j = (r, l) ->
  exists l0, forallb sense_ev l0 = true /\ l = l0 ++ scan_tail r.
Proof.
  induction ts as [|t ts IH]; intros j r l H; cbn in H.
  - inversion H; subst. exists []. split; reflexivity.
  - destruct (dispatch_of t) as [d| |].
    + destruct (accepted d (lookup tb i j)) as [p|] eqn:Ea.
      * inversion H; subst. exists [EvSense d j]. split; reflexivity.
      * destruct (lookup tb i j) eqn:El;
          try (destruct (scan single call i tb ts (S j)) as [r' l'] eqn:Es; inversion H; subst;
               destruct (IH _ _ _ Es) as (l0 & H0 & ->); exists (EvSense d j :: l0); split; [cbn; exact H0 | reflexivity]);
          try (inversion H; subst; exists [EvSense d j]; split; reflexivity).
        destruct single.
        -- inversion H; subst. exists [EvSense d j]. split; reflexivity.
        -- destruct (scan false call i tb ts (S j)) as [r' l'] eqn:Es; inversion H; subst.
           destruct (IH _ _ _ Es) as (l0 & H0 & ->). exists (EvSense d j :: l0). split; [cbn; exact H0 | reflexivity].
    + inversion H; subst. exists []. split; reflexivity.
    + destruct single.
      * inversion H; subst. exists []. split; reflexivity.
      * apply IH in H. exact H.
Qed.

(* with several targets (or none) UnsupportedTargetError never leaves the inner loop *)
Lemma scan_no_unsupported call i tb : forall ts j r l,
  scan false call i tb ts j = (r, l) -> r <> Raised XUnsupported.
Proof.
  induction ts as [|t ts IH]; intros j r l H; cbn in H.
  - inversion H; subst. discriminate.
  - destruct (dispatch_of t) as [d| |].
    + destruct (accepted d (lookup tb i j)) as [p|] eqn:Ea.
      * inversion H; subst. discriminate.
      * destruct (lookup tb i j) eqn:El;
          try (destruct (scan false call i tb ts (S j)) as [r' l'] eqn:Es; inversion H; subst; eapply IH; exact Es);
          try (inversion H; subst; discriminate).
    + inversion H; subst. discriminate.
    + eapply IH; exact H.
Qed.

(* position k of the argument list (absolute position j + k) gave no acceptable answer in iteration i *)
Definition unacc (tb : table) (i : nat) (ts : list tspec) (j k : nat) : Prop :=
  forall t d, nth_error ts k = Some t -> dispatch_of t = DCall d -> accepted d (lookup tb i (j + k)) = None.

Lemma unacc_shift tb i t ts j k : unacc tb i ts (S j) k -> unacc tb i (t :: ts) j (S k).
Proof. intros H t' d Hn Hd. cbn in Hn. replace (j + S k) with (S j + k) by lia. eapply H; eauto. Qed.

Lemma scan_found single call i tb : forall ts j t l,
  scan single call i tb ts j = (Found t, l) ->
  exists k tk d p, nth_error ts k = Some tk /\ dispatch_of tk = DCall d /\
     accepted d (lookup tb i (j + k)) = Some p /\ t = RemoteT call i (j + k) p /\
     forall k', k' < k -> unacc tb i ts j k'.
Proof.
  induction ts as [|t0 ts IH]; intros j t l H; cbn in H.
  - inversion H.
  - assert (Hrec : forall l', scan single call i tb ts (S j) = (Found t, l') ->
        (forall d, dispatch_of t0 = DCall d -> accepted d (lookup tb i j) = None) ->
        exists k tk d p, nth_error (t0 :: ts) k = Some tk /\ dispatch_of tk = DCall d /\
          accepted d (lookup tb i (j + k)) = Some p /\ t = RemoteT call i (j + k) p /\
          forall k', k' < k -> unacc tb i (t0 :: ts) j k').
    { intros l' Hs H0. destruct (IH _ _ _ Hs) as (k & tk & d & p & Hn & Hd & Ha & Ht & Hb).
      exists (S k), tk, d, p. replace (j + S k) with (S j + k) by lia. repeat split; auto.
      intros k' Hk'. destruct k' as [|k'].
      - intros t' d' Hn' Hd'. cbn in Hn'. inversion Hn'; subst. rewrite Nat.add_0_r. auto.
      - apply unacc_shift. apply Hb. lia. }
    destruct (dispatch_of t0) as [d| |] eqn:Ed.
    + destruct (accepted d (lookup tb i j)) as [p|] eqn:Ea.
      * inversion H; subst. exists 0, t0, d, p. rewrite Nat.add_0_r. repeat split; auto. intros k' Hk'; lia.
      * assert (H0 : forall d', DCall d = DCall d' -> accepted d' (lookup tb i j) = None) by (intros d' E; inversion E; subst; exact Ea).
        destruct (lookup tb i j) eqn:El;
          try solve [destruct (scan single call i tb ts (S j)) as [r' l'] eqn:Es; inversion H; subst; eapply Hrec; eauto];
          try (inversion H; fail).
        destruct single; [inversion H|].
        destruct (scan false call i tb ts (S j)) as [r' l'] eqn:Es; inversion H; subst; eapply Hrec; eauto.
    + inversion H.
    + destruct single; [inversion H|]. eapply Hrec; eauto. intros d E; inversion E.
Qed.

Lemma scan_continue single call i tb : forall ts j l,
  scan single call i tb ts j = (Continue, l) -> forall k, unacc tb i ts j k.
Proof.
  induction ts as [|t0 ts IH]; intros j l H k; cbn in H.
  - intros t d Hn. destruct k; inversion Hn.
  - assert (Hrec : forall l', scan single call i tb ts (S j) = (Continue, l') ->
        (forall d, dispatch_of t0 = DCall d -> accepted d (lookup tb i j) = None) -> unacc tb i (t0 :: ts) j k).
    { intros l' Hs H0. destruct k as [|k].
      - intros t' d' Hn' Hd'. cbn in Hn'. inversion Hn'; subst. rewrite Nat.add_0_r. auto.
      - apply unacc_shift. eapply IH; eauto. }
    destruct (dispatch_of t0) as [d| |] eqn:Ed.
    + destruct (accepted d (lookup tb i j)) as [p|] eqn:Ea; [inversion H|].
      assert (H0 : forall d', DCall d = DCall d' -> accepted d' (lookup tb i j) = None) by (intros d' E; inversion E; subst; exact Ea).
      destruct (lookup tb i j) eqn:El;
        try solve [destruct (scan single call i tb ts (S j)) as [r' l'] eqn:Es; inversion H; subst; eapply Hrec; eauto];
        try (inversion H; fail).
      destruct single; [inversion H|].
      destruct (scan false call i tb ts (S j)) as [r' l'] eqn:Es; inversion H; subst; eapply Hrec; eauto.
    + inversion H.
    + destruct single; [inversion H|]. eapply Hrec; eauto. intros d E; inversion E.
Qed.

(* ------------------------------------------------------------------ the iteration loop *)
Lemma iterate_log single nonempty call tb ts : forall n i r l,
  iterate single nonempty call tb ts n i = (r, l) ->
  r <> Hang /\ exists l0, forallb sense_ev l0 = true /\ l = l0 ++ out_tail r.
Proof.
  induction n as [|n IH]; intros i r l H; cbn in H.
  - inversion H; subst. split; [discriminate|]. exists []. split; reflexivity.
  - destruct (scan single call i tb ts 0) as [sr sl] eqn:Es.
    destruct (scan_log _ _ _ _ _ _ _ _ Es) as (s0 & Hs0 & ->).
    destruct sr as [|t|e].
    + destruct (iterate single nonempty call tb ts n (S i)) as [r' l'] eqn:Ei. inversion H; subst.
      destruct (IH _ _ _ Ei) as (Hh & l0 & H0 & ->). split; [exact Hh|].
      exists (s0 ++ (if nonempty then [EvMute] else []) ++ l0). split.
      * rewrite !forallb_app, Hs0, H0. destruct nonempty; reflexivity.
      * cbn [scan_tail]. rewrite app_nil_r, !app_assoc. reflexivity.
    + inversion H; subst. split; [discriminate|]. exists s0. split; [exact Hs0|]. cbn. reflexivity.
    + inversion H; subst. split; [discriminate|]. exists s0. split; [exact Hs0|]. reflexivity.
Qed.

Lemma iterate_no_unsupported nonempty call tb ts : forall n i r l,
  iterate false nonempty call tb ts n i = (r, l) -> r <> Raise XUnsupported.
Proof.
  induction n as [|n IH]; intros i r l H; cbn in H.
  - inversion H; discriminate.
  - destruct (scan false call i tb ts 0) as [sr sl] eqn:Es. destruct sr as [|t|e].
    + destruct (iterate false nonempty call tb ts n (S i)) as [r' l'] eqn:Ei. inversion H; subst. eapply IH; eauto.
    + inversion H; discriminate.
    + inversion H; subst. intro E. inversion E; subst. eapply scan_no_unsupported; eauto.
Qed.

Lemma iterate_found single nonempty call tb ts : forall n i0 t l,
  iterate single nonempty call tb ts n i0 = (Ret (Some t), l) ->
  exists i j tj d p, i0 <= i < i0 + n /\ nth_error ts j = Some tj /\ dispatch_of tj = DCall d /\
    accepted d (lookup tb i j) = Some p /\ t = RemoteT call i j p /\
    (forall j', j' < j -> unacc tb i ts 0 j') /\
    (forall i' j', i0 <= i' < i -> unacc tb i' ts 0 j').
Proof.
  induction n as [|n IH]; intros i0 t l H; cbn in H.
  - inversion H.
  - destruct (scan single call i0 tb ts 0) as [sr sl] eqn:Es. destruct sr as [|t'|e].
    + destruct (iterate single nonempty call tb ts n (S i0)) as [r' l'] eqn:Ei. inversion H; subst.
      destruct (IH _ _ _ Ei) as (i & j & tj & d & p & Hi & Hn & Hd & Ha & Ht & Hb & Hc).
      exists i, j, tj, d, p. repeat split; auto; try lia.
      intros i' j' Hi'. destruct (Nat.eq_dec i' i0) as [->|Hne].
      * eapply scan_continue; eauto.
      * apply Hc. lia.
    + inversion H; subst. destruct (scan_found _ _ _ _ _ _ _ _ Es) as (k & tk & d & p & Hn & Hd & Ha & Ht & Hb).
      exists i0, k, tk, d, p. cbn in Ha, Ht. repeat split; auto; try lia.
    + inversion H.
Qed.

Lemma iterate_none single nonempty call tb ts : forall n i0 l,
  iterate single nonempty call tb ts n i0 = (Ret None, l) ->
  forall i j, i0 <= i < i0 + n -> unacc tb i ts 0 j.
Proof.
  induction n as [|n IH]; intros i0 l H i j Hi; cbn in H.
  - lia.
  - destruct (scan single call i0 tb ts 0) as [sr sl] eqn:Es. destruct sr as [|t'|e].
    + destruct (iterate single nonempty call tb ts n (S i0)) as [r' l'] eqn:Ei. inversion H; subst.
      destruct (Nat.eq_dec i i0) as [->|Hne].
      * eapply scan_continue; eauto.
      * eapply IH; eauto. lia.
    + inversion H.
    + inversion H.
Qed.

(* when nothing was found the log of the iterations is empty (no targets) or ends with mute() *)
Lemma iterate_none_mute single call tb ts : forall n i0 l,
  iterate single true call tb ts n i0 = (Ret None, l) -> n = 0 \/ exists l', l = l' ++ [EvMute].
Proof.
  induction n as [|n IH]; intros i0 l H; cbn in H.
  - left; reflexivity.
  - right. destruct (scan single call i0 tb ts 0) as [sr sl] eqn:Es. destruct sr as [|t'|e]; try (inversion H; fail).
    destruct (iterate single true call tb ts n (S i0)) as [r' l'] eqn:Ei. inversion H; subst.
    destruct (IH _ _ Ei) as [->|(l'' & ->)].
    + cbn in Ei. inversion Ei; subst. exists sl. reflexivity.
    + exists (sl ++ EvMute :: l''). rewrite <- app_assoc. reflexivity.
Qed.

Lemma iterate_empty single call tb : forall n i0,
  iterate single false call tb [] n i0 = (Ret None, []).
Proof. induction n as [|n IH]; intro i0; cbn; [reflexivity|]. rewrite IH. reflexivity. Qed.

Lemma niter_pos iters : 1 <= niter iters.
Proof. unfold niter. lia. Qed.

(* ------------------------------------------------------------------ sense() *)
Lemma is_single_false ts : length ts <> 1 -> is_single ts = false.
Proof. destruct ts as [|a [|b ts]]; cbn; intros; try reflexivity; lia. Qed.

Theorem sense_no_unsupported_multi_proof : forall dev call ts iters tb stored,
  length ts <> 1 -> fst (fst (sense dev call ts iters tb stored)) <> Raise XUnsupported.
Proof.
  intros dev call ts iters tb stored Hn. unfold sense.
  destruct (negb (forallb is_remote ts)); [cbn; discriminate|].
  destruct (negb dev); [cbn; discriminate|].
  rewrite (is_single_false _ Hn).
  destruct (iterate false (is_nonempty ts) call tb ts (niter iters) 0) as [r l] eqn:Ei. cbn.
  eapply iterate_no_unsupported; eauto.
Qed.

(* position (i, j) gave no acceptable answer *)
Definition no_answer (tb : table) (ts : list tspec) (i j : nat) : Prop :=
  forall t d, nth_error ts j = Some t -> dispatch_of t = DCall d -> accepted d (lookup tb i j) = None.

Theorem sense_first_in_order_proof : forall call ts iters tb stored t l s',
  sense true call ts iters tb stored = (Ret (Some t), l, s') ->
  exists i j tj d p,
    t = RemoteT call i j p /\ i < niter iters /\ nth_error ts j = Some tj /\ dispatch_of tj = DCall d /\
    accepted d (lookup tb i j) = Some p /\
    (forall i' j', i' < i \/ (i' = i /\ j' < j) -> no_answer tb ts i' j') /\
    s' = Some t.
Proof.
  intros call ts iters tb stored t l s' H. unfold sense in H.
  destruct (negb (forallb is_remote ts)); [inversion H|]. cbn [negb] in H.
  destruct (iterate (is_single ts) (is_nonempty ts) call tb ts (niter iters) 0) as [r l0] eqn:Ei.
  inversion H; subst. clear H.
  destruct (iterate_found _ _ _ _ _ _ _ _ _ Ei) as (i & j & tj & d & p & Hi & Hn & Hd & Ha & Ht & Hb & Hc).
  exists i, j, tj, d, p. repeat split; auto; try lia.
  intros i' j' [Hlt|[-> Hlt]] t' d' Hn' Hd'.
  - exact (Hc i' j' ltac:(lia) t' d' Hn' Hd').
  - exact (Hb j' Hlt t' d' Hn' Hd').
Qed.

Theorem sense_none_complete_proof : forall call ts iters tb stored l s',
  sense true call ts iters tb stored = (Ret None, l, s') ->
  (forall i j, i < niter iters -> no_answer tb ts i j) /\ s' = None.
Proof.
  intros call ts iters tb stored l s' H. unfold sense in H.
  destruct (negb (forallb is_remote ts)); [inversion H|]. cbn [negb] in H.
  destruct (iterate (is_single ts) (is_nonempty ts) call tb ts (niter iters) 0) as [r l0] eqn:Ei.
  inversion H; subst. clear H. split; [|reflexivity].
  intros i j Hi t d Hn Hd. exact (iterate_none _ _ _ _ _ _ _ _ Ei i j ltac:(lia) t d Hn Hd).
Qed.

Theorem sense_field_off_when_none_proof : forall call ts iters tb stored l s',
  sense true call ts iters tb stored = (Ret None, l, s') ->
  exists l', l = l' ++ [EvMute].
Proof.
  intros call ts iters tb stored l s' H. unfold sense in H.
  destruct (negb (forallb is_remote ts)); [inversion H|]. cbn [negb] in H.
  destruct ts as [|t0 ts].
  - cbn [is_nonempty is_single] in H. rewrite iterate_empty in H. inversion H; subst. exists []. reflexivity.
  - cbn [is_nonempty] in H.
    destruct (iterate (is_single (t0 :: ts)) true call tb (t0 :: ts) (niter iters) 0) as [r l0] eqn:Ei.
    inversion H; subst. clear H.
    destruct (iterate_none_mute _ _ _ _ _ _ _ Ei) as [H0|(l' & ->)].
    + pose proof (niter_pos iters). lia.
    + exists (EvMute :: l'). reflexivity.
Qed.

(* the log of every sense call: mute() first, then only mute / sense_xxx driver calls *)
Lemma sense_log : forall dev call ts iters tb stored r l s',
  sense dev call ts iters tb stored = (r, l, s') ->
  r <> Hang /\ exists l0, forallb sense_ev l0 = true /\ l = l0 ++ out_tail r.
Proof.
  intros dev call ts iters tb stored r l s' H. unfold sense in H.
  destruct (negb (forallb is_remote ts)).
  { inversion H; subst. split; [discriminate|]. exists []. split; reflexivity. }
  destruct (negb dev).
  { inversion H; subst. split; [discriminate|]. exists []. split; reflexivity. }
  destruct (iterate (is_single ts) (is_nonempty ts) call tb ts (niter iters) 0) as [r0 l0] eqn:Ei.
  inversion H; subst. destruct (iterate_log _ _ _ _ _ _ _ _ _ Ei) as (Hh & l1 & H1 & ->).
  split; [exact Hh|]. exists (EvMute :: l1). split; [cbn; exact H1 | reflexivity].
Qed.

(* ------------------------------------------------------------------ target freshness over histories *)
Definition touched (l : list ev) : bool := existsb (fun e => match e with EvMute => true | _ => false end) l.

(* what the latest sense / listen that reached the device left behind *)
Fixpoint latest_from (init : option tid) (rs : list opres) : option tid :=
  match rs with
  | [] => init
  | ResTarget r l _ :: rest =>
    latest_from (if touched l then match r with Ret (Some t) => Some t | _ => None end else init) rest
  | ResData _ _ _ :: rest => latest_from init rest
  end.

Lemma touched_app l1 l2 : touched (l1 ++ l2) = touched l1 || touched l2.
Proof. unfold touched. apply existsb_app. Qed.

Lemma sense_stored : forall dev call ts iters tb stored r l s',
  sense dev call ts iters tb stored = (r, l, s') ->
  s' = if touched l then match r with Ret (Some t) => Some t | _ => None end else stored.
Proof.
  intros dev call ts iters tb stored r l s' H. unfold sense in H.
  destruct (negb (forallb is_remote ts)); [inversion H; subst; reflexivity|].
  destruct (negb dev); [inversion H; subst; reflexivity|].
  destruct (iterate (is_single ts) (is_nonempty ts) call tb ts (niter iters) 0) as [r0 l0] eqn:Ei.
  inversion H; subst. reflexivity.
Qed.

Lemma listen_stored : forall dev n t o stored r l s',
  listen dev n t o stored = (r, l, s') ->
  s' = if touched l then match r with Ret (Some t) => Some t | _ => None end else stored.
Proof.
  intros dev n t o stored r l s' H. unfold listen in H.
  destruct t; try (inversion H; subst; reflexivity);
    (destruct (negb dev); [inversion H; subst; reflexivity|]); cbn [listen_drv] in H;
    try (inversion H; subst; reflexivity);
    destruct o; inversion H; subst; reflexivity.
Qed.

Definition exchange_uses (expected : option tid) (r : out (option unit)) (l : list ev) : Prop :=
  match expected with
  | Some (RemoteT c i j p) => r = Ret (Some tt) /\ l = [EvCmdTo (RemoteT c i j p)]
  | Some (LocalT n) => r = Ret (Some tt) /\ l = [EvRspTo (LocalT n)]
  | None => r = Ret None /\ l = []
  end.

Lemma exchange_spec stored : let '(r, l) := exchange true stored in exchange_uses stored r l.
Proof. destruct stored as [[c i j p|n]|]; cbn; auto. Qed.

Lemma history_fresh : forall ops h pre r l s post,
  run_history true h ops = pre ++ ResData r l s :: post ->
  exchange_uses (latest_from (h_stored h) pre) r l.
Proof.
  induction ops as [|o ops IH]; intros h pre r l s post H; cbn in H.
  - destruct pre; inversion H.
  - destruct (step true h o) as [x h'] eqn:Es.
    destruct pre as [|p pre]; cbn in H; inversion H; subst; clear H.
    + (* this op is the exchange *)
      destruct o; cbn [step] in Es.
      * destruct (sense true (h_nsense h) ts iters tb (h_stored h)) as [[? ?] ?]. inversion Es.
      * destruct (listen true (S (h_nlisten h)) t o (h_stored h)) as [[? ?] ?]. inversion Es.
      * pose proof (exchange_spec (h_stored h)) as Hx.
        destruct (exchange true (h_stored h)) as [r' l']. inversion Es; subst. exact Hx.
    + apply IH in H2. destruct o; cbn [step] in Es.
      * destruct (sense true (h_nsense h) ts iters tb (h_stored h)) as [[r' l'] s'] eqn:E. inversion Es; subst.
        cbn [latest_from h_stored] in *. rewrite <- (sense_stored _ _ _ _ _ _ _ _ _ E). exact H2.
      * destruct (listen true (S (h_nlisten h)) t o (h_stored h)) as [[r' l'] s'] eqn:E. inversion Es; subst.
        cbn [latest_from h_stored] in *. rewrite <- (listen_stored _ _ _ _ _ _ _ _ E). exact H2.
      * destruct (exchange true (h_stored h)) as [r' l']. inversion Es; subst. cbn [latest_from]. exact H2.
Qed.

Theorem target_fresh_proof : forall ops pre r l s post,
  run_history true h0 ops = pre ++ ResData r l s :: post ->
  exchange_uses (latest_from None pre) r l.
Proof. intros. eapply (history_fresh ops h0); eauto. Qed.

(* after a sense/listen that reached the device, the stored target is its result or None *)
Theorem stored_after_sense : forall dev call ts iters tb stored r l s',
  sense dev call ts iters tb stored = (r, l, s') -> touched l = true ->
  s' = match r with Ret (Some t) => Some t | _ => None end.
Proof. intros. rewrite (sense_stored _ _ _ _ _ _ _ _ _ H), H0. reflexivity. Qed.
