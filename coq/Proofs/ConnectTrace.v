(* C18 - connect(): the contract theorems, derived from the structure of the trace
   (Proofs/Connect.v: connect_struct, mrounds, block_ok).  For ALL options, oracle states, fuel. *)
From Coq Require Import ZArith List Bool Arith Lia.
From NV Require Import Model.Connect Proofs.ConnectSense Proofs.Connect.
Import ListNotations.

(* ------------------------------------------------------------------ measures of the fixed pieces *)
Lemma term_log_scan has v : spec_scan (term_log has v) = None.
Proof. destruct has; reflexivity. Qed.
Lemma term_log_cbs has v : cbs (term_log has v) = [].
Proof. destruct has; reflexivity. Qed.
Lemma term_log_stops has v seen : stops_b seen (term_log has v) = true.
Proof. destruct has; cbn; [rewrite andb_false_r|]; reflexivity. Qed.
Lemma term_log_false has : has_term_true (term_log has false) = false.
Proof. destruct has; reflexivity. Qed.

Lemma opt_startup_facts b l : opt_startup b l ->
  spec_scan l = None /\ (forall seen, stops_b seen l = true) /\ has_term_true l = false /\
  held_after None (cbs l) = Some None /\ (cbs l = [] \/ cbs l = [CStartup b]).
Proof. intros [->|(u & ->)]; cbn; repeat split; auto; intros; rewrite ?andb_false_r; reflexivity. Qed.

Lemma startup_facts pre : startup_shape pre ->
  spec_scan pre = None /\ (forall seen, stops_b seen pre = true) /\ has_term_true pre = false /\
  held_after None (cbs pre) = Some None.
Proof.
  intros (x & y & z & -> & Hx & Hy & Hz).
  destruct (opt_startup_facts _ _ Hx) as (x1 & x2 & x3 & x4 & _).
  destruct (opt_startup_facts _ _ Hy) as (y1 & y2 & y3 & y4 & _).
  destruct (opt_startup_facts _ _ Hz) as (z1 & z2 & z3 & z4 & _).
  repeat split.
  - rewrite !spec_scan_app, x1, y1, z1. reflexivity.
  - intro seen. rewrite !stops_app, x2, y2, z2. reflexivity.
  - rewrite !has_term_app, x3, y3, z3. reflexivity.
  - rewrite !cbs_app. rewrite held_after_app, x4. cbv beta iota. rewrite held_after_app, y4. exact z4.
Qed.

Lemma final_not_hang r : final r <> Hang -> r <> BHang.
Proof. destruct r; cbn; congruence. Qed.
Lemma handle_not_hang e : handle e <> Hang.
Proof. destruct e; cbn; discriminate. Qed.
Lemma res_of_final r : is_fin r = true -> res_of r = Some (final r).
Proof. destruct r; cbn; try discriminate; reflexivity. Qed.

(* ------------------------------------------------------------------ connect_result *)
Lemma mrounds_result has r l : mrounds has r l -> r <> Hang -> spec_result l = r.
Proof.
  unfold spec_result. induction 1; intro Hnh.
  - congruence.
  - reflexivity.
  - rewrite !spec_scan_app, term_log_scan, (bo_scan _ _ _ H), (bo_scan _ _ _ H0), (bo_scan _ _ _ H1). cbn [res_of]. auto.
  - pose proof (H0 (final_not_hang _ Hnh)) as B. rewrite spec_scan_app, term_log_scan, (bo_scan _ _ _ B), (res_of_final _ H). reflexivity.
  - pose proof (H1 (final_not_hang _ Hnh)) as B.
    rewrite !spec_scan_app, term_log_scan, (bo_scan _ _ _ H0), (bo_scan _ _ _ B), (res_of_final _ H). reflexivity.
  - pose proof (H2 (final_not_hang _ Hnh)) as B.
    rewrite !spec_scan_app, term_log_scan, (bo_scan _ _ _ H0), (bo_scan _ _ _ H1), (bo_scan _ _ _ B), (res_of_final _ H). reflexivity.
Qed.

Theorem connect_result_proof : forall o fuel inner s r l s',
  connect true o fuel inner s = (r, l, s') -> r <> Hang -> r = spec_result l.
Proof.
  intros o fuel inner s r l s' H Hnh. destruct (connect_struct _ _ _ _ _ _ _ H) as (pre & body & -> & Hs & Hb).
  destruct (startup_facts _ Hs) as (Hscan & _). unfold spec_result. rewrite spec_scan_app, Hscan.
  destruct Hb as [[-> ->]|[[-> ->]|Hm]]; try reflexivity.
  symmetry. exact (mrounds_result _ _ _ Hm Hnh).
Qed.

(* ------------------------------------------------------------------ release_iff_connect_true *)
(* the callbacks are balanced (every on-connect(true) got its on-release, no other on-release), or the
   last on-connect(true) was left pending by an exception in the hold phase and connect() returned False *)
Definition release_ok (r : out rv) (x : option (option blk)) : Prop :=
  x = Some None \/ ((exists b, x = Some (Some b)) /\ r = Ret RFalse).

Lemma held_ok_none x : held_ok BNone x = true -> x = Some None.
Proof. destruct x as [[b|]|]; cbn; congruence. Qed.
Lemma held_ok_cases r x : held_ok r x = true -> release_ok (final r) x.
Proof.
  destruct x as [[b|]|]; cbn; intro H; [|left; reflexivity|discriminate].
  right. split; [eauto|]. destruct r; try discriminate. destruct e; try discriminate; reflexivity.
Qed.

Lemma held_startups_none l1 l2 : held_after None (cbs l1) = Some None ->
  held_after None (cbs (l1 ++ l2)) = held_after None (cbs l2).
Proof. intro H. rewrite cbs_app, held_after_app, H. reflexivity. Qed.
Lemma held_term_log has l : held_after None (cbs (term_log has false ++ l)) = held_after None (cbs l).
Proof. apply held_startups_none. rewrite term_log_cbs. reflexivity. Qed.
Lemma held_block_none b s l : block_ok b BNone s -> held_after None (cbs (s ++ l)) = held_after None (cbs l).
Proof. intro B. apply held_startups_none. apply held_ok_none. exact (bo_held _ _ _ B). Qed.

Lemma mrounds_held has r l : mrounds has r l -> r <> Hang -> release_ok r (held_after None (cbs l)).
Proof.
  induction 1; intro Hnh.
  - congruence.
  - left; reflexivity.
  - rewrite held_term_log, (held_block_none _ _ _ H), (held_block_none _ _ _ H0), (held_block_none _ _ _ H1). auto.
  - pose proof (H0 (final_not_hang _ Hnh)) as B. rewrite held_term_log. exact (held_ok_cases _ _ (bo_held _ _ _ B)).
  - pose proof (H1 (final_not_hang _ Hnh)) as B. rewrite held_term_log, (held_block_none _ _ _ H0).
    exact (held_ok_cases _ _ (bo_held _ _ _ B)).
  - pose proof (H2 (final_not_hang _ Hnh)) as B.
    rewrite held_term_log, (held_block_none _ _ _ H0), (held_block_none _ _ _ H1). exact (held_ok_cases _ _ (bo_held _ _ _ B)).
Qed.

Theorem release_iff_connect_true_proof : forall o fuel inner s r l s',
  connect true o fuel inner s = (r, l, s') -> r <> Hang -> release_ok r (held_after None (cbs l)).
Proof.
  intros o fuel inner s r l s' H Hnh. destruct (connect_struct _ _ _ _ _ _ _ H) as (pre & body & -> & Hs & Hb).
  destruct (startup_facts _ Hs) as (_ & _ & _ & Hh). rewrite (held_startups_none _ _ Hh).
  destruct Hb as [[-> ->]|[[-> ->]|Hm]]; try (left; reflexivity).
  exact (mrounds_held _ _ _ Hm Hnh).
Qed.

(* counting form: as many on-release calls as on-connect calls that returned a true value
   (one less when an exception ended the hold phase) *)
Definition n_connect_true (l : list cev) : nat :=
  length (filter (fun c => match c with CConnect _ v => truthy v | _ => false end) l).
Definition n_release (l : list cev) : nat :=
  length (filter (fun c => match c with CRelease _ _ => true | _ => false end) l).
Definition held_n (h : option blk) : nat := match h with Some _ => 1 | None => 0 end.

Lemma held_after_count : forall l h h', held_after h l = Some h' ->
  n_connect_true l + held_n h = n_release l + held_n h'.
Proof.
  induction l as [|c l IH]; intros h h' H; cbn in H.
  - inversion H; subst. reflexivity.
  - destruct c; destruct h as [hb|]; try discriminate.
    + apply IH in H. exact H.
    + apply IH in H. exact H.
    + apply IH in H. unfold n_connect_true, n_release in *. cbn [filter]. destruct (truthy v); cbn [length held_n] in *; lia.
    + destruct (blk_eqb b hb); [|discriminate]. apply IH in H. unfold n_connect_true, n_release in *. cbn [filter length held_n] in *. lia.
Qed.

Theorem release_count_proof : forall o fuel inner s r l s',
  connect true o fuel inner s = (r, l, s') -> r <> Hang ->
  n_release (cbs l) = n_connect_true (cbs l) \/ (r = Ret RFalse /\ S (n_release (cbs l)) = n_connect_true (cbs l)).
Proof.
  intros o fuel inner s r l s' H Hnh.
  destruct (release_iff_connect_true_proof _ _ _ _ _ _ _ H Hnh) as [E|[[b E] Hr]];
    pose proof (held_after_count _ _ _ E) as C; cbn in C; [left | right; split; [exact Hr|]]; lia.
Qed.

(* ------------------------------------------------------------------ connect_stops *)
Lemma stops_app_nt l1 l2 : has_term_true l1 = false -> stops_b false l1 = true -> stops_b false (l1 ++ l2) = stops_b false l2.
Proof. intros H1 H2. rewrite stops_app, H1, H2. reflexivity. Qed.
Lemma stops_term_log has l : stops_b false (term_log has false ++ l) = stops_b false l.
Proof. apply stops_app_nt; [apply term_log_false | apply term_log_stops]. Qed.
Lemma stops_block_none b s l : block_ok b BNone s -> stops_b false (s ++ l) = stops_b false l.
Proof. intro B. apply stops_app_nt; [exact (bo_noterm _ _ _ B eq_refl) | exact (bo_stops _ _ _ B)]. Qed.

Lemma mrounds_stops has r l : mrounds has r l -> r <> Hang -> stops_b false l = true.
Proof.
  induction 1; intro Hnh.
  - reflexivity.
  - reflexivity.
  - rewrite stops_term_log, (stops_block_none _ _ _ H), (stops_block_none _ _ _ H0), (stops_block_none _ _ _ H1). auto.
  - pose proof (H0 (final_not_hang _ Hnh)) as B. rewrite stops_term_log. exact (bo_stops _ _ _ B).
  - pose proof (H1 (final_not_hang _ Hnh)) as B. rewrite stops_term_log, (stops_block_none _ _ _ H0). exact (bo_stops _ _ _ B).
  - pose proof (H2 (final_not_hang _ Hnh)) as B.
    rewrite stops_term_log, (stops_block_none _ _ _ H0), (stops_block_none _ _ _ H1). exact (bo_stops _ _ _ B).
Qed.

Lemma stops_true_quiet : forall l, stops_b true l = true -> forallb quiet l = true.
Proof.
  induction l as [|e l IH]; cbn; [reflexivity|]. unfold quiet at 1. destruct (starts e); cbn; [discriminate|]. exact IH.
Qed.

Lemma stops_split : forall pre seen post, stops_b seen (pre ++ EvTerm true :: post) = true -> forallb quiet post = true.
Proof.
  intros pre seen post H. rewrite stops_app in H. apply andb_true_iff in H. destruct H as [_ H].
  cbn in H. rewrite andb_false_r, orb_true_r in H. apply stops_true_quiet, H.
Qed.

Theorem connect_stops_proof : forall o fuel inner s r l s',
  connect true o fuel inner s = (r, l, s') -> r <> Hang ->
  forall before after, l = before ++ EvTerm true :: after -> forallb quiet after = true.
Proof.
  intros o fuel inner s r l s' H Hnh before after E.
  assert (Hs : stops_b false l = true).
  { destruct (connect_struct _ _ _ _ _ _ _ H) as (pre & body & -> & Hs & Hb).
    destruct (startup_facts _ Hs) as (_ & Hst & Hnt & _). rewrite stops_app, Hst, Hnt.
    destruct Hb as [[-> ->]|[[-> ->]|Hm]]; try reflexivity. exact (mrounds_stops _ _ _ Hm Hnh). }
  rewrite E in Hs. eapply stops_split; eauto.
Qed.

(* ------------------------------------------------------------------ connect_trace_shape *)
(* a block segment: only events of that block, callbacks in the pattern discover, connect, release *)
Definition seg (b : blk) (l : list ev) (fin : bool) : Prop :=
  forallb (owned b) l = true /\ seg_cbs b (cbs l) fin = true.

(* rounds of the main loop: terminate() poll, then the rdwr, llcp and card segments in this order;
   a segment that ends connect() is the last thing in the trace *)
Inductive rounds (has : bool) : list ev -> Prop :=
| RStop : rounds has [EvTerm true]
| RRound : forall s1 s2 s3 rest, seg Rdwr s1 false -> seg Llcp s2 false -> seg Card s3 false -> rounds has rest ->
    rounds has (term_log has false ++ s1 ++ s2 ++ s3 ++ rest)
| RFin1 : forall s1, seg Rdwr s1 true -> rounds has (term_log has false ++ s1)
| RFin2 : forall s1 s2, seg Rdwr s1 false -> seg Llcp s2 true -> rounds has (term_log has false ++ s1 ++ s2)
| RFin3 : forall s1 s2 s3, seg Rdwr s1 false -> seg Llcp s2 false -> seg Card s3 true ->
    rounds has (term_log has false ++ s1 ++ s2 ++ s3).

Lemma block_seg b r l : block_ok b r l -> seg b l (is_fin r).
Proof. intros [o c _ _ _ _]. split; assumption. Qed.

Lemma mrounds_rounds has r l : mrounds has r l -> r <> Hang -> rounds has l.
Proof.
  induction 1; intro Hnh.
  - congruence.
  - constructor.
  - apply RRound; auto; [exact (block_seg _ _ _ H) | exact (block_seg _ _ _ H0) | exact (block_seg _ _ _ H1)].
  - pose proof (block_seg _ _ _ (H0 (final_not_hang _ Hnh))) as B. rewrite H in B. apply RFin1; auto.
  - pose proof (block_seg _ _ _ (H1 (final_not_hang _ Hnh))) as B. rewrite H in B. apply RFin2; auto. exact (block_seg _ _ _ H0).
  - pose proof (block_seg _ _ _ (H2 (final_not_hang _ Hnh))) as B. rewrite H in B.
    apply RFin3; auto; [exact (block_seg _ _ _ H0) | exact (block_seg _ _ _ H1)].
Qed.

Theorem connect_trace_shape_proof : forall o fuel inner s r l s',
  connect true o fuel inner s = (r, l, s') -> r <> Hang ->
  exists pre body, l = pre ++ body /\ startup_shape pre /\
    (body = [EvRaise XTypeError] \/ body = [] \/ rounds (o_term o) body).
Proof.
  intros o fuel inner s r l s' H Hnh. destruct (connect_struct _ _ _ _ _ _ _ H) as (pre & body & -> & Hs & Hb).
  exists pre, body. repeat split; auto.
  destruct Hb as [[_ ->]|[[_ ->]|Hm]]; auto. right; right. exact (mrounds_rounds _ _ _ Hm Hnh).
Qed.
