(* C17 - the property theorems, over every operation sequence (exec ops) via the invariant. *)
From Coq Require Import ZArith List Bool Lia ZifyBool.
From NV Require Import Base.Result Base.Bytes Base.PyPrims Model.Addr Proofs.Addr Proofs.AddrInv Proofs.AddrStep.
Import ListNotations.
Open Scope Z_scope.

(* ================================================================ abstract view *)
(* the abstract address table: addr -> sockets bound there, name -> addr *)
Definition bound_set (c : ctl) (a : Z) : list nat := socks_of (sap_get c a).
Definition name_addr (c : ctl) (n : name) : option Z := lookup (c_snl c) n.
(* least free address of [lo, hi) / no free address there *)
Definition least_free (c : ctl) (lo hi a : Z) : Prop :=
  lo <= a < hi /\ bound_set c a = [] /\ forall b, lo <= b < a -> bound_set c b <> [].
Definition none_free (c : ctl) (lo hi : Z) : Prop := forall b, lo <= b < hi -> bound_set c b <> [].
(* socket i is (after the call) the only socket of SAP a and reports a *)
Definition bound_alone (c' : ctl) (i : nat) (a : Z) : Prop :=
  bound_set c' a = [i] /\ exists s', get_sock c' i = Some s' /\ s_addr s' = Some a.

Lemma free_abs c a : wf c -> 2 <= a < 64 -> (is_free c a = true <-> bound_set c a = []).
Proof.
  intros W R. unfold bound_set. split.
  - intro F. apply is_free_iff in F. rewrite F. reflexivity.
  - intro E. unfold is_free. destruct (sap_get c a) as [| |l sl] eqn:SG; auto.
    + exfalso. eapply (wf_nosd _ W a); eauto. lia.
    + cbn in E. subst l. exfalso. eapply (wf_nonempty _ W a); eauto. lia.
Qed.
Lemma notfree_abs c a : wf c -> 2 <= a < 64 -> (is_free c a = false <-> bound_set c a <> []).
Proof. intros W R. rewrite <- (free_abs c a W R). destruct (is_free c a); split; congruence. Qed.

(* free = no socket that is bound there and still open *)
Lemma free_no_open_socket c a : wf c -> 2 <= a < 64 -> bound_set c a = [] ->
  forall i s, get_sock c i = Some s -> s_addr s = Some a -> s_state s = StShutdown.
Proof.
  intros W R E i s G A. destruct (s_state s) eqn:St; auto; exfalso;
    (assert (L : listed c a i) by (eapply (wf_open_listed _ W); eauto; congruence));
    unfold listed in L; unfold bound_set in E; rewrite E in L; destruct L.
Qed.

(* ================================================================ bind_unique *)
Theorem bind_unique_state blk ops sd :
  let c := get_side (exec blk ops) sd in
  (forall a b i, In i (bound_set c a) -> In i (bound_set c b) -> a = b) /\
  (forall a, NoDup (bound_set c a)) /\
  (forall a i, In i (bound_set c a) -> exists s, get_sock c i = Some s /\ s_addr s = Some a) /\
  (forall i s a, get_sock c i = Some s -> s_addr s = Some a -> s_state s <> StShutdown -> In i (bound_set c a)) /\
  (forall n1 n2 a, 2 <= a -> name_addr c n1 = Some a -> name_addr c n2 = Some a -> n1 = n2) /\
  (forall n a, name_addr c n = Some a -> 2 <= a -> bound_set c a <> []).
Proof.
  intro c. assert (W : wf c) by (apply wf2_side, exec_wf2).
  repeat split.
  - intros a b i La Lb. destruct (wf_listed_addr _ W a i La) as (s & G & A).
    destruct (wf_listed_addr _ W b i Lb) as (s' & G' & A'). congruence.
  - apply (wf_nodup _ W).
  - apply (wf_listed_addr _ W).
  - apply (wf_open_listed _ W).
  - apply (wf_snl_inj _ W).
  - intros n a L Ha. destruct (wf_snl_val _ W n a L) as [[_ ->]|(_ & _ & F & K)]; [lia|].
    apply notfree_abs; auto. destruct K as [K|[_ K]]; [destruct (wks_cases _ _ K); lia | lia].
Qed.

Lemma step_addr st o sd : wf2 st -> addr_step (get_side st sd) (get_side (fst (step st o)) sd).
Proof.
  intro W. destruct o as [sd' lo|from a miu]; cbn [step].
  - destruct (lstep (get_side st sd') lo) as [c' r] eqn:L. cbn.
    destruct sd, sd'; cbn; try (apply same_step, same_refl);
      change c' with (fst (c', r)); rewrite <- L; apply lstep_good; apply (wf2_side st _ W).
  - destruct (collect1 (get_side st from) a miu) as [[p c1]|] eqn:C; [|apply same_step, same_refl].
    pose proof (collect1_good _ _ _ _ _ (wf2_side st from W) C) as [W1 S1].
    assert (W2 : wf2 (set_side st from c1)) by (apply wf2_set; auto).
    destruct (dispatch (get_side (set_side st from c1) (other from)) p) as [c2 r] eqn:D. cbn.
    pose proof (dispatch_good _ p (wf2_side _ (other from) W2)) as [W3 S3]. rewrite D in S3. cbn in S3.
    apply same_step. destruct sd, from; cbn in *; auto.
Qed.

(* an address is handed out only while free, and a socket never changes its address *)
Theorem bind_unique_step blk ops o sd :
  let c := get_side (exec blk ops) sd in
  let c' := get_side (exec blk (ops ++ [o])) sd in
  forall j sj, get_sock c j = Some sj -> exists sj', get_sock c' j = Some sj' /\
    (s_addr sj' = s_addr sj \/
     (s_addr sj = None /\ exists a, s_addr sj' = Some a /\ 2 <= a < 64 /\ bound_set c a = [])).
Proof.
  intros c c' j sj G. unfold c'. rewrite exec_app.
  destruct (step_addr (exec blk ops) o sd (exec_wf2 blk ops) j sj G) as (sj' & G' & _ & H).
  exists sj'. split; auto. destruct H as [H|(N & a & A & F)]; auto. right. split; auto. exists a. split; auto.
  assert (W' : wf (get_side (fst (step (exec blk ops) o)) sd)) by (apply wf2_side, step_wf2, exec_wf2).
  pose proof (wf_addr_range _ W' j sj' a G' A) as R. split; auto.
  apply free_abs; auto. apply wf2_side, exec_wf2.
Qed.

(* ================================================================ bind_ranges *)
Definition documented (e : Z) : Prop := e = EADDRINUSE \/ e = EACCES \/ e = EFAULT \/ e = EAGAIN.

Lemma place_bound_alone c i s0 s a : wf c -> get_sock c i = Some s0 -> 2 <= a < 64 -> bound_alone (place c i s a) i a.
Proof.
  intros W G R. split.
  - unfold bound_set, place. rewrite sap_get_set_same; auto; [rewrite put_sock_sap; apply W | lia].
  - exists (set_addr s (Some a)). split; auto. eapply place_get_self; eauto.
Qed.

Lemma range_free c lo hi a : wf c -> 2 <= lo -> hi <= 64 ->
  lo <= a < hi /\ is_free c a = true /\ (forall b, lo <= b < a -> is_free c b = false) -> least_free c lo hi a.
Proof. intros W L H (R & F & B). split; auto. split; [apply free_abs; auto; lia|].
  intros b Hb. apply notfree_abs; auto; lia. Qed.
Lemma range_none c lo hi : wf c -> 2 <= lo -> hi <= 64 ->
  (forall b, lo <= b < hi -> is_free c b = false) -> none_free c lo hi.
Proof. intros W L H B b Hb. apply notfree_abs; auto; lia. Qed.

(* the outcome of bind() on an unbound socket, in terms of the abstract table *)
Theorem bind_spec c i s arg c' r : wf c -> get_sock c i = Some s -> s_addr s = None -> do_bind c i arg = (c', r) ->
  match arg with
  | BNone =>
      (exists a, least_free c 32 64 a /\ r = Ok OUnit /\ bound_alone c' i a /\ c_snl c' = c_snl c) \/
      (none_free c 32 64 /\ r = Err (LlcpError EAGAIN) /\ c' = c)
  | BAddr a =>
      if (a <? 0) || (63 <? a) then r = Err (LlcpError EFAULT) /\ c' = c
      else if ((32 <=? a) && (a <=? 63)) || stype_eqb (s_type s) TRaw then
        (bound_set c a = [] /\ 2 <= a /\ r = Ok OUnit /\ bound_alone c' i a /\ c_snl c' = c_snl c) \/
        ((bound_set c a <> [] \/ a < 2) /\ r = Err (LlcpError EADDRINUSE) /\ c' = c)
      else r = Err (LlcpError EACCES) /\ c' = c
  | BName n =>
      if negb (name_valid n) then r = Err (LlcpError EFAULT) /\ c' = c else
      match name_addr c n with
      | Some _ => r = Err (LlcpError EADDRINUSE) /\ c' = c
      | None =>
        match wks n with
        | Some w =>
            (bound_set c w = [] /\ w = 4 /\ r = Ok OUnit /\ bound_alone c' i w /\ name_addr c' n = Some w) \/
            (bound_set c w <> [] /\ r = Err (LlcpError EADDRINUSE) /\ c' = c)
        | None =>
            (exists a, least_free c 16 32 a /\ r = Ok OUnit /\ bound_alone c' i a /\ name_addr c' n = Some a) \/
            (none_free c 16 32 /\ r = Err (LlcpError EADDRNOTAVAIL) /\ c' = c)
        end
      end
  | BBad => r = Err (LlcpError EFAULT) /\ c' = c
  end.
Proof.
  intros W G A. unfold do_bind. rewrite G, A. destruct arg as [|a|n|].
  - destruct (bind_none c i s) as [c1 oa] eqn:B. destruct (bind_none_good _ _ _ _ _ W G A B) as (_ & P).
    destruct oa as [a|]; intro H; inversion H; subst.
    + destruct P as (-> & R & F & L). left. exists a. split; [apply range_free; auto; lia|]. split; auto.
      split; [eapply place_bound_alone; eauto; lia|]. unfold place. rewrite sap_set_snl. reflexivity.
    + destruct P as (-> & L). right. split; auto. apply range_none; auto; lia.
  - unfold bind_addr. destruct ((a <? 0) || (63 <? a)) eqn:R; [intro H; inversion H; auto|].
    destruct (((32 <=? a) && (a <=? 63)) || stype_eqb (s_type s) TRaw); [|intro H; inversion H; auto].
    destruct (is_free c a) eqn:F; intro H; inversion H; subst.
    + assert (a <> 0 /\ a <> 1).
      { split; intro; subst a; apply is_free_iff in F; [destruct (wf_sap0 _ W) as (sl & E) | pose proof (wf_sap1 _ W) as E]; congruence. }
      left. split; [apply free_abs; auto; lia|]. split; [lia|]. split; auto.
      split; [eapply place_bound_alone; eauto; lia|]. unfold place. rewrite sap_set_snl. reflexivity.
    + right. split; auto. destruct (Z_lt_dec a 2); auto. left. apply notfree_abs; auto. lia.
  - unfold bind_name, name_addr. destruct (negb (name_valid n)) eqn:V; [intro H; inversion H; auto|].
    destruct (lookup (c_snl c) n) eqn:L; [intro H; inversion H; auto|].
    assert (NA : forall a, 2 <= a < 64 -> bound_alone (set_snl (place c i (set_bname s (Some n)) a) (c_snl c ++ [(n, a)])) i a /\
                 lookup (c_snl (set_snl (place c i (set_bname s (Some n)) a) (c_snl c ++ [(n, a)]))) n = Some a).
    { intros a Ra. split.
      - destruct (place_bound_alone c i s (set_bname s (Some n)) a W G Ra) as (B1 & s' & G' & A'). split; [exact B1 | exists s'; auto].
      - cbn [c_snl set_snl]. rewrite (lookup_app_none _ _ _ _ L). rewrite name_eqb_refl. reflexivity. }
    destruct (wks n) as [w|] eqn:K.
    + destruct (is_free c w) eqn:F; intro H; inversion H; subst.
      * assert (w = 4). { destruct (wks_cases _ _ K); auto. subst w. apply is_free_iff in F. rewrite (wf_sap1 _ W) in F. discriminate. }
        subst w. left. split; [apply free_abs; auto; lia|]. destruct (NA 4) as [N1 N2]; [lia|]. auto.
      * right. split; auto. destruct (wks_cases _ _ K); subst w.
        -- exfalso. assert (n = name_sdp).
           { unfold wks in K. destruct (name_eqb n name_sdp) eqn:E; [apply name_eqb_eq; auto|].
             destruct (name_eqb n name_snep); discriminate. }
           subst n. rewrite (wf_snl_sdp _ W) in L. discriminate.
        -- apply notfree_abs; auto. lia.
    + destruct (first_free c (zrange 16 32)) as [a|] eqn:FF; intro H; inversion H; subst.
      * pose proof (first_free_range_some _ _ _ _ FF) as P. left. exists a. split; [apply range_free; auto; lia|].
        destruct P as (R & _). destruct (NA a) as [N1 N2]; [lia|]. auto.
      * right. split; auto. apply range_none; auto; try lia. apply first_free_range_none; auto.
  - intro H; inversion H; auto.
Qed.

(* which errno a failing bind() of an unbound socket can have: the documented four, except that
   exhaustion of the named range gives EADDRNOTAVAIL (known finding) *)
Theorem bind_errno c i s arg c' e : wf c -> get_sock c i = Some s -> s_addr s = None -> do_bind c i arg = (c', Err e) ->
  (exists x, e = LlcpError x /\ documented x) \/
  (exists n, arg = BName n /\ name_valid n = true /\ name_addr c n = None /\ wks n = None /\ none_free c 16 32 /\
             e = LlcpError EADDRNOTAVAIL).
Proof.
  intros W G A D. pose proof (bind_spec _ _ _ _ _ _ W G A D) as S. unfold documented. destruct arg as [|a|n|].
  - destruct S as [(a & _ & E & _)|(_ & E & _)]; [discriminate|]. inversion E. left. eexists. split; eauto.
  - destruct ((a <? 0) || (63 <? a)); [destruct S as [E _]; inversion E; left; eexists; split; eauto|].
    destruct (((32 <=? a) && (a <=? 63)) || stype_eqb (s_type s) TRaw).
    + destruct S as [(_ & _ & E & _)|(_ & E & _)]; [discriminate|]. inversion E. left; eexists; split; eauto.
    + destruct S as [E _]; inversion E; left; eexists; split; eauto.
  - destruct (negb (name_valid n)) eqn:V; [destruct S as [E _]; inversion E; left; eexists; split; eauto|].
    destruct (name_addr c n) eqn:L; [destruct S as [E _]; inversion E; left; eexists; split; eauto|].
    destruct (wks n) eqn:K.
    + destruct S as [(_ & _ & E & _)|(_ & E & _)]; [discriminate|]. inversion E. left; eexists; split; eauto.
    + destruct S as [(a & _ & E & _)|(NF & E & _)]; [discriminate|]. inversion E. right. exists n.
      repeat split; auto. destruct (name_valid n); auto; discriminate.
  - destruct S as [E _]; inversion E; left; eexists; split; eauto.
Qed.

(* ================================================================ close_frees *)
Lemma sap_remove_last c a i : wf c -> 2 <= a -> bound_set c a = [i] ->
  let c' := sap_remove c a i in
  bound_set c' a = [] /\ is_free c' a = true /\ (forall n, name_addr c' n <> Some a) /\
  (forall b, b <> a -> sap_get c' b = sap_get c b) /\
  (forall n b, b <> a -> (name_addr c' n = Some b <-> name_addr c n = Some b)) /\ c_socks c' = c_socks c.
Proof.
  intros W Ha B. unfold bound_set in B. unfold sap_remove. destruct (sap_get c a) as [| |l sl] eqn:SG; try discriminate.
  cbn in B. subst l. rewrite remove_id_single. cbn zeta.
  assert (Ra : 0 <= a < 64) by (eapply sap_get_range; eauto; discriminate).
  set (g := fun v : Z => negb (v =? a)).
  assert (LK : forall n, lookup (filter (fun kv : name * Z => negb (snd kv =? a)) (c_snl c)) n =
                         match lookup (c_snl c) n with Some v => if g v then Some v else None | None => None end).
  { intro n. apply (lookup_filter_val (c_snl c) g n). apply W. }
  assert (SGa : sap_get (set_snl (sap_set c a SapNone) (filter (fun kv : name * Z => negb (snd kv =? a)) (c_snl c))) a = SapNone).
  { change (sap_get (sap_set c a SapNone) a = SapNone). apply sap_get_set_same; auto. apply W. }
  unfold bound_set, is_free, name_addr. rewrite SGa. cbn [c_snl set_snl socks_of].
  split; auto. split; auto. split; [|split; [|split]].
  - intro n. rewrite LK. destruct (lookup (c_snl c) n) as [v|]; [|discriminate]. unfold g.
    destruct (v =? a) eqn:E; cbn; [discriminate|]. intro H; inversion H. lia.
  - intros b Hb. change (sap_get (sap_set c a SapNone) b = sap_get c b). apply sap_get_set_other. auto.
  - intros n b Hb. rewrite LK. destruct (lookup (c_snl c) n) as [v|]; [|tauto]. unfold g.
    destruct (v =? a) eqn:E; cbn; [|tauto]. split; intro H; [discriminate | inversion H; lia].
  - apply sap_set_socks.
Qed.

Lemma sap_remove_more c a i l : wf c -> bound_set c a = l -> (exists j, j <> i /\ In j l) ->
  let c' := sap_remove c a i in
  bound_set c' a = remove_id l i /\ bound_set c' a <> [] /\ c_snl c' = c_snl c /\ c_socks c' = c_socks c /\
  (forall b, b <> a -> sap_get c' b = sap_get c b).
Proof.
  intros W B (j & Nj & Hj). unfold bound_set in B. unfold sap_remove. destruct (sap_get c a) as [| |l0 sl] eqn:SG;
    try (cbn in B; subst l; destruct Hj). cbn in B. subst l0.
  assert (Ra : 0 <= a < 64) by (eapply sap_get_range; eauto; discriminate).
  pose proof (remove_id_keeps l i j Nj Hj) as K.
  destruct (remove_id l i) as [|x t] eqn:RM; [destruct K|]. cbn zeta.
  unfold bound_set. rewrite sap_get_set_same by (auto; apply W). cbn.
  split; auto. split; [discriminate|]. split; [apply sap_set_snl|]. split; [apply sap_set_socks|].
  intros b Hb. apply sap_get_set_other; auto.
Qed.

(* close() of the last socket of a SAP (a call that does not have to wait for the peer) *)
Theorem close_last c i s a c' r : wf c -> get_sock c i = Some s -> s_addr s = Some a -> s_pend s = PdNone ->
  bound_set c a = [i] -> sock_close s <> None -> do_close c i = (c', r) ->
  r = Ok OUnit /\ bound_set c' a = [] /\ is_free c' a = true /\ (forall n, name_addr c' n <> Some a) /\
  (forall b, b <> a -> sap_get c' b = sap_get c b) /\
  (forall n b, b <> a -> (name_addr c' n = Some b <-> name_addr c n = Some b)).
Proof.
  intros W G A P B SC. unfold do_close. rewrite G, P, A.
  assert (SG : exists sl, sap_get c a = Sap [i] sl).
  { unfold bound_set in B. destruct (sap_get c a) as [| |l sl]; try discriminate. cbn in B. subst. eauto. }
  destruct SG as (sl & SG). rewrite SG. destruct (sock_close s) as [s'|] eqn:E; [|congruence].
  intro H; inversion H; subst. split; auto.
  destruct (sock_close_some _ _ E) as [Ev St].
  destruct (goods_put c i s s' W G Ev) as [W1 _].
  pose proof (wf_addr_range _ W i s a G A) as R.
  destruct (sap_remove_last (put_sock c i s') a i W1) as (P1 & P2 & P3 & P4 & P5 & _); [lia | exact B |].
  repeat split; auto.
  - apply P5; auto.
  - apply P5; auto.
Qed.

(* ... and of a socket that is not the last one: the address and its name stay *)
Theorem close_not_last c i s a c' r l : wf c -> get_sock c i = Some s -> s_addr s = Some a -> s_pend s = PdNone ->
  bound_set c a = l -> (exists j, j <> i /\ In j l) -> sock_close s <> None -> do_close c i = (c', r) ->
  r = Ok OUnit /\ bound_set c' a = remove_id l i /\ bound_set c' a <> [] /\ c_snl c' = c_snl c.
Proof.
  intros W G A P B J SC. unfold do_close. rewrite G, P, A.
  assert (SG : exists sl, sap_get c a = Sap l sl).
  { unfold bound_set in B. destruct (sap_get c a) as [| |l0 sl]; try (cbn in B; subst l; destruct J as (? & _ & [])). cbn in B. subst. eauto. }
  destruct SG as (sl & SG). rewrite SG. destruct (sock_close s) as [s'|] eqn:E; [|congruence].
  intro H; inversion H; subst. split; auto.
  destruct (sock_close_some _ _ E) as [Ev St].
  destruct (goods_put c i s s' W G Ev) as [W1 _].
  destruct (sap_remove_more (put_sock c i s') a i (bound_set c a) W1 eq_refl J) as (P1 & P2 & P3 & _). auto.
Qed.

(* close() of an established connection waits (OPending); when the DM answer is dispatched the tail of
   remove_socket runs: same effect *)
Theorem close_pending_completes c i s' a : wf c -> (exists s, get_sock c i = Some s /\ evolves s s') -> s_addr s' = Some a ->
  s_recvq s' <> [] -> bound_set c a = [i] ->
  let c' := fst (finish_close c i s') in
  bound_set c' a = [] /\ is_free c' a = true /\ (forall n, name_addr c' n <> Some a) /\
  (forall n b, b <> a -> (name_addr c' n = Some b <-> name_addr c n = Some b)).
Proof.
  intros W (s & G & Ev) A Q B. unfold finish_close. destruct (s_recvq s') as [|h t]; [congruence|]. rewrite A. cbn [fst].
  set (s2 := set_pend (base_close (set_recvq s' t)) PdNone).
  assert (E2 : evolves s s2) by (eapply evolves_trans; [exact Ev|]; unfold s2; ev_tac).
  destruct (goods_put c i s s2 W G E2) as [W1 _].
  assert (R : 2 <= a < 64). { eapply (wf_addr_range _ W i s a); eauto. rewrite <- A. symmetry. apply Ev. }
  destruct (sap_remove_last (put_sock c i s2) a i W1) as (P1 & P2 & P3 & P4 & P5 & _); [lia | exact B |].
  repeat split; auto; apply P5; auto.
Qed.

(* after the address is free again the same name can be bound again and gets an address of the named range *)
Theorem rebind_after_close c j s n : wf c -> get_sock c j = Some s -> s_addr s = None ->
  name_valid n = true -> wks n = None -> name_addr c n = None -> (exists a, 16 <= a < 32 /\ bound_set c a = []) ->
  exists a, least_free c 16 32 a /\ snd (do_bind c j (BName n)) = Ok OUnit /\ name_addr (fst (do_bind c j (BName n))) n = Some a.
Proof.
  intros W G A V K L (a0 & R0 & F0). destruct (do_bind c j (BName n)) as [c' r] eqn:D.
  pose proof (bind_spec _ _ _ _ _ _ W G A D) as S. cbn in S. rewrite V, L, K in S. cbn in S.
  destruct S as [(a & LF & E & _ & NA)|(NF & _)]; [exists a; auto|]. exfalso. apply (NF a0); auto.
Qed.

(* ================================================================ what a name in the table means *)
Theorem name_addr_meaning c n : wf c ->
  match name_addr c n with
  | Some a => (n = name_sdp /\ a = 1) \/
              (2 <= a < 64 /\ bound_set c a <> [] /\
               forall i, In i (bound_set c a) -> exists s, get_sock c i = Some s /\ s_addr s = Some a /\
                 (s_bname s = Some n \/ (s_bname s = None /\ nolisten (s_state s))))
  | None => forall a i s, In i (bound_set c a) -> get_sock c i = Some s -> s_bname s <> Some n
  end.
Proof.
  intro W. unfold name_addr. destruct (lookup (c_snl c) n) as [a|] eqn:L.
  - destruct (wf_snl_val _ W n a L) as [?|(V & A2 & F & K)]; auto. right.
    assert (R : 2 <= a < 64). { destruct K as [K|[_ K]]; [destruct (wks_cases _ _ K); lia | lia]. }
    split; auto. split; [apply notfree_abs; auto|].
    intros i Li. destruct (wf_listed_addr _ W a i Li) as (s & G & A). exists s. split; auto. split; auto.
    eapply (wf_snl_bname _ W); eauto.
  - intros a i s Li G B. rewrite (wf_bname_snl _ W a i s n Li G B) in L. discriminate.
Qed.

(* ================================================================ frame lemmas for enqueue *)
Lemma finish_connect_frame c i s' j : j <> i -> get_sock (fst (finish_connect c i s')) j = get_sock c j.
Proof. intro N. unfold finish_connect. destruct (s_recvq s') as [|h t]; auto.
  destruct h; auto; cbn; apply get_put_other; auto. Qed.
Lemma sap_remove_get c a i j : get_sock (sap_remove c a i) j = get_sock c j.
Proof. unfold sap_remove. destruct (sap_get c a); auto. destruct (remove_id socks i); [|apply get_sock_sap_set].
  change (get_sock (sap_set c a SapNone) j = get_sock c j). apply get_sock_sap_set. Qed.
Lemma finish_close_frame c i s' j : j <> i -> get_sock (fst (finish_close c i s')) j = get_sock c j.
Proof. intro N. unfold finish_close. destruct (s_recvq s') as [|h t]; auto. cbn.
  destruct (s_addr s'); [rewrite sap_remove_get|]; apply get_put_other; auto. Qed.

Lemma sock_enqueue_frame c i s p j : j <> i -> get_sock (fst (sock_enqueue c i s p)) j = get_sock c j.
Proof.
  intro N. unfold sock_enqueue.
  assert (PO : forall x, get_sock (put_sock c i x) j = get_sock c j) by (intro; apply get_put_other; auto).
  destruct (s_type s).
  - destruct (len (s_recvq s) <? s_rbuf s); cbn; auto.
  - destruct p; auto. destruct (link_miu <? len data); auto. destruct (len (s_recvq s) <? s_rbuf s); cbn; auto.
  - destruct (negb (is_dlc_pdu p)).
    + destruct (negb (c_enq_blocks c) && sstate_eqb (s_state s) StEstablished); [cbn; auto|].
      destruct (sock_close s); auto. destruct (s_pend s); cbn; auto.
      destruct (s_addr s); [rewrite sap_remove_get|]; auto.
    + destruct (s_state s); try (cbn; solve [auto]).
      all: destruct p; try (cbn; solve [auto]).
      all: cbn [is_connect]; cbn zeta; try (destruct (len (s_recvq s) <? s_rbuf s)); try (cbn; solve [auto]).
      all: destruct (s_pend s); try (cbn; solve [auto]).
      all: try match goal with |- context [finish_connect ?c ?i ?x] =>
            pose proof (finish_connect_frame c i x j N) as F; destruct (finish_connect c i x); cbn in *; auto end.
      all: try match goal with |- context [finish_close ?c ?i ?x] =>
            pose proof (finish_close_frame c i x j N) as F; destruct (finish_close c i x); cbn in *; auto end.
Qed.

(* events of one enqueue concern only that socket and that PDU *)
Lemma sock_enqueue_events c i s p c' evs : sock_enqueue c i s p = (c', Ok evs) ->
  forall j q, In (EvEnq j q) evs -> j = i /\ q = p.
Proof.
  unfold sock_enqueue.
  assert (FC : forall x c1 e1, finish_connect c i x = (c1, e1) -> forall j q, ~ In (EvEnq j q) e1).
  { intros x c1 e1. unfold finish_connect. destruct (s_recvq x) as [|h t]; [intro H; inversion H; auto|].
    destruct h; intro H; inversion H; cbn; intuition discriminate. }
  assert (FX : forall x c1 e1, finish_close c i x = (c1, e1) -> forall j q, ~ In (EvEnq j q) e1).
  { intros x c1 e1. unfold finish_close. destruct (s_recvq x) as [|h t]; intro H; inversion H; cbn; intuition discriminate. }
  destruct (s_type s).
  - destruct (len (s_recvq s) <? s_rbuf s); intro H; inversion H; cbn; intuition congruence.
  - destruct p; try (intro H; inversion H; cbn; tauto).
    destruct (link_miu <? len data); [intro H; inversion H; cbn; tauto|].
    destruct (len (s_recvq s) <? s_rbuf s); intro H; inversion H; cbn; intuition congruence.
  - destruct (negb (is_dlc_pdu p)).
    + destruct (negb (c_enq_blocks c) && sstate_eqb (s_state s) StEstablished); [intro H; inversion H; cbn; tauto|].
      destruct (sock_close s); [|discriminate]. destruct (s_pend s); intro H; inversion H; cbn; intuition discriminate.
    + destruct (s_state s); try (intro H; inversion H; cbn; tauto).
      all: destruct p; try (intro H; inversion H; cbn; tauto).
      all: cbn [is_connect]; cbn zeta; try (destruct (len (s_recvq s) <? s_rbuf s)); try (intro H; inversion H; cbn; intuition congruence).
      all: destruct (s_pend s); try (intro H; inversion H; cbn; intuition congruence).
      all: try match goal with |- context [finish_connect ?c ?i ?x] =>
             pose proof (FC x) as F; destruct (finish_connect c i x) as [c1 e1] end.
      all: try match goal with |- context [finish_close ?c ?i ?x] =>
             pose proof (FX x) as F; destruct (finish_close c i x) as [c1 e1] end.
      all: intro H; inversion H; subst; intros j q [E|E]; [inversion E; auto | exfalso; eapply F; eauto].
Qed.

(* ================================================================ resolve_exact *)
(* service discovery answers with the address the name is bound to now, or 0 *)
Theorem sdreq_answer c rq rs c' r : wf c -> dispatch c (PSnl rq rs) = (c', r) ->
  sd_sdres c' = sd_sdres c ++ map (fun x => (fst x, match name_addr c (snd x) with Some a => a | None => 0 end)) rq /\
  c_sap c' = c_sap c /\ c_snl c' = c_snl c /\ c_socks c' = c_socks c.
Proof.
  intros W. unfold dispatch. cbn [pdu_dsap]. rewrite (wf_sap1 _ W). unfold sd_enqueue.
  destruct (sd_take_res _ _ _ _) as [cache tids]. destruct (wake _ _) as [evs w]. intro H; inversion H; subst. cbn. auto.
Qed.

(* CONNECT by service name: reaches the listening socket bound under that name, or absence is reported by DM *)
Theorem connect_by_name c ssap n c' r : wf c -> dispatch c (PConnect 1 ssap (Some n)) = (c', r) ->
  match name_addr c n with
  | None => (* nothing in the table is bound under n *)
      r = Ok [] /\ c_socks c' = c_socks c /\ c_sap c' = c_sap c /\ sd_dmpdu c' = sd_dmpdu c ++ [PDM ssap 1 2]
  | Some a =>
      a = 1 \/
      (2 <= a /\
       ((exists i s, In i (bound_set c a) /\ get_sock c i = Some s /\ s_state s = StListen /\ s_bname s = Some n /\
                     sock_enqueue c i s (PConnect a ssap None) = (c', r) /\
                     (forall j, j <> i -> get_sock c' j = get_sock c j) /\
                     (forall evs j q, r = Ok evs -> In (EvEnq j q) evs -> j = i)) \/
        ((forall i s, In i (bound_set c a) -> get_sock c i = Some s -> s_state s <> StListen) /\
         r = Ok [] /\ c_socks c' = c_socks c /\
         exists l sl, sap_get c a = Sap l sl /\ sap_get c' a = Sap l (sl ++ [PDM ssap a 2]))))
  end.
Proof.
  intros W D. unfold dispatch in D. unfold name_addr. destruct (lookup (c_snl c) n) as [a|] eqn:L.
  - destruct (wf_snl_val _ W n a L) as [[_ ->]|(V & A2 & F & K)]; [left; auto|]. right. split; auto.
    replace (negb (a =? 0) && negb (is_free c a)) with true in D by (rewrite F; lia).
    cbn [pdu_dsap] in D. unfold is_free in F. destruct (sap_get c a) as [| |l sl] eqn:SG; try discriminate.
    { exfalso. eapply (wf_nosd _ W a); eauto. lia. }
    unfold sap_enqueue in D. cbn [is_connect pdu_ssap pdu_dsap] in D.
    destruct (pick_sock c l (fun s => sstate_eqb (s_state s) StListen)) as [[i s]|] eqn:P.
    + left. destruct (pick_sock_some _ _ _ _ _ P) as (Li & G & St). exists i, s.
      assert (Lb : In i (bound_set c a)) by (unfold bound_set; rewrite SG; auto).
      assert (St' : s_state s = StListen) by (destruct (s_state s); auto; discriminate).
      split; auto. split; auto. split; auto. split.
      { destruct (wf_snl_bname _ W a i s n A2 L Lb G) as [B|[_ NL]]; auto. exfalso. unfold nolisten in NL. rewrite St' in NL.
        intuition discriminate. }
      split; auto. split.
      * intros j Nj. replace c' with (fst (sock_enqueue c i s (PConnect a ssap None))) by (rewrite D; auto).
        apply sock_enqueue_frame; auto.
      * intros evs j q -> Hin. eapply sock_enqueue_events; eauto.
    + inversion D; subst. right. split.
      * intros i s Li G St. unfold bound_set in Li. rewrite SG in Li. cbn in Li.
        clear -P Li G St. induction l as [|x t IH]; [destruct Li|]. cbn in P. destruct Li as [->|Li].
        -- rewrite G in P. rewrite St in P. discriminate.
        -- destruct (get_sock c x) as [sx|]; [destruct (sstate_eqb (s_state sx) StListen); [discriminate|]|]; auto.
      * split; auto. split; [apply sap_set_socks|]. exists l, sl. split; auto.
        apply sap_get_set_same; [apply W | eapply sap_get_range; eauto; discriminate].
  - cbn in D. inversion D; subst. cbn. auto.
Qed.

(* what enqueueing a CONNECT to a listening connection socket does: queued (recv queue grows by exactly it) or refused by DM *)
Lemma enqueue_connect_listen c i s a ssap c' r : s_type s = TDlc -> s_state s = StListen -> get_sock c i = Some s ->
  sock_enqueue c i s (PConnect a ssap None) = (c', r) ->
  (r = Ok [EvEnq i (PConnect a ssap None)] /\ get_sock c' i = Some (set_recvq s (s_recvq s ++ [PConnect a ssap None]))) \/
  (r = Ok [] /\ get_sock c' i = Some (set_sendq s (s_sendq s ++ [PDM ssap a 32]))).
Proof.
  intros T St G. unfold sock_enqueue. rewrite T, St. cbn [negb is_dlc_pdu is_connect pdu_ssap pdu_dsap].
  destruct (len (s_recvq s) <? s_rbuf s); intro H; inversion H; subst; [left | right]; split; auto; eapply get_put_same; eauto.
Qed.

(* ================================================================ datagram_exact *)
(* receiving side: a UI PDU is appended, unchanged, to the queue of one socket bound at its DSAP
   (whose peer filter admits the source), or to no socket at all *)
Theorem datagram_dispatch c d sa data c' r : wf c -> dispatch c (PUI d sa data) = (c', r) ->
  r = Hang \/
  exists evs, r = Ok evs /\
   (((forall j q, ~ In (EvEnq j q) evs) /\
     forall k sk, get_sock c k = Some sk -> exists sk', get_sock c' k = Some sk' /\ (s_recvq sk' = s_recvq sk \/ s_recvq sk' = []))
    \/
    (exists j sj, evs = [EvEnq j (PUI d sa data)] /\ In j (bound_set c d) /\ get_sock c j = Some sj /\ s_addr sj = Some d /\
       s_type sj <> TDlc /\ (s_peer sj = None \/ s_peer sj = Some sa) /\
       get_sock c' j = Some (set_recvq sj (s_recvq sj ++ [PUI d sa data])) /\
       forall k, k <> j -> get_sock c' k = get_sock c k)).
Proof.
  intros W H. unfold dispatch in H. cbn [pdu_dsap] in H.
  assert (NOP : forall cx, cx = c -> exists evs : list event, Ok [] = Ok evs /\
     (((forall j q, ~ In (EvEnq j q) evs) /\
       forall k sk, get_sock c k = Some sk -> exists sk', get_sock cx k = Some sk' /\ (s_recvq sk' = s_recvq sk \/ s_recvq sk' = [])) \/
      (exists j sj, evs = [EvEnq j (PUI d sa data)] /\ In j (bound_set c d) /\ get_sock c j = Some sj /\ s_addr sj = Some d /\
         s_type sj <> TDlc /\ (s_peer sj = None \/ s_peer sj = Some sa) /\
         get_sock cx j = Some (set_recvq sj (s_recvq sj ++ [PUI d sa data])) /\ forall k, k <> j -> get_sock cx k = get_sock c k))).
  { intros cx ->. exists []. split; auto. left. split; [intros j q []|]. intros k sk G. eauto. }
  destruct (sap_get c d) as [| |l sl] eqn:SG.
  - inversion H; subst. right. apply NOP; auto.
  - cbn in H. inversion H; subst. right. apply NOP; auto.
  - unfold sap_enqueue in H. cbn [is_connect is_dlc_pdu pdu_ssap] in H.
    destruct (pick_sock c l _) as [[j sj]|] eqn:P; [|inversion H; subst; right; apply NOP; auto].
    destruct (pick_sock_some _ _ _ _ _ P) as (Lj & G & PF).
    assert (Lb : In j (bound_set c d)) by (unfold bound_set; rewrite SG; auto).
    destruct (wf_listed_addr _ W d j Lb) as (sj0 & G0 & A0). rewrite G in G0. inversion G0; subst sj0.
    assert (PEER : s_peer sj = None \/ s_peer sj = Some sa).
    { destruct (s_peer sj) as [x|]; auto. right. f_equal. lia. }
    assert (FR : forall k, k <> j -> get_sock c' k = get_sock c k).
    { intros k N. replace c' with (fst (sock_enqueue c j sj (PUI d sa data))) by (rewrite H; auto). apply sock_enqueue_frame; auto. }
    assert (OTHERS : forall sj', get_sock c' j = Some sj' -> (s_recvq sj' = s_recvq sj \/ s_recvq sj' = []) ->
              forall k sk, get_sock c k = Some sk -> exists sk', get_sock c' k = Some sk' /\ (s_recvq sk' = s_recvq sk \/ s_recvq sk' = [])).
    { intros sj' G' Q k sk Gk. destruct (Nat.eq_dec k j); [subst k; rewrite G in Gk; inversion Gk; subst; eauto|].
      rewrite FR by auto. eauto. }
    unfold sock_enqueue in H. destruct (s_type sj) eqn:Ty.
    + destruct (len (s_recvq sj) <? s_rbuf sj); inversion H; subst; right; eexists; (split; [reflexivity|]).
      * right. exists j, sj. split; [reflexivity|]. split; [exact Lb|]. split; [exact G|]. split; [exact A0|]. split; [congruence|].
        split; [exact PEER|]. split; [eapply get_put_same; eauto | intros; apply get_put_other; auto].
      * left. split; [intros ? ? []|]. intros k sk Gk. eauto.
    + destruct (link_miu <? len data); [inversion H; subst; right; eexists; split; [reflexivity|]; left; split; [intros ? ? []|]; eauto|].
      destruct (len (s_recvq sj) <? s_rbuf sj); inversion H; subst; right; eexists; (split; [reflexivity|]).
      * right. exists j, sj. split; [reflexivity|]. split; [exact Lb|]. split; [exact G|]. split; [exact A0|]. split; [congruence|].
        split; [exact PEER|]. split; [eapply get_put_same; eauto | intros; apply get_put_other; auto].
      * left. split; [intros ? ? []|]. intros k sk Gk. eauto.
    + cbn [negb is_dlc_pdu] in H.
      destruct (negb (c_enq_blocks c) && sstate_eqb (s_state sj) StEstablished).
      { inversion H; subst. right. eexists. split; [reflexivity|]. left. split; [intros ? ? []|].
        eapply OTHERS; [eapply get_put_same; eauto | cbn; auto]. }
      destruct (sock_close sj) as [s'|] eqn:SC; [|inversion H; auto].
      right. assert (Q' : s_recvq s' = []).
      { clear -SC. unfold sock_close in SC. destruct (s_type sj); try (inversion SC; reflexivity).
        destruct (_ && _); [|inversion SC; reflexivity]. cbn [s_recvq set_sendq set_state] in SC.
        destruct (s_recvq sj); inversion SC; reflexivity. }
      destruct (s_pend sj); inversion H; subst; eexists; (split; [reflexivity|]); left;
        (split; [cbn; intuition discriminate|]); eapply OTHERS.
      * eapply get_put_same; eauto.
      * cbn. auto.
      * eapply get_put_same; eauto.
      * cbn. auto.
      * destruct (s_addr sj); [rewrite sap_remove_get|]; eapply get_put_same; eauto.
      * cbn. auto.
Qed.

(* sending side: sendto() queues exactly one UI PDU carrying the message, the destination and the
   socket's own address as source, behind everything queued before *)
Theorem datagram_sendto c i s msg d c' : wf c -> get_sock c i = Some s -> s_type s = TLdl ->
  do_sendto c i msg d = (c', Ok (OBool true)) ->
  exists s' a, get_sock c' i = Some s' /\ s_addr s' = Some a /\ (s_addr s = None \/ s_addr s = Some a) /\
               s_sendq s' = s_sendq s ++ [PUI d a msg] /\ s_recvq s' = s_recvq s /\
               (s_peer s = None \/ s_peer s = Some 0 \/ s_peer s = Some d) /\ len msg <= link_miu.
Proof.
  intros W G T. unfold do_sendto. rewrite G, T. destruct (s_pend s); try discriminate.
  destruct (autobind c i s) as [c1 [s1|]] eqn:AB; [|discriminate].
  destruct (autobind_good _ _ _ _ _ W G AB) as (_ & G1 & (ST & SS & SP & SR & SQ & SSQ & _) & (a & A1) & K).
  destruct (s_state s1) eqn:St1; try discriminate;
  (destruct (match s_peer s1 with Some p => negb (p =? 0) && negb (d =? p) | None => false end) eqn:PB; [discriminate|];
   destruct (link_miu <? len msg) eqn:M; [discriminate|]; intro H; inversion H; subst;
   exists (set_sendq s1 (s_sendq s1 ++ [PUI d match s_addr s1 with Some a0 => a0 | None => 0 end msg])), a;
   split; [eapply get_put_same; eauto|]; split; [exact A1|];
   split; [destruct (s_addr s) eqn:A0; [right; destruct K as [-> _]; [congruence | congruence] | left; auto]|];
   split; [cbn; rewrite A1, SSQ; reflexivity|]; split; [cbn; auto|];
   split; [rewrite SP in PB; destruct (s_peer s) as [p|]; auto; right;
           destruct (p =? 0) eqn:E0; [left; f_equal; lia | right; f_equal; cbn in PB; lia] | lia]).
Qed.

(* the link: collect takes the head of a send queue, unchanged; the peer dispatches exactly that PDU *)
Theorem collect_head c a miu p c' : wf c -> collect1 c a miu = Some (p, c') ->
  (exists i s s', In i (bound_set c a) /\ get_sock c i = Some s /\ s_addr s = Some a /\ get_sock c' i = Some s' /\
                  (exists rest, s_sendq s = p :: rest /\ (s_sendq s' = rest \/ s_sendq s' = [])) /\
                  forall k, k <> i -> get_sock c' k = get_sock c k) \/
  (exists l sl, sap_get c a = Sap l (p :: sl) /\ sap_get c' a = Sap l sl /\ c_socks c' = c_socks c) \/
  (a = 1 /\ c_socks c' = c_socks c).
Proof.
  intros W. unfold collect1. destruct (sap_get c a) as [| |l sl] eqn:SG; [discriminate | |].
  - intro H. right. right. split.
    + destruct (Z.eq_dec a 1); auto. exfalso. eapply (wf_nosd _ W a); eauto.
    + unfold sd_dequeue in H. destruct (sd_sdres c), (sd_sdreq c);
        try (destruct (take_sdres _ _ _) as [[? ?] ?]; destruct (take_sdreq _ _ _ _) as [? ?]; inversion H; reflexivity).
      destruct (sd_dmpdu c); [discriminate|]. destruct (0 <? miu); inversion H; reflexivity.
  - destruct (socks_dequeue c l miu) as [[p1 c1]|] eqn:D.
    + intro H; inversion H; subst. left.
      assert (forall l0, (forall x, In x l0 -> In x l) -> socks_dequeue c l0 miu = Some (p, c') ->
              exists i s s', In i l /\ get_sock c i = Some s /\ get_sock c' i = Some s' /\
                             (exists rest, s_sendq s = p :: rest /\ (s_sendq s' = rest \/ s_sendq s' = [])) /\
                             forall k, k <> i -> get_sock c' k = get_sock c k) as K.
      { induction l0 as [|x t IH]; cbn; [discriminate|]. intros Sub.
        destruct (get_sock c x) as [sx|] eqn:Gx; [|apply IH; auto].
        destruct (sock_dequeue sx miu) as [[p2 s2]|] eqn:SD; [|apply IH; auto].
        intro E; inversion E; subst. exists x, sx, s2. split; [auto|]. split; auto. split; [eapply get_put_same; eauto|].
        split; [|intros; apply get_put_other; auto].
        clear -SD. unfold sock_dequeue in SD. destruct (s_type sx).
        - apply base_dequeue_evolves in SD. destruct SD as [_ Q]. eauto.
        - apply base_dequeue_evolves in SD. destruct SD as [_ Q]. eauto.
        - destruct (base_dequeue sx (Some miu)) as [[p3 s3]|] eqn:B; [|discriminate].
          apply base_dequeue_evolves in B. destruct B as [-> Q]. cbn in Q.
          destruct p3; try (inversion SD; subst; cbn; eauto).
          destruct (sstate_eqb _ _); inversion SD; subst; cbn; eauto. }
      destruct (K l (fun x H => H) D) as (i & s & s' & Li & G & G' & Q & FR).
      assert (Lb : In i (bound_set c a)) by (unfold bound_set; rewrite SG; auto).
      destruct (wf_listed_addr _ W a i Lb) as (s0 & G0 & A0). rewrite G in G0. inversion G0; subst s0.
      exists i, s, s'. repeat split; auto.
    + destruct sl as [|h t]; [discriminate|]. intro H; inversion H; subst. right. left. exists l, t. split; auto.
      split; [apply sap_get_set_same; [apply W | eapply sap_get_range; eauto; discriminate] | apply sap_set_socks].
Qed.

(* FRMR dequeue clears the queue: the FIFO statement above is about the PDU taken; for datagram
   sockets the rest of the queue is exactly the old tail *)
Theorem xfer_same_pdu st from a miu st' p evs : step st (XXfer from a miu) = (st', Ok (OXfer (Some p) evs)) ->
  exists c1, collect1 (get_side st from) a miu = Some (p, c1) /\
             dispatch (get_side (set_side st from c1) (other from)) p = (get_side st' (other from), Ok evs).
Proof.
  cbn [step]. destruct (collect1 (get_side st from) a miu) as [[p1 c1]|] eqn:C; [|intro H; inversion H].
  destruct (dispatch (get_side (set_side st from c1) (other from)) p1) as [c2 r] eqn:D.
  intro H. inversion H; subst. destruct r; inversion H2; subst. exists c1. split; auto. rewrite D.
  rewrite get_set_side_same. reflexivity.
Qed.

(* recvfrom() on a datagram socket returns the head of its queue: payload and source of the oldest datagram *)
Theorem datagram_recvfrom c i s c' data ssap : get_sock c i = Some s -> s_type s = TLdl ->
  do_recvfrom c i = (c', Ok (ODgram data ssap)) ->
  exists d q, s_recvq s = PUI d ssap data :: q /\ get_sock c' i = Some (set_recvq s q).
Proof.
  intros G T. unfold do_recvfrom. rewrite G, T. destruct (s_pend s); try discriminate.
  destruct (negb _); [discriminate|]. destruct (s_state s); try discriminate;
  (destruct (s_recvq s) as [|p q]; [discriminate|]; destruct p; try discriminate; intro H; inversion H; subst;
   exists d, q; split; auto; eapply get_put_same; eauto).
Qed.
