(* C08, ISO-DEP layer below the Type 4 reader: with the repair fixes/c08-03-isodep-wtx-without-wtxm.diff
   (Model/TagReadAnyB.v pcd_absorb_any) IsoDepInitiator.exchange against ANY responder returns a response or
   raises Type4TagCommandError - never another exception - and stops within the bound of C12's theorem. *)
From Coq Require Import ZArith List Bool Lia ZifyBool.
From NV Require Import Base.Result Base.Bytes Model.IsoDep Model.TagAct Model.TagReadAnyB Proofs.IsoDep Proofs.IsoDepStream.
Import ListNotations.
Open Scope Z_scope.

Definition goodr (r : res bytes) : Prop :=
  match r with Ok _ => True | Err (TagCommandError _) => True | _ => False end.
Definition goodph (p : pcd) : Prop :=
  match ph p with PSend _ _ _ => True | PRecv _ _ _ => True | PDone r => goodr r | PWtx _ _ => False end.

Section Dep.
Variable k : cfg.
Variable cmd : bytes.
Hypothesis Hf1 : fix_wtx_try k = true.
Hypothesis Hf2 : fix_wtx_chain k = true.

Ltac leaf :=
  repeat (first [ progress (unfold goodph, goodr, tagerr, with_ph, after_wtx, recv_check, send_error, recv_error; cbn [ph pni])
                | match goal with |- context [if ?b then _ else _] => destruct b eqn:? end ]);
  try exact I.

Lemma absorb_any_good p a : goodph p -> goodph (pcd_absorb_any k cmd p a).
Proof.
  intro Hg. destruct p as [pn f]. unfold goodph in Hg. cbn [ph] in Hg.
  destruct f as [off i d | off d | i d rsp | r]; try contradiction.
  - (* PSend *)
    unfold pcd_absorb_any. destruct a as [x | | |]; cbn [wtx_phase ph andb]; try (unfold pcd_absorb; cbn [ph pni]; leaf; fail).
    destruct x as [|b0 inf]; [cbn [short_wtx andb]; unfold pcd_absorb; cbn [ph pni len length Z.of_nat Z.eqb]; leaf|].
    destruct inf as [|b1 inf].
    + cbn [short_wtx]. rewrite andb_true_r. destruct (is_wtx b0) eqn:Ew; [leaf|].
      unfold pcd_absorb. cbn [ph pni]. rewrite len_cons_eqb0, idx0, Hf1, Ew. leaf.
    + cbn [short_wtx andb]. unfold pcd_absorb. cbn [ph pni]. rewrite len_cons_eqb0, idx0, Hf1.
      unfold on_idx. rewrite idx1. leaf.
  - (* PRecv *)
    unfold pcd_absorb_any. destruct a as [x | | |]; cbn [wtx_phase ph andb]; try (unfold pcd_absorb; cbn [ph pni]; leaf; fail).
    destruct x as [|b0 inf]; [cbn [short_wtx andb]; unfold pcd_absorb; cbn [ph pni len length Z.of_nat Z.eqb]; leaf|].
    destruct inf as [|b1 inf].
    + cbn [short_wtx]. rewrite andb_true_r. destruct (is_wtx b0) eqn:Ew; [leaf|].
      unfold pcd_absorb. cbn [ph pni]. rewrite len_cons_eqb0, idx0, Hf2, Ew. cbn [andb]. leaf.
    + cbn [short_wtx andb]. unfold pcd_absorb. cbn [ph pni]. rewrite len_cons_eqb0, idx0, Hf2.
      unfold on_idx. rewrite idx1. leaf.
  - (* PDone *)
    unfold pcd_absorb_any. destruct a as [x | | |]; cbn [wtx_phase ph andb]; try rewrite andb_false_r; unfold pcd_absorb; cbn [ph]; exact Hg.
Qed.

(* whatever the responder sends: a response, Type4TagCommandError, or (only when the fuel runs out) no result yet *)
Theorem isodep_any_total : forall fuel p s n, goodph p ->
  goodr (run_stream_any fuel k cmd p s n) \/ run_stream_any fuel k cmd p s n = Hang.
Proof.
  induction fuel as [|f IH]; intros p s n Hg.
  - cbn [run_stream_any]. unfold goodph in Hg. destruct (ph p); auto.
  - cbn [run_stream_any]. pose proof (absorb_any_good p (s n) Hg) as Hg'. unfold goodph in Hg.
    destruct (ph p) eqn:E; try contradiction; auto.
Qed.

(* a stream in which every S(WTX) block without WTXM byte is replaced by a protocol error *)
Definition fixa (a : aresult) : aresult := match a with ARx d => if short_wtx d then AProto else a | _ => a end.
Definition fixs (s : nat -> aresult) : nat -> aresult := fun n => fixa (s n).

Lemma absorb_any_fix p a : goodph p -> pcd_absorb_any k cmd p a = pcd_absorb k cmd p (fixa a).
Proof.
  intro Hg. unfold pcd_absorb_any, fixa. destruct a as [d| | |]; try reflexivity.
  destruct (short_wtx d) eqn:E; [|reflexivity]. unfold goodph in Hg. destruct p as [pn f]. cbn [ph] in *.
  destruct f; try contradiction; cbn [wtx_phase ph andb]; unfold pcd_absorb; cbn [ph pni]; reflexivity.
Qed.
Lemma run_any_fix : forall fuel p s n, goodph p -> run_stream_any fuel k cmd p s n = run_stream fuel k cmd p (fixs s) n.
Proof.
  induction fuel as [|f IH]; intros p s n Hg; [reflexivity|].
  cbn [run_stream_any run_stream]. pose proof (absorb_any_good p (s n) Hg) as Hg'.
  rewrite (absorb_any_fix p (s n) Hg) in *. unfold fixs at 2.
  destruct (ph p); try reflexivity; apply IH; exact Hg'.
Qed.
End Dep.

Lemma wild_fix s : forall n, wild (fixs s) n <= wild s n.
Proof.
  induction n as [|n IH]; [reflexivity|]. cbn [wild]. unfold fixs at 2. unfold fixa.
  destruct (s n) as [d| | |]; try lia. destruct (short_wtx d); [|lia]. change (wildb AProto) with false. destruct (wildb (ARx d)); lia.
Qed.

(* IsoDepInitiator.exchange(command) with all repairs, against ANY responder that uses at most W waiting time
   extensions / chained response blocks: stops, with a response or Type4TagCommandError *)
Theorem isodep_any_safe k cmd : fix_wtx_try k = true -> fix_wtx_chain k = true -> fix_rack k = true ->
  0 < miu k -> 0 <= n_nak k -> 0 <= n_ack k -> 0 < len cmd ->
  forall pn s W fuel, (forall N, wild s N <= W) -> (CC k + 1) * (len cmd + 2 + W) + CC k <= Z.of_nat fuel ->
  goodr (run_stream_any fuel k cmd (pcd_start k cmd pn) s 0).
Proof.
  intros H1 H2 H3 Hm Hn1 Hn2 Hc pn s W fuel HW Hf.
  assert (Hg : goodph (pcd_start k cmd pn)).
  { unfold pcd_start, goodph. cbn [ph]. replace (miu k =? 0) with false by lia.
    replace ((len cmd <=? 0) || (miu k <? 0)) with false by lia. exact I. }
  destruct (isodep_any_total k cmd H1 H2 fuel _ s 0%nat Hg) as [G | Hh]; [exact G|]. exfalso.
  rewrite (run_any_fix k cmd H1 H2 fuel _ s 0%nat Hg) in Hh.
  apply (stream_terminates k cmd H1 H2 H3 Hm Hn1 Hn2 pn (fixs s) W fuel Hc); [|exact Hf | exact Hh].
  intro N. pose proof (wild_fix s N). specialize (HW N). lia.
Qed.

(* ------------------------------------------------------------ with the budget of fixes/c08-19: unconditional *)
Lemma wild_ans_wildb a : wild_ans a = wildb a.
Proof. reflexivity. Qed.

Lemma run_script_good k cmd : fix_wtx_try k = true -> fix_wtx_chain k = true -> fix_rack k = true ->
  0 < miu k -> 0 <= n_nak k -> 0 <= n_ack k ->
  forall fuel p script w n, goodph p -> okph p -> 0 <= w -> MM k cmd w p <= Z.of_nat fuel ->
  goodr (fst (fst (run_script_any fuel k cmd p script w n))).
Proof.
  intros H1 H2 H3 Hm Hn1 Hn2. induction fuel as [|f IH]; intros p script w n Hg Ho Hw HM.
  - cbn [run_script_any]. destruct (is_done p) eqn:Hd.
    + unfold is_done in Hd. unfold goodph in Hg. destruct (ph p); try discriminate. exact Hg.
    + pose proof (MM_pos k cmd Hn1 Hn2 w p Ho Hd Hw). lia.
  - cbn [run_script_any]. destruct (is_done p) eqn:Hd.
    + unfold is_done in Hd. unfold goodph in Hg. destruct (ph p); try discriminate. exact Hg.
    + set (a := budgeted w (hd_x script)).
      assert (Hstep : run_script_any (S f) k cmd p script w n =
                      run_script_any f k cmd (pcd_absorb_any k cmd p a) (tl script) (if wild_ans a then w - 1 else w) (n + 1)).
      { unfold is_done in Hd. cbn [run_script_any]. destruct (ph p); try discriminate; reflexivity. }
      change (goodr (fst (fst (run_script_any (S f) k cmd p script w n)))). rewrite Hstep.
      assert (Hwa : wild_ans a = true -> 0 < w).
      { unfold a, budgeted. destruct (wild_ans (hd_x script)) eqn:Ew; cbn [andb]; [|intro E; rewrite Ew in E; discriminate].
        destruct (w <=? 0) eqn:E0; [cbn; discriminate | lia]. }
      set (w' := if wild_ans a then w - 1 else w).
      assert (Hw' : 0 <= w' /\ w' <= w) by (unfold w'; destruct (wild_ans a); [specialize (Hwa eq_refl)|]; lia).
      pose proof (absorb_any_good k cmd H1 H2 p a Hg) as Hg'.
      rewrite (absorb_any_fix k cmd p a Hg) in *.
      destruct (absorb_MM k cmd H1 H2 H3 Hm Hn1 Hn2 p (fixa a) w w' Ho Hd) as [Ho' HM']; try lia.
      { intro Ewf. assert (Ewa : wild_ans a = true).
        { rewrite wild_ans_wildb. unfold fixa in Ewf. destruct a as [d| | |]; try discriminate.
          destruct (short_wtx d); [discriminate | exact Ewf]. }
        unfold w'. rewrite Ewa. lia. }
      apply IH; auto; lia.
Qed.

(* IsoDepInitiator.exchange(command) with the repairs 03 and 19 against EVERY script of answers: a response or
   Type4TagCommandError - it stops, whatever the card does (S(WTX) for ever, chained blocks for ever, R(ACK) for ever ...) *)
Theorem isodep_script_safe k cmd : fix_wtx_try k = true -> fix_wtx_chain k = true -> fix_rack k = true ->
  0 < miu k -> 0 <= n_nak k -> 0 <= n_ack k -> 0 < len cmd ->
  forall pn script, goodr (fst (fst (dep_exchange k cmd pn script))).
Proof.
  intros H1 H2 H3 Hm Hn1 Hn2 Hc pn script. unfold dep_exchange.
  apply (run_script_good k cmd H1 H2 H3 Hm Hn1 Hn2).
  - unfold pcd_start, goodph. cbn [ph]. replace (miu k =? 0) with false by lia.
    replace ((len cmd <=? 0) || (miu k <? 0)) with false by lia. exact I.
  - unfold pcd_start, okph. cbn [ph]. replace (miu k =? 0) with false by lia.
    replace ((len cmd <=? 0) || (miu k <? 0)) with false by lia. exact I.
  - unfold W_MAX; lia.
  - unfold pcd_start, MM, dep_fuel, CC, W_MAX. cbn [ph]. replace (miu k =? 0) with false by lia.
    replace ((len cmd <=? 0) || (miu k <? 0)) with false by lia. cbn [ph]. nia.
Qed.
