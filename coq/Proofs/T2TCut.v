(* C02, Type 2: after a power cut behind any WRITE command of an NDEF write a fresh reader sees the
   previous message, an empty message, or the complete new message. *)
From Coq Require Import ZArith List Bool Lia ZifyBool.
From NV Require Import Base.Result Base.Bytes Model.TlvMem Model.T2T Proofs.TlvLib Proofs.TlvPhases Proofs.T2TRead Proofs.T2TPhases Proofs.T2TWrite.
Import ListNotations.
Open Scope Z_scope.

Theorem t2_cut_safe m d cap : wf_layout m -> t2_capacity m = Some cap -> len d <= cap -> forall k,
  let mk := apply_ws m (firstn k (snd (t2_write m d))) in
  t2_fresh mk = t2_fresh m \/ t2_fresh mk = Msg [] \/ t2_fresh mk = Msg d.
Proof.
  intros Hwf Hcap Hd k. destruct (wf_layout_wfL m Hwf) as (L & HL). pose proof (wfL_capacity m L cap HL Hcap) as Hc.
  destruct (wfL_write_result m L d HL ltac:(lia)) as (cs & cf & Hw & _ & _ & _ & _ & Hf & Hcut).
  cbv zeta. rewrite Hw. cbn [snd]. specialize (Hcut k). cbv zeta in Hcut.
  assert (Hrd : l_rd L = true) by apply HL.
  unfold t2_fresh. destruct Hcut as [E|[E|E]].
  - left. rewrite E. reflexivity.
  - right; left. rewrite (wfL_hdr0_read m L _ HL ltac:(pose proof (len_nonneg d); lia) E). cbn [classify set_val l_rd l_val]. rewrite Hrd. reflexivity.
  - right; right. rewrite E, Hf. cbn [classify set_val l_rd l_val]. rewrite Hrd. reflexivity.
Qed.

(* the same statement for the list of observations the correspondence run compares *)
Lemma cut_mems_spec : forall ws m, cut_mems m ws = map (fun k => apply_ws m (firstn k ws)) (seq 0 (S (length ws))).
Proof.
  induction ws as [|w ws IH]; intro m; [reflexivity|].
  cbn [cut_mems length]. rewrite IH.
  change (seq 0 (S (S (length ws)))) with (0%nat :: seq 1 (S (length ws))). cbn [map firstn apply_ws fold_left].
  rewrite <- (seq_shift (S (length ws)) 0), map_map. reflexivity.
Qed.
Theorem t2_cut_obs_safe m d cap : wf_layout m -> t2_capacity m = Some cap -> len d <= cap ->
  Forall (fun f => f = t2_fresh m \/ f = Msg [] \/ f = Msg d) (t2_cut_obs m d).
Proof.
  intros Hwf Hcap Hd. unfold t2_cut_obs. rewrite cut_mems_spec, map_map. apply Forall_forall. intros f Hf.
  apply in_map_iff in Hf. destruct Hf as (k & <- & _). apply (t2_cut_safe m d cap Hwf Hcap Hd k).
Qed.
