(* C10 - the MIU taken over from the peer is 128 + the low 11 bits of the MIUX value, whatever the reserved
   bits are.  V is the 16-bit value of the TLV (struct '>H'): finite sweep over 0..65535, bound in the statement. *)
From Coq Require Import ZArith List Bool Lia ZifyBool.
From NV Require Import Base.Result Base.Bytes Base.Sweep Model.Collect.
Open Scope Z_scope.

Definition miux_chk (V : Z) : bool := (miux_decode V =? V mod 2048).
Lemma miux_sweep : sweep16 miux_chk = true.
Proof. vm_compute. reflexivity. Qed.

Theorem miux_learned V : 0 <= V < 65536 -> learn_miu (Some V) = 128 + V mod 2048 /\ 128 <= learn_miu (Some V) <= 2175.
Proof.
  intro H. pose proof (sweep16_lift miux_chk miux_sweep V H) as E. unfold miux_chk in E.
  apply Z.eqb_eq in E. unfold learn_miu. rewrite E. pose proof (Z.mod_pos_bound V 2048 ltac:(lia)). lia.
Qed.

Theorem conn_learned M V s : 0 <= V < 65536 ->
  smiu (learn_conn_miu M (Some V) s) = Z.min M (128 + V mod 2048) /\
  peer (learn_conn_miu M (Some V) s) = peer s /\ addr (learn_conn_miu M (Some V) s) = addr s.
Proof.
  intro H. destruct (miux_learned V H) as [E _]. unfold learn_conn_miu, llc_clamp_miu. cbn [smiu with_smiu].
  rewrite E. destruct (128 + V mod 2048 >? M) eqn:C; cbn [smiu peer addr with_smiu]; repeat split; lia.
Qed.
