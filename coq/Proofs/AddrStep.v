(* C17 - every operation preserves the invariant; addresses are handed out only while free
   and a socket never changes its address. *)
From Coq Require Import ZArith List Bool Lia ZifyBool.
From NV Require Import Base.Result Base.Bytes Base.PyPrims Model.Addr Proofs.Addr Proofs.AddrInv.
Import ListNotations.
Open Scope Z_scope.

(* every existing socket keeps its address *)
Definition same_addrs (c c' : ctl) : Prop :=
  forall j sj, get_sock c j = Some sj -> exists sj', get_sock c' j = Some sj' /\ s_type sj' = s_type sj /\ s_addr sj' = s_addr sj.
(* ... or gets one that was free before the step *)
Definition addr_step (c c' : ctl) : Prop :=
  forall j sj, get_sock c j = Some sj -> exists sj', get_sock c' j = Some sj' /\ s_type sj' = s_type sj /\
    (s_addr sj' = s_addr sj \/ (s_addr sj = None /\ exists a, s_addr sj' = Some a /\ is_free c a = true)).

Lemma same_refl c : same_addrs c c.
Proof. intros j sj G. eauto. Qed.
Lemma same_trans c1 c2 c3 : same_addrs c1 c2 -> same_addrs c2 c3 -> same_addrs c1 c3.
Proof. intros H1 H2 j sj G. destruct (H1 j sj G) as (s2 & G2 & T2 & A2). destruct (H2 j s2 G2) as (s3 & G3 & T3 & A3).
  exists s3. repeat split; auto; congruence. Qed.
Lemma same_step c c' : same_addrs c c' -> addr_step c c'.
Proof. intros H j sj G. destruct (H j sj G) as (s' & G' & T' & A'). eauto. Qed.
Lemma step_same c1 c2 c3 : addr_step c1 c2 -> same_addrs c2 c3 -> addr_step c1 c3.
Proof. intros H1 H2 j sj G. destruct (H1 j sj G) as (s2 & G2 & T2 & A2). destruct (H2 j s2 G2) as (s3 & G3 & T3 & A3).
  exists s3. split; auto. split; [congruence|]. rewrite A3. auto. Qed.

Lemma same_ext c c' : c_socks c' = c_socks c -> same_addrs c c'.
Proof. intros E j sj G. exists sj. unfold get_sock in *. rewrite E. auto. Qed.
Lemma same_put c i s s' : get_sock c i = Some s -> s_addr s' = s_addr s -> s_type s' = s_type s -> same_addrs c (put_sock c i s').
Proof. intros G A T j sj Gj. rewrite (get_put c i s' s j G). destruct (Nat.eqb i j) eqn:E; [|eauto].
  apply Nat.eqb_eq in E. subst j. exists s'. repeat split; auto; congruence. Qed.
Lemma same_sap_set c a e : same_addrs c (sap_set c a e).
Proof. apply same_ext. apply sap_set_socks. Qed.
Lemma same_new c x : same_addrs c (set_socks c (c_socks c ++ [x])).
Proof. intros j sj G. exists sj. split; auto. rewrite get_sock_app_old; auto. eapply get_sock_lt; eauto. Qed.
Lemma same_sap_remove c a i : same_addrs c (sap_remove c a i).
Proof. unfold sap_remove. destruct (sap_get c a); try apply same_refl.
  destruct (remove_id socks i); [|apply same_sap_set].
  eapply same_trans; [apply same_sap_set|]. apply same_ext. reflexivity. Qed.

Definition good (c c' : ctl) : Prop := wf c' /\ addr_step c c'.
Definition goods (c c' : ctl) : Prop := wf c' /\ same_addrs c c'.
Lemma goods_good c c' : goods c c' -> good c c'.
Proof. intros [W S]. split; auto. apply same_step; auto. Qed.
Lemma goods_refl c : wf c -> goods c c.
Proof. intro W. split; auto. apply same_refl. Qed.
Lemma good_goods c1 c2 c3 : good c1 c2 -> goods c2 c3 -> good c1 c3.
Proof. intros [W1 S1] [W2 S2]. split; auto. eapply step_same; eauto. Qed.
Lemma goods_trans c1 c2 c3 : goods c1 c2 -> goods c2 c3 -> goods c1 c3.
Proof. intros [W1 S1] [W2 S2]. split; auto. eapply same_trans; eauto. Qed.

(* ---------------------------------------------------------------- evolves: automation *)
Lemma in_tl {A} (x : A) l : In x (tl l) -> In x l.
Proof. destruct l; cbn; auto. Qed.

Ltac st_tac :=
  unfold nolisten; cbn; intros;
  repeat match goal with H : _ \/ _ |- _ => destruct H end; try congruence; intuition congruence.
(* queue conditions: the queue is unchanged, shorter, or the socket is not a datagram socket *)
Ltac q_tac :=
  intros; try congruence;
  repeat match goal with
  | H : In _ (_ ++ _) |- _ => apply in_app_or in H; destruct H as [H|H]
  | H : In _ [] |- _ => destruct H
  | H : False |- _ => destruct H
  | H : _ \/ False |- _ => destruct H as [H|[]]
  | H : In _ [_] |- _ => destruct H as [H|[]]
  | H : In _ (tl _) |- _ => apply in_tl in H
  end;
  try (match goal with Q : s_recvq ?s = _ :: _ |- _ => rewrite Q end; cbn; auto; fail);
  try (match goal with Q : s_sendq ?s = _ :: _ |- _ => rewrite Q end; cbn; auto; fail);
  try (subst; right; reflexivity);
  auto.
Ltac ev_tac :=
  constructor; cbn;
  [ first [reflexivity | congruence | auto] | first [reflexivity | congruence | auto] | first [reflexivity | congruence | auto]
  | st_tac | st_tac | q_tac | q_tac | q_tac ].

Lemma goods_put c i s s' : wf c -> get_sock c i = Some s -> evolves s s' -> goods c (put_sock c i s').
Proof. intros W G E. split; [eapply wf_put_evolve; eauto | eapply same_put; eauto; apply E]. Qed.

Lemma goods_sd c cache tids sent sdreq sdres wait : wf c -> goods c (set_sd c cache tids sent sdreq sdres wait).
Proof. intro W. split; [apply (wf_ext c); auto; apply W | apply same_ext; reflexivity]. Qed.
Lemma goods_dmpdu c l : wf c -> (forall p, In p l -> is_ui p = false) -> goods c (set_dmpdu c l).
Proof. intros W NU. split; [apply (wf_ext c); auto | apply same_ext; reflexivity]. Qed.
Lemma goods_sendl c a l sl sl' : wf c -> sap_get c a = Sap l sl -> (forall p, In p sl' -> is_ui p = false) ->
  goods c (sap_set c a (Sap l sl')).
Proof. intros W G NU. split; [eapply wf_sendl; eauto | apply same_sap_set]. Qed.

(* ---------------------------------------------------------------- bind *)
Lemma place_get_self c i s a s0 : get_sock c i = Some s0 -> get_sock (place c i s a) i = Some (set_addr s (Some a)).
Proof. intro G. unfold place. rewrite get_sock_sap_set. eapply get_put_same; eauto. Qed.
Lemma place_get_other c i s a j : i <> j -> get_sock (place c i s a) j = get_sock c j.
Proof. intro N. unfold place. rewrite get_sock_sap_set. apply get_put_other; auto. Qed.

Lemma step_place c i s0 s a : get_sock c i = Some s0 -> s_addr s0 = None -> s_type s = s_type s0 -> is_free c a = true ->
  addr_step c (place c i s a).
Proof. intros G A T F j sj Gj. destruct (Nat.eq_dec i j).
  - subst j. rewrite (place_get_self c i s a s0 G). eexists. split; eauto. split; [cbn; congruence|]. right. split; [congruence|]. exists a. auto.
  - rewrite place_get_other by auto. eauto. Qed.

Lemma good_place c i s a : wf c -> get_sock c i = Some s -> s_addr s = None -> is_free c a = true -> 2 <= a < 64 ->
  good c (place c i s a).
Proof. intros. split; [apply wf_place; auto | eapply step_place; eauto]. Qed.

Lemma bind_none_good c i s c' oa : wf c -> get_sock c i = Some s -> s_addr s = None -> bind_none c i s = (c', oa) ->
  good c c' /\
  match oa with
  | Some a => c' = place c i s a /\ 32 <= a < 64 /\ is_free c a = true /\ (forall b, 32 <= b < a -> is_free c b = false)
  | None => c' = c /\ forall b, 32 <= b < 64 -> is_free c b = false
  end.
Proof.
  intros W G A. unfold bind_none. destruct (first_free c (zrange 32 64)) as [a|] eqn:F; intro H; inversion H; subst.
  - destruct (first_free_range_some _ _ _ _ F) as (R & Fa & L). split; [apply good_place; auto; lia | auto].
  - split; [apply goods_good, goods_refl; auto | split; auto]. apply first_free_range_none; auto.
Qed.

(* all fields but the address *)
Definition same_but_addr (s s' : sock) : Prop :=
  s_type s' = s_type s /\ s_state s' = s_state s /\ s_peer s' = s_peer s /\ s_rbuf s' = s_rbuf s /\
  s_recvq s' = s_recvq s /\ s_sendq s' = s_sendq s /\ s_pend s' = s_pend s /\ s_bname s' = s_bname s.

Lemma autobind_good c i s c' os : wf c -> get_sock c i = Some s -> autobind c i s = (c', os) ->
  good c c' /\ match os with
               | Some s' => get_sock c' i = Some s' /\ same_but_addr s s' /\ (exists a, s_addr s' = Some a) /\
                            (s_addr s <> None -> s' = s /\ c' = c)
               | None => c' = c /\ s_addr s = None /\ forall b, 32 <= b < 64 -> is_free c b = false
               end.
Proof.
  intros W G. unfold autobind. destruct (s_addr s) as [a0|] eqn:A.
  - intro H; inversion H; subst. split; [apply goods_good, goods_refl; auto|].
    split; auto. split; [repeat split; auto|]. split; eauto.
  - destruct (bind_none c i s) as [c1 [a|]] eqn:B; intro H; inversion H; subst;
      destruct (bind_none_good _ _ _ _ _ W G A B) as (Gd & P); split; auto.
    + destruct P as (-> & R & F & L). split; [eapply place_get_self; eauto|].
      split; [repeat split; auto|]. split; [cbn; eauto | intro N; congruence].
    + destruct P as (-> & L). auto.
Qed.

Lemma good_refl c : wf c -> good c c.
Proof. intro W. apply goods_good, goods_refl; auto. Qed.

Lemma wks_cases n a : wks n = Some a -> a = 1 \/ a = 4.
Proof. unfold wks. destruct (name_eqb n name_sdp); [intro H; inversion H; auto|].
  destruct (name_eqb n name_snep); [intro H; inversion H; auto | discriminate]. Qed.

Lemma place_named_get_self c i s a on s0 : get_sock c i = Some s0 ->
  get_sock (place_named c i s a on) i = Some (set_addr (set_bname s on) (Some a)).
Proof. intro G. unfold place_named. change (get_sock (place c i (set_bname s on) a) i = Some (set_addr (set_bname s on) (Some a))).
  eapply place_get_self; eauto. Qed.
Lemma place_named_get_other c i s a on j : i <> j -> get_sock (place_named c i s a on) j = get_sock c j.
Proof. intro N. unfold place_named. change (get_sock (place c i (set_bname s on) a) j = get_sock c j).
  apply place_get_other; auto. Qed.
Lemma step_place_named c i s a on : get_sock c i = Some s -> s_addr s = None -> is_free c a = true ->
  addr_step c (place_named c i s a on).
Proof. intros G A F j sj Gj. destruct (Nat.eq_dec i j).
  - subst j. rewrite (place_named_get_self c i s a on s G). eexists. split; eauto. split; [cbn; congruence|]. right. split; [congruence|]. exists a. auto.
  - rewrite place_named_get_other by auto. eauto. Qed.

Lemma do_socket_good c t : wf c -> good c (fst (do_socket c t)).
Proof. intro W. cbn. apply goods_good. split; [apply wf_new_sock; auto; destruct t; reflexivity | apply same_new]. Qed.

Lemma do_bind_good c i arg : wf c -> good c (fst (do_bind c i arg)).
Proof.
  intro W. unfold do_bind. destruct (get_sock c i) as [s|] eqn:G; [|apply good_refl; auto].
  destruct (s_addr s) eqn:A; [apply good_refl; auto|].
  destruct arg as [|a|n|]; try (apply good_refl; auto).
  - destruct (bind_none c i s) as [c' [a|]] eqn:B; destruct (bind_none_good _ _ _ _ _ W G A B) as (Gd & _); auto.
  - unfold bind_addr. destruct ((a <? 0) || (63 <? a)) eqn:R; [apply good_refl; auto|].
    destruct (((32 <=? a) && (a <=? 63)) || stype_eqb (s_type s) TRaw); [|apply good_refl; auto].
    destruct (is_free c a) eqn:F; [|apply good_refl; auto]. cbn.
    apply good_place; auto. assert (a <> 0 /\ a <> 1).
    { split; intro; subst a; apply is_free_iff in F; [destruct (wf_sap0 _ W) as (sl & E) | pose proof (wf_sap1 _ W) as E]; congruence. }
    lia.
  - unfold bind_name. destruct (negb (name_valid n)) eqn:V; [apply good_refl; auto|].
    destruct (lookup (c_snl c) n) eqn:L; [apply good_refl; auto|].
    assert (V' : name_valid n = true) by (destruct (name_valid n); auto; discriminate).
    destruct (wks n) as [a|] eqn:K.
    + destruct (is_free c a) eqn:F; [|apply good_refl; auto]. cbn.
      assert (a = 4). { destruct (wks_cases _ _ K); auto. subst a. apply is_free_iff in F. rewrite (wf_sap1 _ W) in F. discriminate. }
      change (good c (place_named c i s a (Some n))). split; [|apply step_place_named; auto].
      apply wf_place_named; auto; [lia|]. intros m E; inversion E; subst m. auto.
    + destruct (first_free c (zrange 16 32)) as [a|] eqn:FF; [|apply good_refl; auto]. cbn.
      destruct (first_free_range_some _ _ _ _ FF) as (R & F & _).
      change (good c (place_named c i s a (Some n))). split; [|apply step_place_named; auto].
      apply wf_place_named; auto; [lia|]. intros m E; inversion E; subst m. auto.
Qed.

(* ---------------------------------------------------------------- close *)
Lemma base_close_evolves s : evolves s (base_close s).
Proof. ev_tac. Qed.
Lemma sock_close_some s s' : sock_close s = Some s' -> evolves s s' /\ s_state s' = StShutdown.
Proof.
  unfold sock_close. destruct (s_type s) eqn:Ty; try (intro H; inversion H; split; [apply base_close_evolves | reflexivity]).
  destruct (sstate_eqb (s_state s) StEstablished && _) eqn:E.
  - cbn [s_recvq set_sendq set_state]. destruct (s_recvq s); [discriminate|]. intro H; inversion H.
    split; [ev_tac | reflexivity].
  - intro H; inversion H; split; [apply base_close_evolves | reflexivity].
Qed.
Lemma sock_close_none s : sock_close s = None ->
  s_type s = TDlc /\ s_state s = StEstablished /\ s_addr s <> None /\ s_recvq s = [] /\ evolves s (sock_close_wait s).
Proof.
  unfold sock_close. destruct (s_type s) eqn:Ty; try discriminate.
  destruct (sstate_eqb (s_state s) StEstablished && _) eqn:E; [|discriminate].
  apply andb_true_iff in E. destruct E as [E1 E2].
  assert (St : s_state s = StEstablished) by (destruct (s_state s); auto; discriminate).
  cbn [s_recvq set_sendq set_state]. destruct (s_recvq s) eqn:Q; [|discriminate]. intros _.
  split; [reflexivity|]. split; [auto|]. split; [destruct (s_addr s); [discriminate | discriminate E2]|]. split; [reflexivity|].
  unfold sock_close_wait. ev_tac.
Qed.

Lemma close_tail_good c i s s' a : wf c -> get_sock c i = Some s -> s_addr s = Some a ->
  evolves s s' -> s_state s' = StShutdown -> goods c (sap_remove (put_sock c i s') a i).
Proof.
  intros W G A E St. destruct (goods_put c i s s' W G E) as [W1 S1].
  split; [|eapply same_trans; [exact S1 | apply same_sap_remove]].
  eapply wf_sap_remove; eauto; [eapply get_put_same; eauto|]. eapply (wf_addr_range _ W); eauto.
Qed.

Lemma do_close_good c i : wf c -> good c (fst (do_close c i)).
Proof.
  intro W. unfold do_close. destruct (get_sock c i) as [s|] eqn:G; [|apply good_refl; auto].
  destruct (s_pend s); try (apply good_refl; auto).
  destruct (s_addr s) as [a|] eqn:A.
  - assert (PL : good c (fst (match sock_close s with
                              | Some s' => ok (put_sock c i s') OUnit
                              | None => ok (put_sock c i (sock_close_wait s)) OPending
                              end))).
    { destruct (sock_close s) as [s'|] eqn:SC; cbn; apply goods_good.
      - destruct (sock_close_some _ _ SC). eapply goods_put; eauto.
      - destruct (sock_close_none _ SC) as (_ & _ & _ & _ & E). eapply goods_put; eauto. }
    destruct (sap_get c a) eqn:SG; try exact PL.
    destruct (sock_close s) as [s'|] eqn:SC; cbn.
    + destruct (sock_close_some _ _ SC). apply goods_good. eapply close_tail_good; eauto.
    + destruct (sock_close_none _ SC) as (_ & _ & _ & _ & E). apply goods_good. eapply goods_put; eauto.
  - destruct (sock_close s) as [s'|] eqn:SC; cbn; [|apply good_refl; auto].
    destruct (sock_close_some _ _ SC). apply goods_good. eapply goods_put; eauto.
Qed.

(* ---------------------------------------------------------------- the other local operations *)
(* after autobind: put an evolved version of the socket back *)
Lemma autobind_then_put c i s c' s' s'' : wf c -> get_sock c i = Some s -> autobind c i s = (c', Some s') ->
  evolves s' s'' -> good c (put_sock c' i s'').
Proof.
  intros W G AB E. destruct (autobind_good _ _ _ _ _ W G AB) as ((W' & S') & G' & _).
  eapply good_goods; [split; eauto|]. eapply goods_put; eauto.
Qed.
Lemma autobind_then_put' c i s c' s' s'' : wf c -> get_sock c i = Some s -> autobind c i s = (c', Some s') ->
  ((exists a, s_addr s' = Some a) -> s_type s' = s_type s -> evolves s' s'') -> good c (put_sock c' i s'').
Proof.
  intros W G AB E. destruct (autobind_good _ _ _ _ _ W G AB) as ((W' & S') & G' & (T & _) & A & _).
  eapply good_goods; [split; eauto|]. eapply goods_put; eauto.
Qed.
Lemma autobind_only c i s c' os : wf c -> get_sock c i = Some s -> autobind c i s = (c', os) -> good c c'.
Proof. intros W G AB. destruct (autobind_good _ _ _ _ _ W G AB); auto. Qed.

Lemma do_listen_good c i b : wf c -> good c (fst (do_listen c i b)).
Proof.
  intro W. unfold do_listen. destruct (get_sock c i) as [s|] eqn:G; [|apply good_refl; auto].
  destruct (s_pend s); try (apply good_refl; auto).
  destruct (s_type s); try (apply good_refl; auto).
  destruct (b <? 0); [apply good_refl; auto|].
  destruct (autobind c i s) as [c' [s'|]] eqn:AB; [|eapply autobind_only; eauto].
  destruct (s_state s') eqn:St; cbn; try solve [eapply autobind_only; eauto].
  eapply autobind_then_put; eauto. ev_tac.
Qed.

Lemma do_accept_good c i : wf c -> good c (fst (do_accept c i)).
Proof.
  intro W. unfold do_accept. destruct (get_sock c i) as [s|] eqn:G; [|apply good_refl; auto].
  destruct (s_pend s); try (apply good_refl; auto).
  destruct (s_type s) eqn:Ty; try (apply good_refl; auto).
  destruct (s_state s) eqn:St; try (apply good_refl; auto).
  destruct (s_recvq s) as [|p q] eqn:Q; [apply good_refl; auto|].
  assert (NC : forall q', good c (put_sock c i (set_recvq s q'))).
  { intro q'. apply goods_good. eapply goods_put; eauto. ev_tac. }
  destruct p; try (cbn; apply NC).
  set (cc := PCC s0 _).
  set (s1 := set_sendq (set_recvq s q) (s_sendq s ++ [cc])).
  assert (E1 : evolves s s1) by (unfold s1; ev_tac).
  destruct (goods_put c i s s1 W G E1) as [W1 S1].
  set (c1 := put_sock c i s1) in *.
  set (client := mkSock TDlc StEstablished (s_addr s) (Some s0) 1 [] [] PdNone None).
  destruct (s_addr s) as [a|] eqn:A.
  - assert (G1 : get_sock c1 i = Some s1) by (eapply get_put_same; eauto).
    assert (L1 : listed c1 a i). { eapply (wf_open_listed _ W1); eauto. unfold s1. cbn. congruence. }
    destruct (wf_accept c1 a i s1 client W1 L1 G1) as (c3 & INS & W3 & _ & _ & OTH & _); auto.
    { unfold nolisten; cbn; auto. }
    change (length (c_socks c)) with (length (c_socks c)).
    assert (LEN : length (c_socks c1) = length (c_socks c)) by apply put_sock_len.
    rewrite LEN in INS. fold client. rewrite INS. cbn. split; auto.
    eapply step_same; [apply same_step; exact S1|].
    intros j sj Gj. exists sj. split; auto. rewrite OTH; auto. apply get_sock_lt in Gj. lia.
  - cbn. apply goods_good. split; auto.
Qed.

Lemma do_connect_good c i d : wf c -> good c (fst (do_connect c i d)).
Proof.
  intro W. unfold do_connect. destruct (get_sock c i) as [s|] eqn:G; [|apply good_refl; auto].
  destruct (s_pend s); try (apply good_refl; auto).
  destruct (autobind c i s) as [c' [s'|]] eqn:AB; [|eapply autobind_only; eauto].
  destruct (s_type s') eqn:Ty'; [eapply autobind_only; eauto | |].
  - destruct (s_state s'); try solve [eapply autobind_only; eauto];
      (destruct d; cbn; [eapply autobind_then_put; eauto; ev_tac | eapply autobind_only; eauto]).
  - destruct (s_state s') eqn:St; try solve [eapply autobind_only; eauto].
    cbn [s_recvq set_sendq set_state]. destruct (s_recvq s'); destruct d; cbn; eapply autobind_then_put; eauto; ev_tac.
Qed.

Lemma do_sendto_good c i m d : wf c -> good c (fst (do_sendto c i m d)).
Proof.
  intro W. unfold do_sendto. destruct (get_sock c i) as [s|] eqn:G; [|apply good_refl; auto].
  destruct (s_pend s); try (apply good_refl; auto).
  destruct (s_type s) eqn:Ty; try (apply good_refl; auto).
  - destruct (autobind c i s) as [c' [s'|]] eqn:AB; [|eapply autobind_only; eauto].
    destruct (s_state s') eqn:St'; try solve [eapply autobind_only; eauto];
    (match goal with |- context [if ?b then _ else _] => destruct b end; [eapply autobind_only; eauto|];
     destruct (link_miu <? len m); [eapply autobind_only; eauto|]; cbn; eapply autobind_then_put'; eauto;
     intros (a & A) T; rewrite A; constructor; cbn; auto; try st_tac;
     intros _ p H; apply in_app_or in H; destruct H as [H|[H|[]]]; auto; right; subst p; exists d, m, a; auto).
  - destruct (s_state s); apply good_refl; auto.
Qed.

Lemma do_rawsend_good c i p : wf c -> good c (fst (do_rawsend c i p)).
Proof.
  intro W. unfold do_rawsend. destruct (get_sock c i) as [s|] eqn:G; [|apply good_refl; auto].
  destruct (s_type s) eqn:Ty; try (apply good_refl; auto).
  destruct (autobind c i s) as [c' [s'|]] eqn:AB; [|eapply autobind_only; eauto].
  destruct (s_state s') eqn:St'; try solve [eapply autobind_only; eauto]; cbn; eapply autobind_then_put'; eauto;
    intros _ T; ev_tac.
Qed.

Lemma do_recvfrom_good c i : wf c -> good c (fst (do_recvfrom c i)).
Proof.
  intro W. unfold do_recvfrom. destruct (get_sock c i) as [s|] eqn:G; [|apply good_refl; auto].
  destruct (s_pend s); try (apply good_refl; auto).
  match goal with |- context [if ?b then _ else _] => destruct b end; [apply good_refl; auto|].
  assert (EV : forall q', (forall x, In x q' -> In x (s_recvq s)) -> evolves s (set_recvq s q')).
  { intros q' Sub. constructor; cbn; auto. }
  assert (NC : forall q', (forall x, In x q' -> In x (s_recvq s)) -> good c (put_sock c i (set_recvq s q'))).
  { intros q' Sub. apply goods_good. eapply goods_put; eauto. }
  destruct (s_type s) eqn:Ty.
  - destruct (s_state s); try (apply good_refl; auto);
      (destruct (s_recvq s) as [|p q] eqn:Q; [apply good_refl; auto | cbn; apply NC; intros x Hx; right; exact Hx]).
  - destruct (s_state s); try (apply good_refl; auto);
      (destruct (s_recvq s) as [|p q] eqn:Q; [apply good_refl; auto | destruct p; cbn; apply NC; intros x Hx; right; exact Hx]).
  - destruct (s_state s); try (apply good_refl; auto);
      (destruct (s_recvq s) as [|p q] eqn:Q; [apply good_refl; auto |];
       destruct p; try (cbn; apply NC; intros x Hx; right; exact Hx);
       destruct (sock_close (set_recvq s q)) as [s'|] eqn:SC; [|apply good_refl; auto]; cbn;
       destruct (sock_close_some _ _ SC) as [E _]; apply goods_good; eapply goods_put; eauto;
       eapply evolves_trans; [|exact E]; apply EV; intros x Hx; right; exact Hx).
Qed.

Lemma do_rcvbuf_good c i v : wf c -> good c (fst (do_rcvbuf c i v)).
Proof.
  intro W. unfold do_rcvbuf. destruct (get_sock c i) as [s|] eqn:G; [|apply good_refl; auto].
  destruct (s_type s); try (apply good_refl; auto);
    (destruct (s_state s); try (apply good_refl; auto); cbn; apply goods_good; eapply goods_put; eauto; ev_tac).
Qed.

Lemma do_resolve_good c n k : wf c -> good c (fst (do_resolve c n k)).
Proof.
  intro W. unfold do_resolve. destruct (lookup (sd_cache c) n); [apply good_refl; auto|].
  destruct (sd_tids c); [apply good_refl; auto|]. cbn. apply goods_good, goods_sd; auto.
Qed.

Lemma lstep_good c o : wf c -> good c (fst (lstep c o)).
Proof.
  intro W. destruct o; cbn [lstep].
  - apply do_socket_good; auto.
  - apply do_bind_good; auto.
  - apply do_listen_good; auto.
  - apply do_accept_good; auto.
  - apply do_connect_good; auto.
  - apply do_sendto_good; auto.
  - apply do_rawsend_good; auto.
  - apply do_recvfrom_good; auto.
  - apply do_rcvbuf_good; auto.
  - apply do_resolve_good; auto.
  - apply do_close_good; auto.
  - destruct (get_sock c i) as [s|]; [destruct (s_addr s)|]; apply good_refl; auto.
Qed.

(* ---------------------------------------------------------------- collect *)
Lemma base_dequeue_evolves s m p s' : base_dequeue s m = Some (p, s') -> s' = set_sendq s (tl (s_sendq s)) /\ s_sendq s = p :: s_sendq s'.
Proof. unfold base_dequeue. destruct (s_sendq s) as [|h t] eqn:Q; [discriminate|].
  destruct m as [m|]; [destruct (m <? pdu_isize h); [discriminate|]|]; intro H; inversion H; subst; cbn; auto. Qed.

Lemma sock_dequeue_evolves s miu p s' : sock_dequeue s miu = Some (p, s') -> evolves s s'.
Proof.
  unfold sock_dequeue. destruct (s_type s) eqn:T.
  - intro H. apply base_dequeue_evolves in H. destruct H as [-> _]. ev_tac.
  - intro H. apply base_dequeue_evolves in H. destruct H as [-> _]. ev_tac.
  - destruct (base_dequeue s (Some miu)) as [[p1 s1]|] eqn:B; [|discriminate].
    apply base_dequeue_evolves in B. destruct B as [-> _].
    destruct p1; try (intro H; inversion H; subst; ev_tac).
    destruct (sstate_eqb _ _); intro H; inversion H; subst; ev_tac.
Qed.

Lemma socks_dequeue_good c l miu p c' : wf c -> socks_dequeue c l miu = Some (p, c') -> goods c c'.
Proof.
  intro W. induction l as [|i t IH]; cbn; [discriminate|].
  destruct (get_sock c i) as [s|] eqn:G; auto.
  destruct (sock_dequeue s miu) as [[p1 s1]|] eqn:D; auto.
  intro H; inversion H; subst. eapply goods_put; eauto. eapply sock_dequeue_evolves; eauto.
Qed.

Lemma sd_dequeue_good c miu p c' : wf c -> sd_dequeue c miu = Some (p, c') -> goods c c'.
Proof.
  intro W. unfold sd_dequeue.
  destruct (sd_sdres c) eqn:R, (sd_sdreq c) eqn:Q;
  try (destruct (take_sdres _ _ _) as [[rs rest] m1]; destruct (take_sdreq _ _ _ _) as [rq rest']; intro H; inversion H; subst;
       apply goods_sd; auto).
  destruct (sd_dmpdu c) eqn:DM; [discriminate|]. destruct (0 <? miu); [|discriminate]. intro H; inversion H; subst.
  apply goods_dmpdu; auto. intros q Hq. apply (wf_dmpdu_ui _ W). rewrite DM. right; auto.
Qed.

Lemma collect1_good c a miu p c' : wf c -> collect1 c a miu = Some (p, c') -> goods c c'.
Proof.
  intro W. unfold collect1. destruct (sap_get c a) as [| |l sl] eqn:SG; [discriminate | apply sd_dequeue_good; auto |].
  destruct (socks_dequeue c l miu) as [[p1 c1]|] eqn:D.
  - intro H; inversion H; subst. eapply socks_dequeue_good; eauto.
  - destruct sl as [|h t]; [discriminate|]. intro H; inversion H; subst. eapply goods_sendl; eauto.
    intros q Hq. eapply (wf_sendl_ui _ W); eauto. right; auto.
Qed.

(* ---------------------------------------------------------------- dispatch *)
Lemma pick_sock_some c l f i s : pick_sock c l f = Some (i, s) -> In i l /\ get_sock c i = Some s /\ f s = true.
Proof. induction l as [|x t IH]; cbn; [discriminate|].
  destruct (get_sock c x) as [sx|] eqn:G.
  - destruct (f sx) eqn:F; [intro H; inversion H; subst; auto | intro H; destruct (IH H) as (? & ? & ?); auto].
  - intro H; destruct (IH H) as (? & ? & ?); auto. Qed.

Lemma finish_connect_good c i s s' : wf c -> get_sock c i = Some s -> s_state s = StConnect -> evolves s s' ->
  s_state s' = StConnect -> goods c (fst (finish_connect c i s')).
Proof.
  intros W G St E St'. unfold finish_connect. destruct (s_recvq s') as [|h t] eqn:Q; [apply goods_refl; auto|].
  destruct h; try (apply goods_refl; auto); cbn; eapply goods_put; eauto; (eapply evolves_trans; [exact E|]); ev_tac.
Qed.

Lemma finish_close_good c i s s' : wf c -> get_sock c i = Some s -> evolves s s' -> goods c (fst (finish_close c i s')).
Proof.
  intros W G E. unfold finish_close. destruct (s_recvq s') as [|h t] eqn:Q; [apply goods_refl; auto|]. cbn.
  set (s2 := set_pend (base_close (set_recvq s' t)) PdNone).
  assert (E2 : evolves s s2) by (eapply evolves_trans; [exact E|]; unfold s2; ev_tac).
  destruct (s_addr s') as [a|] eqn:A.
  - eapply close_tail_good; eauto. rewrite <- A. symmetry. apply E.
  - eapply goods_put; eauto.
Qed.

Lemma sock_enqueue_good c i s p : wf c -> get_sock c i = Some s -> s_addr s = Some (pdu_dsap p) ->
  goods c (fst (sock_enqueue c i s p)).
Proof.
  intros W G AD. unfold sock_enqueue.
  assert (B : forall s0, (if len (s_recvq s0) <? s_rbuf s0 then Some (set_recvq s0 (s_recvq s0 ++ [p])) else None) = None \/
                         (if len (s_recvq s0) <? s_rbuf s0 then Some (set_recvq s0 (s_recvq s0 ++ [p])) else None) = Some (set_recvq s0 (s_recvq s0 ++ [p]))).
  { intro s0. destruct (len (s_recvq s0) <? s_rbuf s0); eauto. }
  destruct (s_type s) eqn:Ty.
  - destruct (B s) as [-> | ->]; cbn; [apply goods_refl; auto | eapply goods_put; eauto; ev_tac].
  - destruct p; try (apply goods_refl; auto).
    destruct (link_miu <? len data); [apply goods_refl; auto|].
    destruct (B s) as [-> | ->]; cbn; [apply goods_refl; auto | eapply goods_put; eauto].
    constructor; cbn; auto. intros _ x Hx. apply in_app_or in Hx. destruct Hx as [Hx|[Hx|[]]]; auto.
    right. subst x. exists d, s0, data. auto.
  - destruct (negb (is_dlc_pdu p)) eqn:ND.
    + destruct (negb (c_enq_blocks c) && sstate_eqb (s_state s) StEstablished) eqn:NB.
      { cbn. eapply goods_put; eauto. ev_tac. }
      destruct (sock_close s) as [s'|] eqn:SC; [|apply goods_refl; auto].
      destruct (sock_close_some _ _ SC) as [E St].
      set (s2 := set_pend (set_sendq s' _) PdNone).
      assert (E2 : evolves s s2).
      { eapply evolves_trans; [exact E|]. assert (T' : s_type s' = TDlc) by (rewrite (ev_type _ _ E); auto). unfold s2; ev_tac. }
      destruct (s_pend s); cbn; try (eapply goods_put; eauto).
      destruct (s_addr s) as [a|] eqn:A; [|eapply goods_put; eauto].
      eapply close_tail_good; eauto.
    + destruct (s_state s) eqn:St; try (apply goods_refl; auto).
      * cbn. eapply goods_put; eauto; ev_tac.
      * destruct (is_connect p); [|apply goods_refl; auto].
        destruct (B s) as [-> | ->]; cbn; eapply goods_put; eauto; ev_tac.
      * assert (K : forall p', goods c (fst (let s' := set_recvq s (s_recvq s ++ [p']) in
                        match s_pend s with
                        | PdConnect => let '(c', evs) := finish_connect c i s' in (c', Ok (EvEnq i p' :: evs))
                        | _ => (put_sock c i s', Ok [EvEnq i p'])
                        end))).
        { intro p'. cbn zeta. destruct (s_pend s); cbn; try (eapply goods_put; eauto; ev_tac).
          destruct (finish_connect c i (set_recvq s (s_recvq s ++ [p']))) as [c1 evs] eqn:FC. cbn.
          change c1 with (fst (c1, evs)). rewrite <- FC. eapply finish_connect_good; eauto. ev_tac. }
        destruct p; try (apply goods_refl; auto); apply K.
      * destruct p; try (apply goods_refl; auto); cbn; eapply goods_put; eauto; ev_tac.
      * destruct p; try (apply goods_refl; auto). cbn zeta.
        destruct (s_pend s); cbn; try (eapply goods_put; eauto; ev_tac).
        destruct (finish_close c i (set_recvq s (s_recvq s ++ [PDM d s0 r]))) as [c1 evs] eqn:FC. cbn.
        change c1 with (fst (c1, evs)). rewrite <- FC. eapply finish_close_good; eauto. ev_tac.
Qed.

Lemma sap_enqueue_good c a l sl p : wf c -> sap_get c a = Sap l sl -> a = pdu_dsap p -> goods c (fst (sap_enqueue c a l sl p)).
Proof.
  intros W SG EA. unfold sap_enqueue.
  assert (AD : forall i s, In i l -> get_sock c i = Some s -> s_addr s = Some (pdu_dsap p)).
  { intros i s Li G. assert (L : listed c a i) by (unfold listed; rewrite SG; auto).
    destruct (wf_listed_addr _ W a i L) as (s0 & G0 & A0). congruence. }
  assert (NU : forall r q, In q (sl ++ [PDM (pdu_ssap p) (pdu_dsap p) r]) -> is_ui q = false).
  { intros r q Hq. apply in_app_or in Hq. destruct Hq as [Hq|[<-|[]]]; [eapply (wf_sendl_ui _ W); eauto | reflexivity]. }
  destruct (is_connect p).
  - destruct (pick_sock c l _) as [[i s]|] eqn:P.
    + apply pick_sock_some in P. destruct P as (Li & G & _). apply sock_enqueue_good; eauto.
    + cbn. eapply goods_sendl; eauto.
  - destruct (pick_sock c l _) as [[i s]|] eqn:P.
    + apply pick_sock_some in P. destruct P as (Li & G & _). apply sock_enqueue_good; eauto.
    + destruct (is_dlc_pdu p); cbn; [eapply goods_sendl; eauto | apply goods_refl; auto].
Qed.

Lemma sd_enqueue_good c p : wf c -> goods c (fst (sd_enqueue c p)).
Proof.
  intro W. unfold sd_enqueue. destruct p; try (apply goods_refl; auto).
  destruct (sd_take_res _ _ _ _) as [cache tids]. destruct (wake _ _) as [evs w]. cbn. apply goods_sd; auto.
Qed.

Lemma route_good c p : wf c ->
  goods c (fst (match sap_get c (pdu_dsap p) with
                | SapNone => (c, Ok [])
                | SapSD => sd_enqueue c p
                | Sap l sl => sap_enqueue c (pdu_dsap p) l sl p
                end)).
Proof.
  intro W. destruct (sap_get c (pdu_dsap p)) eqn:SG; [apply goods_refl; auto | apply sd_enqueue_good; auto |].
  eapply sap_enqueue_good; eauto.
Qed.

Lemma dispatch_good c p : wf c -> goods c (fst (dispatch c p)).
Proof.
  intro W. unfold dispatch.
  destruct p; try (apply route_good; auto).
  destruct d as [|[d|d|]|]; try (apply (route_good c (PConnect _ s sn)); auto).
  match goal with |- context [if ?b then _ else _] => destruct b end.
  - apply (route_good c (PConnect _ s None)); auto.
  - cbn. apply goods_dmpdu; auto. intros q Hq. apply in_app_or in Hq.
    destruct Hq as [Hq|[<-|[]]]; [apply (wf_dmpdu_ui _ W); auto | reflexivity].
Qed.

(* ---------------------------------------------------------------- two controllers *)
Definition wf2 (st : sys) : Prop := wf (fst st) /\ wf (snd st).
Definition exec (b : bool) (ops : list op) : sys := fold_left (fun st o => fst (step st o)) ops (init_sys b).

Lemma get_set_side_same st sd c : get_side (set_side st sd c) sd = c.
Proof. destruct sd; reflexivity. Qed.
Lemma get_set_side_other st sd c : get_side (set_side st sd c) (other sd) = get_side st (other sd).
Proof. destruct sd; reflexivity. Qed.
Lemma wf2_side st sd : wf2 st -> wf (get_side st sd).
Proof. intros [A B]. destruct sd; auto. Qed.
Lemma wf2_set st sd c : wf2 st -> wf c -> wf2 (set_side st sd c).
Proof. intros [A B] W. destruct sd; split; auto. Qed.

Lemma step_wf2 st o : wf2 st -> wf2 (fst (step st o)).
Proof.
  intro W. destruct o as [sd lo|from a miu]; cbn [step].
  - destruct (lstep (get_side st sd) lo) as [c' r] eqn:L. cbn. apply wf2_set; auto.
    change c' with (fst (c', r)). rewrite <- L. apply lstep_good. apply wf2_side; auto.
  - destruct (collect1 (get_side st from) a miu) as [[p c1]|] eqn:C; [|auto].
    pose proof (collect1_good _ _ _ _ _ (wf2_side st from W) C) as [W1 _].
    assert (W2 : wf2 (set_side st from c1)) by (apply wf2_set; auto).
    destruct (dispatch (get_side (set_side st from c1) (other from)) p) as [c2 r] eqn:D. cbn.
    apply wf2_set; auto. change c2 with (fst (c2, r)). rewrite <- D. apply dispatch_good. apply wf2_side; auto.
Qed.

Lemma wf2_init b : wf2 (init_sys b).
Proof. split; apply wf_init. Qed.

Lemma exec_app b ops o : exec b (ops ++ [o]) = fst (step (exec b ops) o).
Proof. unfold exec. rewrite fold_left_app. reflexivity. Qed.

Theorem exec_wf2 b ops : wf2 (exec b ops).
Proof.
  induction ops as [|o ops IH] using rev_ind; [apply wf2_init|]. rewrite exec_app. apply step_wf2; auto.
Qed.

(* run (which stops at the first crash) only visits exec states *)
Lemma run_is_exec st ops : exists pre, fst (run st ops) = fold_left (fun st o => fst (step st o)) pre st.
Proof.
  revert st. induction ops as [|o t IH]; intro st; cbn.
  - exists []. reflexivity.
  - destruct (step st o) as [st' r] eqn:S.
    assert (E1 : exists pre, st' = fold_left (fun st o => fst (step st o)) pre st) by (exists [o]; cbn; rewrite S; reflexivity).
    destruct r; try (destruct E1 as (pre & E); exists pre; exact E);
      (destruct (run st' t) as [st'' rs] eqn:Rn; destruct (IH st') as (pre & E); rewrite Rn in E; cbn in E;
       exists (o :: pre); cbn; rewrite S; exact E).
Qed.
Corollary final_wf2 b ops : wf2 (final b ops).
Proof. unfold final. destruct (run_is_exec (init_sys b) ops) as (pre & ->). apply (exec_wf2 b pre). Qed.
