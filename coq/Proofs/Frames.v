From Coq Require Import ZArith List Bool Lia ZifyBool.
From NV Require Import Base.Result Base.Bytes Base.PyPrims Model.Frames.
Import ListNotations.
Open Scope Z_scope.
Ltac Zify.zify_post_hook ::= Z.to_euclidean_division_equations.

Lemma land255 x : Z.land x 255 = x mod 256.
Proof. change 255 with (Z.ones 8). rewrite Z.land_ones by lia. reflexivity. Qed.

Lemma firstn_len_app {A} (a b : list A) n : n = length a -> firstn n (a ++ b) = a.
Proof. intros ->. rewrite firstn_app, Nat.sub_diag, firstn_all. cbn. apply app_nil_r. Qed.
Lemma nth_len_app (a : list Z) x b n d : n = length a -> nth n (a ++ x :: b) d = x.
Proof. intros ->. rewrite app_nth2, Nat.sub_diag by lia. reflexivity. Qed.

Lemma split_last2 (l : list Z) : 2 <= len l -> exists B x y, l = B ++ [x; y].
Proof.
  intro H. unfold len in H.
  destruct (exists_last (l := l)) as (l1 & y & ->); [destruct l; cbn in H; [lia|discriminate]|].
  rewrite app_length in H. cbn in H.
  destruct (exists_last (l := l1)) as (B & x & ->); [destruct l1; cbn in H; [lia|discriminate]|].
  exists B, x, y. rewrite <- app_assoc. reflexivity.
Qed.
Lemma removelast_app2 (B : list Z) x y : removelast (B ++ [x; y]) = B ++ [x].
Proof. rewrite removelast_app by discriminate. reflexivity. Qed.
Lemma removelast_app1 (B : list Z) x : removelast (B ++ [x]) = B.
Proof. rewrite removelast_app by discriminate. cbn. apply app_nil_r. Qed.

(* ---------- the validator on frames of the two shapes ---------- *)
Lemma normal_ok ln lcs B dcs post :
  (ln =? 255) && (lcs =? 255) = false -> (ln + lcs) mod 256 = 0 -> len B = ln ->
  (sum B + dcs) mod 256 = 0 ->
  host_frame_ok ([0; 0; 255; ln; lcs] ++ B ++ [dcs; post]) = Some B.
Proof.
  intros Hne Hl Hn Hd. unfold host_frame_ok, byt. cbn [app nth skipn].
  rewrite Hne. cbn [Z.eqb andb Pos.eqb].
  rewrite Hl. cbn [Z.eqb andb].
  rewrite !len_cons, len_app. change (len [dcs; post]) with 2.
  replace (1 + (1 + (1 + (1 + (1 + (len B + 2))))) =? 5 + ln + 2) with true by lia.
  cbv iota. subst ln. unfold len. rewrite Nat2Z.id.
  rewrite firstn_len_app, nth_len_app by reflexivity.
  replace ((sum B + dcs) mod 256 =? 0) with true by lia. reflexivity.
Qed.

Lemma ext_ok lm ll lcs B dcs post :
  (lm + ll + lcs) mod 256 = 0 -> len B = lm * 256 + ll -> (sum B + dcs) mod 256 = 0 ->
  host_frame_ok ([0; 0; 255; 255; 255; lm; ll; lcs] ++ B ++ [dcs; post]) = Some B.
Proof.
  intros Hl Hn Hd. unfold host_frame_ok, byt. cbn [app nth skipn Z.eqb andb Pos.eqb].
  rewrite Hl. cbn [Z.eqb andb].
  rewrite !len_cons, len_app. change (len [dcs; post]) with 2.
  replace (1 + (1 + (1 + (1 + (1 + (1 + (1 + (1 + (len B + 2)))))))) =? 8 + (lm * 256 + ll) + 2) with true by lia.
  cbv iota. rewrite <- Hn. unfold len. rewrite Nat2Z.id.
  rewrite firstn_len_app, nth_len_app by reflexivity.
  replace ((sum B + dcs) mod 256 =? 0) with true by lia. reflexivity.
Qed.

(* ---------- command frames are well formed for every payload length ---------- *)
Lemma sum_nonneg l : bytes_ok l -> 0 <= sum l.
Proof. induction l as [|x l IH]; intro H; [cbn; lia|]. apply bytes_ok_cons in H. destruct H as [Hx Hl].
  rewrite sum_cons. unfold byte_ok in Hx. specialize (IH Hl). lia. Qed.

Theorem pn53x_build_ok cmd data :
  len data <= 65533 ->
  host_frame_ok (pn53x_build cmd data) = Some ([212; cmd] ++ data).
Proof.
  intro Hn. pose proof (len_nonneg data) as H0. unfold pn53x_build, pn53x_head.
  set (body := [212; cmd] ++ data).
  assert (Hb : len body = len data + 2) by (unfold body; rewrite len_app; change (len [212; cmd]) with 2; lia).
  destruct (len data <? 254) eqn:E.
  - change (SOF ++ [len data + 2; 254 - len data]) with [0; 0; 255; len data + 2; 254 - len data].
    apply normal_ok; try lia. rewrite land255. lia.
  - cbv zeta. change (SOF ++ ?l) with (0 :: 0 :: 255 :: l). cbn [app].
    change (0 :: 0 :: 255 :: 255 :: 255 :: ?a :: ?b :: ?c :: body ++ ?t) with ([0; 0; 255; 255; 255; a; b; c] ++ body ++ t).
    apply ext_ok; rewrite ?land255; lia.
Qed.

(* normal vs extended format is chosen as the manual requires: LEN < 255 fits one byte *)
Theorem pn53x_build_format cmd data :
  (len data < 254 -> exists rest, pn53x_build cmd data = [0; 0; 255; len data + 2; 254 - len data] ++ rest) /\
  (254 <= len data -> exists rest, pn53x_build cmd data = [0; 0; 255; 255; 255] ++ rest).
Proof.
  unfold pn53x_build, pn53x_head. split; intro H.
  - replace (len data <? 254) with true by lia. eexists. cbn [SOF app]. reflexivity.
  - replace (len data <? 254) with false by lia. eexists. cbn [SOF app]. reflexivity.
Qed.

(* ---------- response validation ---------- *)
Lemma starts_with_inv p l : starts_with p l = true -> exists r, l = p ++ r.
Proof.
  unfold starts_with. intro H. apply list_eqb_eq in H. exists (skipn (length p) l).
  rewrite <- (firstn_skipn (length p) l) at 1. rewrite H. reflexivity.
Qed.

Lemma idx0_cons x l : idx (x :: l) 0 = Ok x. Proof. reflexivity. Qed.
Lemma idx1_cons x y l : idx (x :: y :: l) 1 = Ok y. Proof. reflexivity. Qed.

(* what the common tail of command() does with the checksummed part *)
Definition tail_parse (cmd : Z) (body : list Z) : res (list Z) :=
  if negb (Z.land (sum (but_last body)) 255 =? 0) then Err IOErr else
  do b0 <- idx body 0;
  if b0 =? 127 then Err (ChipsetError 127) else
  if negb (b0 =? 213) then Err IOErr else
  do b1 <- idx body 1;
  if negb (b1 =? cmd + 1) then Err IOErr else
  Ok (strip2 body).

Lemma tail_parse_sound cmd B dcs post d :
  bytes_ok (B ++ [dcs; post]) -> 0 <= cmd < 256 -> cmd <> 42 ->
  tail_parse cmd (B ++ [dcs; post]) = Ok d ->
  (sum B + dcs) mod 256 = 0 /\ B = [213; cmd + 1] ++ d.
Proof.
  intros Hb Hc H42. unfold tail_parse, but_last. rewrite removelast_app2, sum_app, land255.
  change (sum [dcs]) with dcs.
  destruct (negb ((sum B + dcs) mod 256 =? 0)) eqn:E; [discriminate|].
  apply bytes_ok_app in Hb. destruct Hb as [HB Ht]. apply bytes_ok_cons in Ht. destruct Ht as [Hd _].
  unfold byte_ok in Hd.
  destruct B as [|p0 [|p1 B']].
  - cbn [app]. rewrite idx0_cons. cbn [bind]. change (sum []) with 0 in E.
    destruct (dcs =? 127) eqn:E1; [discriminate|]. destruct (negb (dcs =? 213)) eqn:E2; [discriminate|]. lia.
  - cbn [app]. rewrite idx0_cons, idx1_cons. cbn [bind]. rewrite sum_cons in E. change (sum []) with 0 in E.
    destruct (p0 =? 127) eqn:E1; [discriminate|]. destruct (negb (p0 =? 213)) eqn:E2; [discriminate|].
    destruct (negb (dcs =? cmd + 1)) eqn:E3; [discriminate|]. lia.
  - cbn [app]. rewrite idx0_cons, idx1_cons. cbn [bind].
    destruct (p0 =? 127) eqn:E1; [discriminate|]. destruct (negb (p0 =? 213)) eqn:E2; [discriminate|].
    destruct (negb (p1 =? cmd + 1)) eqn:E3; [discriminate|].
    intro H. injection H as <-. unfold strip2. cbn [tl]. rewrite removelast_app2, removelast_app1.
    split; [lia|]. f_equal; [lia|]. f_equal. lia.
Qed.

Lemma pn53x_parse_unfold cmd f :
  pn53x_parse cmd f =
  if len f <? 7 then Err IOErr else
  do body <-
    (if starts_with (SOF ++ [255; 255]) f then
       if negb (Z.land (sum (firstn 3 (skipn 5 f))) 255 =? 0) then Err IOErr
       else if negb (byt f 5 * 256 + byt f 6 =? len f - 10) then Err IOErr
       else Ok (skipn 8 f)
     else if starts_with SOF f then
       if negb (Z.land (sum (firstn 2 (skipn 3 f))) 255 =? 0) then Err IOErr
       else if negb (byt f 3 =? len f - 7) then Err IOErr
       else Ok (skipn 5 f)
     else Err IOErr);
  tail_parse cmd body.
Proof. reflexivity. Qed.

(* accepted implies valid under the independent validator *)
Theorem pn53x_parse_sound cmd f d :
  bytes_ok f -> 0 <= cmd < 256 -> cmd <> 42 ->
  pn53x_parse cmd f = Ok d -> host_frame_ok f = Some ([213; cmd + 1] ++ d).
Proof.
  intros Hf Hc H42. rewrite pn53x_parse_unfold.
  destruct (len f <? 7) eqn:E7; [discriminate|].
  destruct (starts_with (SOF ++ [255; 255]) f) eqn:Ex.
  - apply starts_with_inv in Ex. destruct Ex as [r ->]. cbn [SOF app] in *.
    destruct r as [|lm [|ll r2]]; try (cbn in E7; lia).
    assert (Hb5 : byte_ok lm /\ byte_ok ll).
    { do 5 (apply bytes_ok_cons in Hf; destruct Hf as [_ Hf]). apply bytes_ok_cons in Hf. destruct Hf as [H5 Hf].
      apply bytes_ok_cons in Hf. destruct Hf as [H6 Hf]. auto. }
    destruct Hb5 as [Hlm Hll]. unfold byte_ok in Hlm, Hll.
    destruct r2 as [|lcs rest].
    { cbn [skipn firstn byt nth]. destruct (negb _); [discriminate|]. rewrite !len_cons, len_nil.
      destruct (negb (lm * 256 + ll =? _)) eqn:E2; [discriminate|]. lia. }
    cbn [skipn firstn byt nth]. rewrite !sum_cons, sum_nil, land255.
    destruct (negb ((lm + (ll + (lcs + 0))) mod 256 =? 0)) eqn:E1; [discriminate|].
    rewrite !len_cons.
    destruct (negb (lm * 256 + ll =? 1 + (1 + (1 + (1 + (1 + (1 + (1 + (1 + len rest))))))) - 10)) eqn:E2; [discriminate|].
    cbn [bind]. intro H.
    assert (Hbr : bytes_ok rest) by (do 8 (apply bytes_ok_cons in Hf; destruct Hf as [_ Hf]); exact Hf).
    destruct (split_last2 rest) as (B & dcs & post & ->); [lia|].
    destruct (tail_parse_sound cmd B dcs post d Hbr Hc H42 H) as [Hs ->].
    change (0 :: 0 :: 255 :: 255 :: 255 :: lm :: ll :: lcs :: ?x) with ([0; 0; 255; 255; 255; lm; ll; lcs] ++ x).
    apply ext_ok; [lia| |exact Hs].
    unfold len in *. rewrite !app_length in *. cbn [length] in *. lia.
  - destruct (starts_with SOF f) eqn:En; [|discriminate].
    apply starts_with_inv in En. destruct En as [r ->]. cbn [SOF app] in *.
    destruct r as [|ln [|lcs rest]]; try (cbn in E7; lia).
    cbn [skipn firstn byt nth]. rewrite !sum_cons, sum_nil, land255.
    destruct (negb ((ln + (lcs + 0)) mod 256 =? 0)) eqn:E1; [discriminate|].
    rewrite !len_cons.
    destruct (negb (ln =? 1 + (1 + (1 + (1 + (1 + len rest)))) - 7)) eqn:E2; [discriminate|].
    cbn [bind]. intro H.
    assert (Hbr : bytes_ok rest) by (do 5 (apply bytes_ok_cons in Hf; destruct Hf as [_ Hf]); exact Hf).
    destruct (split_last2 rest) as (B & dcs & post & ->); [rewrite !len_cons in E7; lia|].
    destruct (tail_parse_sound cmd B dcs post d Hbr Hc H42 H) as [Hs ->].
    change (0 :: 0 :: 255 :: ln :: lcs :: ?x) with ([0; 0; 255; ln; lcs] ++ x).
    apply normal_ok; try exact Hs; try lia.
    all: try (unfold len in *; rewrite !app_length in *; cbn [length] in *; lia).
Qed.

(* the residual case excluded above, exhibited: for the (non-existent) host command 2Ah the
   DCS byte of a one-byte frame body is read as the response code *)
Example pn53x_parse_cmd42 : pn53x_parse 42 [0; 0; 255; 1; 255; 213; 43; 0] = Ok [].
Proof. vm_compute. reflexivity. Qed.

(* never an internal error: every byte string is answered Ok / IOError / Chipset.Error *)
Lemma tail_parse_total cmd body : 2 <= len body ->
  exists r, tail_parse cmd body = r /\ match r with Ok _ | Err IOErr | Err (ChipsetError 127) => True | _ => False end.
Proof.
  intro H. destruct body as [|b0 [|b1 body]]; try (cbn in H; lia).
  unfold tail_parse. rewrite idx0_cons, idx1_cons. cbn [bind].
  eexists; split; [reflexivity|].
  destruct (negb _); [exact I|]. destruct (b0 =? 127); [exact I|]. destruct (negb (b0 =? 213)); [exact I|].
  destruct (negb (b1 =? cmd + 1)); exact I.
Qed.

Theorem pn53x_parse_total cmd f : bytes_ok f ->
  match pn53x_parse cmd f with Ok _ | Err IOErr | Err (ChipsetError 127) => True | _ => False end.
Proof.
  intro Hf. rewrite pn53x_parse_unfold.
  destruct (len f <? 7) eqn:E7; [exact I|].
  destruct (starts_with (SOF ++ [255; 255]) f) eqn:Ex.
  - destruct (negb (Z.land _ 255 =? 0)); [exact I|].
    destruct (negb (byt f 5 * 256 + byt f 6 =? len f - 10)) eqn:E2; [exact I|]. cbn [bind].
    assert (Hl : 2 <= len (skipn 8 f)).
    { unfold len in *. rewrite skipn_length.
      apply starts_with_inv in Ex. destruct Ex as [r ->]. cbn [SOF app] in *.
      destruct r as [|lm [|ll r]]; try (cbn in E7; lia). cbn [byt nth] in E2.
      do 5 (apply bytes_ok_cons in Hf; destruct Hf as [_ Hf]). apply bytes_ok_cons in Hf. destruct Hf as [H5 Hf].
      apply bytes_ok_cons in Hf. destruct Hf as [H6 Hf]. unfold byte_ok in H5, H6.
      cbn [length] in *. lia. }
    destruct (tail_parse_total cmd _ Hl) as (r & -> & Hr). exact Hr.
  - destruct (starts_with SOF f) eqn:En; [|exact I].
    destruct (negb (Z.land _ 255 =? 0)); [exact I|].
    destruct (negb (byt f 3 =? len f - 7)) eqn:E2; [exact I|]. cbn [bind].
    assert (Hl : 2 <= len (skipn 5 f)) by (unfold len in *; rewrite skipn_length; lia).
    destruct (tail_parse_total cmd _ Hl) as (r & -> & Hr). exact Hr.
Qed.
