(* C16 - proofs about the retry loops of Model/Retry.v: for ALL scripts, budgets and positions. *)
From Coq Require Import ZArith List Bool Lia Arith.
From NV Require Import Base.Result Model.Retry.
Import ListNotations.

Definition is_fault (a : attempt) : Prop := exists f b, a = Fault f b.
Definition fault_of (a : attempt) : option fault := match a with Fault f _ => Some f | Answer _ => None end.
Definition named (f : fault) : Prop := f <> FOther.

Lemma is_fault_dec a : {is_fault a} + {exists d, a = Answer d}.
Proof. destruct a as [d|f b]; [right; eauto|left; exists f, b; reflexivity]. Qed.

(* ------------------------------------------------------------------ the loop *)
Lemma loop_spec : forall n s pos used last,
  match loop n s pos used last with
  | (Some d, k, _) => exists j, (j < n)%nat /\ k = (used + j + 1)%nat /\ s (pos + j)%nat = Answer d /\
                                 (forall i, (i < j)%nat -> is_fault (s (pos + i)%nat))
  | (None, k, l') => k = (used + n)%nat /\ (forall i, (i < n)%nat -> is_fault (s (pos + i)%nat)) /\
                     l' = match n with O => last | S m => fault_of (s (pos + m)%nat) end
  end.
Proof.
  induction n as [|n IH]; intros s pos used last; cbn [loop].
  - split; [lia|]. split; [intros i Hi; lia|reflexivity].
  - destruct (s pos) as [d|f b] eqn:E.
    + exists 0%nat. split; [lia|]. split; [lia|]. split.
      * rewrite Nat.add_0_r. exact E.
      * intros i Hi. lia.
    + specialize (IH s (S pos) (S used) (Some f)).
      destruct (loop n s (S pos) (S used) (Some f)) as [[[d|] k] l'].
      * destruct IH as [j [Hj [Hk [Ha Hf]]]]. exists (S j). split; [lia|]. split; [lia|]. split.
        -- replace (pos + S j)%nat with (S pos + j)%nat by lia. exact Ha.
        -- intros i Hi. destruct i as [|i].
           ++ rewrite Nat.add_0_r. exists f, b. exact E.
           ++ replace (pos + S i)%nat with (S pos + i)%nat by lia. apply Hf. lia.
      * destruct IH as [Hk [Hf Hl]]. split; [lia|]. split.
        -- intros i Hi. destruct i as [|i].
           ++ rewrite Nat.add_0_r. exists f, b. exact E.
           ++ replace (pos + S i)%nat with (S pos + i)%nat by lia. apply Hf. lia.
        -- rewrite Hl. destruct n as [|m].
           ++ rewrite Nat.add_0_r, E. reflexivity.
           ++ replace (pos + S m)%nat with (S pos + m)%nat by lia. reflexivity.
Qed.

(* the last error of a budget of n attempts starting at pos (None for an empty range) *)
Definition last_fault (n : nat) (s : script) (pos : nat) : option fault :=
  match n with O => None | S m => fault_of (s (pos + m)%nat) end.

(* ------------------------------------------------------------------ retry_spec *)
Definition retry_spec_stmt (ty : ttype) (fixed3 : bool) (n : nat) (s : script) (pos : nat) : Prop :=
  let '(r, k) := transceive_n ty fixed3 n true s pos in
  (* attempts <= budget *)
  (k <= n)%nat /\
  (* result = first answer within the budget ... *)
  (forall j d, (j < n)%nat -> s (pos + j)%nat = Answer d -> (forall i, (i < j)%nat -> is_fault (s (pos + i)%nat)) ->
     r = Ok d /\ k = S j) /\
  (* ... else the outcome of the else-clause for the LAST error, after exactly `budget` attempts *)
  ((forall j, (j < n)%nat -> is_fault (s (pos + j)%nat)) ->
     r = exhausted ty fixed3 (last_fault n s pos) /\ k = n) /\
  (* no attempt after an answer: every attempt made except the last one failed *)
  (forall i, (S i < k)%nat -> is_fault (s (pos + i)%nat)).

Lemma fault_not_answer a d : is_fault a -> a <> Answer d.
Proof. intros [f [b E]] H. rewrite E in H. discriminate. Qed.

Lemma retry_spec_lemma : forall ty fixed3 n s pos, retry_spec_stmt ty fixed3 n s pos.
Proof.
  intros ty fixed3 n s pos. unfold retry_spec_stmt, transceive_n.
  pose proof (loop_spec n s pos 0 None) as L.
  assert (E : (let '(r, k) := match loop n s pos 0 None with
                               | (Some d, k, _) => (Ok d, k)
                               | (None, k, last) => (exhausted ty fixed3 last, k) end in
               (k <= n)%nat /\
               (forall j d, (j < n)%nat -> s (pos + j)%nat = Answer d ->
                  (forall i, (i < j)%nat -> is_fault (s (pos + i)%nat)) -> r = Ok d /\ k = S j) /\
               ((forall j, (j < n)%nat -> is_fault (s (pos + j)%nat)) ->
                  r = exhausted ty fixed3 (last_fault n s pos) /\ k = n) /\
               (forall i, (S i < k)%nat -> is_fault (s (pos + i)%nat)))).
  { destruct (loop n s pos 0 None) as [[[d|] k] l'].
    - destruct L as [j [Hj [Hk [Ha Hf]]]]. cbn in Hk. subst k.
      split; [lia|]. split; [|split].
      + intros j' d' Hj' Ha' Hf'.
        assert (j' = j).
        { destruct (Nat.lt_trichotomy j' j) as [H|[H|H]]; [|exact H|].
          - exfalso. eapply fault_not_answer; [apply Hf, H|exact Ha'].
          - exfalso. eapply fault_not_answer; [apply Hf', H|exact Ha]. }
        subst j'. rewrite Ha in Ha'. inversion Ha'. subst. split; [reflexivity|lia].
      + intros Hall. exfalso. eapply fault_not_answer; [apply Hall, Hj|exact Ha].
      + intros i Hi. apply Hf. lia.
    - destruct L as [Hk [Hf Hl]]. cbn in Hk. subst k.
      split; [lia|]. split; [|split].
      + intros j d Hj Ha _. exfalso. eapply fault_not_answer; [apply Hf, Hj|exact Ha].
      + intros _. split; [|reflexivity]. rewrite Hl. unfold last_fault. reflexivity.
      + intros i Hi. apply Hf. lia. }
  destruct ty; exact E.
Qed.

(* persistent errors of the three named classes end with the matching reason code *)
Lemma retry_errno_lemma : forall ty fixed3 n s pos f,
  (forall j, (j < S n)%nat -> is_fault (s (pos + j)%nat)) ->
  fault_of (s (pos + n)%nat) = Some f -> named f ->
  exists e, errno_of f = Some e /\ transceive_n ty fixed3 (S n) true s pos = (Err (TagCommandError e), S n).
Proof.
  intros ty fixed3 n s pos f Hall Hl Hn.
  pose proof (retry_spec_lemma ty fixed3 (S n) s pos) as R. unfold retry_spec_stmt in R.
  destruct (transceive_n ty fixed3 (S n) true s pos) as [r k].
  destruct R as [_ [_ [R _]]]. destruct (R Hall) as [Hr Hk]. subst k.
  unfold last_fault in Hr. rewrite Hl in Hr. cbn [exhausted] in Hr.
  destruct f; cbn in Hr; try (eexists; split; [reflexivity|rewrite Hr; reflexivity]).
  exfalso. apply Hn. reflexivity.
Qed.

(* a CommunicationError of another class: RuntimeError (tt1, tt2, repaired tt3), the unbound local in
   the unrepaired Type 3 code *)
Lemma retry_other_lemma : forall ty fixed3 n s pos,
  (forall j, (j < S n)%nat -> is_fault (s (pos + j)%nat)) ->
  fault_of (s (pos + n)%nat) = Some FOther ->
  transceive_n ty fixed3 (S n) true s pos = (after_tests ty fixed3, S n).
Proof.
  intros ty fixed3 n s pos Hall Hl.
  pose proof (retry_spec_lemma ty fixed3 (S n) s pos) as R. unfold retry_spec_stmt in R.
  destruct (transceive_n ty fixed3 (S n) true s pos) as [r k].
  destruct R as [_ [_ [R _]]]. destruct (R Hall) as [Hr Hk]. subst k.
  unfold last_fault in Hr. rewrite Hl in Hr. cbn in Hr. rewrite Hr. reflexivity.
Qed.

(* ------------------------------------------------------------------ closedness of one command *)
Definition named_script (s : script) : Prop := forall i f b, s i = Fault f b -> named f.

Definition closed_result (r : res (list Z)) : Prop :=
  (exists d, r = Ok d) \/ r = Err (TagCommandError TIMEOUT_ERROR) \/
  r = Err (TagCommandError RECEIVE_ERROR) \/ r = Err (TagCommandError PROTOCOL_ERROR).

Lemma exhausted_named ty fixed3 f : named f -> closed_result (exhausted ty fixed3 (Some f)).
Proof.
  intro H. destruct f; cbn; unfold closed_result; auto. exfalso. apply H. reflexivity.
Qed.

(* with at least one attempt and only the three named error classes, the outcome is an answer or a
   TagCommandError with one of the three reason codes - never a crash, never RuntimeError *)
Lemma transceive_closed_lemma : forall ty fixed3 n present s pos,
  named_script s -> closed_result (fst (transceive_n ty fixed3 (S n) present s pos)).
Proof.
  intros ty fixed3 n present s pos Hs. unfold transceive_n.
  assert (G : closed_result (fst (match loop (S n) s pos 0 None with
                                  | (Some d, k, _) => (Ok d, k)
                                  | (None, k, last) => (exhausted ty fixed3 last, k) end))).
  { pose proof (loop_spec (S n) s pos 0 None) as L.
    destruct (loop (S n) s pos 0 None) as [[[d|] k] l'].
    - left. eexists. reflexivity.
    - destruct L as [_ [Hf Hl]]. subst l'.
      destruct (Hf n (Nat.lt_succ_diag_r n)) as [f [b E]]. rewrite E. cbn [fault_of fst].
      apply exhausted_named. eapply Hs. exact E. }
  destruct ty, present; try exact G.
  cbn. right. left. reflexivity.
Qed.

(* ------------------------------------------------------------------ what the tag sees *)
Lemma deliveries_spec : forall k s pos,
  (forall i, (S i < k)%nat -> is_fault (s (pos + i)%nat)) ->
  (* at most the last delivery is an answered one *)
  (forall l1 b l2, deliveries k s pos = l1 ++ b :: l2 -> l2 <> [] -> b = false).
Proof.
  induction k as [|k IH]; intros s pos Hf l1 b l2 E Hne; cbn [deliveries] in E.
  - destruct l1; discriminate.
  - destruct (s pos) as [d|f [|]] eqn:Es.
    + destruct l1 as [|x l1]; cbn in E.
      * inversion E. subst. exfalso. apply Hne. reflexivity.
      * inversion E. destruct l1; discriminate.
    + destruct l1 as [|x l1]; cbn in E.
      * inversion E. reflexivity.
      * inversion E. subst x. eapply (IH s (S pos)); [|eassumption|exact Hne].
        intros i Hi. replace (S pos + i)%nat with (pos + S i)%nat by lia. apply Hf. lia.
    + eapply (IH s (S pos)); [|eassumption|exact Hne].
      intros i Hi. replace (S pos + i)%nat with (pos + S i)%nat by lia. apply Hf. lia.
Qed.

Lemma deliveries_S k s pos : deliveries (S k) s pos =
  match s pos with
  | Answer _ => [true]
  | Fault _ true => false :: deliveries k s (S pos)
  | Fault _ false => deliveries k s (S pos)
  end.
Proof. reflexivity. Qed.

(* an answered attempt is the last attempt made *)
Lemma deliveries_answer_last : forall k s pos,
  In true (deliveries k s pos) -> exists j d, (j < k)%nat /\ s (pos + j)%nat = Answer d /\
    deliveries k s pos = deliveries j s pos ++ [true].
Proof.
  induction k as [|k IH]; intros s pos H; cbn [deliveries] in *; [destruct H|].
  destruct (s pos) as [d|f [|]] eqn:Es.
  - exists 0%nat, d. split; [lia|]. split; [rewrite Nat.add_0_r; exact Es|reflexivity].
  - destruct H as [H|H]; [discriminate|]. destruct (IH s (S pos) H) as [j [d [Hj [Ha Hd]]]].
    exists (S j), d. split; [lia|]. split; [replace (pos + S j)%nat with (S pos + j)%nat by lia; exact Ha|].
    cbn [deliveries]. rewrite Es, Hd. reflexivity.
  - destruct (IH s (S pos) H) as [j [d [Hj [Ha Hd]]]].
    exists (S j), d. split; [lia|]. split; [replace (pos + S j)%nat with (S pos + j)%nat by lia; exact Ha|].
    cbn [deliveries]. rewrite Es, Hd. reflexivity.
Qed.

Section TagState.
  Variable St : Type.
  Variable apply : St -> St.          (* effect of the command on the tag *)

  Fixpoint iter (n : nat) (x : St) : St := match n with O => x | S m => apply (iter m x) end.

  (* tag state after the attempts of one command *)
  Definition tag_after (k : nat) (s : script) (pos : nat) (x : St) : St := iter (length (deliveries k s pos)) x.

  Hypothesis idem : forall x, apply (apply x) = apply x.

  Lemma iter_idem : forall n x, iter (S n) x = apply x.
  Proof. induction n as [|n IH]; intro x; [reflexivity|]. cbn [iter] in *. rewrite IH. apply idem. Qed.

  (* an idempotent command (WRITE of a page / block / byte, UPDATE BINARY) re-sent after lost responses
     leaves the tag as one execution does *)
  Lemma tag_after_idem : forall k s pos x,
    tag_after k s pos x = match deliveries k s pos with [] => x | _ => apply x end.
  Proof.
    intros. unfold tag_after. destruct (deliveries k s pos) as [|b l]; [reflexivity|].
    cbn [length]. apply iter_idem.
  Qed.
End TagState.

(* an answered command was executed: the answer is the last delivery *)
Lemma answered_delivered : forall ty fixed3 n s pos d k,
  transceive_n ty fixed3 n true s pos = (Ok d, k) ->
  exists l, deliveries k s pos = l ++ [true] /\ Forall (fun b => b = false) l.
Proof.
  intros ty fixed3 n s pos d k H.
  pose proof (retry_spec_lemma ty fixed3 n s pos) as R. unfold retry_spec_stmt in R. rewrite H in R.
  destruct R as [Hk [_ [_ Hf]]].
  assert (Ha : exists j d', (j < n)%nat /\ k = S j /\ s (pos + j)%nat = Answer d').
  { unfold transceive_n in H. pose proof (loop_spec n s pos 0 None) as L.
    assert (H' : match loop n s pos 0 None with
                 | (Some d0, k0, _) => (Ok d0, k0)
                 | (None, k0, last) => (exhausted ty fixed3 last, k0) end = (Ok d, k)) by (destruct ty; exact H).
    destruct (loop n s pos 0 None) as [[[d0|] k0] l'].
    - inversion H'. subst. destruct L as [j [Hj [Hk' [Ha _]]]]. exists j, d. repeat split; [lia|lia|exact Ha].
    - exfalso. inversion H' as [[Hx Hy]]. destruct l' as [f|]; cbn in Hx.
      + destruct (errno_of f); [discriminate|]. destruct ty, fixed3; discriminate.
      + destruct ty, fixed3; discriminate. }
  destruct Ha as [j [d' [Hj [Ek Ha]]]]. subst k.
  assert (G : forall j s pos, (forall i, (i < j)%nat -> is_fault (s (pos + i)%nat)) -> forall d', s (pos + j)%nat = Answer d' ->
              exists l, deliveries (S j) s pos = l ++ [true] /\ Forall (fun b => b = false) l).
  { clear. induction j as [|j IH]; intros s pos Hf d' Ha.
    - exists []. split; [|constructor]. rewrite deliveries_S. rewrite Nat.add_0_r in Ha. rewrite Ha. reflexivity.
    - destruct (Hf 0%nat (Nat.lt_0_succ j)) as [f [b E]]. rewrite Nat.add_0_r in E.
      destruct (IH s (S pos)) with (d' := d') as [l [El Fl]].
      + intros i Hi. replace (S pos + i)%nat with (pos + S i)%nat by lia. apply Hf. lia.
      + replace (S pos + j)%nat with (pos + S j)%nat by lia. exact Ha.
      + rewrite deliveries_S, E. destruct b.
        * exists (false :: l). split; [rewrite El; reflexivity|constructor; [reflexivity|exact Fl]].
        * exists l. split; [exact El|exact Fl]. }
  eapply G; [|exact Ha]. intros i Hi. apply Hf. lia.
Qed.

(* ------------------------------------------------------------------ sequences of commands *)
Lemma attempts_of_length k s pos : length (attempts_of k s pos) = k.
Proof. revert pos. induction k; intro pos; cbn; [reflexivity|rewrite IHk; reflexivity]. Qed.

Lemma attempts_of_nth : forall k s pos i, (i < k)%nat -> nth_error (attempts_of k s pos) i = Some (s (pos + i)%nat).
Proof.
  induction k as [|k IH]; intros s pos i Hi; [lia|]. cbn [attempts_of]. destruct i as [|i]; cbn.
  - rewrite Nat.add_0_r. reflexivity.
  - rewrite IH by lia. replace (S pos + i)%nat with (pos + S i)%nat by lia. reflexivity.
Qed.

Lemma attempts_of_snoc : forall j s pos, attempts_of (S j) s pos = attempts_of j s pos ++ [s (pos + j)%nat].
Proof.
  induction j as [|j IHj]; intros s pos.
  - cbn. rewrite Nat.add_0_r. reflexivity.
  - change (attempts_of (S (S j)) s pos) with (s pos :: attempts_of (S j) s (S pos)).
    rewrite IHj. cbn [attempts_of app]. replace (S pos + j)%nat with (pos + S j)%nat by lia. reflexivity.
Qed.

(* in the wire of an operation: the command index never decreases, and an exchange that was ANSWERED is
   followed (if at all) by an exchange of a LATER command - an answered command is not sent again *)
Inductive wire_ok : list (nat * attempt) -> Prop :=
| wo_nil : wire_ok []
| wo_one x : wire_ok [x]
| wo_fault i f b j a w : (i <= j)%nat -> wire_ok ((j, a) :: w) -> wire_ok ((i, Fault f b) :: (j, a) :: w)
| wo_answer i d j a w : (i < j)%nat -> wire_ok ((j, a) :: w) -> wire_ok ((i, Answer d) :: (j, a) :: w).

Definition idx_ge (n : nat) (w : list (nat * attempt)) : Prop := Forall (fun p => (n <= fst p)%nat) w.

Lemma wire_ok_app_faults : forall idx l w,
  Forall is_fault l -> wire_ok w -> idx_ge idx w -> wire_ok (map (fun a => (idx, a)) l ++ w).
Proof.
  induction l as [|a l IH]; intros w Hl Hw Hge; cbn; [exact Hw|].
  inversion Hl as [|a' l' [f [b E]] Hl']. subst. specialize (IH w Hl' Hw Hge).
  destruct l as [|a2 l]; cbn in *.
  - destruct w as [|[j a] w]; [constructor|]. constructor; [|exact Hw].
    inversion Hge. cbn in *. assumption.
  - constructor; [lia|exact IH].
Qed.

Lemma run_seq_wire_lemma : forall ty fixed3 budgets s pos idx,
  let '(_, w) := run_seq ty fixed3 budgets s pos idx in wire_ok w /\ idx_ge idx w.
Proof.
  intros ty fixed3 budgets. induction budgets as [|n rest IH]; intros s pos idx; cbn [run_seq].
  - split; constructor.
  - pose proof (retry_spec_lemma ty fixed3 n s pos) as R. unfold retry_spec_stmt in R.
    destruct (transceive_n ty fixed3 n true s pos) as [r k] eqn:ET.
    destruct R as [Hk [_ [_ Hf]]].
    assert (Hge : idx_ge idx (map (fun a => (idx, a)) (attempts_of k s pos))).
    { unfold idx_ge. apply Forall_forall. intros p Hp. apply in_map_iff in Hp as [a [Ea _]]. subst p. cbn. lia. }
    assert (Hallf : (forall r', r <> Ok r') -> Forall is_fault (attempts_of k s pos)).
    { intros Hne. apply Forall_forall. intros a Ha. apply In_nth_error in Ha as [i Hi].
      assert (Hik : (i < k)%nat).
      { assert (X := nth_error_Some (attempts_of k s pos) i).
        rewrite attempts_of_length in X. apply X. rewrite Hi. discriminate. }
      rewrite attempts_of_nth in Hi by exact Hik. inversion Hi. subst a.
      destruct (Nat.eq_dec (S i) k) as [Ek|Nk]; [|apply Hf; lia].
      (* the last attempt of a failed command is a fault as well *)
      destruct (is_fault_dec (s (pos + i)%nat)) as [F|[d Ea]]; [exact F|]. exfalso.
      pose proof (retry_spec_lemma ty fixed3 n s pos) as R2. unfold retry_spec_stmt in R2. rewrite ET in R2.
      destruct R2 as [_ [R2 _]]. destruct (R2 i d) as [Er _]; [lia|exact Ea|intros i' Hi'; apply Hf; lia|].
      eapply Hne. exact Er. }
    destruct r as [d|e|c|].
    + specialize (IH s (pos + k)%nat (S idx)).
      destruct (run_seq ty fixed3 rest s (pos + k) (S idx)) as [r' w'].
      destruct IH as [Hw' Hge'].
      assert (Hge2 : idx_ge idx w').
      { unfold idx_ge in *. eapply Forall_impl; [|exact Hge']. cbn. intros. lia. }
      split.
      * (* split the attempts into the faults and the final answer *)
        destruct (answered_delivered ty fixed3 n s pos d k ET) as [_ _].
        assert (Hk1 : exists j, k = S j).
        { destruct k; [|eauto]. exfalso. unfold transceive_n in ET.
          pose proof (loop_spec n s pos 0 None) as L.
          assert (H' : match loop n s pos 0 None with
                       | (Some d0, k0, _) => (Ok d0, k0)
                       | (None, k0, last) => (exhausted ty fixed3 last, k0) end = (Ok d, 0%nat)) by (destruct ty; exact ET).
          destruct (loop n s pos 0 None) as [[[d0|] k0] l'].
          - inversion H'. subst. destruct L as [j [_ [Hk' _]]]. lia.
          - inversion H' as [[Hx Hy]]. destruct l' as [f|]; cbn in Hx.
            + destruct (errno_of f); [discriminate|]. destruct ty, fixed3; discriminate.
            + destruct ty, fixed3; discriminate. }
        destruct Hk1 as [j Ej]. subst k.
        pose proof (attempts_of_snoc j s pos) as Hsplit.
        rewrite Hsplit, map_app, <- app_assoc. cbn [map app].
        apply wire_ok_app_faults.
        -- apply Forall_forall. intros a Ha. apply In_nth_error in Ha as [i Hi].
           assert (Hij : (i < j)%nat).
           { assert (X := nth_error_Some (attempts_of j s pos) i). rewrite attempts_of_length in X.
             apply X. rewrite Hi. discriminate. }
           rewrite attempts_of_nth in Hi by exact Hij. inversion Hi. apply Hf. lia.
        -- destruct (is_fault_dec (s (pos + j)%nat)) as [[f [b E]]|[d' E]]; rewrite E.
           ++ destruct w' as [|[j' a'] w']; [constructor|]. constructor; [|exact Hw'].
              inversion Hge2. cbn in *. assumption.
           ++ destruct w' as [|[j' a'] w']; [constructor|]. constructor; [|exact Hw'].
              inversion Hge'. cbn in *. lia.
        -- constructor; [cbn; lia|exact Hge2].
      * apply Forall_app. split; [exact Hge|exact Hge2].
    + split; [|exact Hge].
      rewrite <- (app_nil_r (map _ _)). apply wire_ok_app_faults; [|constructor|constructor].
      apply Hallf. intros r' H'. discriminate.
    + split; [|exact Hge].
      rewrite <- (app_nil_r (map _ _)). apply wire_ok_app_faults; [|constructor|constructor].
      apply Hallf. intros r' H'. discriminate.
    + split; [|exact Hge].
      rewrite <- (app_nil_r (map _ _)). apply wire_ok_app_faults; [|constructor|constructor].
      apply Hallf. intros r' H'. discriminate.
Qed.

(* an operation written as a command sequence ends Ok or with a TagCommandError of one of the three
   reason codes when the script only contains the three named error classes and every command has at
   least one attempt *)
Lemma run_seq_closed_lemma : forall ty fixed3 budgets s pos idx,
  named_script s -> Forall (fun n => n <> O) budgets ->
  let r := fst (run_seq ty fixed3 budgets s pos idx) in
  r = Ok tt \/ r = Err (TagCommandError TIMEOUT_ERROR) \/ r = Err (TagCommandError RECEIVE_ERROR) \/
  r = Err (TagCommandError PROTOCOL_ERROR).
Proof.
  intros ty fixed3 budgets s. induction budgets as [|n rest IH]; intros pos idx Hs Hb; cbn [run_seq].
  - left. reflexivity.
  - inversion Hb as [|n' rest' Hn Hrest]. subst.
    destruct n as [|n]; [exfalso; apply Hn; reflexivity|].
    pose proof (transceive_closed_lemma ty fixed3 n true s pos Hs) as C.
    destruct (transceive_n ty fixed3 (S n) true s pos) as [r k]. cbn [fst] in C.
    destruct C as [[d E]|[E|[E|E]]]; subst r.
    + specialize (IH (pos + k)%nat (S idx) Hs Hrest).
      destruct (run_seq ty fixed3 rest s (pos + k) (S idx)) as [r' w']. exact IH.
    + right. left. reflexivity.
    + right. right. left. reflexivity.
    + right. right. right. reflexivity.
Qed.
