(* Generic analysis of the phases of _write_ndef_data on a well-formed TLV layout, shared by the
   Type 1 and Type 2 proofs: the caches after each phase, what they change (only NDEF-area bytes),
   what a reader finds in them and in any unit-wise mixture left by an interrupted synchronize. *)
From Coq Require Import ZArith List Bool Lia ZifyBool.
From NV Require Import Base.Result Base.Bytes Model.TlvMem Proofs.TlvLib.
Import ListNotations.
Open Scope Z_scope.
Ltac Zify.zify_post_hook ::= Z.to_euclidean_division_equations.

Lemma chain_cmds_in u : forall cs from w, In w (chain_cmds u from cs) -> exists f c, adjacent from cs f c /\ In w (sync_cmds u f c).
Proof.
  induction cs as [|c r IH]; intros from w H; [destruct H|]. cbn [chain_cmds] in H. apply in_app_or in H. destruct H as [H|H].
  - exists from, c. split; [apply adj_here | exact H].
  - destruct (IH c w H) as (f & x & Ha & Hi). exists f, x. split; [apply adj_next; exact Ha | exact Hi].
Qed.

Lemma adjacent3 from a b c f x : adjacent from [a; b; c] f x ->
  (f = from /\ x = a) \/ (f = a /\ x = b) \/ (f = b /\ x = c).
Proof. intro H. inversion H as [| ? ? ? ? ? H2]; subst; [auto|]. inversion H2 as [| ? ? ? ? ? H3]; subst; [auto|].
  inversion H3 as [| ? ? ? ? ? H4]; subst; [auto|]. inversion H4. Qed.
Lemma adjacent4 from a b c d f x : adjacent from [a; b; c; d] f x ->
  (f = from /\ x = a) \/ (f = a /\ x = b) \/ (f = b /\ x = c) \/ (f = c /\ x = d).
Proof. intro H. inversion H as [| ? ? ? ? ? H2]; subst; [auto|]. inversion H2 as [| ? ? ? ? ? H3]; subst; [auto|].
  inversion H3 as [| ? ? ? ? ? H4]; subst; [auto|]. inversion H4 as [| ? ? ? ? ? H5]; subst; [tauto|]. inversion H5. Qed.

Lemma In_firstn {A} (l : list A) j w : In w (firstn j l) -> In w l.
Proof. intro H. rewrite <- (firstn_skipn j l). apply in_or_app. left. exact H. Qed.
Lemma adjacent_P (P : list Z -> Prop) : forall cs from f c, adjacent from cs f c -> P from -> Forall P cs -> P f /\ P c.
Proof. intros cs from f c H. induction H as [from c r | from c r f x H IH]; intros Hf Hcs; inversion Hcs; subst; auto. Qed.


(* the three length-field bytes behind the tag byte lie in one write unit *)
Definition one_unit (u : nat) (off : Z) : Prop := (off + 3) / Z.of_nat u = (off + 1) / Z.of_nat u.

Section Generic.
Variables (em : list Z) (L : layout) (u ku : nat).
Variable READ : list Z -> res (option layout).     (* the type specific reader on a readable image *)
Hypothesis Hu : (0 < u)%nat.
Hypothesis Hk : length em = (ku * u)%nat.
Hypothesis Hde : l_dend L <= len em.
Hypothesis Hoff0 : 0 <= l_off L.
Hypothesis Hoff1 : l_off L + 1 < l_dend L.
Hypothesis Htag : get em (l_off L) = 3.
Hypothesis Hcapeq : l_cap L = get_capacity (l_dend L) (l_off L) (l_skip L).
Hypothesis Hs1 : in_skip (l_skip L) (l_off L + 1) = false.
Hypothesis Hs23 : 255 <= l_cap L ->
  in_skip (l_skip L) (l_off L + 2) = false /\ in_skip (l_skip L) (l_off L + 3) = false.
(* a memory that agrees with em up to and including the tag byte of the NDEF TLV, and whose NDEF TLV lies inside the
   data area, is parsed to the same layout *)
Hypothesis Htransfer : forall c l' v' e', agree_below (l_off L + 1) em c -> ndef_fits c (set_val L v') = true ->
  read_tlv c (l_off L) (l_skip L) = Ok (3, l', v', e') -> READ c = Ok (Some (set_val L v')).
(* every lemma of the section takes all hypotheses, in this order *)
Set Default Proof Using "Hu Hk Hde Hoff0 Hoff1 Htag Hcapeq Hs1 Hs23 Htransfer".

Notation off := (l_off L).
Notation skip := (l_skip L).
Notation dend := (l_dend L).

Lemma area_intro x : off <= x < dend -> in_skip skip x = false -> ndef_area L x = true.
Proof. intros H1 H2. unfold ndef_area. rewrite H2. cbn [negb]. lia. Qed.

(* capacity: enough free bytes behind the length field *)
Lemma cap_short (d : list Z) : len d < 255 -> len d <= l_cap L ->
  len d <= count_free skip (off + 2) (Z.to_nat (dend - (off + 2))).
Proof.
  intros Hd Hc. rewrite Hcapeq in Hc. unfold get_capacity in Hc.
  replace (Z.to_nat (dend - off)) with (2 + Z.to_nat (dend - (off + 2)))%nat in Hc by lia.
  rewrite count_free_app in Hc. pose proof (count_free_bounds skip 2 off). cbn [Z.of_nat Pos.of_succ_nat Pos.succ] in *.
  match type of Hc with context [256 <? ?x] => destruct (256 <? x) end; lia.
Qed.
Lemma cap_long (d : list Z) : 255 <= len d -> len d <= l_cap L ->
  off + 3 < dend /\ in_skip skip (off + 2) = false /\ in_skip skip (off + 3) = false /\
  len d <= count_free skip (off + 4) (Z.to_nat (dend - (off + 4))).
Proof.
  intros Hd Hc. destruct (Hs23 ltac:(lia)) as [H2 H3]. rewrite Hcapeq in Hc. unfold get_capacity in Hc.
  pose proof (count_free_bounds skip (Z.to_nat (dend - off)) off) as Hb.
  assert (Hn : off + 3 < dend) by (match type of Hc with context [256 <? ?x] => destruct (Z.ltb_spec 256 x) end; lia).
  replace (Z.to_nat (dend - off)) with (4 + Z.to_nat (dend - (off + 4)))%nat in Hc by lia.
  rewrite count_free_app in Hc. pose proof (count_free_bounds skip 4 off). cbn [Z.of_nat Pos.of_succ_nat Pos.succ] in *.
  repeat split; auto. match type of Hc with context [256 <? ?x] => destruct (Z.ltb_spec 256 x) end; lia.
Qed.
Lemma count_free_mono a n k : count_free skip a n <= count_free skip a (n + k).
Proof. rewrite count_free_app. pose proof (count_free_bounds skip k (a + Z.of_nat n)). lia. Qed.

(* f -> c changes only bytes of the NDEF area behind the tag byte *)
Definition touch (f c : list Z) : Prop :=
  length c = length f /\ forall x, 0 <= x -> get c x <> get f x -> off < x /\ ndef_area L x = true.
Lemma touch_refl c : touch c c. Proof. split; [reflexivity|]. intros x _ H. congruence. Qed.
Lemma touch_trans a b c : touch a b -> touch b c -> touch a c.
Proof. intros [H1 H2] [H3 H4]. split; [congruence|]. intros x Hx Hne.
  destruct (Z.eq_dec (get b x) (get a x)) as [E|E]; [apply H4; [exact Hx | congruence] | apply H2; assumption]. Qed.

Lemma upd_touch c a v c' : upd c a v = Ok c' -> off < a -> ndef_area L a = true ->
  touch c c' /\ (forall x, 0 <= x -> x <> a -> get c' x = get c x) /\ get c' a = v.
Proof.
  intros H Ha Har. apply upd_inv in H. destruct H as (Hb & Hl & Hg). split; [|split].
  - split; [exact Hl|]. intros x Hx Hne. rewrite Hg in Hne by exact Hx. destruct (Z.eqb_spec x a); [subst; auto | congruence].
  - intros x Hx Hne. rewrite Hg by exact Hx. destruct (Z.eqb_spec x a); congruence.
  - rewrite Hg by lia. rewrite Z.eqb_refl. reflexivity.
Qed.

(* the data phase: value bytes at the positions the reader visits, terminator behind them *)
Lemma ph_data_spec (d c : list Z) : length c = length em -> len d <= l_cap L ->
  exists c2 e, ph_data L d c = Ok c2 /\ touch c c2 /\
    (forall x, 0 <= x < off + (if len d <? 255 then 2 else 4) -> get c2 x = get c x) /\
    read_val skip (off + (if len d <? 255 then 2 else 4))
      (skipn (Z.to_nat (off + (if len d <? 255 then 2 else 4))) c2) (length d) = Ok (d, e).
Proof.
  intros Hlc Hcap. unfold ph_data.
  set (start := off + (if len d <? 255 then 2 else 4)).
  assert (Hst : off + 2 <= start <= dend /\ len d <= count_free skip start (Z.to_nat (dend - start))).
  { subst start. destruct (Z.ltb_spec (len d) 255) as [Hd|Hd].
    - split; [lia | apply cap_short; assumption].
    - destruct (cap_long d Hd Hcap) as (H3 & _ & _ & Hc). split; [lia | exact Hc]. }
  destruct Hst as [Hst Hcnt].
  assert (Hlen : len c = len em) by (unfold len; congruence).
  destruct (place_ok skip c start d) as [[cP e] HP]; [lia | lia | |].
  { replace (Z.to_nat (len c - start)) with (Z.to_nat (dend - start) + Z.to_nat (len c - dend))%nat by lia.
    eapply Z.le_trans; [exact Hcnt | apply count_free_mono]. }
  rewrite HP. cbn [bind fst snd].
  destruct (place_inv _ _ _ _ _ _ HP) as (Hl & He & Hrv & Hfr); [lia | lia |].
  assert (Hed : e <= dend).
  { pose proof (place_end _ _ _ _ _ _ (Z.to_nat (dend - start)) HP ltac:(lia) Hcnt). lia. }
  assert (HtP : touch c cP).
  { split; [exact Hl|]. intros x Hx Hne.
    destruct (Z.ltb_spec x start); [elim Hne; apply Hfr; auto|].
    destruct (in_skip skip x) eqn:Es; [elim Hne; apply Hfr; auto|].
    destruct (Z.leb_spec e x); [elim Hne; apply Hfr; auto|].
    split; [lia | apply area_intro; [lia | exact Es]]. }
  destruct (term_pos skip e (Z.to_nat (dend - e))) as [t|] eqn:Et.
  - apply term_pos_spec in Et. destruct Et as [Et1 Et2].
    destruct (upd_ok cP t 254) as [c2 Hc2]; [unfold len in *; lia|].
    rewrite Hc2. exists c2, e. destruct (upd_touch _ _ _ _ Hc2) as (T1 & T2 & _); [lia | apply area_intro; [lia | exact Et2] |].
    split; [reflexivity|]. split; [eapply touch_trans; eassumption|]. split.
    + intros x Hx. rewrite T2 by lia. apply Hfr; [lia | left; lia].
    + destruct T1 as [T1 _]. apply (read_val_at_congr skip cP c2 start _ d e); [lia | congruence | exact Hrv |].
      intros x Hx. symmetry. apply T2; lia.
  - exists cP, e. split; [reflexivity|]. split; [exact HtP|]. split; [|exact Hrv].
    intros x Hx. apply Hfr; [lia | left; lia].
Qed.

(* the test at the end of the repaired readers *)
Lemma fits_intro (c v : list Z) b hdr : rd c (off + 1) = Ok b -> hdr = (if b =? 255 then 4 else 2) -> off + hdr <= dend ->
  len v <= count_free skip (off + hdr) (Z.to_nat (dend - (off + hdr))) -> len v <= l_cap L ->
  ndef_fits c (set_val L v) = true.
Proof.
  intros Hb Hh H1 H2 H3. unfold ndef_fits, ndef_hdr. cbn [set_val l_off l_dend l_val l_skip l_cap]. rewrite Hb.
  assert (E : match b with 255 => 4 | _ => 2 end = hdr).
  { subst hdr. destruct (Z.eqb_spec b 255) as [->|Hn]; [reflexivity|].
    destruct b as [|p|p]; try reflexivity. repeat (destruct p as [p|p|]; try reflexivity); congruence. }
  rewrite E. lia.
Qed.

(* what a reader finds when the NDEF TLV is still in front of it and its length byte is 0 *)
Definition hdr0 (c : list Z) : Prop := agree_below (off + 1) em c /\ get c (off + 1) = 0.
Lemma hdr0_read c : 0 <= l_cap L -> hdr0 c -> READ c = Ok (Some (set_val L [])).
Proof.
  intros Hc0 [HA H0]. pose proof HA as [HL HG]. assert (Hlen : len c = len em) by (unfold len; congruence).
  apply (Htransfer c 0 [] (off + 2) HA).
  { apply (fits_intro c [] 0 2); [rewrite rd_ok by lia; rewrite H0; reflexivity | reflexivity | lia | | exact Hc0].
    rewrite len_nil. apply count_free_bounds. }
  unfold read_tlv. rewrite rd_ok by lia. rewrite <- HG by lia. rewrite Htag. cbn [bind Z.eqb orb].
  rewrite rd_ok by lia. rewrite H0. cbn [bind Z.eqb fst snd Z.to_nat]. rewrite read_val_0. reflexivity.
Qed.
Lemma hdr0_mix f c x : hdr0 f -> hdr0 c -> umixed u f c x -> hdr0 x.
Proof.
  intros [[Lf Gf] Zf] [[Lc Gc] Zc] Hm. pose proof (umixed_pointwise u f c x Hu Hm) as Hp. destruct Hm as [Hl _].
  split; [split; [congruence|]|].
  - intros a Ha. unfold get in *. destruct (Hp (Z.to_nat a)) as [E|E]; rewrite E; [apply Gf | apply Gc]; exact Ha.
  - unfold get in *. destruct (Hp (Z.to_nat (off + 1))) as [E|E]; rewrite E; assumption.
Qed.
Lemma touch_hdr0 f c : hdr0 f -> touch f c -> (forall x, 0 <= x -> get c x <> get f x -> off + 1 < x) -> hdr0 c.
Proof.
  intros [[Lf Gf] Zf] [Tl Tg] Hx. split; [split; [congruence|]|].
  - intros a Ha. rewrite Gf by exact Ha. destruct (Z.eq_dec (get c a) (get f a)) as [E|E]; [congruence|].
    apply Tg in E; lia.
  - destruct (Z.eq_dec (get c (off + 1)) (get f (off + 1))) as [E|E]; [congruence|]. apply Hx in E; lia.
Qed.

Lemma len0_spec : exists c1, ph_len0 L em = Ok c1 /\ touch em c1 /\ hdr0 c1 /\
  (forall x, 0 <= x -> x <> off + 1 -> get c1 x = get em x).
Proof.
  unfold ph_len0.
  destruct (upd_ok em (off + 1) 0) as [c1 H1]; [lia|]. exists c1. split; [exact H1|].
  destruct (upd_touch _ _ _ _ H1) as (T1 & T2 & T3); [lia | apply area_intro; [lia | exact Hs1] |].
  split; [exact T1|]. split; [|exact T2].
  split; [|exact T3]. destruct T1 as [Tl _]. split; [congruence|]. intros a Ha. symmetry. apply T2; lia.
Qed.

Lemma final_read_short (d c3 : list Z) e : agree_below (off + 1) em c3 -> len d <= l_cap L -> len d < 255 -> get c3 (off + 1) = len d ->
  read_val skip (off + 2) (skipn (Z.to_nat (off + 2)) c3) (length d) = Ok (d, e) ->
  READ c3 = Ok (Some (set_val L d)).
Proof.
  intros HA Hcap Hd H1 Hrv. pose proof HA as [HL HG]. assert (Hlen : len c3 = len em) by (unfold len; congruence).
  apply (Htransfer c3 (len d) d e HA).
  { apply (fits_intro c3 d (len d) 2); [rewrite rd_ok by lia; rewrite H1; reflexivity | replace (len d =? 255) with false by lia; reflexivity
      | lia | apply cap_short; assumption | exact Hcap]. }
  unfold read_tlv. rewrite rd_ok by lia. rewrite <- HG by lia. rewrite Htag. cbn [bind Z.eqb orb].
  rewrite rd_ok by lia. rewrite H1. cbn [bind]. replace (len d =? 255) with false by lia. cbn [bind fst snd].
  unfold len at 1. rewrite Nat2Z.id, Hrv. reflexivity.
Qed.
Lemma final_read_long (d c3 : list Z) e : agree_below (off + 1) em c3 -> len d <= l_cap L -> 255 <= len d -> off + 3 < dend ->
  get c3 (off + 1) = 255 -> get c3 (off + 2) = len d / 256 -> get c3 (off + 3) = len d mod 256 ->
  read_val skip (off + 4) (skipn (Z.to_nat (off + 4)) c3) (length d) = Ok (d, e) ->
  READ c3 = Ok (Some (set_val L d)).
Proof.
  intros HA Hcap Hd Hd3 H1 H2 H3 Hrv. pose proof HA as [HL HG]. assert (Hlen : len c3 = len em) by (unfold len; congruence).
  apply (Htransfer c3 (len d) d e HA).
  { apply (fits_intro c3 d 255 4); [rewrite rd_ok by lia; rewrite H1; reflexivity | reflexivity | lia | apply cap_long; assumption | exact Hcap]. }
  unfold read_tlv. rewrite rd_ok by lia. rewrite <- HG by lia. rewrite Htag. cbn [bind Z.eqb orb].
  rewrite rd_ok by lia. rewrite H1. cbn [bind Z.eqb Pos.eqb]. rewrite !rd_ok by lia. rewrite H2, H3. cbn [bind fst snd].
  replace (256 * (len d / 256) + len d mod 256) with (len d) by lia.
  unfold len at 1. rewrite Nat2Z.id, Hrv. reflexivity.
Qed.

(* nat-indexed difference -> unit index, for umixed_single *)
Lemma differ_unit (f c : list Z) (P : Z -> Prop) (q0 : nat) :
  (forall x, 0 <= x -> get c x <> get f x -> P x) -> (forall x, P x -> 0 <= x /\ (Z.to_nat x / u)%nat = q0) ->
  forall i, nth i f 0 <> nth i c 0 -> (i / u)%nat = q0.
Proof.
  intros H1 H2 i Hne. specialize (H1 (Z.of_nat i) ltac:(lia)). unfold get in H1. rewrite Nat2Z.id in H1.
  destruct (H2 _ (H1 ltac:(congruence))) as [_ H]. rewrite Nat2Z.id in H. exact H.
Qed.


(* ---- the first two phases ---- *)
Lemma write_prefix (d : list Z) : len d <= l_cap L -> exists c1 c2 e,
  ph_len0 L em = Ok c1 /\ ph_data L d c1 = Ok c2 /\ touch em c1 /\ touch c1 c2 /\ hdr0 c1 /\ hdr0 c2 /\
  length c1 = length em /\ length c2 = length em /\
  (forall x, 0 <= x -> x <> off + 1 -> get c1 x = get em x) /\
  (forall x, 0 <= x < off + (if len d <? 255 then 2 else 4) -> get c2 x = get c1 x) /\
  read_val skip (off + (if len d <? 255 then 2 else 4))
    (skipn (Z.to_nat (off + (if len d <? 255 then 2 else 4))) c2) (length d) = Ok (d, e).
Proof.
  intro Hcap. destruct len0_spec as (c1 & P1 & T1 & Z1 & G1).
  assert (L1 : length c1 = length em) by apply T1.
  destruct (ph_data_spec d c1 L1 Hcap) as (c2 & e & P2 & T2 & G2 & R2).
  assert (L2 : length c2 = length em) by (destruct T2; congruence).
  assert (Z2 : hdr0 c2).
  { apply (touch_hdr0 c1 c2 Z1 T2). intros x Hx Hne. destruct (Z.ltb_spec x (off + (if len d <? 255 then 2 else 4))) as [Hl|Hl].
    - elim Hne. apply G2. lia.
    - destruct (len d <? 255); lia. }
  exists c1, c2, e. split; [exact P1|]. split; [exact P2|]. split; [exact T1|]. split; [exact T2|]. split; [exact Z1|].
  split; [exact Z2|]. split; [exact L1|]. split; [exact L2|]. split; [exact G1|]. split; [exact G2 | exact R2].
Qed.

(* two caches that differ in the first length byte only *)
Lemma mix_single f c x : touch f c -> (forall y, 0 <= y -> get c y <> get f y -> y = off + 1) -> umixed u f c x -> x = f \/ x = c.
Proof.
  intros [Tl _] Hone Hm. apply (umixed_single u f c x (Z.to_nat (off + 1) / u)%nat Hu Hm Tl).
  apply (differ_unit f c (fun y => y = off + 1)); [exact Hone|]. intros y ->. split; [lia | reflexivity].
Qed.
(* two caches that differ in the three length bytes only, all in one write unit *)
Lemma mix_unit f c x : touch f c -> one_unit u off -> (forall y, 0 <= y -> get c y <> get f y -> off + 1 <= y <= off + 3) ->
  umixed u f c x -> x = f \/ x = c.
Proof.
  intros [Tl _] H1 H3 Hm. apply (umixed_single u f c x (Z.to_nat (off + 1) / u)%nat Hu Hm Tl).
  apply (differ_unit f c (fun y => off + 1 <= y <= off + 3)); [exact H3|]. intros y Hy. split; [lia|].
  unfold one_unit in H1. assert (E : y / Z.of_nat u = (off + 1) / Z.of_nat u) by nia.
  rewrite <- (Z2Nat.id y) in E by lia. rewrite <- (Z2Nat.id (off + 1)) in E by lia.
  rewrite <- !Nat2Z.inj_div in E. lia.
Qed.

(* ---- the length phase, one length byte ---- *)
Lemma tail_short (d c2 : list Z) e : hdr0 c2 -> length c2 = length em -> len d <= l_cap L -> len d < 255 ->
  read_val skip (off + 2) (skipn (Z.to_nat (off + 2)) c2) (length d) = Ok (d, e) ->
  exists c3, ph_len_short L d c2 = Ok c3 /\ touch c2 c3 /\ length c3 = length em /\ READ c3 = Ok (Some (set_val L d)) /\
    (forall x, umixed u c2 c3 x -> x = c2 \/ x = c3).
Proof.
  intros Z2 L2 Hcap Hd R2. unfold ph_len_short.
  destruct (upd_ok c2 (off + 1) (len d)) as [c3 P3]; [unfold len in *; lia|].
  destruct (upd_touch _ _ _ _ P3) as (T3 & G3 & V3); [lia | apply area_intro; [lia | exact Hs1] |].
  assert (L3 : length c3 = length em) by (destruct T3; congruence).
  exists c3. split; [exact P3|]. split; [exact T3|]. split; [exact L3|]. split.
  - apply (final_read_short d c3 e); [| exact Hcap | exact Hd | exact V3 |].
    + destruct Z2 as [[Za Zb] _]. split; [congruence|]. intros a Ha. rewrite Zb by exact Ha. symmetry. apply G3; lia.
    + apply (read_val_at_congr skip c2 c3 (off + 2) _ d e); [lia | congruence | exact R2 |].
      intros x Hx. symmetry. apply G3; lia.
  - intros x Hm. apply (mix_single c2 c3 x T3); [|exact Hm].
    intros y Hy Hne. destruct (Z.eq_dec y (off + 1)); [assumption|]. elim Hne. apply G3; assumption.
Qed.

(* ---- the length phase, three length bytes: low bytes, then FF ---- *)
Lemma tail_long (d c2 : list Z) e : hdr0 c2 -> length c2 = length em -> 255 <= len d -> len d <= l_cap L ->
  read_val skip (off + 4) (skipn (Z.to_nat (off + 4)) c2) (length d) = Ok (d, e) ->
  exists cb c3, ph_len_low L d c2 = Ok cb /\ ph_len_ff L cb = Ok c3 /\ touch c2 cb /\ touch cb c3 /\ hdr0 cb /\
    length cb = length em /\ length c3 = length em /\ READ c3 = Ok (Some (set_val L d)) /\
    (forall x, umixed u cb c3 x -> x = cb \/ x = c3) /\
    (forall y, 0 <= y -> get c3 y <> get c2 y -> off + 1 <= y <= off + 3) /\
    get c3 (off + 1) = 255 /\ get c3 (off + 2) = len d / 256 /\ get c3 (off + 3) = len d mod 256 /\
    (forall y, 0 <= y -> y < off + 1 \/ off + 3 < y -> get c3 y = get c2 y).
Proof.
  intros Z2 L2 Hd Hcap R2. destruct (cap_long d Hd Hcap) as (Hd3 & S2 & S3 & _).
  destruct (upd_ok c2 (off + 2) (len d / 256)) as [ca Pa]; [unfold len in *; lia|].
  destruct (upd_touch _ _ _ _ Pa) as (Ta & Ga & Va); [lia | apply area_intro; [lia | exact S2] |].
  assert (La : length ca = length em) by (destruct Ta; congruence).
  destruct (upd_ok ca (off + 3) (len d mod 256)) as [cb Pb]; [unfold len in *; lia|].
  destruct (upd_touch _ _ _ _ Pb) as (Tb & Gb & Vb); [lia | apply area_intro; [lia | exact S3] |].
  assert (Lb : length cb = length em) by (destruct Tb; congruence).
  destruct (upd_ok cb (off + 1) 255) as [c3 P3]; [unfold len in *; lia|].
  destruct (upd_touch _ _ _ _ P3) as (T3 & G3 & V3); [lia | apply area_intro; [lia | exact Hs1] |].
  assert (L3 : length c3 = length em) by (destruct T3; congruence).
  assert (Plow : ph_len_low L d c2 = Ok cb) by (unfold ph_len_low; rewrite Pa; cbn [bind]; exact Pb).
  assert (Tlow : touch c2 cb) by (eapply touch_trans; eassumption).
  assert (Zb : hdr0 cb).
  { apply (touch_hdr0 c2 cb Z2 Tlow). intros x Hx Hne.
    destruct (Z.eq_dec x (off + 3)); [lia|]. destruct (Z.eq_dec x (off + 2)); [lia|].
    elim Hne. rewrite Gb, Ga by assumption. reflexivity. }
  exists cb, c3. split; [exact Plow|]. split; [exact P3|]. split; [exact Tlow|]. split; [exact T3|]. split; [exact Zb|].
  split; [exact Lb|]. split; [exact L3|]. split.
  { apply (final_read_long d c3 e); [| exact Hcap | exact Hd | exact Hd3 | exact V3 | | |].
    - destruct Zb as [[Za Zg] _]. split; [congruence|]. intros a Ha. rewrite Zg by exact Ha. symmetry. apply G3; lia.
    - rewrite G3, Gb by lia. exact Va.
    - rewrite G3 by lia. exact Vb.
    - apply (read_val_at_congr skip c2 c3 (off + 4) _ d e); [lia | congruence | exact R2 |].
      intros x Hx. rewrite G3, Gb, Ga by lia. reflexivity. }
  split.
  { intros x Hm. apply (mix_single cb c3 x T3); [|exact Hm].
    intros y Hy Hne. destruct (Z.eq_dec y (off + 1)); [assumption|]. elim Hne. apply G3; assumption. }
  split.
  { intros y Hy Hne. destruct (Z.ltb_spec y (off + 1)); [elim Hne; rewrite G3, Gb, Ga by lia; reflexivity|].
    destruct (Z.ltb_spec (off + 3) y); [elim Hne; rewrite G3, Gb, Ga by lia; reflexivity|]. lia. }
  split; [exact V3|]. split; [rewrite G3, Gb by lia; exact Va|]. split; [rewrite G3 by lia; exact Vb|].
  intros y Hy Hc. rewrite G3, Gb, Ga by lia. reflexivity.
Qed.

(* the un-repaired order (FF, then the low bytes, one synchronize) reaches the same cache *)
Lemma tail_unrepaired (d c2 c3 : list Z) : length c2 = length em -> length c3 = length em -> off + 3 < dend ->
  get c3 (off + 1) = 255 -> get c3 (off + 2) = len d / 256 -> get c3 (off + 3) = len d mod 256 ->
  (forall y, 0 <= y -> y < off + 1 \/ off + 3 < y -> get c3 y = get c2 y) ->
  ph_len_long_unrepaired L d c2 = Ok c3.
Proof.
  intros L2 L3 Hd3 V1 V2 V3 G. unfold ph_len_long_unrepaired.
  destruct (upd_ok c2 (off + 1) 255) as [ca Pa]; [unfold len in *; lia|]. rewrite Pa. cbn [bind].
  pose proof (upd_inv _ _ _ _ Pa) as (_ & La & Ga).
  destruct (upd_ok ca (off + 2) (len d / 256)) as [cb Pb]; [unfold len in *; lia|]. rewrite Pb. cbn [bind].
  pose proof (upd_inv _ _ _ _ Pb) as (_ & Lb & Gb).
  destruct (upd_ok cb (off + 3) (len d mod 256)) as [cc Pc]; [unfold len in *; lia|]. rewrite Pc.
  pose proof (upd_inv _ _ _ _ Pc) as (_ & Lc & Gc).
  f_equal. apply get_ext; [congruence|]. intros a Ha. rewrite Gc, Gb, Ga by lia.
  destruct (Z.eqb_spec a (off + 3)); [subst; auto|]. destruct (Z.eqb_spec a (off + 2)); [subst; auto|].
  destruct (Z.eqb_spec a (off + 1)); [subst; auto|]. symmetry. apply G; lia.
Qed.

(* ---- a complete write: the caches, what they touch, what the final and the intermediate memories read as ---- *)
Definition caches_ok (phs : list phase) (d : list Z) (safe : Prop) : Prop :=
  exists cs cf, steps em phs cs /\ last_cache em cs = cf /\
    Forall (fun c => length c = length em) cs /\
    (forall f c, adjacent em cs f c -> touch f c) /\
    READ cf = Ok (Some (set_val L d)) /\
    (safe -> forall f c x, adjacent em cs f c -> umixed u f c x -> x = em \/ hdr0 x \/ x = cf).

Lemma mix01 c1 x : touch em c1 -> hdr0 c1 -> (forall y, 0 <= y -> y <> off + 1 -> get c1 y = get em y) ->
  umixed u em c1 x -> x = em \/ hdr0 x.
Proof.
  intros T1 Z1 G1 Hm. destruct (mix_single em c1 x T1) as [->| ->]; auto.
  intros y Hy Hne. destruct (Z.eq_dec y (off + 1)); [assumption|]. elim Hne. apply G1; assumption.
Qed.

Lemma caches_short (d : list Z) : len d <= l_cap L -> len d < 255 ->
  caches_ok [ph_len0 L; ph_data L d; ph_len_short L d] d True.
Proof.
  intros Hcap Hd. destruct (write_prefix d Hcap) as (c1 & c2 & e & P1 & P2 & T1 & T2 & Z1 & Z2 & L1 & L2 & G1 & G2 & R2).
  replace (len d <? 255) with true in G2, R2 by lia.
  destruct (tail_short d c2 e Z2 L2 Hcap Hd R2) as (c3 & P3 & T3 & L3 & Rf & M3).
  exists [c1; c2; c3], c3. split; [repeat (eapply steps_cons; [eassumption|]); apply steps_nil|]. split; [reflexivity|].
  split; [repeat constructor; assumption|].
  split. { intros f c Ha. destruct (adjacent3 _ _ _ _ _ _ Ha) as [[-> ->]|[[-> ->]|[-> ->]]]; assumption. }
  split; [exact Rf|]. intros _ f c x Ha Hm.
  destruct (adjacent3 _ _ _ _ _ _ Ha) as [[-> ->]|[[-> ->]|[-> ->]]].
  - destruct (mix01 c1 x T1 Z1 G1 Hm); auto.
  - right; left. refine (hdr0_mix _ _ _ _ _ Hm); assumption.
  - destruct (M3 x Hm) as [->| ->]; auto.
Qed.

Lemma caches_split (d : list Z) : len d <= l_cap L -> 255 <= len d ->
  caches_ok [ph_len0 L; ph_data L d; ph_len_low L d; ph_len_ff L] d True.
Proof.
  intros Hcap Hd. destruct (write_prefix d Hcap) as (c1 & c2 & e & P1 & P2 & T1 & T2 & Z1 & Z2 & L1 & L2 & G1 & G2 & R2).
  replace (len d <? 255) with false in G2, R2 by lia.
  destruct (tail_long d c2 e Z2 L2 Hd Hcap R2) as (cb & c3 & Pl & Pf & Tl & Tf & Zb & Lb & L3 & Rf & M3 & _).
  exists [c1; c2; cb; c3], c3. split; [repeat (eapply steps_cons; [eassumption|]); apply steps_nil|]. split; [reflexivity|].
  split; [repeat constructor; assumption|].
  split. { intros f c Ha. destruct (adjacent4 _ _ _ _ _ _ _ Ha) as [[-> ->]|[[-> ->]|[[-> ->]|[-> ->]]]]; assumption. }
  split; [exact Rf|]. intros _ f c x Ha Hm.
  destruct (adjacent4 _ _ _ _ _ _ _ Ha) as [[-> ->]|[[-> ->]|[[-> ->]|[-> ->]]]].
  - destruct (mix01 c1 x T1 Z1 G1 Hm); auto.
  - right; left. refine (hdr0_mix _ _ _ _ _ Hm); assumption.
  - right; left. refine (hdr0_mix _ _ _ _ _ Hm); assumption.
  - destruct (M3 x Hm) as [->| ->]; auto.
Qed.

(* both one-synchronize variants of the three byte length commit *)
Lemma caches_joint_gen (d : list Z) (ph : phase) : len d <= l_cap L -> 255 <= len d ->
  (forall c2 cb c3, ph_len_low L d c2 = Ok cb -> ph_len_ff L cb = Ok c3 -> length c2 = length em -> ph c2 = Ok c3) ->
  caches_ok [ph_len0 L; ph_data L d; ph] d (one_unit u off).
Proof.
  intros Hcap Hd Hph. destruct (write_prefix d Hcap) as (c1 & c2 & e & P1 & P2 & T1 & T2 & Z1 & Z2 & L1 & L2 & G1 & G2 & R2).
  replace (len d <? 255) with false in G2, R2 by lia.
  destruct (tail_long d c2 e Z2 L2 Hd Hcap R2) as (cb & c3 & Pl & Pf & Tl & Tf & Zb & Lb & L3 & Rf & _ & D3 & _).
  assert (T23 : touch c2 c3) by (eapply touch_trans; eassumption).
  pose proof (Hph c2 cb c3 Pl Pf L2) as P3.
  exists [c1; c2; c3], c3. split; [repeat (eapply steps_cons; [eassumption|]); apply steps_nil|]. split; [reflexivity|].
  split; [repeat constructor; assumption|].
  split. { intros f c Ha. destruct (adjacent3 _ _ _ _ _ _ Ha) as [[-> ->]|[[-> ->]|[-> ->]]]; assumption. }
  split; [exact Rf|]. intros H1 f c x Ha Hm.
  destruct (adjacent3 _ _ _ _ _ _ Ha) as [[-> ->]|[[-> ->]|[-> ->]]].
  - destruct (mix01 c1 x T1 Z1 G1 Hm); auto.
  - right; left. refine (hdr0_mix _ _ _ _ _ Hm); assumption.
  - destruct (mix_unit c2 c3 x T23 H1 D3 Hm) as [->| ->]; auto.
Qed.
Lemma caches_joint (d : list Z) : len d <= l_cap L -> 255 <= len d ->
  caches_ok [ph_len0 L; ph_data L d; fun c => do c' <- ph_len_low L d c; ph_len_ff L c'] d (one_unit u off).
Proof. intros Hcap Hd. apply caches_joint_gen; [assumption | assumption |].
  intros c2 cb c3 Pl Pf _. cbv beta. rewrite Pl. cbn [bind]. exact Pf. Qed.
Lemma caches_unrepaired (d : list Z) : len d <= l_cap L -> 255 <= len d ->
  caches_ok [ph_len0 L; ph_data L d; ph_len_long_unrepaired L d] d (one_unit u off).
Proof.
  intros Hcap Hd. destruct (cap_long d Hd Hcap) as (Hd3 & S2 & S3 & _).
  apply caches_joint_gen; [assumption | assumption |]. intros c2 cb c3 Pl Pf L2.
  unfold ph_len_low in Pl. destruct (upd c2 (off + 2) (len d / 256)) as [ca| | |] eqn:Pa; cbn [bind] in Pl; try discriminate.
  pose proof (upd_inv _ _ _ _ Pa) as (_ & La & Ga). pose proof (upd_inv _ _ _ _ Pl) as (_ & Lb & Gb).
  unfold ph_len_ff in Pf. pose proof (upd_inv _ _ _ _ Pf) as (_ & Lc & Gc).
  apply tail_unrepaired; try congruence; try lia.
  - rewrite Gc by lia. rewrite Z.eqb_refl. reflexivity.
  - rewrite Gc, Gb, Ga by lia. replace (off + 2 =? off + 1) with false by lia. replace (off + 2 =? off + 3) with false by lia.
    rewrite Z.eqb_refl. reflexivity.
  - rewrite Gc, Gb by lia. replace (off + 3 =? off + 1) with false by lia. rewrite Z.eqb_refl. reflexivity.
  - intros y Hy Hc. rewrite Gc, Gb, Ga by lia.
    replace (y =? off + 1) with false by lia. replace (y =? off + 3) with false by lia. replace (y =? off + 2) with false by lia.
    reflexivity.
Qed.

(* ---- the commands of a chain of caches that only touch the NDEF area ---- *)
Lemma touch_chain : forall cs from, (forall f c, adjacent from cs f c -> touch f c) -> touch from (last_cache from cs).
Proof. induction cs as [|c r IH]; intros from H; [apply touch_refl|]. cbn [last_cache].
  eapply touch_trans; [apply H, adj_here | apply IH; intros f x Ha; apply H, adj_next, Ha]. Qed.

Lemma gen_cmds_ok cs : Forall (fun c => length c = length em) cs -> (forall f c, adjacent em cs f c -> touch f c) ->
  forall w, In w (chain_cmds u em cs) ->
    0 <= fst w /\ fst w mod Z.of_nat u = 0 /\ fst w + Z.of_nat u <= len em /\ len (snd w) = Z.of_nat u /\
    exists x, fst w <= x < fst w + Z.of_nat u /\ off < x /\ ndef_area L x = true.
Proof.
  intros Hl Ht w Hw. destruct (chain_cmds_in u cs em w Hw) as (f & c & Ha & Hi).
  destruct (adjacent_P (fun c => length c = length em) cs em f c Ha eq_refl Hl) as [Lf Lc].
  destruct w as [b dat]. cbn [fst snd].
  destruct (sync_cmd_spec u ku f c b dat Hu ltac:(congruence) ltac:(congruence) Hi) as (H0 & Hmod & Hb & Hd & _ & x & Hx & Hne).
  destruct (Ht f c Ha) as [_ Tg]. destruct (Tg x ltac:(lia) Hne) as [Hox Har].
  assert (len c = len em) by (unfold len; congruence).
  repeat split; try lia. exists x. auto.
Qed.

Lemma gen_cut cs j : Forall (fun c => length c = length em) cs ->
  apply_ws em (firstn j (chain_cmds u em cs)) = last_cache em cs \/
  exists f c, adjacent em cs f c /\ umixed u f c (apply_ws em (firstn j (chain_cmds u em cs))).
Proof.
  intro Hl. apply (chain_cut u ku Hu cs em j Hk). eapply Forall_impl; [|exact Hl]. cbv beta. intros; congruence.
Qed.
Lemma gen_apply cs : Forall (fun c => length c = length em) cs -> apply_ws em (chain_cmds u em cs) = last_cache em cs.
Proof. intro Hl. apply (chain_apply u ku Hu cs em Hk). eapply Forall_impl; [|exact Hl]. cbv beta. intros; congruence. Qed.
End Generic.
Set Default Proof Using "Type".
