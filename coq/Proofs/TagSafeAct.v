(* placeholder, being written *)
From Coq Require Import ZArith List Bool Lia.
From NV Require Import Base.Result Base.Bytes Model.TagAct Model.TagReadAny Model.TagReadAnyB.
