(* C08, activation: every response variant yields parameters or a clean failure.
   Proofs about Model/TagAct.v. *)
From Coq Require Import ZArith List Bool Lia ZifyBool.
From NV Require Import Base.Result Base.Bytes Base.Sweep Model.IsoDep Model.TagAct.
Import ListNotations.
Open Scope Z_scope.
Ltac Zify.zify_post_hook ::= Z.to_euclidean_division_equations.

Lemma land15 x : Z.land x 15 = x mod 16.
Proof. change 15 with (Z.ones 4). rewrite Z.land_ones by lia. reflexivity. Qed.
Lemma shiftr4 x : Z.shiftr x 4 = x / 16.
Proof. rewrite Z.shiftr_div_pow2 by lia. reflexivity. Qed.
Lemma shiftr5 x : Z.shiftr x 5 = x / 32.
Proof. rewrite Z.shiftr_div_pow2 by lia. reflexivity. Qed.

Lemma idx_ok l i : 0 <= i < len l -> exists x, idx l i = Ok x /\ In x l.
Proof.
  intros H. unfold idx. replace (i <? 0) with false by lia.
  destruct (nth_error l (Z.to_nat i)) eqn:E.
  - eexists; split; [reflexivity|]. eapply nth_error_In; eauto.
  - apply nth_error_None in E. unfold len in H. lia.
Qed.

(* ------------------------------------------------------------ dispatch *)
Theorem dispatch_total sens sel : len sens = 2 -> len sel = 1 -> exists k, tag_dispatch_a sens sel = Ok k.
Proof.
  intros Hs Hl. unfold tag_dispatch_a.
  destruct (idx_ok sens 1) as (s1 & -> & _); [lia|]. cbn [bind].
  destruct (Z.land s1 15 =? 12); [eauto|].
  destruct (idx_ok sel 0) as (r0 & -> & _); [lia|]. cbn [bind].
  destruct (_ =? 0); [eauto|]. destruct (_ =? 1); eauto.
Qed.

(* ------------------------------------------------------------ answer to select *)
Lemma nth_opt_in l i x : nth_opt l i = Some x -> In x l.
Proof. unfold nth_opt. destruct (i <? 0); [discriminate|]. apply nth_error_In. Qed.

Theorem ats_total ats :
  (exists fsci fwi, ats_fsci_fwi ats = Ok (fsci, fwi) /\ (bytes_ok ats -> 0 <= fsci <= 15 /\ 0 <= fwi <= 15))
  \/ ats_fsci_fwi ats = Err ProtocolError.
Proof.
  destruct ats as [|tl [|t0 r]]; [right; reflexivity | left | ].
  - exists 2, 4. split; [reflexivity | lia].
  - cbn [ats_fsci_fwi].
    assert (H0 : bytes_ok (tl :: t0 :: r) -> 0 <= Z.land t0 15 <= 15).
    { intro Hb. rewrite land15. lia. }
    destruct (Z.land t0 32 =? 0).
    + left. eexists _, 4. split; [reflexivity|]. intro Hb. split; [auto | lia].
    + destruct (nth_opt _ _) as [tb|] eqn:E; [left | right; reflexivity].
      eexists _, _. split; [reflexivity|]. intro Hb. split; [auto|].
      apply nth_opt_in in E. unfold bytes_ok in Hb. rewrite Forall_forall in Hb. specialize (Hb _ E).
      unfold byte_ok in Hb. rewrite shiftr4. lia.
Qed.

(* every standard-conformant answer to select - any subset of TA(1), TB(1), TC(1), any historical
   bytes - is read as ISO/IEC 14443-4 defines it: FSCI from T0, FWI from TB(1) or the default 4 *)
Theorem ats_build_parse fsci ta tb tc hist : 0 <= fsci <= 15 ->
  ats_fsci_fwi (ats_build fsci ta tb tc hist) = Ok (fsci, match tb with Some b => Z.shiftr b 4 | None => 4 end).
Proof.
  intro H.
  assert (C : fsci = 0 \/ fsci = 1 \/ fsci = 2 \/ fsci = 3 \/ fsci = 4 \/ fsci = 5 \/ fsci = 6 \/ fsci = 7 \/ fsci = 8 \/
              fsci = 9 \/ fsci = 10 \/ fsci = 11 \/ fsci = 12 \/ fsci = 13 \/ fsci = 14 \/ fsci = 15) by lia.
  repeat (destruct C as [-> | C]); [..| subst fsci];
    destruct ta as [a|], tb as [b|], tc as [c|]; reflexivity.
Qed.

Lemma fsc_of_in fsci : In (fsc_of fsci) [16; 24; 32; 40; 48; 64; 96; 128; 256].
Proof.
  unfold fsc_of. destruct (Z.to_nat fsci) as [|[|[|[|[|[|[|[|[|n]]]]]]]]]; cbn; auto 12.
  destruct n; cbn; auto 12.
Qed.
Lemma n_retry_range fwti : 0 <= fwti -> 0 <= n_retry_of fwti <= 5.
Proof.
  intro H. unfold n_retry_of. assert (0 < 2 ^ fwti) by (apply Z.pow_pos_nonneg; lia).
  assert (Hq : 0 <= 13560000 / (4096 * 2 ^ fwti)) by (apply Z.div_pos; lia).
  remember (13560000 / (4096 * 2 ^ fwti)) as q. clear Heqq. lia.
Qed.

(* the parameters handed to the ISO-DEP layer are sane whatever FSCI / FWI the tag announces
   (RFU values included): FSC is a table value or the device limit, MIU = FSC - 3, FWI <= 14 *)
Theorem t4_params_sane fsci fwi max_send max_recv : 0 <= fwi ->
  let p := t4_params fsci fwi max_send max_recv in
  (In (a_fsc p) [16; 24; 32; 40; 48; 64; 96; 128; 256] \/ a_fsc p = max_send) /\
  a_fsc p <= max_send /\ a_miu p = a_fsc p - 3 /\ 0 <= a_fwti p <= 14 /\ 0 <= a_retry p <= 5 /\
  (a_cmd_tail p = 7 \/ a_cmd_tail p = 8).
Proof.
  intro Hw. unfold t4_params. cbn [a_fsc a_miu a_fwti a_retry a_cmd_tail].
  set (f := fsc_of (if fsci >? 8 then 8 else fsci)).
  assert (Hf : In f [16; 24; 32; 40; 48; 64; 96; 128; 256]) by apply fsc_of_in.
  set (w := if fwi >? 14 then 4 else fwi). assert (Hw' : 0 <= w <= 14) by (unfold w; destruct (Z.gtb_spec fwi 14); lia).
  split; [destruct (f >? max_send); auto|]. split; [destruct (Z.gtb_spec f max_send); lia|].
  split; [reflexivity|]. split; [exact Hw'|]. split; [apply n_retry_range; lia|].
  destruct (max_recv <? 256); auto.
Qed.

Theorem t4a_activate_sane rats max_send max_recv p : t4a_activate rats max_send max_recv = Some p ->
  (forall d, rats = ARx d -> bytes_ok d) ->
  a_fsc p <= max_send /\ a_miu p = a_fsc p - 3 /\ 0 <= a_fwti p <= 14 /\ 0 <= a_retry p <= 5.
Proof.
  unfold t4a_activate. destruct rats as [ats| | |]; try discriminate. intros H Hb.
  destruct (ats_total ats) as [(f & w & E & R) | E]; rewrite E in H; [|discriminate].
  injection H as <-. destruct (R (Hb _ eq_refl)) as [_ Hw].
  pose proof (t4_params_sane f w max_send max_recv ltac:(lia)) as (_ & ? & ? & ? & ? & _). auto.
Qed.

(* the code as pinned: TA(1) and TB(1) assumed present *)
Lemma ats_legacy_crash :
  t4a_activate_legacy (ARx [2; 0]) 256 256 = Crash IndexErr /\
  t4a_activate_legacy (ARx [3; 32; 129]) 256 256 = Crash IndexErr /\
  t4a_activate_legacy (ARx [1]) 256 256 = Crash IndexErr /\
  (* and, without crash, the wrong byte: T0 = 60h announces TB(1) = A1h (FWI 10) and TC(1) = 02h, no TA(1) *)
  (exists p, t4a_activate_legacy (ARx [4; 96; 161; 2]) 256 256 = Ok (Some p) /\ a_fwti p = 0) /\
  (exists p, t4a_activate (ARx [4; 96; 161; 2]) 256 256 = Some p /\ a_fwti p = 10).
Proof. repeat split; try reflexivity; eexists; split; reflexivity. Qed.

(* ------------------------------------------------------------ SENSB_RES / ATTRIB *)
Theorem sensb_total sensb attrib max_send max_recv :
  (len sensb < 12 /\ t4b_activate sensb attrib max_send max_recv = None) \/
  (12 <= len sensb /\ exists po, t4b_activate sensb attrib max_send max_recv = Some (attrib_cmd sensb max_recv, po) /\
     len (attrib_cmd sensb max_recv) = 9 /\
     ((exists d, attrib = ARx d) <-> po <> None) /\
     (forall p, po = Some p -> bytes_ok sensb ->
        a_fsc p <= max_send /\ a_miu p = a_fsc p - 3 /\ 0 <= a_fwti p <= 14 /\ 0 <= a_retry p <= 5)).
Proof.
  unfold t4b_activate. destruct (len sensb <? 12) eqn:E; [left; split; [lia | reflexivity] | right].
  split; [lia|]. eexists. split; [reflexivity|].
  split.
  { unfold attrib_cmd. rewrite len_cons, len_app. unfold slice. change (len [0; (if max_recv <? 256 then 7 else 8); 1; 0]) with 4.
    unfold len at 1. rewrite firstn_length, skipn_length. unfold len in E. lia. }
  split.
  { destruct attrib; split; intro H; try discriminate; try (destruct H; discriminate); eauto; congruence. }
  intros p Hp Hb. destruct attrib; try discriminate. injection Hp as <-.
  assert (Hn : forall i, 0 <= nth i sensb 0 < 256).
  { intro i. destruct (nth_in_or_default i sensb 0) as [Hi | ->]; [|lia].
    unfold bytes_ok in Hb. rewrite Forall_forall in Hb. apply Hb, Hi. }
  pose proof (t4_params_sane (Z.shiftr (nth 10 sensb 0) 4) (Z.shiftr (nth 11 sensb 0) 4) max_send max_recv) as T.
  rewrite !shiftr4 in *. specialize (Hn 11%nat). destruct T as (_ & ? & ? & ? & ? & _); [lia | auto].
Qed.
Lemma sensb_legacy_crash : t4b_activate_legacy [80; 48; 112; 42; 28; 0; 0; 0; 0; 17] (ARx [0]) 256 256 = Crash IndexErr.
Proof. reflexivity. Qed.

(* ------------------------------------------------------------ RID *)
Theorem rid_total rid :
  let '(c, uid) := t1_activate rid in
  uid = slice rid 2 6 /\ len uid <= 4 /\
  (c = Topaz <-> slice rid 0 2 = [17; 72]) /\ (c = Topaz512 <-> slice rid 0 2 = [18; 76]).
Proof.
  unfold t1_activate.
  assert (B : forall a b, beq_list a b = true <-> a = b).
  { induction a as [|x a IH]; destruct b as [|y b]; cbn; try (split; congruence).
    rewrite andb_true_iff, Z.eqb_eq, IH. split; [intros [-> ->]; reflexivity | intro H; inversion H; auto]. }
  split; [reflexivity|]. split.
  { unfold slice, len. rewrite firstn_length. cbn. lia. }
  destruct (beq_list (slice rid 0 2) [17; 72]) eqn:E1.
  - apply B in E1. rewrite E1. split; split; intro H; try reflexivity; discriminate.
  - destruct (beq_list (slice rid 0 2) [18; 76]) eqn:E2.
    + apply B in E2. rewrite E2. split; split; intro H; try reflexivity; discriminate.
    + split; split; intro H; try discriminate; apply B in H; congruence.
Qed.

(* ------------------------------------------------------------ GET_VERSION / Ultralight-C probing *)
(* whatever the tag answers (or not) and whether or not it is found again: a class or None after at most
   two commands and three sense() calls *)
Lemma tl_len {A} (l : list A) : (length (tl l) <= length l <= S (length (tl l)))%nat.
Proof. destruct l; cbn; lia. Qed.
Lemma nxp_version_uses xs ss : let '(_, xs', ss') := nxp_version xs ss in
  (length xs - length xs' <= 1 /\ length ss - length ss' <= 1 /\ length xs' <= length xs /\ length ss' <= length ss)%nat.
Proof.
  unfold nxp_version. pose proof (tl_len xs). pose proof (tl_len ss).
  destruct (hd_x xs); [destruct (version_lookup _ _); [|destruct (beq_list _ _)] | | |]; lia.
Qed.
Theorem version_total sdd0 xs ss : let '(_, xs', ss') := t2_activate sdd0 xs ss in
  (length xs - length xs' <= 2 /\ length ss - length ss' <= 3)%nat.
Proof.
  unfold t2_activate. destruct (sdd0 =? 4); [|lia].
  assert (N : let '(_, xs', ss') := nxp_activate xs ss in
              (length xs - length xs' <= 2 /\ length ss - length ss' <= 2 /\ length ss' <= length ss)%nat).
  { unfold nxp_activate. pose proof (tl_len xs). pose proof (tl_len ss).
    pose proof (nxp_version_uses (tl xs) (tl ss)) as V. destruct (nxp_version (tl xs) (tl ss)) as [[? xs1] ss1].
    destruct (hd_x xs); [destruct (negb _); [lia|]; destruct (match d with 175 :: _ => true | _ => false end) | destruct (negb _) | |]; lia. }
  destruct (nxp_activate xs ss) as [[[c|] xs1] ss1]; [lia|]. pose proof (tl_len ss1). lia.
Qed.
(* a known GET_VERSION answer selects the product class; a silent tag that is still there is a plain Ultralight;
   a tag that has left is None *)
Theorem version_known v c a : version_lookup version_map v = Some c -> (forall r, a <> ARx (175 :: r)) -> a <> ATxErr -> a <> AProto ->
  fst (fst (t2_activate 4 [a; ARx v] [true])) = Some c.
Proof.
  intros H Ha H1 H2. unfold t2_activate, nxp_activate. cbn [Z.eqb Pos.eqb hd_x hd_s tl negb].
  destruct a as [d| | |]; try congruence.
  - destruct d as [|b d]; [unfold nxp_version; cbn [hd_x]; rewrite H; reflexivity|].
    destruct (Z.eq_dec b 175) as [->|]; [exfalso; eapply Ha; reflexivity|].
    assert (E : match b with 175 => true | _ => false end = false).
    { destruct b as [|p|p]; try reflexivity. repeat (destruct p as [p|p|]; try reflexivity). congruence. }
    rewrite E. unfold nxp_version; cbn [hd_x]; rewrite H; reflexivity.
  - unfold nxp_version; cbn [hd_x]; rewrite H; reflexivity.
Qed.
Lemma version_gone xs : fst (fst (t2_activate 4 xs [])) = None.
Proof.
  unfold t2_activate, nxp_activate, nxp_version. cbn [Z.eqb Pos.eqb hd_s negb tl].
  destruct (hd_x xs); cbn [hd_s tl]; try reflexivity.
Qed.

(* ------------------------------------------------------------ SENSF_RES *)
Theorem sensf_total sensf : 17 <= len sensf ->
  t3_activate sensf = Ok None \/
  exists t, t3_activate sensf = Ok (Some t) /\ len (t3_idm t) = 8 /\ len (t3_pmm t) = 8 /\
            (len sensf < 19 -> t3_sys t = 65535) /\ (bytes_ok sensf -> 0 <= t3_sys t <= 65535).
Proof.
  intro H. unfold t3_activate. destruct (beq_list _ _); [left; reflexivity | right].
  destruct (idx_ok sensf 10) as (ic & -> & _); [lia|]. cbn [bind]. eexists. split; [reflexivity|].
  cbn [t3_idm t3_pmm t3_sys]. unfold slice, len in *. rewrite !firstn_length, !skipn_length.
  split; [cbn; lia|]. split; [cbn; lia|]. split.
  - intro. replace (19 <=? Z.of_nat (length sensf)) with false by lia. reflexivity.
  - intro Hb. assert (Hn : forall i, 0 <= nth i sensf 0 < 256).
    { intro i. destruct (nth_in_or_default i sensf 0) as [Hi | ->]; [|lia].
      unfold bytes_ok in Hb. rewrite Forall_forall in Hb. apply Hb, Hi. }
    pose proof (Hn 17%nat). pose proof (Hn 18%nat). destruct (19 <=? _); lia.
Qed.
Lemma sensf_legacy_crash :
  t3_activate_legacy [1; 1; 2; 3; 4; 5; 6; 7; 8; 255; 255; 255; 255; 255; 255; 255; 255; 18] = Crash StructErr.
Proof. reflexivity. Qed.
