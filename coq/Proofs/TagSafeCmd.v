(* C08, Type 2: the demand of the reader (hence the number of READ / SECTOR SELECT commands) is bounded by an
   explicit function of the size of the data area, whatever the memory holds and however much of it the tag
   delivers.  Reserved ranges are counted: every control TLV adds at most 256 reserved bytes, control TLVs
   below the end of the data area take 5 bytes each. *)
From Coq Require Import ZArith List Bool Lia ZifyBool.
From NV Require Import Base.Result Base.Bytes Model.TlvMem Model.T2T Model.TagReadAny Proofs.TlvLib Proofs.TagSafeTlv.
Import ListNotations.
Open Scope Z_scope.
Ltac Zify.zify_post_hook ::= Z.to_euclidean_division_equations.

Definition rsize (r : Z * Z) : Z := Z.max 0 (snd r - fst r).
Fixpoint skip_size (rs : ranges) : Z := match rs with [] => 0 | r :: rs' => rsize r + skip_size rs' end.

Lemma skip_size_nonneg rs : 0 <= skip_size rs.
Proof. induction rs; cbn [skip_size]; unfold rsize in *; lia. Qed.

(* reserved addresses in [a, a + n) are at most the sizes of the ranges *)
Lemma cov_one r : forall n a, Z.of_nat n - count_free [r] a n <= Z.max 0 (Z.min (a + Z.of_nat n) (snd r) - Z.max a (fst r)).
Proof.
  induction n as [|n IH]; intro a; [cbn [count_free]; lia|].
  cbn [count_free in_skip existsb]. specialize (IH (a + 1)). unfold in_range. destruct r as [lo hi]. cbn [fst snd] in *.
  destruct ((lo <=? a) && (a <? hi)) eqn:E; cbn [orb]; lia.
Qed.
Lemma cov_cons r rs : forall n a,
  Z.of_nat n - count_free (r :: rs) a n <= (Z.of_nat n - count_free [r] a n) + (Z.of_nat n - count_free rs a n).
Proof.
  induction n as [|n IH]; intro a; [cbn [count_free]; lia|].
  cbn [count_free in_skip existsb]. specialize (IH (a + 1)).
  destruct (in_range a r), (existsb (in_range a) rs) eqn:E; cbn [orb]; unfold in_skip in *; rewrite ?E; lia.
Qed.
Lemma cov_le rs : forall n a, Z.of_nat n - count_free rs a n <= skip_size rs.
Proof.
  induction rs as [|r rs IH]; intros n a.
  - cbn [skip_size]. assert (H : count_free [] a n = Z.of_nat n); [|lia].
    revert a. induction n as [|n IHn]; intro a; [reflexivity|]. cbn [count_free in_skip existsb]. rewrite IHn. lia.
  - cbn [skip_size]. pose proof (cov_cons r rs n a). pose proof (cov_one r n a). pose proof (IH n a). unfold rsize. lia.
Qed.

Lemma run_le0 skip a n : count_free skip a n = 0 -> Z.of_nat n <= skip_size skip.
Proof. intro H. pose proof (cov_le skip n a). lia. Qed.

(* the value loop: exactly k free addresses in [a, e); on failure fewer than k in what is readable *)
Lemma read_val_count skip : forall suf a k v e, read_val skip a suf k = Ok (v, e) ->
  a <= e /\ count_free skip a (Z.to_nat (e - a)) = Z.of_nat k.
Proof.
  induction suf as [|x suf IH]; intros a k v e H.
  - destruct k; cbn in H; [|discriminate]. injection H as <- <-. rewrite Z.sub_diag. cbn. lia.
  - destruct k as [|k]; [cbn in H; injection H as <- <-; rewrite Z.sub_diag; cbn; lia|].
    cbn [read_val] in H. destruct (in_skip skip a) eqn:Es.
    + apply IH in H as [H1 H2]. split; [lia|]. replace (Z.to_nat (e - a)) with (S (Z.to_nat (e - (a + 1)))) by lia.
      cbn [count_free]. rewrite Es. lia.
    + destruct (read_val skip (a + 1) suf k) as [[v' e']| | |] eqn:E; cbn in H; try discriminate.
      injection H as <- <-. apply IH in E as [H1 H2]. split; [lia|].
      replace (Z.to_nat (e' - a)) with (S (Z.to_nat (e' - (a + 1)))) by lia. cbn [count_free]. rewrite Es. lia.
Qed.
Lemma read_val_fail_count skip : forall suf a k e0, read_val skip a suf k = Err e0 ->
  count_free skip a (length suf) < Z.of_nat k.
Proof.
  induction suf as [|x suf IH]; intros a k e0 H.
  - destruct k; cbn in H; [discriminate|]. cbn. lia.
  - destruct k as [|k]; [cbn in H; discriminate|]. cbn [read_val] in H. cbn [length count_free].
    destruct (in_skip skip a).
    + apply IH in H. lia.
    + destruct (read_val skip (a + 1) suf k) as [[v' e']| | |] eqn:E; cbn in H; try discriminate. apply IH in E. lia.
Qed.
Lemma read_val_end skip suf a k v e : read_val skip a suf k = Ok (v, e) -> e <= a + Z.of_nat k + skip_size skip.
Proof. intro H. apply read_val_count in H as [H1 H2]. pose proof (cov_le skip (Z.to_nat (e - a)) a). lia. Qed.
Lemma read_val_fail_len skip suf a k e0 : read_val skip a suf k = Err e0 -> len suf < Z.of_nat k + skip_size skip.
Proof. intro H. apply read_val_fail_count in H. pose proof (cov_le skip (length suf) a). unfold len. lia. Qed.

Lemma cf_split skip a b c : a <= b <= c ->
  count_free skip a (Z.to_nat (c - a)) = count_free skip a (Z.to_nat (b - a)) + count_free skip b (Z.to_nat (c - b)).
Proof.
  intro H. replace (Z.to_nat (c - a)) with (Z.to_nat (b - a) + Z.to_nat (c - b))%nat by lia.
  rewrite count_free_app. f_equal. f_equal. lia.
Qed.
(* addresses [off0, e) of which [off0, off) are all reserved and at most [free] are free: e is near off0 *)
Lemma span_le skip off0 off e free : off0 <= off <= e -> count_free skip off0 (Z.to_nat (off - off0)) = 0 ->
  count_free skip off (Z.to_nat (e - off)) <= free -> e <= off0 + free + skip_size skip.
Proof.
  intros H H0 Hf. pose proof (cov_le skip (Z.to_nat (e - off0)) off0) as C.
  rewrite (cf_split skip off0 off e) in C by lia. lia.
Qed.

(* one TLV read at [off] behind a run of reserved bytes that began at [off0]: at most the header, 65535 value bytes
   and the reserved bytes are asked for, counted from [off0] *)
Lemma read_tlv_d_bound em off0 off skip : bytes_ok em -> 0 <= off0 <= off ->
  count_free skip off0 (Z.to_nat (off - off0)) = 0 ->
  read_tlv_d em off skip <= off0 + 65540 + skip_size skip.
Proof.
  intros Hb Ho Hrun. pose proof (skip_size_nonneg skip) as Hs. pose proof (run_le0 skip off0 (Z.to_nat (off - off0)) Hrun) as Hr.
  assert (Hdr : forall j, 0 <= j <= 4 -> off + j <= off0 + 65540 + skip_size skip) by (intros; lia).
  assert (Hfail : forall j, 0 <= j <= 3 -> len em <= off + j -> len em + 1 <= off0 + 65540 + skip_size skip) by (intros; lia).
  unfold read_tlv_d.
  destruct (rd em off) as [t| | |] eqn:E0.
  2-4: (apply (Hfail 0); [lia|]; unfold rd in E0; replace (off <? 0) with false in E0 by lia;
        destruct (nth_error em (Z.to_nat off)) eqn:En; try discriminate; apply nth_error_None in En; unfold len; lia).
  destruct ((t =? 0) || (t =? 254)); [apply (Hdr 1); lia|]. apply rd_inv in E0 as [H0 _].
  destruct (rd em (off + 1)) as [l0| | |] eqn:E1.
  2-4: (apply (Hfail 1); [lia|]; unfold rd in E1; replace (off + 1 <? 0) with false in E1 by lia;
        destruct (nth_error em (Z.to_nat (off + 1))) eqn:En; try discriminate; apply nth_error_None in En; unfold len; lia).
  pose proof (rd_byte _ _ _ Hb E1) as B0. apply rd_inv in E1 as [H1 _].
  (* the value loop from [voff] = off + 2 or off + 4 for k <= 65535 bytes *)
  assert (Hval : forall voff k, off + 2 <= voff <= off + 4 -> voff <= len em -> Z.of_nat k <= 65535 ->
            match read_val skip voff (skipn (Z.to_nat voff) em) k with
            | Ok (_, e) => Z.max voff e | _ => len em + 1 end <= off0 + 65540 + skip_size skip).
  { intros voff k Hv Hlen Hk.
    assert (Hh : count_free skip off (Z.to_nat (voff - off)) <= 4) by (pose proof (count_free_bounds skip (Z.to_nat (voff - off)) off); lia).
    destruct (read_val skip voff (skipn (Z.to_nat voff) em) k) as [[v e]| | |] eqn:E.
    - apply read_val_count in E as [Hle Hc].
      assert (e <= off0 + (4 + Z.of_nat k) + skip_size skip); [|lia].
      apply (span_le skip off0 off e); [lia | exact Hrun |]. rewrite (cf_split skip off voff e) by lia. lia.
    - apply read_val_fail_count in E. rewrite skipn_length in E.
      assert (len em <= off0 + (4 + Z.of_nat k - 1) + skip_size skip); [|lia].
      apply (span_le skip off0 off (len em)); [lia | exact Hrun |]. rewrite (cf_split skip off voff (len em)) by lia.
      unfold len in *. replace (Z.to_nat (Z.of_nat (length em) - voff)) with (length em - Z.to_nat voff)%nat by lia. lia.
    - destruct (read_val_cases skip (skipn (Z.to_nat voff) em) voff k) as [[r R] | R]; rewrite R in E; discriminate.
    - destruct (read_val_cases skip (skipn (Z.to_nat voff) em) voff k) as [[r R] | R]; rewrite R in E; discriminate. }
  destruct (l0 =? 255).
  - destruct (rd em (off + 2)) as [h| | |] eqn:E2.
    2-4: (apply (Hfail 2); [lia|]; unfold rd in E2; replace (off + 2 <? 0) with false in E2 by lia;
          destruct (nth_error em (Z.to_nat (off + 2))) eqn:En; try discriminate; apply nth_error_None in En; unfold len; lia).
    destruct (rd em (off + 3)) as [l| | |] eqn:E3.
    2-4: (apply (Hfail 3); [lia|]; unfold rd in E3; replace (off + 3 <? 0) with false in E3 by lia;
          destruct (nth_error em (Z.to_nat (off + 3))) eqn:En; try discriminate; apply nth_error_None in En; unfold len; lia).
    pose proof (rd_byte _ _ _ Hb E2). pose proof (rd_byte _ _ _ Hb E3). apply rd_inv in E3 as [H3 _].
    apply (Hval (off + 4) (Z.to_nat (256 * h + l))); lia.
  - apply (Hval (off + 2) (Z.to_nat l0)); lia.
Qed.

(* control TLVs reserve at most 256 bytes each *)
Definition small (rs : ranges) : Prop := Forall (fun r => rsize r <= 256) rs.
Lemma skip_size_small rs : small rs -> skip_size rs <= 256 * len rs.
Proof.
  induction rs as [|r rs IH]; intro H; [cbn; lia|]. inversion H; subst. cbn [skip_size]. rewrite len_cons. specialize (IH H3). lia.
Qed.
Lemma read_val_bytes skip : forall suf a k v e, read_val skip a suf k = Ok (v, e) -> bytes_ok suf -> bytes_ok v.
Proof.
  induction suf as [|x suf IH]; intros a k v e H Hb.
  - destruct k; cbn in H; [|discriminate]. injection H as <- _. constructor.
  - destruct k as [|k]; [cbn in H; injection H as <- _; constructor|]. inversion Hb; subst.
    cbn [read_val] in H. destruct (in_skip skip a); [eapply IH; eauto|].
    destruct (read_val skip (a + 1) suf k) as [[v' e']| | |] eqn:E; cbn in H; try discriminate.
    injection H as <- _. constructor; [auto | eapply IH; eauto].
Qed.
Lemma bytes_ok_skipn' n (l : list Z) : bytes_ok l -> bytes_ok (skipn n l).
Proof. revert l. induction n as [|n IH]; intros [|x l] H; cbn; auto. apply IH. inversion H; auto. Qed.
Lemma read_tlv_bytes em off skip t l v e : bytes_ok em -> read_tlv em off skip = Ok (t, l, v, e) -> bytes_ok v.
Proof.
  intros Hb. unfold read_tlv.
  destruct (rd em off) as [t0| | |]; cbn [bind]; try discriminate.
  destruct ((t0 =? 0) || (t0 =? 254)); [intro H; injection H as _ _ <- _; constructor|].
  destruct (rd em (off + 1)) as [l0| | |]; cbn [bind]; try discriminate.
  destruct (l0 =? 255).
  - destruct (rd em (off + 2)) as [h| | |]; cbn [bind]; try discriminate.
    destruct (rd em (off + 3)) as [lo| | |]; cbn [bind fst snd]; try discriminate.
    destruct (read_val _ _ _ _) as [[v0 e0]| | |] eqn:E; cbn [bind fst snd]; try discriminate.
    intro H; injection H as _ _ <- _. eapply read_val_bytes; eauto. apply bytes_ok_skipn', Hb.
  - cbn [bind fst snd]. destruct (read_val _ _ _ _) as [[v0 e0]| | |] eqn:E; cbn [bind fst snd]; try discriminate.
    intro H; injection H as _ _ <- _. eapply read_val_bytes; eauto. apply bytes_ok_skipn', Hb.
Qed.

Lemma ctl_small f clip v r : (f = lock_byte_range \/ f = rsvd_byte_range) -> bytes_ok v -> ctl_range f clip v = Ok r -> rsize r <= 256.
Proof.
  intros Hf Hb. destruct v as [|d0 [|d1 [|d2 v]]]; try discriminate. cbn [ctl_range]. intro H. injection H as <-.
  inversion Hb as [|? ? B0 Hb1]; subst. inversion Hb1 as [|? ? B1 Hb2]; subst. unfold byte_ok in *.
  unfold rsize, clip_range. cbn [fst snd].
  destruct Hf as [-> | ->]; unfold lock_byte_range, rsvd_byte_range; cbn [fst snd]; destruct (0 <? d1) eqn:E;
    set (base := Z.shiftr d0 4 * 2 ^ Z.land d2 15 + Z.land d0 15); clearbody base; lia.
Qed.
Lemma t2_dispatch_next skip t l v skip' : bytes_ok v -> t2_dispatch skip t l v = Ok (Next skip') ->
  skip' = skip \/ (l = 3 /\ exists r, skip' = r :: skip /\ rsize r <= 256).
Proof.
  intros Hb. unfold t2_dispatch. destruct (t =? 0); [intro H; injection H as <-; auto|].
  destruct (t =? 1).
  { destruct (Z.eqb_spec l 3); [|intro H; injection H as <-; auto].
    destruct (ctl_range lock_byte_range 1048576 v) as [r| | |] eqn:E; cbn [bind]; try discriminate.
    intro H; injection H as <-. right. split; [auto|]. exists r. split; [reflexivity|].
    exact (ctl_small lock_byte_range 1048576 v r (or_introl eq_refl) Hb E). }
  destruct (t =? 2).
  { destruct (Z.eqb_spec l 3); [|intro H; injection H as <-; auto].
    destruct (ctl_range rsvd_byte_range 1048576 v) as [r| | |] eqn:E; cbn [bind]; try discriminate.
    intro H; injection H as <-. right. split; [auto|]. exists r. split; [reflexivity|].
    exact (ctl_small rsvd_byte_range 1048576 v r (or_intror eq_refl) Hb E). }
  destruct (t =? 3); [discriminate|]. destruct (t =? 254); [discriminate|]. intro H; injection H as <-; auto.
Qed.

(* a run of reserved addresses is not longer than the reserved ranges *)
Lemma run_le skip a n : count_free skip a n = 0 -> Z.of_nat n <= skip_size skip.
Proof. intro H. pose proof (cov_le skip n a). lia. Qed.

Definition SB (dend : Z) : Z := 256 * ((dend - 16) / 5 + 1).

(* invariant of the walk: 5 bytes of offset per control TLV; inside a run of reserved bytes: where the run began *)
Definition winv (dend : Z) (skip : ranges) (off : Z) (inner : bool) : Prop :=
  if inner then exists off0, 16 <= off0 < dend /\ 5 * len skip <= off0 - 16 /\ off0 <= off /\
                             count_free skip off0 (Z.to_nat (off - off0)) = 0
  else 5 * len skip <= off - 16.

Lemma t2_walk_d_bound : forall fuel em dend skip off inner hw d, bytes_ok em -> 16 <= dend -> small skip -> 16 <= off ->
  winv dend skip off inner -> d <= t2_demand_bound dend ->
  snd (t2_walk_d fuel em dend skip off inner hw d) <= t2_demand_bound dend.
Proof.
  induction fuel as [|f IH]; intros em dend skip off inner hw d Hb Hd Hsm Ho Hw Hdd; [exact Hdd|].
  pose proof (skip_size_nonneg skip) as Hs0. pose proof (skip_size_small skip Hsm) as Hs1. pose proof (len_nonneg skip) as Hl0.
  (* where a TLV can start: below dend, or at the end of a run that began below dend *)
  assert (Hpos : (inner = true \/ off < dend) -> off < dend + SB dend /\ skip_size skip <= SB dend - 256).
  { intro C. unfold winv in Hw. destruct inner.
    - destruct Hw as (off0 & H0 & H5 & Hle & Hc). pose proof (run_le _ _ _ Hc). unfold SB. lia.
    - destruct C as [C | C]; [discriminate|]. unfold SB. lia. }
  cbn [t2_walk_d]. destruct (len em <=? off) eqn:Elen.
  { cbn [snd]. destruct (inner || (off <? dend)) eqn:E; [|exact Hdd].
    destruct Hpos as [Hp _]; [destruct inner; [left; reflexivity | right; cbn in E; lia]|]. unfold t2_demand_bound, SB in *. lia. }
  destruct (negb inner && (dend <=? off)) eqn:Eexit; [exact Hdd|].
  assert (Hc : inner = true \/ off < dend) by (destruct inner; [left; reflexivity | right; cbn in Eexit; lia]).
  destruct (Hpos Hc) as [Hp Hsz].
  destruct (in_skip skip off) eqn:Es.
  { apply IH; auto; [lia|]. unfold winv in *. destruct inner.
    - destruct Hw as (off0 & H0 & H5 & Hle & Hcf). exists off0. repeat split; try lia.
      replace (Z.to_nat (off + 1 - off0)) with (Z.to_nat (off - off0) + 1)%nat by lia.
      rewrite count_free_app, Hcf. replace (off0 + Z.of_nat (Z.to_nat (off - off0))) with off by lia.
      cbn [count_free]. rewrite Es. lia.
    - destruct Hc as [Hc | Hc]; [discriminate|]. exists off. repeat split; try lia.
      replace (Z.to_nat (off + 1 - off)) with 1%nat by lia. cbn [count_free]. rewrite Es. lia. }
  assert (Hrun : exists off0, 16 <= off0 < dend /\ off0 <= off /\ count_free skip off0 (Z.to_nat (off - off0)) = 0).
  { unfold winv in Hw. destruct inner.
    - destruct Hw as (off0 & H0 & _ & Hle & Hcf). exists off0. auto.
    - destruct Hc as [Hc | Hc]; [discriminate|]. exists off. rewrite Z.sub_diag. cbn. lia. }
  destruct Hrun as (off0 & H0 & Hle0 & Hcf0).
  pose proof (read_tlv_d_bound em off0 off skip Hb ltac:(lia) Hcf0) as Hr.
  assert (Hd' : Z.max d (read_tlv_d em off skip) <= t2_demand_bound dend) by (unfold t2_demand_bound, SB in *; lia).
  assert (H5 : 5 * len skip <= off - 16).
  { unfold winv in Hw. destruct inner; [destruct Hw as (off1 & ? & ? & ? & _); lia | exact Hw]. }
  destruct (read_tlv_cases em off skip Hb ltac:(lia)) as [(t & l & v & e & E & Hl & Hv & He) | ->]; [|exact Hd'].
  rewrite E. pose proof (read_tlv_bytes _ _ _ _ _ _ _ Hb E) as Hbv.
  destruct (t2_dispatch skip t l v) as [[skip'| |]| | |] eqn:Ed; try exact Hd'.
  destruct (t2_dispatch_next _ _ _ _ _ Hbv Ed) as [-> | (-> & r & -> & Hr256)].
  - apply IH; auto; [destruct (l <? 255); lia|]. unfold winv. destruct (l <? 255); lia.
  - change (3 <? 255) with true. cbv iota. apply IH; auto; [constructor; auto | lia |]. unfold winv. rewrite len_cons. lia.
Qed.

(* Type 2: the demand is bounded by the explicit function of the data area size, for every memory *)
Theorem t2_read_demand_bound em b14 : bytes_ok em -> rd em 14 = Ok b14 ->
  snd (t2_read_d em) <= t2_demand_bound (b14 * 8 + 16).
Proof.
  intros Hb E14. pose proof (rd_byte _ _ _ Hb E14) as B14. pose proof (rd_inv _ _ _ E14) as [L14 _].
  unfold t2_read_d. rewrite E14, (rd_ok em 12), (rd_ok em 13) by lia.
  assert (G : 16 <= t2_demand_bound (b14 * 8 + 16)) by (unfold t2_demand_bound; lia).
  destruct (rd em 15) as [b15| | |] eqn:E15.
  2-4: (cbn [snd]; unfold rd in E15; change (15 <? 0) with false in E15; cbv iota in E15;
        destruct (nth_error em (Z.to_nat 15)) eqn:En; try discriminate; apply nth_error_None in En; unfold len; lia).
  destruct (negb (get em 12 =? 225)); [cbn; lia|]. destruct (negb (Z.shiftr (get em 13) 4 =? 1)); [cbn; lia|].
  pose proof (t2_walk_d_bound (S (length em)) em (b14 * 8 + 16) [] 16 false 16 16 Hb ltac:(lia) ltac:(constructor) ltac:(lia)) as W.
  destruct (t2_walk_d (S (length em)) em (b14 * 8 + 16) [] 16 false 16 16) as [r d]. cbn [snd] in W.
  assert (Wd : d <= t2_demand_bound (b14 * 8 + 16)) by (apply W; [unfold winv; cbn; lia | lia]).
  destruct r as [[[[[off skip] v] hw]|]| | |]; cbn [snd]; exact Wd.
Qed.
(* ... and so is the number of commands: one READ per 16 bytes, two SECTOR SELECT packets per KiB, 3 tries for the last *)
Theorem t2_read_cmds em b14 : bytes_ok em -> rd em 14 = Ok b14 ->
  t2_cmds_max (snd (t2_read_d em)) <= t2_cmds_max (t2_demand_bound (b14 * 8 + 16)) /\
  t2_cmds_max (t2_demand_bound (b14 * 8 + 16)) <= 11108.
Proof.
  intros Hb E14. pose proof (t2_read_demand_bound em b14 Hb E14) as H. pose proof (rd_byte _ _ _ Hb E14) as B14.
  unfold t2_cmds_max, t2_demand_bound in *. split; lia.
Qed.
