(* C20: the FeliCa Lite reader model talking to the card model over the undisturbed channel. *)
From Coq Require Import ZArith List Bool Lia.
From NV Require Import Base.Result Base.Bytes Base.PyPrims Model.Des Model.FelicaMac Proofs.AuthMac.
Import ListNotations.
Open Scope Z_scope.

Lemma list_eqb_refl l : list_eqb l l = true.
Proof. apply list_eqb_eq. reflexivity. Qed.

(* well-formed card: 8-byte IDm, 16-byte blocks *)
Definition ft_wf (tg : ftag) : Prop := length (ft_idm tg) = 8%nat /\ forall b, length (ft_mem tg b) = 16%nat.

(* ---- response parsing of a status-OK response ------------------------------------------------- *)
Lemma parse_status_ok idm code rest : length idm = 8%nat ->
  parse_rsp idm code true (status_rsp (code + 1) idm 0 0 rest) = Ok rest.
Proof.
  intro H. destruct (list8 idm H) as (a0 & a1 & a2 & a3 & a4 & a5 & a6 & a7 & ->).
  unfold status_rsp, parse_rsp.
  set (body := (code + 1) :: [a0; a1; a2; a3; a4; a5; a6; a7] ++ [0; 0] ++ rest).
  change (idx ((1 + len body) :: body) 0) with (Ok (1 + len body)). cbn [bind].
  replace (1 + len body =? len ((1 + len body) :: body)) with true by (rewrite len_cons; symmetry; apply Z.eqb_refl).
  cbn [negb]. change (idx ((1 + len body) :: body) 1) with (Ok (code + 1)). cbn [bind].
  rewrite Z.eqb_refl. cbn [negb andb].
  change (slice ((1 + len body) :: body) 2 10) with [a0; a1; a2; a3; a4; a5; a6; a7].
  rewrite list_eqb_refl. cbn [negb].
  change (idx ((1 + len body) :: body) 10) with (Ok 0). cbn [bind Z.eqb negb].
  reflexivity.
Qed.

(* ---- the card's command processing without the frame ------------------------------------------ *)
Definition ftag_body (tg : ftag) (code : Z) (body : list Z) : ftag * option (list Z) :=
      if code =? 6 then
        match body with
        | 1 :: 11 :: 0 :: nb :: bl =>
            match parse_block_list (Z.to_nat nb) bl with
            | Some (blocks, []) =>
                if (nb <? 1) || (4 <? nb) then (tg, Some (status_rsp 7 (ft_idm tg) 255 162 [])) else
                match read_data tg blocks [] with
                | Some d => (tg, Some (status_rsp 7 (ft_idm tg) 0 0 (nb :: d)))
                | None => (tg, Some (status_rsp 7 (ft_idm tg) 1 168 []))
                end
            | _ => (tg, Some (status_rsp 7 (ft_idm tg) 255 161 []))
            end
        | _ => (tg, Some (status_rsp 7 (ft_idm tg) 255 161 []))
        end
      else if code =? 8 then
        match body with
        | 1 :: 9 :: 0 :: nb :: bl =>
            match parse_block_list (Z.to_nat nb) bl with
            | Some ([b], d) =>
                if negb (len d =? 16) then (tg, Some (status_rsp 9 (ft_idm tg) 255 162 [])) else
                if block_exists tg b && plain_writable tg b
                then (do_write tg b d, Some (status_rsp 9 (ft_idm tg) 0 0 []))
                else (tg, Some (status_rsp 9 (ft_idm tg) 1 168 []))
            | Some ([b; 145], d) =>
                if negb (len d =? 32) then (tg, Some (status_rsp 9 (ft_idm tg) 255 162 [])) else
                if negb (ft_lites tg && block_exists tg b && mac_writable tg b)
                then (tg, Some (status_rsp 9 (ft_idm tg) 1 168 [])) else
                let data := firstn 16 d in
                let maca := firstn 8 (skipn 16 d) in
                let wcnt := firstn 3 (skipn 24 d) in
                let w := ft_mem tg 144 in
                let sk := ft_sk tg in
                let expect := generate_mac (firstn 3 w ++ [0; b; 0; 145; 0] ++ data)
                                (skipn 8 sk ++ firstn 8 sk) (firstn 8 (ft_rc tg)) false in
                if list_eqb wcnt (firstn 3 w) && (match expect with Ok m => list_eqb maca m | _ => false end)
                then (let tg' := do_write tg b data in
                      mkFT (ft_lites tg') (ft_idm tg') (mem_set (ft_mem tg') 144 (wcnt_inc w)) (ft_ext tg'),
                      Some (status_rsp 9 (ft_idm tg) 0 0 []))
                else (tg, Some (status_rsp 9 (ft_idm tg) 2 178 []))
            | _ => (tg, Some (status_rsp 9 (ft_idm tg) 255 161 []))
            end
        | _ => (tg, Some (status_rsp 9 (ft_idm tg) 255 161 []))
        end
      else (tg, None).

Lemma ftag_step_frame tg code body : length (ft_idm tg) = 8%nat -> code <> 0 ->
  ftag_step tg ((2 + len (ft_idm tg) + len body) :: code :: ft_idm tg ++ body) = ftag_body tg code body.
Proof.
  intros H8 Hc. unfold ftag_step.
  replace (2 + len (ft_idm tg) + len body =? len ((2 + len (ft_idm tg) + len body) :: code :: ft_idm tg ++ body)) with true
    by (rewrite !len_cons, len_app; symmetry; apply Z.eqb_eq; lia).
  cbn [negb]. replace (code =? 0) with false by (symmetry; apply Z.eqb_neq; exact Hc).
  replace (firstn 8 (ft_idm tg ++ body)) with (ft_idm tg)
    by (rewrite firstn_app, H8, Nat.sub_diag, firstn_all2 by lia; cbn [firstn]; rewrite app_nil_r; reflexivity).
  rewrite list_eqb_refl. cbn [negb].
  replace (skipn 8 (ft_idm tg ++ body)) with body
    by (rewrite skipn_app, H8, Nat.sub_diag, skipn_all2 by lia; reflexivity).
  reflexivity.
Qed.

(* ---- one undisturbed exchange -------------------------------------------------------------------- *)
Lemma honest_send tg tg' st code data rest :
  length (ft_idm tg) = 8%nat -> code <> 0 -> 10 + len data <= 255 ->
  ftag_body tg code data = (tg', Some (status_rsp (code + 1) (ft_idm tg) 0 0 rest)) ->
  send_cmd_recv_rsp honest (ft_idm tg) code data true (tg, st) = ((tg', st), Ok rest).
Proof.
  intros H8 Hc Hn HB. unfold send_cmd_recv_rsp. cbn [fst snd].
  assert (Hl : len (ft_idm tg) = 8) by (unfold len; rewrite H8; reflexivity).
  replace (255 <? 2 + len (ft_idm tg) + len data) with false by (symmetry; apply Z.ltb_ge; lia).
  cbn [exchange_retry]. unfold honest. rewrite ftag_step_frame by assumption. rewrite HB.
  cbn [bind]. rewrite parse_status_ok by assumption. reflexivity.
Qed.

Definition code2 (b : Z) : list Z := [128; b].

Lemma block_codes_small bl : Forall (fun b => 0 <= b < 256) bl -> block_codes bl = Ok (concat (map code2 bl)).
Proof.
  induction 1 as [|b r Hb _ IH]; [reflexivity|].
  cbn [block_codes map concat]. unfold block_code.
  replace (b <? 0) with false by (symmetry; apply Z.ltb_ge; lia).
  replace (b <? 256) with true by (symmetry; apply Z.ltb_lt; lia).
  cbn [bind]. rewrite IH. reflexivity.
Qed.

Lemma parse_block_list_small bl rest :
  parse_block_list (length bl) (concat (map code2 bl) ++ rest) = Some (bl, rest).
Proof.
  induction bl as [|b r IH]; [reflexivity|].
  cbn [length map concat code2 app]. change (parse_block_list (S (length r)) (128 :: b :: concat (map code2 r) ++ rest))
    with (match parse_block_list (length r) (concat (map code2 r) ++ rest) with Some (bs, r') => Some (b :: bs, r') | None => None end).
  rewrite IH. reflexivity.
Qed.

Lemma len_codes bl : len (concat (map code2 bl)) = 2 * len bl.
Proof. induction bl as [|b r IH]; [reflexivity|]. cbn [map concat code2]. rewrite len_app, IH, len_cons. change (len (code2 b)) with 2. lia. Qed.

(* reading blocks from the card *)
Lemma honest_read tg st bl data :
  length (ft_idm tg) = 8%nat -> Forall (fun b => 0 <= b < 256) bl -> 1 <= len bl <= 4 ->
  read_data tg bl [] = Some data -> len data = 16 * len bl ->
  read_blocks honest (ft_idm tg) bl (tg, st) = ((tg, st), Ok data).
Proof.
  intros H8 Hbl Hn HR HL. unfold read_blocks, bindM, lift.
  replace (255 <? len bl) with false by (symmetry; apply Z.ltb_ge; lia).
  rewrite block_codes_small by assumption.
  rewrite (honest_send tg tg st 6 _ (len bl :: data)); try assumption; try lia.
  - replace (len (len bl :: data) =? 1 + 16 * len bl) with true by (rewrite len_cons; symmetry; apply Z.eqb_eq; lia).
    cbn [negb]. reflexivity.
  - rewrite len_app, len_codes. change (len [1; 11; 0; len bl]) with 4. lia.
  - unfold ftag_body. change (6 =? 6) with true. cbv iota.
    cbn [app]. unfold len at 1. rewrite Nat2Z.id.
    rewrite <- (app_nil_r (concat (map code2 bl))), parse_block_list_small.
    replace ((len bl <? 1) || (4 <? len bl)) with false
      by (symmetry; apply orb_false_iff; split; [apply Z.ltb_ge | apply Z.ltb_ge]; lia).
    rewrite HR. reflexivity.
Qed.

(* writing one block without MAC *)
Lemma honest_write tg st b d :
  length (ft_idm tg) = 8%nat -> 0 <= b < 256 -> len d = 16 ->
  block_exists tg b && plain_writable tg b = true ->
  write_without_mac honest (ft_idm tg) d b (tg, st) = ((do_write tg b d, st), Ok tt).
Proof.
  intros H8 Hb Hd HW. unfold write_without_mac. rewrite Hd. cbn [Z.eqb Pos.eqb negb].
  unfold write_blocks, bindM, lift. change (255 <? len [b]) with false. cbv iota.
  rewrite block_codes_small by (constructor; [lia|constructor]).
  cbn [map concat code2 app].
  rewrite (honest_send tg (do_write tg b d) st 8 _ []); try assumption; try lia.
  - reflexivity.
  - rewrite !len_cons, Hd. lia.
  - unfold ftag_body. change (8 =? 6) with false. change (8 =? 8) with true. cbv iota.
    change (len [b]) with 1. change (Z.to_nat 1) with 1%nat.
    change (parse_block_list 1 (128 :: b :: d)) with (Some ([b], d)). cbv iota.
    rewrite Hd. cbn [Z.eqb Pos.eqb negb]. rewrite HW. reflexivity.
Qed.

(* the card does not answer the NFC Forum poll: "self.ndef is not None" is False *)
Lemma honest_ndef_probe tg st : ndef_probe honest (ft_idm tg) (tg, st) = ((tg, st), Ok false).
Proof. reflexivity. Qed.

(* ---- FelicaLite.authenticate against the card ---------------------------------------------------- *)
Lemma felica_key_spec pw key : felica_key pw = Ok key -> key = pw_key pw /\ length key = 16%nat.
Proof.
  unfold felica_key, pw_key. destruct ((0 <? len pw) && (len pw <? 16)) eqn:E; [discriminate|].
  intro H. assert (Hk : key = (if len pw =? 0 then zeros 16 else firstn 16 pw)) by congruence.
  clear H. subst key. split; [reflexivity|].
  destruct (len pw =? 0) eqn:E0; [reflexivity|].
  rewrite firstn_length. apply Z.eqb_neq in E0. apply andb_false_iff in E. unfold len in *.
  destruct E as [E|E]; [apply Z.ltb_ge in E | apply Z.ltb_ge in E]; lia.
Qed.

Lemma len16 (l : list Z) : length l = 16%nat -> len l = 16.
Proof. unfold len. intros ->. reflexivity. Qed.

Lemma ft_mac_spec tg d : len d mod 8 = 0 -> 8 <= len d -> length (ft_rc tg) = 16%nat ->
  exists m, generate_mac d (ft_sk tg) (firstn 8 (ft_rc tg)) false = Ok m /\ length m = 8%nat /\ ft_mac tg d = m ++ zeros 8.
Proof.
  intros Hd H8 Hrc.
  destruct (generate_mac_ok d (ft_sk tg) (firstn 8 (ft_rc tg)) false Hd) as (m & Hm & Hl).
  - apply len16. unfold ft_sk. apply session_key_length. exact Hrc.
  - unfold len. rewrite firstn_length, Hrc. reflexivity.
  - exists m. split; [exact Hm|]. specialize (Hl H8). split; [exact Hl|].
    unfold ft_mac. rewrite Hm. unfold pad16. rewrite Hl. reflexivity.
Qed.

(* the card after the reader has written the challenge *)
Definition with_rc (tg : ftag) (rc : list Z) : ftag :=
  mkFT (ft_lites tg) (ft_idm tg) (mem_set (ft_mem tg) 128 (rev_halves rc)) false.

Theorem lite_auth_honest tg st pw rc key :
  ft_wf tg -> length rc = 16%nat -> felica_key pw = Ok key ->
  exists mt mr,
    generate_mac (ft_mem tg 130) (session_key (ft_ck tg) rc) (firstn 8 rc) false = Ok mt /\
    generate_mac (ft_mem tg 130) (session_key key rc) (firstn 8 rc) false = Ok mr /\
    lite_authenticate honest (ft_idm tg) pw rc (tg, st) =
      ((with_rc tg rc, if list_eqb mt mr then mkR (Some (session_key key rc)) (Some (firstn 8 rc)) true
                       else mkR (r_sk st) (r_iv st) false), Ok (list_eqb mt mr)).
Proof.
  intros [H8 H16] Hrc Hk.
  set (tg1 := with_rc tg rc).
  assert (Hrc1 : ft_rc tg1 = rc) by (unfold ft_rc, tg1, with_rc; cbn [ft_mem mem_set Z.eqb Pos.eqb]; apply rev_halves_invol; exact Hrc).
  assert (Hck1 : ft_ck tg1 = ft_ck tg) by reflexivity.
  assert (Hid1 : ft_mem tg1 130 = ft_mem tg 130) by reflexivity.
  assert (Hidl : len (ft_mem tg 130) = 16) by (apply len16, H16).
  destruct (ft_mac_spec tg1 (ft_mem tg 130)) as (mt & Hmt & Hmtl & Hmac);
    [rewrite Hidl; reflexivity | lia | rewrite Hrc1; exact Hrc|].
  unfold ft_sk in Hmt. rewrite Hrc1, Hck1 in Hmt.
  destruct (felica_key_spec pw key Hk) as [_ Hkl].
  destruct (generate_mac_ok (ft_mem tg 130) (session_key key rc) (firstn 8 rc) false) as (mr & Hmr & _).
  { rewrite Hidl. reflexivity. }
  { apply len16, session_key_length, Hrc. }
  { unfold len. rewrite firstn_length, Hrc. reflexivity. }
  exists mt, mr. split; [exact Hmt|]. split; [exact Hmr|].
  assert (HW : write_without_mac honest (ft_idm tg) (rev_halves rc) 128 (tg, mkR (r_sk st) (r_iv st) false)
               = ((tg1, mkR (r_sk st) (r_iv st) false), Ok tt)).
  { rewrite honest_write; [reflexivity | exact H8 | lia | apply len16, rev_halves_length, Hrc | reflexivity]. }
  assert (HR : read_without_mac honest (ft_idm tg) [130; 129] (tg1, mkR (r_sk st) (r_iv st) false)
               = ((tg1, mkR (r_sk st) (r_iv st) false), Ok (ft_mem tg 130 ++ mt ++ zeros 8))).
  { unfold read_without_mac. change (ft_idm tg) with (ft_idm tg1).
    apply honest_read.
    - exact H8.
    - repeat constructor; lia.
    - cbn; lia.
    - change (read_data tg1 [130; 129] []) with (Some (ft_mem tg1 130 ++ ft_mac tg1 (ft_mem tg1 130))).
      rewrite Hid1, Hmac. reflexivity.
    - rewrite !len_app, Hidl. unfold len. rewrite Hmtl. reflexivity. }
  rewrite (lite_authenticate_generic honest (ft_idm tg) pw rc key (tg, st) _ _ (ft_mem tg 130) mt (zeros 8) mr Hk HW HR);
    [reflexivity | unfold len; rewrite Hmtl; reflexivity | reflexivity | exact Hmr].
Qed.

(* authenticate(pw) is true exactly when the MAC under the key derived from pw equals the MAC the
   card computed under its own key *)
Theorem lite_auth_iff_mac tg st pw rc key :
  ft_wf tg -> length rc = 16%nat -> felica_key pw = Ok key ->
  exists b, snd (lite_authenticate honest (ft_idm tg) pw rc (tg, st)) = Ok b /\
    (b = true <->
     generate_mac (ft_mem tg 130) (session_key key rc) (firstn 8 rc) false =
     generate_mac (ft_mem tg 130) (session_key (ft_ck tg) rc) (firstn 8 rc) false).
Proof.
  intros Hwf Hrc Hk. destruct (lite_auth_honest tg st pw rc key Hwf Hrc Hk) as (mt & mr & Hmt & Hmr & HA).
  exists (list_eqb mt mr). rewrite HA. split; [reflexivity|]. rewrite Hmt, Hmr, list_eqb_eq.
  split; [intros ->; reflexivity | intro H; injection H as ->; reflexivity].
Qed.

Theorem lite_auth_same_key tg st pw rc key :
  ft_wf tg -> length rc = 16%nat -> felica_key pw = Ok key -> key_equiv key (ft_ck tg) ->
  snd (lite_authenticate honest (ft_idm tg) pw rc (tg, st)) = Ok true /\
  snd (fst (lite_authenticate honest (ft_idm tg) pw rc (tg, st))) = mkR (Some (session_key key rc)) (Some (firstn 8 rc)) true.
Proof.
  intros Hwf Hrc Hk He. destruct (lite_auth_honest tg st pw rc key Hwf Hrc Hk) as (mt & mr & Hmt & Hmr & HA).
  destruct (felica_key_spec pw key Hk) as [_ Hkl].
  rewrite <- (session_key_equiv key (ft_ck tg) rc) in Hmt by (assumption || lia).
  assert (mt = mr) by congruence. subst mt. rewrite HA, list_eqb_refl. split; reflexivity.
Qed.

Section OtherKey.
  (* the ideal-MAC premise: for this challenge and ID block the MAC determines the card key up to
     parity bits.  A hypothesis of the theorem, not an axiom. *)
  Variable idb rc : list Z.
  Hypothesis mac_injective : forall k1 k2,
    generate_mac idb (session_key k1 rc) (firstn 8 rc) false = generate_mac idb (session_key k2 rc) (firstn 8 rc) false ->
    key_equiv k1 k2.

  Theorem lite_auth_other_key_sec tg st pw key :
    ft_wf tg -> length rc = 16%nat -> ft_mem tg 130 = idb -> felica_key pw = Ok key -> ~ key_equiv key (ft_ck tg) ->
    snd (lite_authenticate honest (ft_idm tg) pw rc (tg, st)) = Ok false.
  Proof.
    intros Hwf Hrc Hid Hk Hne. destruct (lite_auth_iff_mac tg st pw rc key Hwf Hrc Hk) as (b & Hb & Hiff).
    rewrite Hb. destruct b; [|reflexivity]. exfalso. apply Hne, mac_injective. rewrite <- Hid. apply Hiff. reflexivity.
  Qed.
End OtherKey.

(* ---- FelicaLite.protect then authenticate -------------------------------------------------------- *)
Lemma idx_nth (l : list Z) (n : nat) : (n < length l)%nat -> idx l (Z.of_nat n) = Ok (nth n l 0).
Proof.
  intro H. unfold idx. replace (Z.of_nat n <? 0) with false by (symmetry; apply Z.ltb_ge; lia).
  rewrite Nat2Z.id. destruct (nth_error l n) eqn:E.
  - rewrite (nth_error_nth _ _ _ E). reflexivity.
  - apply nth_error_None in E. lia.
Qed.

Lemma set_slice_len l a v : 0 <= a -> a + len v <= len l -> len (set_slice l a v) = len l.
Proof.
  intros Ha Hv. unfold set_slice, take, drop, len in *. rewrite !app_length, firstn_length, skipn_length. lia.
Qed.

Definition with_block (tg : ftag) (b : Z) (d : list Z) : ftag :=
  mkFT (ft_lites tg) (ft_idm tg) (mem_set (ft_mem tg) b d) (ft_ext tg).

Lemma with_block_wf tg b d : ft_wf tg -> length d = 16%nat -> ft_wf (with_block tg b d).
Proof.
  intros [H8 H16] Hd. split; [exact H8|]. intro x. unfold with_block, mem_set. cbn [ft_mem].
  destruct (x =? b); [exact Hd | apply H16].
Qed.

Lemma pw_key_length p : negb ((0 <? len p) && (len p <? 16)) = true -> length (pw_key p) = 16%nat.
Proof.
  intro H. apply (felica_key_spec p (pw_key p)). unfold felica_key, pw_key.
  apply negb_true_iff in H. rewrite H. reflexivity.
Qed.

(* protect(pw) on a card whose system blocks are still writable stores the key derived from pw and
   returns True; the card afterwards holds that key *)
Theorem lite_protect_honest tg st pw pf :
  ft_wf tg -> nth 2 (ft_mem tg 136) 0 = 255 -> pw_len_bad (Some pw) = false -> 0 <= pf ->
  exists mc', length mc' = 16%nat /\
    lite_protect honest (ft_idm tg) (Some pw) false pf (tg, st) =
      ((with_block (with_block tg 135 (rev_halves (pw_key pw))) 136 mc', st), Ok PTrue).
Proof.
  intros Hwf Hmc Hpw Hpf. destruct Hwf as [H8 H16]. unfold lite_protect. rewrite Hpw.
  replace (pf <? 0) with false by (symmetry; apply Z.ltb_ge; lia). cbv iota.
  unfold bindM at 1. unfold read_without_mac.
  rewrite (honest_read tg st [136] (ft_mem tg 136)); try assumption;
    [ | repeat constructor; lia | cbn; lia | reflexivity | rewrite (len16 _ (H16 136)); reflexivity ].
  unfold bindM at 1. unfold lift at 1. change 2 with (Z.of_nat 2). rewrite idx_nth by (rewrite H16; lia).
  rewrite Hmc. cbn [Z.eqb Pos.eqb negb]. cbv iota.
  assert (Hkl : length (pw_key pw) = 16%nat) by (apply pw_key_length; unfold pw_len_bad in Hpw; rewrite Hpw; reflexivity).
  unfold bindM at 1.
  rewrite honest_write; [ | exact H8 | lia | apply len16, rev_halves_length, Hkl
                          | unfold plain_writable, mc_sys_open; cbn [is_user_block Z.leb Z.compare Pos.compare Pos.compare_cont andb orb Z.eqb Pos.eqb block_exists]; rewrite Hmc; reflexivity ].
  change (do_write tg 135 (rev_halves (pw_key pw))) with (with_block tg 135 (rev_halves (pw_key pw))).
  set (tg1 := with_block tg 135 (rev_halves (pw_key pw))).
  set (mc1 := if pf <? 14 then set_slice (ft_mem tg 136) 0 (le16 (Z.lxor 32767 (2 ^ 14 - 2 ^ pf))) else ft_mem tg 136).
  assert (Hmc1 : len mc1 = 16).
  { unfold mc1. destruct (pf <? 14); [|apply len16, H16].
    rewrite set_slice_len; [apply len16, H16 | lia | rewrite (len16 _ (H16 136)); cbn; lia]. }
  assert (Hprobe : (if pf =? 0 then ndef_probe honest (ft_idm tg) else ret false) (tg1, st) = ((tg1, st), Ok false)).
  { destruct (pf =? 0); [apply (honest_ndef_probe tg1 st) | reflexivity]. }
  unfold bindM at 1. rewrite Hprobe. cbv iota.
  assert (Hmc2 : len (set_slice mc1 2 [0]) = 16) by (rewrite set_slice_len; [exact Hmc1 | lia | rewrite Hmc1; cbn; lia]).
  unfold bindM. change (ft_idm tg) with (ft_idm tg1).
  rewrite honest_write; [ | exact H8 | lia | exact Hmc2
                          | unfold plain_writable, mc_sys_open, tg1, with_block, mem_set;
                            cbn [is_user_block Z.leb Z.compare Pos.compare Pos.compare_cont andb orb Z.eqb Pos.eqb block_exists ft_mem];
                            rewrite Hmc; reflexivity ].
  exists (set_slice mc1 2 [0]). split; [unfold len in Hmc2; lia|]. reflexivity.
Qed.

Theorem lite_protect_then_auth tg st pw pf rc :
  ft_wf tg -> nth 2 (ft_mem tg 136) 0 = 255 -> pw_len_bad (Some pw) = false -> 0 <= pf -> length rc = 16%nat ->
  exists s1, lite_protect honest (ft_idm tg) (Some pw) false pf (tg, st) = (s1, Ok PTrue) /\
             snd (lite_authenticate honest (ft_idm tg) pw rc s1) = Ok true.
Proof.
  intros Hwf Hmc Hpw Hpf Hrc.
  destruct (lite_protect_honest tg st pw pf Hwf Hmc Hpw Hpf) as (mc' & Hmcl & HP).
  eexists. split; [exact HP|].
  assert (Hkl : length (pw_key pw) = 16%nat) by (apply pw_key_length; unfold pw_len_bad in Hpw; rewrite Hpw; reflexivity).
  set (tg2 := with_block (with_block tg 135 (rev_halves (pw_key pw))) 136 mc').
  assert (Hwf2 : ft_wf tg2) by (apply with_block_wf; [apply with_block_wf; [exact Hwf | apply rev_halves_length, Hkl] | exact Hmcl]).
  assert (Hk : felica_key pw = Ok (pw_key pw)) by (unfold felica_key, pw_key; unfold pw_len_bad in Hpw; rewrite Hpw; reflexivity).
  change (ft_idm tg) with (ft_idm tg2).
  apply (lite_auth_same_key tg2 st pw rc (pw_key pw) Hwf2 Hrc Hk).
  unfold ft_ck, tg2, with_block, mem_set. cbn [ft_mem Z.eqb Pos.eqb]. rewrite rev_halves_invol by exact Hkl. apply key_equiv_refl.
Qed.
