(* C20: FeliCa Lite-S mutual authentication (write_with_mac of the STATE block, MAC read back) and
   protect() against the card model over the undisturbed channel. *)
From Coq Require Import ZArith List Bool Lia.
From NV Require Import Base.Result Base.Bytes Base.PyPrims Model.Des Model.FelicaMac Proofs.AuthMac Proofs.AuthTag.
Import ListNotations.
Open Scope Z_scope.

Lemma list16 {A} (l : list A) : length l = 16%nat ->
  exists a0 a1 a2 a3 a4 a5 a6 a7 a8 a9 a10 a11 a12 a13 a14 a15,
    l = [a0; a1; a2; a3; a4; a5; a6; a7; a8; a9; a10; a11; a12; a13; a14; a15].
Proof.
  intro H. do 16 (destruct l as [|? l]; [discriminate|]). destruct l; [|discriminate]. repeat eexists.
Qed.

(* the card after an accepted MAC write of block b *)
Definition after_mac_write (tg : ftag) (b : Z) (data : list Z) : ftag :=
  let tg' := do_write tg b data in
  mkFT (ft_lites tg') (ft_idm tg') (mem_set (ft_mem tg') 144 (wcnt_inc (ft_mem tg 144))) (ft_ext tg').

Lemma honest_write_mac tg st b data m :
  length (ft_idm tg) = 8%nat -> ft_lites tg = true -> 0 <= b < 256 ->
  block_exists tg b && mac_writable tg b = true ->
  length data = 16%nat -> length m = 8%nat -> length (ft_mem tg 144) = 16%nat ->
  generate_mac (firstn 3 (ft_mem tg 144) ++ [0; b; 0; 145; 0] ++ data)
    (skipn 8 (ft_sk tg) ++ firstn 8 (ft_sk tg)) (firstn 8 (ft_rc tg)) false = Ok m ->
  write_blocks honest (ft_idm tg) [b; 145] (data ++ m ++ firstn 3 (ft_mem tg 144) ++ zeros 5) (tg, st)
    = ((after_mac_write tg b data, st), Ok tt).
Proof.
  intros H8 Hl Hb Hw Hd Hm Hw16 HG.
  unfold write_blocks, bindM, lift. change (255 <? len [b; 145]) with false. cbv iota.
  rewrite block_codes_small by (constructor; [lia | constructor; [lia | constructor]]).
  cbn [map concat code2 app].
  set (w3 := firstn 3 (ft_mem tg 144)) in *.
  assert (Hw3 : length w3 = 3%nat) by (unfold w3; rewrite firstn_length, Hw16; reflexivity).
  set (payload := data ++ m ++ w3 ++ zeros 5).
  assert (Hpl : len payload = 32).
  { unfold payload, len. rewrite !app_length, Hd, Hm, Hw3. reflexivity. }
  assert (P1 : firstn 16 payload = data).
  { unfold payload. rewrite firstn_app, Hd, Nat.sub_diag, firstn_all2 by lia. cbn [firstn]. apply app_nil_r. }
  assert (P2 : firstn 8 (skipn 16 payload) = m).
  { unfold payload. rewrite skipn_app, Hd, Nat.sub_diag, skipn_all2 by lia. cbn [skipn app].
    rewrite firstn_app, Hm, Nat.sub_diag, firstn_all2 by lia. cbn [firstn]. apply app_nil_r. }
  assert (P3 : firstn 3 (skipn 24 payload) = w3).
  { unfold payload. rewrite skipn_app, Hd. replace (24 - 16)%nat with 8%nat by reflexivity.
    rewrite (skipn_all2 data) by lia. cbn [app]. rewrite skipn_app, Hm, Nat.sub_diag, skipn_all2 by lia. cbn [skipn app].
    rewrite firstn_app, Hw3, Nat.sub_diag, firstn_all2 by lia. cbn [firstn]. apply app_nil_r. }
  rewrite (honest_send tg (after_mac_write tg b data) st 8 _ []); try assumption; try lia.
  - reflexivity.
  - rewrite !len_cons, Hpl. lia.
  - unfold ftag_body. change (8 =? 6) with false. change (8 =? 8) with true. cbv iota.
    change (len [b; 145]) with 2. change (Z.to_nat 2) with 2%nat.
    change (parse_block_list 2 (128 :: b :: 128 :: 145 :: payload)) with (Some ([b; 145], payload)). cbv iota.
    rewrite Hpl. cbn [Z.eqb Pos.eqb negb]. rewrite Hl. cbn [andb]. rewrite Hw. cbn [negb].
    cbv zeta. rewrite P1, P2, P3. fold w3. rewrite HG, !list_eqb_refl. cbn [andb]. reflexivity.
Qed.

Opaque generate_mac session_key.

Lemma list3 {A} (l : list A) : length l = 3%nat -> exists a b c, l = [a; b; c].
Proof. intro H. do 3 (destruct l as [|? l]; [discriminate|]). destruct l; [|discriminate]. repeat eexists. Qed.

Lemma lite_auth_same_key_full tg st pw rc key :
  ft_wf tg -> length rc = 16%nat -> felica_key pw = Ok key -> key_equiv key (ft_ck tg) ->
  lite_authenticate honest (ft_idm tg) pw rc (tg, st) =
    ((with_rc tg rc, mkR (Some (session_key key rc)) (Some (firstn 8 rc)) true), Ok true).
Proof.
  intros Hwf Hrc Hk He. destruct (lite_auth_honest tg st pw rc key Hwf Hrc Hk) as (mt & mr & Hmt & Hmr & HA).
  destruct (felica_key_spec pw key Hk) as [_ Hkl].
  rewrite <- (session_key_equiv key (ft_ck tg) rc) in Hmt by (assumption || lia).
  assert (mt = mr) by congruence. subst mt. rewrite HA, list_eqb_refl. reflexivity.
Qed.

Lemma read_data_wcnt tg : ft_lites tg = true -> read_data tg [144] [] = Some (ft_mem tg 144).
Proof. intro H. unfold read_data, block_readable, block_exists. rewrite H. reflexivity. Qed.

Definition state_block (tg : ftag) : list Z := (if ft_ext tg then 1 else 0) :: zeros 15.
Lemma read_data_state tg : ft_lites tg = true ->
  read_data tg [146; 129] [] = Some (state_block tg ++ ft_mac tg (state_block tg)).
Proof. intro H. unfold read_data, block_readable, block_exists. rewrite H. reflexivity. Qed.

(* FelicaLiteS.authenticate (either version of the code) against a card holding the key *)
Theorem lites_auth_same_key tg st rep pw rc key :
  ft_wf tg -> ft_lites tg = true -> length rc = 16%nat -> felica_key pw = Ok key -> key_equiv key (ft_ck tg) ->
  lites_authenticate honest (ft_idm tg) rep pw rc (tg, st) =
    ((after_mac_write (with_rc tg rc) 146 (1 :: zeros 15),
      mkR (Some (session_key key rc)) (Some (firstn 8 rc)) true), Ok true).
Proof.
  intros Hwf Hl Hrc Hk He. pose proof Hwf as [H8 H16].
  destruct (felica_key_spec pw key Hk) as [_ Hkl].
  set (sk := session_key key rc). set (iv := firstn 8 rc).
  assert (Hskl : length sk = 16%nat) by (apply session_key_length, Hrc).
  assert (Hivl : length iv = 8%nat) by (unfold iv; rewrite firstn_length, Hrc; reflexivity).
  set (tg1 := with_rc tg rc).
  assert (Hrc1 : ft_rc tg1 = rc) by (unfold ft_rc, tg1, with_rc; cbn [ft_mem mem_set Z.eqb Pos.eqb]; apply rev_halves_invol; exact Hrc).
  assert (Hsk1 : ft_sk tg1 = sk).
  { unfold ft_sk. rewrite Hrc1. change (ft_ck tg1) with (ft_ck tg). symmetry. apply session_key_equiv; [lia | exact He]. }
  unfold lites_authenticate. unfold bindM at 1.
  rewrite (lite_auth_same_key_full tg st pw rc key Hwf Hrc Hk He). fold sk iv tg1. cbv iota.
  unfold bindM at 1. unfold set_auth at 1. cbn [fst snd r_sk r_iv].
  (* write_with_mac(b"\x01" + 15 zero bytes, 0x92) *)
  set (data := 1 :: zeros 15).
  assert (Hdl : length data = 16%nat) by reflexivity.
  set (w := ft_mem tg 144).
  assert (Hwl : length w = 16%nat) by apply H16.
  set (w3 := firstn 3 w).
  assert (Hw3 : length w3 = 3%nat) by (unfold w3; rewrite firstn_length, Hwl; reflexivity).
  destruct (generate_mac_ok (w3 ++ [0; 146; 0; 145; 0] ++ data) (skipn 8 sk ++ firstn 8 sk) iv false) as (m & Hm & Hml).
  { unfold len. rewrite !app_length, Hw3, Hdl. reflexivity. }
  { unfold len. rewrite app_length, skipn_length, firstn_length, Hskl. reflexivity. }
  { unfold len. rewrite Hivl. reflexivity. }
  assert (Hml8 : length m = 8%nat) by (apply Hml; unfold len; rewrite !app_length, Hw3, Hdl; cbn; lia).
  assert (HWM : write_with_mac honest (ft_idm tg) data 146 (tg1, mkR (Some sk) (Some iv) false)
                = ((after_mac_write tg1 146 data, mkR (Some sk) (Some iv) false), Ok tt)).
  { unfold write_with_mac. change (len data =? 16) with true. cbn [negb].
    unfold bindM at 1. unfold get_rs. cbn [fst snd r_sk r_iv].
    unfold bindM at 1. unfold read_without_mac. change (ft_idm tg) with (ft_idm tg1).
    rewrite (honest_read tg1 _ [144] w);
      [ | exact H8 | repeat constructor; lia | cbn; lia | apply (read_data_wcnt tg1 Hl) | unfold len; rewrite Hwl; reflexivity ].
    change (slice w 0 3) with w3. change ((146 <? 0) || (255 <? 146)) with false. cbv iota.
    unfold bindM at 1. unfold lift at 1. rewrite Hm.
    destruct (list3 w3 Hw3) as (x & y & z & Hxyz).
    assert (Hsl : slice (w3 ++ [0; 146; 0; 145; 0] ++ data) 8 24 = data) by (rewrite Hxyz; reflexivity).
    rewrite Hsl.
    apply (honest_write_mac tg1 _ 146 data m); try assumption; try lia.
    - unfold block_exists, mac_writable. cbn [ft_lites tg1 with_rc]. rewrite Hl. reflexivity.
    - fold w w3. change (ft_mem tg1 144) with w. fold w3. rewrite Hsk1, Hrc1. exact Hm. }
  unfold bindM at 1. rewrite HWM.
  (* read_with_mac(0x92) *)
  set (tg2 := after_mac_write tg1 146 data).
  assert (Hl2 : ft_lites tg2 = true) by exact Hl.
  assert (Hrc2 : ft_rc tg2 = rc) by (unfold ft_rc, tg2, after_mac_write, tg1, with_rc, do_write, mem_set; cbn [ft_mem Z.eqb Pos.eqb]; apply rev_halves_invol; exact Hrc).
  assert (Hsk2 : ft_sk tg2 = sk).
  { unfold ft_sk. rewrite Hrc2. change (ft_ck tg2) with (ft_ck tg). symmetry. apply session_key_equiv; [lia | exact He]. }
  assert (Hst2 : state_block tg2 = data) by reflexivity.
  destruct (ft_mac_spec tg2 data) as (m2 & Hm2 & Hm2l & Hmac2); [reflexivity | cbn; lia | rewrite Hrc2; exact Hrc |].
  rewrite Hsk2, Hrc2 in Hm2. fold iv in Hm2.
  assert (HRM : read_with_mac honest (ft_idm tg) [146] (tg2, mkR (Some sk) (Some iv) false)
                = ((tg2, mkR (Some sk) (Some iv) false), Ok (Some data))).
  { apply (read_with_mac_complete honest (ft_idm tg) [146] _ _ sk iv data m2 (zeros 8)); try reflexivity.
    - change (ft_idm tg) with (ft_idm tg2). cbn [app]. apply honest_read.
      + exact H8.
      + repeat constructor; lia.
      + cbn; lia.
      + rewrite (read_data_state tg2 Hl2), Hst2, Hmac2. reflexivity.
      + unfold len. rewrite !app_length, Hdl, Hm2l. reflexivity.
    - unfold len. rewrite Hm2l. reflexivity.
    - exact Hm2. }
  unfold bindM at 1. rewrite HRM. cbv iota.
  reflexivity.
Qed.

(* ---- FelicaLiteS.protect then authenticate ------------------------------------------------------- *)
Lemma with_rc_wf tg rc : ft_wf tg -> length rc = 16%nat -> ft_wf (with_rc tg rc).
Proof.
  intros [H8 H16] Hrc. split; [exact H8|]. intro x. unfold with_rc, mem_set. cbn [ft_mem].
  destruct (x =? 128); [apply rev_halves_length, Hrc | apply H16].
Qed.
Lemma wcnt_inc_length w : length w = 16%nat -> length (wcnt_inc w) = 16%nat.
Proof. intro H. unfold wcnt_inc. rewrite app_length, skipn_length, H. reflexivity. Qed.
Lemma after_mac_write_state_wf tg d : ft_wf tg -> ft_wf (after_mac_write tg 146 d).
Proof.
  intros [H8 H16]. split; [exact H8|]. intro x. unfold after_mac_write, do_write, mem_set. cbn [Z.eqb Pos.eqb ft_mem].
  destruct (x =? 144); [apply wcnt_inc_length, H16 | apply H16].
Qed.

Lemma felica_key_of_key k : length k = 16%nat -> felica_key k = Ok k.
Proof.
  intro H. unfold felica_key. unfold len. rewrite H. cbn [Z.of_nat Pos.of_succ_nat Pos.succ Z.ltb Z.compare Pos.compare Pos.compare_cont andb Z.eqb].
  rewrite firstn_all2 by lia. reflexivity.
Qed.

Theorem lites_protect_honest tg st pw rp pf rc :
  ft_wf tg -> ft_lites tg = true -> nth 2 (ft_mem tg 136) 0 = 255 -> pw_len_bad (Some pw) = false -> 0 <= pf ->
  length rc = 16%nat ->
  exists tg' st',
    lites_protect honest (ft_idm tg) true (Some pw) rp pf rc (tg, st) = ((tg', st'), Ok PTrue) /\
    ft_wf tg' /\ ft_lites tg' = true /\ ft_idm tg' = ft_idm tg /\ ft_ck tg' = pw_key pw.
Proof.
  intros Hwf Hl Hmc Hpw Hpf Hrc. pose proof Hwf as [H8 H16].
  assert (Hkl : length (pw_key pw) = 16%nat) by (apply pw_key_length; unfold pw_len_bad in Hpw; rewrite Hpw; reflexivity).
  set (key := pw_key pw) in *.
  unfold lites_protect. rewrite Hpw. replace (pf <? 0) with false by (symmetry; apply Z.ltb_ge; lia). cbv iota.
  unfold bindM at 1. unfold read_without_mac.
  rewrite (honest_read tg st [136] (ft_mem tg 136)); try assumption;
    [ | repeat constructor; lia | cbn; lia | reflexivity | rewrite (len16 _ (H16 136)); reflexivity ].
  set (mc := ft_mem tg 136) in *.
  assert (Hmcl : length mc = 16%nat) by apply H16.
  unfold bindM at 1. unfold get_rs at 1. cbn [snd].
  unfold bindM at 1. unfold lift at 1. change 2 with (Z.of_nat 2). rewrite idx_nth by (rewrite Hmcl; lia). rewrite Hmc.
  unfold bindM at 1. unfold lift at 1. change 5 with (Z.of_nat 5). rewrite idx_nth by (rewrite Hmcl; lia).
  change (255 =? 255) with true. cbn [negb andb]. fold key.
  set (mask := if pf <? 14 then le16 (2 ^ 14 - 2 ^ pf) else []).
  (* CKV, CK *)
  unfold bindM at 1. unfold bindM at 1.
  rewrite (honest_read tg st [134] (ft_mem tg 134)); try assumption;
    [ | repeat constructor; lia | cbn; lia | reflexivity | rewrite (len16 _ (H16 134)); reflexivity ].
  set (ckv := lites_ckv_block (ft_mem tg 134)).
  assert (Hsys : forall tgx, ft_mem tgx 136 = mc -> mc_sys_open tgx = true)
    by (intros tgx Hx; unfold mc_sys_open; rewrite Hx, Hmc; reflexivity).
  unfold bindM at 1.
  rewrite honest_write; [ | exact H8 | lia | reflexivity
                          | unfold plain_writable; cbn [is_user_block Z.leb Z.compare Pos.compare Pos.compare_cont andb orb Z.eqb Pos.eqb block_exists];
                            rewrite (Hsys tg eq_refl); reflexivity ].
  change (do_write tg 134 ckv) with (with_block tg 134 ckv). set (tgA := with_block tg 134 ckv).
  assert (HwfA : ft_wf tgA) by (apply with_block_wf; [exact Hwf | reflexivity]).
  unfold bindM at 1. change (ft_idm tg) with (ft_idm tgA).
  rewrite honest_write; [ | exact H8 | lia | apply len16, rev_halves_length, Hkl
                          | unfold plain_writable; cbn [is_user_block Z.leb Z.compare Pos.compare Pos.compare_cont andb orb Z.eqb Pos.eqb block_exists];
                            rewrite (Hsys tgA eq_refl); reflexivity ].
  change (do_write tgA 135 (rev_halves key)) with (with_block tgA 135 (rev_halves key)).
  set (tgB := with_block tgA 135 (rev_halves key)).
  assert (HwfB : ft_wf tgB) by (apply with_block_wf; [exact HwfA | apply rev_halves_length, Hkl]).
  assert (HckB : ft_ck tgB = key) by (unfold ft_ck, tgB, with_block, mem_set; cbn [ft_mem Z.eqb Pos.eqb]; apply rev_halves_invol, Hkl).
  (* mutual authentication with the new key *)
  unfold bindM at 1. change (ft_idm tgA) with (ft_idm tgB).
  rewrite (lites_auth_same_key tgB st true key rc key HwfB Hl Hrc (felica_key_of_key key Hkl));
    [ | rewrite HckB; apply key_equiv_refl ].
  cbn [negb]. unfold ret at 1.
  set (tgC := after_mac_write (with_rc tgB rc) 146 (1 :: zeros 15)).
  assert (HwfC : ft_wf tgC) by (apply after_mac_write_state_wf, with_rc_wf; assumption).
  set (stC := mkR (Some (session_key key rc)) (Some (firstn 8 rc)) true).
  set (mc0 := if rp && (pf <? 14) then set_slice mc 6 mask else mc).
  cbv iota. cbn [negb].
  set (mc1 := if pf <? 14 then set_slice (set_slice mc0 8 mask) 10 mask else mc0).
  assert (Hmcl' : len mc = 16) by (apply len16, Hmcl).
  assert (Hmask : pf <? 14 = true -> len mask = 2) by (intro H; unfold mask; rewrite H; reflexivity).
  assert (Hmc0 : len mc0 = 16).
  { unfold mc0. destruct (pf <? 14) eqn:E; [|rewrite andb_false_r; exact Hmcl'].
    destruct rp; [|exact Hmcl']. cbn [andb]. rewrite set_slice_len; [exact Hmcl' | lia | rewrite Hmask, Hmcl' by reflexivity; lia]. }
  assert (Hmc1 : len mc1 = 16).
  { unfold mc1. destruct (pf <? 14) eqn:E; [|exact Hmc0].
    rewrite set_slice_len; rewrite ?set_slice_len; rewrite ?Hmask by reflexivity; rewrite ?Hmc0; try lia. }
  assert (Hprobe : (if pf =? 0 then ndef_probe honest (ft_idm tgB) else ret false) (tgC, stC) = ((tgC, stC), Ok false)).
  { destruct (pf =? 0); [apply (honest_ndef_probe tgC stC) | reflexivity]. }
  unfold bindM at 1. rewrite Hprobe. cbv iota.
  set (mc2 := set_slice (set_slice mc1 2 [0]) 5 [1]).
  assert (Hmc2 : len mc2 = 16).
  { unfold mc2. rewrite set_slice_len; rewrite ?set_slice_len; rewrite ?Hmc1; cbn; lia. }
  unfold bindM. change (ft_idm tgB) with (ft_idm tgC).
  rewrite honest_write; [ | exact H8 | lia | exact Hmc2
                          | unfold plain_writable; cbn [is_user_block Z.leb Z.compare Pos.compare Pos.compare_cont andb orb Z.eqb Pos.eqb block_exists];
                            rewrite (Hsys tgC eq_refl); reflexivity ].
  change (do_write tgC 136 mc2) with (with_block tgC 136 mc2).
  exists (with_block tgC 136 mc2), stC. split; [reflexivity|].
  split; [apply with_block_wf; [exact HwfC | unfold len in Hmc2; lia]|].
  split; [exact Hl|]. split; [reflexivity|].
  unfold ft_ck, with_block, tgC, after_mac_write, with_rc, do_write, tgB, with_block, mem_set. cbn [ft_mem Z.eqb Pos.eqb].
  apply rev_halves_invol, Hkl.
Qed.

Theorem lites_protect_then_auth tg st pw rp pf rc rc' :
  ft_wf tg -> ft_lites tg = true -> nth 2 (ft_mem tg 136) 0 = 255 -> pw_len_bad (Some pw) = false -> 0 <= pf ->
  length rc = 16%nat -> length rc' = 16%nat ->
  exists s1, lites_protect honest (ft_idm tg) true (Some pw) rp pf rc (tg, st) = (s1, Ok PTrue) /\
             snd (lites_authenticate honest (ft_idm tg) true pw rc' s1) = Ok true.
Proof.
  intros Hwf Hl Hmc Hpw Hpf Hrc Hrc'.
  destruct (lites_protect_honest tg st pw rp pf rc Hwf Hl Hmc Hpw Hpf Hrc) as (tg' & st' & HP & Hwf' & Hl' & Hid & Hck).
  exists (tg', st'). split; [exact HP|]. rewrite <- Hid.
  assert (Hk : felica_key pw = Ok (pw_key pw)) by (unfold felica_key, pw_key; unfold pw_len_bad in Hpw; rewrite Hpw; reflexivity).
  rewrite (lites_auth_same_key tg' st' true pw rc' (pw_key pw) Hwf' Hl' Hrc' Hk); [reflexivity|].
  rewrite Hck. apply key_equiv_refl.
Qed.

Lemma lites_auth_first_phase {T : Type} (xchg : T -> list Z -> T * xres) idm rep pw rc (s s' : T * rstate) :
  lite_authenticate xchg idm pw rc s = (s', Ok false) -> lites_authenticate xchg idm rep pw rc s = (s', Ok false).
Proof. intro H. unfold lites_authenticate, bindM. rewrite H. reflexivity. Qed.
