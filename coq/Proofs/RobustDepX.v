(* C07: the NFC-DEP exchange layer is total against an ARBITRARY peer: for every payload, configuration and answer stream
   Initiator.exchange / Target.exchange (Model/DepAny.v) return a result or one of the documented errors - never Crash,
   never Hang - and hand at most (answers left + 3) frames to the frontend. *)
From Coq Require Import ZArith List Bool Lia ZifyBool.
From NV Require Import Base.Result Base.Bytes Model.DepDecode Proofs.RobustDep Model.DepAny.
Import ListNotations.
Open Scope Z_scope.

Definition A (s : st) : nat := length (ans s).
Definition Sn (s : st) : nat := length (sent s).

Definition good {T} (r : res T) : Prop :=
  match r with Ok _ | Err TimeoutError | Err TransmissionError | Err ProtocolError => True | _ => False end.
Definition okb {T} (r : res T) : bool := match r with Ok _ => true | _ => false end.

(* what a piece of the machine started in state s does: the result is documented; answers are only consumed; a successful
   result has consumed at least one answer (strict); frames are handed to the frontend one per consumed answer, plus at most k
   more, and those only when the answers are used up and the piece fails *)
Definition spec {T} (strict : bool) (k : nat) (s : st) (p : M T) : Prop :=
  good (fst p) /\ (A (snd p) <= A s)%nat /\
  (strict = true -> okb (fst p) = true -> (A (snd p) < A s)%nat) /\
  (Sn (snd p) + A (snd p) <= Sn s + A s + (if okb (fst p) then 0 else if (A (snd p) =? 0)%nat then k else 0))%nat.

Definition cfg_ok (c : cfg) : Prop := 0 < cmiu c /\ cmiu c + len (optl (cdid c)) + len (optl (cnad c)) <= 251.

Lemma spec_weaken {T} b k k' s (p : M T) : (k <= k')%nat -> spec b k s p -> spec false k' s p.
Proof.
  intros Hk (H1 & H2 & H3 & H4). repeat split; try assumption; [discriminate|].
  destruct (okb (fst p)); [exact H4|]. destruct (Nat.eqb_spec (A (snd p)) 0); lia.
Qed.

Lemma xchg_spec c s fr t : spec true 1 s (xchg c s fr t).
Proof.
  unfold xchg, spec, A, Sn. destruct s as [n a snt]. cbn [ans sent now].
  destruct a as [|[|d|f] r]; try destruct ((0 <? d) && (d <=? t));
    cbn [fst snd ans sent good okb length Nat.eqb]; rewrite ?app_length; cbn [length];
    repeat split; try exact I; try lia; try discriminate.
Qed.

Lemma enc_ok req c fmt pni data : cfg_ok c -> len data <= cmiu c -> exists fr, enc_dep req c (cdid c) (cnad c) fmt pni data = Ok fr.
Proof.
  intros [H0 H1] Hd. unfold enc_dep.
  set (body := (if req then [212; 6] else [213; 7]) ++ _).
  assert (Hb : len body = 3 + len (optl (cdid c)) + len (optl (cnad c)) + len data).
  { unfold body. destruct req; rewrite !len_app, !len_cons; change (len (@nil Z)) with 0; lia. }
  replace (255 <? len body + 1) with false by lia. eexists. reflexivity.
Qed.

(* ================================================================ Initiator *)
Lemma i_srr_spec c s fmt pni data t : cfg_ok c -> len data <= cmiu c -> spec true 1 s (i_srr c s fmt pni data t).
Proof.
  intros Hc Hd. unfold i_srr. destruct (enc_ok true c fmt pni data Hc Hd) as [fr ->].
  pose proof (xchg_spec c s (Some fr) t) as Hx. destruct (xchg c s (Some fr) t) as [r s'].
  destruct r as [rsp|e|x|]; try exact Hx.
  - destruct Hx as (_ & H2 & H3 & H4). cbn [fst snd okb] in *. specialize (H3 eq_refl eq_refl).
    destruct (dep_decode_total Ini (c106 c) rsp) as [[p ->] | [-> | ->]].
    + destruct p; try destruct req; repeat split; cbn [fst snd good okb]; try exact I; try lia; try discriminate;
        try (destruct (A s' =? 0)%nat; lia).
    + repeat split; cbn [fst snd good okb]; try exact I; try lia; try discriminate.
    + repeat split; cbn [fst snd good okb]; try exact I; try lia; try discriminate.
Qed.

(* sequencing: a failed first piece followed by a second piece that starts where the first one stopped *)
Lemma after_err {T U} k1 k2 s (r1 : res T) s1 (p2 : M U) :
  spec true k1 s (r1, s1) -> okb r1 = false -> spec true k2 s1 p2 -> spec true (k1 + k2) s p2.
Proof.
  intros (_ & H2 & _ & H4) Hn (G1 & G2 & G3 & G4). cbn [fst snd] in *. rewrite Hn in H4.
  split; [exact G1|]. split; [lia|]. split; [intros Hb Ho; specialize (G3 Hb Ho); lia|].
  destruct (okb (fst p2)); [specialize (G3 eq_refl eq_refl)|];
    destruct (Nat.eqb_spec (A s1) 0); destruct (Nat.eqb_spec (A (snd p2)) 0); lia.
Qed.

(* sequencing after a successful strict piece *)
Lemma after_ok {T U} b k1 k2 s (r1 : res T) s1 (p2 : M U) :
  spec true k1 s (r1, s1) -> okb r1 = true -> spec b k2 s1 p2 -> spec true k2 s p2.
Proof.
  intros (_ & H2 & H3 & H4) Ho (G1 & G2 & G3 & G4). cbn [fst snd] in *. rewrite Ho in H4. specialize (H3 eq_refl Ho).
  split; [exact G1|]. split; [lia|]. split; [intros; lia|].
  destruct (okb (fst p2)); destruct (Nat.eqb_spec (A (snd p2)) 0); lia.
Qed.
(* ... and after a successful piece that may have consumed nothing *)
Lemma after_ok' {T U} b k1 k2 s (r1 : res T) s1 (p2 : M U) :
  spec false k1 s (r1, s1) -> okb r1 = true -> spec b k2 s1 p2 -> spec b k2 s p2.
Proof.
  intros (_ & H2 & _ & H4) Ho (G1 & G2 & G3 & G4). cbn [fst snd] in *. rewrite Ho in H4.
  split; [exact G1|]. split; [lia|]. split; [intros Hb Hq; specialize (G3 Hb Hq); lia|].
  destruct (okb (fst p2)); destruct (Nat.eqb_spec (A (snd p2)) 0); lia.
Qed.
Lemma spec_k {T} b k k' s (p : M T) : (k <= k')%nat -> spec b k s p -> spec b k' s p.
Proof.
  intros Hk (H1 & H2 & H3 & H4). repeat split; try assumption.
  destruct (okb (fst p)); [exact H4|]. destruct (Nat.eqb_spec (A (snd p)) 0); lia.
Qed.
(* a result replaced by a documented error, the state kept *)
Lemma spec_err {T U} b b' k s (r : res T) s1 (e : err) : spec b k s (r, s1) -> good (@Err U e) -> spec b' k s (@Err U e, s1).
Proof.
  intros (_ & H2 & _ & H4) Hg. cbn [fst snd] in *. repeat split; cbn [fst snd okb]; try assumption; try discriminate.
  destruct (okb r); destruct (Nat.eqb_spec (A s1) 0); lia.
Qed.
Lemma spec_here {T} b k s (e : err) : good (@Err T e) -> spec b k s (@Err T e, s).
Proof. intro Hg. repeat split; cbn [fst snd okb]; try assumption; try discriminate; try lia; try (destruct (Nat.eqb_spec (A s) 0); lia). Qed.

Lemma spec_ok {T U} b k k' s (a : T) (a' : U) s1 : spec b k s (Ok a, s1) -> spec b k' s (Ok a', s1).
Proof. intros (_ & H2 & H3 & H4). repeat split; cbn [fst snd okb good] in *; try assumption; exact I. Qed.
Lemma spec_ret {T} k s (a : T) : spec false k s (Ok a, s).
Proof. repeat split; cbn [fst snd okb good]; try exact I; try lia; discriminate. Qed.
Lemma spec_bad {T U} b k s (r : res T) s1 (p : M U) : spec b k s (r, s1) -> ~ good r -> spec b k s p.
Proof. intros (H & _) Hn. cbn [fst] in H. contradiction. Qed.
(* a failed strict piece that stopped with answers left, followed by another piece *)
Lemma after_err_live {T U} b k1 k2 s (r1 : res T) s1 (p2 : M U) :
  spec true k1 s (r1, s1) -> okb r1 = false -> (0 < A s1)%nat -> spec b k2 s1 p2 -> spec b k2 s p2.
Proof.
  intros (_ & H2 & _ & H4) Hn Hl (G1 & G2 & G3 & G4). cbn [fst snd] in *. rewrite Hn in H4.
  split; [exact G1|]. split; [lia|]. split; [intros Hb Hq; specialize (G3 Hb Hq); lia|].
  destruct (Nat.eqb_spec (A s1) 0); [lia|]. destruct (okb (fst p2)); destruct (Nat.eqb_spec (A (snd p2)) 0); lia.
Qed.

Lemma nil_le_miu c : cfg_ok c -> len (@nil Z) <= cmiu c.
Proof. intros [H _]. unfold len. cbn [length]. lia. Qed.

Ltac absurd_spec H := exfalso; exact (proj1 H).

Lemma i_attention_spec n : forall c s rwt dl, cfg_ok c -> spec true n s (i_attention n c s rwt dl).
Proof.
  induction n as [|n IH]; intros c s rwt dl Hc; cbn [i_attention]; [apply spec_here; exact I|].
  destruct (tmo s rwt dl <=? 0); [apply spec_here; exact I|].
  pose proof (i_srr_spec c s 8 0 [] (tmo s rwt dl) Hc (nil_le_miu c Hc)) as Hx.
  destruct (i_srr c s 8 0 [] (tmo s rwt dl)) as [r s'].
  destruct r as [res|e|x|].
  - destruct (rfmt res =? 9); [eapply spec_err; [eapply spec_k; [|exact Hx]; lia | exact I]|].
    destruct (negb (rfmt res =? 8)); [eapply spec_err; [eapply spec_k; [|exact Hx]; lia | exact I]|].
    eapply spec_ok; exact Hx.
  - change (S n) with (1 + n)%nat. eapply after_err; [exact Hx | reflexivity | apply IH, Hc].
  - absurd_spec Hx.
  - absurd_spec Hx.
Qed.

Lemma i_retrans_spec n : forall c s pni rwt dl ch, cfg_ok c -> spec true n s (i_retrans n c s pni rwt dl ch).
Proof.
  induction n as [|n IH]; intros c s pni rwt dl ch Hc; cbn [i_retrans]; [apply spec_here; exact I|].
  destruct (tmo s rwt dl <=? 0); [apply spec_here; exact I|].
  pose proof (i_srr_spec c s 5 pni [] (tmo s rwt dl) Hc (nil_le_miu c Hc)) as Hx.
  destruct (i_srr c s 5 pni [] (tmo s rwt dl)) as [r s'].
  destruct r as [res|e|x|].
  - destruct (rfmt res =? 9); [eapply spec_err; [eapply spec_k; [|exact Hx]; lia | exact I]|].
    destruct ((rfmt res =? 0) || (rfmt res =? 1) || (ch && (rfmt res =? 4))).
    + eapply spec_k; [|exact Hx]. lia.
    + eapply spec_err; [eapply spec_k; [|exact Hx]; lia | exact I].
  - change (S n) with (1 + n)%nat. eapply after_err; [exact Hx | reflexivity | apply IH, Hc].
  - absurd_spec Hx.
  - absurd_spec Hx.
Qed.

Lemma i_sdr_loop_spec fuel : forall c s spni fmt pni data rwt dl, cfg_ok c -> len data <= cmiu c -> (A s < fuel)%nat ->
  spec true 3 s (i_sdr_loop fuel c s spni fmt pni data rwt dl).
Proof.
  induction fuel as [|f IH]; intros c s spni fmt pni data rwt dl Hc Hd Hf; [lia|]. cbn [i_sdr_loop].
  destruct (tmo s rwt dl <=? 0); [apply spec_here; exact I|].
  pose proof (i_srr_spec c s fmt pni data (tmo s rwt dl) Hc Hd) as Hx.
  destruct (i_srr c s fmt pni data (tmo s rwt dl)) as [r s1].
  destruct r as [res|e|x|]; [eapply spec_k; [|exact Hx]; lia | | absurd_spec Hx | absurd_spec Hx].
  assert (Hs1 : (A s1 <= A s)%nat) by (destruct Hx as (_ & H & _); exact H).
  destruct e; try (eapply spec_k; [|exact Hx]; lia).
  - (* TransmissionError: retransmission request *)
    change 3%nat with (1 + 2)%nat. eapply after_err; [exact Hx | reflexivity | apply i_retrans_spec, Hc].
  - (* TimeoutError: attention, then once more *)
    pose proof (i_attention_spec 2 c s1 rwt dl Hc) as Ha. destruct (i_attention 2 c s1 rwt dl) as [a s2].
    destruct a as [u|e|x|]; [| | absurd_spec Ha | absurd_spec Ha].
    + assert (Hl : (A s2 < A s1)%nat) by (destruct Ha as (_ & _ & H & _); apply H; reflexivity).
      eapply after_err_live; [exact Hx | reflexivity | lia |].
      eapply after_ok; [exact Ha | reflexivity | apply IH; [exact Hc | exact Hd | lia]].
    + eapply spec_err; [|destruct Ha as (G & _); exact G].
      change 3%nat with (1 + 2)%nat. eapply after_err; [exact Hx | reflexivity | exact Ha].
Qed.

Lemma i_sdr_spec fuel c s spni fmt pni data rwt timeout : cfg_ok c -> len data <= cmiu c -> (A s < fuel)%nat ->
  spec true 3 s (i_sdr fuel c s spni fmt pni data rwt timeout).
Proof.
  intros Hc Hd Hf. unfold i_sdr. pose proof (i_sdr_loop_spec fuel c s spni fmt pni data rwt (now s + timeout) Hc Hd Hf) as H.
  destruct (i_sdr_loop fuel c s spni fmt pni data rwt (now s + timeout)) as [r s'].
  destruct r as [res| | |]; try exact H. destruct (rfmt res =? 5); [eapply spec_err; [exact H | exact I] | exact H].
Qed.

Lemma one_le_miu c : cfg_ok c -> len [0] <= cmiu c.
Proof. intros [H _]. change (len [0]) with 1. lia. Qed.

Lemma i_rtox_rounds_spec k : forall fuel c s spni res0 timeout, cfg_ok c -> corig c = false -> (A s < fuel)%nat ->
  spec true 3 s (i_rtox_rounds k fuel c s spni res0 timeout).
Proof.
  induction k as [|k IH]; intros fuel c s spni res0 timeout Hc Ho Hf; cbn [i_rtox_rounds]; [apply spec_here; exact I|].
  unfold rtox_of. rewrite Ho. destruct (rtox_total (rdata res0)) as [(v & -> & _) | ->]; [|apply spec_here; exact I].
  pose proof (i_sdr_spec fuel c s spni 9 0 [v] (v * crwt c) timeout Hc ltac:(destruct Hc; change (len [v]) with 1; lia) Hf) as H.
  destruct (i_sdr fuel c s spni 9 0 [v] (v * crwt c) timeout) as [r s'].
  destruct r as [res1| | |]; try exact H.
  destruct (rfmt res1 =? 9); [|exact H].
  assert (Hl : (A s' < A s)%nat) by (destruct H as (_ & _ & G & _); apply G; reflexivity).
  eapply after_ok; [exact H | reflexivity | apply IH; [exact Hc | exact Ho | lia]].
Qed.

Lemma i_after_rtox_spec fuel c s spni res0 timeout : cfg_ok c -> corig c = false -> (A s < fuel)%nat ->
  spec false 3 s (i_after_rtox fuel c s spni res0 timeout).
Proof.
  intros Hc Ho Hf. unfold i_after_rtox. destruct (rfmt res0 =? 9); [|apply spec_ret].
  eapply spec_weaken; [|apply i_rtox_rounds_spec; assumption]. lia.
Qed.

Lemma len_take_le (n : Z) (l : list Z) : 0 < n -> len (take n l) <= n.
Proof. intro H. unfold take, len. rewrite firstn_length. lia. Qed.

(* one information / acknowledge step: send_dep_req_recv_dep_res followed by the RTOX rounds *)
Lemma i_step_spec fuel c s spni fmt pni data timeout : cfg_ok c -> corig c = false -> len data <= cmiu c -> (A s < fuel)%nat ->
  forall r1 s1, i_sdr fuel c s spni fmt pni data (crwt c) timeout = (r1, s1) ->
  match r1 with
  | Ok res1 => spec true 3 s (i_after_rtox fuel c s1 spni res1 timeout) /\ (A s1 < A s)%nat
  | _ => spec true 3 s (r1, s1)
  end.
Proof.
  intros Hc Ho Hd Hf r1 s1 E. pose proof (i_sdr_spec fuel c s spni fmt pni data (crwt c) timeout Hc Hd Hf) as H. rewrite E in H.
  destruct r1 as [res1| | |]; try exact H.
  assert (Hl : (A s1 < A s)%nat) by (destruct H as (_ & _ & G & _); apply G; reflexivity).
  split; [|exact Hl]. eapply after_ok; [exact H | reflexivity | apply i_after_rtox_spec; [exact Hc | exact Ho | lia]].
Qed.

Lemma i_send_loop_spec fuel' : forall fuel c s pni data timeout, cfg_ok c -> corig c = false -> (A s < fuel')%nat -> (A s < fuel)%nat ->
  spec true 3 s (i_send_loop fuel' fuel c s pni data timeout).
Proof.
  induction fuel' as [|f IH]; intros fuel c s pni data timeout Hc Ho Hf' Hf; [lia|]. cbn [i_send_loop].
  set (more := nonempty (drop (cmiu c) data)).
  pose proof (i_step_spec fuel c s pni (if more then 1 else 0) pni (take (cmiu c) data) timeout Hc Ho
                (len_take_le _ _ (proj1 Hc)) Hf) as Hs.
  destruct (i_sdr fuel c s pni (if more then 1 else 0) pni (take (cmiu c) data) (crwt c) timeout) as [r1 s1].
  specialize (Hs r1 s1 eq_refl). destruct r1 as [res1|e|x|]; [| exact Hs | absurd_spec Hs | absurd_spec Hs].
  destruct Hs as [Hs Hl]. destruct (i_after_rtox fuel c s1 pni res1 timeout) as [r2 s2].
  destruct r2 as [res2|e|x|]; [| exact Hs | absurd_spec Hs | absurd_spec Hs].
  destruct ((rfmt res2 =? 4) && negb more); [eapply spec_err; [exact Hs | exact I]|].
  destruct (negb (rpni res2 =? pni)); [eapply spec_err; [exact Hs | exact I]|].
  destruct more; [|eapply spec_ok; exact Hs].
  assert (Hl3 : (A s2 < A s)%nat) by (destruct Hs as (_ & _ & G & _); apply G; reflexivity).
  eapply after_ok; [exact Hs | reflexivity | apply IH; [exact Hc | exact Ho | lia | lia]].
Qed.

Lemma i_recv_loop_spec fuel' : forall fuel c s pni res0 acc timeout, cfg_ok c -> corig c = false -> (A s < fuel')%nat -> (A s < fuel)%nat ->
  spec false 3 s (i_recv_loop fuel' fuel c s pni res0 acc timeout).
Proof.
  induction fuel' as [|f IH]; intros fuel c s pni res0 acc timeout Hc Ho Hf' Hf; [lia|]. cbn [i_recv_loop].
  destruct (negb (rfmt res0 =? 1)); [apply spec_ret|].
  pose proof (i_step_spec fuel c s pni 4 pni [] timeout Hc Ho (nil_le_miu c Hc) Hf) as Hs.
  destruct (i_sdr fuel c s pni 4 pni [] (crwt c) timeout) as [r1 s1].
  specialize (Hs r1 s1 eq_refl).
  destruct r1 as [res1|e|x|]; [| eapply spec_weaken; [|exact Hs]; lia | absurd_spec Hs | absurd_spec Hs].
  destruct Hs as [Hs Hl]. destruct (i_after_rtox fuel c s1 pni res1 timeout) as [r2 s2].
  destruct r2 as [res2|e|x|]; [| eapply spec_weaken; [|exact Hs]; lia | absurd_spec Hs | absurd_spec Hs].
  destruct (negb ((rfmt res2 =? 0) || (rfmt res2 =? 1))); [eapply spec_err; [exact Hs | exact I]|].
  destruct (negb (rpni res2 =? pni)); [eapply spec_err; [exact Hs | exact I]|].
  assert (Hl3 : (A s2 < A s)%nat) by (destruct Hs as (_ & _ & G & _); apply G; reflexivity).
  eapply spec_weaken; [|eapply after_ok; [exact Hs | reflexivity | apply IH; [exact Hc | exact Ho | lia | lia]]]. lia.
Qed.

Lemma i_exchange_spec fuel c s pni payload timeout : cfg_ok c -> corig c = false -> payload <> [] -> (A s < fuel)%nat ->
  spec false 3 s (i_exchange fuel c s pni payload timeout).
Proof.
  intros Hc Ho Hp Hf. unfold i_exchange. destruct payload as [|b t]; [contradiction|].
  pose proof (i_send_loop_spec fuel fuel c s pni (b :: t) timeout Hc Ho Hf Hf) as H.
  destruct (i_send_loop fuel fuel c s pni (b :: t) timeout) as [r s1].
  destruct r as [[res1 pni1]|e|x|]; [| eapply spec_weaken; [|exact H]; lia | absurd_spec H | absurd_spec H].
  destruct (negb ((rfmt res1 =? 0) || (rfmt res1 =? 1))); [eapply spec_err; [exact H | exact I]|].
  assert (Hl : (A s1 < A s)%nat) by (destruct H as (_ & _ & G & _); apply G; reflexivity).
  eapply spec_weaken; [|eapply after_ok; [exact H | reflexivity | apply i_recv_loop_spec; [exact Hc | exact Ho | lia | lia]]]. lia.
Qed.

(* Initiator.exchange against an arbitrary peer *)
Theorem dep_initiator_exchange_total fuel c s pni payload timeout :
  cfg_ok c -> corig c = false -> payload <> [] -> (length (ans s) < fuel)%nat ->
  let r := fst (i_exchange fuel c s pni payload timeout) in
  let s' := snd (i_exchange fuel c s pni payload timeout) in
  ((exists data pni', r = Ok (data, pni')) \/ r = Err TimeoutError \/ r = Err TransmissionError \/ r = Err ProtocolError) /\
  (length (sent s') <= length (sent s) + length (ans s) + 3)%nat /\ (length (ans s') <= length (ans s))%nat.
Proof.
  intros Hc Ho Hp Hf. destruct (i_exchange_spec fuel c s pni payload timeout Hc Ho Hp Hf) as (H1 & H2 & _ & H4).
  cbv zeta. destruct (i_exchange fuel c s pni payload timeout) as [r s']. cbn [fst snd] in *. unfold A, Sn in *.
  split; [|split; [|exact H2]].
  - destruct r as [[d p]|e|x|]; cbn [good] in H1; try contradiction; [left; eauto|].
    destruct e; try contradiction; auto.
  - destruct (okb r); destruct (Nat.eqb_spec (length (ans s')) 0); lia.
Qed.

(* ================================================================ Target *)
Definition is_req (p : dpdu) : bool :=
  match p with
  | AtrReq _ _ _ _ _ _ | PslReq _ _ _ => true
  | DepPdu r _ _ _ _ _ _ _ | DslPdu r _ | RlsPdu r _ => r
  | _ => false
  end.

Lemma bind_some_inv {X} (r : res X) (f : X -> res (option dpdu)) p : bind r f = Ok (Some p) -> exists x, r = Ok x /\ f x = Ok (Some p).
Proof. destruct r; cbn [bind]; try discriminate. eauto. Qed.

Lemma decode_body_tgt_req f p : decode_body false Tgt f = Ok (Some p) -> is_req p = true.
Proof.
  unfold decode_body. destruct (len f <? 2); [discriminate|].
  destruct (idx f 0) as [c0| | |]; cbn [bind]; try discriminate. destruct (idx f 1) as [c1| | |]; cbn [bind]; try discriminate.
  destruct (negb (c0 =? 212) || _); [discriminate|].
  destruct (c1 =? 0).
  { unfold dec_atr_req. destruct (negb _); [discriminate|]. destruct (len f <? 16); [discriminate|].
    destruct (slice f 12 16) as [|a [|b [|c [|e [|g l]]]]]; try discriminate. intro H. inversion H. reflexivity. }
  destruct (c1 =? 4).
  { unfold dec_psl_req. destruct (negb _); [discriminate|]. destruct (drop 2 f) as [|a [|b [|c [|e l]]]]; try discriminate.
    intro H. inversion H. reflexivity. }
  destruct (c1 =? 6).
  { unfold dec_dep. destruct (negb _); [discriminate|]. destruct (drop 2 f) as [|q r]; [discriminate|].
    intro H. apply bind_some_inv in H. destruct H as (x1 & _ & H). apply bind_some_inv in H. destruct H as (x2 & _ & H).
    inversion H. reflexivity. }
  destruct (c1 =? 8).
  { unfold dec_dsl. destruct (negb _); [discriminate|]. destruct (3 <? len f); [discriminate|].
    intro H. apply bind_some_inv in H. destruct H as (x & _ & H). inversion H. reflexivity. }
  unfold dec_dsl. destruct (negb _); [discriminate|]. destruct (3 <? len f); [discriminate|].
  intro H. apply bind_some_inv in H. destruct H as (x & _ & H). inversion H. reflexivity.
Qed.

Lemma decode_tgt_req b f p : decode_frame Tgt b f = Ok (Some p) -> is_req p = true.
Proof.
  unfold decode_frame. intro H. apply bind_some_inv in H. destruct H as (f1 & _ & H).
  destruct f1 as [|l t]; [discriminate|]. destruct (negb (len (l :: t) =? l)); [discriminate|].
  eapply decode_body_tgt_req, H.
Qed.

Lemma t_decode_good c rsp s' : exists r, t_decode c rsp s' = (r, s') /\ good r.
Proof.
  unfold t_decode. destruct rsp as [|x t]; [eexists; split; [reflexivity | exact I]|].
  destruct (dep_decode_total Tgt (c106 c) (x :: t)) as [[p Hp] | [-> | ->]]; try (eexists; split; [reflexivity | exact I]).
  rewrite Hp. apply decode_tgt_req in Hp.
  destruct p; try destruct req; cbn [is_req] in Hp; try discriminate; eexists; split; try reflexivity; exact I.
Qed.

(* a piece that accounts exactly for what it consumed, followed by another piece *)
Lemma after_exact {U} b k s s1 (p2 : M U) :
  (A s1 <= A s)%nat -> (Sn s1 + A s1 <= Sn s + A s)%nat -> spec b k s1 p2 -> spec b k s p2.
Proof.
  intros H2 H4 (G1 & G2 & G3 & G4).
  split; [exact G1|]. split; [lia|]. split; [intros Hb Hq; specialize (G3 Hb Hq); lia|].
  destruct (okb (fst p2)); destruct (Nat.eqb_spec (A (snd p2)) 0); lia.
Qed.
Lemma after_ok_any {T U} b k1 k2 s (r1 : res T) s1 (p2 : M U) :
  spec b k1 s (r1, s1) -> okb r1 = true -> spec true k2 s1 p2 -> spec b k2 s p2.
Proof.
  intros (_ & H2 & _ & H4) Ho (G1 & G2 & G3 & G4). cbn [fst snd] in *. rewrite Ho in H4.
  split; [exact G1|]. split; [lia|]. split; [intros _ Hq; specialize (G3 eq_refl Hq); lia|].
  destruct (okb (fst p2)); destruct (Nat.eqb_spec (A (snd p2)) 0); lia.
Qed.

Lemma xchg_corrupt c s fr t s' : xchg c s fr t = (Err TransmissionError, s') ->
  (A s' < A s)%nat /\ (Sn s' + A s' <= Sn s + A s)%nat.
Proof.
  unfold xchg, A, Sn. destruct s as [n a snt]. cbn [ans sent now].
  destruct a as [|[|d|f] r]; try destruct ((0 <? d) && (d <=? t)); intro H; inversion H; subst.
  cbn [ans sent length]. rewrite app_length. cbn [length]. lia.
Qed.

Lemma t_listen_spec fuel : forall c s fr dl, (A s < fuel)%nat -> spec true 1 s (t_listen fuel c s fr dl).
Proof.
  induction fuel as [|f IH]; intros c s fr dl Hf; [lia|]. cbn [t_listen].
  set (t := if now s <? dl then dl - now s else 0).
  pose proof (xchg_spec c s fr t) as Hx. destruct (xchg c s fr t) as [r s'] eqn:E.
  destruct r as [rsp|e|x|]; [| | absurd_spec Hx | absurd_spec Hx].
  - destruct (t_decode_good c rsp s') as (r' & -> & Hg).
    destruct r' as [o|e|x|]; [eapply spec_ok; exact Hx | eapply spec_err; [exact Hx | exact Hg] | contradiction | contradiction].
  - destruct e; try exact Hx.
    destruct (xchg_corrupt _ _ _ _ _ E) as [H1 H2]. apply (after_exact true 1 s s'); [lia | exact H2 | apply IH; lia].
Qed.

Definition res_ok (c : cfg) (r : option (Z * Z * list Z)) : Prop :=
  match r with Some (_, _, d) => len d <= cmiu c | None => True end.

Lemma t_send_spec fuel c s res dl : cfg_ok c -> res_ok c res -> (A s < fuel)%nat -> spec true 1 s (t_send fuel c s None res dl).
Proof.
  intros Hc Hr Hf. unfold t_send. destruct res as [[[fmt pni] data]|]; [|apply t_listen_spec, Hf].
  destruct (enc_ok false c fmt pni data Hc Hr) as [fr ->]. apply t_listen_spec, Hf.
Qed.
Lemma t_send_inj_spec fuel c s cmd res dl : spec false 1 s (t_send fuel c s (Some cmd) res dl).
Proof.
  unfold t_send. destruct (t_decode_good c cmd s) as (r & -> & Hg).
  destruct r as [o|e|x|]; [apply spec_ret | apply spec_here; exact Hg | contradiction | contradiction].
Qed.

(* what send_dep_res_recv_dep_req does with the outcome of send_res_recv_req, given the rest of its loop *)
Lemma t_sdr_cont b f fuel c s r s' spni dep_res dl :
  cfg_ok c -> res_ok c dep_res -> spec b 1 s (r, s') -> (A s' < fuel)%nat ->
  (forall res', res_ok c res' -> spec true 1 s' (t_sdr f fuel c s' None spni dep_res res' dl)) ->
  spec b 1 s
    (match r with
     | Ok None => (Ok None, s')
     | Ok (Some q) =>
         if negb (oeqb (treq_did q) (cdid c)) then t_sdr f fuel c s' None spni dep_res None dl
         else match q with
              | TDsl _ => let (r2, s2) := t_listen fuel c s' (Some (enc_rel c false)) 0 in
                          match r2 with Ok _ => (Ok None, s2) | Err e => (Err e, s2) | Crash x => (Crash x, s2) | Hang => (Hang, s2) end
              | TRls _ => let (r2, s2) := t_listen fuel c s' (Some (enc_rel c true)) 0 in
                          match r2 with Ok _ => (Ok None, s2) | Err e => (Err e, s2) | Crash x => (Crash x, s2) | Hang => (Hang, s2) end
              | TDep d =>
                  if rfmt d =? 8 then t_sdr f fuel c s' None spni dep_res (Some (8, 0, [])) dl
                  else if rfmt d =? 5 then t_sdr f fuel c s' None spni dep_res dep_res dl
                  else if rfmt d =? 9 then
                    (match dep_res with
                     | Some (9, _, _) => (Ok (Some d), s')
                     | _ => t_sdr f fuel c s' None spni dep_res dep_res dl
                     end)
                  else if oeqb (Some (rpni d)) spni then t_sdr f fuel c s' None spni dep_res dep_res dl
                  else (Ok (Some d), s')
              | TOther _ => t_sdr f fuel c s' None spni dep_res None dl
              end
     | Err e => (Err e, s') | Crash x => (Crash x, s') | Hang => (Hang, s')
     end).
Proof.
  intros Hc Hr Hs Hf Hrec.
  assert (Hatn : res_ok c (Some (8, 0, []))) by (cbn; apply nil_le_miu, Hc).
  destruct r as [[q|]|e|x|]; try exact Hs.
  assert (Hgo : forall res', res_ok c res' -> spec b 1 s (t_sdr f fuel c s' None spni dep_res res' dl)).
  { intros res' H'. eapply after_ok_any; [exact Hs | reflexivity | apply Hrec, H']. }
  assert (Hrel : forall rls, spec b 1 s
            (let (r2, s2) := t_listen fuel c s' (Some (enc_rel c rls)) 0 in
             match r2 with Ok _ => (@Ok (option dpd) None, s2) | Err e => (Err e, s2) | Crash x => (Crash x, s2) | Hang => (Hang, s2) end)).
  { intro rls. pose proof (t_listen_spec fuel c s' (Some (enc_rel c rls)) 0 Hf) as Hl.
    destruct (t_listen fuel c s' (Some (enc_rel c rls)) 0) as [r2 s2].
    eapply after_ok_any; [exact Hs | reflexivity |].
    destruct r2 as [o|e|x|]; [eapply spec_ok; exact Hl | exact Hl | absurd_spec Hl | absurd_spec Hl]. }
  destruct (negb (oeqb (treq_did q) (cdid c))); [apply Hgo; exact I|].
  destruct q as [d|dd|dd|dd].
  - destruct (rfmt d =? 8); [apply Hgo, Hatn|]. destruct (rfmt d =? 5); [apply Hgo, Hr|].
    destruct (rfmt d =? 9).
    + destruct dep_res as [[[fm pn] dt]|]; [|apply Hgo; exact I].
      destruct (fm =? 9) eqn:E9.
      * apply Z.eqb_eq in E9. subst fm. eapply spec_ok; exact Hs.
      * assert (X : match fm with 9 => (@Ok (option dpd) (Some d), s') | _ => t_sdr f fuel c s' None spni (Some (fm, pn, dt)) (Some (fm, pn, dt)) dl end
                    = t_sdr f fuel c s' None spni (Some (fm, pn, dt)) (Some (fm, pn, dt)) dl).
        { destruct fm as [|q|q]; try reflexivity. repeat (destruct q as [q|q|]; try reflexivity). discriminate. }
        rewrite X. apply Hgo, Hr.
    + destruct (oeqb (Some (rpni d)) spni); [apply Hgo, Hr | eapply spec_ok; exact Hs].
  - apply (Hrel false).
  - apply (Hrel true).
  - apply Hgo. exact I.
Qed.

Lemma t_sdr_spec fuel' : forall fuel c s spni dep_res res dl, cfg_ok c -> res_ok c dep_res -> res_ok c res ->
  (A s < fuel')%nat -> (A s < fuel)%nat -> spec true 1 s (t_sdr fuel' fuel c s None spni dep_res res dl).
Proof.
  induction fuel' as [|f IH]; intros fuel c s spni dep_res res dl Hc Hd Hr Hf' Hf; [lia|]. cbn [t_sdr].
  pose proof (t_send_spec fuel c s res dl Hc Hr Hf) as Hs. destruct (t_send fuel c s None res dl) as [r s'].
  assert (Hle : (A s' <= A s)%nat) by (destruct Hs as (_ & G & _); exact G).
  destruct r as [o|e|x|]; [| exact Hs | absurd_spec Hs | absurd_spec Hs].
  assert (Hlt : (A s' < A s)%nat) by (destruct Hs as (_ & _ & G & _); apply G; reflexivity).
  apply (t_sdr_cont true f fuel c s (Ok o) s' spni dep_res dl Hc Hd Hs); [lia|].
  intros res' H'. apply IH; try assumption; lia.
Qed.

Lemma t_sdr_inj_spec fuel' fuel c s cmd spni dep_res res dl : cfg_ok c -> res_ok c dep_res ->
  (A s + 1 < fuel')%nat -> (A s < fuel)%nat -> spec false 1 s (t_sdr fuel' fuel c s (Some cmd) spni dep_res res dl).
Proof.
  intros Hc Hd Hf' Hf. destruct fuel' as [|f]; [lia|]. cbn [t_sdr].
  pose proof (t_send_inj_spec fuel c s cmd res dl) as Hs. destruct (t_send fuel c s (Some cmd) res dl) as [r s'].
  assert (Hle : (A s' <= A s)%nat) by (destruct Hs as (_ & G & _); exact G).
  destruct r as [o|e|x|]; [| exact Hs | absurd_spec Hs | absurd_spec Hs].
  apply (t_sdr_cont false f fuel c s (Ok o) s' spni dep_res dl Hc Hd Hs); [lia|].
  intros res' H'. apply t_sdr_spec; try assumption; lia.
Qed.

Lemma t_send_loop_spec fuel' : forall fuel c s pni data dl, cfg_ok c -> (A s < fuel')%nat -> (A s < fuel)%nat ->
  spec true 1 s (t_send_loop fuel' fuel c s pni data dl).
Proof.
  induction fuel' as [|f IH]; intros fuel c s pni data dl Hc Hf' Hf; [lia|]. cbn [t_send_loop].
  set (res := Some ((if cmiu c <? len data then 1 else 0), pni, take (cmiu c) data)).
  assert (Hr : res_ok c res) by (cbn; apply len_take_le, Hc).
  pose proof (t_sdr_spec fuel fuel c s (Some pni) res res dl Hc Hr Hr Hf Hf) as Hs.
  destruct (t_sdr fuel fuel c s None (Some pni) res res dl) as [r s1].
  destruct r as [[req|]|e|x|]; [| eapply spec_ok; exact Hs | exact Hs | absurd_spec Hs | absurd_spec Hs].
  assert (Hlt : (A s1 < A s)%nat) by (destruct Hs as (_ & _ & G & _); apply G; reflexivity).
  destruct ((cmiu c <? len data) && negb (rfmt req =? 4)); [eapply spec_err; [exact Hs | exact I]|].
  destruct (negb (rpni req =? Z.land (pni + 1) 3)); [eapply spec_err; [exact Hs | exact I]|].
  destruct (nonempty (drop (cmiu c) data)); [|eapply spec_ok; exact Hs].
  eapply after_ok; [exact Hs | reflexivity | apply IH; [exact Hc | lia | lia]].
Qed.

Lemma t_recv_loop_spec fuel' : forall fuel c s pni req acc dl, cfg_ok c -> (A s < fuel')%nat -> (A s < fuel)%nat ->
  spec false 1 s (t_recv_loop fuel' fuel c s pni req acc dl).
Proof.
  induction fuel' as [|f IH]; intros fuel c s pni req acc dl Hc Hf' Hf; [lia|]. cbn [t_recv_loop].
  destruct (negb (rfmt req =? 1)); [apply spec_ret|].
  assert (Hr : res_ok c (Some (4, pni, []))) by (cbn; apply nil_le_miu, Hc).
  pose proof (t_sdr_spec fuel fuel c s (Some pni) _ _ dl Hc Hr Hr Hf Hf) as Hs.
  destruct (t_sdr fuel fuel c s None (Some pni) (Some (4, pni, [])) (Some (4, pni, [])) dl) as [r s1].
  destruct r as [[req1|]|e|x|]; [| apply (spec_weaken true 1 1); [lia | eapply spec_ok; exact Hs] | eapply spec_weaken; [|exact Hs]; lia
                                | absurd_spec Hs | absurd_spec Hs].
  assert (Hlt : (A s1 < A s)%nat) by (destruct Hs as (_ & _ & G & _); apply G; reflexivity).
  destruct (negb (rpni req1 =? Z.land (pni + 1) 3)); [eapply spec_err; [exact Hs | exact I]|].
  eapply spec_weaken; [|eapply after_ok; [exact Hs | reflexivity | apply IH; [exact Hc | lia | lia]]]. lia.
Qed.

Lemma t_exchange_spec fuel c s spni first payload timeout : cfg_ok c ->
  (first <> None \/ (payload <> [] /\ spni <> None)) -> (A s + 1 < fuel)%nat ->
  spec false 1 s (t_exchange fuel c s spni first payload timeout).
Proof.
  intros Hc Hp Hf. unfold t_exchange. destruct first as [cmd|].
  - pose proof (t_sdr_inj_spec fuel fuel c s cmd spni None None (now s + timeout) Hc I Hf ltac:(lia)) as Hs.
    destruct (t_sdr fuel fuel c s (Some cmd) spni None None (now s + timeout)) as [r s1].
    assert (Hle : (A s1 <= A s)%nat) by (destruct Hs as (_ & G & _); exact G).
    destruct r as [[req|]|e|x|]; [| eapply spec_ok; exact Hs | exact Hs | absurd_spec Hs | absurd_spec Hs].
    eapply after_ok'; [exact Hs | reflexivity | apply t_recv_loop_spec; [exact Hc | lia | lia]].
  - destruct Hp as [Hp | [Hp Hq]]; [contradiction|]. destruct payload as [|b t]; [contradiction|]. destruct spni as [pni|]; [|contradiction].
    pose proof (t_send_loop_spec fuel fuel c s pni (b :: t) (now s + timeout) Hc ltac:(lia) ltac:(lia)) as Hs.
    destruct (t_send_loop fuel fuel c s pni (b :: t) (now s + timeout)) as [r s1].
    destruct r as [[[req pni1]|]|e|x|]; [| apply (spec_weaken true 1 1); [lia | eapply spec_ok; exact Hs] | eapply spec_weaken; [|exact Hs]; lia
                                        | absurd_spec Hs | absurd_spec Hs].
    assert (Hlt : (A s1 < A s)%nat) by (destruct Hs as (_ & _ & G & _); apply G; reflexivity).
    eapply spec_weaken; [|eapply after_ok; [exact Hs | reflexivity | apply t_recv_loop_spec; [exact Hc | lia | lia]]]. lia.
Qed.

(* Target.exchange against an arbitrary peer: `first` is the command injected by activate (first call, send_data None),
   otherwise the payload is not empty and self.pni has been set by the first call *)
Theorem dep_target_exchange_total fuel c s spni first payload timeout :
  cfg_ok c -> (first <> None \/ (payload <> [] /\ spni <> None)) -> (length (ans s) + 1 < fuel)%nat ->
  let r := fst (t_exchange fuel c s spni first payload timeout) in
  let s' := snd (t_exchange fuel c s spni first payload timeout) in
  ((exists data pni', r = Ok (Some (data, pni'))) \/ r = Ok None \/
   r = Err TimeoutError \/ r = Err TransmissionError \/ r = Err ProtocolError) /\
  (length (sent s') <= length (sent s) + length (ans s) + 1)%nat /\ (length (ans s') <= length (ans s))%nat.
Proof.
  intros Hc Hp Hf. destruct (t_exchange_spec fuel c s spni first payload timeout Hc Hp Hf) as (H1 & H2 & _ & H4).
  cbv zeta. destruct (t_exchange fuel c s spni first payload timeout) as [r s']. cbn [fst snd] in *. unfold A, Sn in *.
  split; [|split; [|exact H2]].
  - destruct r as [[[d p]|]|e|x|]; cbn [good] in H1; try contradiction; [left; eauto | right; left; reflexivity|].
    destruct e; try contradiction; auto.
  - destruct (okb r); destruct (Nat.eqb_spec (length (ans s')) 0); lia.
Qed.

(* ================================================================ the code as it was *)
(* RTOX without value in reply to the ACK of a chained response (the seeded regression C07-2 and, as first response, the
   defect repaired by c07-3): IndexError leaves Initiator.exchange *)
Definition ex_cfg (orig : bool) : cfg := mkcfg false None None 128 8 1 orig.
Definition ex_answers : list answer := [AFrame [6; 213; 7; 16; 0; 0]; AFrame [4; 213; 7; 144]].
Lemma orig_rtox_in_chaining : fst (i_exchange 8 (ex_cfg true) (mkst 0 ex_answers []) 0 [0; 0] 1024) = Crash IndexErr.
Proof. vm_compute. reflexivity. Qed.
Lemma fixed_rtox_in_chaining : fst (i_exchange 8 (ex_cfg false) (mkst 0 ex_answers []) 0 [0; 0] 1024) = Err ProtocolError.
Proof. vm_compute. reflexivity. Qed.
Lemma ex_cfg_ok o : cfg_ok (ex_cfg o).
Proof. split; cbn; lia. Qed.

(* ================================================================ the listen loop holds its deadline *)
(* Target.send_res_recv_req listens again after a TransmissionError, each time for what is LEFT until the deadline.  Against
   a peer that keeps sending corrupted frames - an arbitrarily long script, each frame needing at least eps > 0 time units -
   the loop therefore ends: the number of calls depends on the time left and eps only, never on the length of the script. *)
Definition slow (eps : Z) (a : answer) : Prop := match a with ACorrupt d => eps <= d | _ => True end.
Definition jam (eps : Z) (a : answer) : Prop := exists d, a = ACorrupt d /\ eps <= d.
Definition budget (eps rem : Z) : nat := Z.to_nat (Z.max 0 rem / eps).

Lemma budget_step eps rem d : 0 < eps -> eps <= d -> d <= rem -> (budget eps (rem - d) + 1 <= budget eps rem)%nat.
Proof.
  intros He Hd Hr. unfold budget. rewrite !Z.max_r by lia.
  assert (H1 : (rem - d) / eps <= (rem - eps) / eps) by (apply Z.div_le_mono; lia).
  assert (H2 : (rem - eps) / eps = rem / eps - 1).
  { replace (rem - eps) with (rem + (-1) * eps) by lia. rewrite Z.div_add by lia. lia. }
  assert (H3 : 0 <= (rem - d) / eps) by (apply Z.div_pos; lia).
  lia.
Qed.

Lemma jam_slow eps l : Forall (jam eps) l -> Forall (slow eps) l.
Proof. apply Forall_impl. intros a (d & -> & H). exact H. Qed.

Theorem t_listen_deadline fuel : forall c s frame dl eps,
  0 < eps -> 0 <= ctick c -> Forall (slow eps) (ans s) -> (budget eps (dl - now s) < fuel)%nat ->
  let r := fst (t_listen fuel c s frame dl) in
  let s' := snd (t_listen fuel c s frame dl) in
  good r /\ now s' <= Z.max (now s) dl + 2 * ctick c /\ (Sn s' <= Sn s + budget eps (dl - now s) + 1)%nat /\
  (Forall (jam eps) (ans s) -> r = Err TimeoutError).
Proof.
  induction fuel as [|f IH]; intros c s frame dl eps He Ht Hs Hf; [lia|]. cbv zeta. cbn [t_listen].
  set (t := if now s <? dl then dl - now s else 0).
  assert (Et : t = Z.max 0 (dl - now s)) by (unfold t; destruct (now s <? dl) eqn:E; lia).
  unfold xchg. destruct s as [n a snt]. cbn [ans sent now] in *.
  assert (Hsil : forall r, let s' := mkst (n + ctick c + Z.max t (ctick c)) r (snt ++ [(frame, t)]) in
            good (@Err (option treq) TimeoutError) /\ now s' <= Z.max n dl + 2 * ctick c /\
            (Sn s' <= length snt + budget eps (dl - n) + 1)%nat).
  { intro r. cbn [now]. unfold Sn. cbn [sent]. rewrite app_length. cbn [length]. repeat split; try exact I; lia. }
  destruct a as [|[|d|fr] r].
  - destruct (Hsil []) as (G1 & G2 & G3). cbn [fst snd]. repeat split; assumption || reflexivity.
  - destruct (Hsil r) as (G1 & G2 & G3). cbn [fst snd]. repeat split; assumption || reflexivity.
  - destruct ((0 <? d) && (d <=? t)) eqn:E.
    + (* a corrupted frame inside the time left: listen again for the rest *)
      inversion Hs as [|? ? Hd Hr]; subst. cbn [slow] in Hd.
      assert (Hrem : dl - (n + d) = (dl - n) - d) by lia.
      specialize (IH c (mkst (n + d) r (snt ++ [(frame, t)])) None dl eps He Ht Hr).
      cbn [now ans] in IH. rewrite Hrem in IH.
      pose proof (budget_step eps (dl - n) d He Hd ltac:(lia)) as Hb.
      specialize (IH ltac:(lia)). cbv zeta in IH. destruct IH as (G1 & G2 & G3 & G4).
      destruct (t_listen f c _ None dl) as [r' s']. cbn [fst snd] in *. unfold Sn in *. cbn [sent] in *. rewrite app_length in G3. cbn [length] in G3.
      repeat split; [exact G1 | lia | lia |]. intro Hj. apply G4. inversion Hj; assumption.
    + destruct (Hsil r) as (G1 & G2 & G3). cbn [fst snd]. repeat split; assumption || reflexivity.
  - destruct (t_decode_good c fr (mkst (n + ctick c) r (snt ++ [(frame, t)]))) as (r' & -> & Hg). cbn [fst snd now].
    unfold Sn. cbn [sent]. rewrite app_length. cbn [length].
    repeat split; [exact Hg | lia | lia |]. intro Hj. inversion Hj as [|? ? (d & Hd & _) _]. discriminate.
Qed.

(* Target.exchange(send_data, timeout) against a peer that does nothing but send corrupted frames, however many: TimeoutError
   after at most the time-out (plus two clock ticks of the frontend), with a number of listens that depends on timeout / eps only *)
Theorem dep_target_jammed fuel c s pni payload timeout eps :
  cfg_ok c -> 0 < eps -> 0 <= ctick c -> payload <> [] -> Forall (jam eps) (ans s) -> (budget eps timeout < fuel)%nat ->
  let r := fst (t_exchange fuel c s (Some pni) None payload timeout) in
  let s' := snd (t_exchange fuel c s (Some pni) None payload timeout) in
  r = Err TimeoutError /\ now s' <= now s + Z.max 0 timeout + 2 * ctick c /\ (Sn s' <= Sn s + budget eps timeout + 1)%nat.
Proof.
  intros Hc He Ht Hp Hj Hf. cbv zeta. unfold t_exchange. destruct payload as [|b t]; [contradiction|].
  destruct fuel as [|f]; [lia|]. cbn [t_send_loop t_sdr]. unfold t_send.
  destruct (enc_ok false c (if cmiu c <? len (b :: t) then 1 else 0) pni (take (cmiu c) (b :: t)) Hc (len_take_le _ _ (proj1 Hc))) as [fr ->].
  pose proof (t_listen_deadline (S f) c s (Some fr) (now s + timeout) eps He Ht (jam_slow _ _ Hj)) as H.
  replace (now s + timeout - now s) with timeout in H by lia. specialize (H Hf). cbv zeta in H.
  destruct H as (_ & G2 & G3 & G4). specialize (G4 Hj).
  destruct (t_listen (S f) c s (Some fr) (now s + timeout)) as [r s']. cbn [fst snd] in *. subst r. cbn [fst snd].
  repeat split; [lia | exact G3].
Qed.

(* ================================================================ the release phase ends *)
Lemma budget_mono eps a b : 0 < eps -> a <= b -> (budget eps a <= budget eps b)%nat.
Proof. intros He H. unfold budget. apply Z2Nat.inj_le; try (apply Z.div_pos; lia). apply Z.div_le_mono; lia. Qed.

Lemma nresp_snoc n a snt fr t : nresp (mkst n a (snt ++ [(fr, t)])) = (nresp (mkst n a snt) + (if isome fr then 1 else 0))%nat.
Proof. unfold nresp. cbn [sent]. rewrite filter_app, app_length. cbn [filter fst]. destruct (isome fr); cbn [length]; lia. Qed.
Lemma nresp_now n n' a a' snt : nresp (mkst n a snt) = nresp (mkst n' a' snt).
Proof. reflexivity. Qed.

(* time only moves forward in a listen, a received frame costs a clock tick, at most the one response is sent, and the answers
   left are a remainder of the script *)
Lemma t_listen_mono fuel : forall c s fr dl, 0 <= ctick c ->
  let r := fst (t_listen fuel c s fr dl) in
  let s' := snd (t_listen fuel c s fr dl) in
  now s <= now s' /\ (okb r = true -> now s + ctick c <= now s') /\
  (nresp s' <= nresp s + (if isome fr then 1 else 0))%nat /\ (forall P, Forall P (ans s) -> Forall P (ans s')).
Proof.
  induction fuel as [|f IH]; intros c s fr dl Ht; cbv zeta; cbn [t_listen].
  - cbn [fst snd okb]. repeat split; try lia; try discriminate; auto.
  - set (t := if now s <? dl then dl - now s else 0). unfold xchg. destruct s as [n a snt]. cbn [ans sent now].
    assert (Hsil : forall r, let s' := mkst (n + ctick c + Z.max t (ctick c)) r (snt ++ [(fr, t)]) in
              n <= now s' /\ (nresp s' <= nresp (mkst n a snt) + (if isome fr then 1 else 0))%nat).
    { intro r. cbn [now]. rewrite nresp_snoc. rewrite (nresp_now _ n _ a). split; lia. }
    destruct a as [|[|d|g] r].
    + destruct (Hsil []) as (G1 & G2). cbn [fst snd okb]. repeat split; try assumption; try discriminate; auto.
    + destruct (Hsil r) as (G1 & G2). cbn [fst snd okb]. repeat split; try assumption; try discriminate.
      intros P H. inversion H; assumption.
    + destruct ((0 <? d) && (d <=? t)) eqn:E.
      * specialize (IH c (mkst (n + d) r (snt ++ [(fr, t)])) None dl Ht). cbv zeta in IH. destruct IH as (G1 & G2 & G3 & G4).
        destruct (t_listen f c _ None dl) as [r' s']. cbn [fst snd now ans] in *. rewrite nresp_snoc in G3. rewrite (nresp_now _ n _ (ACorrupt d :: r)) in G3.
        cbn [isome] in G3. repeat split; [lia | intro H; specialize (G2 H); lia | lia |]. intros P H. apply G4. inversion H; assumption.
      * destruct (Hsil r) as (G1 & G2). cbn [fst snd okb]. repeat split; try assumption; try discriminate.
        intros P H. inversion H; assumption.
    + destruct (t_decode_good c g (mkst (n + ctick c) r (snt ++ [(fr, t)]))) as (r' & -> & _). cbn [fst snd now ans].
      rewrite nresp_snoc. rewrite (nresp_now _ n _ (AFrame g :: r)). repeat split; try lia. intros P H. inversion H; assumption.
Qed.

Lemma t_send_frame fuel c s res dl : cfg_ok c -> res_ok c res ->
  exists fr, t_send fuel c s None res dl = t_listen fuel c s fr dl.
Proof.
  intros Hc Hr. unfold t_send. destruct res as [[[fmt pni] data]|]; [|eexists; reflexivity].
  destruct (enc_ok false c fmt pni data Hc Hr) as [fr ->]. eexists. reflexivity.
Qed.

Lemma t_deact_loop_spec fuel' : forall fuel c s res data dl eps,
  cfg_ok c -> len data <= cmiu c -> res_ok c res -> 0 < eps -> 0 < ctick c -> 0 <= now s -> Forall (slow eps) (ans s) ->
  (now s < dl -> (budget (ctick c) (dl - now s) < fuel')%nat) -> (budget eps (dl - now s) < fuel)%nat ->
  let r := fst (t_deact_loop fuel' fuel c s res data dl) in
  let s' := snd (t_deact_loop fuel' fuel c s res data dl) in
  r = Ok tt /\ now s <= now s' /\ now s' <= Z.max (now s) (dl + 4 * ctick c) /\
  (nresp s' <= nresp s + (if (now s <? dl)%Z then budget (ctick c) (dl - now s)%Z + 2 else 0))%nat.
Proof.
  induction fuel' as [|f IH]; intros fuel c s res data dl eps Hc Hd Hr He Ht Hn Hs Hf' Hf; cbv zeta.
  - cbn [t_deact_loop]. destruct (now s <? dl) eqn:E; cbn [negb]; [specialize (Hf' ltac:(lia)); lia|].
    cbn [fst snd]. repeat split; lia.
  - cbn [t_deact_loop]. destruct (now s <? dl) eqn:E; cbn [negb]; [|cbn [fst snd]; repeat split; lia].
    assert (Hlt : now s < dl) by lia. specialize (Hf' Hlt).
    destruct (t_send_frame fuel c s res dl Hc Hr) as [fr ->].
    pose proof (t_listen_deadline fuel c s fr dl eps He ltac:(lia) Hs Hf) as HD.
    pose proof (t_listen_mono fuel c s fr dl ltac:(lia)) as HM. cbv zeta in HD, HM.
    destruct (t_listen fuel c s fr dl) as [r s1]. cbn [fst snd] in HD, HM.
    destruct HD as (Hg & Hb & _ & _). destruct HM as (M1 & M2 & M3 & M4).
    assert (M3' : (nresp s1 <= nresp s + 1)%nat) by (destruct (isome fr); lia).
    assert (Hb' : now s1 <= dl + 2 * ctick c) by lia.
    pose proof (budget_mono (ctick c) 0 (dl - now s) Ht ltac:(lia)) as Hb0.
    assert (Hret : let p := (@Ok unit tt, s1) in
              fst p = Ok tt /\ now s <= now (snd p) /\ now (snd p) <= Z.max (now s) (dl + 4 * ctick c) /\
              (nresp (snd p) <= nresp s + (budget (ctick c) (dl - now s) + 2))%nat).
    { cbn [fst snd]. repeat split; lia. }
    assert (Hgo : forall res', res_ok c res' -> okb r = true ->
              let p := t_deact_loop f fuel c s1 res' data dl in
              fst p = Ok tt /\ now s <= now (snd p) /\ now (snd p) <= Z.max (now s) (dl + 4 * ctick c) /\
              (nresp (snd p) <= nresp s + (budget (ctick c) (dl - now s) + 2))%nat).
    { intros res' Hr' Hok. specialize (M2 Hok).
      assert (F1 : now s1 < dl -> (budget (ctick c) (dl - now s1) < f)%nat).
      { intro H1. pose proof (budget_step (ctick c) (dl - now s) (ctick c) Ht ltac:(lia) ltac:(lia)) as B1.
        pose proof (budget_mono (ctick c) (dl - now s1) (dl - now s - ctick c) Ht ltac:(lia)). lia. }
      assert (F2 : (budget eps (dl - now s1) < fuel)%nat).
      { pose proof (budget_mono eps (dl - now s1) (dl - now s) He ltac:(lia)). lia. }
      specialize (IH fuel c s1 res' data dl eps Hc Hd Hr' He Ht ltac:(lia) (M4 _ Hs) F1 F2). cbv zeta in IH.
      destruct IH as (I1 & I2 & I3 & I4). cbv zeta. repeat split; [exact I1 | lia | lia |].
      destruct (now s1 <? dl) eqn:E1; [|lia].
      pose proof (budget_step (ctick c) (dl - now s) (ctick c) Ht ltac:(lia) ltac:(lia)) as B1.
      pose proof (budget_mono (ctick c) (dl - now s1) (dl - now s - ctick c) Ht ltac:(lia)). lia. }
    destruct r as [[q|]|e|x|]; [| exact Hret | exact Hret | contradiction | contradiction].
    destruct (oeqb (treq_did q) (cdid c)); [|apply Hgo; [exact I | reflexivity]].
    assert (Hrel : forall rls,
              let p := (let (r2, s2) := t_listen fuel c s1 (Some (enc_rel c rls)) 0 in
                        match r2 with Crash x => (@Crash unit x, s2) | Hang => (Hang, s2) | _ => (Ok tt, s2) end) in
              fst p = Ok tt /\ now s <= now (snd p) /\ now (snd p) <= Z.max (now s) (dl + 4 * ctick c) /\
              (nresp (snd p) <= nresp s + (budget (ctick c) (dl - now s) + 2))%nat).
    { intro rls.
      assert (F0 : (budget eps (0 - now s1) < fuel)%nat).
      { pose proof (budget_mono eps (0 - now s1) (dl - now s) He ltac:(lia)). lia. }
      pose proof (t_listen_deadline fuel c s1 (Some (enc_rel c rls)) 0 eps He ltac:(lia) (M4 _ Hs) F0) as HD2.
      pose proof (t_listen_mono fuel c s1 (Some (enc_rel c rls)) 0 ltac:(lia)) as HM2. cbv zeta in HD2, HM2.
      destruct (t_listen fuel c s1 (Some (enc_rel c rls)) 0) as [r2 s2]. cbn [fst snd] in HD2, HM2.
      destruct HD2 as (Hg2 & Hb2 & _ & _). destruct HM2 as (N1 & _ & N3 & _). cbn [isome] in N3.
      destruct r2 as [o|e|x|]; try contradiction; cbv zeta; cbn [fst snd]; repeat split; lia. }
    destruct q as [d|dd|dd|dd].
    + destruct (rfmt d =? 8); apply Hgo; try reflexivity; [cbn; apply nil_le_miu, Hc | cbn; exact Hd].
    + apply (Hrel false).
    + apply (Hrel true).
    + apply Hgo; [exact I | reflexivity].
Qed.

(* Target._deactivate against ANY script of requests, of any length - valid ATN / INF / NAK / ACK with matching DID included -
   and any corrupted frames (each needing eps > 0 time units): it returns, no later than the grace period (1 s) plus four clock
   ticks after it began, and has sent at most (grace / tick) + 2 responses.  The fuel - the number of loop iterations - depends
   on grace / tick and grace / eps only, never on the length of the script. *)
Theorem dep_target_deactivate_deadline fuel c s data grace eps :
  cfg_ok c -> len data <= cmiu c -> 0 < eps -> 0 < ctick c -> 0 <= now s -> Forall (slow eps) (ans s) ->
  (budget (ctick c) grace < fuel)%nat -> (budget eps grace < fuel)%nat ->
  let r := fst (t_deactivate fuel c s data grace) in
  let s' := snd (t_deactivate fuel c s data grace) in
  r = Ok tt /\ now s' <= now s + Z.max 0 grace + 4 * ctick c /\ (nresp s' <= nresp s + budget (ctick c) grace + 2)%nat.
Proof.
  intros Hc Hd He Ht Hn Hs Hf1 Hf2. unfold t_deactivate.
  pose proof (t_deact_loop_spec fuel fuel c s None data (now s + grace) eps Hc Hd I He Ht Hn Hs) as H.
  replace (now s + grace - now s) with grace in H by lia. specialize (H (fun _ => Hf1) Hf2). cbv zeta in *.
  destruct H as (H1 & H2 & H3 & H4). repeat split; [exact H1 | lia |].
  destruct (now s <? now s + grace); lia.
Qed.
