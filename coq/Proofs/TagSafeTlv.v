(* C08, Type 2 / Type 1: the readers of Model/TagReadAny.v on ARBITRARY readable memory return no NDEF or an
   NDEF state whose octets were read from non-reserved addresses inside the data area and whose length does
   not exceed the capacity; never Crash, never Hang.  The demand-instrumented variants compute the same
   result, and the demand is bounded. *)
From Coq Require Import ZArith List Bool Lia ZifyBool.
From NV Require Import Base.Result Base.Bytes Model.TlvMem Model.T2T Model.T1T Model.TagReadAny
  Proofs.TlvLib Proofs.T2TRead.
Import ListNotations.
Open Scope Z_scope.
Ltac Zify.zify_post_hook ::= Z.to_euclidean_division_equations.

(* ------------------------------------------------------------ bytes *)
Lemma get_byte em a : bytes_ok em -> 0 <= get em a < 256.
Proof.
  intro Hb. unfold get. destruct (nth_in_or_default (Z.to_nat a) em 0) as [Hi | ->]; [|lia].
  unfold bytes_ok in Hb. rewrite Forall_forall in Hb. apply Hb, Hi.
Qed.
Lemma rd_byte em a x : bytes_ok em -> rd em a = Ok x -> 0 <= x < 256.
Proof. intros Hb H. apply rd_inv in H as [_ ->]. apply get_byte, Hb. Qed.
Lemma rd_cases em a : 0 <= a -> (exists x, rd em a = Ok x) \/ rd em a = tag_err.
Proof.
  intro H. unfold rd. replace (a <? 0) with false by lia.
  destruct (nth_error em (Z.to_nat a)); [left; eauto | right; reflexivity].
Qed.
Lemma read_val_cases skip : forall suf a k, (exists r, read_val skip a suf k = Ok r) \/ read_val skip a suf k = tag_err.
Proof.
  induction suf as [|x suf IH]; intros a k.
  - destruct k; cbn; [left; eauto | right; reflexivity].
  - destruct k as [|k]; [cbn; left; eauto|]. cbn [read_val]. destruct (in_skip skip a); [apply IH|].
    destruct (IH (a + 1) k) as [[r ->] | ->]; cbn; [left; eauto | right; reflexivity].
Qed.

(* read_tlv never crashes; its length is -1 or what the length field says *)
Lemma read_tlv_cases em off skip : bytes_ok em -> 0 <= off ->
  (exists t l v e, read_tlv em off skip = Ok (t, l, v, e) /\ -1 <= l /\ len v = Z.max l 0 /\ off < e) \/
  read_tlv em off skip = tag_err.
Proof.
  intros Hb Ho. unfold read_tlv.
  destruct (rd_cases em off Ho) as [[t ->] | ->]; [|right; reflexivity]. cbn [bind].
  destruct ((t =? 0) || (t =? 254)).
  { left. exists t, (-1), [], (off + 1). repeat split; try lia. }
  destruct (rd_cases em (off + 1)) as [[l0 E1] | ->]; [lia | | right; reflexivity]. rewrite E1. cbn [bind].
  pose proof (rd_byte _ _ _ Hb E1) as B0.
  destruct (l0 =? 255).
  - destruct (rd_cases em (off + 2)) as [[h E2] | ->]; [lia | | right; reflexivity]. rewrite E2. cbn [bind].
    destruct (rd_cases em (off + 3)) as [[lo E3] | ->]; [lia | | right; reflexivity]. rewrite E3. cbn [bind fst snd].
    pose proof (rd_byte _ _ _ Hb E2). pose proof (rd_byte _ _ _ Hb E3).
    destruct (read_val_cases skip (skipn (Z.to_nat (off + 4)) em) (off + 4) (Z.to_nat (256 * h + lo))) as [[[v e] E] | ->];
      [|right; reflexivity].
    rewrite E. cbn [bind fst snd]. left. exists t, (256 * h + lo), v, e.
    apply read_val_bounds in E as (Hb1 & Hl & _). unfold len. repeat split; try lia.
  - cbn [bind fst snd].
    destruct (read_val_cases skip (skipn (Z.to_nat (off + 2)) em) (off + 2) (Z.to_nat l0)) as [[[v e] E] | ->];
      [|right; reflexivity].
    rewrite E. cbn [bind fst snd]. left. exists t, l0, v, e.
    apply read_val_bounds in E as (Hb1 & Hl & _). unfold len. repeat split; try lia.
Qed.

Lemma ctl_range_ok f clip v : length v = 3%nat -> exists r, ctl_range f clip v = Ok r.
Proof. destruct v as [|a [|b [|c [|d v]]]]; try discriminate. intros _. cbn. eauto. Qed.

Lemma t2_dispatch_cases skip t l v : len v = Z.max l 0 ->
  exists a, t2_dispatch skip t l v = Ok a.
Proof.
  intro Hl. unfold t2_dispatch. destruct (t =? 0); [eauto|].
  destruct (t =? 1).
  { destruct (Z.eqb_spec l 3); [|eauto]. destruct (ctl_range_ok lock_byte_range 1048576 v) as [r ->]; [unfold len in Hl; lia|]. cbn. eauto. }
  destruct (t =? 2).
  { destruct (Z.eqb_spec l 3); [|eauto]. destruct (ctl_range_ok rsvd_byte_range 1048576 v) as [r ->]; [unfold len in Hl; lia|]. cbn. eauto. }
  destruct (t =? 3); [eauto|]. destruct (t =? 254); eauto.
Qed.
Lemma t1_dispatch_any_cases skip t l v : len v = Z.max l 0 ->
  exists a, t1_dispatch_any skip t l v = Ok a.
Proof.
  intro Hl. unfold t1_dispatch_any. destruct (t =? 0); [eauto|].
  destruct (t =? 1).
  { destruct (Z.eqb_spec l 3); [|eauto]. destruct (ctl_range_ok lock_byte_range 2048 v) as [r ->]; [unfold len in Hl; lia|]. cbn. eauto. }
  destruct (t =? 2).
  { destruct (Z.eqb_spec l 3); [|eauto]. destruct (ctl_range_ok rsvd_byte_range 2048 v) as [r ->]; [unfold len in Hl; lia|]. cbn. eauto. }
  destruct (t =? 3); [eauto|]. destruct (t =? 254); eauto.
Qed.
Lemma t1_dispatch_any_found skip t l v : t1_dispatch_any skip t l v = Ok Found -> t = 3.
Proof. unfold t1_dispatch_any. destruct (Z.eqb_spec t 0); [discriminate|].
  destruct (Z.eqb_spec t 1); [destruct (l =? 3); [destruct (ctl_range _ _ _); discriminate | discriminate]|].
  destruct (Z.eqb_spec t 2); [destruct (l =? 3); [destruct (ctl_range _ _ _); discriminate | discriminate]|].
  destruct (Z.eqb_spec t 3); [auto|]. destruct (t =? 254); discriminate. Qed.

(* ------------------------------------------------------------ the Type 2 walk *)
(* never Crash / Hang; a TLV that is found lies at or behind the start of the walk *)
Lemma t2_walk_total : forall fuel em dend skip off inner hw, bytes_ok em -> 0 <= off ->
  t2_walk fuel em dend skip off inner hw = Ok None \/
  exists o s v h, t2_walk fuel em dend skip off inner hw = Ok (Some (o, s, v, h)) /\ off <= o.
Proof.
  induction fuel as [|f IH]; intros em dend skip off inner hw Hb Ho; [left; reflexivity|].
  cbn [t2_walk]. destruct (negb inner && (dend <=? off)); [left; reflexivity|].
  destruct (in_skip skip off).
  { destruct (IH em dend skip (off + 1) true hw Hb) as [-> | (o & s & v & h & -> & Hle)]; [lia | left; reflexivity |].
    right. exists o, s, v, h. split; [reflexivity | lia]. }
  destruct (read_tlv_cases em off skip Hb Ho) as [(t & l & v & e & -> & Hl & Hv & He) | ->]; [|left; reflexivity].
  destruct (t2_dispatch_cases skip t l v Hv) as [[skip'| |] ->]; [| right; exists off, skip, v, hw; split; [reflexivity | lia] | left; reflexivity].
  destruct (IH em dend skip' (off + l + 1 + (if l <? 255 then 1 else 3)) false (Z.max hw e) Hb) as [-> | (o & s & v' & h & -> & Hle)];
    [destruct (l <? 255); lia | left; reflexivity |].
  right. exists o, s, v', h. split; [reflexivity | destruct (l <? 255); lia].
Qed.

(* ------------------------------------------------------------ values inside the data area *)
(* if the value is not longer than the number of free addresses in [a, a + n) the last address read is below a + n *)
Lemma read_val_fits skip : forall suf a k v e n, read_val skip a suf k = Ok (v, e) ->
  Z.of_nat k <= count_free skip a n -> e <= a + Z.of_nat n.
Proof.
  induction suf as [|x suf IH]; intros a k v e n H Hc.
  - destruct k; cbn in H; [|discriminate]. injection H as <- <-. lia.
  - destruct k as [|k]; [cbn in H; injection H as <- <-; lia|].
    cbn [read_val] in H. destruct n as [|n]; [cbn in Hc; lia|]. cbn [count_free] in Hc.
    destruct (in_skip skip a).
    + apply (IH _ _ _ _ n) in H; lia.
    + destruct (read_val skip (a + 1) suf k) as [[v' e']| | |] eqn:E; cbn in H; try discriminate.
      injection H as <- <-. apply (IH _ _ _ _ n) in E; lia.
Qed.

(* every byte of the value is the content of an address in [a, e) that is not reserved *)
Lemma read_val_sound skip : forall suf a k v e, read_val skip a suf k = Ok (v, e) ->
  forall i, (i < k)%nat -> exists p, a <= p < e /\ in_skip skip p = false /\ nth_error v i = nth_error suf (Z.to_nat (p - a)).
Proof.
  induction suf as [|x suf IH]; intros a k v e H i Hi.
  - destruct k; [lia | discriminate].
  - destruct k as [|k]; [lia|]. cbn [read_val] in H. destruct (in_skip skip a) eqn:Es.
    + destruct (IH _ _ _ _ H i Hi) as (p & Hp & Hs & Hn). exists p. split; [lia|]. split; [exact Hs|].
      rewrite Hn. replace (Z.to_nat (p - a)) with (S (Z.to_nat (p - (a + 1)))) by lia. reflexivity.
    + destruct (read_val skip (a + 1) suf k) as [[v' e']| | |] eqn:E; cbn in H; try discriminate.
      injection H as <- <-. pose proof (read_val_bounds _ _ _ _ _ _ E) as [Hb _].
      destruct i as [|i].
      * exists a. split; [lia|]. split; [exact Es|]. rewrite Z.sub_diag. reflexivity.
      * destruct (IH _ _ _ _ E i ltac:(lia)) as (p & Hp & Hs & Hn). exists p. split; [lia|]. split; [exact Hs|].
        cbn [nth_error]. rewrite Hn. replace (Z.to_nat (p - a)) with (S (Z.to_nat (p - (a + 1)))) by lia. reflexivity.
Qed.

(* what the property demands of a reported NDEF state: tag, length field and value inside [first, dend),
   the value read from non-reserved addresses, not longer than the capacity *)
Definition tlv_sound (em : list Z) (first : Z) (L : layout) : Prop :=
  exists start e,
    first <= l_off L /\ l_off L + 2 <= start <= l_off L + 4 /\
    read_val (l_skip L) start (skipn (Z.to_nat start) em) (length (l_val L)) = Ok (l_val L, e) /\
    start <= e <= l_dend L /\ len (l_val L) <= l_cap L.

Lemma nth_error_skipn' {A} (l : list A) : forall n i, nth_error (skipn n l) i = nth_error l (n + i).
Proof. induction l as [|x l IH]; intros [|n] i; cbn; auto. destruct i; reflexivity. Qed.
(* ... spelled out address by address *)
Lemma tlv_sound_octets em first L : 0 <= first -> tlv_sound em first L ->
  forall i, (i < length (l_val L))%nat ->
  exists p, first + 2 <= p < l_dend L /\ in_skip (l_skip L) p = false /\ nth_error (l_val L) i = nth_error em (Z.to_nat p).
Proof.
  intros H0 (start & e & Hf & Hs & Hr & He & _) i Hi.
  destruct (read_val_sound _ _ _ _ _ _ Hr i Hi) as (p & Hp & Hk & Hn). exists p. split; [lia|]. split; [exact Hk|].
  rewrite Hn, nth_error_skipn'. f_equal. lia.
Qed.

Lemma fits_sound em first L l e : bytes_ok em -> first <= l_off L -> 0 <= first ->
  read_tlv em (l_off L) (l_skip L) = Ok (3, l, l_val L, e) -> tlv_fits em L = true -> tlv_sound em first L.
Proof.
  intros Hb Hf H0 Hr Hfit. apply read_tlv_inv in Hr as (E0 & He & [[C | C] | (_ & _ & l0 & voff & E1 & Hl & Erv & Hv)]); try lia.
  unfold tlv_fits in Hfit. set (start := l_off L + hdr_size em (l_off L)) in *.
  assert (Hst : start = voff).
  { unfold start, hdr_size. rewrite E1. destruct Hl as [(Hn & _ & ->) | (-> & -> & _)]; [|reflexivity].
    destruct l0 as [|p|p]; try reflexivity. repeat (destruct p as [p|p|]; try reflexivity). congruence. }
  pose proof (read_val_bounds _ _ _ _ _ _ Erv) as (Hb1 & Hlen & _).
  exists start, e. rewrite Hst in *.
  assert (Hk : Z.to_nat l = length (l_val L)) by lia.
  split; [exact Hf|]. split; [destruct Hl as [(_ & _ & ->) | (_ & -> & _)]; lia|].
  split; [rewrite <- Hk; exact Erv|].
  apply andb_true_iff in Hfit as [Hfit Hcap]. apply andb_true_iff in Hfit as [Hs Hc].
  split; [|unfold len in *; lia]. split; [lia|].
  pose proof (read_val_fits _ _ _ _ _ _ (Z.to_nat (l_dend L - voff)) Erv) as F. unfold len in Hc. lia.
Qed.

(* ------------------------------------------------------------ Type 2 *)
Lemma t2_read_total em : bytes_ok em -> t2_read em = Ok None \/ exists L, t2_read em = Ok (Some L).
Proof.
  intro Hb. unfold t2_read.
  destruct (rd em 12) as [b12| | |]; auto. destruct (rd em 13) as [b13| | |]; auto.
  destruct (rd em 14) as [b14| | |]; auto. destruct (rd em 15) as [b15| | |]; auto.
  destruct (negb _); auto. destruct (negb _); auto.
  destruct (t2_walk_total (S (length em)) em (b14 * 8 + 16) [] 16 false 16 Hb ltac:(lia)) as [-> | (o & s & v & h & -> & _)];
    cbn [bind]; eauto.
Qed.

Theorem t2_read_safe em : bytes_ok em ->
  t2_read_any em = Ok None \/
  exists L, t2_read_any em = Ok (Some L) /\ tlv_sound em 16 L /\ l_dend L <= 2056.
Proof.
  intro Hb. unfold t2_read_any.
  destruct (t2_read_total em Hb) as [-> | [L E]]; [left; reflexivity|]. rewrite E.
  destruct (tlv_fits em L) eqn:F; [right | left; reflexivity]. exists L. split; [reflexivity|].
  destruct (t2_read_inv _ _ E) as (b13 & b14 & b15 & E12 & E13 & E14 & E15 & Hv & Hd & Hw & Hc & Hrd & Hwr).
  pose proof (t2_walk_found _ _ _ _ _ _ _ _ _ _ _ Hw) as (_ & _ & l & e & Hr).
  destruct (t2_walk_total (S (length em)) em (l_dend L) [] 16 false 16 Hb ltac:(lia)) as [W | (o & s & v & h & W & Ho)];
    rewrite W in Hw; [discriminate|]. injection Hw as Eo _ _ _.
  split; [eapply fits_sound; eauto; lia|]. pose proof (rd_byte _ _ _ Hb E14). lia.
Qed.

(* the repaired reader changes nothing on a tag whose NDEF TLV fits (in particular on every layout C01-C03 are about) *)
Theorem t2_read_any_conservative em L : t2_read em = Ok (Some L) -> tlv_fits em L = true -> t2_read_any em = t2_read em.
Proof. intros H F. unfold t2_read_any. rewrite H, F. reflexivity. Qed.
(* ... and before the repair the reader reported NDEF TLVs that run past the data area: a 48 byte data area
   (16..64) on a 96 byte tag, NDEF TLV of 60 bytes: length 60 > capacity 46 *)
Definition ex_t2_overrun : list Z :=
  [4; 1; 2; 143; 4; 5; 6; 7; 0; 72; 0; 0; 225; 16; 6; 0; 3; 60] ++ repeat 170 60 ++ repeat 0 18.
Lemma t2_read_overrun_refuted :
  (exists L, t2_read ex_t2_overrun = Ok (Some L) /\ len (l_val L) = 60 /\ l_cap L = 46 /\ l_dend L = 64) /\
  t2_read_any ex_t2_overrun = Ok None.
Proof. split; [eexists; split; [vm_compute; reflexivity | repeat split] | vm_compute; reflexivity]. Qed.

(* ------------------------------------------------------------ the instrumented Type 2 reader *)
Lemma t2_walk_beyond : forall fuel em dend skip off inner hw, len em <= off ->
  t2_walk fuel em dend skip off inner hw = Ok None.
Proof.
  induction fuel as [|f IH]; intros em dend skip off inner hw H; [reflexivity|].
  cbn [t2_walk]. destruct (negb inner && (dend <=? off)); [reflexivity|].
  destruct (in_skip skip off); [apply IH; lia|].
  unfold read_tlv. rewrite rd_beyond by lia. reflexivity.
Qed.
Lemma t2_walk_d_fst : forall fuel em dend skip off inner hw d,
  fst (t2_walk_d fuel em dend skip off inner hw d) = t2_walk fuel em dend skip off inner hw.
Proof.
  induction fuel as [|f IH]; intros em dend skip off inner hw d; [reflexivity|].
  cbn [t2_walk_d]. destruct (len em <=? off) eqn:E.
  { cbn [fst]. symmetry. apply t2_walk_beyond. lia. }
  cbn [t2_walk]. destruct (negb inner && (dend <=? off)); [reflexivity|].
  destruct (in_skip skip off); [apply IH|].
  destruct (read_tlv em off skip) as [[[[t l] v] e]| | |]; try reflexivity.
  destruct (t2_dispatch skip t l v) as [[skip'| |]| | |]; try reflexivity. apply IH.
Qed.
Theorem t2_read_d_fst em : fst (t2_read_d em) = t2_read_any em.
Proof.
  unfold t2_read_d, t2_read_any, t2_read.
  destruct (rd em 12) as [b12| | |]; try reflexivity. destruct (rd em 13) as [b13| | |]; try reflexivity.
  destruct (rd em 14) as [b14| | |]; try reflexivity. destruct (rd em 15) as [b15| | |]; try reflexivity.
  destruct (negb (b12 =? 225)); [reflexivity|]. destruct (negb (Z.shiftr b13 4 =? 1)); [reflexivity|].
  pose proof (t2_walk_d_fst (S (length em)) em (b14 * 8 + 16) [] 16 false 16 16) as W.
  destruct (t2_walk_d (S (length em)) em (b14 * 8 + 16) [] 16 false 16 16) as [r d]. cbn [fst] in W. rewrite <- W.
  destruct r as [[[[[off skip] v] hw]|]| | |]; reflexivity.
Qed.

(* the demand never exceeds what can be loaded by more than the one failing read *)
Lemma read_tlv_d_le em off skip : 0 <= off -> read_tlv_d em off skip <= len em + 1.
Proof.
  intro Ho. unfold read_tlv_d.
  destruct (rd em off) as [t| | |] eqn:E0; try lia. apply rd_inv in E0 as [H0 _].
  destruct ((t =? 0) || (t =? 254)); [lia|].
  destruct (rd em (off + 1)) as [l0| | |] eqn:E1; try lia. apply rd_inv in E1 as [H1 _].
  destruct (l0 =? 255).
  - destruct (rd em (off + 2)) as [h| | |] eqn:E2; try lia. destruct (rd em (off + 3)) as [l| | |] eqn:E3; try lia.
    apply rd_inv in E3 as [H3 _].
    destruct (read_val _ _ _ _) as [[v e]| | |] eqn:E; try lia. apply read_val_bounds in E as (Hb & _).
    unfold len in *. rewrite skipn_length in Hb. lia.
  - destruct (read_val _ _ _ _) as [[v e]| | |] eqn:E; try lia. apply read_val_bounds in E as (Hb & _).
    unfold len in *. rewrite skipn_length in Hb. lia.
Qed.
Lemma t2_walk_d_le : forall fuel em dend skip off inner hw d, 0 <= off -> bytes_ok em -> d <= len em + 1 ->
  snd (t2_walk_d fuel em dend skip off inner hw d) <= len em + 1.
Proof.
  induction fuel as [|f IH]; intros em dend skip off inner hw d Ho Hb Hd; [exact Hd|].
  cbn [t2_walk_d]. destruct (len em <=? off); [cbn [snd]; destruct (inner || (off <? dend)); lia|].
  destruct (negb inner && (dend <=? off)); [exact Hd|].
  destruct (in_skip skip off); [apply IH; auto; lia|].
  pose proof (read_tlv_d_le em off skip Ho) as Hr.
  destruct (read_tlv_cases em off skip Hb Ho) as [(t & l & v & e & -> & Hl & Hv & He) | ->]; [|cbn; lia].
  destruct (t2_dispatch skip t l v) as [[skip'| |]| | |]; cbn [snd]; try lia.
  apply IH; auto; destruct (l <? 255); lia.
Qed.
Theorem t2_demand_le em : bytes_ok em -> snd (t2_read_d em) <= Z.max (len em + 1) 14.
Proof.
  intro Hb. unfold t2_read_d.
  destruct (rd em 12) as [b12| | |]; cbn [snd]; try lia. destruct (rd em 13) as [b13| | |]; cbn [snd]; try lia.
  destruct (rd em 14) as [b14| | |]; cbn [snd]; try lia. destruct (rd em 15) as [b15| | |] eqn:E15; cbn [snd]; try lia.
  apply rd_inv in E15 as [H15 _].
  destruct (negb (b12 =? 225)); [cbn; lia|]. destruct (negb (Z.shiftr b13 4 =? 1)); [cbn; lia|].
  pose proof (t2_walk_d_le (S (length em)) em (b14 * 8 + 16) [] 16 false 16 16 ltac:(lia) Hb ltac:(lia)) as W.
  destruct (t2_walk_d (S (length em)) em (b14 * 8 + 16) [] 16 false 16 16) as [r d]. cbn [snd] in W.
  destruct r as [[[[[off skip] v] hw]|]| | |]; cbn [snd]; lia.
Qed.

(* ------------------------------------------------------------ Type 1 *)
(* never Crash; no Hang when the fuel exceeds the distance to the end of the data area; a TLV that is
   found is an NDEF TLV at or behind the start of the walk *)
Lemma t1_walk_any_total : forall fuel em size skip off hw d, bytes_ok em -> 0 <= off ->
  (Z.to_nat (size - off) < fuel)%nat ->
  fst (t1_walk_any fuel em size skip off hw d) = Ok None \/
  exists o s v h, fst (t1_walk_any fuel em size skip off hw d) = Ok (Some (o, s, v, h)) /\ off <= o /\
                  exists l e, read_tlv em o s = Ok (3, l, v, e).
Proof.
  induction fuel as [|f IH]; intros em size skip off hw d Hb Ho Hf; [lia|].
  cbn [t1_walk_any]. destruct (size <=? off) eqn:Es; [left; reflexivity|].
  destruct (in_skip skip off).
  { destruct (IH em size skip (off + 1) hw d Hb) as [-> | (o & s & v & h & -> & Hle & R)]; [lia | lia | left; reflexivity |].
    right. exists o, s, v, h. split; [reflexivity|]. split; [lia | exact R]. }
  destruct (read_tlv_cases em off skip Hb Ho) as [(t & l & v & e & E & Hl & Hv & He) | ->]; [|left; reflexivity].
  rewrite E. destruct (t1_dispatch_any_cases skip t l v Hv) as [[skip'| |] D]; rewrite D.
  - destruct (IH em size skip' (off + l + 1 + (if l <? 255 then 1 else 3)) (Z.max hw e)
                 (Z.max d (read_tlv_d em off skip)) Hb) as [-> | (o & s & v' & h & -> & Hle & R)];
      [destruct (l <? 255); lia | destruct (l <? 255); lia | left; reflexivity |].
    right. exists o, s, v', h. split; [reflexivity|]. split; [destruct (l <? 255); lia | exact R].
  - right. exists off, skip, v, hw. split; [reflexivity|]. split; [lia|].
    apply t1_dispatch_any_found in D. subst t. eauto.
  - left; reflexivity.
Qed.

Lemma In_firstn' {A} (x : A) : forall n l, In x (firstn n l) -> In x l.
Proof. induction n as [|n IH]; intros [|y l] H; cbn in *; try tauto. destruct H as [H|H]; [left; exact H | right; apply IH, H]. Qed.

(* on ANY image (RALL data of any length followed by whatever READ8 / RSEG delivered) *)
Theorem t1_read_img_safe hr0 m : bytes_ok m ->
  fst (t1_read_img hr0 m) = Ok None \/
  exists L, fst (t1_read_img hr0 m) = Ok (Some L) /\ tlv_sound m 12 L /\ l_dend L <= 2048.
Proof.
  intro Hb. unfold t1_read_img. destruct (negb _); [left; reflexivity|].
  destruct (rd m 8) as [b8| | |]; try (left; reflexivity). destruct (negb (b8 =? 225)); [left; reflexivity|].
  destruct (rd m 9) as [b9| | |]; try (left; reflexivity). destruct (negb (Z.shiftr b9 4 =? 1)); [left; reflexivity|].
  destruct (rd m 11) as [b11| | |]; try (left; reflexivity).
  destruct (rd m 10) as [b10| | |] eqn:E10; try (left; reflexivity).
  pose proof (rd_byte _ _ _ Hb E10) as B10.
  set (size := (b10 + 1) * 8). set (skip0 := [(104, if size =? 120 then 120 else 128)]).
  destruct (t1_walk_any_total (S (Z.to_nat size)) m size skip0 12 12 12 Hb ltac:(lia) ltac:(lia))
    as [W | (o & s & v & h & W & Ho & l & e & R)];
    destruct (t1_walk_any (S (Z.to_nat size)) m size skip0 12 12 12) as [r d]; cbn [fst] in W; subst r; [left; reflexivity|].
  cbn [fst]. match goal with |- context [tlv_fits m ?LL] => set (L := LL) end.
  destruct (tlv_fits m L) eqn:F; [right | left; reflexivity]. exists L. split; [reflexivity|].
  split; [|unfold L; cbn [l_dend]; unfold size; lia].
  apply (fits_sound m 12 L l e Hb); auto; unfold L; cbn [l_off l_skip l_val]; auto; lia.
Qed.
Theorem t1_read_safe hr0 em : bytes_ok em ->
  t1_read_any hr0 em = Ok None \/
  exists L, t1_read_any hr0 em = Ok (Some L) /\ tlv_sound (firstn 2048 em) 12 L /\ l_dend L <= 2048.
Proof.
  intro Hb0. assert (Hb : bytes_ok (firstn 2048 em)).
  { unfold bytes_ok in *. rewrite Forall_forall in *. intros x Hx. apply Hb0. eapply In_firstn'; eauto. }
  unfold t1_read_any, t1_read_d. destruct (len (firstn 2048 em) <? 120); [left; reflexivity|].
  apply t1_read_img_safe, Hb.
Qed.

(* the demand of the Type 1 reader: never beyond the 2048 addressable bytes (plus the failing read) *)
Lemma t1_walk_any_le : forall fuel em size skip off hw d, 0 <= off -> bytes_ok em -> d <= len em + 1 ->
  snd (t1_walk_any fuel em size skip off hw d) <= len em + 1.
Proof.
  induction fuel as [|f IH]; intros em size skip off hw d Ho Hb Hd; [exact Hd|].
  cbn [t1_walk_any]. destruct (size <=? off); [exact Hd|].
  destruct (in_skip skip off); [apply IH; auto; lia|].
  pose proof (read_tlv_d_le em off skip Ho) as Hr.
  destruct (read_tlv_cases em off skip Hb Ho) as [(t & l & v & e & -> & Hl & Hv & He) | ->]; [|cbn; lia].
  destruct (t1_dispatch_any skip t l v) as [[skip'| |]| | |]; cbn [snd]; try lia.
  apply IH; auto; destruct (l <? 255); lia.
Qed.
Theorem t1_img_demand_le hr0 m : bytes_ok m -> snd (t1_read_img hr0 m) <= Z.max (len m + 1) 12.
Proof.
  intro Hb. unfold t1_read_img. destruct (negb _); [cbn; lia|].
  destruct (rd m 8) as [b8| | |]; cbn [snd]; try lia. destruct (negb (b8 =? 225)); [cbn; lia|].
  destruct (rd m 9) as [b9| | |]; cbn [snd]; try lia. destruct (negb (Z.shiftr b9 4 =? 1)); [cbn; lia|].
  destruct (rd m 11) as [b11| | |] eqn:E11; cbn [snd]; try lia. apply rd_inv in E11 as [H11 _].
  destruct (rd m 10) as [b10| | |]; cbn [snd]; try lia.
  set (size := (b10 + 1) * 8). set (skip0 := [(104, if size =? 120 then 120 else 128)]).
  pose proof (t1_walk_any_le (S (Z.to_nat size)) m size skip0 12 12 12 ltac:(lia) Hb ltac:(lia)) as W.
  destruct (t1_walk_any (S (Z.to_nat size)) m size skip0 12 12 12) as [r d]. cbn [snd] in W.
  destruct r as [[[[[off skip] v] hw]|]| | |]; cbn [snd]; lia.
Qed.
Theorem t1_demand_le hr0 em : bytes_ok em -> snd (t1_read_d hr0 em) <= 2049.
Proof.
  intro Hb0. assert (Hb : bytes_ok (firstn 2048 em)).
  { unfold bytes_ok in *. rewrite Forall_forall in *. intros x Hx. apply Hb0. eapply In_firstn'; eauto. }
  assert (Hl : len (firstn 2048 em) <= 2048) by (unfold len; rewrite firstn_length; lia).
  unfold t1_read_d. destruct (len (firstn 2048 em) <? 120) eqn:E; [cbn; lia|].
  pose proof (t1_img_demand_le hr0 _ Hb). lia.
Qed.
(* at most RALL, READ8 and 15 RSEG commands, the last one sent three times *)
Theorem t1_read_cmds hr0 em : bytes_ok em -> t1_cmds_max (snd (t1_read_d hr0 em)) <= 20.
Proof.
  intro Hb. pose proof (t1_demand_le hr0 em Hb) as H. unfold t1_cmds_max.
  destruct (120 <? _), (128 <? _); lia.
Qed.

(* the reader as it was (Model/T1T.v): errors and crashes leave the TLV walk, values run past the data area *)
Definition ex_t1_short_lock : list Z := [1; 2; 3; 4; 5; 6; 7; 0; 225; 16; 14; 0; 1; 0; 3; 0] ++ repeat 0 104.
Definition ex_t1_beyond : list Z := [1; 2; 3; 4; 5; 6; 7; 0; 225; 16; 14; 0; 3; 200] ++ repeat 0 106.
Definition ex_t1_overrun : list Z := [1; 2; 3; 4; 5; 6; 7; 0; 225; 16; 31; 0; 3; 255; 1; 0] ++ repeat 7 496.
Lemma t1_read_legacy_refuted :
  t1_read 17 ex_t1_short_lock = Crash IndexErr /\ (exists L, t1_read_any 17 ex_t1_short_lock = Ok (Some L) /\ l_val L = []) /\
  t1_read 17 ex_t1_beyond = Err (TagCommandError 0) /\ t1_read_any 17 ex_t1_beyond = Ok None /\
  (exists L, t1_read 18 ex_t1_overrun = Ok (Some L) /\ len (l_val L) = 256 /\ l_cap L = 218) /\
  t1_read_any 18 ex_t1_overrun = Ok None.
Proof.
  split; [vm_compute; reflexivity|]. split; [eexists; split; vm_compute; reflexivity|].
  split; [vm_compute; reflexivity|]. split; [vm_compute; reflexivity|].
  split; [eexists; split; [vm_compute; reflexivity | split; reflexivity] | vm_compute; reflexivity].
Qed.
