From Coq Require Import ZArith List Bool Lia ZifyBool.
From NV Require Import Base.Result Base.Bytes Base.PyPrims Model.Crc Model.CrcPath Proofs.Crc Proofs.CrcCheck.
Import ListNotations.
Open Scope Z_scope.
Ltac Zify.zify_post_hook ::= Z.to_euclidean_division_equations.

Lemma pyslice_drop2 (d : list Z) x y : pyslice (d ++ [x; y]) 0 (-2) = d.
Proof.
  unfold pyslice, norm_idx. pose proof (len_nonneg d) as Hn.
  rewrite len_app. change (len [x; y]) with 2.
  change (0 <? 0) with false. change (-2 <? 0) with true. cbv iota.
  rewrite Z.min_l by lia. rewrite Z.max_r by lia.
  replace (-2 + (len d + 2) - 0) with (len d) by lia. cbn [Z.to_nat skipn].
  unfold len. rewrite Nat2Z.id. rewrite firstn_app, Nat.sub_diag, firstn_all. cbn [firstn]. apply app_nil_r.
Qed.

Lemma rxmode_off_bit7 r : Z.testbit (rxmode_off r) 7 = false.
Proof. unfold rxmode_off. rewrite Z.land_spec. change (Z.testbit 127 7) with false. apply andb_false_r. Qed.

Lemma checked_rsp d x y out : bytes_ok d ->
  (do ok <- check_crc_a (d ++ [x; y]); if ok then Ok (pyslice (d ++ [x; y]) 0 (-2)) else Err TransmissionError) = Ok out ->
  [x; y] = iso_crc_a d /\ out = d.
Proof.
  intros Hd H. destruct (check_crc_a (d ++ [x; y])) as [ok| | |] eqn:E; try discriminate.
  cbn [bind] in H. destruct ok; [|discriminate].
  injection H as <-. split; [apply check_crc_a_iff; assumption|apply pyslice_drop2].
Qed.

(* whoever it is, somebody has verified CRC_A before data is returned, and exactly the CRC is removed *)
Theorem type_a_rsp_sound sel_res rxmode0 d x y out :
  bytes_ok d -> 1 <= len d -> Z.testbit rxmode0 7 = true ->
  type_a_rsp sel_res rxmode0 (d ++ [x; y]) = Ok out ->
  [x; y] = iso_crc_a d /\ out = d.
Proof.
  intros Hd Hl Hb. unfold type_a_rsp, chip_crc_off, sw_crc_path.
  destruct (Z.land (pyidx sel_res 0) 96 =? 0).
  - unfold chip_rx. rewrite rxmode_off_bit7. cbn [bind]. unfold tt2_rsp.
    replace (len (d ++ [x; y]) >? 2) with true by (rewrite len_app; change (len [x; y]) with 2; lia).
    apply checked_rsp. exact Hd.
  - unfold chip_rx. rewrite Hb. intro H.
    destruct (check_crc_a (d ++ [x; y])) as [ok| | |] eqn:E; try discriminate.
    cbn [bind] in H. destruct ok; [|discriminate]. cbn [bind] in H.
    injection H as <-. split; [apply check_crc_a_iff; assumption|apply pyslice_drop2].
Qed.

Theorem type_a_rsp_complete sel_res rxmode0 d :
  bytes_ok d -> 1 <= len d -> Z.testbit rxmode0 7 = true ->
  type_a_rsp sel_res rxmode0 (d ++ iso_crc_a d) = Ok d.
Proof.
  intros Hd Hl Hb. unfold iso_crc_a.
  set (x := Z.land (iso_crc 25443 d) 255). set (y := Z.land (Z.shiftr (iso_crc 25443 d) 8) 255).
  assert (Hc : check_crc_a (d ++ [x; y]) = Ok true) by (apply check_crc_a_iff; [exact Hd|reflexivity]).
  unfold type_a_rsp, chip_crc_off, sw_crc_path.
  destruct (Z.land (pyidx sel_res 0) 96 =? 0).
  - unfold chip_rx. rewrite rxmode_off_bit7. cbn [bind]. unfold tt2_rsp.
    replace (len (d ++ [x; y]) >? 2) with true by (rewrite len_app; change (len [x; y]) with 2; lia).
    rewrite Hc. cbn [bind]. rewrite pyslice_drop2. reflexivity.
  - unfold chip_rx. rewrite Hb, Hc. cbn [bind]. rewrite pyslice_drop2. reflexivity.
Qed.

(* a Mifare ACK/NAK (one or two octets from the chip) is passed through on the software path *)
Theorem tt2_rsp_short data : len data <= 2 -> tt2_rsp data = Ok data.
Proof. intro H. unfold tt2_rsp. replace (len data >? 2) with false by lia. reflexivity. Qed.
