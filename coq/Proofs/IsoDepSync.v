(* ISO-DEP: round simulation of the (repaired) reader against the ISO/IEC 14443-4 card.

   [Sync] relates reader and card during one exchange of the command [cmd]:
     A   the card has not yet received the command block at [off]
     B   it has received that (chained) block and acknowledged it (possibly via S(WTX))
     C   it has received the last block, executed the APDU ONCE and sent the first response block
     D1  the reader has a chained response block, the card has not yet seen the R(ACK)
     D2  the card has seen the R(ACK) and sent the next response block
     Ok / Err  the exchange is over
   [round_sync]: one clf.exchange with ANY fate pair keeps [Sync] and strictly decreases the
   measure [mu]; everything else follows by induction over the script. *)
From Coq Require Import ZArith List Bool Lia ZifyBool.
From NV Require Import Base.Result Base.Bytes Model.IsoDep Proofs.IsoDep.
Import ListNotations.
Open Scope Z_scope.
Ltac Zify.zify_post_hook ::= Z.to_euclidean_division_equations.

Lemma next_iblock_spec kc b data ib rest : 0 < cmiu kc ->
  next_iblock kc b data = (ib, rest) ->
  exists ch chunk, bit ch /\ ib = Z.lor (Z.lor 2 (16 * ch)) b :: chunk /\ chunk ++ rest = data /\
                   (ch = 1 <-> rest <> []) /\ (data <> [] -> chunk <> []) /\ len chunk <= cmiu kc.
Proof.
  intros Hc H. unfold next_iblock in H. inversion H; subst; clear H.
  exists (if len (drop (cmiu kc) data) >? 0 then 1 else 0), (take (cmiu kc) data).
  split; [destruct (len _ >? 0); [right|left]; reflexivity|].
  split; [destruct (len _ >? 0); reflexivity|].
  split; [apply take_drop|].
  split.
  - destruct (len (drop (cmiu kc) data) >? 0) eqn:E.
    + split; [intros _; apply len_pos_cons, E|reflexivity].
    + split; [discriminate|]. intro Hn. apply len_pos_nil in E. congruence.
  - split.
    + intros Hd Ht. destruct data as [|x data]; [congruence|].
      unfold take in Ht. destruct (Z.to_nat (cmiu kc)) eqn:En; [lia|]. discriminate.
    + apply len_take_le. lia.
Qed.

Definition kind (d : bytes) : Z := match d with b0 :: _ => if b0 =? 242 then 0 else 1 | [] => 1 end.
Lemma kind_le d : 0 <= kind d <= 1.
Proof. destruct d as [|b0 d]; cbn; [lia|]. destruct (b0 =? 242); lia. Qed.
Lemma kind_wtx w : kind [242; w] = 0. Proof. reflexivity. Qed.
Lemma kind_nak pn : bit pn -> kind [Z.lor 178 pn] = 1. Proof. intros [-> | ->]; reflexivity. Qed.
Lemma kind_ack pn : bit pn -> kind [Z.lor 162 pn] = 1. Proof. intros [-> | ->]; reflexivity. Qed.
Lemma kind_iblock k cmd pn off : bit pn -> kind (iblock k cmd pn off) = 1.
Proof. intros [-> | ->]; unfold iblock, pfb_at, kind; destruct (more_at k cmd off); reflexivity. Qed.

(* chained blocks needed for L bytes in blocks of m: ceil(L/m) - 1 *)
Definition nchain (m L : Z) : Z := if L <=? 0 then 0 else (L - 1) / m.
Lemma nchain_nonneg m L : 0 < m -> 0 <= nchain m L.
Proof. intro H. unfold nchain. destruct (L <=? 0) eqn:E; [lia|]. apply Z.div_pos; lia. Qed.
Lemma nchain_step m L : 0 < m -> m < L -> nchain m (L - m) = nchain m L - 1.
Proof.
  intros Hm HL. unfold nchain. replace (L - m <=? 0) with false by lia. replace (L <=? 0) with false by lia.
  replace (L - 1) with ((L - m - 1) + 1 * m) by lia. rewrite Z.div_add by lia. lia.
Qed.

Lemma next_iblock_full kc b data ib rest : 0 < cmiu kc -> next_iblock kc b data = (ib, rest) -> rest <> [] ->
  len ib = 1 + cmiu kc /\ len data = cmiu kc + len rest.
Proof.
  intros Hc H Hr. unfold next_iblock in H. inversion H; subst; clear H.
  assert (Hd : cmiu kc < len data).
  { destruct (Z_lt_le_dec (cmiu kc) (len data)) as [|Hle]; [assumption|]. exfalso. apply Hr.
    unfold drop. apply skipn_all2. unfold len in Hle. lia. }
  rewrite len_cons, len_drop by lia. unfold len, take. rewrite firstn_length. unfold len in Hd. lia.
Qed.

Lemma toggle_neq pn : (toggle pn =? pn) = false.
Proof. unfold toggle. apply Z.eqb_neq. intro H. pose proof (Z.mod_pos_bound (pn + 1) 2 ltac:(lia)). lia. Qed.

Lemma picc_emit_weight c0 blk c' r : picc_emit c0 blk = (c', r) ->
  wtx_weight c' <= plan_weight (plan c0) .
Proof.
  unfold picc_emit, wtx_weight. destruct (plan c0) as [|ws pl]; cbn [tl].
  - intro H; inversion H; subst; cbn [plan pend plan_weight fold_right]. lia.
  - destruct ws as [|w ws']; intro H; inversion H; subst; cbn [plan pend]; rewrite plan_weight_cons;
      [cbn [len length Z.of_nat] | rewrite len_cons]; pose proof (plan_weight_nonneg pl); lia.
Qed.

(* whatever block the card absorbs, the number of S(WTX) responses it still expects does not grow *)
Lemma picc_absorb_weight app kc c blk c' r : picc_absorb app kc c blk = (c', r) -> wtx_weight c' <= wtx_weight c.
Proof.
  assert (Hpw : plan_weight (plan c) <= wtx_weight c).
  { unfold wtx_weight. destruct (pend c) as [[[w ws] b]|]; [pose proof (len_nonneg ws)|]; lia. }
  unfold picc_absorb. destruct blk as [|pcb inf]; [intro H; inversion H; lia|].
  destruct (len (pcb :: inf) + 2 >? cfsc kc); [intro H; inversion H; lia|].
  destruct (Z.land pcb 238 =? 2).
  - destruct (negb (Z.land pcb 16 =? 0)).
    + intro H. apply picc_emit_weight in H. cbn [plan] in H. lia.
    + destruct (next_iblock kc (flip (bn c)) (app (len (execs c)) (rxbuf c ++ inf))) as [ib rest].
      intro H. apply picc_emit_weight in H. cbn [plan] in H. lia.
  - destruct (Z.land pcb 238 =? 162).
    + destruct (negb (len inf =? 0)); [intro H; inversion H; lia|].
      destruct (Z.land pcb 1 =? bn c).
      * destruct (last c); intro H; inversion H; lia.
      * destruct (negb (Z.land pcb 16 =? 0)).
        -- destruct (pend c) eqn:Ep; intro H; inversion H; subst; [lia|]. unfold wtx_weight. cbn [plan pend]. rewrite Ep. lia.
        -- destruct (pend c) eqn:Ep; [intro H; inversion H; lia|].
           destruct (txrest c) eqn:Et; [intro H; inversion H; lia|].
           destruct (next_iblock kc (flip (bn c)) (z :: b)) as [ib rest].
           intro H. apply picc_emit_weight in H. cbn [plan] in H. lia.
    + destruct (pcb =? 242); [|intro H; inversion H; lia].
      destruct (pend c) as [[[w ws] nxt]|] eqn:Ep; [|intro H; inversion H; lia].
      destruct inf as [|x [|y t]]; try (intro H; inversion H; lia).
      destruct (x =? w); [|intro H; inversion H; lia].
      unfold wtx_weight. rewrite Ep.
      destruct ws as [|w2 ws']; intro H; inversion H; subst; cbn [plan pend]; [cbn [len length Z.of_nat] | rewrite len_cons]; lia.
Qed.

Section SyncProof.
Variable app : Z -> bytes -> bytes.
Variable k : cfg.
Variable kc : ccfg.
Variable cmd : bytes.
Variable e0 : list bytes.
Hypothesis Hmiu : 0 < miu k.
Hypothesis Hcmiu : 0 < cmiu kc.
Hypothesis Hfsc : miu k + 3 <= cfsc kc.
Hypothesis Hf1 : fix_wtx_try k = true.
Hypothesis Hf2 : fix_wtx_chain k = true.

Definition R : bytes := app (len e0) cmd.

(* ---------------------------------------------------------------- card side of the relation *)
Definition CardA (pn off : Z) (c : picc) : Prop :=
  bn c = flip pn /\ pend c = None /\ rxbuf c = take off cmd /\ txrest c = [] /\ execs c = e0.
Definition CardB (pn off : Z) (c : picc) : Prop :=
  bn c = pn /\ rxbuf c = take (off + miu k) cmd /\ txrest c = [] /\ execs c = e0 /\ emitted [Z.lor 162 pn] c.
Definition CardC (pn : Z) (c : picc) : Prop :=
  exists ib rest, bn c = pn /\ rxbuf c = [] /\ execs c = e0 ++ [cmd] /\ next_iblock kc pn R = (ib, rest) /\
                  txrest c = rest /\ emitted ib c.
Definition CardD1 (pn : Z) (rsp : bytes) (c : picc) : Prop :=
  bn c = flip pn /\ pend c = None /\ txrest c <> [] /\ rsp ++ txrest c = R /\ rxbuf c = [] /\ execs c = e0 ++ [cmd].
Definition CardD2 (pn : Z) (rsp : bytes) (c : picc) : Prop :=
  exists T ib rest, bn c = pn /\ T <> [] /\ rsp ++ T = R /\ next_iblock kc pn T = (ib, rest) /\
                    txrest c = rest /\ rxbuf c = [] /\ execs c = e0 ++ [cmd] /\ emitted ib c.

(* what the reader sends once the card has answered: its retry block or the echo of the outstanding S(WTX) *)
Inductive rdata (retry : bytes) (c : picc) (d : bytes) : Prop :=
| Rd_retry : d = retry -> rdata retry c d
| Rd_echo w ws nxt : d = [242; w] -> pend c = Some (w, ws, nxt) -> rdata retry c d.

Inductive Sync : pcd -> picc -> Prop :=
| S_A pn off i d c : bit pn -> 0 <= off < len cmd ->
    (d = iblock k cmd pn off \/ (d = [Z.lor 178 pn] /\ i <= n_nak k + 1)) -> CardA pn off c ->
    Sync (mkp pn (PSend off i d)) c
| S_B pn off i d c : bit pn -> 0 <= off < len cmd -> more_at k cmd off = true ->
    CardB pn off c -> rdata [Z.lor 178 pn] c d -> Sync (mkp pn (PSend off i d)) c
| S_C pn off i d c : bit pn -> 0 <= off < len cmd -> more_at k cmd off = false ->
    CardC pn c -> rdata [Z.lor 178 pn] c d -> Sync (mkp pn (PSend off i d)) c
| S_D1 pn i rsp c : bit pn -> CardD1 pn rsp c -> Sync (mkp pn (PRecv i [Z.lor 162 pn] rsp)) c
| S_D2 pn i d rsp c : bit pn -> CardD2 pn rsp c -> rdata [Z.lor 162 pn] c d -> Sync (mkp pn (PRecv i d rsp)) c
| S_Ok pn c : bit pn -> bn c = flip pn -> pend c = None -> txrest c = [] -> rxbuf c = [] ->
    execs c = e0 ++ [cmd] -> Sync (mkp pn (PDone (Ok R))) c
| S_Err pn e c : (execs c = e0 \/ execs c = e0 ++ [cmd]) -> Sync (mkp pn (tagerr e)) c.

(* the states a fault-free run passes through: the reader never holds a retry block *)
Inductive Clean : pcd -> picc -> Prop :=
| C_A pn off i c : bit pn -> 0 <= off < len cmd -> CardA pn off c ->
    Clean (mkp pn (PSend off i (iblock k cmd pn off))) c
| C_B pn off i c w ws nxt : bit pn -> 0 <= off < len cmd -> more_at k cmd off = true ->
    CardB pn off c -> pend c = Some (w, ws, nxt) -> Clean (mkp pn (PSend off i [242; w])) c
| C_C pn off i c w ws nxt : bit pn -> 0 <= off < len cmd -> more_at k cmd off = false ->
    CardC pn c -> pend c = Some (w, ws, nxt) -> Clean (mkp pn (PSend off i [242; w])) c
| C_D1 pn i rsp c : bit pn -> CardD1 pn rsp c -> Clean (mkp pn (PRecv i [Z.lor 162 pn] rsp)) c
| C_D2 pn i rsp c w ws nxt : bit pn -> CardD2 pn rsp c -> pend c = Some (w, ws, nxt) ->
    Clean (mkp pn (PRecv i [242; w] rsp)) c
| C_Ok pn c : bit pn -> bn c = flip pn -> pend c = None -> txrest c = [] -> rxbuf c = [] ->
    execs c = e0 ++ [cmd] -> Clean (mkp pn (PDone (Ok R))) c.

Lemma Clean_Sync p c : Clean p c -> Sync p c.
Proof.
  intro H.
  destruct H as [pn off i c Hb Ho HA | pn off i c w ws nxt Hb Ho Hm HB Hp | pn off i c w ws nxt Hb Ho Hm HC Hp
                | pn i rsp c Hb HD | pn i rsp c w ws nxt Hb HD Hp | pn c Hb H1 H2 H3 H4 H5].
  - apply S_A; try assumption. left; reflexivity.
  - apply S_B; try assumption. eapply Rd_echo; [reflexivity | exact Hp].
  - apply S_C; try assumption. eapply Rd_echo; [reflexivity | exact Hp].
  - apply S_D1; assumption.
  - apply S_D2; try assumption. eapply Rd_echo; [reflexivity | exact Hp].
  - apply S_Ok; assumption.
Qed.

(* ---------------------------------------------------------------- the measure *)
Definition cap : Z := Z.max (n_nak k) (n_ack k) + 2.
Definition KK : Z := 3 * Z.max 2 cap + 4.
Definition nr (pn : Z) (c : picc) : Z := if bn c =? pn then 0 else 1.
Definition base_send (off i : Z) (c : picc) : Z :=
  KK * (len cmd - off + len R + 2) + 3 * wtx_weight c + 3 * Z.max 0 (cap - i).
Definition base_recv (i : Z) (rsp : bytes) (c : picc) : Z :=
  KK * (len R - len rsp) + 3 * wtx_weight c + 3 * Z.max 0 (cap - i).
Definition mu (p : pcd) (c : picc) : Z :=
  match ph p with
  | PSend off i d => base_send off i c + kind d + 2 * nr (pni p) c
  | PRecv i d rsp => base_recv i rsp c + kind d + 2 * nr (pni p) c
  | _ => 0
  end.

Lemma KK_ge : 10 <= KK. Proof. unfold KK. lia. Qed.
Lemma KK_cap : 3 * cap + 4 <= KK. Proof. unfold KK. lia. Qed.
Lemma nr_same pn c : bn c = pn -> nr pn c = 0.
Proof. intro H. unfold nr. rewrite H, Z.eqb_refl. reflexivity. Qed.
Lemma nr_le pn c : 0 <= nr pn c <= 1.
Proof. unfold nr. destruct (bn c =? pn); lia. Qed.
Lemma nr_flip pn c : bit pn -> bn c = flip pn -> nr pn c = 1.
Proof. intros Hb H. unfold nr. rewrite H. pose proof (flip_neq pn Hb). destruct (flip pn =? pn) eqn:E; [lia|reflexivity]. Qed.

(* ---------------------------------------------------------------- reader absorbs the card's answer *)
Lemma rsp_len_R rsp T : rsp ++ T = R -> len R = len rsp + len T.
Proof. intros <-. apply len_app. Qed.

Definition ival (p : pcd) : Z := match ph p with PSend _ i _ => i | PRecv i _ _ => i | _ => 0 end.

(* X1: the card has acknowledged the chained block at [off] *)
Lemma absorb_B pn off i d c : bit pn -> 0 <= off < len cmd -> more_at k cmd off = true -> CardB pn off c ->
  let p' := pcd_absorb k cmd (mkp pn (PSend off i d)) (ARx (last c)) in
  Clean p' c /\ mu p' c <= base_send off i c /\ ival p' <= Z.max 1 i.
Proof.
  intros Hb Hoff Hm (Hbn & Hrx & Htx & Hex & Hem).
  destruct (emitted_core _ _ Hem) as [[Hl Hp] | (w & ws & Hl & Hp)]; rewrite Hl; cbv zeta.
  - rewrite send_rx_ack by assumption.
    assert (Hlt : off + miu k < len cmd) by (unfold more_at in Hm; lia).
    split; [|split; [|cbn [ival ph mkp]; lia]].
    + apply C_A; [apply flip_bit, Hb | lia |].
      unfold CardA. rewrite flip_flip by assumption. repeat split; assumption.
    + unfold mu. cbn [ph pni mkp]. rewrite kind_iblock by (apply flip_bit, Hb).
      pose proof (nr_le (flip pn) c). unfold base_send.
      pose proof KK_cap. pose proof KK_ge.
      assert (KK * 1 <= KK * miu k) by (apply Z.mul_le_mono_nonneg_l; lia).
      replace (len cmd - (off + miu k) + len R + 2) with ((len cmd - off + len R + 2) - miu k) by lia.
      rewrite Z.mul_sub_distr_l. lia.
  - rewrite send_rx_wtx by assumption. split; [|split; [|cbn [ival ph mkp]; lia]].
    + eapply C_B; try eassumption. repeat split; assumption.
    + unfold mu. cbn [ph pni mkp]. rewrite kind_wtx, nr_same by assumption. lia.
Qed.

(* X2: the card has executed the command and sent the first response block *)
Lemma absorb_C pn off i d c : bit pn -> 0 <= off < len cmd -> more_at k cmd off = false -> CardC pn c ->
  let p' := pcd_absorb k cmd (mkp pn (PSend off i d)) (ARx (last c)) in
  Clean p' c /\ mu p' c <= base_send off i c /\ ival p' <= Z.max 1 i.
Proof.
  intros Hb Hoff Hm (ib & rest & Hbn & Hrx & Hex & Hni & Htx & Hem).
  destruct (emitted_core _ _ Hem) as [[Hl Hp] | (w & ws & Hl & Hp)]; rewrite Hl; cbv zeta.
  - destruct (next_iblock_spec _ _ _ _ _ Hcmiu Hni) as (ch & chunk & Hch & -> & Hcr & Hch1 & _ & _).
    rewrite send_rx_iblock by assumption.
    destruct Hch as [-> | ->]; cbn [Z.eqb Pos.eqb].
    + (* last response block *)
      assert (Hre : rest = []) by (destruct rest; [reflexivity|]; assert (0 = 1) by (apply Hch1; discriminate); lia).
      rewrite Hre in *. rewrite app_nil_r in Hcr. subst chunk. split; [|split; [|cbn [ival ph mkp]; lia]].
      * apply C_Ok; try assumption; [apply flip_bit, Hb | rewrite flip_flip; assumption].
      * unfold mu. cbn [ph pni mkp]. unfold base_send.
        pose proof KK_ge. pose proof (wtx_weight_nonneg c). pose proof (len_nonneg R). nia.
    + assert (Hr : rest <> []) by (apply Hch1; reflexivity). split; [|split; [|cbn [ival ph mkp]; lia]].
      * apply C_D1; [apply flip_bit, Hb|]. unfold CardD1. rewrite flip_flip by assumption.
        repeat split; try assumption; congruence.
      * unfold mu. cbn [ph pni mkp]. rewrite kind_ack by (apply flip_bit, Hb).
        pose proof (nr_le (flip pn) c). unfold base_send, base_recv.
        pose proof KK_cap. pose proof KK_ge. pose proof (len_nonneg chunk).
        rewrite (rsp_len_R _ _ Hcr).
        assert (0 <= KK * (len cmd - off + len chunk)) by (apply Z.mul_nonneg_nonneg; lia).
        replace (len cmd - off + (len chunk + len rest) + 2) with ((len cmd - off + len chunk) + (len chunk + len rest - len chunk) + 2) by lia.
        rewrite !Z.mul_add_distr_l. lia.
  - rewrite send_rx_wtx by assumption. split; [|split; [|cbn [ival ph mkp]; lia]].
    + eapply C_C; try eassumption. exists ib, rest; repeat split; assumption.
    + unfold mu. cbn [ph pni mkp]. rewrite kind_wtx, nr_same by assumption. lia.
Qed.

(* X3: the card has answered the R(ACK) with the next response block *)
Lemma absorb_D2 pn i d rsp c : bit pn -> CardD2 pn rsp c ->
  let p' := pcd_absorb k cmd (mkp pn (PRecv i d rsp)) (ARx (last c)) in
  Clean p' c /\ mu p' c <= base_recv i rsp c /\ ival p' <= Z.max 1 i.
Proof.
  intros Hb (T & ib & rest & Hbn & HT & HR & Hni & Htx & Hrx & Hex & Hem).
  destruct (emitted_core _ _ Hem) as [[Hl Hp] | (w & ws & Hl & Hp)]; rewrite Hl; cbv zeta.
  - destruct (next_iblock_spec _ _ _ _ _ Hcmiu Hni) as (ch & chunk & Hch & -> & Hcr & Hch1 & Hne & _).
    rewrite recv_rx_iblock by assumption.
    assert (Hcn : 0 < len chunk) by (apply nonnil_len, Hne, HT).
    destruct Hch as [-> | ->]; cbn [Z.eqb Pos.eqb].
    + assert (Hre : rest = []) by (destruct rest; [reflexivity|]; assert (0 = 1) by (apply Hch1; discriminate); lia).
      rewrite Hre in *. rewrite app_nil_r in Hcr. subst chunk. rewrite HR. split; [|split; [|cbn [ival ph mkp]; lia]].
      * apply C_Ok; try assumption; [apply flip_bit, Hb | rewrite flip_flip; assumption].
      * unfold mu. cbn [ph pni mkp]. unfold base_recv.
        pose proof KK_ge. pose proof (wtx_weight_nonneg c). rewrite (rsp_len_R _ _ HR). nia.
    + assert (Hr : rest <> []) by (apply Hch1; reflexivity). split; [|split; [|cbn [ival ph mkp]; lia]].
      * apply C_D1; [apply flip_bit, Hb|]. unfold CardD1. rewrite flip_flip by assumption.
        repeat split; try assumption; [congruence|]. rewrite <- app_assoc, Htx, Hcr. exact HR.
      * unfold mu. cbn [ph pni mkp]. rewrite kind_ack by (apply flip_bit, Hb).
        pose proof (nr_le (flip pn) c). unfold base_recv.
        pose proof KK_cap. pose proof KK_ge. rewrite len_app.
        assert (KK * 1 <= KK * len chunk) by (apply Z.mul_le_mono_nonneg_l; lia).
        replace (len R - (len rsp + len chunk)) with ((len R - len rsp) - len chunk) by lia.
        rewrite Z.mul_sub_distr_l. lia.
  - rewrite recv_rx_wtx by assumption. split; [|split; [|cbn [ival ph mkp]; lia]].
    + eapply C_D2; try eassumption. exists T, ib, rest; repeat split; assumption.
    + unfold mu. cbn [ph pni mkp]. rewrite kind_wtx, nr_same by assumption. lia.
Qed.

(* ---------------------------------------------------------------- reader sees a timeout / transmission error *)
Definition exec_ok (c : picc) : Prop := execs c = e0 \/ execs c = e0 ++ [cmd].

Lemma fault_send pn off i d c a :
  a = ATimeout \/ a = ATxErr -> bit pn -> exec_ok c -> off < len cmd ->
  (i <= n_nak k -> Sync (mkp pn (PSend off (i + 1) [Z.lor 178 pn])) c) ->
  let p' := pcd_absorb k cmd (mkp pn (PSend off i d)) a in
  Sync p' c /\ mu p' c <= base_send off i c - 2 + 2 * nr pn c.
Proof.
  intros Ha Hb He Hoff HS. cbv zeta. rewrite send_timeout by assumption.
  destruct (i <=? n_nak k) eqn:Ei.
  - split; [apply HS; lia|]. unfold mu. cbn [ph pni mkp]. rewrite kind_nak by assumption.
    unfold base_send, cap. lia.
  - split; [apply S_Err, He|]. unfold mu. cbn [ph pni mkp tagerr]. unfold base_send.
    pose proof KK_ge. pose proof (wtx_weight_nonneg c). pose proof (nr_le pn c). pose proof (len_nonneg R).
    assert (KK * 2 <= KK * (len cmd - off + len R + 2)) by (apply Z.mul_le_mono_nonneg_l; lia). lia.
Qed.

Lemma fault_recv pn i d rsp c a :
  a = ATimeout \/ a = ATxErr -> bit pn -> exec_ok c -> len rsp < len R ->
  (i <= n_ack k -> Sync (mkp pn (PRecv (i + 1) [Z.lor 162 pn] rsp)) c) ->
  let p' := pcd_absorb k cmd (mkp pn (PRecv i d rsp)) a in
  Sync p' c /\ mu p' c <= base_recv i rsp c - 2 + 2 * nr pn c.
Proof.
  intros Ha Hb He Hlen HS. cbv zeta. rewrite recv_timeout by assumption.
  destruct (i <=? n_ack k) eqn:Ei.
  - split; [apply HS; lia|]. unfold mu. cbn [ph pni mkp]. rewrite kind_ack by assumption.
    unfold base_recv, cap. lia.
  - split; [apply S_Err, He|]. unfold mu. cbn [ph pni mkp tagerr]. unfold base_recv.
    pose proof KK_ge. pose proof (wtx_weight_nonneg c). pose proof (nr_le pn c).
    assert (KK * 1 <= KK * (len R - len rsp)) by (apply Z.mul_le_mono_nonneg_l; lia). lia.
Qed.

Lemma base_send_mono off i c c' : wtx_weight c' <= wtx_weight c -> base_send off i c' <= base_send off i c.
Proof. unfold base_send. lia. Qed.
Lemma base_recv_mono i rsp c c' : wtx_weight c' <= wtx_weight c -> base_recv i rsp c' <= base_recv i rsp c.
Proof. unfold base_recv. lia. Qed.

(* ---------------------------------------------------------------- the card absorbs the reader's block *)
Lemma pcb_i_chain pn : bit pn -> Z.land (Z.lor 18 pn) 238 = 2 /\ Z.land (Z.lor 18 pn) 16 <> 0.
Proof. intros [-> | ->]; split; cbv; congruence. Qed.
Lemma pcb_i_final pn : bit pn -> Z.land (Z.lor 2 pn) 238 = 2 /\ Z.land (Z.lor 2 pn) 16 = 0.
Proof. intros [-> | ->]; split; reflexivity. Qed.
Lemma pcb_nak pn : bit pn -> Z.land (Z.lor 178 pn) 238 = 162 /\ Z.land (Z.lor 178 pn) 1 = pn /\ Z.land (Z.lor 178 pn) 16 <> 0.
Proof. intros [-> | ->]; repeat split; cbv; congruence. Qed.
Lemma pcb_ack pn : bit pn -> Z.land (Z.lor 162 pn) 238 = 162 /\ Z.land (Z.lor 162 pn) 1 = pn /\ Z.land (Z.lor 162 pn) 16 = 0.
Proof. intros [-> | ->]; repeat split; reflexivity. Qed.

Lemma card_A_iblock pn off c c' r : bit pn -> 0 <= off < len cmd -> CardA pn off c ->
  picc_absorb app kc c (iblock k cmd pn off) = (c', r) ->
  r = Some (last c') /\ wtx_weight c' <= wtx_weight c /\
  (if more_at k cmd off then CardB pn off c' else CardC pn c').
Proof.
  intros Hb Hoff (Hbn & Hp & Hrx & Htx & Hex). unfold iblock, pfb_at.
  assert (Hsl : len (slice cmd off (off + miu k)) + 3 <= cfsc kc)
    by (pose proof (len_slice_le cmd off (miu k)); lia).
  assert (Hw0 : forall c0, pend c0 = None -> plan c0 = plan c -> wtx_weight c0 = wtx_weight c)
    by (intros c0 H1 H2; unfold wtx_weight; rewrite H1, H2, Hp; reflexivity).
  destruct (more_at k cmd off) eqn:Hm.
  - destruct (pcb_i_chain pn Hb) as [H1 H2].
    rewrite picc_iblock_chained by assumption. intro H.
    apply picc_emit_spec in H; [|reflexivity]. destruct H as (-> & (Hc1 & Hc2 & Hc3 & Hc4) & Hem & Hw).
    cbn [bn rxbuf txrest execs] in Hc1, Hc2, Hc3, Hc4.
    match type of Hw with _ <= wtx_weight ?x => rewrite (Hw0 x eq_refl eq_refl) in Hw end.
    split; [reflexivity|]. split; [exact Hw|].
    unfold CardB. rewrite Hbn, flip_flip in Hc1, Hem by assumption.
    repeat split; try congruence.
    rewrite Hc2, Hrx. apply take_slice; lia.
  - destruct (pcb_i_final pn Hb) as [H1 H2].
    rewrite picc_iblock_final by assumption. cbv zeta.
    assert (Hap : rxbuf c ++ slice cmd off (off + miu k) = cmd).
    { rewrite Hrx, take_slice by lia. apply take_all. unfold more_at in Hm. lia. }
    rewrite Hap, Hex, Hbn, flip_flip by assumption. fold R.
    destruct (next_iblock kc pn R) as [ib rest] eqn:Hni. intro H.
    apply picc_emit_spec in H; [|reflexivity]. destruct H as (-> & (Hc1 & Hc2 & Hc3 & Hc4) & Hem & Hw).
    cbn [bn rxbuf txrest execs] in Hc1, Hc2, Hc3, Hc4.
    match type of Hw with _ <= wtx_weight ?x => rewrite (Hw0 x eq_refl eq_refl) in Hw end.
    split; [reflexivity|]. split; [exact Hw|].
    exists ib, rest. repeat split; assumption.
Qed.

Lemma card_A_nak pn off c : bit pn -> CardA pn off c ->
  exists c', picc_absorb app kc c [Z.lor 178 pn] = (c', Some [Z.lor 162 (flip pn)]) /\
             CardA pn off c' /\ wtx_weight c' = wtx_weight c.
Proof.
  intros Hb (Hbn & Hp & Hrx & Htx & Hex). destruct (pcb_nak pn Hb) as (H1 & H2 & H3).
  rewrite picc_nak_other; try assumption; try lia.
  - rewrite Hbn. eexists. split; [reflexivity|]. split.
    + unfold CardA. cbn [bn pend rxbuf txrest execs]. repeat split; assumption.
    + unfold wtx_weight. cbn [pend plan]. rewrite Hp. reflexivity.
  - rewrite H2, Hbn. intro E. symmetry in E. revert E. apply flip_neq, Hb.
Qed.

Lemma card_retry pn blk c pcb : bit pn -> emitted blk c -> blk <> [] -> bn c = pn ->
  pcb = Z.lor 178 pn \/ pcb = Z.lor 162 pn ->
  picc_absorb app kc c [pcb] = (c, Some (last c)).
Proof.
  intros Hb Hem Hne Hbn Hpcb. apply picc_rblock_same; try lia.
  - destruct Hpcb as [-> | ->]; [apply (pcb_nak pn Hb) | apply (pcb_ack pn Hb)].
  - rewrite Hbn. destruct Hpcb as [-> | ->]; [apply (pcb_nak pn Hb) | apply (pcb_ack pn Hb)].
  - eapply emitted_last_nonnil; eassumption.
Qed.

Lemma card_D1_ack pn rsp c c' r : bit pn -> CardD1 pn rsp c ->
  picc_absorb app kc c [Z.lor 162 pn] = (c', r) ->
  r = Some (last c') /\ wtx_weight c' <= wtx_weight c /\ CardD2 pn rsp c'.
Proof.
  intros Hb (Hbn & Hp & Htx & HR & Hrx & Hex). destruct (pcb_ack pn Hb) as (H1 & H2 & H3).
  rewrite picc_ack_other; try assumption; try lia.
  - rewrite Hbn, flip_flip by assumption.
    destruct (next_iblock kc pn (txrest c)) as [ib rest] eqn:Hni. intro H.
    apply picc_emit_spec in H; [|reflexivity]. destruct H as (-> & (Hc1 & Hc2 & Hc3 & Hc4) & Hem & Hw).
    cbn [bn rxbuf txrest execs] in Hc1, Hc2, Hc3, Hc4.
    split; [reflexivity|]. split.
    + unfold wtx_weight in *. cbn [pend plan] in Hw. rewrite Hp. exact Hw.
    + exists (txrest c), ib, rest. repeat split; try assumption; congruence.
  - rewrite H2, Hbn. intro E. symmetry in E. revert E. apply flip_neq, Hb.
Qed.

Lemma CardB_core pn off c c' : CardB pn off c -> same_core c c' -> emitted [Z.lor 162 pn] c' -> CardB pn off c'.
Proof. intros (H1 & H2 & H3 & H4 & _) (E1 & E2 & E3 & E4) Hem. unfold CardB. repeat split; congruence. Qed.
Lemma next_iblock_nonnil b data ib rest : next_iblock kc b data = (ib, rest) -> ib <> [].
Proof. unfold next_iblock. intro H. inversion H. discriminate. Qed.

(* the card has answered already; the reader sends its retry block or the S(WTX) echo *)
Lemma card_answered pn blk c d retry c' r : bit pn -> emitted blk c -> blk <> [] -> bn c = pn ->
  retry = [Z.lor 178 pn] \/ retry = [Z.lor 162 pn] -> rdata retry c d ->
  picc_absorb app kc c d = (c', r) ->
  r = Some (last c') /\ same_core c c' /\ emitted blk c' /\ wtx_weight c' <= wtx_weight c /\
  (kind d = 0 -> wtx_weight c' < wtx_weight c).
Proof.
  intros Hb Hem Hne Hbn Hre [Hd | w ws nxt Hd Hp] H.
  - assert (Hpcb : exists pcb, d = [pcb] /\ (pcb = Z.lor 178 pn \/ pcb = Z.lor 162 pn))
      by (destruct Hre as [-> | ->]; eexists; split; eauto).
    destruct Hpcb as (pcb & -> & Hpcb).
    rewrite (card_retry pn blk c pcb) in H by assumption. inversion H; subst c' r.
    split; [reflexivity|]. split; [repeat split|]. split; [assumption|]. split; [lia|].
    intro Hk. exfalso. destruct Hpcb as [-> | ->]; [rewrite kind_nak in Hk by assumption | rewrite kind_ack in Hk by assumption]; lia.
  - subst d. pose proof (emitted_pend _ _ _ _ _ Hem Hp) as ->.
    apply (picc_wtx_response app kc c w ws blk c' r Hp) in H; [|lia].
    destruct H as (-> & Hc & Hem' & Hw). repeat split; try assumption; try apply Hc; lia.
Qed.

Lemma CardB_step pn off c d c' r : bit pn -> CardB pn off c -> rdata [Z.lor 178 pn] c d ->
  picc_absorb app kc c d = (c', r) ->
  r = Some (last c') /\ CardB pn off c' /\ wtx_weight c' <= wtx_weight c /\ (kind d = 0 -> wtx_weight c' < wtx_weight c).
Proof.
  intros Hb (H1 & H2 & H3 & H4 & Hem) Hd H.
  eapply card_answered in H; try eassumption; [|discriminate|left; reflexivity].
  destruct H as (-> & (E1 & E2 & E3 & E4) & Hem' & Hw & Hw').
  split; [reflexivity|]. split; [|split; assumption]. unfold CardB. repeat split; congruence.
Qed.

Lemma CardC_step pn c d c' r : bit pn -> CardC pn c -> rdata [Z.lor 178 pn] c d ->
  picc_absorb app kc c d = (c', r) ->
  r = Some (last c') /\ CardC pn c' /\ wtx_weight c' <= wtx_weight c /\ (kind d = 0 -> wtx_weight c' < wtx_weight c).
Proof.
  intros Hb (ib & rest & H1 & H2 & H3 & Hni & H4 & Hem) Hd H.
  eapply card_answered in H; try eassumption; [|eapply next_iblock_nonnil; eassumption|left; reflexivity].
  destruct H as (-> & (E1 & E2 & E3 & E4) & Hem' & Hw & Hw').
  split; [reflexivity|]. split; [|split; assumption]. exists ib, rest. repeat split; congruence.
Qed.

Lemma CardD2_step pn rsp c d c' r : bit pn -> CardD2 pn rsp c -> rdata [Z.lor 162 pn] c d ->
  picc_absorb app kc c d = (c', r) ->
  r = Some (last c') /\ CardD2 pn rsp c' /\ wtx_weight c' <= wtx_weight c /\ (kind d = 0 -> wtx_weight c' < wtx_weight c).
Proof.
  intros Hb (T & ib & rest & H1 & HT & HR & Hni & H4 & H5 & H6 & Hem) Hd H.
  eapply card_answered in H; try eassumption; [|eapply next_iblock_nonnil; eassumption|right; reflexivity].
  destruct H as (-> & (E1 & E2 & E3 & E4) & Hem' & Hw & Hw').
  split; [reflexivity|]. split; [|split; assumption]. exists T, ib, rest. repeat split; congruence.
Qed.

Lemma CardB_exec pn off c : CardB pn off c -> exec_ok c.
Proof. intros (_ & _ & _ & H & _). left; exact H. Qed.
Lemma CardC_exec pn c : CardC pn c -> exec_ok c.
Proof. intros (ib & rest & _ & _ & H & _). right; exact H. Qed.
Lemma CardD2_exec pn rsp c : CardD2 pn rsp c -> exec_ok c.
Proof. intros (T & ib & rest & _ & _ & _ & _ & _ & _ & H & _). right; exact H. Qed.
Lemma CardD2_len pn rsp c : CardD2 pn rsp c -> len rsp < len R.
Proof. intros (T & ib & rest & _ & HT & HR & _). rewrite (rsp_len_R _ _ HR). pose proof (nonnil_len T HT). lia. Qed.
Lemma CardD1_len pn rsp c : CardD1 pn rsp c -> len rsp < len R.
Proof. intros (_ & _ & HT & HR & _). rewrite (rsp_len_R _ _ HR). pose proof (nonnil_len _ HT). lia. Qed.

(* ---------------------------------------------------------------- one round, any fate pair *)
Lemma mu_send pn off i d c : mu (mkp pn (PSend off i d)) c = base_send off i c + kind d + 2 * nr pn c.
Proof. reflexivity. Qed.
Lemma mu_recv pn i d rsp c : mu (mkp pn (PRecv i d rsp)) c = base_recv i rsp c + kind d + 2 * nr pn c.
Proof. reflexivity. Qed.

Lemma round_sync p c ff : Sync p c -> is_done p = false ->
  let '(p', c') := round app k kc cmd (p, c) ff in Sync p' c' /\ mu p' c' + 1 <= mu p c.
Proof.
  intros HS Hd. unfold round. rewrite Hd. unfold air. destruct ff as [f1 f2]. cbn [fst snd].
  destruct HS as [pn off i d c Hb Hoff Hdd HA | pn off i d c Hb Hoff Hm HB Hrd | pn off i d c Hb Hoff Hm HC Hrd
                 | pn i rsp c Hb HD | pn i d rsp c Hb HD Hrd | pn c | pn e c]; try discriminate;
    cbn [pcd_emit ph mkp].
  - (* A *)
    assert (HeA : exec_ok c) by (left; apply HA).
    assert (HnrA : nr pn c = 1) by (apply nr_flip; [assumption | apply HA]).
    assert (Hfault : forall a, a = ATimeout \/ a = ATxErr ->
              Sync (pcd_absorb k cmd (mkp pn (PSend off i d)) a) c /\
              mu (pcd_absorb k cmd (mkp pn (PSend off i d)) a) c + 1 <= mu (mkp pn (PSend off i d)) c).
    { intros a Ha. destruct (fault_send pn off i d c a Ha Hb HeA (proj2 Hoff)) as [H1 H2].
      - intro Hi. apply S_A; try assumption. right. split; [reflexivity | lia].
      - split; [exact H1|]. rewrite mu_send. pose proof (kind_le d). lia. }
    destruct f1; [| apply Hfault; left; reflexivity | apply Hfault; left; reflexivity].
    destruct Hdd as [-> | [-> Hi]].
    + (* the I-block reaches the card *)
      destruct (picc_absorb app kc c (iblock k cmd pn off)) as [c' r] eqn:E.
      apply (card_A_iblock pn off c c' r Hb Hoff HA) in E. destruct E as (-> & Hw & HC').
      rewrite mu_send, kind_iblock, HnrA by assumption.
      pose proof (base_send_mono off i c c' Hw) as Hbm.
      destruct (more_at k cmd off) eqn:Hm.
      * assert (Hnr' : nr pn c' = 0) by (apply nr_same, HC').
        destruct f2.
        -- destruct (absorb_B pn off i (iblock k cmd pn off) c' Hb Hoff Hm HC') as [H1 H2]. split; [apply Clean_Sync, H1 | lia].
        -- destruct (fault_send pn off i (iblock k cmd pn off) c' ATimeout (or_introl eq_refl) Hb (CardB_exec _ _ _ HC') (proj2 Hoff)) as [H1 H2].
           ++ intros _. apply S_B; try assumption. apply Rd_retry; reflexivity.
           ++ split; [exact H1 | lia].
        -- destruct (fault_send pn off i (iblock k cmd pn off) c' ATxErr (or_intror eq_refl) Hb (CardB_exec _ _ _ HC') (proj2 Hoff)) as [H1 H2].
           ++ intros _. apply S_B; try assumption. apply Rd_retry; reflexivity.
           ++ split; [exact H1 | lia].
      * assert (Hnr' : nr pn c' = 0) by (apply nr_same; destruct HC' as (? & ? & ? & _); assumption).
        destruct f2.
        -- destruct (absorb_C pn off i (iblock k cmd pn off) c' Hb Hoff Hm HC') as [H1 H2]. split; [apply Clean_Sync, H1 | lia].
        -- destruct (fault_send pn off i (iblock k cmd pn off) c' ATimeout (or_introl eq_refl) Hb (CardC_exec _ _ HC') (proj2 Hoff)) as [H1 H2].
           ++ intros _. apply S_C; try assumption. apply Rd_retry; reflexivity.
           ++ split; [exact H1 | lia].
        -- destruct (fault_send pn off i (iblock k cmd pn off) c' ATxErr (or_intror eq_refl) Hb (CardC_exec _ _ HC') (proj2 Hoff)) as [H1 H2].
           ++ intros _. apply S_C; try assumption. apply Rd_retry; reflexivity.
           ++ split; [exact H1 | lia].
    + (* R(NAK) reaches a card that has not seen the block: rule 12 *)
      destruct (card_A_nak pn off c Hb HA) as (c' & -> & HA' & Hw).
      assert (HeA' : exec_ok c') by (left; apply HA').
      assert (HnrA' : nr pn c' = 1) by (apply nr_flip; [assumption | apply HA']).
      rewrite mu_send, kind_nak, HnrA by assumption.
      assert (Hbm : base_send off i c' = base_send off i c) by (unfold base_send; rewrite Hw; reflexivity).
      destruct f2.
      * rewrite send_rx_rack_other by assumption.
        destruct (if fix_rack k then i <=? n_nak k + 1 else true).
        -- split; [apply S_A; try assumption; left; reflexivity|].
           rewrite mu_send, kind_iblock, HnrA' by assumption. unfold base_send in *. rewrite Hw. unfold cap. lia.
        -- split; [apply S_Err, HeA'|]. unfold mu. cbn [ph mkp tagerr]. unfold base_send.
           pose proof KK_ge. pose proof (wtx_weight_nonneg c). pose proof (len_nonneg R).
           assert (KK * 2 <= KK * (len cmd - off + len R + 2)) by (apply Z.mul_le_mono_nonneg_l; lia). lia.
      * destruct (fault_send pn off i [Z.lor 178 pn] c' ATimeout (or_introl eq_refl) Hb HeA' (proj2 Hoff)) as [H1 H2].
        -- intro Hi'. apply S_A; try assumption. right. split; [reflexivity | lia].
        -- split; [exact H1 | lia].
      * destruct (fault_send pn off i [Z.lor 178 pn] c' ATxErr (or_intror eq_refl) Hb HeA' (proj2 Hoff)) as [H1 H2].
        -- intro Hi'. apply S_A; try assumption. right. split; [reflexivity | lia].
        -- split; [exact H1 | lia].
  - (* B *)
    assert (Hnr : nr pn c = 0) by (apply nr_same, HB).
    rewrite mu_send, Hnr.
    assert (Hfault : forall a c', a = ATimeout \/ a = ATxErr -> CardB pn off c' -> wtx_weight c' <= wtx_weight c ->
              Sync (pcd_absorb k cmd (mkp pn (PSend off i d)) a) c' /\
              mu (pcd_absorb k cmd (mkp pn (PSend off i d)) a) c' + 1 <= base_send off i c + kind d + 2 * 0).
    { intros a c' Ha HB' Hw. destruct (fault_send pn off i d c' a Ha Hb (CardB_exec _ _ _ HB') (proj2 Hoff)) as [H1 H2].
      - intros _. apply S_B; try assumption. apply Rd_retry; reflexivity.
      - split; [exact H1|]. pose proof (base_send_mono off i c c' Hw). pose proof (kind_le d).
        rewrite (nr_same pn c') in H2 by apply HB'. lia. }
    destruct f1; [| apply Hfault; [left; reflexivity | assumption | lia] | apply Hfault; [left; reflexivity | assumption | lia]].
    destruct (picc_absorb app kc c d) as [c' r] eqn:E.
    apply (CardB_step pn off c d c' r Hb HB Hrd) in E. destruct E as (-> & HB' & Hw & Hw').
    destruct f2; [| apply Hfault; [left; reflexivity | assumption | assumption] | apply Hfault; [right; reflexivity | assumption | assumption]].
    destruct (absorb_B pn off i d c' Hb Hoff Hm HB') as [H1 H2]. split; [apply Clean_Sync, H1|].
    pose proof (base_send_mono off i c c' Hw). pose proof (kind_le d).
    destruct (Z.eq_dec (kind d) 0) as [Hk | Hk]; [specialize (Hw' Hk); unfold base_send in *; lia | lia].
  - (* C *)
    assert (Hnr : nr pn c = 0) by (apply nr_same; destruct HC as (? & ? & ? & _); assumption).
    rewrite mu_send, Hnr.
    assert (Hfault : forall a c', a = ATimeout \/ a = ATxErr -> CardC pn c' -> wtx_weight c' <= wtx_weight c ->
              Sync (pcd_absorb k cmd (mkp pn (PSend off i d)) a) c' /\
              mu (pcd_absorb k cmd (mkp pn (PSend off i d)) a) c' + 1 <= base_send off i c + kind d + 2 * 0).
    { intros a c' Ha HC' Hw. destruct (fault_send pn off i d c' a Ha Hb (CardC_exec _ _ HC') (proj2 Hoff)) as [H1 H2].
      - intros _. apply S_C; try assumption. apply Rd_retry; reflexivity.
      - split; [exact H1|]. pose proof (base_send_mono off i c c' Hw). pose proof (kind_le d).
        rewrite (nr_same pn c') in H2 by (destruct HC' as (? & ? & ? & _); assumption). lia. }
    destruct f1; [| apply Hfault; [left; reflexivity | assumption | lia] | apply Hfault; [left; reflexivity | assumption | lia]].
    destruct (picc_absorb app kc c d) as [c' r] eqn:E.
    apply (CardC_step pn c d c' r Hb HC Hrd) in E. destruct E as (-> & HC' & Hw & Hw').
    destruct f2; [| apply Hfault; [left; reflexivity | assumption | assumption] | apply Hfault; [right; reflexivity | assumption | assumption]].
    destruct (absorb_C pn off i d c' Hb Hoff Hm HC') as [H1 H2]. split; [apply Clean_Sync, H1|].
    pose proof (base_send_mono off i c c' Hw). pose proof (kind_le d).
    destruct (Z.eq_dec (kind d) 0) as [Hk | Hk]; [specialize (Hw' Hk); unfold base_send in *; lia | lia].
  - (* D1 *)
    assert (HeD : exec_ok c) by (right; apply HD).
    assert (Hnr : nr pn c = 1) by (apply nr_flip; [assumption | apply HD]).
    rewrite mu_recv, kind_ack, Hnr by assumption.
    assert (Hfault1 : forall a, a = ATimeout \/ a = ATxErr ->
              Sync (pcd_absorb k cmd (mkp pn (PRecv i [Z.lor 162 pn] rsp)) a) c /\
              mu (pcd_absorb k cmd (mkp pn (PRecv i [Z.lor 162 pn] rsp)) a) c + 1 <= base_recv i rsp c + 1 + 2 * 1).
    { intros a Ha. destruct (fault_recv pn i [Z.lor 162 pn] rsp c a Ha Hb HeD (CardD1_len _ _ _ HD)) as [H1 H2].
      - intros _. apply S_D1; assumption.
      - split; [exact H1|]. lia. }
    destruct f1; [| apply Hfault1; left; reflexivity | apply Hfault1; left; reflexivity].
    destruct (picc_absorb app kc c [Z.lor 162 pn]) as [c' r] eqn:E.
    apply (card_D1_ack pn rsp c c' r Hb HD) in E. destruct E as (-> & Hw & HD').
    pose proof (base_recv_mono i rsp c c' Hw) as Hbm.
    assert (Hnr' : nr pn c' = 0) by (apply nr_same; destruct HD' as (? & ? & ? & ? & _); assumption).
    assert (Hfault2 : forall a, a = ATimeout \/ a = ATxErr ->
              Sync (pcd_absorb k cmd (mkp pn (PRecv i [Z.lor 162 pn] rsp)) a) c' /\
              mu (pcd_absorb k cmd (mkp pn (PRecv i [Z.lor 162 pn] rsp)) a) c' + 1 <= base_recv i rsp c + 1 + 2 * 1).
    { intros a Ha. destruct (fault_recv pn i [Z.lor 162 pn] rsp c' a Ha Hb (CardD2_exec _ _ _ HD') (CardD2_len _ _ _ HD')) as [H1 H2].
      - intros _. apply S_D2; try assumption. apply Rd_retry; reflexivity.
      - split; [exact H1|]. lia. }
    destruct f2; [| apply Hfault2; left; reflexivity | apply Hfault2; right; reflexivity].
    destruct (absorb_D2 pn i [Z.lor 162 pn] rsp c' Hb HD') as [H1 H2]. split; [apply Clean_Sync, H1 | lia].
  - (* D2 *)
    assert (Hnr : nr pn c = 0) by (apply nr_same; destruct HD as (? & ? & ? & ? & _); assumption).
    rewrite mu_recv, Hnr.
    assert (Hfault : forall a c', a = ATimeout \/ a = ATxErr -> CardD2 pn rsp c' -> wtx_weight c' <= wtx_weight c ->
              Sync (pcd_absorb k cmd (mkp pn (PRecv i d rsp)) a) c' /\
              mu (pcd_absorb k cmd (mkp pn (PRecv i d rsp)) a) c' + 1 <= base_recv i rsp c + kind d + 2 * 0).
    { intros a c' Ha HD' Hw. destruct (fault_recv pn i d rsp c' a Ha Hb (CardD2_exec _ _ _ HD') (CardD2_len _ _ _ HD')) as [H1 H2].
      - intros _. apply S_D2; try assumption. apply Rd_retry; reflexivity.
      - split; [exact H1|]. pose proof (base_recv_mono i rsp c c' Hw). pose proof (kind_le d).
        rewrite (nr_same pn c') in H2 by (destruct HD' as (? & ? & ? & ? & _); assumption). lia. }
    destruct f1; [| apply Hfault; [left; reflexivity | assumption | lia] | apply Hfault; [left; reflexivity | assumption | lia]].
    destruct (picc_absorb app kc c d) as [c' r] eqn:E.
    apply (CardD2_step pn rsp c d c' r Hb HD Hrd) in E. destruct E as (-> & HD' & Hw & Hw').
    destruct f2; [| apply Hfault; [left; reflexivity | assumption | assumption] | apply Hfault; [right; reflexivity | assumption | assumption]].
    destruct (absorb_D2 pn i d rsp c' Hb HD') as [H1 H2]. split; [apply Clean_Sync, H1|].
    pose proof (base_recv_mono i rsp c c' Hw). pose proof (kind_le d).
    destruct (Z.eq_dec (kind d) 0) as [Hk | Hk]; [specialize (Hw' Hk); unfold base_recv in *; lia | lia].
Qed.

(* ---------------------------------------------------------------- one fault-free round *)
Lemma round_clean p c : Clean p c -> is_done p = false ->
  let '(p', c') := round app k kc cmd (p, c) (FD, FD) in Clean p' c'.
Proof.
  intros HC Hd. unfold round. rewrite Hd. unfold air. cbn [fst snd].
  destruct HC as [pn off i c Hb Ho HA | pn off i c w ws nxt Hb Ho Hm HB Hp | pn off i c w ws nxt Hb Ho Hm HC Hp
                 | pn i rsp c Hb HD | pn i rsp c w ws nxt Hb HD Hp | pn c]; try discriminate;
    cbn [pcd_emit ph mkp].
  - destruct (picc_absorb app kc c (iblock k cmd pn off)) as [c' r] eqn:E.
    apply (card_A_iblock pn off c c' r Hb Ho HA) in E. destruct E as (-> & Hw & HC').
    destruct (more_at k cmd off) eqn:Hm; [apply absorb_B | apply absorb_C]; assumption.
  - destruct (picc_absorb app kc c [242; w]) as [c' r] eqn:E.
    apply (CardB_step pn off c _ c' r Hb HB (Rd_echo _ _ _ w ws nxt eq_refl Hp)) in E.
    destruct E as (-> & HB' & _). apply absorb_B; assumption.
  - destruct (picc_absorb app kc c [242; w]) as [c' r] eqn:E.
    apply (CardC_step pn c _ c' r Hb HC (Rd_echo _ _ _ w ws nxt eq_refl Hp)) in E.
    destruct E as (-> & HC' & _). apply absorb_C; assumption.
  - destruct (picc_absorb app kc c [Z.lor 162 pn]) as [c' r] eqn:E.
    apply (card_D1_ack pn rsp c c' r Hb HD) in E. destruct E as (-> & _ & HD').
    apply absorb_D2; assumption.
  - destruct (picc_absorb app kc c [242; w]) as [c' r] eqn:E.
    apply (CardD2_step pn rsp c _ c' r Hb HD (Rd_echo _ _ _ w ws nxt eq_refl Hp)) in E.
    destruct E as (-> & HD' & _). apply absorb_D2; assumption.
Qed.

(* ---------------------------------------------------------------- facts about related states *)
Lemma Sync_exec p c : Sync p c -> exec_ok c.
Proof.
  intro H. destruct H as [pn off i d c Hb Hoff Hdd HA | pn off i d c Hb Hoff Hm HB Hrd | pn off i d c Hb Hoff Hm HC Hrd
                         | pn i rsp c Hb HD | pn i d rsp c Hb HD Hrd | pn c Hb H1 H2 H3 H4 H5 | pn e c He].
  - left; apply HA.
  - eapply CardB_exec; eassumption.
  - eapply CardC_exec; eassumption.
  - right; apply HD.
  - eapply CardD2_exec; eassumption.
  - right; assumption.
  - assumption.
Qed.

Lemma mu_pos p c : Sync p c -> is_done p = false -> 1 <= mu p c.
Proof.
  intros H Hd. pose proof KK_ge.
  destruct H as [pn off i d c Hb Hoff Hdd HA | pn off i d c Hb Hoff Hm HB Hrd | pn off i d c Hb Hoff Hm HC Hrd
                | pn i rsp c Hb HD | pn i d rsp c Hb HD Hrd | pn c | pn e c]; try discriminate.
  1-3: rewrite mu_send; unfold base_send; pose proof (kind_le d); pose proof (nr_le pn c);
       pose proof (wtx_weight_nonneg c); pose proof (len_nonneg R);
       assert (KK * 2 <= KK * (len cmd - off + len R + 2)) by (apply Z.mul_le_mono_nonneg_l; lia); lia.
  - rewrite mu_recv; unfold base_recv. pose proof (kind_le [Z.lor 162 pn]). pose proof (nr_le pn c).
    pose proof (wtx_weight_nonneg c). pose proof (CardD1_len _ _ _ HD).
    assert (KK * 1 <= KK * (len R - len rsp)) by (apply Z.mul_le_mono_nonneg_l; lia). lia.
  - rewrite mu_recv; unfold base_recv. pose proof (kind_le d). pose proof (nr_le pn c).
    pose proof (wtx_weight_nonneg c). pose proof (CardD2_len _ _ _ HD).
    assert (KK * 1 <= KK * (len R - len rsp)) by (apply Z.mul_le_mono_nonneg_l; lia). lia.
Qed.

Lemma mu_done p c : is_done p = true -> mu p c = 0.
Proof. unfold is_done, mu. destruct (ph p); try discriminate. reflexivity. Qed.

(* every block the reader hands to clf.exchange fits the frame size: PCB + INF + 2 EDC bytes <= miu + 3 = FSC *)
Definition blk_ok (b : bytes) : Prop := len b + 2 <= miu k + 3.

Lemma sync_emit_ok p c : Sync p c -> is_done p = false -> blk_ok (pcd_emit p).
Proof.
  intros H Hd. unfold blk_ok.
  assert (Hrd : forall retry c d, rdata retry c d -> len retry = 1 -> len d + 2 <= miu k + 3).
  { intros retry c0 d [-> | w ws nxt -> _] Hl; [lia | cbn; lia]. }
  destruct H as [pn off i d c Hb Hoff Hdd HA | pn off i d c Hb Hoff Hm HB Hrd' | pn off i d c Hb Hoff Hm HC Hrd'
                | pn i rsp c Hb HD | pn i d rsp c Hb HD Hrd' | pn c | pn e c]; try discriminate;
    cbn [pcd_emit ph mkp].
  - destruct Hdd as [-> | [-> _]]; [|cbn; lia].
    unfold iblock. rewrite len_cons. pose proof (len_slice_le cmd off (miu k)). lia.
  - eapply Hrd; [eassumption | reflexivity].
  - eapply Hrd; [eassumption | reflexivity].
  - cbn; lia.
  - eapply Hrd; [eassumption | reflexivity].
Qed.

(* ---------------------------------------------------------------- the whole exchange *)
Lemma run_done fuel p c sc tr r : ph p = PDone r ->
  run app fuel k kc cmd p c sc tr = {| o_res := r; o_pni := pni p; o_card := c; o_blocks := rev tr |}.
Proof. intro H. destruct fuel; cbn [run]; rewrite H; reflexivity. Qed.
Lemma run_zero p c sc tr : is_done p = false ->
  run app 0 k kc cmd p c sc tr = {| o_res := Hang; o_pni := pni p; o_card := c; o_blocks := rev tr |}.
Proof. unfold is_done. intro H. cbn [run]. destruct (ph p); try discriminate; reflexivity. Qed.
Lemma run_step f p c sc tr : is_done p = false ->
  run app (S f) k kc cmd p c sc tr =
  let ff := match sc with [] => (FD, FD) | x :: _ => x end in
  let '(p', c') := round app k kc cmd (p, c) ff in
  run app f k kc cmd p' c' (tl sc) (pcd_emit p :: tr).
Proof. unfold is_done. intro H. cbn [run]. destruct (ph p); try discriminate; reflexivity. Qed.

Lemma is_done_ph p : is_done p = true -> exists r, ph p = PDone r.
Proof. unfold is_done. destruct (ph p); try discriminate. eauto. Qed.

Lemma Forall_rev_cons {A} (P : A -> Prop) x l : Forall P (rev l) -> P x -> Forall P (rev (x :: l)).
Proof. intros H Hx. cbn [rev]. apply Forall_app. split; [assumption|]. constructor; [assumption|constructor]. Qed.

Definition final_ok (o : outcome) : Prop :=
  (o_res o = Ok R /\ bit (o_pni o) /\ bn (o_card o) = flip (o_pni o) /\ pend (o_card o) = None /\
   txrest (o_card o) = [] /\ rxbuf (o_card o) = [] /\ execs (o_card o) = e0 ++ [cmd])
  \/ (exists e, o_res o = Err (TagCommandError e)).

Lemma sync_done_final p c r : Sync p c -> ph p = PDone r ->
  final_ok {| o_res := r; o_pni := pni p; o_card := c; o_blocks := [] |}.
Proof.
  intros H Hp. unfold final_ok. cbn [o_res o_pni o_card].
  destruct H as [pn off i d c Hb Hoff Hdd HA | pn off i d c Hb Hoff Hm HB Hrd | pn off i d c Hb Hoff Hm HC Hrd
                | pn i rsp c Hb HD | pn i d rsp c Hb HD Hrd | pn c Hb H1 H2 H3 H4 H5 | pn e c He];
    cbn [ph mkp pni tagerr] in Hp |- *; try discriminate; inversion Hp; subst r.
  - left. repeat split; assumption.
  - right. eauto.
Qed.

Lemma run_sync fuel : forall p c sc tr, Sync p c -> Forall blk_ok (rev tr) ->
  let o := run app fuel k kc cmd p c sc tr in
  Forall blk_ok (o_blocks o) /\ exec_ok (o_card o) /\
  ((o_res o = Hang /\ Z.of_nat fuel < mu p c) \/
   final_ok {| o_res := o_res o; o_pni := o_pni o; o_card := o_card o; o_blocks := [] |}).
Proof.
  induction fuel as [|f IH]; intros p c sc tr HS Htr; cbv zeta.
  - destruct (is_done p) eqn:Hd.
    + destruct (is_done_ph p Hd) as [r Hr]. rewrite (run_done 0 p c sc tr r Hr). cbn [o_res o_pni o_card o_blocks].
      split; [assumption|]. split; [eapply Sync_exec; eassumption|]. right. eapply sync_done_final; eassumption.
    + rewrite run_zero by assumption. cbn [o_res o_pni o_card o_blocks].
      split; [assumption|]. split; [eapply Sync_exec; eassumption|]. left. split; [reflexivity|].
      pose proof (mu_pos p c HS Hd). lia.
  - destruct (is_done p) eqn:Hd.
    + destruct (is_done_ph p Hd) as [r Hr]. rewrite (run_done (S f) p c sc tr r Hr). cbn [o_res o_pni o_card o_blocks].
      split; [assumption|]. split; [eapply Sync_exec; eassumption|]. right. eapply sync_done_final; eassumption.
    + rewrite run_step by assumption. cbv zeta.
      pose proof (round_sync p c (match sc with [] => (FD, FD) | x :: _ => x end) HS Hd) as Hr.
      destruct (round app k kc cmd (p, c) (match sc with [] => (FD, FD) | x :: _ => x end)) as [p' c'].
      destruct Hr as [HS' Hmu].
      specialize (IH p' c' (tl sc) (pcd_emit p :: tr) HS'
                    (Forall_rev_cons _ _ _ Htr (sync_emit_ok p c HS Hd))).
      cbv zeta in IH. destruct IH as (H1 & H2 & H3).
      split; [assumption|]. split; [assumption|].
      destruct H3 as [[Hh Hlt] | Hfin]; [left; split; [assumption | lia] | right; assumption].
Qed.

(* fault-free scripts *)
Definition nofault (sc : list (fate * fate)) : Prop := Forall (fun ff => ff = (FD, FD)) sc.

Lemma run_clean fuel : forall p c sc tr, Clean p c -> nofault sc ->
  let o := run app fuel k kc cmd p c sc tr in
  o_res o = Hang \/ (o_res o = Ok R /\ execs (o_card o) = e0 ++ [cmd]).
Proof.
  induction fuel as [|f IH]; intros p c sc tr HC Hsc; cbv zeta.
  - destruct (is_done p) eqn:Hd.
    + destruct (is_done_ph p Hd) as [r Hr]. rewrite (run_done 0 p c sc tr r Hr). cbn [o_res o_card]. right.
      destruct HC; cbn [ph mkp] in Hr; try discriminate. inversion Hr; subst r. split; [reflexivity | assumption].
    + rewrite run_zero by assumption. left; reflexivity.
  - destruct (is_done p) eqn:Hd.
    + destruct (is_done_ph p Hd) as [r Hr]. rewrite (run_done (S f) p c sc tr r Hr). cbn [o_res o_card]. right.
      destruct HC; cbn [ph mkp] in Hr; try discriminate. inversion Hr; subst r. split; [reflexivity | assumption].
    + rewrite run_step by assumption. cbv zeta.
      assert (Hff : match sc with [] => (FD, FD) | x :: _ => x end = (FD, FD))
        by (destruct sc as [|x sc']; [reflexivity | inversion Hsc; assumption]).
      rewrite Hff. pose proof (round_clean p c HC Hd) as Hr.
      destruct (round app k kc cmd (p, c) (FD, FD)) as [p' c'].
      apply IH; [assumption|]. destruct sc as [|x sc']; [constructor | inversion Hsc; assumption].
Qed.

(* ---------------------------------------------------------------- entry: reader and card in step *)
Definition Start (pn : Z) (c : picc) : Prop :=
  bit pn /\ bn c = flip pn /\ pend c = None /\ rxbuf c = [] /\ txrest c = [] /\ execs c = e0.

Lemma start_clean pn c : Start pn c -> 0 < len cmd -> Clean (pcd_start k cmd pn) c.
Proof.
  intros (Hb & Hbn & Hp & Hrx & Htx & Hex) Hc. unfold pcd_start.
  replace (miu k =? 0) with false by lia. replace ((len cmd <=? 0) || (miu k <? 0)) with false by lia.
  apply C_A; [assumption | lia |]. unfold CardA. rewrite take_0. repeat split; assumption.
Qed.

Definition fuel_bound (c : picc) : Z := KK * (len cmd + len R + 2) + 3 * wtx_weight c + 3 * Z.max 0 cap + 3.

Lemma start_mu pn c : Start pn c -> 0 < len cmd -> mu (pcd_start k cmd pn) c <= fuel_bound c.
Proof.
  intros (Hb & Hbn & _) Hc. unfold pcd_start.
  replace (miu k =? 0) with false by lia. replace ((len cmd <=? 0) || (miu k <? 0)) with false by lia.
  unfold mu. cbn [ph pni]. rewrite kind_iblock by assumption. pose proof (nr_le pn c).
  unfold base_send, fuel_bound, cap. replace (len cmd - 0) with (len cmd) by lia. lia.
Qed.

(* ---------------------------------------------------------------- faults within the budget are absorbed *)
(* With f faulty rounds so far the retry counter i of the current step is at most 2f+1 (each fault costs one
   iteration, each R(NAK)/R(ACK)-retransmit pair one more), at most 2f while an R(NAK) is pending.  A fault is
   absorbed while i <= budget, so F faulty rounds in the whole exchange are absorbed when 2F-1 <= budget. *)
Definition is_nak (d : bytes) : bool := match d with b :: _ => (b =? 178) || (b =? 179) | [] => false end.
Definition live_ph (f : Z) (p : pcd) : Prop :=
  match ph p with
  | PSend off i d => i <= 2 * f + 1 /\ (is_nak d = true -> i <= 2 * f)
  | PRecv i d rsp => i <= 2 * f + 1
  | PDone (Ok _) => True
  | _ => False
  end.

Lemma is_nak_iblock pn off : bit pn -> is_nak (iblock k cmd pn off) = false.
Proof. intros [-> | ->]; unfold iblock, pfb_at, is_nak; destruct (more_at k cmd off); reflexivity. Qed.
Lemma is_nak_nak pn : bit pn -> is_nak [Z.lor 178 pn] = true.
Proof. intros [-> | ->]; reflexivity. Qed.

Lemma Clean_live f p c : Clean p c -> 0 <= f -> ival p <= 2 * f + 1 -> live_ph f p.
Proof.
  intro H; destruct H; intros Hf Hi; unfold live_ph; cbn [ph mkp ival] in *.
  - split; [lia|]. rewrite is_nak_iblock by assumption. discriminate.
  - split; [lia|]. cbn. discriminate.
  - split; [lia|]. cbn. discriminate.
  - lia.
  - lia.
  - exact I.
Qed.

Lemma live_ival f p : live_ph f p -> 0 <= f -> ival p <= 2 * f + 1.
Proof. unfold live_ph, ival. destruct (ph p); intros H Hf; try lia. Qed.

(* a fault-free round from ANY related state: the reader is back on the fault-free track,
   or it was answering rule 12's R(ACK) by a retransmission *)
Lemma round_dd p c : Sync p c -> is_done p = false ->
  let '(p', c') := round app k kc cmd (p, c) (FD, FD) in
  (Clean p' c' /\ ival p' <= Z.max 1 (ival p)) \/
  (exists pn off i, p = mkp pn (PSend off i [Z.lor 178 pn]) /\ bit pn /\
     p' = if (if fix_rack k then i <=? n_nak k + 1 else true)
          then mkp pn (PSend off (i + 1) (iblock k cmd pn off)) else mkp pn (tagerr E_PROTOCOL)).
Proof.
  intros HS Hd. unfold round. rewrite Hd. unfold air. cbn [fst snd].
  destruct HS as [pn off i d c Hb Hoff Hdd HA | pn off i d c Hb Hoff Hm HB Hrd | pn off i d c Hb Hoff Hm HC Hrd
                 | pn i rsp c Hb HD | pn i d rsp c Hb HD Hrd | pn c | pn e c]; try discriminate;
    cbn [pcd_emit ph mkp ival].
  - destruct Hdd as [-> | [-> Hi]].
    + destruct (picc_absorb app kc c (iblock k cmd pn off)) as [c' r] eqn:E.
      apply (card_A_iblock pn off c c' r Hb Hoff HA) in E. destruct E as (-> & Hw & HC').
      left. destruct (more_at k cmd off) eqn:Hm.
      * destruct (absorb_B pn off i (iblock k cmd pn off) c' Hb Hoff Hm HC') as (H1 & _ & H3). split; assumption.
      * destruct (absorb_C pn off i (iblock k cmd pn off) c' Hb Hoff Hm HC') as (H1 & _ & H3). split; assumption.
    + destruct (card_A_nak pn off c Hb HA) as (c' & -> & HA' & Hw).
      right. exists pn, off, i. split; [reflexivity|]. split; [assumption|].
      apply send_rx_rack_other; assumption.
  - destruct (picc_absorb app kc c d) as [c' r] eqn:E.
    apply (CardB_step pn off c d c' r Hb HB Hrd) in E. destruct E as (-> & HB' & _).
    left. destruct (absorb_B pn off i d c' Hb Hoff Hm HB') as (H1 & _ & H3). split; assumption.
  - destruct (picc_absorb app kc c d) as [c' r] eqn:E.
    apply (CardC_step pn c d c' r Hb HC Hrd) in E. destruct E as (-> & HC' & _).
    left. destruct (absorb_C pn off i d c' Hb Hoff Hm HC') as (H1 & _ & H3). split; assumption.
  - destruct (picc_absorb app kc c [Z.lor 162 pn]) as [c' r] eqn:E.
    apply (card_D1_ack pn rsp c c' r Hb HD) in E. destruct E as (-> & _ & HD').
    left. destruct (absorb_D2 pn i [Z.lor 162 pn] rsp c' Hb HD') as (H1 & _ & H3). split; assumption.
  - destruct (picc_absorb app kc c d) as [c' r] eqn:E.
    apply (CardD2_step pn rsp c d c' r Hb HD Hrd) in E. destruct E as (-> & HD' & _).
    left. destruct (absorb_D2 pn i d rsp c' Hb HD') as (H1 & _ & H3). split; assumption.
Qed.

Definition is_dd (ff : fate * fate) : bool := match ff with (FD, FD) => true | _ => false end.
Lemma is_dd_eq ff : is_dd ff = true -> ff = (FD, FD).
Proof. destruct ff as [[| |] [| |]]; cbn; congruence. Qed.

(* a faulty round: whatever the card does, the reader sees a timeout or a transmission error *)
Lemma round_fault p c ff : is_dd ff = false -> is_done p = false ->
  exists a, (a = ATimeout \/ a = ATxErr) /\ fst (round app k kc cmd (p, c) ff) = pcd_absorb k cmd p a.
Proof.
  intros Hff Hd. unfold round. rewrite Hd. unfold air.
  destruct ff as [f1 f2]. cbn [fst snd].
  destruct f1; [| exists ATimeout; split; [left|]; reflexivity | exists ATimeout; split; [left|]; reflexivity].
  destruct (picc_absorb app kc c (pcd_emit p)) as [c' [rsp|]].
  - destruct f2; [discriminate | exists ATimeout; split; [left|]; reflexivity | exists ATxErr; split; [right|]; reflexivity].
  - exists ATimeout; split; [left|]; reflexivity.
Qed.

Lemma live_fault f p a : live_ph f p -> 0 <= f -> 2 * f + 1 <= n_nak k -> 2 * f + 1 <= n_ack k ->
  a = ATimeout \/ a = ATxErr -> live_ph (f + 1) (pcd_absorb k cmd p a).
Proof.
  intros Hl Hf Hn1 Hn2 Ha. destruct p as [pn f0]. unfold live_ph in Hl. cbn [ph] in Hl.
  destruct f0 as [off i d | off d | i d rsp | r]; try contradiction.
  - change {| pni := pn; ph := PSend off i d |} with (mkp pn (PSend off i d)).
    rewrite send_timeout by assumption. replace (i <=? n_nak k) with true by lia.
    unfold live_ph. cbn [ph mkp]. split; lia.
  - change {| pni := pn; ph := PRecv i d rsp |} with (mkp pn (PRecv i d rsp)).
    rewrite recv_timeout by assumption. replace (i <=? n_ack k) with true by lia.
    unfold live_ph. cbn [ph mkp]. lia.
  - destruct r; try contradiction. exact I.
Qed.

Fixpoint faults (sc : list (fate * fate)) : Z :=
  match sc with [] => 0 | ff :: t => (if is_dd ff then 0 else 1) + faults t end.
Lemma faults_nonneg sc : 0 <= faults sc.
Proof. induction sc as [|ff t IH]; cbn [faults]; [lia|]. destruct (is_dd ff); lia. Qed.

Lemma run_live fuel : forall p c sc tr f F, Sync p c -> live_ph f p -> 0 <= f -> f + faults sc <= F ->
  2 * F - 1 <= n_nak k -> 2 * F - 1 <= n_ack k ->
  let o := run app fuel k kc cmd p c sc tr in
  o_res o = Hang \/ (o_res o = Ok R /\ execs (o_card o) = e0 ++ [cmd]).
Proof.
  induction fuel as [|fu IH]; intros p c sc tr f F HS Hl Hf HF Hn1 Hn2; cbv zeta.
  - destruct (is_done p) eqn:Hd; [|rewrite run_zero by assumption; left; reflexivity].
    destruct (is_done_ph p Hd) as [r Hr]. rewrite (run_done 0 p c sc tr r Hr). cbn [o_res o_card]. right.
    unfold live_ph in Hl. rewrite Hr in Hl. destruct r; try contradiction.
    destruct HS; cbn [ph mkp tagerr] in Hr; try discriminate. inversion Hr. split; [reflexivity | assumption].
  - destruct (is_done p) eqn:Hd.
    { destruct (is_done_ph p Hd) as [r Hr]. rewrite (run_done (S fu) p c sc tr r Hr). cbn [o_res o_card]. right.
      unfold live_ph in Hl. rewrite Hr in Hl. destruct r; try contradiction.
      destruct HS; cbn [ph mkp tagerr] in Hr; try discriminate. inversion Hr. split; [reflexivity | assumption]. }
    rewrite run_step by assumption. cbv zeta.
    set (ff := match sc with [] => (FD, FD) | x :: _ => x end).
    pose proof (faults_nonneg sc) as Hfs. pose proof (faults_nonneg (tl sc)) as Hft.
    pose proof (round_sync p c ff HS Hd) as Hrs.
    destruct (is_dd ff) eqn:Edd.
    + (* fault-free round *)
      assert (Hfl : faults (tl sc) <= faults sc) by (destruct sc as [|x t]; cbn [tl faults]; [lia | destruct (is_dd x); lia]).
      apply is_dd_eq in Edd. rewrite Edd in *.
      pose proof (round_dd p c HS Hd) as Hdd.
      destruct (round app k kc cmd (p, c) (FD, FD)) as [p' c']. destruct Hrs as [HS' _].
      apply (IH p' c' (tl sc) _ f F); try assumption; try lia.
      destruct Hdd as [[HC Hi] | (pn & off & i & -> & Hb & ->)].
      * eapply Clean_live; [eassumption | assumption |]. pose proof (live_ival f p Hl Hf). lia.
      * unfold live_ph in Hl. cbn [ph mkp] in Hl. destruct Hl as [Hl1 Hl2].
        specialize (Hl2 (is_nak_nak pn Hb)).
        replace (if fix_rack k then i <=? n_nak k + 1 else true) with true by (destruct (fix_rack k); lia).
        unfold live_ph. cbn [ph mkp]. split; [lia|]. rewrite is_nak_iblock by assumption. discriminate.
    + (* faulty round *)
      assert (Hfl : faults (tl sc) = faults sc - 1).
      { destruct sc as [|x t]; [subst ff; discriminate|]. subst ff. cbn [tl faults]. rewrite Edd. lia. }
      destruct (round_fault p c ff Edd Hd) as (a & Ha & Hp').
      destruct (round app k kc cmd (p, c) ff) as [p' c']. cbn [fst] in Hp'. subst p'. destruct Hrs as [HS' _].
      apply (IH _ c' (tl sc) _ (f + 1) F); try assumption; try lia.
      apply live_fault; try assumption; lia.
Qed.

Lemma start_live pn c : Start pn c -> 0 < len cmd -> live_ph 0 (pcd_start k cmd pn).
Proof.
  intros (Hb & _) Hc. unfold pcd_start.
  replace (miu k =? 0) with false by lia. replace ((len cmd <=? 0) || (miu k <? 0)) with false by lia.
  unfold live_ph. cbn [ph]. split; [lia|]. rewrite is_nak_iblock by assumption. discriminate.
Qed.

(* ---------------------------------------------------------------- S(WTX) requests and chained blocks still to come *)
(* [rho]: what the reader's n_extra counter can still grow by from this state without further faults:
   S(WTX) responses the card still expects (less the one the reader is just echoing) + chained response blocks.
   [evn] is the increment of n_extra in a step (Model: pcd_absorb_x).  One faulty round adds at most 1
   (the card repeats an S(WTX) request the reader has already counted). *)
Definition echo (d : bytes) : Z := 1 - kind d.
Definition pi_ph (p : pcd) : Z :=
  match ph p with
  | PSend _ _ d => nchain (cmiu kc) (len R) - echo d
  | PRecv _ d rsp => nchain (cmiu kc) (len R - len rsp) - echo d
  | _ => 0
  end.
Definition rho (p : pcd) (c : picc) : Z := wtx_weight c + pi_ph p.
Definition evn (p : pcd) (a : aresult) (p' : pcd) : Z :=
  if wtx_event k p a then 1 else if chain_event p p' then 1 else 0.

Lemma echo_le d : 0 <= echo d <= 1. Proof. unfold echo. pose proof (kind_le d). lia. Qed.
Lemma nchR : 0 <= nchain (cmiu kc) (len R). Proof. apply nchain_nonneg, Hcmiu. Qed.

Lemma evn_ack pn f pn' f' : evn (mkp pn f) (ARx [Z.lor 162 pn]) (mkp pn' f') = if chain_event (mkp pn f) (mkp pn' f') then 1 else 0.
Proof. reflexivity. Qed.

Lemma absorb_B_extra pn off i d c : bit pn -> more_at k cmd off = true -> CardB pn off c ->
  let p := mkp pn (PSend off i d) in let p' := pcd_absorb k cmd p (ARx (last c)) in
  pi_ph p' + evn p (ARx (last c)) p' <= nchain (cmiu kc) (len R).
Proof.
  intros Hb Hm (Hbn & Hrx & Htx & Hex & Hem). cbv zeta.
  destruct (emitted_core _ _ Hem) as [[Hl Hp] | (w & ws & Hl & Hp)]; rewrite Hl.
  - rewrite send_rx_ack by assumption. unfold evn, wtx_event, chain_event, is_recv, pi_ph, echo. cbn [ph mkp andb].
    rewrite kind_iblock by (apply flip_bit, Hb). lia.
  - rewrite send_rx_wtx by assumption. unfold evn, wtx_event, pi_ph, echo. cbn [ph mkp]. rewrite Hf1, kind_wtx.
    change (is_wtx 242) with true. cbn [andb]. lia.
Qed.

Lemma iblock_not_wtx ch pn : bit ch -> bit pn -> is_wtx (Z.lor (Z.lor 2 (16 * ch)) pn) = false.
Proof. intros [-> | ->] [-> | ->]; reflexivity. Qed.
Lemma wtx_event_iblock p ch pn chunk : bit ch -> bit pn -> wtx_event k p (ARx (Z.lor (Z.lor 2 (16 * ch)) pn :: chunk)) = false.
Proof. intros Hc Hb. unfold wtx_event. destruct chunk; [reflexivity|]. rewrite iblock_not_wtx by assumption. reflexivity. Qed.
Lemma flip_eqb pn : bit pn -> (flip pn =? pn) = false.
Proof. intros [-> | ->]; reflexivity. Qed.

Lemma absorb_C_extra pn off i d c : bit pn -> more_at k cmd off = false -> CardC pn c ->
  let p := mkp pn (PSend off i d) in let p' := pcd_absorb k cmd p (ARx (last c)) in
  pi_ph p' + evn p (ARx (last c)) p' <= nchain (cmiu kc) (len R).
Proof.
  intros Hb Hm (ib & rest & Hbn & Hrx & Hex & Hni & Htx & Hem). cbv zeta. pose proof nchR.
  destruct (emitted_core _ _ Hem) as [[Hl Hp] | (w & ws & Hl & Hp)]; rewrite Hl.
  - destruct (next_iblock_spec _ _ _ _ _ Hcmiu Hni) as (ch & chunk & Hch & Hib & Hcr & Hch1 & _ & _).
    rewrite Hib. rewrite send_rx_iblock by assumption. unfold evn. rewrite wtx_event_iblock by assumption.
    destruct Hch as [-> | ->]; cbn [Z.eqb Pos.eqb].
    + unfold chain_event, is_recv, pi_ph. cbn [ph mkp andb]. lia.
    + assert (Hr : rest <> []) by (apply Hch1; reflexivity).
      destruct (next_iblock_full _ _ _ _ _ Hcmiu Hni Hr) as [Hli HlR]. rewrite Hib, len_cons in Hli.
      unfold chain_event, is_recv, pi_ph, echo. cbn [ph mkp pni andb]. rewrite flip_eqb, kind_ack by (try apply flip_bit; assumption).
      cbn [negb]. replace (len chunk) with (cmiu kc) by lia.
      rewrite nchain_step; [lia | assumption |]. pose proof (nonnil_len rest Hr). lia.
  - rewrite send_rx_wtx by assumption. unfold evn, wtx_event, pi_ph, echo. cbn [ph mkp]. rewrite Hf1, kind_wtx.
    change (is_wtx 242) with true. cbn [andb]. lia.
Qed.

Lemma absorb_D2_extra pn i d rsp c : bit pn -> CardD2 pn rsp c ->
  let p := mkp pn (PRecv i d rsp) in let p' := pcd_absorb k cmd p (ARx (last c)) in
  pi_ph p' + evn p (ARx (last c)) p' <= nchain (cmiu kc) (len R - len rsp).
Proof.
  intros Hb (T & ib & rest & Hbn & HT & HR & Hni & Htx & Hrx & Hex & Hem). cbv zeta.
  assert (HlT : len R - len rsp = len T) by (rewrite (rsp_len_R _ _ HR); lia).
  pose proof (nchain_nonneg (cmiu kc) (len R - len rsp) Hcmiu).
  destruct (emitted_core _ _ Hem) as [[Hl Hp] | (w & ws & Hl & Hp)]; rewrite Hl.
  - destruct (next_iblock_spec _ _ _ _ _ Hcmiu Hni) as (ch & chunk & Hch & Hib & Hcr & Hch1 & _ & _).
    rewrite Hib. rewrite recv_rx_iblock by assumption. unfold evn. rewrite wtx_event_iblock by assumption.
    destruct Hch as [-> | ->]; cbn [Z.eqb Pos.eqb].
    + unfold chain_event, is_recv, pi_ph. cbn [ph mkp andb]. lia.
    + assert (Hr : rest <> []) by (apply Hch1; reflexivity).
      destruct (next_iblock_full _ _ _ _ _ Hcmiu Hni Hr) as [Hli HlR]. rewrite Hib, len_cons in Hli.
      unfold chain_event, is_recv, pi_ph, echo. cbn [ph mkp pni andb]. rewrite flip_eqb, kind_ack by (try apply flip_bit; assumption).
      cbn [negb]. rewrite len_app. replace (len chunk) with (cmiu kc) by lia.
      replace (len R - (len rsp + cmiu kc)) with (len T - cmiu kc) by lia. rewrite HlT.
      rewrite nchain_step; [lia | assumption |]. pose proof (nonnil_len rest Hr). lia.
  - rewrite recv_rx_wtx by assumption. unfold evn, wtx_event, pi_ph, echo. cbn [ph mkp]. rewrite Hf2, kind_wtx.
    change (is_wtx 242) with true. cbn [andb]. lia.
Qed.

(* a faulty round: no increment, the potential grows by at most the echo that was lost *)
Lemma fault_extra p c c' a : Sync p c -> is_done p = false -> a = ATimeout \/ a = ATxErr ->
  wtx_weight c' <= wtx_weight c ->
  rho (pcd_absorb k cmd p a) c' + evn p a (pcd_absorb k cmd p a) <= rho p c + 1.
Proof.
  intros HS Hd Ha Hw. pose proof nchR.
  destruct HS as [pn off i d c Hb Hoff Hdd HA | pn off i d c Hb Hoff Hm HB Hrd | pn off i d c Hb Hoff Hm HC Hrd
                 | pn i rsp c Hb HD | pn i d rsp c Hb HD Hrd | pn c | pn e c]; try discriminate.
  1-3: rewrite send_timeout by assumption; unfold rho, evn, wtx_event, chain_event, is_recv, pi_ph; pose proof (echo_le d);
       destruct Ha as [-> | ->]; destruct (i <=? n_nak k); cbn [ph mkp tagerr andb]; unfold echo in *; rewrite ?kind_nak by assumption; lia.
  - pose proof (nchain_nonneg (cmiu kc) (len R - len rsp) Hcmiu). pose proof (echo_le [Z.lor 162 pn]).
    rewrite recv_timeout by assumption; unfold rho, evn, wtx_event, chain_event, is_recv, pi_ph;
      destruct Ha as [-> | ->]; destruct (i <=? n_ack k); cbn [ph mkp pni tagerr andb]; rewrite ?Z.eqb_refl; cbn [negb];
      unfold echo in *; rewrite ?kind_ack by assumption; lia.
  - pose proof (nchain_nonneg (cmiu kc) (len R - len rsp) Hcmiu). pose proof (echo_le d).
    rewrite recv_timeout by assumption; unfold rho, evn, wtx_event, chain_event, is_recv, pi_ph;
      destruct Ha as [-> | ->]; destruct (i <=? n_ack k); cbn [ph mkp pni tagerr andb]; rewrite ?Z.eqb_refl; cbn [negb];
      unfold echo in *; rewrite ?kind_ack by assumption; lia.
Qed.

(* the block of an echoing reader is exactly the S(WTX) the card waits for *)
Lemma rdata_echo_weight retry c d c' r pn blk : bit pn -> emitted blk c -> blk <> [] -> bn c = pn ->
  retry = [Z.lor 178 pn] \/ retry = [Z.lor 162 pn] -> rdata retry c d ->
  picc_absorb app kc c d = (c', r) -> wtx_weight c' + echo d <= wtx_weight c.
Proof.
  intros Hb Hem Hne Hbn Hre Hrd H.
  destruct (card_answered pn blk c d retry c' r Hb Hem Hne Hbn Hre Hrd H) as (_ & _ & _ & Hw & Hw').
  unfold echo. pose proof (kind_le d). destruct (Z.eq_dec (kind d) 0) as [E | E]; [specialize (Hw' E); lia | lia].
Qed.

Lemma round_extra p c ff c' a : Sync p c -> is_done p = false -> air app kc c (pcd_emit p) ff = (c', a) ->
  rho (pcd_absorb k cmd p a) c' + evn p a (pcd_absorb k cmd p a) <= rho p c + (if is_dd ff then 0 else 1).
Proof.
  intros HS Hd Hair. unfold air in Hair. destruct ff as [f1 f2]. cbn [fst snd] in Hair.
  assert (Hfault : forall c2 a2, a2 = ATimeout \/ a2 = ATxErr -> wtx_weight c2 <= wtx_weight c ->
            rho (pcd_absorb k cmd p a2) c2 + evn p a2 (pcd_absorb k cmd p a2) <= rho p c + 1)
    by (intros c2 a2 Ha2 Hw2; apply fault_extra; assumption).
  destruct f1; [| inversion Hair; subst; cbn [is_dd]; apply Hfault; [left; reflexivity | lia]
                | inversion Hair; subst; cbn [is_dd]; apply Hfault; [left; reflexivity | lia]].
  destruct (picc_absorb app kc c (pcd_emit p)) as [c1 r] eqn:E.
  pose proof (picc_absorb_weight app kc c _ c1 r E) as Hw1.
  destruct f2; [| destruct r; inversion Hair; subst; cbn [is_dd]; (apply Hfault; [left; reflexivity | assumption])
                | destruct r; inversion Hair; subst; cbn [is_dd]; (apply Hfault; [first [left; reflexivity | right; reflexivity] | assumption])].
  cbn [is_dd].
  (* the fault-free round *)
  destruct HS as [pn off i d c Hb Hoff Hdd HA | pn off i d c Hb Hoff Hm HB Hrd | pn off i d c Hb Hoff Hm HC Hrd
                 | pn i rsp0 c Hb HD | pn i d rsp0 c Hb HD Hrd | pn c | pn e c]; try discriminate;
    cbn [pcd_emit ph mkp] in E.
  - destruct Hdd as [-> | [-> Hi]].
    + apply (card_A_iblock pn off c c1 r Hb Hoff HA) in E. destruct E as (Er & Hw & HC'). subst r. inversion Hair; subst c1 a; clear Hair.
      unfold rho at 2. unfold pi_ph. cbn [ph mkp]. unfold echo. rewrite kind_iblock by assumption.
      destruct (more_at k cmd off) eqn:Hm.
      * pose proof (absorb_B_extra pn off i (iblock k cmd pn off) c' Hb Hm HC') as H. cbv zeta in H. unfold rho. lia.
      * pose proof (absorb_C_extra pn off i (iblock k cmd pn off) c' Hb Hm HC') as H. cbv zeta in H. unfold rho. lia.
    + destruct (card_A_nak pn off c Hb HA) as (c2 & E2 & HA' & Hw). rewrite E2 in E. inversion E; subst c1 r. inversion Hair; subst c' a; clear Hair.
      rewrite send_rx_rack_other by assumption. unfold rho, evn, wtx_event, chain_event, is_recv, pi_ph, echo.
      pose proof nchR.
      destruct (if fix_rack k then i <=? n_nak k + 1 else true); cbn [ph mkp tagerr andb];
        rewrite ?kind_iblock, ?kind_nak by assumption; lia.
  - pose proof E as E'. apply (CardB_step pn off c d c1 r Hb HB Hrd) in E. destruct E as (Er & HB' & _). subst r. inversion Hair; subst c1 a; clear Hair.
    destruct HB as (Hbn & _ & _ & _ & Hem).
    pose proof (rdata_echo_weight _ c d c' _ pn _ Hb Hem ltac:(discriminate) Hbn (or_introl eq_refl) Hrd E') as Hwe.
    pose proof (absorb_B_extra pn off i d c' Hb Hm HB') as H. cbv zeta in H. unfold rho. unfold pi_ph at 2. cbn [ph mkp]. lia.
  - pose proof E as E'. apply (CardC_step pn c d c1 r Hb HC Hrd) in E. destruct E as (Er & HC' & _). subst r. inversion Hair; subst c1 a; clear Hair.
    destruct HC as (ib & rest & Hbn & _ & _ & Hni & _ & Hem).
    pose proof (rdata_echo_weight _ c d c' _ pn _ Hb Hem (next_iblock_nonnil _ _ _ _ Hni) Hbn (or_introl eq_refl) Hrd E') as Hwe.
    pose proof (absorb_C_extra pn off i d c' Hb Hm HC') as H. cbv zeta in H. unfold rho. unfold pi_ph at 2. cbn [ph mkp]. lia.
  - apply (card_D1_ack pn rsp0 c c1 r Hb HD) in E. destruct E as (Er & Hw & HD'). subst r. inversion Hair; subst c1 a; clear Hair.
    pose proof (absorb_D2_extra pn i [Z.lor 162 pn] rsp0 c' Hb HD') as H. cbv zeta in H.
    unfold rho. unfold pi_ph at 2. cbn [ph mkp]. unfold echo. rewrite kind_ack by assumption. lia.
  - pose proof E as E'. apply (CardD2_step pn rsp0 c d c1 r Hb HD Hrd) in E. destruct E as (Er & HD' & _). subst r. inversion Hair; subst c1 a; clear Hair.
    destruct HD as (T & ib & rest & Hbn & _ & _ & Hni & _ & _ & _ & Hem).
    pose proof (rdata_echo_weight _ c d c' _ pn _ Hb Hem (next_iblock_nonnil _ _ _ _ Hni) Hbn (or_intror eq_refl) Hrd E') as Hwe.
    pose proof (absorb_D2_extra pn i d rsp0 c' Hb HD') as H. cbv zeta in H. unfold rho. unfold pi_ph at 2. cbn [ph mkp]. lia.
Qed.

(* ---------------------------------------------------------------- the reader with the n_extra budget (HEAD) *)
Lemma rho_nonneg p c : Sync p c -> 0 <= rho p c.
Proof.
  intro HS. unfold rho, pi_ph, echo. pose proof nchR.
  assert (Hrd : forall retry pn c d, bit pn -> retry = [Z.lor 178 pn] \/ retry = [Z.lor 162 pn] -> rdata retry c d ->
            1 - kind d <= wtx_weight c).
  { intros retry pn c0 d Hb Hre [-> | w ws nxt -> Hp].
    - pose proof (wtx_weight_nonneg c0). destruct Hre as [-> | ->]; [rewrite kind_nak | rewrite kind_ack]; try assumption; lia.
    - rewrite kind_wtx. unfold wtx_weight. rewrite Hp. pose proof (plan_weight_nonneg (plan c0)). pose proof (len_nonneg ws). lia. }
  destruct HS as [pn off i d c Hb Hoff Hdd HA | pn off i d c Hb Hoff Hm HB Hrd' | pn off i d c Hb Hoff Hm HC Hrd'
                 | pn i rsp c Hb HD | pn i d rsp c Hb HD Hrd' | pn c | pn e c]; cbn [ph mkp tagerr];
    pose proof (wtx_weight_nonneg c).
  - destruct Hdd as [-> | [-> _]]; [rewrite kind_iblock | rewrite kind_nak]; try assumption; lia.
  - pose proof (Hrd _ pn c d Hb (or_introl eq_refl) Hrd'). lia.
  - pose proof (Hrd _ pn c d Hb (or_introl eq_refl) Hrd'). lia.
  - pose proof (nchain_nonneg (cmiu kc) (len R - len rsp) Hcmiu). rewrite kind_ack by assumption. lia.
  - pose proof (nchain_nonneg (cmiu kc) (len R - len rsp) Hcmiu). pose proof (Hrd _ pn c d Hb (or_intror eq_refl) Hrd'). lia.
  - lia.
  - lia.
Qed.

Section Budget.
Variable mx : option Z.

Lemma absorb_x_shape x a :
  let p' := pcd_absorb k cmd (xp x) a in let x' := pcd_absorb_x k mx cmd x a in
  nx x' = nx x + evn (xp x) a p' /\
  (xp x' = p' \/ (over mx (nx x') = true /\ exists pn', xp x' = mkp pn' (tagerr E_PROTOCOL))).
Proof.
  cbv zeta. unfold pcd_absorb_x, evn.
  destruct (wtx_event k (xp x) a).
  - cbn [nx xp]. split; [reflexivity|]. destruct (over mx (nx x + 1)) eqn:E; [right; split; [first [exact E | reflexivity] | eexists; reflexivity] | left; reflexivity].
  - destruct (chain_event (xp x) (pcd_absorb k cmd (xp x) a)).
    + cbn [nx xp]. split; [reflexivity|]. destruct (over mx (nx x + 1)) eqn:E; [right; split; [first [exact E | reflexivity] | eexists; reflexivity] | left; reflexivity].
    + cbn [nx xp]. split; [lia | left; reflexivity].
Qed.

Lemma evn_range p a p' : 0 <= evn p a p' <= 1.
Proof. unfold evn. destruct (wtx_event k p a); [lia|]. destruct (chain_event p p'); lia. Qed.

Lemma mu_nonneg p c : Sync p c -> 0 <= mu p c.
Proof. intro HS. destruct (is_done p) eqn:Hd; [rewrite mu_done by assumption; lia | pose proof (mu_pos p c HS Hd); lia]. Qed.

Lemma roundx_sync x c ff : Sync (xp x) c -> is_done (xp x) = false ->
  let '(x', c') := roundx app k mx kc cmd (x, c) ff in
  Sync (xp x') c' /\ mu (xp x') c' + 1 <= mu (xp x) c /\ nx x <= nx x' /\
  (mx = None -> nx x' + rho (xp x') c' <= nx x + rho (xp x) c + (if is_dd ff then 0 else 1)).
Proof.
  intros HS Hd. pose proof (round_sync (xp x) c ff HS Hd) as Hr. unfold round in Hr. rewrite Hd in Hr.
  unfold roundx. rewrite Hd.
  destruct (air app kc c (pcd_emit (xp x)) ff) as [c' a] eqn:Ea.
  destruct Hr as [HS' Hmu].
  pose proof (round_extra (xp x) c ff c' a HS Hd Ea) as Hex.
  destruct (absorb_x_shape x a) as [Hn Hx]. cbv zeta in Hn, Hx.
  pose proof (evn_range (xp x) a (pcd_absorb k cmd (xp x) a)).
  split; [|split; [|split; [lia|]]].
  - destruct Hx as [-> | (_ & pn' & ->)]; [exact HS'|]. apply S_Err. eapply Sync_exec; eassumption.
  - destruct Hx as [-> | (_ & pn' & ->)]; [exact Hmu|]. pose proof (mu_nonneg _ _ HS'). rewrite (mu_done (mkp pn' (tagerr E_PROTOCOL)) c') by reflexivity. lia.
  - intros ->. destruct Hx as [-> | (Ho & _)]; [lia | discriminate].
Qed.

Lemma runx_done fuel x c sc tr r : ph (xp x) = PDone r ->
  runx app fuel k mx kc cmd x c sc tr = ({| o_res := r; o_pni := pni (xp x); o_card := c; o_blocks := rev tr |}, nx x).
Proof. intro H. destruct fuel; cbn [runx]; rewrite H; reflexivity. Qed.
Lemma runx_zero x c sc tr : is_done (xp x) = false ->
  runx app 0 k mx kc cmd x c sc tr = ({| o_res := Hang; o_pni := pni (xp x); o_card := c; o_blocks := rev tr |}, nx x).
Proof. unfold is_done. intro H. cbn [runx]. destruct (ph (xp x)); try discriminate; reflexivity. Qed.
Lemma runx_step f x c sc tr : is_done (xp x) = false ->
  runx app (S f) k mx kc cmd x c sc tr =
  let ff := match sc with [] => (FD, FD) | y :: _ => y end in
  let '(x', c') := roundx app k mx kc cmd (x, c) ff in
  runx app f k mx kc cmd x' c' (tl sc) (pcd_emit (xp x) :: tr).
Proof. unfold is_done. intro H. cbn [runx]. destruct (ph (xp x)); try discriminate; reflexivity. Qed.

Lemma runx_sync fuel : forall x c sc tr, Sync (xp x) c -> Forall blk_ok (rev tr) ->
  let o := fst (runx app fuel k mx kc cmd x c sc tr) in
  Forall blk_ok (o_blocks o) /\ exec_ok (o_card o) /\
  ((o_res o = Hang /\ Z.of_nat fuel < mu (xp x) c) \/
   final_ok {| o_res := o_res o; o_pni := o_pni o; o_card := o_card o; o_blocks := [] |}).
Proof.
  induction fuel as [|f IH]; intros x c sc tr HS Htr; cbv zeta.
  - destruct (is_done (xp x)) eqn:Hd.
    + destruct (is_done_ph _ Hd) as [r Hr]. rewrite (runx_done 0 x c sc tr r Hr). cbn [fst o_res o_pni o_card o_blocks].
      split; [assumption|]. split; [eapply Sync_exec; eassumption|]. right. eapply sync_done_final; eassumption.
    + rewrite runx_zero by assumption. cbn [fst o_res o_pni o_card o_blocks].
      split; [assumption|]. split; [eapply Sync_exec; eassumption|]. left. split; [reflexivity|].
      pose proof (mu_pos _ c HS Hd). lia.
  - destruct (is_done (xp x)) eqn:Hd.
    + destruct (is_done_ph _ Hd) as [r Hr]. rewrite (runx_done (S f) x c sc tr r Hr). cbn [fst o_res o_pni o_card o_blocks].
      split; [assumption|]. split; [eapply Sync_exec; eassumption|]. right. eapply sync_done_final; eassumption.
    + rewrite runx_step by assumption. cbv zeta.
      pose proof (roundx_sync x c (match sc with [] => (FD, FD) | y :: _ => y end) HS Hd) as Hr.
      destruct (roundx app k mx kc cmd (x, c) (match sc with [] => (FD, FD) | y :: _ => y end)) as [x' c'].
      destruct Hr as (HS' & Hmu & _).
      specialize (IH x' c' (tl sc) (pcd_emit (xp x) :: tr) HS'
                    (Forall_rev_cons _ _ _ Htr (sync_emit_ok _ c HS Hd))).
      cbv zeta in IH. destruct IH as (H1 & H2 & H3).
      split; [assumption|]. split; [assumption|].
      destruct H3 as [[Hh Hlt] | Hfin]; [left; split; [assumption | lia] | right; assumption].
Qed.
End Budget.

(* without budget the counter only counts: at the end it is at most what the card announced + one per faulty round *)
Lemma runx_count fuel : forall x c sc tr, Sync (xp x) c ->
  snd (runx app fuel k None kc cmd x c sc tr) <= nx x + rho (xp x) c + faults sc.
Proof.
  induction fuel as [|f IH]; intros x c sc tr HS; pose proof (rho_nonneg _ _ HS); pose proof (faults_nonneg sc).
  - destruct (is_done (xp x)) eqn:Hd.
    + destruct (is_done_ph _ Hd) as [r Hr]. rewrite (runx_done None 0 x c sc tr r Hr). cbn [snd]. lia.
    + rewrite runx_zero by assumption. cbn [snd]. lia.
  - destruct (is_done (xp x)) eqn:Hd.
    + destruct (is_done_ph _ Hd) as [r Hr]. rewrite (runx_done None (S f) x c sc tr r Hr). cbn [snd]. lia.
    + rewrite runx_step by assumption. cbv zeta.
      pose proof (roundx_sync None x c (match sc with [] => (FD, FD) | y :: _ => y end) HS Hd) as Hr.
      destruct (roundx app k None kc cmd (x, c) (match sc with [] => (FD, FD) | y :: _ => y end)) as [x' c'].
      destruct Hr as (HS' & _ & _ & Hrho). specialize (Hrho eq_refl).
      specialize (IH x' c' (tl sc) (pcd_emit (xp x) :: tr) HS').
      assert (faults (tl sc) + (if is_dd (match sc with [] => (FD, FD) | y :: _ => y end) then 0 else 1) = faults sc)
        by (destruct sc as [|y t]; cbn [tl faults is_dd]; [reflexivity | destruct (is_dd y); lia]).
      lia.
Qed.
End SyncProof.

(* ---------------------------------------------------------------- the theorems about IsoDepInitiator.exchange *)
Definition repaired (k : cfg) : Prop := fix_wtx_try k = true /\ fix_wtx_chain k = true.
Definition params_ok (k : cfg) (kc : ccfg) : Prop := 0 < miu k /\ 0 < cmiu kc /\ miu k + 3 <= cfsc kc.
(* reader and card block numbers in step, no exchange in progress: the state after activation
   (pni = 0, card block number 1) and after every successful exchange *)
Definition in_step (pn : Z) (c : picc) : Prop :=
  bit pn /\ bn c = flip pn /\ pend c = None /\ rxbuf c = [] /\ txrest c = [].
Definition response (app : Z -> bytes -> bytes) (c : picc) (cmd : bytes) : bytes := app (len (execs c)) cmd.
Definition enough_fuel (app : Z -> bytes -> bytes) (k : cfg) (cmd : bytes) (c : picc) (fuel : nat) : Prop :=
  fuel_bound app k cmd (execs c) c <= Z.of_nat fuel.

Section Exchange.
Variable app : Z -> bytes -> bytes.
Variable k : cfg.
Variable kc : ccfg.
Variable cmd : bytes.
Variable pn : Z.
Variable c : picc.
Hypothesis Hrep : repaired k.
Hypothesis Hpar : params_ok k kc.
Hypothesis Hstep : in_step pn c.
Hypothesis Hcmd : 0 < len cmd.

Let Hstart : Start (execs c) pn c.
Proof. destruct Hstep as (H1 & H2 & H3 & H4 & H5). repeat split; assumption. Qed.

Lemma exchange_sync fuel sc :
  let o := exchange app fuel k kc cmd pn c sc in
  Forall (blk_ok k) (o_blocks o) /\ exec_ok cmd (execs c) (o_card o) /\
  ((o_res o = Hang /\ Z.of_nat fuel < fuel_bound app k cmd (execs c) c) \/
   final_ok app cmd (execs c) {| o_res := o_res o; o_pni := o_pni o; o_card := o_card o; o_blocks := [] |}).
Proof.
  destruct Hrep as [Hf1 Hf2]. destruct Hpar as (Hm & Hcm & Hfs). unfold exchange. cbv zeta.
  pose proof (start_clean app k kc cmd (execs c) Hm pn c Hstart Hcmd) as HC.
  pose proof (run_sync app k kc cmd (execs c) Hm Hcm Hfs Hf1 Hf2 fuel _ c sc []
                (Clean_Sync _ _ _ _ _ _ _ HC) (Forall_nil _)) as H.
  cbv zeta in H. destruct H as (H1 & H2 & H3). split; [assumption|]. split; [assumption|].
  destruct H3 as [[Hh Hlt] | Hfin]; [left; split; [assumption|] | right; assumption].
  pose proof (start_mu app k cmd (execs c) Hm pn c Hstart Hcmd). lia.
Qed.

Theorem exchange_block_bound fuel sc :
  Forall (fun b => len b + 2 <= miu k + 3) (o_blocks (exchange app fuel k kc cmd pn c sc)).
Proof. apply (exchange_sync fuel sc). Qed.

Theorem exchange_at_most_once fuel sc :
  let o := exchange app fuel k kc cmd pn c sc in
  execs (o_card o) = execs c \/ execs (o_card o) = execs c ++ [cmd].
Proof. apply (exchange_sync fuel sc). Qed.

Theorem exchange_result_sound fuel sc :
  let o := exchange app fuel k kc cmd pn c sc in
  match o_res o with
  | Ok r => r = response app c cmd /\ execs (o_card o) = execs c ++ [cmd] /\ in_step (o_pni o) (o_card o)
  | Err (TagCommandError _) => True
  | Hang => Z.of_nat fuel < fuel_bound app k cmd (execs c) c
  | _ => False
  end.
Proof.
  cbv zeta. destruct (exchange_sync fuel sc) as (_ & _ & [[Hh Hlt] | Hfin]).
  - rewrite Hh. exact Hlt.
  - unfold final_ok in Hfin. cbn [o_res o_pni o_card] in Hfin.
    destruct Hfin as [(Hr & Hb & H1 & H2 & H3 & H4 & H5) | [e He]].
    + rewrite Hr. split; [reflexivity|]. split; [assumption|]. repeat split; assumption.
    + rewrite He. exact I.
Qed.

Theorem exchange_terminates fuel sc : enough_fuel app k cmd c fuel ->
  let o := exchange app fuel k kc cmd pn c sc in
  (o_res o = Ok (response app c cmd) \/ exists e, o_res o = Err (TagCommandError e)).
Proof.
  unfold enough_fuel. intro Hf. cbv zeta. pose proof (exchange_result_sound fuel sc) as H. cbv zeta in H.
  destruct (o_res (exchange app fuel k kc cmd pn c sc)) as [r | e | x |]; try contradiction.
  - left. destruct H as [-> _]. reflexivity.
  - destruct e; try contradiction. right. eauto.
  - lia.
Qed.

Theorem exchange_nofault_exact fuel sc : nofault sc -> enough_fuel app k cmd c fuel ->
  let o := exchange app fuel k kc cmd pn c sc in
  o_res o = Ok (response app c cmd) /\ execs (o_card o) = execs c ++ [cmd] /\ in_step (o_pni o) (o_card o).
Proof.
  intros Hsc Hf. cbv zeta.
  destruct Hrep as [Hf1 Hf2]. destruct Hpar as (Hm & Hcm & Hfs).
  pose proof (start_clean app k kc cmd (execs c) Hm pn c Hstart Hcmd) as HC.
  pose proof (run_clean app k kc cmd (execs c) Hm Hcm Hfs Hf1 Hf2 fuel _ c sc [] HC Hsc) as H. cbv zeta in H.
  fold (exchange app fuel k kc cmd pn c sc) in H.
  pose proof (exchange_result_sound fuel sc) as Hs. cbv zeta in Hs.
  destruct H as [Hh | [Hr He]].
  - rewrite Hh in Hs. unfold enough_fuel in Hf. lia.
  - rewrite Hr in Hs. destruct Hs as (_ & H2 & H3). split; [exact Hr|]. split; assumption.
Qed.

(* any script with at most F faulty rounds (anywhere, any kind) is absorbed when 2F-1 <= both budgets *)
Theorem exchange_absorbs fuel sc F : faults sc <= F -> 2 * F - 1 <= n_nak k -> 2 * F - 1 <= n_ack k ->
  enough_fuel app k cmd c fuel ->
  let o := exchange app fuel k kc cmd pn c sc in
  o_res o = Ok (response app c cmd) /\ execs (o_card o) = execs c ++ [cmd] /\ in_step (o_pni o) (o_card o).
Proof.
  intros HF Hn1 Hn2 Hf. cbv zeta.
  destruct Hrep as [Hf1 Hf2]. destruct Hpar as (Hm & Hcm & Hfs).
  pose proof (start_clean app k kc cmd (execs c) Hm pn c Hstart Hcmd) as HC.
  pose proof (run_live app k kc cmd (execs c) Hm Hcm Hfs Hf1 Hf2 fuel _ c sc [] 0 F
                (Clean_Sync _ _ _ _ _ _ _ HC) (start_live app k cmd (execs c) Hm pn c Hstart Hcmd)
                (Z.le_refl 0)) as H.
  cbv zeta in H. fold (exchange app fuel k kc cmd pn c sc) in H.
  specialize (H ltac:(lia) Hn1 Hn2).
  pose proof (exchange_result_sound fuel sc) as Hs. cbv zeta in Hs.
  destruct H as [Hh | [Hr He]].
  - rewrite Hh in Hs. unfold enough_fuel in Hf. lia.
  - rewrite Hr in Hs. destruct Hs as (_ & H2 & H3). split; [exact Hr|]. split; assumption.
Qed.
End Exchange.
