(* Type 2: the memory reader's state across several assignments tag.ndef.octets = d on one tag object.
   reader_ok is preserved by every attempt whatever command fails and however (lost / unanswered); every tag
   memory on the way reads as the previous message, an empty message or the new message; an undisturbed
   attempt from any such state succeeds and leaves exactly the new message. *)
From Coq Require Import ZArith List Bool Lia ZifyBool.
From NV Require Import Base.Result Base.Bytes Model.TlvMem Model.T2T Proofs.TlvLib Proofs.TlvSync Proofs.TlvRetry
  Proofs.TlvPhases Proofs.TlvRetryInst Proofs.T2TRead Proofs.T2TPhases Proofs.T2TWrite.
Import ListNotations.
Open Scope Z_scope.
Ltac Zify.zify_post_hook ::= Z.to_euclidean_division_equations.

Definition ku4 (m : list Z) : nat := (length (view m) / 4)%nat.

(* tag memory m1, data_from_tag F, data_in_cache c of a tag object that was activated on memory m and is being
   assigned the octets d *)
Definition t2_reader_ok (m d : list Z) (st : list Z * list Z * list Z) : Prop :=
  let '(m1, F, c) := st in
  exists L c1 c2 cF, wfL m L /\ len d <= l_cap L /\ clean (view m) L t2_reader d c1 c2 cF /\ len m1 = len m /\
    INV 4 (ku4 m) (zN L) (view m) cF (Sall (view m) L cF) (view m1) F c /\ F = view m1 /\ c = view m1.
Definition safe_class (m d m' : list Z) : Prop := t2_fresh m' = t2_fresh m \/ t2_fresh m' = Msg [] \/ t2_fresh m' = Msg d.

Section R.
Variables (m : list Z) (L : layout) (d : list Z).
Hypothesis WF : wfL m L.
Hypothesis Hcap : len d <= l_cap L.
Notation em := (view m).

Lemma g_u : (0 < 4)%nat. Proof. lia. Qed.
Lemma g_k : length em = (ku4 m * 4)%nat.
Proof. use_wfL WF. destruct (view_length m H16) as (k & E & _). unfold ku4. rewrite E, Nat.div_mul by lia. reflexivity. Qed.
Lemma g_de : l_dend L <= len em.
Proof. use_wfL WF. destruct (view_length m H16) as (k & _ & E & _). unfold len in *. lia. Qed.
Lemma g_off0 : 0 <= l_off L. Proof. use_wfL WF. lia. Qed.
Lemma g_off1 : l_off L + 1 < l_dend L. Proof. use_wfL WF. lia. Qed.
Lemma g_tag : get em (l_off L) = 3. Proof. use_wfL WF. eapply em_tag; eassumption. Qed.
Lemma g_cap : l_cap L = get_capacity (l_dend L) (l_off L) (l_skip L). Proof. use_wfL WF. eapply cap_eq; eassumption. Qed.
Lemma g_s1 : in_skip (l_skip L) (l_off L + 1) = false. Proof. use_wfL WF. assumption. Qed.
Lemma g_s23 : 255 <= l_cap L -> in_skip (l_skip L) (l_off L + 2) = false /\ in_skip (l_skip L) (l_off L + 3) = false.
Proof. use_wfL WF. assumption. Qed.
Lemma g_tr : forall c l' v' e', agree_below (l_off L + 1) em c -> ndef_fits c (set_val L v') = true ->
  read_tlv c (l_off L) (l_skip L) = Ok (3, l', v', e') -> t2_reader c = Ok (Some (set_val L v')).
Proof. use_wfL WF. intros c l' v' e'. eapply em_transfer; eassumption. Qed.
Lemma g_n : forall x, l_off L < x -> ndef_area L x = true -> x / Z.of_nat 4 * Z.of_nat 4 + Z.of_nat 4 <= len m.
Proof. use_wfL WF. intros x Hx Ha. unfold ndef_area in Ha. assert (Hm : len m mod 4 = 0) by (unfold len; change 4 with (Z.of_nat 4); rewrite <- Nat2Z.inj_mod, H4; reflexivity).
  change (Z.of_nat 4) with 4. lia. Qed.

Lemma g_clean : exists c1 c2 cF, clean em L t2_reader d c1 c2 cF.
Proof. destruct (clean_final em L 4 (ku4 m) t2_reader g_u g_k g_de g_off0 g_off1 g_tag g_cap g_s1 g_s23 g_tr d Hcap) as (c1 & c2 & cF & H).
  exists c1, c2, cF. exact H. Qed.

Variables c1 c2 cF : list Z.
Hypothesis HCF : clean em L t2_reader d c1 c2 cF.
Notation INVx := (INV 4 (ku4 m) (zN L) em cF (Sall em L cF)).

(* the phases of tt2.py are one of the three analysed shapes *)
Lemma g_att : ATT em L 4 (ku4 m) cF (len m) (t2_phases L d).
Proof.
  unfold t2_phases. destruct (Z.ltb_spec (len d) 255) as [Hd|Hd]; cbn [app].
  - apply (att_short em L 4 (ku4 m) t2_reader g_u g_k g_de g_off0 g_off1 g_tag g_cap g_s1 g_s23 g_tr d c1 c2 cF (len m) Hcap HCF g_n Hd).
  - destruct (straddle (l_off L)) eqn:Es; cbn [app].
    + apply (att_split em L 4 (ku4 m) t2_reader g_u g_k g_de g_off0 g_off1 g_tag g_cap g_s1 g_s23 g_tr d c1 c2 cF (len m) Hcap HCF g_n Hd).
    + apply (att_joint em L 4 (ku4 m) t2_reader g_u g_k g_de g_off0 g_off1 g_tag g_cap g_s1 g_s23 g_tr d c1 c2 cF (len m) Hcap HCF g_n Hd).
      unfold one_unit. unfold straddle in Es. pose proof g_off0. rewrite !Z.shiftr_div_pow2 in Es by lia. change (2 ^ 2) with 4 in Es.
      change (Z.of_nat 4) with 4. lia.
Qed.

(* the em-level memories that are safe, as a fresh reader sees them *)
Notation SAFEx := (SAFE 4 (ku4 m) (zN L) em cF (Sall em L cF)).
Lemma g_class T m' : SAFEx T -> view m' = T -> safe_class m d m'.
Proof.
  intros HS Hv. unfold safe_class, t2_fresh. rewrite Hv. use_wfL WF.
  destruct (SAFE_classes em L 4 (ku4 m) t2_reader g_u g_k g_de g_off0 g_off1 g_tag g_cap g_s1 g_s23 g_tr d c1 c2 cF (len m) Hcap HCF g_n T HS) as [->|[H| ->]].
  - left; reflexivity.
  - right; left. rewrite (hdr0_read em L 4 (ku4 m) t2_reader g_u g_k g_de g_off0 g_off1 g_tag g_cap g_s1 g_s23 g_tr T); [| pose proof (len_nonneg d); lia | exact H].
    cbn [classify set_val l_rd l_val]. rewrite Hrd. reflexivity.
  - right; right. destruct HCF as (_ & _ & _ & _ & _ & _ & _ & R & _). rewrite R. cbn [classify set_val l_rd l_val]. rewrite Hrd. reflexivity.
Qed.

(* one attempt on the true tag memory *)
Lemma g_attempt m1 F c kf f : len m1 = len m -> INVx (view m1) F c ->
  let '(r, (m2, F2, c2'), ex) := t2_attempt m1 L F c d kf f in
  m2 = apply_ws m1 ex /\ len m2 = len m /\ INVx (view m2) F2 c2' /\
  (forall i, safe_class m d (apply_ws m1 (firstn i ex))) /\
  (r = Ok tt -> t2_fresh m2 = Msg d /\ t2_capacity m2 = Some (l_cap L)) /\ (kf = None -> r = Ok tt) /\ F2 = view m2 /\ c2' = view m2.
Proof.
  intros Hl HI. unfold t2_attempt. use_wfL WF. rewrite Hwr. cbn [negb]. replace (l_cap L <? len d) with false by lia.
  rewrite Hl. pose proof (g_att (view m1) F c kf f HI) as A.
  destruct (run_attempt 4 (len m) (fun x => x) (view m1) F c (t2_phases L d) kf f) as [[r [[T2 F2] c2']] ex] eqn:E.
  destruct A as (A1 & A2 & A3 & A4 & A5 & A6 & A7 & A8).
  assert (Hz4 : (4 <= zN L / 4)%nat) by (unfold zN; apply Nat.div_le_lower_bound; lia).
  assert (Hb : forall ws, (forall w, In w ws -> In w ex) -> forall w, In w ws -> 16 <= fst w /\ fst w + len (snd w) <= len m1).
  { intros ws Hs w Hw. rewrite Forall_forall in A5. destruct (A5 w (Hs w Hw)) as [B1 B2]. rewrite Hl. split; [lia | exact B2]. }
  rewrite (run_attempt_mem 4 (len m) f (fun x => x) view _ (view m1) m1 _ _ _ _ _ _ _ _ E)
    by (intro j; apply (view_apply m1 (firstn j ex) (Hb _ (fun w H => In_firstn _ j w H)))).
  destruct (view_apply m1 ex (Hb ex (fun w H => H))) as [V1 V2].
  split; [reflexivity|]. split; [congruence|]. split; [rewrite V1, <- A1; exact A3|]. split.
  - intro i. destruct (view_apply m1 (firstn i ex) (Hb _ (fun w H => In_firstn _ i w H))) as [W1 _].
    apply (g_class _ _ (A2 i) W1).
  - split; [|split; [exact A6 | rewrite V1, <- A1; auto]]. intro Hrok. unfold t2_fresh, t2_capacity. rewrite V1, <- A1, (A4 Hrok).
    destruct HCF as (_ & _ & _ & _ & _ & _ & _ & R & _). rewrite R. cbn [classify set_val l_rd l_val l_cap]. rewrite Hrd. auto.
Qed.
Lemma set_val_val0 L0 : set_val L0 (l_val L0) = L0.
Proof. destruct L0; reflexivity. Qed.
(* a safe memory is again a well-formed layout, with the same NDEF TLV position, skip set and capacity *)
Lemma g_wf m1 F c : len m1 = len m -> INVx (view m1) F c -> exists v, wfL m1 (set_val L v).
Proof.
  intros Hl HI.
  assert (Hsafe : SAFEx (view m1)) by (destruct HI as (FT & _ & _ & Hm & _); split; [exact FT|]; destruct Hm as [(H & _)|[H|(H & _)]]; auto).
  assert (Hv : exists v, t2_reader (view m1) = Ok (Some (set_val L v))).
  { destruct (SAFE_classes em L 4 (ku4 m) t2_reader g_u g_k g_de g_off0 g_off1 g_tag g_cap g_s1 g_s23 g_tr d c1 c2 cF (len m) Hcap HCF g_n (view m1) Hsafe) as [E|[H|E]].
    - exists (l_val L). rewrite E, set_val_val0. apply WF.
    - exists []. apply (hdr0_read em L 4 (ku4 m) t2_reader g_u g_k g_de g_off0 g_off1 g_tag g_cap g_s1 g_s23 g_tr (view m1)); [pose proof (len_nonneg d); lia | exact H].
    - exists d. rewrite E. apply HCF. }
  destruct Hv as [v Ev]. exists v. use_wfL WF. unfold wfL. cbn [set_val l_rd l_wr l_dend l_hw l_off l_skip l_cap].
  assert (length m1 = length m) by (unfold len in Hl; lia).
  unfold len in *. split; [exact Ev|]. split; [congruence|]. repeat split; try assumption; try lia; apply S23; assumption.
Qed.
Lemma g_init : INVx em em em.
Proof. apply (INV_init_x em L 4 (ku4 m) t2_reader g_u g_k g_de g_off0 g_off1 g_tag g_cap g_s1 g_s23 g_tr d c1 c2 cF (len m) Hcap HCF g_n). Qed.
End R.

Lemma wfL_unique m L L' : wfL m L -> wfL m L' -> L = L'.
Proof. intros (H & _) (H' & _). congruence. Qed.

(* ---------------------------------------------------------------- the invariant: initially, and across any attempt *)
Lemma t2_reader_ok_init m d cap : wf_layout m -> t2_capacity m = Some cap -> len d <= cap -> t2_reader_ok m d (m, view m, view m).
Proof.
  intros Hwf Hc Hd. destruct (wf_layout_wfL m Hwf) as (L & HL). pose proof (wfL_capacity m L cap HL Hc) as E.
  destruct (g_clean m L d HL ltac:(lia)) as (c1 & c2 & cF & HCF). exists L, c1, c2, cF.
  split; [exact HL|]. split; [lia|]. split; [exact HCF|]. split; [reflexivity|]. split; [|auto].
  eapply g_init; [exact HL | | exact HCF]. lia.
Qed.

Theorem t2_attempt_reader_ok m d L m1 F c kf f : wfL m L -> t2_reader_ok m d (m1, F, c) ->
  let '(r, st', ex) := t2_attempt m1 L F c d kf f in
  t2_reader_ok m d st' /\ fst (fst st') = apply_ws m1 ex /\
  (forall i, safe_class m d (apply_ws m1 (firstn i ex))) /\
  (r = Ok tt -> t2_fresh (fst (fst st')) = Msg d /\ t2_capacity (fst (fst st')) = Some (l_cap L)) /\ (kf = None -> r = Ok tt).
Proof.
  intros HL (L' & c1 & c2 & cF & HL' & Hcap & HCF & Hl & HI & _ & _). pose proof (wfL_unique m L' L HL' HL). subst L'.
  pose proof (g_attempt m L d HL Hcap c1 c2 cF HCF m1 F c kf f Hl HI) as A.
  destruct (t2_attempt m1 L F c d kf f) as [[r [[m2 F2] c2']] ex]. destruct A as (A1 & A2 & A3 & A4 & A5 & A6 & A7 & A8).
  split; [exists L, c1, c2, cF; auto 10|]. cbn [fst snd]. auto.
Qed.

(* any number of failed (or completed) attempts keeps the invariant *)
Lemma t2_attempts_ok m d L : wfL m L -> forall faults st, t2_reader_ok m d st -> t2_reader_ok m d (t2_attempts L d faults st).
Proof.
  intros HL. induction faults as [|[k f] r IH]; intros [[m1 F] c] Hok; [exact Hok|]. cbn [t2_attempts].
  pose proof (t2_attempt_reader_ok m d L m1 F c (Some k) f HL Hok) as A.
  destruct (t2_attempt m1 L F c d (Some k) f) as [[r0 st'] ex]. cbn [fst snd]. apply IH, A.
Qed.

(* ---------------------------------------------------------------- the theorems *)
Lemma t2_after_ok m d cap faults : wf_layout m -> t2_capacity m = Some cap -> len d <= cap ->
  exists L m1 F c, wfL m L /\ l_cap L = cap /\ t2_after m d faults = Some (L, (m1, F, c)) /\ t2_reader_ok m d (m1, F, c).
Proof.
  intros Hwf Hc Hd. destruct (wf_layout_wfL m Hwf) as (L & HL). pose proof (wfL_capacity m L cap HL Hc) as E.
  pose proof (t2_attempts_ok m d L HL faults (m, view m, view m) (t2_reader_ok_init m d cap Hwf Hc Hd)) as Hok.
  destruct (t2_attempts L d faults (m, view m, view m)) as [[m1 F] c] eqn:Ea.
  exists L, m1, F, c. split; [exact HL|]. split; [exact E|]. split; [|exact Hok].
  unfold t2_after. destruct HL as (Hr & _). rewrite Hr, Ea. reflexivity.
Qed.

(* after any number of attempts that failed at any command, lost or unanswered, the next undisturbed attempt succeeds and
   a fresh reader returns exactly the new data *)
Theorem t2_retry_write_read m d cap faults : wf_layout m -> bytes_ok d -> t2_capacity m = Some cap -> len d <= cap ->
  exists r m1 ws, t2_retry m d faults = Some (r, m1, ws) /\ r = Ok tt /\
    t2_fresh (apply_ws m1 ws) = Msg d /\ t2_capacity (apply_ws m1 ws) = Some cap.
Proof.
  intros Hwf _ Hc Hd. destruct (t2_after_ok m d cap faults Hwf Hc Hd) as (L & m1 & F & c & HL & E & Ha & Hok).
  pose proof (t2_attempt_reader_ok m d L m1 F c None Lost HL Hok) as A.
  unfold t2_retry. rewrite Ha. destruct (t2_attempt m1 L F c d None Lost) as [[r st'] ex]. cbn [fst snd].
  destruct A as (_ & A2 & _ & A4 & A5). exists r, m1, ex. split; [reflexivity|]. split; [apply A5; reflexivity|].
  rewrite <- A2, <- E. apply A4, A5. reflexivity.
Qed.

(* ... and whatever happens to that next attempt (cut after k2 commands, or another fault at any command, lost or
   unanswered), the tag always reads as the previous message, an empty message or the new message *)
Theorem t2_retry_cut_safe m d cap faults kf f : wf_layout m -> t2_capacity m = Some cap -> len d <= cap ->
  exists L m1 F c, t2_after m d faults = Some (L, (m1, F, c)) /\ safe_class m d m1 /\
    forall k2, safe_class m d (apply_ws m1 (firstn k2 (snd (t2_attempt m1 L F c d kf f)))).
Proof.
  intros Hwf Hc Hd. destruct (t2_after_ok m d cap faults Hwf Hc Hd) as (L & m1 & F & c & HL & E & Ha & Hok).
  pose proof (t2_attempt_reader_ok m d L m1 F c kf f HL Hok) as A.
  exists L, m1, F, c. split; [exact Ha|]. destruct (t2_attempt m1 L F c d kf f) as [[r st'] ex]. cbn [fst snd].
  destruct A as (_ & _ & A3 & _). split; [exact (A3 O) | exact A3].
Qed.

(* ---------------------------------------------------------------- another assignment with other data after failed attempts.
   A reader_ok state is a fresh reader's state on a well-formed memory with the same layout, so the single-write theorems
   apply to whatever is assigned next. *)
Lemma set_val_val L : set_val L (l_val L) = L.
Proof. destruct L; reflexivity. Qed.
Lemma t2_attempt_set_val m1 L v F c d k f : t2_attempt m1 (set_val L v) F c d k f = t2_attempt m1 L F c d k f.
Proof. reflexivity. Qed.

Lemma reader_ok_wf m d m1 F c L : wfL m L -> t2_reader_ok m d (m1, F, c) ->
  exists v, wfL m1 (set_val L v) /\ F = view m1 /\ c = view m1.
Proof.
  intros HL (L' & c1 & c2 & cF & HL' & Hcap & HCF & Hl & HI & EF & Ec). pose proof (wfL_unique m L' L HL' HL). subst L'.
  destruct (g_wf m L d HL Hcap c1 c2 cF HCF m1 F c Hl HI) as [v Hv]. exists v. auto.
Qed.

Lemma wfL_wf m L : wfL m L -> wf_layout m /\ t2_capacity m = Some (l_cap L).
Proof.
  intro H. use_wfL H. split; [|unfold t2_capacity; rewrite Hr; reflexivity].
  unfold wf_layout, wf_layoutb. rewrite Hr, Hrd, Hwr, S0, S1. cbn [negb andb].
  assert (E : (length m mod 4 =? 0)%nat = true) by (apply Nat.eqb_eq; exact H4). rewrite E.
  destruct (Z.ltb_spec (l_cap L) 255) as [Hc|Hc].
  - cbn [orb]. lia.
  - destruct (S23 Hc) as [-> ->]. cbn [negb andb orb]. lia.
Qed.

(* after any faulted attempts with data d1, an assignment of ANY data d2 (that may itself be cut or fail anywhere): a fresh
   reader sees what the tag held before this assignment, an empty message, or d2; undisturbed it succeeds and reads back d2 *)
Theorem t2_rewrite_safe m d1 cap faults d2 kf f : wf_layout m -> t2_capacity m = Some cap -> len d1 <= cap -> len d2 <= cap ->
  exists L m1 F c, t2_after m d1 faults = Some (L, (m1, F, c)) /\ safe_class m d1 m1 /\
    let '(r, st', ex) := t2_attempt m1 L F c d2 kf f in
    (forall k2, safe_class m1 d2 (apply_ws m1 (firstn k2 ex))) /\
    (kf = None -> r = Ok tt /\ t2_fresh (apply_ws m1 ex) = Msg d2 /\ t2_capacity (apply_ws m1 ex) = Some cap).
Proof.
  intros Hwf Hc Hd1 Hd2. destruct (t2_after_ok m d1 cap faults Hwf Hc Hd1) as (L & m1 & F & c & HL & E & Ha & Hok).
  exists L, m1, F, c. split; [exact Ha|].
  pose proof (t2_attempt_reader_ok m d1 L m1 F c (Some O) Lost HL Hok) as A0.
  split. { destruct (t2_attempt m1 L F c d1 (Some 0%nat) Lost) as [[r0 st0] ex0]. destruct A0 as (_ & _ & A3 & _). exact (A3 O). }
  destruct (reader_ok_wf m d1 m1 F c L HL Hok) as (v & HL1 & -> & ->).
  destruct (wfL_wf m1 (set_val L v) HL1) as [Hwf1 Hc1]. cbn [set_val l_cap] in Hc1.
  pose proof (t2_reader_ok_init m1 d2 (l_cap L) Hwf1 Hc1 ltac:(lia)) as Hok2.
  pose proof (t2_attempt_reader_ok m1 d2 (set_val L v) m1 (view m1) (view m1) kf f HL1 Hok2) as A.
  rewrite t2_attempt_set_val in A. destruct (t2_attempt m1 L (view m1) (view m1) d2 kf f) as [[r st'] ex].
  destruct A as (_ & A2 & A3 & A4 & A5). split; [exact A3|]. intro Hk. specialize (A5 Hk). split; [exact A5|].
  rewrite <- A2, <- E. apply A4, A5.
Qed.
