(* decode_encode: decoding the encoding of a PDU with valid field values yields that PDU (all 15 classes). *)
From Coq Require Import ZArith List Bool Lia ZifyBool.
From NV Require Import Base.Result Base.Bytes Model.Pdu Proofs.PduBase Proofs.PduWin Proofs.PduLen.
Import ListNotations.
Open Scope Z_scope.
Ltac Zify.zify_post_hook ::= Z.to_euclidean_division_equations.

(* ---------------------------------------------------------------- headers *)
Lemma header_rt pt d s : 0 <= pt < 16 -> 0 <= d <= 63 -> 0 <= s <= 63 ->
  exists a b, encode_header pt d s = EOk [a; b] /\ byte_ok a /\ byte_ok b /\
              Z.shiftr a 2 = d /\ Z.land b 63 = s /\ Z.land (Z.shiftr (a * 256 + b) 6) 15 = pt /\
              Z.land (Z.lor (Z.shiftl a 2) (Z.shiftr b 6)) 15 = pt.
Proof.
  intros Hp Hd Hs. unfold encode_header. rewrite header_value by lia.
  replace ((d <? 0) || (s <? 0)) with false by lia. replace ((d >? 63) || (s >? 63)) with false by lia.
  set (v := d * 1024 + pt * 64 + s). unfold in_range. replace ((0 <=? v) && (v <=? 65535)) with true by lia.
  exists (v / 256), (v mod 256). split; [reflexivity|].
  assert (Ha : byte_ok (v / 256)) by (unfold byte_ok; lia).
  assert (Hb : byte_ok (v mod 256)) by (unfold byte_ok; lia).
  split; [exact Ha|]. split; [exact Hb|].
  rewrite ptype_alt by assumption. rewrite shr2, land63, land15, shr6. unfold v. repeat split; lia.
Qed.

(* ---------------------------------------------------------------- parameters *)
Definition tlv_T (t : tlv) : Z :=
  match t with
  | TVersion _ => 1 | TMiux _ => 2 | TWks _ => 3 | TLto _ => 4 | TRw _ => 5 | TSn _ => 6 | TOpt _ => 7
  | TSdreq _ _ => 8 | TSdres _ _ => 9 | TEcpk _ => 10 | TRn _ => 11 | TOther T _ => T
  end.
Definition tlv_V (t : tlv) : list Z :=
  match t with
  | TVersion v | TLto v | TRw v | TOpt v => [v]
  | TMiux v | TWks v => [v / 256; v mod 256]
  | TSn b | TEcpk b | TRn b | TOther _ b => b
  | TSdreq tid sn => tid :: sn
  | TSdres a b => [a; b]
  end.
Definition tlv_bytes (t : tlv) : list Z := tlv_T t :: len (tlv_V t) :: tlv_V t.
Definition tlv_ok (t : tlv) : Prop :=
  match t with
  | TVersion v | TLto v => 0 <= v <= 255
  | TMiux v => 0 <= v <= 2047
  | TWks v => 0 <= v <= 65535
  | TRw v => 0 <= v <= 15
  | TOpt v => 0 <= v <= 7
  | TSn b | TEcpk b | TRn b => bytes_ok b /\ len b <= 255
  | TSdreq tid sn => 0 <= tid <= 255 /\ bytes_ok sn /\ len sn <= 254
  | TSdres a b => 0 <= a <= 255 /\ 0 <= b <= 255
  | TOther _ _ => False
  end.

Lemma param_encode_ok t : tlv_ok t -> param_encode t = EOk (tlv_bytes t).
Proof.
  destruct t; cbn [tlv_ok param_encode]; intro H; unfold packB, packH, in_range, tlv_bytes; cbn [tlv_T tlv_V];
    try (replace ((0 <=? v) && (v <=? 255)) with true by lia); try (replace ((0 <=? v) && (v <=? 65535)) with true by lia);
    try reflexivity.
  - destruct H. replace (len b >? 255) with false by lia. reflexivity.
  - destruct H as (? & ? & ?). replace (len sn >? 254) with false by lia.
    replace ((0 <=? tid) && (tid <=? 255)) with true by lia. cbn [ebind app]. rewrite len_cons. reflexivity.
  - replace ((0 <=? tid) && (tid <=? 255)) with true by lia. replace ((0 <=? sap) && (sap <=? 255)) with true by lia. reflexivity.
  - destruct H. replace (len b >? 255) with false by lia. reflexivity.
  - destruct H. replace (len b >? 255) with false by lia. reflexivity.
  - contradiction.
Qed.

Lemma tlv_interp_ok t : tlv_ok t -> tlv_interp (tlv_T t) (len (tlv_V t)) (tlv_V t) = Ok t.
Proof.
  destruct t; cbn [tlv_ok tlv_T tlv_V]; intro H; try reflexivity.
  - unfold tlv_interp. cbn [Z.eqb Pos.eqb len length Z.of_nat Pos.of_succ_nat Pos.succ negb].
    rewrite land2047. f_equal. f_equal. lia.
  - unfold tlv_interp. cbn [Z.eqb Pos.eqb len length Z.of_nat Pos.of_succ_nat Pos.succ negb]. f_equal. f_equal. lia.
  - unfold tlv_interp. cbn [Z.eqb Pos.eqb len length Z.of_nat Pos.of_succ_nat Pos.succ negb]. rewrite land15. f_equal. f_equal. lia.
  - unfold tlv_interp. cbn [Z.eqb Pos.eqb len length Z.of_nat Pos.of_succ_nat Pos.succ negb]. rewrite land7. f_equal. f_equal. lia.
  - contradiction.
Qed.

Lemma tlv_V_ok t : tlv_ok t -> bytes_ok (tlv_V t) /\ 0 <= len (tlv_V t) <= 255.
Proof.
  destruct t; cbn [tlv_ok tlv_V]; intro H;
    try (split; [repeat constructor; unfold byte_ok; lia | cbn; lia]);
    try (destruct H as [Hb Hl]; split; [exact Hb | pose proof (len_nonneg b); lia]).
  - destruct H as (Ht & Hb & Hl). split; [constructor; [unfold byte_ok; lia | exact Hb] | rewrite len_cons; pose proof (len_nonneg sn); lia].
Qed.
Lemma tlv_T_ok t : tlv_ok t -> 0 <= tlv_T t < 256.
Proof. destruct t; cbn; intro; try lia. Qed.
Lemma tlv_bytes_ok t : tlv_ok t -> bytes_ok (tlv_bytes t).
Proof.
  intro H. destruct (tlv_V_ok t H) as [Hv Hl]. pose proof (tlv_T_ok t H).
  unfold tlv_bytes. constructor; [unfold byte_ok; lia|]. constructor; [unfold byte_ok; lia | exact Hv].
Qed.
Lemma tlv_bytes_len t : len (tlv_bytes t) = 2 + len (tlv_V t).
Proof. unfold tlv_bytes. apply len2. Qed.

Definition tlvs_bytes (ts : list tlv) : list Z := concat (map tlv_bytes ts).
Lemma tlvs_bytes_ok ts : Forall tlv_ok ts -> bytes_ok (tlvs_bytes ts).
Proof. induction 1 as [|t r Ht Hr IH]; [constructor|]. unfold tlvs_bytes. cbn [map concat].
  apply bytes_ok_app. split; [apply tlv_bytes_ok, Ht | exact IH]. Qed.

(* the TLV loop over the encodings of valid parameters is the fold of the class's step function *)
Lemma tlvs_w_encs step : forall ts fuel st, Forall tlv_ok ts -> len (tlvs_bytes ts) <= Z.of_nat fuel ->
  tlvs_w fuel step (tlvs_bytes ts) st = Ok (fold_left step ts st).
Proof.
  induction ts as [|t r IH]; intros fuel st Hok Hf.
  - destruct fuel; reflexivity.
  - inversion Hok as [|? ? Ht Hr]; subst. unfold tlvs_bytes in *. cbn [map concat] in *.
    rewrite len_app, tlv_bytes_len in Hf. destruct (tlv_V_ok t Ht) as [Hv Hl].
    pose proof (len_nonneg (concat (map tlv_bytes r))) as Hn.
    destruct fuel as [|f]; [lia|].
    unfold tlv_bytes at 1. cbn [app tlvs_w]. rewrite len_app.
    replace (len (tlv_V t) >? len (tlv_V t) + len (concat (map tlv_bytes r))) with false by lia.
    rewrite take_app_len by reflexivity. rewrite drop_app_len by reflexivity.
    rewrite tlv_interp_ok by exact Ht. cbn [bind fold_left]. apply IH; [exact Hr | lia].
Qed.

Lemma tlvs_bytes_app a b : tlvs_bytes (a ++ b) = tlvs_bytes a ++ tlvs_bytes b.
Proof. unfold tlvs_bytes. rewrite map_app, concat_app. reflexivity. Qed.
Lemma tlvs_bytes_nil : tlvs_bytes [] = []. Proof. reflexivity. Qed.
Lemma tlvs_bytes_one t : tlvs_bytes [t] = tlv_bytes t. Proof. unfold tlvs_bytes. cbn [map concat]. apply app_nil_r. Qed.

Definition opt_list {A} (o : option A) (mk : A -> tlv) : list tlv := match o with Some v => [mk v] | None => [] end.
Lemma opt_tlv_ok lo hi o mk : optZ_ok lo hi o = true -> (forall v, lo <= v <= hi -> tlv_ok (mk v)) ->
  opt_tlv o mk = EOk (tlvs_bytes (opt_list o mk)) /\ Forall tlv_ok (opt_list o mk).
Proof.
  intros Ho Hmk. destruct o as [v|]; cbn [opt_tlv opt_list optZ_ok] in *.
  - unfold in_range in Ho. assert (Hv : tlv_ok (mk v)) by (apply Hmk; lia).
    rewrite tlvs_bytes_one. split; [apply param_encode_ok, Hv | constructor; [exact Hv | constructor]].
  - split; [reflexivity | constructor].
Qed.
Definition optb_list (o : option (list Z)) (mk : list Z -> tlv) : list tlv :=
  match o with Some (x :: b) => [mk (x :: b)] | _ => [] end.
Lemma optb_tlv_ok o mk : optb_ok o = true -> (forall v, bytes_ok v -> len v <= 255 -> tlv_ok (mk v)) ->
  optb_tlv o mk = EOk (tlvs_bytes (optb_list o mk)) /\ Forall tlv_ok (optb_list o mk).
Proof.
  intros Ho Hmk. destruct o as [[|x v]|]; cbn [optb_tlv optb_list optb_ok] in *.
  - split; [reflexivity | constructor].
  - apply andb_true_iff in Ho. destruct Ho as [Hb Hl]. apply bytes_okb_spec in Hb. unfold in_range in Hl.
    assert (Hv : tlv_ok (mk (x :: v))) by (apply Hmk; [exact Hb | lia]).
    rewrite tlvs_bytes_one. split; [apply param_encode_ok, Hv | constructor; [exact Hv | constructor]].
  - split; [reflexivity | constructor].
Qed.

Lemma emapM_ok {A} (f : A -> eres (list Z)) (g : A -> list Z) l : (forall x, In x l -> f x = EOk (g x)) ->
  emapM f l = EOk (map g l).
Proof.
  induction l as [|x r IH]; intro H; [reflexivity|]. rewrite emapM_cons, (H x (or_introl eq_refl)). cbn [ebind].
  rewrite IH by (intros; apply H; right; assumption). reflexivity.
Qed.

Lemma fuel_ok (l : list Z) : len l <= Z.of_nat (Z.to_nat (len l)).
Proof. pose proof (len_nonneg l). lia. Qed.

Lemma snl_fold rq rs : forall d s q0 r0,
  fold_left snl_step (map (fun x : Z * list Z => TSdreq (fst x) (snd x)) rq ++ map (fun x : Z * Z => TSdres (fst x) (snd x)) rs)
    (Snl d s q0 r0) = Snl d s (q0 ++ rq) (r0 ++ rs).
Proof.
  induction rq as [|[t n] rq IH]; intros d s q0 r0.
  - cbn [map app]. rewrite app_nil_r. revert r0. induction rs as [|[t a] rs IHs]; intro r0.
    + rewrite app_nil_r. reflexivity.
    + cbn [map fold_left snl_step fst snd]. rewrite IHs. rewrite <- app_assoc. reflexivity.
  - cbn [map app fold_left snl_step fst snd]. rewrite IH. rewrite <- app_assoc. reflexivity.
Qed.

Lemma bytes_ok2 a b l : byte_ok a -> byte_ok b -> bytes_ok l -> bytes_ok (a :: b :: l).
Proof. intros. constructor; [assumption|]. constructor; assumption. Qed.
Lemma bytes_ok_nil : bytes_ok []. Proof. constructor. Qed.
Lemma bytes_ok1 x : 0 <= x <= 255 -> bytes_ok [x].
Proof. intro. constructor; [unfold byte_ok; lia | constructor]. Qed.

Ltac vsplit H :=
  unfold valid in H; cbn [validb] in H; unfold sap_ok, in_range in H;
  repeat match type of H with (_ && _ = true) => let H2 := fresh "V" in apply andb_true_iff in H; destruct H as [H H2] end.

(* all classes but AGF, with any decoder in the AGF slot *)
Lemma rt_nonagf agfh q : valid q -> is_agf q = false ->
  exists b, encode q = EOk b /\ bytes_ok b /\ dec_w agfh b = Ok q.
Proof.
  intros Hv Hq. destruct q; try discriminate Hq; clear Hq.
  - (* SYMM *)
    vsplit Hv. assert (dsap = 0) by lia. assert (ssap = 0) by lia. subst.
    destruct (header_rt 0 0 0) as (a & b & Hh & Ha & Hb & Hd & Hs & Hpt & _); try lia.
    exists [a; b]. split; [exact Hh|]. split; [apply bytes_ok2; [assumption | assumption | apply bytes_ok_nil]|].
    unfold dec_w. rewrite Hd, Hs, Hpt. reflexivity.
  - (* PAX *)
    vsplit Hv. assert (dsap = 0) by lia. assert (ssap = 0) by lia. subst.
    destruct (header_rt 1 0 0) as (a & b & Hh & Ha & Hb & Hd & Hs & Hpt & _); try lia.
    destruct (opt_tlv_ok 0 255 version TVersion V3) as [E1 F1]; [intros; cbn; lia|].
    destruct (opt_tlv_ok 0 2047 miux TMiux V2) as [E2 F2]; [intros; cbn; lia|].
    destruct (opt_tlv_ok 0 65535 wks TWks V1) as [E3 F3]; [intros; cbn; lia|].
    destruct (opt_tlv_ok 0 255 lto TLto V0) as [E4 F4]; [intros; cbn; lia|].
    destruct (opt_tlv_ok 0 7 opt TOpt V) as [E5 F5]; [intros; cbn; lia|].
    set (ts := opt_list version TVersion ++ opt_list miux TMiux ++ opt_list wks TWks ++ opt_list lto TLto ++ opt_list opt TOpt).
    assert (Fts : Forall tlv_ok ts) by (unfold ts; repeat (apply Forall_app; split); assumption).
    exists (a :: b :: tlvs_bytes ts). split; [|split].
    + cbn [encode]. change (negb (0 =? 0) || negb (0 =? 0)) with false. cbv iota.
      rewrite Hh, E1, E2, E3, E4, E5. cbn [ebind]. unfold ts. rewrite !tlvs_bytes_app. reflexivity.
    + apply bytes_ok2; [assumption | assumption | apply tlvs_bytes_ok, Fts].
    + unfold dec_w. rewrite Hd, Hs, Hpt. cbn [Z.eqb Pos.eqb negb orb]. cbv iota zeta.
      rewrite tlvs_w_encs by (try exact Fts; apply fuel_ok). f_equal.
      unfold ts. destruct version, miux, wks, lto, opt; reflexivity.
  - (* UI *)
    vsplit Hv. destruct (header_rt 3 dsap ssap) as (a & b & Hh & Ha & Hb & Hd & Hs & Hpt & _); try lia.
    apply bytes_okb_spec in V.
    exists (a :: b :: data). split; [cbn [encode]; rewrite Hh; reflexivity|].
    split; [apply bytes_ok2; assumption|].
    unfold dec_w. rewrite Hd, Hs, Hpt. reflexivity.
  - (* CONNECT *)
    vsplit Hv. destruct (header_rt 4 dsap ssap) as (a & b & Hh & Ha & Hb & Hd & Hs & Hpt & _); try lia.
    destruct (optb_tlv_ok sn TSn V) as [E3 F3]; [intros; cbn; split; assumption|].
    set (ts := (if miu >? 128 then [TMiux (miu - 128)] else []) ++ (if negb (rw =? 1) then [TRw rw] else []) ++ optb_list sn TSn).
    assert (Fts : Forall tlv_ok ts).
    { unfold ts. repeat (apply Forall_app; split); try exact F3.
      - destruct (miu >? 128) eqn:E; [constructor; [cbn; lia | constructor] | constructor].
      - destruct (negb (rw =? 1)); [constructor; [cbn; lia | constructor] | constructor]. }
    exists (a :: b :: tlvs_bytes ts). split; [|split].
    + cbn [encode]. rewrite Hh, E3. cbn [ebind]. unfold ts. rewrite !tlvs_bytes_app.
      destruct (miu >? 128) eqn:E; destruct (negb (rw =? 1)) eqn:E';
        rewrite ?param_encode_ok by (cbn; lia); cbn [ebind]; rewrite ?tlvs_bytes_one; reflexivity.
    + apply bytes_ok2; [assumption | assumption | apply tlvs_bytes_ok, Fts].
    + unfold dec_w. rewrite Hd, Hs, Hpt. cbn [Z.eqb Pos.eqb negb orb]. cbv iota zeta.
      rewrite tlvs_w_encs by (try exact Fts; apply fuel_ok). f_equal.
      unfold ts. destruct (miu >? 128) eqn:E; destruct (rw =? 1) eqn:E'; destruct sn as [[|x l]|]; try discriminate V;
        cbn [negb app fold_left connect_step optb_list]; f_equal; lia.
  - (* DISC *)
    vsplit Hv. destruct (header_rt 5 dsap ssap) as (a & b & Hh & Ha & Hb & Hd & Hs & Hpt & _); try lia.
    exists [a; b]. split; [exact Hh|]. split; [apply bytes_ok2; [assumption | assumption | apply bytes_ok_nil]|].
    unfold dec_w. rewrite Hd, Hs, Hpt. reflexivity.
  - (* CC *)
    vsplit Hv. destruct (header_rt 6 dsap ssap) as (a & b & Hh & Ha & Hb & Hd & Hs & Hpt & _); try lia.
    set (ts := (if miu >? 128 then [TMiux (miu - 128)] else []) ++ (if negb (rw =? 1) then [TRw rw] else [])).
    assert (Fts : Forall tlv_ok ts).
    { unfold ts. repeat (apply Forall_app; split).
      - destruct (miu >? 128) eqn:E; [constructor; [cbn; lia | constructor] | constructor].
      - destruct (negb (rw =? 1)); [constructor; [cbn; lia | constructor] | constructor]. }
    exists (a :: b :: tlvs_bytes ts). split; [|split].
    + cbn [encode]. rewrite Hh. cbn [ebind]. unfold ts. rewrite !tlvs_bytes_app.
      destruct (miu >? 128) eqn:E; destruct (negb (rw =? 1)) eqn:E';
        rewrite ?param_encode_ok by (cbn; lia); cbn [ebind]; rewrite ?tlvs_bytes_one; reflexivity.
    + apply bytes_ok2; [assumption | assumption | apply tlvs_bytes_ok, Fts].
    + unfold dec_w. rewrite Hd, Hs, Hpt. cbn [Z.eqb Pos.eqb negb orb]. cbv iota zeta.
      rewrite tlvs_w_encs by (try exact Fts; apply fuel_ok). f_equal.
      unfold ts. destruct (miu >? 128) eqn:E; destruct (rw =? 1) eqn:E';
        cbn [negb app fold_left cc_step]; f_equal; lia.
  - (* DM *)
    vsplit Hv. destruct (header_rt 7 dsap ssap) as (a & b & Hh & Ha & Hb & Hd & Hs & Hpt & _); try lia.
    exists [a; b; reason]. split; [|split].
    + cbn [encode]. rewrite Hh. unfold rawB, in_range. replace ((0 <=? reason) && (reason <=? 255)) with true by lia. reflexivity.
    + apply bytes_ok2; [assumption | assumption | apply bytes_ok1; lia].
    + unfold dec_w. rewrite Hd, Hs, Hpt. reflexivity.
  - (* FRMR *)
    vsplit Hv. destruct (header_rt 8 dsap ssap) as (a & b & Hh & Ha & Hb & Hd & Hs & Hpt & _); try lia.
    exists [a; b; flags * 16 + ptype; ns * 16 + nr; vs * 16 + vr; vsa * 16 + vra]. split; [|split].
    + cbn [encode]. rewrite Hh. rewrite !lor_nibbles by lia. unfold rawB, in_range.
      replace ((0 <=? flags * 16 + ptype) && (flags * 16 + ptype <=? 255)) with true by lia.
      replace ((0 <=? ns * 16 + nr) && (ns * 16 + nr <=? 255)) with true by lia.
      replace ((0 <=? vs * 16 + vr) && (vs * 16 + vr <=? 255)) with true by lia.
      replace ((0 <=? vsa * 16 + vra) && (vsa * 16 + vra <=? 255)) with true by lia. reflexivity.
    + apply bytes_ok2; [assumption | assumption |]. repeat (constructor; [unfold byte_ok; lia|]). constructor.
    + unfold dec_w. rewrite Hd, Hs, Hpt. cbn [Z.eqb Pos.eqb]. cbv iota zeta. rewrite !shr4, !land15.
      f_equal. f_equal; lia.
  - (* SNL *)
    vsplit Hv. assert (dsap = 1) by lia. assert (ssap = 1) by lia. subst.
    destruct (header_rt 9 1 1) as (a & b & Hh & Ha & Hb & Hd & Hs & Hpt & _); try lia.
    rewrite forallb_forall in V, V0.
    set (ts := map (fun x : Z * list Z => TSdreq (fst x) (snd x)) sdreq ++ map (fun x : Z * Z => TSdres (fst x) (snd x)) sdres).
    assert (Fts : Forall tlv_ok ts).
    { unfold ts. apply Forall_app. split; apply Forall_forall; intros t Ht; apply in_map_iff in Ht; destruct Ht as (x & <- & Hx).
      - specialize (V0 x Hx). apply andb_true_iff in V0. destruct V0 as [V0 V2]. apply andb_true_iff in V0. destruct V0 as [V0 V3].
        apply bytes_okb_spec in V3. unfold in_range in V0. cbn. repeat split; try assumption; lia.
      - specialize (V x Hx). unfold in_range in V. cbn. lia. }
    exists (a :: b :: tlvs_bytes ts). split; [|split].
    + cbn [encode]. rewrite Hh. cbn [ebind]. unfold econcat.
      rewrite (emapM_ok _ (fun x => tlv_bytes (TSdreq (fst x) (snd x)))).
      2:{ intros x Hx. apply param_encode_ok. unfold ts in Fts. apply Forall_app in Fts. destruct Fts as [F1 _].
          rewrite Forall_forall in F1. apply F1. apply in_map_iff. exists x. split; [reflexivity | exact Hx]. }
      rewrite (emapM_ok _ (fun x => tlv_bytes (TSdres (fst x) (snd x)))).
      2:{ intros x Hx. apply param_encode_ok. unfold ts in Fts. apply Forall_app in Fts. destruct Fts as [_ F2].
          rewrite Forall_forall in F2. apply F2. apply in_map_iff. exists x. split; [reflexivity | exact Hx]. }
      cbn [ebind]. unfold ts. rewrite tlvs_bytes_app. unfold tlvs_bytes. rewrite !map_map. reflexivity.
    + apply bytes_ok2; [assumption | assumption | apply tlvs_bytes_ok, Fts].
    + unfold dec_w. rewrite Hd, Hs, Hpt. cbn [Z.eqb Pos.eqb negb orb]. cbv iota zeta.
      rewrite tlvs_w_encs by (try exact Fts; apply fuel_ok). f_equal.
      unfold ts. rewrite snl_fold. reflexivity.
  - (* DPS *)
    vsplit Hv. assert (dsap = 0) by lia. assert (ssap = 0) by lia. subst.
    destruct (header_rt 10 0 0) as (a & b & Hh & Ha & Hb & Hd & Hs & Hpt & _); try lia.
    destruct (optb_tlv_ok ecpk TEcpk V0) as [E1 F1]; [intros; cbn; split; assumption|].
    destruct (optb_tlv_ok rn TRn V) as [E2 F2]; [intros; cbn; split; assumption|].
    set (ts := optb_list ecpk TEcpk ++ optb_list rn TRn).
    assert (Fts : Forall tlv_ok ts) by (unfold ts; apply Forall_app; split; assumption).
    exists (a :: b :: tlvs_bytes ts). split; [|split].
    + cbn [encode]. change (negb (0 =? 0) || negb (0 =? 0)) with false. cbv iota.
      rewrite Hh, E1, E2. cbn [ebind]. unfold ts. rewrite !tlvs_bytes_app. reflexivity.
    + apply bytes_ok2; [assumption | assumption | apply tlvs_bytes_ok, Fts].
    + unfold dec_w. rewrite Hd, Hs, Hpt. cbn [Z.eqb Pos.eqb negb orb]. cbv iota zeta.
      rewrite tlvs_w_encs by (try exact Fts; apply fuel_ok). f_equal.
      unfold ts. destruct ecpk as [[|x l]|]; try discriminate V0; destruct rn as [[|y m]|]; try discriminate V; reflexivity.
  - (* I *)
    vsplit Hv. destruct (header_rt 12 dsap ssap) as (a & b & Hh & Ha & Hb & Hd & Hs & Hpt & _); try lia.
    apply bytes_okb_spec in V.
    exists (a :: b :: (ns * 16 + nr) :: data). split; [|split].
    + cbn [encode]. unfold encode_nheader. rewrite Hh. cbn [ebind].
      replace ((ns <? 0) || (nr <? 0)) with false by lia. replace ((ns >? 15) || (nr >? 15)) with false by lia.
      rewrite lor_nibbles by lia. reflexivity.
    + apply bytes_ok2; [assumption | assumption |]. constructor; [unfold byte_ok; lia | exact V].
    + unfold dec_w. rewrite Hd, Hs, Hpt. cbn [Z.eqb Pos.eqb]. cbv iota zeta. rewrite shr4, land15. f_equal. f_equal; lia.
  - (* RR *)
    vsplit Hv. destruct (header_rt 13 dsap ssap) as (a & b & Hh & Ha & Hb & Hd & Hs & Hpt & _); try lia.
    exists [a; b; nr]. split; [|split].
    + cbn [encode]. unfold encode_nheader. rewrite Hh. cbn [ebind].
      replace ((0 <? 0) || (nr <? 0)) with false by lia. replace ((0 >? 15) || (nr >? 15)) with false by lia.
      rewrite lor_nibbles by lia. reflexivity.
    + apply bytes_ok2; [assumption | assumption | apply bytes_ok1; lia].
    + unfold dec_w. rewrite Hd, Hs, Hpt. cbn [Z.eqb Pos.eqb]. cbv iota zeta. rewrite land15. f_equal. f_equal; lia.
  - (* RNR *)
    vsplit Hv. destruct (header_rt 14 dsap ssap) as (a & b & Hh & Ha & Hb & Hd & Hs & Hpt & _); try lia.
    exists [a; b; nr]. split; [|split].
    + cbn [encode]. unfold encode_nheader. rewrite Hh. cbn [ebind].
      replace ((0 <? 0) || (nr <? 0)) with false by lia. replace ((0 >? 15) || (nr >? 15)) with false by lia.
      rewrite lor_nibbles by lia. reflexivity.
    + apply bytes_ok2; [assumption | assumption | apply bytes_ok1; lia].
    + unfold dec_w. rewrite Hd, Hs, Hpt. cbn [Z.eqb Pos.eqb]. cbv iota zeta. rewrite land15. f_equal. f_equal; lia.
  - (* unknown PTYPE 1011 / 1111 *)
    vsplit Hv. destruct (header_rt ptype dsap ssap) as (a & b & Hh & Ha & Hb & Hd & Hs & Hpt & Hpt2); try lia.
    apply bytes_okb_spec in V.
    exists (a :: b :: payload). split; [cbn [encode]; rewrite Hh; reflexivity|].
    split; [apply bytes_ok2; assumption|].
    unfold dec_w. rewrite Hd, Hs, Hpt, Hpt2.
    assert (Hc : ptype = 11 \/ ptype = 15) by lia. destruct Hc as [-> | ->]; reflexivity.
Qed.

(* ---------------------------------------------------------------- aggregates *)
Lemma agf_members_rt : forall ps,
  (forall q, In q ps -> valid q /\ is_agf q = false /\ pdu_len q <= 65535) ->
  exists encs body, emapM encode ps = EOk encs /\ agf_body encs = EOk body /\ bytes_ok body /\
    forall fuel acc, len body <= Z.of_nat fuel -> agf_w fuel body acc = Ok (acc ++ ps).
Proof.
  induction ps as [|q r IH]; intro H.
  - exists [], []. repeat split; [constructor|]. intros fuel acc _. rewrite app_nil_r. destruct fuel; reflexivity.
  - destruct IH as (encs & body & E1 & E2 & Hb & Hw); [intros; apply H; right; assumption|].
    destruct (H q (or_introl eq_refl)) as (Hv & Hq & Hl).
    destruct (rt_nonagf (fun _ => Err DecodeError) q Hv Hq) as (bq & Eq & Hbq & Hd).
    pose proof (len_encode q bq Eq) as Hlen. pose proof (len_nonneg bq) as Hn.
    exists (bq :: encs), ([len bq / 256; len bq mod 256] ++ bq ++ body). split; [|split; [|split]].
    + rewrite emapM_cons, Eq, E1. reflexivity.
    + cbn [agf_body]. unfold in_range. replace ((0 <=? len bq) && (len bq <=? 65535)) with true by lia.
      rewrite E2. reflexivity.
    + cbn [app]. apply bytes_ok2; [unfold byte_ok; lia | unfold byte_ok; lia |].
      apply bytes_ok_app. split; assumption.
    + intros fuel acc Hf. cbn [app] in *. rewrite len2, len_app in Hf. pose proof (len_nonneg body).
      destruct fuel as [|f]; [lia|]. cbn [agf_w].
      replace (len bq / 256 * 256 + len bq mod 256) with (len bq) by lia.
      rewrite len_app. replace (len bq >? len bq + len body) with false by lia.
      rewrite take_app_len, drop_app_len by reflexivity. fold sub_w. unfold sub_w at 1. rewrite Hd. cbn [bind].
      rewrite Hw by lia. rewrite <- app_assoc. reflexivity.
Qed.

Lemma rt_agf d s ps : valid (Agf d s ps) ->
  exists b, encode (Agf d s ps) = EOk b /\ bytes_ok b /\ decode_w b = Ok (Agf d s ps).
Proof.
  intro Hv. vsplit Hv. assert (d = 0) by lia. assert (s = 0) by lia. subst.
  destruct (header_rt 2 0 0) as (a & b & Hh & Ha & Hb & Hd & Hs & Hpt & _); try lia.
  destruct (agf_members_rt ps) as (encs & body & E1 & E2 & Hbody & Hw).
  { intros q Hq. rewrite forallb_forall in V. specialize (V q Hq).
    apply andb_true_iff in V. destruct V as [V V2]. apply andb_true_iff in V. destruct V as [V V3].
    repeat split; [exact V | destruct (is_agf q); [discriminate V3 | reflexivity] | lia]. }
  exists (a :: b :: body). split; [|split].
  - cbn [encode]. change (negb (0 =? 0) || negb (0 =? 0)) with false. cbv iota. rewrite Hh. cbn [ebind].
    rewrite E1. cbn [ebind]. rewrite E2. reflexivity.
  - apply bytes_ok2; assumption.
  - unfold decode_w, dec_w. rewrite Hd, Hs, Hpt. cbn [Z.eqb Pos.eqb]. cbv iota zeta.
    unfold agfdec_w. rewrite Hd, Hs. cbn [Z.eqb negb orb]. cbv iota.
    rewrite Hw by apply fuel_ok. reflexivity.
Qed.

(* ---------------------------------------------------------------- the round trip theorem *)
Theorem decode_encode_w p : valid p -> exists b, encode p = EOk b /\ bytes_ok b /\ decode_w b = Ok p.
Proof.
  intro Hv. destruct (is_agf p) eqn:E.
  - destruct p; try discriminate E. apply rt_agf, Hv.
  - apply rt_nonagf; assumption.
Qed.

Theorem decode_encode p : valid p -> exists b, encode p = EOk b /\ decode b 0 (len b) = Ok p.
Proof.
  intro Hv. destruct (decode_encode_w p Hv) as (b & He & Hb & Hd).
  exists b. split; [exact He|]. rewrite decode_whole by exact Hb. exact Hd.
Qed.

(* ... and the same inside any buffer (offset, size) *)
Corollary decode_encode_at p pre post : valid p ->
  exists b, encode p = EOk b /\ decode (pre ++ b ++ post) (len pre) (len b) = Ok p.
Proof.
  intro Hv. destruct (decode_encode_w p Hv) as (b & He & Hb & Hd).
  exists b. split; [exact He|]. rewrite decode_window by exact Hb. exact Hd.
Qed.
