(* Window form of the LLCP PDU decoder and locality:
     decode (pre ++ w ++ post) (len pre) (len w) = decode_w w        (theorem decode_window)
   i.e. the decoder reads the PDU's own bytes only; decode_w is the same decoder written by pattern matching on the
   PDU's bytes.  All further theorems are proved on decode_w. *)
From Coq Require Import ZArith List Bool Lia ZifyBool.
From NV Require Import Base.Result Base.Bytes Model.Pdu Proofs.PduBase.
Import ListNotations.
Open Scope Z_scope.
Ltac Zify.zify_post_hook ::= Z.to_euclidean_division_equations.

(* ---------------------------------------------------------------- window decoders *)
Fixpoint tlvs_w (fuel : nat) (step : pdu -> tlv -> pdu) (w : list Z) (st : pdu) : res pdu :=
  match w with
  | T :: L :: rest =>
      match fuel with
      | O => Hang
      | S f => if L >? len rest then Err DecodeError else
               do t <- tlv_interp T L (take L rest);
               tlvs_w f step (drop L rest) (step st t)
      end
  | _ => Ok st
  end.

Definition dec_w (agf : list Z -> res pdu) (w : list Z) : res pdu :=
  match w with
  | a :: b :: info =>
      let dsap := Z.shiftr a 2 in let ssap := Z.land b 63 in
      let ptype := Z.land (Z.shiftr (a * 256 + b) 6) 15 in
      let nz := negb (dsap =? 0) || negb (ssap =? 0) in
      let fuel := Z.to_nat (len info) in
      if ptype =? 0 then if nz then Err DecodeError else match info with [] => Ok (Symm dsap ssap) | _ => Err DecodeError end
      else if ptype =? 1 then if nz then Err DecodeError else tlvs_w fuel pax_step info (Pax dsap ssap None None None None None)
      else if ptype =? 2 then agf w
      else if ptype =? 3 then Ok (UI dsap ssap info)
      else if ptype =? 4 then tlvs_w fuel connect_step info (Connect dsap ssap 128 1 None)
      else if ptype =? 5 then Ok (Disc dsap ssap)
      else if ptype =? 6 then tlvs_w fuel cc_step info (CC dsap ssap 128 1)
      else if ptype =? 7 then match info with [r] => Ok (DM dsap ssap r) | _ => Err DecodeError end
      else if ptype =? 8 then
        match info with
        | [b0; b1; b2; b3] => Ok (Frmr dsap ssap (Z.shiftr b0 4) (Z.land b0 15) (Z.shiftr b1 4) (Z.land b1 15)
                                       (Z.shiftr b2 4) (Z.land b2 15) (Z.shiftr b3 4) (Z.land b3 15))
        | _ => Err DecodeError
        end
      else if ptype =? 9 then if negb (dsap =? 1) || negb (ssap =? 1) then Err DecodeError
                              else tlvs_w fuel snl_step info (Snl dsap ssap [] [])
      else if ptype =? 10 then if nz then Err DecodeError else tlvs_w fuel dps_step info (Dps dsap ssap None None)
      else if ptype =? 12 then match info with q :: data => Ok (Info dsap ssap (Z.shiftr q 4) (Z.land q 15) data)
                                             | [] => Err DecodeError end
      else if ptype =? 13 then match info with q :: _ => Ok (RR dsap ssap (Z.land q 15)) | [] => Err DecodeError end
      else if ptype =? 14 then match info with q :: _ => Ok (RNR dsap ssap (Z.land q 15)) | [] => Err DecodeError end
      else Ok (Unknown (Z.land (Z.lor (Z.shiftl a 2) (Z.shiftr b 6)) 15) dsap ssap info)
  | _ => Err DecodeError
  end.

Definition sub_w : list Z -> res pdu := dec_w (fun _ => Err DecodeError).

Fixpoint agf_w (fuel : nat) (w : list Z) (acc : list pdu) : res (list pdu) :=
  match w with
  | [] => Ok acc
  | _ => match fuel with
         | O => Hang
         | S f => match w with
                  | h :: l :: rest =>
                      let n := h * 256 + l in
                      if n >? len rest then Err DecodeError else
                      do p <- sub_w (take n rest);
                      agf_w f (drop n rest) (acc ++ [p])
                  | _ => Err DecodeError
                  end
         end
  end.
Definition agfdec_w (w : list Z) : res pdu :=
  match w with
  | a :: b :: info =>
      let dsap := Z.shiftr a 2 in let ssap := Z.land b 63 in
      if negb (dsap =? 0) || negb (ssap =? 0) then Err DecodeError else
      do l <- agf_w (Z.to_nat (len info)) info []; Ok (Agf dsap ssap l)
  | _ => Err DecodeError
  end.
Definition decode_w : list Z -> res pdu := dec_w agfdec_w.

(* ---------------------------------------------------------------- small reading lemmas *)
Lemma rd_mid0 pre w post : 0 < len w -> rd (pre ++ w ++ post) (len pre) = rd w 0.
Proof. intro. replace (len pre) with (len pre + 0) by lia. apply rd_mid. lia. Qed.
Lemma rd_c1 (x0 x1 : Z) l : rd (x0 :: x1 :: l) 1 = Some x1. Proof. reflexivity. Qed.
Lemma rd_c2 (x0 x1 x2 : Z) l : rd (x0 :: x1 :: x2 :: l) 2 = Some x2. Proof. reflexivity. Qed.
Lemma rd_c3 (x0 x1 x2 x3 : Z) l : rd (x0 :: x1 :: x2 :: x3 :: l) 3 = Some x3. Proof. reflexivity. Qed.
Lemma rd_c4 (x0 x1 x2 x3 x4 : Z) l : rd (x0 :: x1 :: x2 :: x3 :: x4 :: l) 4 = Some x4. Proof. reflexivity. Qed.
Lemma rd_c5 (x0 x1 x2 x3 x4 x5 : Z) l : rd (x0 :: x1 :: x2 :: x3 :: x4 :: x5 :: l) 5 = Some x5. Proof. reflexivity. Qed.
Lemma drop2 {A} (a b : A) l : drop 2 (a :: b :: l) = l. Proof. reflexivity. Qed.
Lemma drop3 {A} (a b c : A) l : drop 3 (a :: b :: c :: l) = l. Proof. reflexivity. Qed.

Lemma tlv_loop_eq fuel step data offset size st :
  tlv_loop fuel step data offset size st =
  if size <? 2 then Ok st else
  match fuel with
  | O => Hang
  | S f => do (L, t) <- param_decode data offset size;
           tlv_loop f step data (offset + 2 + L) (size - 2 - L) (step st t)
  end.
Proof. destruct fuel; reflexivity. Qed.
Lemma agf_loop_eq fuel data offset size acc :
  agf_loop fuel data offset size acc =
  if size <=? 0 then Ok acc else
  match fuel with
  | O => Hang
  | S f =>
      if size <? 2 then Err DecodeError else
      match rd data offset, rd data (offset + 1) with
      | Some h, Some l =>
          let n := h * 256 + l in
          if n >? size - 2 then Err DecodeError else
          do p <- decode_sub data (offset + 2) n;
          agf_loop f data (offset + 2 + n) (size - 2 - n) (acc ++ [p])
      | _, _ => Err DecodeError
      end
  end.
Proof. destruct fuel; reflexivity. Qed.

(* ---------------------------------------------------------------- the TLV loop reads its own bytes *)
Lemma param_decode_w pre T L rest post :
  0 <= L ->
  param_decode (pre ++ (T :: L :: rest) ++ post) (len pre) (len (T :: L :: rest)) =
  if L >? len rest then Err DecodeError else do t <- tlv_interp T L (take L rest); Ok (L, t).
Proof.
  intro HL. unfold param_decode. pose proof (len_nonneg rest) as Hr. pose proof (len_nonneg post) as Hp.
  rewrite rd_mid0 by (rewrite len2; lia). rewrite rd_mid by (rewrite len2; lia).
  rewrite rd_cons0, rd_c1. rewrite !len_app, len2.
  destruct (L >? len rest) eqn:E.
  - destruct (len pre + 2 + L >? len pre + (2 + len rest + len post)); [reflexivity|].
    replace (2 + L >? 2 + len rest) with true by lia. reflexivity.
  - replace (len pre + 2 + L >? len pre + (2 + len rest + len post)) with false by lia.
    replace (2 + L >? 2 + len rest) with false by lia.
    replace (len pre + 2 + L) with (len pre + (2 + L)) by lia.
    rewrite slice_mid by (rewrite ?len2; lia).
    rewrite slice_take_drop by lia. rewrite drop2. reflexivity.
Qed.

Lemma tlv_loop_w fuel step : forall pre w post st, bytes_ok w ->
  tlv_loop fuel step (pre ++ w ++ post) (len pre) (len w) st = tlvs_w fuel step w st.
Proof.
  induction fuel as [|f IH]; intros pre w post st Hw; rewrite tlv_loop_eq.
  - destruct w as [|T [|L rest]]; [reflexivity | reflexivity |].
    rewrite len2. pose proof (len_nonneg rest). replace (2 + len rest <? 2) with false by lia. reflexivity.
  - destruct w as [|T [|L rest]]; [reflexivity | reflexivity |].
    assert (HL : 0 <= L < 256).
    { apply bytes_ok_cons in Hw. destruct Hw as [_ Hw]. apply bytes_ok_cons in Hw. apply Hw. }
    assert (Hrest : bytes_ok rest).
    { apply bytes_ok_cons in Hw. destruct Hw as [_ Hw]. apply bytes_ok_cons in Hw. apply Hw. }
    pose proof (len_nonneg rest) as Hr.
    replace (len (T :: L :: rest) <? 2) with false by (rewrite len2; lia).
    rewrite param_decode_w by lia. cbn [tlvs_w].
    destruct (L >? len rest) eqn:E; [reflexivity|].
    destruct (tlv_interp T L (take L rest)) as [t| | |]; cbn [bind]; try reflexivity.
    replace (pre ++ (T :: L :: rest) ++ post) with ((pre ++ T :: L :: take L rest) ++ drop L rest ++ post).
    2:{ rewrite <- app_assoc. f_equal. cbn [app]. f_equal. f_equal. rewrite app_assoc, take_drop. reflexivity. }
    replace (len pre + 2 + L) with (len (pre ++ T :: L :: take L rest)).
    2:{ rewrite len_app, len2, len_take by lia. lia. }
    replace (len (T :: L :: rest) - 2 - L) with (len (drop L rest)).
    2:{ rewrite len2, len_drop by lia. lia. }
    apply IH. apply bytes_ok_drop, Hrest.
Qed.

(* ---------------------------------------------------------------- per-class decoders on a window *)
Section Window.
Variables (pre post : list Z) (a b : Z) (info : list Z).
Let w := a :: b :: info.
Let data := pre ++ w ++ post.
Let dsap := Z.shiftr a 2.
Let ssap := Z.land b 63.

Lemma header_w : decode_header data (len pre) (len w) = Ok (dsap, ssap).
Proof.
  unfold decode_header, rdc, data, w. pose proof (len_nonneg info).
  rewrite len2. replace (2 + len info <? 2) with false by lia.
  rewrite rd_mid0 by (rewrite len2; lia). rewrite rd_mid by (rewrite len2; lia).
  rewrite rd_cons0, rd_c1. reflexivity.
Qed.

Lemma rd_info k : 0 <= k < len info -> rd data (len pre + (2 + k)) = rd info k.
Proof.
  intro Hk. unfold data, w. rewrite rd_mid by (rewrite len2; lia).
  rewrite rd_consS by lia. rewrite rd_consS by lia. f_equal. lia.
Qed.
Lemma slice_info : slice data (len pre + 2) (len pre + len w) = info.
Proof.
  unfold data. pose proof (len_nonneg info). rewrite slice_mid by (unfold w; rewrite ?len2; lia).
  rewrite slice_drop by lia. reflexivity.
Qed.

Lemma dec_symm_w : dec_symm data (len pre) (len w) =
  if negb (dsap =? 0) || negb (ssap =? 0) then Err DecodeError
  else match info with [] => Ok (Symm dsap ssap) | _ => Err DecodeError end.
Proof.
  unfold dec_symm. rewrite header_w. cbn [bind]. fold dsap ssap.
  destruct (negb (dsap =? 0) || negb (ssap =? 0)); [reflexivity|].
  unfold w. rewrite len2. destruct info as [|x l]; [reflexivity|].
  rewrite len_cons. pose proof (len_nonneg l). replace (2 + (1 + len l) >=? 3) with true by lia. reflexivity.
Qed.

Lemma tlv_pdu_w step st : bytes_ok info ->
  tlv_loop (Z.to_nat (len w - 2)) step data (len pre + 2) (len w - 2) st = tlvs_w (Z.to_nat (len info)) step info st.
Proof.
  intro Hi. unfold w. rewrite len2. replace (2 + len info - 2) with (len info) by lia.
  unfold data, w. replace (pre ++ (a :: b :: info) ++ post) with ((pre ++ [a; b]) ++ info ++ post)
    by (rewrite <- app_assoc; reflexivity).
  replace (len pre + 2) with (len (pre ++ [a; b])) by (rewrite len_app; reflexivity).
  apply tlv_loop_w, Hi.
Qed.

Lemma dec_ui_w : dec_ui data (len pre) (len w) = Ok (UI dsap ssap info).
Proof. unfold dec_ui. rewrite header_w. cbn [bind]. rewrite slice_info. reflexivity. Qed.
Lemma dec_disc_w : dec_disc data (len pre) (len w) = Ok (Disc dsap ssap).
Proof. unfold dec_disc. rewrite header_w. reflexivity. Qed.

End Window.

Lemma dec_dm_w pre post a b info :
  dec_dm (pre ++ (a :: b :: info) ++ post) (len pre) (len (a :: b :: info)) =
  match info with [r] => Ok (DM (Z.shiftr a 2) (Z.land b 63) r) | _ => Err DecodeError end.
Proof.
  unfold dec_dm. destruct info as [|r [|r2 l]].
  - reflexivity.
  - change (len [a; b; r] =? 3) with true. cbn [negb]. rewrite header_w. cbn [bind]. unfold rdc.
    replace (len pre + 2) with (len pre + (2 + 0)) by lia. rewrite rd_info by (cbn; lia). reflexivity.
  - rewrite !len_cons. pose proof (len_nonneg l). replace (1 + (1 + (1 + (1 + len l))) =? 3) with false by lia. reflexivity.
Qed.

Lemma dec_frmr_w pre post a b info :
  dec_frmr (pre ++ (a :: b :: info) ++ post) (len pre) (len (a :: b :: info)) =
  match info with
  | [b0; b1; b2; b3] => Ok (Frmr (Z.shiftr a 2) (Z.land b 63) (Z.shiftr b0 4) (Z.land b0 15) (Z.shiftr b1 4) (Z.land b1 15)
                                 (Z.shiftr b2 4) (Z.land b2 15) (Z.shiftr b3 4) (Z.land b3 15))
  | _ => Err DecodeError
  end.
Proof.
  unfold dec_frmr. destruct info as [|b0 [|b1 [|b2 [|b3 [|b4 l]]]]]; try reflexivity.
  - change (len [a; b; b0; b1; b2; b3] =? 6) with true. cbn [negb]. rewrite header_w. cbn [bind]. unfold rdc.
    replace (len pre + 2) with (len pre + (2 + 0)) by lia. replace (len pre + 3) with (len pre + (2 + 1)) by lia.
    replace (len pre + 4) with (len pre + (2 + 2)) by lia. replace (len pre + 5) with (len pre + (2 + 3)) by lia.
    rewrite !rd_info by (cbn; lia). reflexivity.
  - rewrite !len_cons. pose proof (len_nonneg l).
    replace (1 + (1 + (1 + (1 + (1 + (1 + (1 + len l)))))) =? 6) with false by lia. reflexivity.
Qed.

Lemma nheader_w pre post a b q info :
  decode_nheader (pre ++ (a :: b :: q :: info) ++ post) (len pre) (len (a :: b :: q :: info)) =
  Ok (Z.shiftr a 2, Z.land b 63, Z.shiftr q 4, Z.land q 15).
Proof.
  unfold decode_nheader, rdc. pose proof (len_nonneg info). rewrite !len_cons.
  replace (1 + (1 + (1 + len info)) <? 3) with false by lia.
  rewrite rd_mid0 by (rewrite !len_cons; lia). rewrite !rd_mid by (rewrite !len_cons; lia).
  rewrite rd_cons0, rd_c1, rd_c2. reflexivity.
Qed.
Lemma nheader_short pre post a b :
  decode_nheader (pre ++ [a; b] ++ post) (len pre) (len [a; b]) = Err DecodeError.
Proof. reflexivity. Qed.

Lemma dec_info_w pre post a b info :
  dec_info (pre ++ (a :: b :: info) ++ post) (len pre) (len (a :: b :: info)) =
  match info with q :: d => Ok (Info (Z.shiftr a 2) (Z.land b 63) (Z.shiftr q 4) (Z.land q 15) d) | [] => Err DecodeError end.
Proof.
  unfold dec_info. destruct info as [|q d]; [reflexivity|]. rewrite nheader_w. cbn [bind].
  pose proof (len_nonneg d).
  replace (len pre + 3) with (len pre + (2 + 1)) by lia.
  rewrite slice_mid by (rewrite ?len_cons; lia). rewrite slice_drop by lia. reflexivity.
Qed.
Lemma dec_rr_w pre post a b info :
  dec_rr (pre ++ (a :: b :: info) ++ post) (len pre) (len (a :: b :: info)) =
  match info with q :: _ => Ok (RR (Z.shiftr a 2) (Z.land b 63) (Z.land q 15)) | [] => Err DecodeError end.
Proof. unfold dec_rr. destruct info as [|q d]; [reflexivity|]. rewrite nheader_w. reflexivity. Qed.
Lemma dec_rnr_w pre post a b info :
  dec_rnr (pre ++ (a :: b :: info) ++ post) (len pre) (len (a :: b :: info)) =
  match info with q :: _ => Ok (RNR (Z.shiftr a 2) (Z.land b 63) (Z.land q 15)) | [] => Err DecodeError end.
Proof. unfold dec_rnr. destruct info as [|q d]; [reflexivity|]. rewrite nheader_w. reflexivity. Qed.

Lemma dec_unknown_w pre post a b info :
  dec_unknown (pre ++ (a :: b :: info) ++ post) (len pre) (len (a :: b :: info)) =
  Ok (Unknown (Z.land (Z.lor (Z.shiftl a 2) (Z.shiftr b 6)) 15) (Z.shiftr a 2) (Z.land b 63) info).
Proof.
  unfold dec_unknown. rewrite header_w. cbn [bind]. unfold rdc. pose proof (len_nonneg info).
  rewrite rd_mid0 by (rewrite len2; lia). rewrite rd_mid by (rewrite len2; lia).
  rewrite rd_cons0, rd_c1. cbn [bind]. rewrite slice_info. reflexivity.
Qed.

(* ---------------------------------------------------------------- decode_gen on a window *)
Lemma decode_gen_w agf agfw pre w post : bytes_ok w ->
  agf (pre ++ w ++ post) (len pre) (len w) = agfw w ->
  decode_gen agf (pre ++ w ++ post) (len pre) (len w) = dec_w agfw w.
Proof.
  intros Hw Hagf. unfold decode_gen. rewrite !len_app. pose proof (len_nonneg post).
  replace (len pre + len w >? len pre + (len w + len post)) with false by lia.
  destruct w as [|a [|b info]]; [reflexivity | reflexivity |].
  pose proof (len_nonneg info). rewrite len2 at 1. replace (2 + len info <? 2) with false by lia.
  unfold rdc. rewrite rd_mid0 by (rewrite len2; lia). rewrite rd_mid by (rewrite len2; lia).
  rewrite rd_cons0, rd_c1. cbn [bind]. cbv zeta. unfold dec_w.
  assert (Hi : bytes_ok info).
  { apply bytes_ok_cons in Hw. destruct Hw as [_ Hw]. apply bytes_ok_cons in Hw. apply Hw. }
  set (ptype := Z.land (Z.shiftr (a * 256 + b) 6) 15).
  destruct (ptype =? 0); [apply dec_symm_w|].
  destruct (ptype =? 1).
  { unfold dec_pax. rewrite header_w. cbn [bind].
    destruct (negb (Z.shiftr a 2 =? 0) || negb (Z.land b 63 =? 0)); [reflexivity|]. apply tlv_pdu_w, Hi. }
  destruct (ptype =? 2); [exact Hagf|].
  destruct (ptype =? 3); [apply dec_ui_w|].
  destruct (ptype =? 4).
  { unfold dec_connect. rewrite header_w. cbn [bind]. apply tlv_pdu_w, Hi. }
  destruct (ptype =? 5); [apply dec_disc_w|].
  destruct (ptype =? 6).
  { unfold dec_cc. rewrite header_w. cbn [bind]. apply tlv_pdu_w, Hi. }
  destruct (ptype =? 7); [apply dec_dm_w|].
  destruct (ptype =? 8); [apply dec_frmr_w|].
  destruct (ptype =? 9).
  { unfold dec_snl. rewrite header_w. cbn [bind].
    destruct (negb (Z.shiftr a 2 =? 1) || negb (Z.land b 63 =? 1)); [reflexivity|]. apply tlv_pdu_w, Hi. }
  destruct (ptype =? 10).
  { unfold dec_dps. rewrite header_w. cbn [bind].
    destruct (negb (Z.shiftr a 2 =? 0) || negb (Z.land b 63 =? 0)); [reflexivity|]. apply tlv_pdu_w, Hi. }
  destruct (ptype =? 12); [apply dec_info_w|].
  destruct (ptype =? 13); [apply dec_rr_w|].
  destruct (ptype =? 14); [apply dec_rnr_w|].
  apply dec_unknown_w.
Qed.

(* ---------------------------------------------------------------- AggregatedFrame.decode on a window *)
Lemma decode_sub_w pre w post : bytes_ok w -> decode_sub (pre ++ w ++ post) (len pre) (len w) = sub_w w.
Proof. intro Hw. unfold decode_sub, sub_w. apply decode_gen_w; [exact Hw | reflexivity]. Qed.

Lemma agf_loop_w fuel : forall pre w post acc, bytes_ok w ->
  agf_loop fuel (pre ++ w ++ post) (len pre) (len w) acc = agf_w fuel w acc.
Proof.
  induction fuel as [|f IH]; intros pre w post acc Hw; rewrite agf_loop_eq.
  - destruct w as [|h r]; [reflexivity|]. rewrite len_cons. pose proof (len_nonneg r).
    replace (1 + len r <=? 0) with false by lia. reflexivity.
  - destruct w as [|h [|l rest]]; [reflexivity | reflexivity |].
    assert (Hh : 0 <= h < 256) by (apply bytes_ok_cons in Hw; apply Hw).
    assert (Hl : 0 <= l < 256).
    { apply bytes_ok_cons in Hw. destruct Hw as [_ Hw]. apply bytes_ok_cons in Hw. apply Hw. }
    assert (Hrest : bytes_ok rest).
    { apply bytes_ok_cons in Hw. destruct Hw as [_ Hw]. apply bytes_ok_cons in Hw. apply Hw. }
    pose proof (len_nonneg rest) as Hr.
    rewrite len2. replace (2 + len rest <=? 0) with false by lia. replace (2 + len rest <? 2) with false by lia.
    rewrite rd_mid0 by (rewrite len2; lia). rewrite rd_mid by (rewrite len2; lia).
    rewrite rd_cons0, rd_c1. cbv zeta. cbn [agf_w].
    replace (2 + len rest - 2) with (len rest) by lia.
    set (n := h * 256 + l). assert (Hn : 0 <= n) by (unfold n; lia).
    destruct (n >? len rest) eqn:E; [reflexivity|].
    assert (Hd : (pre ++ [h; l]) ++ take n rest ++ drop n rest ++ post = pre ++ (h :: l :: rest) ++ post).
    { rewrite <- app_assoc. f_equal. cbn [app]. f_equal. f_equal. rewrite app_assoc, take_drop. reflexivity. }
    pose proof (decode_sub_w (pre ++ [h; l]) (take n rest) (drop n rest ++ post) (bytes_ok_take _ n Hrest)) as Hs.
    rewrite len_take in Hs by lia. rewrite len_app in Hs. change (len [h; l]) with 2 in Hs. rewrite Hd in Hs.
    rewrite Hs. destruct (sub_w (take n rest)) as [p| | |]; cbn [bind]; try reflexivity.
    pose proof (IH (pre ++ [h; l] ++ take n rest) (drop n rest) post (acc ++ [p]) (bytes_ok_drop _ n Hrest)) as Hr2.
    rewrite !len_app, len_take, len_drop in Hr2 by lia. change (len [h; l]) with 2 in Hr2.
    replace ((pre ++ [h; l] ++ take n rest) ++ drop n rest ++ post) with (pre ++ (h :: l :: rest) ++ post) in Hr2.
    2:{ rewrite <- Hd. rewrite <- !app_assoc. reflexivity. }
    replace (len pre + 2 + n) with (len pre + (2 + n)) by lia. exact Hr2.
Qed.

Lemma dec_agf_w pre w post : bytes_ok w -> dec_agf (pre ++ w ++ post) (len pre) (len w) = agfdec_w w.
Proof.
  intro Hw. destruct w as [|a [|b info]]; [reflexivity | reflexivity |].
  assert (Hi : bytes_ok info).
  { apply bytes_ok_cons in Hw. destruct Hw as [_ Hw]. apply bytes_ok_cons in Hw. apply Hw. }
  unfold dec_agf, agfdec_w. rewrite header_w. cbn [bind].
  destruct (negb (Z.shiftr a 2 =? 0) || negb (Z.land b 63 =? 0)); [reflexivity|].
  rewrite len2. replace (2 + len info - 2) with (len info) by lia.
  replace (pre ++ (a :: b :: info) ++ post) with ((pre ++ [a; b]) ++ info ++ post)
    by (rewrite <- app_assoc; reflexivity).
  replace (len pre + 2) with (len (pre ++ [a; b])) by (rewrite len_app; reflexivity).
  rewrite agf_loop_w by exact Hi. reflexivity.
Qed.

(* ---------------------------------------------------------------- locality of decode *)
Theorem decode_window pre w post : bytes_ok w -> decode (pre ++ w ++ post) (len pre) (len w) = decode_w w.
Proof. intro Hw. unfold decode, decode_w. apply decode_gen_w; [exact Hw | apply dec_agf_w, Hw]. Qed.

Corollary decode_whole w : bytes_ok w -> decode w 0 (len w) = decode_w w.
Proof. intro Hw. pose proof (decode_window [] w [] Hw) as H. rewrite app_nil_r in H. exact H. Qed.

(* a PDU is decoded from its own bytes only: the bytes before and after the window (offset, size) are irrelevant *)
Theorem decode_local pre w post : bytes_ok w ->
  decode (pre ++ w ++ post) (len pre) (len w) = decode w 0 (len w).
Proof. intro Hw. rewrite decode_window, decode_whole by exact Hw. reflexivity. Qed.

(* decode in terms of the window, for every buffer, offset >= 0 and size *)
Theorem decode_char data off size : 0 <= off -> bytes_ok data ->
  decode data off size =
  if (off + size >? len data) || (size <? 2) then Err DecodeError else decode_w (slice data off (off + size)).
Proof.
  intros Ho Hd. destruct (off + size >? len data) eqn:E1.
  { unfold decode, decode_gen. rewrite E1. reflexivity. }
  destruct (size <? 2) eqn:E2.
  { unfold decode, decode_gen. rewrite E1, E2. reflexivity. }
  cbn [orb]. destruct (split_window data off size) as (pre & w & post & -> & Hp & Hw); try lia.
  assert (Hbw : bytes_ok w) by (apply bytes_ok_app in Hd; destruct Hd as [_ Hd]; apply bytes_ok_app in Hd; apply Hd).
  rewrite <- Hp, <- Hw. rewrite decode_window by exact Hbw.
  assert (Hs : slice (pre ++ w ++ post) (len pre + 0) (len pre + len w) = w).
  { rewrite slice_mid by lia. rewrite slice_take. apply take_all. lia. }
  rewrite Z.add_0_r in Hs. rewrite Hs. reflexivity.
Qed.
