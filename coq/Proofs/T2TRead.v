(* Type 2 reader: the TLV walk depends only on the bytes it reads; what a reader sees on a memory
   that agrees with a well-formed one up to the NDEF TLV. *)
From Coq Require Import ZArith List Bool Lia ZifyBool.
From NV Require Import Base.Result Base.Bytes Model.TlvMem Model.T2T Proofs.TlvLib.
Import ListNotations.
Open Scope Z_scope.
Ltac Zify.zify_post_hook ::= Z.to_euclidean_division_equations.

Lemma t2_dispatch_found skip t l v : t2_dispatch skip t l v = Ok Found -> t = 3.
Proof. unfold t2_dispatch. destruct (Z.eqb_spec t 0); [discriminate|].
  destruct (Z.eqb_spec t 1); [destruct (l =? 3); [destruct (ctl_range _ _ _); discriminate | discriminate]|].
  destruct (Z.eqb_spec t 2); [destruct (l =? 3); [destruct (ctl_range _ _ _); discriminate | discriminate]|].
  destruct (Z.eqb_spec t 3); [auto|]. destruct (t =? 254); discriminate. Qed.
Lemma t2_dispatch_3 skip l v : t2_dispatch skip 3 l v = Ok Found. Proof. reflexivity. Qed.

Lemma t2_walk_found : forall fuel em dend skip off inner hw o s v h,
  t2_walk fuel em dend skip off inner hw = Ok (Some (o, s, v, h)) ->
  hw <= h /\ in_skip s o = false /\ exists l e, read_tlv em o s = Ok (3, l, v, e).
Proof.
  induction fuel as [|f IH]; intros em dend skip off inner hw o s v h H; [discriminate|].
  cbn [t2_walk] in H. destruct (negb inner && (dend <=? off)); [discriminate|].
  destruct (in_skip skip off) eqn:Es; [apply IH in H; exact H|].
  destruct (read_tlv em off skip) as [[[[t l] v0] e]| | |] eqn:Er; try discriminate.
  destruct (t2_dispatch skip t l v0) as [[skip'| |]| | |] eqn:Ed; try discriminate.
  - apply IH in H. destruct H as (H1 & H3 & H4). repeat split; auto; lia.
  - injection H as <- <- <- <-. apply t2_dispatch_found in Ed. subst t. repeat split; auto; try lia. eauto.
Qed.

(* the walk depends only on the bytes below its high-water mark and on the NDEF TLV it ends at *)
Lemma t2_walk_reach : forall fuel em1 em2 dend skip off inner hw o s v h l' v' e',
  t2_walk fuel em1 dend skip off inner hw = Ok (Some (o, s, v, h)) ->
  agree_below h em1 em2 ->
  read_tlv em2 o s = Ok (3, l', v', e') ->
  t2_walk fuel em2 dend skip off inner hw = Ok (Some (o, s, v', h)).
Proof.
  induction fuel as [|f IH]; intros em1 em2 dend skip off inner hw o s v h l' v' e' H HA HR; [discriminate|].
  cbn [t2_walk] in *. destruct (negb inner && (dend <=? off)); [discriminate|].
  destruct (in_skip skip off) eqn:Es; [eapply IH; eauto|].
  destruct (read_tlv em1 off skip) as [[[[t l] v0] e]| | |] eqn:Er; try discriminate.
  destruct (t2_dispatch skip t l v0) as [[skip'| |]| | |] eqn:Ed; try discriminate.
  - pose proof (t2_walk_found _ _ _ _ _ _ _ _ _ _ _ H) as (Hm & _).
    destruct HA as [HL HG].
    rewrite (read_tlv_congr em1 em2 off skip t l v0 e Er HL) by (intros; apply HG; lia).
    rewrite Ed. eapply IH; eauto. split; assumption.
  - injection H as <- <- <- <-. rewrite HR. rewrite t2_dispatch_3. reflexivity.
Qed.

Lemma t2_read_inv em L : t2_read em = Ok (Some L) ->
  exists b13 b14 b15,
    rd em 12 = Ok 225 /\ rd em 13 = Ok b13 /\ rd em 14 = Ok b14 /\ rd em 15 = Ok b15 /\ Z.shiftr b13 4 = 1 /\
    l_dend L = b14 * 8 + 16 /\
    t2_walk (S (length em)) em (l_dend L) [] 16 false 16 = Ok (Some (l_off L, l_skip L, l_val L, l_hw L)) /\
    l_cap L = get_capacity (l_dend L) (l_off L) (l_skip L) /\
    l_rd L = (Z.shiftr b15 4 =? 0) /\ l_wr L = (Z.land b15 15 =? 0).
Proof.
  unfold t2_read. intro H.
  destruct (rd em 12) as [b12| | |] eqn:E12; try discriminate.
  destruct (rd em 13) as [b13| | |] eqn:E13; try discriminate.
  destruct (rd em 14) as [b14| | |] eqn:E14; try discriminate.
  destruct (rd em 15) as [b15| | |] eqn:E15; try discriminate.
  destruct (Z.eqb_spec b12 225) as [->|]; [|discriminate]. cbn [negb] in H.
  destruct (Z.eqb_spec (Z.shiftr b13 4) 1) as [Hv|]; [|discriminate]. cbn [negb] in H.
  destruct (t2_walk (S (length em)) em (b14 * 8 + 16) [] 16 false 16) as [[[[[off skip] v] hw]|]| | |] eqn:Ew;
    cbn [bind] in H; try discriminate.
  injection H as <-. cbn [l_off l_skip l_val l_hw l_dend l_cap l_rd l_wr].
  exists b13, b14, b15. repeat split; auto.
Qed.

(* a memory that agrees with em up to the NDEF TLV (and on everything the walk read before it) is
   parsed to the same layout, with whatever value its NDEF TLV holds *)
Lemma t2_read_transfer em em2 L l' v' e' : t2_read em = Ok (Some L) ->
  agree_below (Z.max 16 (l_hw L)) em em2 ->
  read_tlv em2 (l_off L) (l_skip L) = Ok (3, l', v', e') ->
  t2_read em2 = Ok (Some (set_val L v')).
Proof.
  intros H HA HR. destruct (t2_read_inv _ _ H) as (b13 & b14 & b15 & E12 & E13 & E14 & E15 & Hv & Hd & Hw & Hc & Hrd & Hwr).
  destruct HA as [HL HG].
  assert (R : forall a, a < 16 -> rd em2 a = rd em a) by (intros a Ha; apply rd_congr; [congruence | intro; symmetry; apply HG; lia]).
  unfold t2_read. rewrite (R 12), (R 13), (R 14), (R 15), E12, E13, E14, E15 by lia.
  cbn [Z.eqb negb Pos.eqb]. rewrite Hv. cbn [Z.eqb negb Pos.eqb].
  rewrite <- Hd, <- HL.
  rewrite (t2_walk_reach _ em em2 _ _ _ _ _ _ _ _ _ l' v' e' Hw); [| split; [exact HL | intros; apply HG; lia] | exact HR].
  cbn [bind]. unfold set_val. rewrite Hc, Hrd, Hwr. reflexivity.
Qed.

(* ---- the repaired reader: the walk followed by the test that the NDEF TLV lies inside the data area ---- *)
Lemma t2_reader_inv em L : t2_reader em = Ok (Some L) -> t2_read em = Ok (Some L) /\ ndef_fits em L = true.
Proof. unfold t2_reader. destruct (t2_read em) as [[L'|]| | |]; try discriminate.
  destruct (ndef_fits em L') eqn:E; [|discriminate]. intro H. injection H as <-. auto. Qed.
Lemma t2_reader_intro em L : t2_read em = Ok (Some L) -> ndef_fits em L = true -> t2_reader em = Ok (Some L).
Proof. intros H F. unfold t2_reader. rewrite H, F. reflexivity. Qed.
Lemma t2_reader_transfer em em2 L l' v' e' : t2_read em = Ok (Some L) ->
  agree_below (Z.max 16 (l_hw L)) em em2 -> ndef_fits em2 (set_val L v') = true ->
  read_tlv em2 (l_off L) (l_skip L) = Ok (3, l', v', e') ->
  t2_reader em2 = Ok (Some (set_val L v')).
Proof. intros H HA HF HR. apply t2_reader_intro; [eapply t2_read_transfer; eassumption | exact HF]. Qed.
