(* C01, Type 2: NDEF write then read round-trips; capacity is sound; oversize data is rejected. *)
From Coq Require Import ZArith List Bool Lia ZifyBool.
From NV Require Import Base.Result Base.Bytes Model.TlvMem Model.T2T Proofs.TlvLib Proofs.T2TRead Proofs.T2TPhases.
Import ListNotations.
Open Scope Z_scope.
Ltac Zify.zify_post_hook ::= Z.to_euclidean_division_equations.

Lemma t2_capacity_layout m cap : t2_capacity m = Some cap -> exists L, t2_reader (view m) = Ok (Some L) /\ l_cap L = cap.
Proof. unfold t2_capacity. destruct (t2_reader (view m)) as [[L|]| | |]; try discriminate. intro H. injection H as <-. eauto. Qed.
Lemma wfL_capacity m L cap : wfL m L -> t2_capacity m = Some cap -> l_cap L = cap.
Proof. intros H Hc. destruct (t2_capacity_layout m cap Hc) as (L' & Hr' & Hc'). destruct H as (Hr & _). congruence. Qed.

Theorem t2_write_read m d cap : wf_layout m -> bytes_ok d -> t2_capacity m = Some cap -> len d <= cap ->
  let m' := apply_ws m (snd (t2_write m d)) in
  fst (t2_write m d) = Ok tt /\ t2_fresh m' = Msg d /\ t2_capacity m' = Some cap /\ len m' = len m.
Proof.
  intros Hwf _ Hcap Hd. destruct (wf_layout_wfL m Hwf) as (L & HL). pose proof (wfL_capacity m L cap HL Hcap) as Hc.
  destruct (wfL_write_result m L d HL ltac:(lia)) as (cs & cf & Hw & _ & Hv & Hl & _ & Hf & _).
  cbv zeta. rewrite Hw. cbn [fst snd]. split; [reflexivity|].
  unfold t2_fresh, t2_capacity. rewrite Hv, Hf. cbn [classify set_val l_rd l_val l_cap].
  destruct HL as (_ & _ & _ & Hrd & _). rewrite Hrd, Hc. auto.
Qed.

Theorem t2_capacity_sound m L : wf_layout m -> t2_layout m = Some L -> l_cap L <= room (t2_free_after_tag L).
Proof.
  intros Hwf HL. destruct (wf_layout_wfL m Hwf) as (L' & HL'). pose proof HL' as HL''. use_wfL HL'.
  unfold t2_layout in HL. rewrite Hr in HL. injection HL as ->.
  rewrite (wfL_cap_eq m L HL''). unfold get_capacity, t2_free_after_tag, room.
  replace (Z.to_nat (l_dend L - l_off L)) with (1 + Z.to_nat (l_dend L - (l_off L + 1)))%nat by lia.
  rewrite count_free_app. cbn [count_free]. rewrite S0. change (Z.of_nat 1) with 1.
  set (f := count_free (l_skip L) (l_off L + 1) (Z.to_nat (l_dend L - (l_off L + 1)))).
  destruct (Z.ltb_spec 256 (1 + 0 + f)); lia.
Qed.

Theorem t2_oversize_rejected m d cap : t2_capacity m = Some cap -> cap < len d ->
  (exists L, t2_layout m = Some L /\ l_wr L = true) -> t2_write m d = (Err ValueError, []).
Proof.
  intros Hcap Hd (L & HL & Hwr). destruct (t2_capacity_layout m cap Hcap) as (L' & Hr' & Hc').
  unfold t2_layout in HL. rewrite Hr' in HL. injection HL as ->.
  unfold t2_write. rewrite Hr', Hwr. cbn [negb]. replace (l_cap L <? len d) with true by lia. reflexivity.
Qed.
