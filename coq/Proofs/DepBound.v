(* dep_frame_bound: no frame on the air exceeds the LR announced by its receiver -
   for every fault script, payload list, application behaviour and fuel. *)
From Coq Require Import ZArith List Bool Lia ZifyBool.
From NV Require Import Base.Result Base.Bytes Model.Dep Proofs.DepCodec Proofs.DepTarget.
Import ListNotations.
Open Scope Z_scope.
Ltac Zify.zify_post_hook ::= Z.to_euclidean_division_equations.

Section Bound.
Variables (ic : icfg) (tc : tcfg) (LRI LRT : Z).
Hypothesis Hi : 1 <= ic_miu ic /\ ic_miu ic + 3 + b2z (is_some (ic_did ic)) + b2z (is_some (ic_nad ic)) <= LRT /\ LRT <= 254.
Hypothesis Ht : 1 <= tc_miu tc /\ tc_miu tc + 3 + b2z (is_some (tc_did tc)) + b2z (is_some (tc_nad tc)) <= LRI /\ LRI <= 254.

Lemma Hmiu_t : 1 <= tc_miu tc /\ tc_miu tc + 3 + b2z (is_some (tc_did tc)) + b2z (is_some (tc_nad tc)) <= 254.
Proof. lia. Qed.

(* transport data length of a frame: without the 106A start byte and the length byte *)
Definition tlen (b106 : bool) (f : list Z) : Z := len f - 1 - b2z b106.

Definition ent_ok (e : logent) : Prop :=
  if l_ini e then tlen (ic_106 ic) (l_data e) <= LRT else tlen (tc_106 tc) (l_data e) <= LRI.
Definition logok (lg : list logent) : Prop := Forall ent_ok lg.
Definition Wok (w : world) : Prop := Tinv tc (w_t w) /\ logok (w_log w).

Lemma tlen_encode b body f : encode_frame b body = Ok f -> tlen b f = len body.
Proof.
  unfold encode_frame. destruct (255 <? len body + 1); [discriminate|]. intro H. injection H as <-.
  unfold tlen. destruct b; cbn [app b2z]; rewrite ?len_cons; lia.
Qed.

Lemma len_opt_list o : len (opt_list o) = b2z (is_some o).
Proof. destruct o; reflexivity. Qed.

Lemma absorb_inv t frame t' o : Tinv tc t -> tgt_absorb tc t frame = (t', o) ->
  Tinv tc t' /\ (forall f, o = Some f -> tlen (tc_106 tc) f <= LRI).
Proof.
  intros HI H. unfold tgt_absorb in H.
  assert (Hn : forall t0, Tinv tc t0 -> (t0, @None (list Z)) = (t', o) -> Tinv tc t' /\ (forall f, o = Some f -> tlen (tc_106 tc) f <= LRI)).
  { intros t0 H0 E. injection E as <- <-. split; [exact H0 | intros; discriminate]. }
  destruct (t_pos t) eqn:Epos; try (apply (Hn t HI H)).
  all: destruct (decode_frame_tgt (tc_106 tc) frame) as [req|e|c|].
  all: try (rewrite Epos in H).
  all: try (apply (Hn _ HI H)).
  all: try (apply (Hn _ (Tinv_stop tc _ _ HI) H)).
  all: try (apply (Hn _ (Tinv_stop_rtx tc _ _ HI) H)).
  all: destruct (tgt_step tc t req) as [t1 o1] eqn:Es;
    destruct (step_inv tc Hmiu_t _ _ _ _ HI Es) as [HI1 Ho1];
    destruct o1 as [rsp|]; [|apply (Hn _ HI1 H)];
    destruct (encode_frame (tc_106 tc) (enc_pdu rsp)) as [f|e|c|] eqn:Ee;
    try (apply (Hn _ (Tinv_stop tc _ _ HI1) H));
    injection H as <- <-; (split; [exact HI1|]); intros f0 Hf; injection Hf as <-;
    rewrite (tlen_encode _ _ _ Ee);
    destruct (Ho1 rsp eq_refl) as [(r & -> & (_ & Hd & Hn' & Hl))|[->| ->]]; cbn [enc_pdu];
    pose proof Ht;
    [rewrite len_enc_dep, Hd, Hn'; change (len [213; 7]) with 2; lia
    |rewrite len_app, len_opt_list; change (len [213; 9]) with 2; destruct (tc_nad tc); cbn [is_some b2z] in *; lia
    |rewrite len_app, len_opt_list; change (len [213; 11]) with 2; destruct (tc_nad tc); cbn [is_some b2z] in *; lia].
Qed.

Lemma air_ok body frame timeout w o w' : Wok w -> encode_frame (ic_106 ic) body = Ok frame -> len body <= LRT ->
  air tc frame timeout w = (o, w') -> Wok w'.
Proof.
  intros [HT HL] He Hb H. unfold air in H.
  assert (He1 : forall fq, ent_ok (mklog true frame fq)).
  { intro fq. unfold ent_ok. cbn. rewrite (tlen_encode _ _ _ He). exact Hb. }
  destruct (fst (hd (FD, FD) (w_script w))).
  - destruct (tgt_absorb tc (w_t w) frame) as [t1 o1] eqn:Ea.
    destruct (absorb_inv _ _ _ _ HT Ea) as [HT1 Ho1].
    destruct o1 as [rsp|].
    + assert (He2 : forall fs, ent_ok (mklog false rsp fs)).
      { intro fs. unfold ent_ok. cbn. apply Ho1. reflexivity. }
      destruct (snd (hd (FD, FD) (w_script w))); injection H as <- <-; split; cbn; try assumption;
        repeat (constructor; auto).
    + injection H as <- <-; split; cbn; try assumption; repeat (constructor; auto).
  - injection H as <- <-; split; cbn; try assumption; repeat (constructor; auto).
  - injection H as <- <-; split; cbn; try assumption; repeat (constructor; auto).
Qed.

Definition req_small (req : pdu) : Prop := len (enc_pdu req) <= LRT.

Lemma srr1_ok req timeout w r w' : Wok w -> req_small req -> srr1 ic tc req timeout w = (r, w') -> Wok w'.
Proof.
  intros HW Hs H. unfold srr1 in H.
  destruct (encode_frame (ic_106 ic) (enc_pdu req)) as [cmd|e|c|] eqn:Ee; try (injection H as <- <-; exact HW).
  destruct (air tc cmd timeout w) as [o w1] eqn:Ea.
  pose proof (air_ok _ _ _ _ _ _ HW Ee Hs Ea) as HW1.
  destruct o as [rsp| |]; try (injection H as <- <-; exact HW1).
  destruct (decode_frame_ini (ic_106 ic) rsp) as [x|e|c|]; try (injection H as <- <-; exact HW1).
  destruct (pdu_name x =? pdu_name req); injection H as <- <-; exact HW1.
Qed.

Lemma i_dep_small f p d : len d <= ic_miu ic -> req_small (PDepReq (i_dep ic f p d)).
Proof.
  intro H. unfold req_small, i_dep. cbn [enc_pdu]. rewrite len_enc_dep. cbn [Dep.did Dep.nad Dep.data].
  change (len [212; 6]) with 2. lia.
Qed.
Lemma nil_small : len (@nil Z) <= ic_miu ic. Proof. change (len (@nil Z)) with 0. pose proof Hi. lia. Qed.
Lemma one_small (x : Z) : len [x] <= ic_miu ic. Proof. change (len [x]) with 1. pose proof Hi. lia. Qed.

Lemma req_atn_ok n : forall rwt deadline w r w', Wok w -> req_atn n ic tc rwt deadline w = (r, w') -> Wok w'.
Proof.
  induction n as [|n IH]; intros rwt deadline w r w' HW H; cbn [req_atn] in H.
  - injection H as <- <-; exact HW.
  - destruct (Z.min rwt (deadline - w_now w) <=? 0); [injection H as <- <-; exact HW|].
    destruct (srr1 ic tc (PDepReq (i_dep ic F_ATN 0 [])) (Z.min rwt (deadline - w_now w)) w) as [x w1] eqn:Es.
    pose proof (srr1_ok _ _ _ _ _ HW (i_dep_small _ _ _ nil_small) Es) as HW1.
    destruct x as [x|e|c|]; try (injection H as <- <-; exact HW1).
    + destruct x; try (injection H as <- <-; exact HW1).
      destruct (fmt d =? F_RTOX); [injection H as <- <-; exact HW1|].
      destruct (negb (fmt d =? F_ATN)); injection H as <- <-; exact HW1.
    + eapply IH; eassumption.
Qed.

Lemma req_nak_ok n : forall p ch rwt deadline w r w', Wok w -> req_nak n ic tc p ch rwt deadline w = (r, w') -> Wok w'.
Proof.
  induction n as [|n IH]; intros p ch rwt deadline w r w' HW H; cbn [req_nak] in H.
  - injection H as <- <-; exact HW.
  - destruct (Z.min rwt (deadline - w_now w) <=? 0); [injection H as <- <-; exact HW|].
    destruct (srr1 ic tc (PDepReq (i_dep ic F_NAK p [])) (Z.min rwt (deadline - w_now w)) w) as [x w1] eqn:Es.
    pose proof (srr1_ok _ _ _ _ _ HW (i_dep_small _ _ _ nil_small) Es) as HW1.
    destruct x as [x|e|c|]; try (injection H as <- <-; exact HW1).
    + destruct x; try (injection H as <- <-; exact HW1).
      destruct (fmt d =? F_RTOX); [injection H as <- <-; exact HW1|].
      destruct (negb ((fmt d =? F_INF) || (fmt d =? F_MORE) || (ch && (fmt d =? F_ACK)))); injection H as <- <-; exact HW1.
    + eapply IH; eassumption.
Qed.

Lemma srr_loop_ok fuel : forall p req rwt deadline w r w', Wok w -> req_small req ->
  srr_loop fuel ic tc p req rwt deadline w = (r, w') -> Wok w'.
Proof.
  induction fuel as [|f IH]; intros p req rwt deadline w r w' HW Hs H; cbn [srr_loop] in H.
  - injection H as <- <-; exact HW.
  - destruct (Z.min rwt (deadline - w_now w) <=? 0); [injection H as <- <-; exact HW|].
    destruct (srr1 ic tc req (Z.min rwt (deadline - w_now w)) w) as [x w1] eqn:Es.
    pose proof (srr1_ok _ _ _ _ _ HW Hs Es) as HW1.
    destruct x as [x|e|c|]; try (injection H as <- <-; exact HW1).
    destruct e; try (injection H as <- <-; exact HW1).
    + eapply req_nak_ok; eassumption.
    + destruct (req_atn 2 ic tc rwt deadline w1) as [y w2] eqn:Ea.
      pose proof (req_atn_ok _ _ _ _ _ _ HW1 Ea) as HW2.
      destruct y as [y|e|c|]; try (injection H as <- <-; exact HW2).
      eapply IH; eassumption.
Qed.

Lemma srr_ok fuel p d rwt timeout w r w' : Wok w -> req_small (PDepReq d) ->
  srr fuel ic tc p d rwt timeout w = (r, w') -> Wok w'.
Proof.
  intros HW Hs H. unfold srr in H.
  destruct (srr_loop fuel ic tc p (PDepReq d) rwt (w_now w + timeout) w) as [x w1] eqn:El.
  pose proof (srr_loop_ok _ _ _ _ _ _ _ _ HW Hs El) as HW1.
  destruct x as [x|e|c|]; try (injection H as <- <-; exact HW1).
  destruct x; try (injection H as <- <-; exact HW1).
  destruct (fmt d0 =? F_NAK); injection H as <- <-; exact HW1.
Qed.

Lemma rtox_loop_ok n : forall fuel p r timeout w x w', Wok w -> rtox_loop n fuel ic tc p r timeout w = (x, w') -> Wok w'.
Proof.
  induction n as [|n IH]; intros fuel p r timeout w x w' HW H; cbn [rtox_loop] in H.
  - injection H as <- <-; exact HW.
  - destruct (data r) as [|y rest]; [injection H as <- <-; exact HW|].
    destruct (negb ((0 <? y) && (y <? 60))); [injection H as <- <-; exact HW|].
    destruct (srr fuel ic tc p (i_dep ic F_RTOX 0 [y]) (y * 1) timeout w) as [z w1] eqn:Es.
    pose proof (srr_ok _ _ _ _ _ _ _ _ HW (i_dep_small _ _ _ (one_small y)) Es) as HW1.
    destruct z as [z|e|c|]; try (injection H as <- <-; exact HW1).
    destruct (fmt z =? F_RTOX); [eapply IH; eassumption | injection H as <- <-; exact HW1].
Qed.

Lemma after_rtox_ok fuel p r timeout w x w' : Wok w -> after_rtox fuel ic tc p r timeout w = (x, w') -> Wok w'.
Proof.
  intros HW H. unfold after_rtox in H. destruct (fmt r =? F_RTOX); [eapply rtox_loop_ok; eassumption | injection H as <- <-; exact HW].
Qed.

Lemma send_loop_ok n : forall fuel p sd last timeout w x w', Wok w ->
  send_loop n fuel ic tc p sd last timeout w = (x, w') -> Wok w'.
Proof.
  induction n as [|n IH]; intros fuel p sd last timeout w x w' HW H; destruct sd as [|b sd]; cbn [send_loop] in H.
  - destruct last; injection H as <- <-; exact HW.
  - injection H as <- <-; exact HW.
  - destruct last; injection H as <- <-; exact HW.
  - match type of H with context [srr fuel ic tc p ?req 1 timeout w] =>
      destruct (srr fuel ic tc p req 1 timeout w) as [z w1] eqn:Es;
      assert (HW1 : Wok w1) by (eapply srr_ok; [exact HW | | exact Es]; apply i_dep_small, len_take_le; lia) end.
    destruct z as [z|e|c|]; try (injection H as <- <-; exact HW1).
    destruct (after_rtox fuel ic tc p z timeout w1) as [y w2] eqn:Ea.
    pose proof (after_rtox_ok _ _ _ _ _ _ _ HW1 Ea) as HW2.
    destruct y as [y|e|c|]; try (injection H as <- <-; exact HW2).
    match type of H with (if ?c then _ else _) = _ => destruct c; [injection H as <- <-; exact HW2|] end.
    match type of H with (if ?c then _ else _) = _ => destruct c; [injection H as <- <-; exact HW2|] end.
    eapply IH; eassumption.
Qed.

Lemma recv_loop_ok n : forall fuel p r acc timeout w x w', Wok w ->
  recv_loop n fuel ic tc p r acc timeout w = (x, w') -> Wok w'.
Proof.
  induction n as [|n IH]; intros fuel p r acc timeout w x w' HW H; cbn [recv_loop] in H.
  - destruct (negb (fmt r =? F_MORE)); injection H as <- <-; exact HW.
  - destruct (negb (fmt r =? F_MORE)); [injection H as <- <-; exact HW|].
    destruct (srr fuel ic tc p (i_dep ic F_ACK p []) 1 timeout w) as [z w1] eqn:Es.
    pose proof (srr_ok _ _ _ _ _ _ _ _ HW (i_dep_small _ _ _ nil_small) Es) as HW1.
    destruct z as [z|e|c|]; try (injection H as <- <-; exact HW1).
    destruct (after_rtox fuel ic tc p z timeout w1) as [y w2] eqn:Ea.
    pose proof (after_rtox_ok _ _ _ _ _ _ _ HW1 Ea) as HW2.
    destruct y as [y|e|c|]; try (injection H as <- <-; exact HW2).
    match type of H with (if ?c then _ else _) = _ => destruct c; [injection H as <- <-; exact HW2|] end.
    match type of H with (if ?c then _ else _) = _ => destruct c; [injection H as <- <-; exact HW2|] end.
    eapply IH; eassumption.
Qed.

Lemma ini_exchange_ok n fuel p sd timeout w x w' : Wok w -> ini_exchange n fuel ic tc p sd timeout w = (x, w') -> Wok w'.
Proof.
  intros HW H. unfold ini_exchange in H.
  destruct (send_loop n fuel ic tc p sd None timeout w) as [z w1] eqn:Es.
  pose proof (send_loop_ok _ _ _ _ _ _ _ _ _ HW Es) as HW1.
  destruct z as [[p1 r]|e|c|]; try (injection H as <- <-; exact HW1).
  match type of H with (if ?c then _ else _) = _ => destruct c; [injection H as <- <-; exact HW1|] end.
  eapply recv_loop_ok; eassumption.
Qed.

Lemma ini_app_ok n fuel ps : forall p timeout w l w', Wok w -> ini_app n fuel ic tc p ps timeout w = (l, w') -> Wok w'.
Proof.
  induction ps as [|x ps IH]; intros p timeout w l w' HW H; cbn [ini_app] in H.
  - injection H as <- <-; exact HW.
  - destruct (ini_exchange n fuel ic tc p x timeout w) as [z w1] eqn:Ee.
    pose proof (ini_exchange_ok _ _ _ _ _ _ _ _ HW Ee) as HW1.
    destruct z as [[p1 d]|e|c|]; try (injection H as <- <-; exact HW1).
    destruct (ini_app n fuel ic tc p1 ps timeout w1) as [l2 w2] eqn:Ea.
    injection H as <- <-. eapply IH; eassumption.
Qed.

Lemma ini_deactivate_ok release w : Wok w -> Wok (ini_deactivate ic tc release w).
Proof.
  intro HW. unfold ini_deactivate. destruct release as [b|]; [|exact HW].
  match goal with |- Wok (snd ?x) => destruct x as [r w1] eqn:E end. cbn [snd].
  eapply srr1_ok; [exact HW | | exact E].
  unfold req_small. pose proof Hi. destruct b; cbn [enc_pdu]; rewrite len_app, len_opt_list;
    [change (len [212; 10]) with 2 | change (len [212; 8]) with 2]; destruct (ic_nad ic); cbn [is_some b2z] in *; lia.
Qed.

Theorem conversation_frames_ok n fuel script payloads app timeout release :
  Forall ent_ok (o_frames (conversation n fuel ic tc script payloads app timeout release)).
Proof.
  unfold conversation.
  destruct (ini_app n fuel ic tc 0 payloads timeout (mkw (tgt_init app) script 0 [])) as [ir w1] eqn:Ea.
  assert (H0 : Wok (mkw (tgt_init app) script 0 [])).
  { split; cbn; [split; cbn; intros; discriminate | constructor]. }
  pose proof (ini_app_ok _ _ _ _ _ _ _ _ H0 Ea) as H1.
  pose proof (ini_deactivate_ok release _ H1) as [_ H2].
  cbn [o_frames]. apply Forall_rev. exact H2.
Qed.
End Bound.

(* the configurations that a fault-free activation produces (C19: Negotiate) *)
Lemma lr_of_range i : 64 <= lr_of i <= 254.
Proof. unfold lr_of. destruct (i =? 0), (i =? 1), (i =? 2); lia. Qed.

Theorem dep_frame_bound_all : forall n fuel b106 lri lrt did nad script payloads app timeout release e,
  In e (o_frames (conversation n fuel (mk_icfg b106 lrt did nad) (mk_tcfg b106 lri did) script payloads app timeout release)) ->
  tlen b106 (l_data e) <= (if l_ini e then lr_of lrt else lr_of lri).
Proof.
  intros n fuel b106 lri lrt did nad script payloads app timeout release e He.
  pose proof (lr_of_range lri) as Hri. pose proof (lr_of_range lrt) as Hrt.
  assert (Hall := conversation_frames_ok (mk_icfg b106 lrt did nad) (mk_tcfg b106 lri did) (lr_of lri) (lr_of lrt)).
  assert (Hi : 1 <= ic_miu (mk_icfg b106 lrt did nad) /\
     ic_miu (mk_icfg b106 lrt did nad) + 3 + b2z (is_some (ic_did (mk_icfg b106 lrt did nad))) +
     b2z (is_some (ic_nad (mk_icfg b106 lrt did nad))) <= lr_of lrt /\ lr_of lrt <= 254).
  { cbn. destruct did, nad; cbn; lia. }
  assert (Ht : 1 <= tc_miu (mk_tcfg b106 lri did) /\
     tc_miu (mk_tcfg b106 lri did) + 3 + b2z (is_some (tc_did (mk_tcfg b106 lri did))) +
     b2z (is_some (tc_nad (mk_tcfg b106 lri did))) <= lr_of lri /\ lr_of lri <= 254).
  { cbn. destruct (tdid_of did); cbn; lia. }
  specialize (Hall Hi Ht n fuel script payloads app timeout release).
  rewrite Forall_forall in Hall. specialize (Hall e He). unfold ent_ok in Hall. cbn in Hall.
  destruct (l_ini e); exact Hall.
Qed.
