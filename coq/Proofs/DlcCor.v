(* C05 - user-visible corollaries of the reachable-state invariant, stated over what an
   observer of the two sockets sees (results of send / recv, PDUs delivered). *)
From Coq Require Import ZArith List Bool Lia ZifyBool.
From NV Require Import Base.Result Base.Bytes Model.Dlc Proofs.DlcBase Proofs.Dlc.
Import ListNotations.
Open Scope Z_scope.
Ltac Zify.zify_post_hook ::= Z.to_euclidean_division_equations.

(* ---- the observable history of a run ---- *)
Fixpoint outs (s : sys) (ops : list op) : list (op * out) :=
  match ops with
  | [] => []
  | o :: r => (o, snd (step_full s o)) :: outs (step s o) r
  end.

Definition side_eqb (a b : side) : bool := match a, b with A, A | B, B => true | _, _ => false end.

(* messages for which sd.send returned True, in call order *)
Definition accepted1 (sd : side) (e : op * out) : list msg :=
  match e with
  | (Send sd' m, OSend (Ok _)) => if side_eqb sd sd' then [m] else []
  | _ => []
  end.
(* messages returned by sd.recv, in call order *)
Definition returned1 (sd : side) (e : op * out) : list msg :=
  match e with
  | (Recv sd', ORecv (Ok (Some d))) => if side_eqb sd sd' then [d] else []
  | _ => []
  end.
Definition accepted (sd : side) (h : list (op * out)) : list msg := flat_map (accepted1 sd) h.
Definition returned (sd : side) (h : list (op * out)) : list msg := flat_map (returned1 sd) h.

(* something went wrong at the link level: an I PDU discarded or rejected, recv raising *)
Definition bad1 (e : op * out) : bool :=
  match snd e with
  | ODeliver (Some (_, EnqDiscarded)) | ODeliver (Some (_, EnqRejected)) => true
  | ORecv (Err RuntimeErr) => true
  | _ => false
  end.

(* ---- ghost history = observable history (no invariant needed) ---- *)
Lemma sent_step s o sd : sent (get_g (step s o) sd) = sent (get_g s sd) ++ accepted1 sd (o, snd (step_full s o)).
Proof.
  unfold step, step_full, emit, accepted1.
  destruct o as [sd' m|sd'|sd' b|sd'|sd' miu icv|sd'|sd'].
  - destruct (ep_send (get_ep s sd') m) as [x' r]. destruct r; cbn [fst snd]; rewrite ?app_nil_r; try reflexivity.
    destruct sd, sd', s; cbn; rewrite ?app_nil_r; reflexivity.
  - destruct (ep_recv_nb (get_ep s sd')) as [x' r]. cbn [fst snd].
    destruct r as [[d|]|e| |]; try destruct e; destruct sd, sd', s; cbn; rewrite ?app_nil_r; reflexivity.
  - cbn [fst snd]. destruct sd, sd', s; cbn; rewrite ?app_nil_r; reflexivity.
  - destruct (ep_poll_acks (get_ep s sd')) as [x' r]. cbn [fst snd]. destruct sd, sd', s; cbn; rewrite ?app_nil_r; reflexivity.
  - destruct (ep_dequeue (get_ep s sd') miu icv) as [x' [p|]]; cbn [fst snd]; destruct sd, sd', s; cbn; rewrite ?app_nil_r; reflexivity.
  - destruct (ep_sendack (get_ep s sd')) as [x' [p|]]; cbn [fst snd]; destruct sd, sd', s; cbn; rewrite ?app_nil_r; reflexivity.
  - destruct (get_w s (other sd')) as [|p w]; cbn [fst snd]; [rewrite app_nil_r; reflexivity|].
    destruct (ep_enqueue (get_ep s sd') p) as [x' r]. cbn [fst snd].
    destruct r; destruct sd, sd', s; cbn; rewrite ?app_nil_r; reflexivity.
Qed.

Lemma dlv_step s o sd : dlv (get_g (step s o) (other sd)) = dlv (get_g s (other sd)) ++ returned1 sd (o, snd (step_full s o)).
Proof.
  unfold step, step_full, emit, returned1.
  destruct o as [sd' m|sd'|sd' b|sd'|sd' miu icv|sd'|sd'].
  - destruct (ep_send (get_ep s sd') m) as [x' r]. destruct r; cbn [fst snd]; rewrite ?app_nil_r; try reflexivity.
    destruct sd, sd', s; cbn; rewrite ?app_nil_r; reflexivity.
  - destruct (ep_recv_nb (get_ep s sd')) as [x' r]. cbn [fst snd].
    destruct r as [[d|]|e| |]; try destruct e; destruct sd, sd', s; cbn; rewrite ?app_nil_r; reflexivity.
  - cbn [fst snd]. destruct sd, sd', s; cbn; rewrite ?app_nil_r; reflexivity.
  - destruct (ep_poll_acks (get_ep s sd')) as [x' r]. cbn [fst snd]. destruct sd, sd', s; cbn; rewrite ?app_nil_r; reflexivity.
  - destruct (ep_dequeue (get_ep s sd') miu icv) as [x' [p|]]; cbn [fst snd]; destruct sd, sd', s; cbn; rewrite ?app_nil_r; reflexivity.
  - destruct (ep_sendack (get_ep s sd')) as [x' [p|]]; cbn [fst snd]; destruct sd, sd', s; cbn; rewrite ?app_nil_r; reflexivity.
  - destruct (get_w s (other sd')) as [|p w]; cbn [fst snd]; [rewrite app_nil_r; reflexivity|].
    destruct (ep_enqueue (get_ep s sd') p) as [x' r]. cbn [fst snd].
    destruct r; destruct sd, sd', s; cbn; rewrite ?app_nil_r; reflexivity.
Qed.

Lemma sent_run ops : forall s sd, sent (get_g (fold_left step ops s) sd) = sent (get_g s sd) ++ accepted sd (outs s ops).
Proof.
  induction ops as [|o ops IH]; intros s sd; cbn [fold_left outs accepted flat_map]; [rewrite app_nil_r; reflexivity|].
  rewrite IH, sent_step, <- app_assoc. reflexivity.
Qed.
Lemma dlv_run ops : forall s sd, dlv (get_g (fold_left step ops s) (other sd)) = dlv (get_g s (other sd)) ++ returned sd (outs s ops).
Proof.
  induction ops as [|o ops IH]; intros s sd; cbn [fold_left outs returned flat_map]; [rewrite app_nil_r; reflexivity|].
  rewrite IH, dlv_step, <- app_assoc. reflexivity.
Qed.

(* a bad event sets (and nothing ever clears) one of the ghost flags *)
Definition flagged (s : sys) : bool :=
  lost (gab s) || frmr (gab s) || rterr (gab s) || lost (gba s) || frmr (gba s) || rterr (gba s).

Lemma bad_step s o : bad1 (o, snd (step_full s o)) = true -> flagged (step s o) = true.
Proof.
  unfold step, step_full, emit, bad1, flagged.
  destruct o as [sd' m|sd'|sd' b|sd'|sd' miu icv|sd'|sd'].
  - destruct (ep_send (get_ep s sd') m) as [x' r]. cbn [fst snd]. discriminate.
  - destruct (ep_recv_nb (get_ep s sd')) as [x' r]. cbn [fst snd].
    destruct r as [[d|]|e| |]; try discriminate. destruct e; try discriminate.
    intros _. destruct sd', s; cbn; rewrite ?orb_true_r; reflexivity.
  - cbn [fst snd]. discriminate.
  - destruct (ep_poll_acks (get_ep s sd')) as [x' r]. cbn [fst snd]. discriminate.
  - destruct (ep_dequeue (get_ep s sd') miu icv) as [x' [p|]]; cbn [fst snd]; discriminate.
  - destruct (ep_sendack (get_ep s sd')) as [x' [p|]]; cbn [fst snd]; discriminate.
  - destruct (get_w s (other sd')) as [|p w]; cbn [fst snd]; [discriminate|].
    destruct (ep_enqueue (get_ep s sd') p) as [x' r]. cbn [fst snd].
    destruct r; try discriminate; intros _; destruct sd', s; cbn; rewrite ?orb_true_r; reflexivity.
Qed.

Lemma inv_unflagged s : Inv s -> flagged s = false.
Proof.
  intro HI. destruct (HI A) as (Ha & _). destruct (HI B) as (Hb & _).
  unfold Dir in Ha, Hb. cbn [get_g] in Ha, Hb. dir_intro Ha. clear HSARA. 
  destruct Hb as (_ & _ & _ & _ & _ & _ & _ & _ & _ & _ & _ & _ & _ & _ & _ & _ & _ & _ & _ & Hl2 & Hf2 & Hr2).
  unfold flagged. rewrite Hlost, Hfrmr, Hrt, Hl2, Hf2, Hr2. reflexivity.
Qed.

(* ---- corollaries ---- *)

(* in order, exactly once: what X.send accepted = what Y.recv returned ++ Y's receive queue ++ the
   data of the I PDUs on the wire X -> Y ++ the data of the I PDUs in X's send queue; in particular
   the returned messages are a prefix of the accepted ones - for both directions at once *)
Theorem in_order_exactly_once c ops sd : cfg_ok c ->
  let s := run c ops in let h := outs (init c) ops in
  accepted sd h = returned (other sd) h ++ rq (get_ep s (other sd)) ++ map snd (Is (get_w s sd)) ++ map snd (Is (sq (get_ep s sd))).
Proof.
  intros Hc s h. pose proof (inv_reachable c ops Hc sd) as (HD & _). fold s in HD.
  unfold Dir in HD. dir_intro HD.
  pose proof (sent_run ops (init c) sd) as Hs. pose proof (dlv_run ops (init c) (other sd)) as Hd.
  rewrite other_other in Hd. fold (run c ops) in Hs, Hd. fold s in Hs, Hd. fold h in Hs, Hd.
  assert (E1 : sent (get_g (init c) sd) = []) by (destruct sd; reflexivity).
  assert (E2 : dlv (get_g (init c) sd) = []) by (destruct sd; reflexivity).
  rewrite E1 in Hs. rewrite E2 in Hd. cbn [app] in Hs, Hd.
  rewrite <- Hs, <- Hd, <- map_app. exact Hsent.
Qed.

Corollary returned_prefix_of_accepted c ops sd : cfg_ok c ->
  let h := outs (init c) ops in exists rest, accepted sd h = returned (other sd) h ++ rest.
Proof. intros Hc h. eexists. apply (in_order_exactly_once c ops sd Hc). Qed.

(* every I PDU of the direction on the wire / in the send queue carries the sequence number of its
   position in the sending order, modulo 16 *)
Theorem sequence_numbers c ops sd : cfg_ok c ->
  let s := run c ops in
  let fl := Is (get_w s sd) ++ Is (sq (get_ep s sd)) in
  fl = number (gR (get_g s sd)) (map snd fl) /\
  vr (get_ep s (other sd)) = gR (get_g s sd) mod 16 /\
  len (returned (other sd) (outs (init c) ops)) + len (rq (get_ep s (other sd))) = gR (get_g s sd).
Proof.
  intros Hc s fl. pose proof (inv_reachable c ops Hc sd) as (HD & _). fold s in HD.
  unfold Dir in HD. dir_intro HD. repeat split; try assumption.
  pose proof (dlv_run ops (init c) (other sd)) as Hd. rewrite other_other in Hd.
  assert (E2 : dlv (get_g (init c) sd) = []) by (destruct sd; reflexivity).
  rewrite E2 in Hd. cbn [app] in Hd. fold (run c ops) in Hd. fold s in Hd. rewrite <- Hd. lia.
Qed.

(* the window: accepted but unacknowledged messages never exceed the window the peer announced,
   and the modulo-16 difference of the state variables is the true count (no aliasing) *)
Theorem window_respected c ops sd : cfg_ok c ->
  let s := run c ops in let x := get_ep s sd in let y := get_ep s (other sd) in
  let S := len (accepted sd (outs (init c) ops)) in let SA := gSA (get_g s sd) in
  0 <= S - SA <= rwl y /\ rwr x = rwl y /\ rwl y <= 15 /\
  vs x = S mod 16 /\ vsa x = SA mod 16 /\ (vs x - vsa x) mod 16 = S - SA /\
  (* ghost-free reading: I PDUs of X in X's send queue, on the wire, in Y's receive queue, or
     consumed by Y's application but not yet acknowledged by Y *)
  len (Is (sq x)) + len (Is (get_w s sd)) + len (rq y) + confs y <= rwl y.
Proof.
  intros Hc s x y S SA. pose proof (inv_reachable c ops Hc sd) as (HD & _). fold s in HD.
  pose proof (sent_run ops (init c) sd) as Hs.
  assert (E1 : sent (get_g (init c) sd) = []) by (destruct sd; reflexivity).
  rewrite E1 in Hs. cbn [app] in Hs. fold (run c ops) in Hs. fold s in Hs.
  unfold Dir in HD. pose proof (dir_len_flight _ _ _ _ _ _ _ _ _ _ _ _ _ _ HD) as Hfl. dir_intro HD.
  fold x in Hvs, Hvsa, Hwin, Hrw, Hfl. fold y in Hrw, Hrng, Hconf, Hrq.
  rewrite len_app in Hfl.
  unfold S, SA. rewrite <- Hs. repeat split; try lia.
Qed.

(* nothing is ever discarded or rejected, recv never raises: no bad event in any history *)
Theorem no_overflow c ops : cfg_ok c ->
  forallb (fun e => negb (bad1 e)) (outs (init c) ops) = true /\
  let s := run c ops in
  est (epa s) = true /\ est (epb s) = true /\ flagged s = false /\
  forallb notF (wab s ++ wba s ++ sq (epa s) ++ sq (epb s)) = true.
Proof.
  intro Hc. split.
  - unfold run. assert (H := inv_init c Hc). revert H. generalize (init c).
    induction ops as [|o ops IH]; intros s H; cbn [outs forallb]; [reflexivity|].
    pose proof (inv_step s o H) as H'. rewrite (IH _ H'), andb_true_r.
    destruct (bad1 (o, snd (step_full s o))) eqn:E; [|reflexivity].
    apply bad_step in E. rewrite (inv_unflagged _ H') in E. discriminate.
  - intro s. pose proof (inv_reachable c ops Hc) as HI. fold s in HI.
    destruct (HI A) as (_ & Ea & Ia & Fa). destruct (HI B) as (_ & Eb & Ib & Fb). cbn [get_ep get_w] in *.
    repeat split; try assumption; [apply inv_unflagged, HI|].
    rewrite !forallb_app. rewrite !andb_true_iff. repeat split; apply forallb_forall; intros p Hp.
    + rewrite Forall_forall in Fa. apply Fa, Hp.
    + rewrite Forall_forall in Fb. apply Fb, Hp.
    + rewrite Forall_forall in Ia. specialize (Ia p Hp). destruct p; try discriminate; reflexivity.
    + rewrite Forall_forall in Ib. specialize (Ib p Hp). destruct p; try discriminate; reflexivity.
Qed.

(* messages larger than the connection MIU (= the peer's receive MIU) are refused with EMSGSIZE
   and nothing changes; all others are accepted exactly when the window is open *)
Theorem emsgsize c ops sd m : cfg_ok c ->
  let s := run c ops in
  smiu (get_ep s sd) = rmiu (get_ep s (other sd)) /\
  (smiu (get_ep s sd) < len m -> step_full s (Send sd m) = (s, OSend (Err (LlcpError EMSGSIZE)))) /\
  (len m <= smiu (get_ep s sd) ->
     snd (step_full s (Send sd m)) = OSend (Ok true) \/
     (step_full s (Send sd m) = (s, OSend (Err (LlcpError EWOULDBLOCK))) /\
      len (accepted sd (outs (init c) ops)) - gSA (get_g s sd) = rwl (get_ep s (other sd)))).
Proof.
  intros Hc s. pose proof (inv_reachable c ops Hc sd) as (HD & Ex & _). fold s in HD, Ex.
  pose proof (sent_run ops (init c) sd) as Hs.
  assert (E1 : sent (get_g (init c) sd) = []) by (destruct sd; reflexivity).
  rewrite E1 in Hs. cbn [app] in Hs. fold (run c ops) in Hs. fold s in Hs.
  unfold Dir in HD. dir_intro HD. split; [exact Hmiu|]. split.
  - intro Hm. unfold step_full, ep_send. rewrite Ex. cbn [negb].
    replace (smiu (get_ep s sd) <? len m) with true by lia. reflexivity.
  - intro Hm. unfold step_full, ep_send. rewrite Ex. cbn [negb].
    replace (smiu (get_ep s sd) <? len m) with false by lia.
    unfold send_window_slots.
    destruct ((rwr (get_ep s sd) - vs (get_ep s sd) + vsa (get_ep s sd)) mod 16 =? 0) eqn:E.
    + right. split; [reflexivity|]. rewrite <- Hs. lia.
    + left. reflexivity.
Qed.

(* the two window computations of tco.py return the true number of free slots (no wrap-around alias) *)
Theorem window_slots_true c ops sd : cfg_ok c ->
  let s := run c ops in let x := get_ep s sd in let y := get_ep s (other sd) in let g := get_g s sd in
  send_window_slots x = rwl y - (len (sent g) - gSA g) /\
  recv_window_slots y = rwl y - (gR g - gRA g) /\
  0 <= len (sent g) - gSA g <= rwl y /\ 0 <= gR g - gRA g <= rwl y.
Proof.
  intros Hc s x y g. pose proof (inv_reachable c ops Hc sd) as (HD & _). fold s in HD.
  unfold Dir in HD. dir_intro HD. fold x in Hvs, Hvsa, Hwin, Hrw. fold y in Hvr, Hvra, Hrw, Hrng. fold g in Hvs, Hvsa, Hvr, Hvra, Hwin, HSA, HRA, HC, HR, HSARA.
  unfold send_window_slots, recv_window_slots. repeat split; lia.
Qed.
