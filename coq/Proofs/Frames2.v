From Coq Require Import ZArith List Bool Lia ZifyBool.
From NV Require Import Base.Result Base.Bytes Base.PyPrims Model.Frames Proofs.Frames.
Import ListNotations.
Open Scope Z_scope.
Ltac Zify.zify_post_hook ::= Z.to_euclidean_division_equations.

(* ---------- completeness: a well-formed response is accepted with its data ---------- *)
Lemma tail_parse_complete cmd d :
  tail_parse cmd (([213; cmd + 1] ++ d) ++ [Z.land (256 - sum ([213; cmd + 1] ++ d)) 255; 0]) = Ok d.
Proof.
  unfold tail_parse, but_last. rewrite removelast_app2, sum_app, !land255.
  change (sum [?x]) with x.
  replace (negb (_ mod 256 =? 0)) with false by lia.
  cbn [app]. rewrite idx0_cons, idx1_cons. cbn [bind Z.eqb Pos.eqb negb].
  rewrite Z.eqb_refl. cbn [negb]. unfold strip2. cbn [tl].
  change (d ++ [?a; ?b]) with (d ++ [a; b]). rewrite removelast_app2, removelast_app1. reflexivity.
Qed.

Theorem pn53x_parse_complete cmd d :
  len d <= 65533 -> pn53x_parse cmd (pn53x_response cmd d) = Ok d.
Proof.
  intro Hn. pose proof (len_nonneg d) as H0. rewrite pn53x_parse_unfold. unfold pn53x_response.
  set (body := [213; cmd + 1] ++ d).
  assert (Hb : len body = len d + 2) by (unfold body; rewrite len_app; change (len [213; cmd+1]) with 2; lia).
  set (tl2 := [Z.land (256 - sum body) 255; 0]).
  destruct (len body <? 255) eqn:E.
  - cbn [SOF app].
    replace (len (0 :: 0 :: 255 :: len body :: Z.land (256 - len body) 255 :: body ++ tl2) <? 7) with false
      by (rewrite !len_cons, len_app; change (len tl2) with 2; lia).
    unfold starts_with. cbn [length firstn list_eqb Z.eqb Pos.eqb andb].
    replace (len body =? 255) with false by lia. cbn [andb skipn firstn byt nth].
    rewrite !sum_cons, sum_nil, !land255.
    replace (negb ((len body + ((256 - len body) mod 256 + 0)) mod 256 =? 0)) with false by lia.
    rewrite !len_cons, len_app. change (len tl2) with 2.
    replace (negb (len body =? 1 + (1 + (1 + (1 + (1 + (len body + 2))))) - 7)) with false by lia.
    cbn [bind]. apply tail_parse_complete.
  - cbn [SOF app].
    replace (len (0 :: 0 :: 255 :: 255 :: 255 :: len body / 256 :: len body mod 256 ::
                  Z.land (256 - (len body / 256 + len body mod 256)) 255 :: body ++ tl2) <? 7) with false
      by (rewrite !len_cons, len_app; change (len tl2) with 2; lia).
    unfold starts_with. cbn [length firstn list_eqb Z.eqb Pos.eqb andb skipn byt nth].
    rewrite !sum_cons, sum_nil, !land255.
    replace (negb ((len body / 256 + (len body mod 256 + ((256 - (len body / 256 + len body mod 256)) mod 256 + 0))) mod 256 =? 0))
      with false by lia.
    rewrite !len_cons, len_app. change (len tl2) with 2.
    replace (negb (len body / 256 * 256 + len body mod 256 =? 1 + (1 + (1 + (1 + (1 + (1 + (1 + (1 + (len body + 2)))))))) - 10))
      with false by lia.
    cbn [bind]. apply tail_parse_complete.
Qed.

(* ---------- ACR122 ---------- *)
Lemma le32_sum n : 0 <= n < 4294967296 ->
  n mod 256 + 256 * ((n / 256) mod 256) + 65536 * ((n / 65536) mod 256) + 16777216 * ((n / 16777216) mod 256) = n.
Proof. intro H. lia. Qed.

Theorem acr122_build_ok cmd data f :
  acr122_build cmd data = Ok f -> acr122_cmd_ok f = Some ([212; cmd] ++ data) /\ len data <= 253.
Proof.
  unfold acr122_build. pose proof (len_nonneg data) as H0.
  rewrite len_app. change (len [212; cmd]) with 2.
  remember (2 + len data) as k eqn:Hk.
  destruct (k >? 255) eqn:E; [discriminate|]. intro H. injection H as <-.
  split; [|lia]. unfold ccid_build, le32. cbn [app].
  unfold acr122_cmd_ok, byt. cbn [nth skipn].
  rewrite !len_cons. set (n := len data) in *.
  set (m := 1 + (1 + (1 + (1 + (1 + (1 + (1 + n))))))).
  assert (Hm : 0 <= m < 4294967296) by (unfold m; lia).
  rewrite (le32_sum m Hm). unfold m.
  rewrite !Z.eqb_refl. cbn [andb]. rewrite !andb_true_r.
  match goal with |- (if ?a && ?b && ?c then _ else _) = _ =>
    replace a with true by lia; replace b with true by lia; replace c with true by lia end.
  reflexivity.
Qed.

Theorem acr122_parse_sound cmd rsp d :
  acr122_parse cmd rsp = Ok d ->
  acr122_rsp_ok rsp = Some (([213; cmd + 1] ++ d) ++ [144; 0]).
Proof.
  unfold acr122_parse, ccid_parse, acr122_rsp_ok.
  destruct (len rsp <? 10) eqn:E10; [discriminate|].
  destruct (negb (byt rsp 0 =? 128)) eqn:E0; [discriminate|].
  destruct (negb (len rsp =? _)) eqn:El; [discriminate|]. cbn [bind].
  set (fr := skipn 10 rsp).
  destruct (len fr <? 4) eqn:E4; [discriminate|].
  destruct (negb ((byt fr 0 =? 213) && (byt fr 1 =? cmd + 1))) eqn:E1; [discriminate|].
  destruct (negb ((fst (last2 fr) =? 144) && (snd (last2 fr) =? 0))) eqn:E2; [discriminate|].
  intro H. injection H as <-.
  replace (10 <=? len rsp) with true by lia. replace (byt rsp 0 =? 128) with true by lia.
  match goal with |- (if (true && true && ?c) then _ else _) = _ => replace c with true by lia end.
  cbn [andb]. f_equal. fold fr.
  destruct (split_last2 fr) as (B & x & y & HB); [lia|]. rewrite HB in *.
  unfold last2 in E2. rewrite removelast_app2 in E2. rewrite !last_last in E2.
  change (B ++ [x; y]) with (B ++ [x] ++ [y]) in E2. rewrite app_assoc, last_last in E2. cbn [fst snd] in E2.
  assert (x = 144 /\ y = 0) as [-> ->] by lia.
  destruct B as [|b0 [|b1 B]]; try (rewrite !len_app in E4; cbn in E4; lia).
  cbn [app byt nth] in E1. assert (b0 = 213 /\ b1 = cmd + 1) as [-> ->] by lia.
  unfold strip2. cbn [app tl]. rewrite removelast_app2, removelast_app1. reflexivity.
Qed.

(* ---------- RC-S380 command frame ---------- *)
Theorem rcs380_build_ok data : bytes_ok data -> len data <= 65535 ->
  rcs380_frame_ok (rcs380_build data) = Some data.
Proof.
  intros Hd Hn. pose proof (len_nonneg data) as H0. pose proof (sum_nonneg data Hd) as Hs.
  unfold rcs380_build, rcs380_frame_ok, byt. cbn [app nth skipn Z.eqb Pos.eqb andb].
  rewrite !sum_cons, sum_nil. rewrite !len_cons, len_app. change (len [?a; ?b]) with 2.
  set (n := len data) in *.
  replace (((n mod 256 + n / 256 + (256 - (n mod 256 + (n / 256 + 0))) mod 256) mod 256 =? 0)) with true by lia.
  replace (1 + (1 + (1 + (1 + (1 + (1 + (1 + (1 + (n + 2)))))))) =? 8 + (n / 256 * 256 + n mod 256) + 2) with true by lia.
  cbn [andb]. replace (n / 256 * 256 + n mod 256) with n by lia.
  unfold n, len. rewrite Nat2Z.id.
  rewrite firstn_len_app, nth_len_app by reflexivity.
  replace (S (length data)) with (length (data ++ [(256 - sum data) mod 256])) by (rewrite app_length; cbn; lia).
  change (data ++ [?a; 0]) with (data ++ [a] ++ [0]). rewrite app_assoc, nth_len_app by reflexivity.
  replace ((sum data + (256 - sum data) mod 256) mod 256 =? 0) with true by lia. reflexivity.
Qed.
