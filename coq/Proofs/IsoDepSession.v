(* ISO-DEP: sessions.  The APDUs of a list are exchanged one after the other on the same tag object and card,
   all rounds drawing their fates from ONE script (each exchange continues where the previous one stopped).
   As long as every exchange so far returned a value the per-exchange theorems chain: [in_step] is
   re-established by every Ok.  Nothing is claimed after the first exchange that fails - that is the known
   finding, and [session_boundary] shows it is exactly there that duplicates / stale responses appear. *)
From Coq Require Import ZArith List Bool Lia.
From NV Require Import Base.Result Base.Bytes Model.IsoDep Proofs.IsoDep Proofs.IsoDepSync Proofs.IsoDepBudget Proofs.IsoDepLegacy.
Import ListNotations.
Open Scope Z_scope.

Definition plan_t := list (list Z).

(* one exchange consumes one script entry per block it sends *)
Fixpoint session1 (app : Z -> bytes -> bytes) (fuel : nat) (k : cfg) (mx : option Z) (kc : ccfg) (pn : Z) (c : picc)
                  (cmds : list (bytes * plan_t)) (sc : list (fate * fate)) : list outcome :=
  match cmds with
  | [] => []
  | (cmd, pl) :: t =>
      let o := fst (exchangex app fuel k mx kc cmd pn (set_plan c pl) sc) in      (* n_extra starts at 0 in every exchange *)
      o :: session1 app fuel k mx kc (o_pni o) (o_card o) t (skipn (length (o_blocks o)) sc)
  end.

(* what a session must look like, given the card's log [e] before it *)
Fixpoint sess_spec (app : Z -> bytes -> bytes) (e : list bytes) (cmds : list (bytes * plan_t)) (outs : list outcome) : Prop :=
  match cmds, outs with
  | [], [] => True
  | (cmd, _) :: t, o :: os =>
      match o_res o with
      | Ok r => r = app (len e) cmd                              (* (b) the response to its own command *)
                /\ execs (o_card o) = e ++ [cmd]                  (* (a) executed once, appended to the log *)
                /\ in_step (o_pni o) (o_card o)                   (* (c) in step again *)
                /\ sess_spec app (e ++ [cmd]) t os
      | Err (TagCommandError _) | Hang =>                         (* first failure (Hang: fuel below the bound) *)
          execs (o_card o) = e \/ execs (o_card o) = e ++ [cmd]   (* at most this one command more; no claim beyond *)
      | _ => False                                                (* no raw clf error, no crash *)
      end
  | _, _ => False
  end.

Lemma in_step_set_plan pn c pl : in_step pn c -> in_step pn (set_plan c pl).
Proof. intros (H1 & H2 & H3 & H4 & H5). repeat split; assumption. Qed.

Theorem session_sound app k mx kc : repaired k -> params_ok k kc ->
  forall cmds fuel sc pn c, in_step pn c -> Forall (fun x => 0 < len (fst x)) cmds ->
  sess_spec app (execs c) cmds (session1 app fuel k mx kc pn c cmds sc).
Proof.
  intros Hrep Hpar. induction cmds as [|[cmd pl] t IH]; intros fuel sc pn c Hstep Hall; [exact I|].
  cbn [session1 sess_spec]. inversion Hall as [|x l Hc Ht]; subst. cbn [fst] in Hc.
  pose proof (in_step_set_plan pn c pl Hstep) as Hstep'.
  pose proof (exchangex_result_sound app k kc cmd pn (set_plan c pl) Hrep Hpar Hstep' Hc mx fuel sc) as Hs.
  pose proof (exchangex_at_most_once app k kc cmd pn (set_plan c pl) Hrep Hpar Hstep' Hc mx fuel sc) as Ha.
  cbv zeta in Hs, Ha. change (execs (set_plan c pl)) with (execs c) in *.
  unfold response in Hs. change (execs (set_plan c pl)) with (execs c) in Hs.
  destruct (o_res (fst (exchangex app fuel k mx kc cmd pn (set_plan c pl) sc))) as [r | e | x |] eqn:Er.
  - destruct Hs as (Hr & Hex & Hin). split; [exact Hr|]. split; [exact Hex|]. split; [exact Hin|].
    rewrite <- Hex. apply IH; assumption.
  - destruct e; try contradiction. exact Ha.
  - contradiction.
  - exact Ha.
Qed.

(* flat reading for a session in which every exchange returned a value *)
Fixpoint expected (app : Z -> bytes -> bytes) (e : list bytes) (cmds : list (bytes * plan_t)) : list (res bytes) :=
  match cmds with [] => [] | (cmd, _) :: t => Ok (app (len e) cmd) :: expected app (e ++ [cmd]) t end.

(* the card's log after the session *)
Definition final_log (e0 : list bytes) (outs : list outcome) : list bytes :=
  fold_left (fun _ o => execs (o_card o)) outs e0.

Lemma sess_spec_all_ok app : forall cmds e outs, sess_spec app e cmds outs ->
  Forall (fun o => is_ok (o_res o) = true) outs ->
  map o_res outs = expected app e cmds /\ final_log e outs = e ++ map fst cmds.
Proof.
  induction cmds as [|[cmd pl] t IH]; intros e outs Hs Hok; destruct outs as [|o os]; cbn [sess_spec] in Hs; try contradiction.
  - split; [reflexivity | cbn; rewrite app_nil_r; reflexivity].
  - inversion Hok as [|x l Ho Hos]; subst. destruct (o_res o) as [r | | |] eqn:Er; try discriminate.
    destruct Hs as (Hr & Hex & Hin & Hrest). destruct (IH _ _ Hrest Hos) as [H1 H2].
    split; [cbn [map expected]; rewrite Er, Hr, H1; reflexivity|].
    unfold final_log in *. cbn [fold_left]. rewrite Hex, H2. cbn [map fst]. rewrite <- app_assoc. reflexivity.
Qed.

(* every exchange returned a value: the log is exactly the commands, once each, in order,
   and every value is the response to its own command *)
Theorem session_all_ok app k mx kc : repaired k -> params_ok k kc ->
  forall cmds fuel sc pn c, in_step pn c -> Forall (fun x => 0 < len (fst x)) cmds ->
  let outs := session1 app fuel k mx kc pn c cmds sc in
  Forall (fun o => is_ok (o_res o) = true) outs ->
  map o_res outs = expected app (execs c) cmds /\ final_log (execs c) outs = execs c ++ map fst cmds.
Proof.
  intros Hrep Hpar cmds fuel sc pn c Hstep Hall. cbv zeta. intro Hok.
  apply (sess_spec_all_ok app cmds (execs c) _ (session_sound app k mx kc Hrep Hpar cmds fuel sc pn c Hstep Hall) Hok).
Qed.

(* the boundary: budget 1; the first exchange fails (response and the answer to R(NAK) lost); the session theorem
   holds and claims nothing beyond; the NEXT exchange, one lost block, executes its APDU twice (known finding) *)
Definition boundary_cmds : list (bytes * plan_t) := [([255; 1; 0; 5], []); ([255; 2; 0; 5], [])].
Definition boundary_script : list (fate * fate) := [(FD, FL); (FD, FL); (FD, FL)].
Definition boundary_session : list outcome :=
  session1 demo_app 50 k_repaired (Some MAX_EXTRA_BLOCKS) kc16 0 (picc_init []) boundary_cmds boundary_script.
Lemma session_boundary :
  sess_spec demo_app [] boundary_cmds boundary_session /\
  map o_res boundary_session = [Err (TagCommandError E_TIMEOUT); Ok (demo_app 2 [255; 2; 0; 5])] /\
  map (fun o => execs (o_card o)) boundary_session = [[[255; 1; 0; 5]]; [[255; 1; 0; 5]; [255; 2; 0; 5]; [255; 2; 0; 5]]].
Proof.
  split.
  - assert (H1 : repaired k_repaired) by (split; reflexivity).
    assert (H2 : params_ok k_repaired kc16) by (unfold params_ok; cbn; lia).
    assert (H3 : in_step 0 (picc_init [])) by (unfold in_step, bit; cbn; repeat split; auto).
    assert (H4 : Forall (fun x : bytes * plan_t => 0 < len (fst x)) boundary_cmds) by (repeat constructor).
    exact (session_sound demo_app k_repaired (Some MAX_EXTRA_BLOCKS) kc16 H1 H2 boundary_cmds 50%nat boundary_script 0 (picc_init []) H3 H4).
  - vm_compute. split; reflexivity.
Qed.

(* non-vacuity: three exchanges (20-byte command and response chained over FSC 16; a short one; a 30-byte response
   with S(WTX)), one script with a single faulty round (the second block of the first command is lost), budget 3 *)
Definition nvs_cmds : list (bytes * plan_t) :=
  [(nv_cmd, []); ([255; 9; 0; 3], []); ([255; 3; 0; 30], [[]; [5]])].
Definition nvs_script : list (fate * fate) := [(FD, FD); (FL, FD)].
Definition nvs_session : list outcome := session1 demo_app 900 k_nv (Some MAX_EXTRA_BLOCKS) kc16 0 (picc_init []) nvs_cmds nvs_script.
Lemma nvs_run :
  map o_res nvs_session = [Ok (demo_app 0 nv_cmd); Ok (demo_app 1 [255; 9; 0; 3]); Ok (demo_app 2 [255; 3; 0; 30])] /\
  final_log [] nvs_session = [nv_cmd; [255; 9; 0; 3]; [255; 3; 0; 30]] /\
  map (fun o => length (o_blocks o)) nvs_session = [5%nat; 1%nat; 4%nat].
Proof. vm_compute. repeat split. Qed.

(* non-vacuity of the per-exchange theorems at HEAD: the exchange of [nv_run] under the budget 65538, what it needs
   of the budget (2 S(WTX) + 1 chained response block, 4 faulty rounds in the script), and the same exchange
   under a budget of 2: the documented error, the APDU still executed once *)
Lemma nvx_run :
  need_extra demo_app kc16 nv_cmd nv_card = 3 /\ faults nv_script = 4 /\
  (let o := exchangex demo_app 900 k_nv (Some MAX_EXTRA_BLOCKS) kc16 nv_cmd 0 nv_card nv_script in
   o_res (fst o) = Ok (demo_app 0 nv_cmd) /\ execs (o_card (fst o)) = [nv_cmd] /\ snd o = 3) /\
  (let o := exchangex demo_app 900 k_nv (Some 2) kc16 nv_cmd 0 nv_card nv_script in
   o_res (fst o) = Err (TagCommandError E_PROTOCOL) /\ execs (o_card (fst o)) = [nv_cmd]).
Proof. vm_compute. repeat split. Qed.
