(* C08, Type 3 / Type 4: the readers of Model/TagReadAnyB.v against an ARBITRARY scripted responder return
   no NDEF or an NDEF state whose length does not exceed the capacity and that was read from the data
   area only; never Crash, never Hang; the number of commands is bounded by the size of the data area. *)
From Coq Require Import ZArith List Bool Lia ZifyBool.
From NV Require Import Base.Result Base.Bytes Base.PyPrims Proofs.Chunks Model.IsoDep Model.T3T Model.T4T
  Model.TagAct Model.TagReadAnyB Proofs.TagSafeIface.
Import ListNotations.
Open Scope Z_scope.
Ltac Zify.zify_post_hook ::= Z.to_euclidean_division_equations.

(* ------------------------------------------------------------ Type 3: the air *)
Definition ax_ok (a : aresult) : Prop := match a with ARx d => bytes_ok d | _ => True end.
Definition air_ok (s : air) : Prop := Forall ax_ok (a_script s).
Definition sent (s : air) : Z := len (a_sent s).

Lemma air_xchg_cases s f : air_ok s ->
  ax_ok (fst (air_xchg s f)) /\ air_ok (snd (air_xchg s f)) /\ a_blocks (snd (air_xchg s f)) = a_blocks s /\
  sent (snd (air_xchg s f)) = sent s + 1.
Proof.
  intro H. unfold air_xchg, air_ok, sent in *. cbn [fst snd a_script a_blocks a_sent]. rewrite len_cons.
  destruct (a_script s) as [|a r]; cbn [hd_x tl]; [repeat split; auto; lia|]. inversion H; subst. repeat split; auto; lia.
Qed.

Lemma t3_xchg3_cases s f : air_ok s ->
  exists s', snd (t3_xchg3 s f) = s' /\ air_ok s' /\ a_blocks s' = a_blocks s /\ sent s' <= sent s + 3 /\
    ((exists r, fst (t3_xchg3 s f) = Ok r /\ bytes_ok r) \/ (exists e, fst (t3_xchg3 s f) = Err (TagCommandError e))).
Proof.
  intro H. unfold t3_xchg3.
  pose proof (air_xchg_cases s f H) as (A1 & O1 & B1 & S1). destruct (air_xchg s f) as [a1 s1]. cbn [fst snd] in *.
  destruct a1 as [r1| | |].
  1: { exists s1. split; [reflexivity|]. split; [exact O1|]. split; [exact B1|]. split; [lia|]. left. exists r1. split; [reflexivity | exact A1]. }
  all: pose proof (air_xchg_cases s1 f O1) as (A2 & O2 & B2 & S2); destruct (air_xchg s1 f) as [a2 s2]; cbn [fst snd] in *;
       destruct a2 as [r2| | |].
  all: try (exists s2; split; [reflexivity|]; split; [exact O2|]; split; [congruence|]; split; [lia|]; left; exists r2; split; [reflexivity | exact A2]; fail).
  all: pose proof (air_xchg_cases s2 f O2) as (A3 & O3 & B3 & S3); destruct (air_xchg s2 f) as [a3 s3]; cbn [fst snd] in *;
       destruct a3 as [r3| | |]; exists s3; (split; [reflexivity|]); (split; [auto|]); (split; [congruence|]); (split; [lia|]).
  all: try (left; exists r3; split; [reflexivity | exact A3]; fail).
  all: right; eexists; reflexivity.
Qed.

Lemma t3_rsp_any_cases code si idm rsp : bytes_ok rsp ->
  (exists d, t3_rsp_any code si idm rsp = Ok d /\ bytes_ok d) \/ exists e, t3_rsp_any code si idm rsp = Err (TagCommandError e).
Proof.
  intro Hb. unfold t3_rsp_any.
  destruct (_ || _); [right; eauto|]. destruct (negb (_ =? code + 1)); [right; eauto|].
  destruct (si && _); [right; eauto|]. destruct (negb si); [left; eexists; split; [reflexivity|]; apply bytes_ok_skipn, Hb|].
  destruct (len rsp <? 12); [right; eauto|]. destruct (negb _); [right; eauto|].
  left; eexists; split; [reflexivity|]. apply bytes_ok_skipn, Hb.
Qed.

Lemma t3_dev_read_cases idm s bl : air_ok s -> len idm = 8 -> Forall (fun b => 0 <= b < 65536) bl -> len bl <= 80 ->
  exists s', snd (t3_dev_read idm s bl) = s' /\ air_ok s' /\ a_blocks s' = rev bl ++ a_blocks s /\ sent s' <= sent s + 3 /\
    ((exists d, fst (t3_dev_read idm s bl) = Ok d /\ bytes_ok d /\ len d = 16 * len bl) \/
     (exists e, fst (t3_dev_read idm s bl) = Err (TagCommandError e))).
Proof.
  intros H Hi Hb Hn. unfold t3_dev_read. destruct (rd_frame_ok idm bl Hi Hb Hn) as [f ->].
  assert (H' : air_ok (air_note s bl)) by exact H.
  destruct (t3_xchg3_cases (air_note s bl) f H') as (s' & Es & O & B & S & C).
  destruct (t3_xchg3 (air_note s bl) f) as [r s0]. cbn [fst snd] in *. subst s0.
  exists s'. destruct C as [(rsp & -> & Hr) | (e & ->)]; cbn [fst snd].
  - split; [reflexivity|]. split; [exact O|]. split; [exact B|]. split; [exact S|].
    destruct (t3_rsp_any_cases 6 true idm rsp Hr) as [(d & -> & Hd) | (e & ->)]; cbn [bind]; [|right; eauto].
    destruct (negb (len d =? 1 + 16 * len bl)) eqn:E; [right; eauto|]. left. eexists. split; [reflexivity|].
    split; [apply bytes_ok_skipn, Hd|]. unfold drop, len in *. rewrite skipn_length. lia.
  - split; [reflexivity|]. split; [exact O|]. split; [exact B|]. split; [exact S|]. right; eauto.
Qed.

(* the data block loop: no Hang, no Crash, only blocks 1 .. last-1, at most 3 frames per block *)
Lemma rd_loop_cases idm : forall fuel s i last nbr acc, air_ok s -> len idm = 8 -> 1 <= nbr <= 15 -> 1 <= i -> last <= 65536 ->
  (Z.to_nat (last - i) <= fuel)%nat -> bytes_ok acc ->
  exists s' nb, snd (rd_loop air (t3_dev_read idm) fuel s i last nbr acc) = s' /\ air_ok s' /\
    a_blocks s' = nb ++ a_blocks s /\ Forall (fun b => 1 <= b < last) nb /\ sent s' <= sent s + 3 * Z.max 0 (last - i) /\
    (fst (rd_loop air (t3_dev_read idm) fuel s i last nbr acc) = Ok None \/
     exists d, fst (rd_loop air (t3_dev_read idm) fuel s i last nbr acc) = Ok (Some d) /\ bytes_ok d).
Proof.
  induction fuel as [|f IH]; intros s i last nbr acc H Hi Hn H1 Hl Hf Ha.
  - rewrite rd_loop_eq. replace (i <? last) with false by lia. exists s, []. (split; [reflexivity|]); (split; [exact H|]); (split; [reflexivity|]); (split; [constructor|]); (split; [lia|]); right; exists acc; (split; [reflexivity | exact Ha]).
  - rewrite rd_loop_eq. destruct (i <? last) eqn:E; [|exists s, []; (split; [reflexivity|]); (split; [exact H|]); (split; [reflexivity|]); (split; [constructor|]); (split; [lia|]); right; exists acc; (split; [reflexivity | exact Ha])].
    set (bl := zrange i (Z.min (i + nbr) last)).
    assert (Hbl : Forall (fun b => 0 <= b < 65536) bl) by (apply Forall_zrange; lia).
    assert (Hln : len bl <= 80) by (unfold bl; rewrite zrange_len'; lia).
    destruct (t3_dev_read_cases idm s bl H Hi Hbl Hln) as (s1 & Es & O & B & S & C).
    destruct (t3_dev_read idm s bl) as [r s0]. cbn [fst snd] in *. subst s0.
    assert (Hnb : Forall (fun b => 1 <= b < last) (rev bl)).
    { apply Forall_rev. apply Forall_zrange. lia. }
    destruct C as [(d & -> & Hd & _) | (e & ->)].
    + destruct (IH s1 (i + nbr) last nbr (acc ++ d) O Hi Hn ltac:(lia) Hl ltac:(lia)) as (s' & nb & Es' & O' & B' & F' & S' & C').
      { apply bytes_ok_app; auto. }
      exists s', (nb ++ rev bl). split; [exact Es'|]. split; [exact O'|].
      split; [rewrite B', B, app_assoc; reflexivity|]. split; [apply Forall_app; auto|]. split; [lia | exact C'].
    + exists s1, (rev bl). cbn [fst snd]. split; [reflexivity|]. split; [exact O|]. split; [exact B|]. split; [exact Hnb|]. split; [lia|]. left; reflexivity.
Qed.

(* what the property demands of a reported NDEF state *)
Definition t3_sound (f : fresh) (blocks : list Z) : Prop :=
  match f with
  | NoNdef => True
  | Ndef _ _ cap d => len d <= cap /\ bytes_ok d /\ Forall (fun b => 0 <= b /\ 16 * b <= cap) blocks
  end.

Theorem t3_read_with_safe idm s : air_ok s -> len idm = 8 ->
  exists f s' nb nmaxb, t3_read_with idm s = (Ok f, s') /\ air_ok s' /\ a_blocks s' = nb ++ a_blocks s /\ t3_sound f nb /\
    0 <= nmaxb <= 65535 /\ sent s' <= sent s + 3 * (1 + nmaxb) /\ (forall r w cap d, f = Ndef r w cap d -> cap = 16 * nmaxb).
Proof.
  intros H Hi. unfold t3_read_with. rewrite read_attr_eq.
  destruct (t3_dev_read_cases idm s [0] H Hi) as (s1 & Es & O & B & S & C); [repeat constructor; lia | cbn; lia |].
  destruct (t3_dev_read idm s [0]) as [r s0]. cbn [fst snd] in *. subst s0.
  destruct C as [(d & -> & Hd & Hl) | (e & ->)]; [|exists NoNdef, s1, [0], 0; repeat split; auto; try lia; discriminate].
  destruct (attr_parse d) as [a|] eqn:Ea; [|exists NoNdef, s1, [0], 0; repeat split; auto; try lia; discriminate].
  pose proof (attr_parse_ok d a Hd Ea) as (Hv & Hr & Hw & Hm & Hwf & Hrw & Hln).
  destruct (negb (a_ver a / 16 =? 1)); [exists NoNdef, s1, [0], 0; repeat split; auto; try lia; discriminate|].
  destruct (a_nbr a =? 0) eqn:E0; [exists NoNdef, s1, [0], 0; repeat split; auto; try lia; discriminate|].
  destruct (a_ln a >? a_nmaxb a * 16) eqn:E1; [exists NoNdef, s1, [0], 0; repeat split; auto; try lia; discriminate|].
  set (last := 1 + (a_ln a + 15) / 16).
  destruct (rd_loop_cases idm (Z.to_nat last) s1 1 last (Z.min (a_nbr a) 15) [] O Hi ltac:(lia) ltac:(lia) ltac:(unfold last; lia) ltac:(lia))
    as (s' & nb & Es' & O' & B' & F' & S' & C'); [constructor|].
  destruct (rd_loop air (t3_dev_read idm) (Z.to_nat last) s1 1 last (Z.min (a_nbr a) 15) []) as [r s0]. cbn [fst snd] in *. subst s0.
  assert (Hsent : sent s' <= sent s + 3 * (1 + a_nmaxb a)) by (unfold last in S'; lia).
  destruct C' as [-> | (dd & -> & Hdd)].
  - exists NoNdef, s', (nb ++ [0]), (a_nmaxb a). split; [reflexivity|]. split; [exact O'|].
    split; [rewrite B', B, <- app_assoc; reflexivity|]. repeat split; auto; try lia; discriminate.
  - eexists (Ndef _ _ _ _), s', (nb ++ [0]), (a_nmaxb a). split; [reflexivity|]. split; [exact O'|].
    split; [rewrite B', B, <- app_assoc; reflexivity|]. split.
    + cbn [t3_sound]. split; [unfold take; pose proof (len_firstn_le (Z.to_nat (a_ln a)) dd); lia|].
      split; [apply bytes_ok_firstn, Hdd|]. apply Forall_app. split; [|repeat constructor; lia].
      eapply Forall_impl; [|exact F']. cbv beta. unfold last. intros b Hb. lia.
    + split; [lia|]. split; [exact Hsent|]. intros r w cap d0 E. injection E as _ _ <- _. lia.
Qed.

Lemma t3_poll_cases s : air_ok s ->
  exists s', snd (t3_poll s) = s' /\ air_ok s' /\ a_blocks s' = a_blocks s /\ sent s' <= sent s + 3 /\
    ((exists idm pmm, fst (t3_poll s) = Ok (idm, pmm) /\ len idm = 8) \/ exists e, fst (t3_poll s) = Err (TagCommandError e)).
Proof.
  intro H. unfold t3_poll. destruct (t3_xchg3_cases s poll_frame H) as (s' & Es & O & B & S & C).
  destruct (t3_xchg3 s poll_frame) as [r s0]. cbn [fst snd] in *. subst s0. exists s'.
  destruct C as [(rsp & -> & Hr) | (e & ->)]; cbn [fst snd]; repeat split; auto; [|right; eauto].
  destruct (t3_rsp_any_cases 0 false [] rsp Hr) as [(d & -> & Hd) | (e & ->)]; cbn [bind]; [|right; eauto].
  destruct (negb (len d =? 16)) eqn:E; [right; eauto|]. left. eexists _, _. split; [reflexivity|].
  unfold take, len in *. rewrite firstn_length. lia.
Qed.

(* tag.ndef of a Type 3 tag object (IDm of 8 bytes, any system code) against any responder *)
Theorem t3_read_safe idm sys s : air_ok s -> len idm = 8 ->
  exists f s' idm' sys' nb nmaxb, t3_read_ndef idm sys s = (Ok f, s', (idm', sys')) /\ air_ok s' /\ len idm' = 8 /\
    a_blocks s' = nb ++ a_blocks s /\ t3_sound f nb /\
    0 <= nmaxb <= 65535 /\ sent s' <= sent s + 3 * (2 + nmaxb) /\ (forall r w cap d, f = Ndef r w cap d -> cap = 16 * nmaxb).
Proof.
  intros H Hi. unfold t3_read_ndef. destruct (sys =? 4860).
  - destruct (t3_read_with_safe idm s H Hi) as (f & s' & nb & nm & -> & O & B & Snd & Hm & S & Hc).
    exists f, s', idm, sys, nb, nm. repeat split; auto; lia.
  - destruct (t3_poll_cases s H) as (s1 & Es & O & B & S & C).
    destruct (t3_poll s) as [r s0]. cbn [fst snd] in *. subst s0.
    destruct C as [(idm' & pmm & -> & Hi') | (e & ->)].
    + destruct (t3_read_with_safe idm' s1 O Hi') as (f & s' & nb & nm & -> & O' & B' & Snd & Hm & S' & Hc).
      exists f, s', idm', 4860, nb, nm. repeat split; auto; try lia. congruence.
    + exists NoNdef, s1, idm, sys, [], 0. cbn [t3_sound]. repeat split; auto; try lia. discriminate.
Qed.

(* the code before the repairs: ValueError for Nbr = 0, length 64 > capacity 16 for Ln = 64 with Nmaxb = 1 *)
Definition ex_attr (nbr nmaxb ln : Z) : list Z :=
  let b := [16; nbr; 4; nmaxb / 256; nmaxb mod 256; 0; 0; 0; 0; 0; 1; 0; ln / 256; ln mod 256] in
  b ++ [sum b / 256; sum b mod 256].
Definition ex_idm : list Z := [1; 2; 3; 4; 5; 6; 7; 8].
Definition ex_rsp (blocks : list Z) : aresult := ARx ((13 + len blocks) :: 7 :: ex_idm ++ [0; 0; len blocks / 16] ++ blocks).
Lemma t3_read_legacy_refuted :
  fst (t3_read_with_legacy ex_idm (mkAir [ex_rsp (ex_attr 0 4 10)] [] [])) = Crash RangeStep0 /\
  fst (t3_read_with ex_idm (mkAir [ex_rsp (ex_attr 0 4 10)] [] [])) = Ok NoNdef /\
  (exists d, fst (t3_read_with_legacy ex_idm (mkAir [ex_rsp (ex_attr 4 1 64); ex_rsp (repeat 7 64)] [] [])) = Ok (Ndef true true 16 d) /\ len d = 64) /\
  fst (t3_read_with ex_idm (mkAir [ex_rsp (ex_attr 4 1 64); ex_rsp (repeat 7 64)] [] [])) = Ok NoNdef.
Proof. split; [vm_compute; reflexivity|]. split; [vm_compute; reflexivity|].
  split; [eexists; split; vm_compute; reflexivity | vm_compute; reflexivity]. Qed.

(* ------------------------------------------------------------ Type 4: the APDU channel *)
Definition as_ok (a : ares) : Prop := match a with AOk d => bytes_ok d | AFail _ => True end.
Definition chan_ok (c : chan) : Prop := Forall as_ok (c_script c).
Definition napdu (c : chan) : Z := len (c_apdus c).

Definition note_read (o : op) (rs : list (Z * Z)) : list (Z * Z) :=
  match o with RdBin off m => (off, m) :: rs | _ => rs end.
Lemma t4_send_cases c o : chan_ok c -> (exists a, apdu_of_op o = Ok a) ->
  exists c', snd (t4_send_any c o) = c' /\ chan_ok c' /\ napdu c' = napdu c + 1 /\ c_reads c' = note_read o (c_reads c) /\
    ((exists d, fst (t4_send_any c o) = Ok d /\ bytes_ok d) \/ exists e, fst (t4_send_any c o) = Err (TagCommandError e)).
Proof.
  intros H [a Ea]. unfold t4_send_any. rewrite Ea. cbn [fst snd]. eexists. split; [reflexivity|].
  unfold chan_ok, napdu in *. cbn [c_script c_apdus c_reads]. rewrite len_cons.
  split; [destruct (c_script c); cbn [tl]; [constructor | inversion H; auto]|]. split; [lia|]. split; [destruct o; reflexivity|].
  destruct (c_script c) as [|x r]; cbn [hd_a]; [right; cbn; eauto|]. inversion H; subst.
  destruct x as [d|e]; cbn [ares_res]; [apply apdu_finish_cases; auto | right; cbn; eauto].
Qed.

(* _read_binary: data of at most max(Le, 0) bytes, or Type4TagCommandError *)
Lemma read_binary_cases c max_le off size : chan_ok c -> 0 <= off <= 65535 -> Z.min max_le size <= 256 ->
  exists c', snd (read_binary_any c max_le off size) = c' /\ chan_ok c' /\ napdu c' = napdu c + 1 /\
    c_reads c' = (off, Z.min max_le size) :: c_reads c /\
    ((exists d, fst (read_binary_any c max_le off size) = Ok d /\ bytes_ok d /\ len d <= Z.max (Z.min max_le size) 0) \/
     exists e, fst (read_binary_any c max_le off size) = Err (TagCommandError e)).
Proof.
  intros H Ho Hm. unfold read_binary_any, lift_c.
  destruct (t4_send_cases c (RdBin off (Z.min max_le size)) H (apdu_rd _ _ Ho Hm)) as (c' & Ec & O & N & R & C).
  destruct (t4_send_any c (RdBin off (Z.min max_le size))) as [r c0]. cbn [fst snd] in *. subst c0. exists c'.
  destruct C as [(d & -> & Hd) | (e & ->)]; cbn [fst snd].
  - destruct (len d >? Z.max (Z.min max_le size) 0) eqn:E; cbn [fst snd]; repeat split; auto; [right; eauto | left].
    exists d. repeat split; auto; lia.
  - repeat split; auto. right; eauto.
Qed.

(* the data loop: no Hang, no Crash, every READ BINARY inside [nlen_size, nlen_size + nlen), one byte or more per command *)
Lemma rd_file_any_cases : forall fuel c i nlen acc, chan_ok c -> info_ok i -> len acc <= nlen -> nlen <= i_cap i ->
  (Z.to_nat (nlen - len acc) <= fuel)%nat -> bytes_ok acc ->
  exists c' rs, snd (rd_file_any fuel c i nlen acc) = c' /\ chan_ok c' /\ napdu c' <= napdu c + (nlen - len acc) /\
    c_reads c' = rs ++ c_reads c /\ Forall (fun r => 0 <= fst r /\ fst r + snd r <= i_nlen i + nlen) rs /\
    (fst (rd_file_any fuel c i nlen acc) = Ok None \/
     (exists d, fst (rd_file_any fuel c i nlen acc) = Ok (Some d) /\ bytes_ok d /\ len d = nlen) \/
     exists e, fst (rd_file_any fuel c i nlen acc) = Err (TagCommandError e)).
Proof.
  induction fuel as [|f IH]; intros c i nlen acc H Hi Ha Hn Hf Hb.
  - cbn [rd_file_any]. replace (len acc <? nlen) with false by lia. exists c, []. cbn [fst snd].
    split; [reflexivity|]. split; [exact H|]. split; [lia|]. split; [reflexivity|]. split; [constructor|].
    right; left. exists acc. repeat split; auto; lia.
  - cbn [rd_file_any]. destruct (len acc <? nlen) eqn:E.
    2: { exists c, []. cbn [fst snd]. split; [reflexivity|]. split; [exact H|]. split; [lia|]. split; [reflexivity|]. split; [constructor|].
         right; left. exists acc. repeat split; auto; lia. }
    destruct Hi as (Hm & Hns & Hc & Hfid). pose proof (len_nonneg acc) as Hp.
    destruct (read_binary_cases c (i_mle i) (i_nlen i + len acc) (nlen - len acc) H ltac:(lia) ltac:(lia))
      as (c1 & Ec & O & N & R & C).
    unfold lift_c. destruct (read_binary_any c (i_mle i) (i_nlen i + len acc) (nlen - len acc)) as [r c0]. cbn [fst snd] in *. subst c0.
    assert (Hr : Forall (fun r => 0 <= fst r /\ fst r + snd r <= i_nlen i + nlen) [(i_nlen i + len acc, Z.min (i_mle i) (nlen - len acc))]).
    { repeat constructor; cbn [fst snd]; lia. }
    destruct C as [(d & -> & Hd & Hl) | (e & ->)].
    + destruct (len d =? 0) eqn:E0.
      * exists c1, [(i_nlen i + len acc, Z.min (i_mle i) (nlen - len acc))]. cbn [fst snd].
        split; [reflexivity|]. split; [exact O|]. split; [lia|]. split; [exact R|]. split; [exact Hr|]. left; reflexivity.
      * pose proof (len_nonneg d).
        destruct (IH c1 i nlen (acc ++ d) O ltac:(unfold info_ok; auto) ltac:(rewrite len_app; lia) Hn ltac:(rewrite len_app; lia))
          as (c' & rs & Ec' & O' & N' & R' & F' & C'); [apply bytes_ok_app; auto|].
        exists c', (rs ++ [(i_nlen i + len acc, Z.min (i_mle i) (nlen - len acc))]).
        split; [exact Ec'|]. split; [exact O'|]. split; [rewrite len_app in N'; lia|].
        split; [rewrite R', R, <- app_assoc; reflexivity|]. split; [apply Forall_app; auto | exact C'].
    + exists c1, [(i_nlen i + len acc, Z.min (i_mle i) (nlen - len acc))]. cbn [fst snd].
      split; [reflexivity|]. split; [exact O|]. split; [lia|]. split; [exact R|]. split; [exact Hr|]. right; right; eauto.
Qed.

Definition t4_sound (f : fresh) (i : ccinfo) (reads : list (Z * Z)) : Prop :=
  match f with
  | NoNdef => True
  | Ndef _ _ cap d => cap = i_cap i /\ len d <= cap /\ bytes_ok d /\
                      Forall (fun r => 0 <= fst r /\ fst r + snd r <= i_nlen i + cap) reads
  end.

Lemma select_fid_cases c p2 fid : chan_ok c -> len fid <= 255 ->
  exists c' b, select_fid_any c p2 fid = (Ok b, c') /\ chan_ok c' /\ napdu c' = napdu c + 1 /\ c_reads c' = c_reads c.
Proof.
  intros H Hf. unfold select_fid_any.
  destruct (t4_send_cases c (SelFid p2 fid) H (apdu_sel_fid p2 fid Hf)) as (c' & Ec & O & N & R & C).
  destruct (t4_send_any c (SelFid p2 fid)) as [r c0]. cbn [fst snd] in *. subst c0.
  destruct C as [(d & -> & _) | (e & ->)]; eexists _, _; repeat split; eauto.
Qed.

(* reading the NDEF file with what was discovered *)
Theorem read_with_any_safe c i : chan_ok c -> info_ok i ->
  exists f c' rs, read_with_any c i = (Ok f, c') /\ chan_ok c' /\ c_reads c' = rs ++ c_reads c /\ t4_sound f i rs /\
    napdu c' <= napdu c + 2 + Z.max 0 (i_cap i).
Proof.
  intros H Hi. unfold read_with_any. pose proof Hi as (Hm & Hns & Hc & Hfid).
  destruct (select_fid_cases c (i_p2 i) (i_fid i) H ltac:(lia)) as (c1 & b & -> & O1 & N1 & R1).
  destruct b; [|exists NoNdef, c1, []; repeat split; auto; lia].
  destruct (read_binary_cases c1 (i_mle i) 0 (i_nlen i) O1 ltac:(lia) ltac:(lia)) as (c2 & Ec & O2 & N2 & R2 & C).
  unfold lift_c at 1. destruct (read_binary_any c1 (i_mle i) 0 (i_nlen i)) as [r c0]. cbn [fst snd] in *. subst c0.
  destruct C as [(nl & -> & Hnl & Hl) | (e & ->)].
  2: { exists NoNdef, c2, [(0, Z.min (i_mle i) (i_nlen i))]. repeat split; auto; [rewrite R2, R1; reflexivity | lia]. }
  destruct (negb (len nl =? i_nlen i)) eqn:El.
  { exists NoNdef, c2, [(0, Z.min (i_mle i) (i_nlen i))]. repeat split; auto; [rewrite R2, R1; reflexivity | lia]. }
  destruct (be nl >? i_cap i) eqn:Ecap.
  { exists NoNdef, c2, [(0, Z.min (i_mle i) (i_nlen i))]. repeat split; auto; [rewrite R2, R1; reflexivity | lia]. }
  pose proof (be_nonneg nl Hnl) as Hbe.
  destruct (rd_file_any_cases (Z.to_nat (be nl)) c2 i (be nl) [] O2 Hi ltac:(cbn; lia) ltac:(lia) ltac:(cbn; lia) ltac:(constructor))
    as (c3 & rs & Ec3 & O3 & N3 & R3 & F3 & C3).
  destruct (rd_file_any (Z.to_nat (be nl)) c2 i (be nl) []) as [r c0]. cbn [fst snd] in *. subst c0.
  change (len (@nil Z)) with 0 in N3.
  assert (RR : c_reads c3 = (rs ++ [(0, Z.min (i_mle i) (i_nlen i))]) ++ c_reads c) by (rewrite R3, R2, R1, <- app_assoc; reflexivity).
  destruct C3 as [-> | [(d & -> & Hd & Hld) | (e & ->)]].
  - exists NoNdef, c3, (rs ++ [(0, Z.min (i_mle i) (i_nlen i))]). repeat split; auto; lia.
  - eexists (Ndef _ _ _ _), c3, (rs ++ [(0, Z.min (i_mle i) (i_nlen i))]). split; [reflexivity|]. split; [exact O3|]. split; [exact RR|].
    split; [|lia]. cbn [t4_sound]. split; [reflexivity|]. split; [lia|]. split; [exact Hd|].
    apply Forall_app. split.
    + eapply Forall_impl; [|exact F3]. cbv beta. intros r0 Hr0. lia.
    + repeat constructor; cbn [fst snd]; lia.
  - exists NoNdef, c3, (rs ++ [(0, Z.min (i_mle i) (i_nlen i))]). repeat split; auto; lia.
Qed.

Lemma select_app_cases c : chan_ok c ->
  exists c' r, select_app_any c = (r, c') /\ chan_ok c' /\ napdu c' <= napdu c + 2 /\ c_reads c' = c_reads c.
Proof.
  intro H. unfold select_app_any.
  destruct (t4_send_cases c (SelAid true) H (apdu_sel_aid true)) as (c1 & Ec & O & N & R & C).
  destruct (t4_send_any c (SelAid true)) as [r c0]. cbn [fst snd] in *. subst c0.
  destruct C as [(d & -> & _) | (e & ->)]; [eexists _, _; repeat split; eauto; lia|].
  destruct (e <=? 0); [eexists _, _; repeat split; eauto; lia|].
  destruct (t4_send_cases c1 (SelAid false) O (apdu_sel_aid false)) as (c2 & Ec2 & O2 & N2 & R2 & C2).
  destruct (t4_send_any c1 (SelAid false)) as [r c0]. cbn [fst snd] in *. subst c0.
  cbn [note_read] in *. destruct C2 as [(d & -> & _) | (e2 & ->)]; eexists _, _; repeat split; eauto; try lia; congruence.
Qed.

(* capability container discovery: information that is usable, or none; never Crash *)
Theorem discover_any_safe c : chan_ok c ->
  exists c' r, discover_any c = (r, c') /\ chan_ok c' /\ napdu c' <= napdu c + 5 /\
    ((exists i, r = Ok (Some i) /\ info_ok i) \/ r = Ok None \/ exists e, r = Err (TagCommandError e)).
Proof.
  intro H. unfold discover_any.
  destruct (select_app_cases c H) as (c1 & r1 & -> & O1 & N1 & _).
  destruct r1 as [p2|]; [|exists c1, (Ok None); repeat split; auto; lia].
  destruct (select_fid_cases c1 p2 cc_fid O1 ltac:(cbn; lia)) as (c2 & b & -> & O2 & N2 & _).
  destruct b; [|exists c2, (Ok None); repeat split; auto; lia].
  destruct (read_binary_cases c2 15 0 2 O2 ltac:(lia) ltac:(lia)) as (c3 & Ec & O3 & N3 & _ & C3).
  unfold lift_c at 1. destruct (read_binary_any c2 15 0 2) as [r c0]. cbn [fst snd] in *. subst c0.
  destruct C3 as [(cclen & -> & Hcl & _) | (e & ->)]; [|exists c3, (Err (TagCommandError e)); repeat split; auto; [lia | right; right; eauto]].
  destruct (negb (len cclen =? 2)); [exists c3, (Ok None); repeat split; auto; lia|].
  destruct (read_binary_cases c3 15 2 (Z.min (be cclen - 2) 15) O3 ltac:(lia) ltac:(lia)) as (c4 & Ec4 & O4 & N4 & _ & C4).
  unfold lift_c. destruct (read_binary_any c3 15 2 (Z.min (be cclen - 2) 15)) as [r c0]. cbn [fst snd] in *. subst c0.
  destruct C4 as [(cap & -> & Hcap & Hlc) | (e & ->)]; [|exists c4, (Err (TagCommandError e)); repeat split; auto; [lia | right; right; eauto]].
  destruct (len cap <? 13); [exists c4, (Ok None); repeat split; auto; lia|].
  replace (len cap >? 15) with false by lia.
  exists c4, (Ok (cc_parse p2 cap)). split; [reflexivity|]. split; [exact O4|]. split; [lia|].
  destruct (cc_parse p2 cap) as [i|] eqn:E; [left; exists i; split; [reflexivity | eapply cc_parse_ok; eauto] | right; left; reflexivity].
Qed.

(* tag.ndef of a Type 4 tag object against ANY card behaviour above the ISO-DEP layer *)
Theorem t4_read_safe c : chan_ok c -> c_reads c = [] ->
  exists f oi c', t4_read_any c = (Ok (f, oi), c') /\ chan_ok c' /\
    match f, oi with
    | NoNdef, _ => True
    | Ndef _ _ cap d, Some i => info_ok i /\ cap = i_cap i /\ len d <= cap /\ bytes_ok d
    | Ndef _ _ _ _, None => False
    end /\
    napdu c' <= napdu c + 7 + Z.max 0 (match oi with Some i => i_cap i | None => 0 end).
Proof.
  intros H Hr. unfold t4_read_any.
  destruct (discover_any_safe c H) as (c1 & r & -> & O1 & N1 & C).
  destruct C as [(i & -> & Hi) | [-> | (e & ->)]]; [| exists NoNdef, None, c1; repeat split; auto; lia ..].
  destruct (read_with_any_safe c1 i O1 Hi) as (f & c2 & rs & -> & O2 & R2 & S2 & N2).
  exists f, (Some i), c2. split; [reflexivity|]. split; [exact O2|]. split; [|lia].
  destruct f as [|r w cap d]; [exact I|]. cbn [t4_sound] in S2. destruct S2 as (-> & Hl & Hd & _). auto.
Qed.

(* the code before the repairs: a card that answers every READ BINARY of the NDEF file with 9000 and no data keeps the
   reader busy for as long as it answers (here: all 4097 reads the fuel allows); NLEN beyond the declared file size
   is reported as it is, length 64 > capacity 14 *)
Definition ex_info (mfs : Z) : ccinfo := mkInfo 59 52 (mfs - 2) true true 2 [225; 4] 12.
Lemma t4_read_legacy_refuted :
  fst (read_with_legacy (mkChan ([AOk [144; 0]; AOk [16; 0; 144; 0]] ++ repeat (AOk [144; 0]) 4200) [] []) (ex_info 256)) = Hang /\
  fst (read_with_any (mkChan ([AOk [144; 0]; AOk [16; 0; 144; 0]] ++ repeat (AOk [144; 0]) 4200) [] []) (ex_info 256)) = Ok NoNdef /\
  (exists d, fst (read_with_legacy (mkChan [AOk [144; 0]; AOk [0; 64; 144; 0]; AOk (repeat 7 59 ++ [144; 0]); AOk (repeat 7 5 ++ [144; 0])] [] [])
                                   (ex_info 16)) = Ok (Ndef true true 14 d) /\ len d = 64) /\
  fst (read_with_any (mkChan [AOk [144; 0]; AOk [0; 64; 144; 0]; AOk (repeat 7 59 ++ [144; 0]); AOk (repeat 7 5 ++ [144; 0])] [] [])
                     (ex_info 16)) = Ok NoNdef.
Proof.
  split; [vm_compute; reflexivity|]. split; [vm_compute; reflexivity|].
  split; [eexists; split; vm_compute; reflexivity | vm_compute; reflexivity].
Qed.
