(* C10 - aggregation is transparent: what the receiver's pdu.decode + llc.dispatch hand to the SAP layer is
   exactly the list of PDUs the sender's collect() put into the frame, in order. *)
From Coq Require Import ZArith List Bool Lia ZifyBool.
From NV Require Import Base.Result Base.Bytes Model.Collect Proofs.Collect.
Import ListNotations.
Open Scope Z_scope.
Ltac Zify.zify_post_hook ::= Z.to_euclidean_division_equations.

(* header fields a PDU object must have for encode() not to raise, plus what the per-class decode checks;
   SYMM and AGF never sit in a send queue of a non-raw socket *)
Definition hdr_ok (p : pdu) : Prop :=
  0 <= da p < 64 /\ 0 <= sa p < 64 /\ 0 < pt p < 16 /\ pt p <> PT_AGF /\
  (if numbered (pt p) then 0 <= ns p < 16 /\ 0 <= nr p < 16 else ns p = 0 /\ nr p = 0) /\
  (pt p = PT_DM -> len (body p) = 1) /\ (pt p = PT_FRMR -> len (body p) = 4) /\
  (pt p = PT_SNL -> da p = 1 /\ sa p = 1) /\ (pt p = PT_PAX \/ pt p = PT_DPS -> da p = 0 /\ sa p = 0).
Definition sock_rng (k : skind) (s : sock) : Prop := 0 <= peer s < 64 /\ 0 <= addr s < 64 /\ 0 <= rack s < 16.
Definition wire_ok (st : list sapobj) : Prop := Forall (obj_inv hdr_ok sock_rng) st.

Lemma hdr_nr s p : sock_rng Dlc s -> pt p = PT_I -> hdr_ok p -> hdr_ok (set_nr p (rack s)).
Proof.
  intros (_ & _ & Hr) Hp H. unfold hdr_ok in *. cbn [set_nr da sa pt ns nr body]. rewrite Hp in *.
  change (numbered PT_I) with true in *. intuition.
Qed.
Lemma hdr_ack k s : sock_rng k s -> hdr_ok (ack s).
Proof.
  intros (Hp & Ha & Hr). unfold hdr_ok, ack. cbn [da sa pt ns nr body].
  destruct (busy s); [change (numbered PT_RNR) with true|change (numbered PT_RR) with true]; ptc;
    repeat split; try lia; intros; lia.
Qed.
Lemma hdr_snl rs qs : hdr_ok (snl_pdu rs qs).
Proof. unfold hdr_ok, snl_pdu. cbn [da sa pt ns nr body]. change (numbered PT_SNL) with false. ptc.
  repeat split; try lia; intros; lia. Qed.
Lemma rng_stable k s s' : peer s' = peer s -> addr s' = addr s -> busy s' = busy s -> smiu s' = smiu s ->
  (rack s' = rack s \/ rack s' = (rack s + confs s) mod 16) -> sock_rng k s -> sock_rng k s'.
Proof. unfold sock_rng. intros -> -> _ _ Hr (A & B & C). repeat split; try lia; destruct Hr as [->| ->]; lia. Qed.

(* encryption replaces the information field of a UI / I PDU only *)
Lemma hdr_enc c p : hdr_ok p -> hdr_ok (maybe_encrypt c p).
Proof.
  intro H. unfold maybe_encrypt. destruct (sec c) as [k|]; [|exact H]. destruct (is_ui_i p) eqn:E; [|exact H].
  unfold hdr_ok in *. cbn [da sa pt ns nr body]. unfold is_ui_i in E.
  destruct H as (A & B & C & D & F & Hdm & Hfr & R). repeat split; try tauto; intro; exfalso; ptc; lia.
Qed.

(* collect keeps wire_ok and emits only hdr_ok PDUs *)
Lemma collect_wire c st st' f : cipher_ok c -> 1 <= send_miu c -> wire_ok st -> collect c st = Ok (st', f) ->
  wire_ok st' /\ Forall hdr_ok (frame_pdus f) /\ frame_info f <= frame_limit c f.
Proof.
  intros Hc HM I H.
  exact (collect_spec hdr_ok hdr_ok sock_rng c hdr_nr hdr_ack hdr_snl rng_stable Hc (fun p Hp => hdr_enc c p Hp)
           (fun p Hp _ => Hp) st st' f HM I H).
Qed.

(* ------------------------------------------------------------------ encoding facts *)
Lemma len_enc_hdr p : len (enc_hdr p) = hsize p.
Proof. unfold enc_hdr, hsize. destruct (numbered (pt p)); reflexivity. Qed.
Lemma len_enc_pdu p : len (enc_pdu p) = plen p.
Proof. unfold enc_pdu, plen. rewrite len_app, len_enc_hdr. reflexivity. Qed.

Lemma hdr_fields d t s : 0 <= d < 64 -> 0 <= s < 64 -> 0 <= t < 16 ->
  (((d * 4 + t / 4) * 256 + ((t mod 4) * 64 + s)) / 64) mod 16 = t /\ (d * 4 + t / 4) / 4 = d /\ ((t mod 4) * 64 + s) mod 64 = s.
Proof. intros. repeat split; lia. Qed.

Lemma decode_leaf_plain t d s b0 b1 b : numbered t = false -> t <> PT_SYMM ->
  (t = PT_PAX \/ t = PT_DPS -> d = 0 /\ s = 0) -> (t = PT_DM -> len b = 1) -> (t = PT_FRMR -> len b = 4) ->
  (t = PT_SNL -> d = 1 /\ s = 1) ->
  decode_leaf t d s (b0 :: b1 :: b) = Ok [mkPdu t d s 0 0 b].
Proof.
  intros Hn H0 Hpax Hdm Hfr Hsnl. unfold decode_leaf. rewrite Hn. change (drop 2 (b0 :: b1 :: b)) with b.
  rewrite !len_cons.
  destruct (t =? PT_SYMM) eqn:E0; [lia|].
  destruct ((t =? PT_PAX) || (t =? PT_DPS)) eqn:E1.
  { destruct Hpax as [-> ->]; [lia|]. reflexivity. }
  destruct (t =? PT_DM) eqn:E2.
  { replace (negb (1 + (1 + len b) =? 3)) with false by lia. reflexivity. }
  destruct (t =? PT_FRMR) eqn:E3.
  { replace (negb (1 + (1 + len b) =? 6)) with false by lia. reflexivity. }
  destruct (t =? PT_SNL) eqn:E4.
  { destruct Hsnl as [-> ->]; [lia|]. reflexivity. }
  reflexivity.
Qed.

Lemma rx_leaf p f : hdr_ok p -> rx_dispatch (S f) (enc_pdu p) = Ok [p].
Proof.
  destruct p as [t d s n r b]. unfold hdr_ok. cbn [da sa pt ns nr body].
  intros (Hd & Hs & Ht & Hagf & Hn & Hdm & Hfr & Hsnl & Hpax).
  unfold enc_pdu, enc_hdr. cbn [pt da sa ns nr body app rx_dispatch].
  destruct (hdr_fields d t s Hd Hs ltac:(lia)) as (E1 & E2 & E3). rewrite E1, E2, E3.
  replace (t =? PT_AGF) with false by lia.
  destruct (numbered t) eqn:En.
  - unfold decode_leaf. rewrite En. cbn [app]. destruct Hn as [Hn1 Hn2].
    replace ((n * 16 + r) / 16) with n by lia. replace ((n * 16 + r) mod 16) with r by lia. reflexivity.
  - cbn [app]. destruct Hn as [-> ->]. apply decode_leaf_plain; auto. ptc. lia.
Qed.

Lemma length_chunks l : (length l <= length (concat (map enc_sub l)))%nat.
Proof. induction l as [|p l IH]; [apply le_n|]. cbn [map concat]. rewrite app_length. unfold enc_sub at 1.
  cbn [app length]. lia. Qed.

Lemma agf_chunks_enc l : forall fuel, (length l <= fuel)%nat -> Forall (fun p => plen p < 65536) l ->
  agf_chunks fuel (concat (map enc_sub l)) = Ok (map enc_pdu l).
Proof.
  induction l as [|p l IH]; intros fuel Hf Hl.
  - destruct fuel; reflexivity.
  - destruct fuel as [|f]; [cbn in Hf; lia|]. inversion Hl as [|? ? Hp Hl']; subst.
    cbn [map concat]. unfold enc_sub at 1. rewrite <- !app_assoc. cbn [app agf_chunks].
    pose proof (plen_ge2 p) as H2.
    replace (plen p / 256 * 256 + plen p mod 256) with (len (enc_pdu p)) by (rewrite len_enc_pdu; lia).
    rewrite len_app.
    replace ((len (enc_pdu p) >? len (enc_pdu p) + len (concat (map enc_sub l))) || (len (enc_pdu p) <? 2)) with false
      by (rewrite len_enc_pdu; pose proof (len_nonneg (concat (map enc_sub l))); lia).
    rewrite drop_len_app, take_len_app, IH; [reflexivity| |assumption]. cbn [length] in Hf. lia.
Qed.

Lemma rx_agf f l : Forall hdr_ok l -> Forall (fun p => plen p < 65536) l ->
  rx_dispatch (S (S f)) ([0; 128] ++ concat (map enc_sub l)) = Ok l.
Proof.
  intros Hh Hl. cbn [app]. remember (S f) as f1. cbn [rx_dispatch].
  change (((0 * 256 + 128) / 64) mod 16) with 2. change (0 / 4) with 0. change (128 mod 64) with 0.
  change (2 =? PT_AGF) with true. change (negb (0 =? 0) || negb (0 =? 0)) with false. cbv iota.
  rewrite agf_chunks_enc; [|apply length_chunks|exact Hl]. cbn [bind].
  clear Hl. induction l as [|p l IH]; [reflexivity|]. inversion Hh as [|? ? Hp Hh']; subst.
  cbn [map]. rewrite rx_leaf by exact Hp. cbn [bind]. rewrite (IH Hh'). reflexivity.
Qed.

Theorem agf_transparent_wire c st st' f : cipher_ok c -> 1 <= send_miu c <= 65000 -> wire_ok st -> collect c st = Ok (st', f) ->
  f <> FNone -> receive (enc_frame f) = Ok (frame_pdus f).
Proof.
  intros Hc HM I H Hf. destruct (collect_wire c st st' f Hc ltac:(lia) I H) as (_ & Hh & Hb).
  destruct f as [|p|l]; [congruence| |]; unfold receive; cbn [enc_frame frame_pdus] in *.
  - inversion Hh; subst. apply rx_leaf. assumption.
  - cbn [app length]. apply (rx_agf _ l Hh). apply Forall_forall. intros p Hp.
    pose proof (agf_info_in p l Hp). unfold frame_limit in Hb. cbn [frame_info] in Hb. lia.
Qed.

(* the information field measured on the abstract frame is the one of the encoded bytes *)
Definition frame_hdr (f : frame) : Z := match f with FNone => 0 | FOne p => hsize p | FAgf _ => 2 end.
Lemma len_concat_sub l : len (concat (map enc_sub l)) = agf_info l.
Proof.
  induction l as [|p l IH]; [reflexivity|]. cbn [map concat]. rewrite len_app, IH, agf_info_cons.
  unfold enc_sub. rewrite len_app, len_enc_pdu. change (len [plen p / 256; plen p mod 256]) with 2. lia.
Qed.
Theorem enc_frame_len f : len (enc_frame f) = frame_hdr f + frame_info f.
Proof.
  destruct f as [|p|l]; cbn [enc_frame frame_hdr frame_info].
  - reflexivity.
  - rewrite len_enc_pdu. reflexivity.
  - rewrite len_app, len_concat_sub. reflexivity.
Qed.
