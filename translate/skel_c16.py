"""Skeleton extractor for C16 (exception flow of the tag classes under src/nfc/tag/).

generate(repo_root) parses nfc/tag/{__init__,tt1,tt1_broadcom,tt2,tt2_nxp,tt3,tt3_sony,tt4}.py with
`ast` and reduces, for every concrete tag class T, every public method / property of T and of its
NDEF class - with everything they reach: helper methods, the memory readers of Type 1/2, the ISO-DEP
initiator of Type 4, module level helpers, nested functions - to statements of coq/Skel/ExnSyntax.v.
One `program` per tag class; method resolution (self.m, self.tag.m, self.ndef.m, super(..).m,
memory-reader subscripts, property reads/writes, `hasattr(self, "_format")`, the instance-level
rebinding `self.read_from_ndef_service = self.read_with_mac` of FeliCa Lite) is done here along the
class hierarchy of that tag class.  A further program covers nfc.tag.activate().

  self.clf.exchange(..)                 -> Prim "clf.exchange@file:line" exch      (exch = parameter of the program:
                                           the CommunicationError classes the frontend may raise)
  self.clf.sense(..)                    -> Prim with EMPTY raise-set (assumption, see below)
  raise C(..) / raise / raise <name>    -> Raise / Reraise
  try / except / else / finally         -> Try / HCons (class pattern incl. subclasses) / Finally
  tests on the handled exception        -> Choice of both branches (sound for escapes)
  assert that mentions a handled exception -> Choice Skip (Raise AssertionError)
  other asserts                         -> Prim "assert@file:line" with EMPTY raise-set (argument precondition, listed)
  triple_des(..) / .encrypt / .decrypt  -> Prim {ValueError}      (pyDes length checks)
  <str>.encode(codec)                   -> Prim {UnicodeError}    (a ValueError subclass)
  ndef.message_decoder / message_encoder-> Prim {NdefError}
  m[..] / m[..] = v on a memory reader  -> Call __getitem__ / __setitem__
  x.p for a property p                  -> Call of the getter (setter for stores)

The helpers for statements and Coq output are imported from skel_c13 (C13's extractor), the
translator itself is specific to the tag classes.  Implicit exceptions of Python operations
(subscripts of plain data, struct.unpack, None subscripts ...) are NOT represented: that part of the
property is carried by the fault-injection runs of harness/prop/c16.py.

FAILS CLOSED: any ast node, called name, receiver or except clause that is not classified raises
SkelError; kernels.py then writes a Gen file that does not compile.
"""
import ast
import hashlib
import os
import sys

sys.path.insert(0, os.path.dirname(os.path.abspath(__file__)))
from skel_c13 import SkelError, SKIP, seq, choice, dotted, coq_stmt, coq_string  # noqa: E402

TAGDIR = 'src/nfc/tag/'
MODULES = ['__init__', 'tt1', 'tt1_broadcom', 'tt2', 'tt2_nxp', 'tt3', 'tt3_sony', 'tt4']

# exception classes: name -> (id, parent)
CLASSES = {
    'TagCommandError': (1, None),
    'Type1TagCommandError': (2, 'TagCommandError'),
    'Type2TagCommandError': (3, 'TagCommandError'),
    'Type3TagCommandError': (4, 'TagCommandError'),
    'Type4TagCommandError': (5, 'TagCommandError'),
    'CommunicationError': (10, None),
    'TimeoutError': (11, 'CommunicationError'),
    'TransmissionError': (12, 'CommunicationError'),
    'ProtocolError': (13, 'CommunicationError'),
    'BrokenLinkError': (14, 'CommunicationError'),
    'OtherCommunicationError': (15, 'CommunicationError'),   # any further subclass
    'ValueError': (20, None),
    'UnicodeError': (21, 'ValueError'),
    'RuntimeError': (22, None),
    'NotImplementedError': (23, 'RuntimeError'),
    'AttributeError': (24, None),
    'TypeError': (25, None),
    'AssertionError': (26, None),
    'KeyError': (27, None),
    'IndexError': (28, None),
    'NdefError': (29, None),
    'StructError': (30, None),
    'UnboundLocalError': (31, None),      # implicit: read of a local that is not assigned on every path (definite assignment)
}
# spellings per module (local name -> class)
SPELL = {
    'TagCommandError': 'TagCommandError', 'nfc.tag.TagCommandError': 'TagCommandError',
    'Type1TagCommandError': 'Type1TagCommandError', 'tt1.Type1TagCommandError': 'Type1TagCommandError',
    'Type2TagCommandError': 'Type2TagCommandError', 'tt2.Type2TagCommandError': 'Type2TagCommandError',
    'Type3TagCommandError': 'Type3TagCommandError', 'tt3.Type3TagCommandError': 'Type3TagCommandError',
    'Type4TagCommandError': 'Type4TagCommandError',
    'nfc.clf.CommunicationError': 'CommunicationError', 'nfc.clf.TimeoutError': 'TimeoutError',
    'nfc.clf.TransmissionError': 'TransmissionError', 'nfc.clf.ProtocolError': 'ProtocolError',
    'ValueError': 'ValueError', 'RuntimeError': 'RuntimeError', 'NotImplementedError': 'NotImplementedError',
    'AttributeError': 'AttributeError', 'TypeError': 'TypeError', 'AssertionError': 'AssertionError',
    'KeyError': 'KeyError', 'IndexError': 'IndexError', 'struct.error': 'StructError',
    'UnicodeError': 'UnicodeError', 'UnicodeDecodeError': 'UnicodeError', 'UnicodeEncodeError': 'UnicodeError',
    'nfc.clf.BrokenLinkError': 'BrokenLinkError',
}
EXCH_NAMED = ['TimeoutError', 'TransmissionError', 'ProtocolError']
EXCH_ANY = EXCH_NAMED + ['BrokenLinkError', 'OtherCommunicationError', 'CommunicationError']

PURE_FUNCS = {'bytearray', 'bytes', 'len', 'int', 'str', 'bool', 'range', 'zip', 'sum', 'min', 'max', 'tuple', 'list',
              'isinstance', 'hexlify', 'pack', 'unpack', 'chr', 'type', 'float', 'sorted', 'dict', 'enumerate',
              'reversed', 'repr', 'set', 'map', 'iter', 'print', 'slice', 'hexdump_pure'}
PURE_DOTTED = {'time.time', 'log.debug', 'log.info', 'log.error', 'log.warning', 'log.exception', 'struct.pack',
               'struct.unpack', 'itertools.count', 'os.urandom', 'bytearray.fromhex', 'bytes.fromhex', 'math.ceil',
               'logging.getLogger'}
PURE_METHODS = {'format', 'startswith', 'endswith', 'append', 'extend', 'get', 'index', 'pop', 'join', 'insert',
                'split', 'strip', 'items', 'keys', 'values', 'upper', 'lower', 'update', 'copy', 'indices', 'decode',
                'pack', 'fromhex', 'hex', 'count'}
MODULE_NAMES = {'nfc', 'time', 'os', 'log', 'logging', 'struct', 'itertools', 'math'}
MEMREADERS = {('tt1', 'Type1TagMemoryReader'), ('tt2', 'Type2TagMemoryReader')}
DEP = ('tt4', 'IsoDepInitiator')
DATA_CLASSES = {('tt3', 'ServiceCode'), ('tt3', 'BlockCode')}
# classes under nfc/tag that are not tag classes (left out, see LEFT_OUT)
NOT_TAGS = {('__init__', 'TagEmulation'), ('tt3', 'Type3TagEmulation')}
ABSTRACT = {('__init__', 'Tag')}
LEFT_OUT = [
    ('nfc.tag.Tag (as a class of its own)', 'abstract base: is_present needs the _is_present of a subclass; all its methods are '
     'covered as inherited methods of every concrete class'),
    ('nfc.tag.tt3.Type3TagEmulation / nfc.tag.TagEmulation / nfc.tag.emulate', 'tag *emulation* (listen mode), not a tag object '
     'of property C16; its command processing is covered by C07'),
    ('dunder methods (__init__ reached through activation only, __str__, __len__, __int__, __repr__, __bytes__)',
     'not operations of a tag object; __init__ of every class is part of the activate() program, '
     'Type1/2TagMemoryReader.__getitem__/__setitem__ and NDEF.__init__ are included as callees'),
    ('nfc.tag.tt3.ServiceCode / BlockCode', 'plain data classes without tag communication (translated as callees only)'),
]
ASSUMPTIONS = [
    'clf.sense() (re-activation of a Type 2 tag after NAK / protect) raises no CommunicationError (it returns None when '
    'the tag is gone); its IOError(ENODEV) without an open device is C18/C13 territory',
    'implicit exceptions of Python operations on plain data (IndexError, TypeError of a None subscript, struct.error, '
    'UnboundLocalError) are not represented; they are what the fault-injection sweep looks for',
    'log.*, str.format, hexlify, struct.pack/unpack, bytearray/bytes/list/dict/set operations, os.urandom, time.time raise nothing',
    'pyDes triple_des()/encrypt()/decrypt() raise at most ValueError; str.encode(codec) at most UnicodeError (a ValueError)',
    'ndef.message_decoder / message_encoder raise at most the ndeflib DecodeError/EncodeError family (class NdefError)',
]


# call sites whose argument is known not to be None (caller function, callee method, parameter): the callee is
# specialised (its `if <parameter> is None:` branch is dropped).  A literal None argument selects the other branch.
NONNULL_ARGS = {
    ('tt4.Type4Tag.transceive', 'exchange', 'command'):
        'Type4Tag.transceive(data) passes its data on: hexlify(data) in the line before raises TypeError for None, '
        'send_apdu always passes a bytearray',
}


# reads the definite-assignment analysis can not prove safe but that are guarded by data the analysis does not follow
# (module, function, local): why the read is safe.  Listed in the generated header; anything not listed becomes an
# implicit `raise UnboundLocalError` in the skeleton.
GUARDED_READS = {
    ('tt3', 'dump_service', 'this_data'):
        'read after the loop only when same_data > 0, which needs two successful reads (both assign this_data)',
    ('tt4', 'exchange', 'response'):
        'the response chaining loop follows the command loop, whose last block (more == False) assigns response or raises',
}


# reads that ARE unsafe and are filed as an open finding (findings/C16.json); kept out of the skeleton so that the
# closure obligation keeps guarding everything else.  Remove the entry once the repair is in the tree.
KNOWN_UNBOUND = {}
# instance attributes a function may write inside a loop that contains clf.exchange (retry state that outlives the
# call has to be part of the model: Model/IsoDep.v carries the block number)
RETRY_STATE_ATTRS = {('tt4', 'exchange'): {'pni'}}


def cid(n):
    return CLASSES[n][0]


def with_subclasses(name):
    out = [name]
    changed = True
    while changed:
        changed = False
        for n, (_i, p) in CLASSES.items():
            if p in out and n not in out:
                out.append(n)
                changed = True
    return out


class Module(object):
    def __init__(self, name, path):
        self.name = name
        self.src = open(path).read()
        self.tree = ast.parse(self.src)
        self.classes = {}     # qualified name ('Type2Tag', 'Type2Tag.NDEF') -> ClassDef
        self.funcs = {}
        self.consts = {}      # module level Name -> value node
        for n in self.tree.body:
            if isinstance(n, ast.ClassDef):
                self.classes[n.name] = n
                for m in n.body:
                    if isinstance(m, ast.ClassDef):
                        self.classes[n.name + '.' + m.name] = m
            elif isinstance(n, ast.FunctionDef):
                self.funcs[n.name] = n
            elif isinstance(n, ast.Assign) and len(n.targets) == 1 and isinstance(n.targets[0], ast.Name):
                self.consts[n.targets[0].id] = n.value


class World(object):
    def __init__(self, repo):
        self.mods = {m: Module(m, os.path.join(repo, TAGDIR, m + '.py')) for m in MODULES}

    def cls(self, key):
        try:
            return self.mods[key[0]].classes[key[1]]
        except KeyError:
            raise SkelError('unknown class %s.%s' % key)

    def resolve_class(self, modname, d):
        """class key for the dotted name d as written in module modname, or None"""
        if d is None:
            return None
        mod = self.mods[modname]
        if d in mod.classes:
            return (modname, d)
        table = {'Tag': ('__init__', 'Tag'), 'nfc.tag.Tag': ('__init__', 'Tag'), 'Tag.NDEF': ('__init__', 'Tag.NDEF'),
                 'nfc.tag.Tag.NDEF': ('__init__', 'Tag.NDEF'), 'nfc.tag.TagEmulation': ('__init__', 'TagEmulation')}
        if d in table:
            return table[d]
        parts = d.split('.')
        for pre in ('nfc.tag.', ''):
            if d.startswith(pre):
                rest = d[len(pre):].split('.')
                if rest[0] in self.mods and len(rest) >= 2:
                    q = '.'.join(rest[1:])
                    if q in self.mods[rest[0]].classes:
                        return (rest[0], q)
        del parts
        return None

    def bases(self, key):
        node = self.cls(key)
        out = []
        for b in node.bases:
            d = dotted(b)
            if d in ('object', 'Exception'):
                continue
            k = self.resolve_class(key[0], d)
            if k is None:
                raise SkelError('class %s.%s: cannot resolve base %s' % (key[0], key[1], d))
            out.append(k)
        if len(out) > 1:
            raise SkelError('class %s.%s: multiple inheritance' % key)
        return out

    def mro(self, key):
        out = []
        while key is not None:
            out.append(key)
            b = self.bases(key)
            key = b[0] if b else None
        return out

    def find(self, key, name, after=None):
        """(defining class key, node) of attribute `name` (FunctionDef list incl. property setter, ClassDef or
        Assign) for an object of class key"""
        chain = self.mro(key)
        if after is not None:
            if after not in chain:
                raise SkelError('super(%s.%s) outside the class chain of %s.%s' % (after + key))
            chain = chain[chain.index(after) + 1:]
        for k in chain:
            hits = [n for n in self.cls(k).body if isinstance(n, (ast.FunctionDef, ast.ClassDef)) and n.name == name]
            if hits:
                return k, hits
            for n in self.cls(k).body:
                if isinstance(n, ast.Assign) and any(isinstance(t, ast.Name) and t.id == name for t in n.targets):
                    return k, [n]
        return None

    def is_exception_class(self, key):
        node = self.cls(key)
        return any(dotted(b) in ('Exception', 'TagCommandError', 'nfc.tag.TagCommandError') for b in node.bases)

    def tag_classes(self):
        out = []
        for m in MODULES:
            for q, node in self.mods[m].classes.items():
                k = (m, q)
                if '.' in q or k in NOT_TAGS or k in MEMREADERS or k == DEP or k in DATA_CLASSES:
                    continue
                if self.is_exception_class(k):
                    continue
                chain = self.mro(k)
                if chain[-1] != ('__init__', 'Tag'):
                    raise SkelError('class %s.%s is not classified (tag class? helper?)' % k)
                if k not in ABSTRACT:
                    out.append(k)
        return out

    def ndef_class(self, T):
        r = self.find(T, 'NDEF')
        if r is None or not isinstance(r[1][0], ast.ClassDef):
            raise SkelError('no NDEF class for %s.%s' % T)
        return (r[0][0], r[0][1] + '.NDEF')


def decorators(fn):
    out = []
    for d in fn.decorator_list:
        out.append(dotted(d) or '?')
    return out


def is_property(fn):
    return 'property' in decorators(fn)


def setter_of(fns):
    for f in fns:
        if any(d.endswith('.setter') for d in decorators(f)):
            return f
    return None


def getter_of(fns):
    for f in fns:
        if is_property(f):
            return f
    return None



# ---------------------------------------------------------------- definite assignment of locals
class DefAssign(object):
    """Which reads of a local variable can meet an unassigned local?  Classic definite-assignment analysis over the
    ast of one function (nested functions are analysed on their own, their free variables are not judged).
    at_least_once=False: a for/while loop may run zero times.  at_least_once=True: every loop body runs at least once.
    A read that is unassigned on some path in BOTH modes is an implicit `raise UnboundLocalError` in the skeleton; a
    read that is only unassigned when a loop runs zero times is recorded as an assumption ("the loop at line L
    iterates at least once"), like asserts on arguments."""

    def __init__(self, fn, at_least_once):
        self.fn, self.once = fn, at_least_once
        self.flags = {}            # id(statement) -> set of names
        self.lines = {}            # (id(statement), name) -> line
        self.loops = []
        params = [a.arg for a in fn.args.posonlyargs + fn.args.args + fn.args.kwonlyargs]
        if fn.args.vararg:
            params.append(fn.args.vararg.arg)
        if fn.args.kwarg:
            params.append(fn.args.kwarg.arg)
        self.locals = set(params)
        declared = set()
        for n in self.walk_scope(fn.body):
            if isinstance(n, ast.Name) and isinstance(n.ctx, (ast.Store, ast.Del)):
                self.locals.add(n.id)
            elif isinstance(n, (ast.FunctionDef, ast.ClassDef)):
                self.locals.add(n.name)
            elif isinstance(n, ast.ExceptHandler) and n.name:
                self.locals.add(n.name)
            elif isinstance(n, (ast.Import, ast.ImportFrom)):
                for a in n.names:
                    self.locals.add((a.asname or a.name).split('.')[0])
            elif isinstance(n, (ast.Global, ast.Nonlocal)):
                declared |= set(n.names)
        self.locals -= declared
        self.block(fn.body, set(params))

    @staticmethod
    def walk_scope(nodes):
        """all nodes of this scope: does not descend into nested functions, lambdas, classes, comprehensions"""
        todo = list(nodes)
        while todo:
            n = todo.pop()
            yield n
            for c in ast.iter_child_nodes(n):
                if isinstance(n, (ast.FunctionDef, ast.Lambda, ast.ClassDef)) and n is not c and not \
                        (isinstance(n, ast.FunctionDef) and c in n.decorator_list):
                    continue
                if isinstance(c, (ast.ListComp, ast.SetComp, ast.DictComp, ast.GeneratorExp)):
                    # only the first iterable is evaluated in this scope
                    todo.append(c.generators[0].iter)
                    continue
                todo.append(c)

    @staticmethod
    def meet(a, b):
        if a is None:
            return b
        if b is None:
            return a
        return a & b

    def reads(self, exprs, st, s):
        if st is None:
            return
        for e in exprs:
            if e is None:
                continue
            for n in self.walk_scope([e]):
                if isinstance(n, ast.Name) and isinstance(n.ctx, ast.Load) and n.id in self.locals and n.id not in st:
                    self.flags.setdefault(id(s), set()).add(n.id)
                    self.lines[(id(s), n.id)] = n.lineno

    def stores(self, targets):
        out = set()
        for t in targets:
            for n in ast.walk(t):
                if isinstance(n, ast.Name) and isinstance(n.ctx, ast.Store):
                    out.add(n.id)
        return out

    def block(self, stmts, st):
        for s in stmts:
            st = self.stmt(s, st)
        return st

    def stmt(self, s, st):
        if st is None:
            return None                 # unreachable
        t = type(s)
        if t is ast.Assign:
            self.reads([s.value] + [x for x in s.targets if not isinstance(x, ast.Name)], st, s)
            return st | self.stores(s.targets)
        if t is ast.AugAssign:
            self.reads([s.value, s.target], st, s)
            if isinstance(s.target, ast.Name) and s.target.id in self.locals and s.target.id not in st:
                self.flags.setdefault(id(s), set()).add(s.target.id)
                self.lines[(id(s), s.target.id)] = s.lineno
            return st | self.stores([s.target])
        if t is ast.AnnAssign:
            self.reads([s.value], st, s)
            return st | self.stores([s.target]) if s.value is not None else st
        if t is ast.Expr:
            self.reads([s.value], st, s)
            return st
        if t is ast.Return:
            self.reads([s.value], st, s)
            return None
        if t is ast.Raise:
            self.reads([s.exc, s.cause], st, s)
            return None
        if t is ast.Assert:
            self.reads([s.test, s.msg], st, s)
            return st
        if t is ast.Delete:
            self.reads([x for x in s.targets if not isinstance(x, ast.Name)], st, s)
            return st - {x.id for x in s.targets if isinstance(x, ast.Name)}
        if t in (ast.Pass, ast.Global, ast.Nonlocal):
            return st
        if t in (ast.Import, ast.ImportFrom):
            return st | {(a.asname or a.name).split('.')[0] for a in s.names}
        if t in (ast.FunctionDef, ast.ClassDef):
            return st | {s.name}
        if t is ast.If:
            self.reads([s.test], st, s)
            return self.meet(self.block(s.body, set(st)), self.block(s.orelse, set(st)))
        if t in (ast.For, ast.While):
            if t is ast.For:
                self.reads([s.iter] + [x for x in [s.target] if not isinstance(x, (ast.Name, ast.Tuple))], st, s)
                st_in = st | self.stores([s.target])
                forever = False
            else:
                self.reads([s.test], st, s)
                st_in = set(st)
                forever = isinstance(s.test, ast.Constant) and bool(s.test.value)
            self.loops.append({'breaks': [], 'conts': []})
            body_out = self.block(s.body, set(st_in))
            lp = self.loops.pop()
            end = body_out
            for c in lp['conts']:
                end = self.meet(end, c)
            if forever:
                exhausted = None
            elif self.once:
                exhausted = end           # None when the body never completes an iteration normally
            else:
                exhausted = self.meet(set(st), end)
            out = self.block(s.orelse, exhausted) if exhausted is not None else None
            for b in lp['breaks']:
                out = self.meet(out, b)
            return out
        if t is ast.Break:
            self.loops[-1]['breaks'].append(set(st))
            return None
        if t is ast.Continue:
            self.loops[-1]['conts'].append(set(st))
            return None
        if t is ast.Try:
            if s.finalbody:
                raise SkelError('%d: try/finally is not supported by the definite-assignment analysis' % s.lineno)
            out = self.block(s.body, set(st))
            out = self.block(s.orelse, out) if out is not None else None
            for h in s.handlers:
                self.reads([h.type], st, s)
                hin = set(st) | ({h.name} if h.name else set())
                hout = self.block(h.body, hin)
                if hout is not None and h.name:
                    hout = hout - {h.name}       # python deletes the name at the end of the handler
                out = self.meet(out, hout)
            return out
        raise SkelError('%d: statement %s not supported by the definite-assignment analysis' % (s.lineno, t.__name__))


def unbound_reads(fn):
    """annotate the statements of fn: s._c16_unbound = names that may be unassigned when s reads them;
    returns the assumptions (reads that are safe as soon as every loop runs at least once)"""
    if getattr(fn, '_c16_da', None) is not None:
        return fn._c16_da
    a, b = DefAssign(fn, False), DefAssign(fn, True)
    stm = {id(n): n for n in ast.walk(fn) if isinstance(n, ast.stmt)}
    notes = []
    for sid, names in a.flags.items():
        real = b.flags.get(sid, set())
        if real:
            stm[sid]._c16_unbound = sorted(real)
        for nm in sorted(names - real):
            notes.append('the loop(s) before line %d of %s() run at least once (local `%s` is assigned in a loop body only)'
                         % (a.lines[(sid, nm)], fn.name, nm))
    fn._c16_da = notes
    return notes


# value kinds of the little type inference
TAG, NDEF, MEM, DEPK, CLF = 'tag', 'ndef', 'mem', 'dep', 'clf'
PARAM_KINDS = {'tag': TAG, 'tag_memory': MEM, 'memory': MEM, 'clf': CLF}
ATTR_KINDS = {'_tag': TAG, '_clf': CLF, '_dep': DEPK, '_tag_memory': MEM}


class Ctx(object):
    def __init__(self, modname, role, selfkey, defkey, qual, node):
        self.modname, self.role, self.selfkey, self.defkey, self.qual, self.node = modname, role, selfkey, defkey, qual, node
        self.handler_names = []
        self.nested = {}
        self.env = {}        # local name -> kind or ('super', after) or ('inst', classkey)
        self.nullness = {}   # parameter -> True (is None) / False (is not None), from the call site


class Translator(object):
    """all functions reachable from the entry points, for objects whose tag class is T"""

    def __init__(self, world, T, prefix=''):
        self.w, self.T, self.prefix = world, T, prefix
        self.funcs = {}
        self.todo = []
        self.asserts = []
        self.spec = {}
        self.used_nonnull = set()
        self.ndefkey = world.ndef_class(T) if T is not None else None
        self.aliases = self.instance_aliases() if T is not None else {}

    # ---- instance level rebinding of methods: self.X = self.Y
    def instance_aliases(self):
        out = {}
        for k in self.w.mro(self.T):
            for fn in self.w.cls(k).body:
                if not isinstance(fn, ast.FunctionDef):
                    continue
                for n in ast.walk(fn):
                    if isinstance(n, ast.Assign) and len(n.targets) == 1:
                        t, v = dotted(n.targets[0]), dotted(n.value)
                        if t and v and t.startswith('self.') and v.startswith('self.') and t.count('.') == 1 \
                                and v.count('.') == 1:
                            r = self.w.find(self.T, v[5:])
                            if r and isinstance(r[1][0], ast.FunctionDef) and not is_property(r[1][0]):
                                out.setdefault(t[5:], set()).add(v[5:])
        return out

    # ---- scheduling
    def key_of(self, defkey, name):
        return '%s%s.%s.%s' % (self.prefix, defkey[0], defkey[1], name)

    def want(self, role, selfkey, defkey, node, suffix='', nullness=None):
        if nullness:
            suffix += '[' + ','.join('%s%sNone' % (p, '=' if v else '!=') for p, v in sorted(nullness.items())) + ']'
        key = self.key_of(defkey, node.name + suffix)
        if key not in self.funcs:
            self.funcs[key] = None
            self.todo.append((key, defkey[0], role, selfkey, defkey, node))
            if nullness:
                self.spec[key] = dict(nullness)
        return key

    def want_function(self, modname, node):
        key = '%s%s.%s' % (self.prefix, modname, node.name)
        if key not in self.funcs:
            self.funcs[key] = None
            self.todo.append((key, modname, None, None, None, node))
        return key

    def drain(self):
        while self.todo:
            key, modname, role, selfkey, defkey, node = self.todo.pop(0)
            ctx = Ctx(modname, role, selfkey, defkey, key, node)
            ctx.nullness = self.spec.get(key, {})
            self.bind_params(ctx, node)
            self.funcs[key] = self.body(ctx, node.body)

    def check_retry_state(self, ctx, node):
        """fail closed: an instance attribute written inside a loop that talks to the tag is state that survives the
        call (a retry counter kept on the object ...); it must be known to the models"""
        ok = RETRY_STATE_ATTRS.get((ctx.modname, node.name), set())
        for lp in ast.walk(node):
            if not isinstance(lp, (ast.For, ast.While)):
                continue
            talks = any(isinstance(c, ast.Call) and isinstance(c.func, ast.Attribute) and c.func.attr == 'exchange'
                        for c in ast.walk(lp))
            if not talks:
                continue
            for n in ast.walk(lp):
                tg = []
                if isinstance(n, ast.Assign):
                    tg = n.targets
                elif isinstance(n, (ast.AugAssign, ast.AnnAssign)):
                    tg = [n.target]
                for t in tg:
                    for x in ast.walk(t):
                        if isinstance(x, ast.Attribute) and isinstance(x.ctx, ast.Store) and dotted(x.value) == 'self' \
                                and x.attr not in ok:
                            raise SkelError('%s:%d: %s() writes self.%s inside a loop that exchanges with the tag: retry state '
                                            'kept on the object is not part of the model' % (ctx.modname, x.lineno, node.name, x.attr))

    def bind_params(self, ctx, node):
        self.check_retry_state(ctx, node)
        for a in node.args.args:
            if a.arg in PARAM_KINDS:
                ctx.env[a.arg] = PARAM_KINDS[a.arg]

    # ---- classes of roles
    def class_of_kind(self, ctx, kind):
        if kind == TAG:
            return self.T
        if kind == NDEF:
            return self.ndefkey
        if kind == DEPK:
            return DEP
        if kind == MEM:
            fam = self.T[0] if self.T else ctx.modname
            return ('tt1', 'Type1TagMemoryReader') if fam.startswith('tt1') else ('tt2', 'Type2TagMemoryReader')
        raise SkelError('internal: kind %r' % (kind,))

    # ---- kinds of expressions
    def kind(self, ctx, e):
        if isinstance(e, ast.Name):
            if e.id == 'self':
                return ctx.role
            return ctx.env.get(e.id)
        if isinstance(e, ast.Attribute):
            base = self.kind(ctx, e.value)
            if base in (TAG, NDEF, MEM, DEPK):
                if e.attr in ATTR_KINDS:
                    return ATTR_KINDS[e.attr]
                if e.attr == 'clf':
                    return CLF
                if e.attr == 'tag' and base == NDEF:
                    return TAG
                if e.attr == 'ndef' and base == TAG:
                    return NDEF
                return None
            return None
        if isinstance(e, ast.Call):
            d = dotted(e.func)
            if d == 'super':
                a = self.w.resolve_class(ctx.modname, dotted(e.args[0])) if len(e.args) == 2 else None
                if a is None or dotted(e.args[1]) != 'self':
                    raise SkelError('%s:%d: unusual super()' % (ctx.modname, e.lineno))
                return ('super', a)
            if d == 'self.NDEF' and ctx.role == TAG:
                return NDEF
            k = self.w.resolve_class(ctx.modname, d) if d else None
            if k in MEMREADERS:
                return MEM
            if k == DEP:
                return DEPK
            return None
        if isinstance(e, ast.BoolOp):
            ks = {self.kind(ctx, v) for v in e.values}
            ks.discard(None)
            if len(ks) == 1:
                return ks.pop()
        return None

    # ---- exception classes
    def exc_class(self, ctx, node):
        d = dotted(node)
        if d in SPELL:
            return SPELL[d]
        k = self.w.resolve_class(ctx.modname, d) if d else None
        if k and k[1] in CLASSES:
            return k[1]
        return None

    # ---- attribute access on role objects
    def attr_load(self, ctx, e):
        """effects of reading e.value.<attr>"""
        base = self.eff(ctx, e.value)
        kind = self.kind(ctx, e.value)
        if isinstance(kind, tuple):
            return base
        if kind in (TAG, NDEF, MEM, DEPK):
            r = self.w.find(self.class_of_kind(ctx, kind), e.attr)
            if r and isinstance(r[1][0], ast.FunctionDef):
                g = getter_of(r[1])
                if g is not None:
                    return seq(base, ('Call', self.want(kind, self.class_of_kind(ctx, kind), r[0], g)))
        return base

    def attr_store(self, ctx, e):
        base = self.eff(ctx, e.value)
        kind = self.kind(ctx, e.value)
        if kind in (TAG, NDEF, MEM, DEPK):
            r = self.w.find(self.class_of_kind(ctx, kind), e.attr)
            if r and isinstance(r[1][0], ast.FunctionDef):
                st = setter_of(r[1])
                if st is not None:
                    return seq(base, ('Call', self.want(kind, self.class_of_kind(ctx, kind), r[0], st, '=')))
                if getter_of(r[1]) is not None:
                    return seq(base, ('Raise', 'AttributeError', 0))
        return base

    # ---- expressions
    def eff(self, ctx, e):
        if e is None:
            return SKIP
        t = type(e)
        where = '%s:%d' % (ctx.modname, getattr(e, 'lineno', 0))
        if t is ast.Name and 'memory' in e.id and ctx.env.get(e.id) != MEM and not e.id.endswith('_size'):
            # fail closed: a memory reader that the kind inference missed would lose its __getitem__/__setitem__ calls
            raise SkelError('%s: name %s looks like a memory reader but has no kind' % (where, e.id))
        if t in (ast.Constant, ast.Name):
            return SKIP
        if t is ast.Attribute:
            return self.attr_load(ctx, e)
        if t is ast.Subscript:
            inner = seq(self.eff(ctx, e.value), self.eff(ctx, e.slice))
            if self.kind(ctx, e.value) == MEM:
                r = self.w.find(self.class_of_kind(ctx, MEM), '__getitem__')
                return seq(inner, ('Call', self.want(MEM, self.class_of_kind(ctx, MEM), r[0], r[1][0])))
            return inner
        if t is ast.Slice:
            return seq(self.eff(ctx, e.lower), self.eff(ctx, e.upper), self.eff(ctx, e.step))
        if t is ast.BinOp:
            return seq(self.eff(ctx, e.left), self.eff(ctx, e.right))
        if t is ast.UnaryOp:
            return self.eff(ctx, e.operand)
        if t is ast.Compare:
            return seq(self.eff(ctx, e.left), *[self.eff(ctx, c) for c in e.comparators])
        if t is ast.BoolOp:
            out = self.eff(ctx, e.values[-1])
            for v in reversed(e.values[:-1]):
                out = seq(self.eff(ctx, v), choice(SKIP, out))
            return out
        if t is ast.IfExp:
            return seq(self.eff(ctx, e.test), choice(self.eff(ctx, e.body), self.eff(ctx, e.orelse)))
        if t in (ast.Tuple, ast.List, ast.Set):
            return seq(*[self.eff(ctx, x) for x in e.elts])
        if t is ast.Dict:
            return seq(*[seq(self.eff(ctx, k), self.eff(ctx, v)) for k, v in zip(e.keys, e.values)])
        if t is ast.Starred:
            return self.eff(ctx, e.value)
        if t is ast.JoinedStr:
            return seq(*[self.eff(ctx, v) for v in e.values])
        if t is ast.FormattedValue:
            return self.eff(ctx, e.value)
        if t in (ast.ListComp, ast.GeneratorExp, ast.SetComp):
            inner = self.eff(ctx, e.elt)
            for g in reversed(e.generators):
                inner = seq(self.eff(ctx, g.iter), ('Loop', seq(*([self.eff(ctx, c) for c in g.ifs] + [inner]))))
            return inner
        if t is ast.Lambda:
            if self.eff(ctx, e.body) != SKIP:
                raise SkelError(where + ': lambda with effects')
            return SKIP
        if t is ast.Call:
            return self.call(ctx, e)
        raise SkelError('%s: expression %s not supported' % (where, t.__name__))

    def args_eff(self, ctx, e):
        return seq(*([self.eff(ctx, a) for a in e.args] + [self.eff(ctx, k.value) for k in e.keywords]))

    @staticmethod
    def none_tested_params(fn):
        out = []
        for st in fn.body:
            if isinstance(st, ast.If) and isinstance(st.test, ast.Compare) and len(st.test.ops) == 1 \
                    and isinstance(st.test.ops[0], ast.Is) and isinstance(st.test.left, ast.Name) \
                    and isinstance(st.test.comparators[0], ast.Constant) and st.test.comparators[0].value is None:
                out.append(st.test.left.id)
        return out

    def call_nullness(self, ctx, fn, call):
        """what the call site knows about parameters that the callee tests with `is None`"""
        if call is None:
            return {}
        params = [a.arg for a in fn.args.args][1:]
        out = {}
        for p in self.none_tested_params(fn):
            if p not in params:
                continue
            i = params.index(p)
            arg = None
            if i < len(call.args):
                arg = call.args[i]
            for kw in call.keywords:
                if kw.arg == p:
                    arg = kw.value
            if arg is None:
                continue                       # default value: not specialised
            if isinstance(arg, ast.Constant) and arg.value is None:
                out[p] = True
            elif isinstance(arg, ast.Constant) or isinstance(arg, (ast.BinOp, ast.JoinedStr)):
                out[p] = False
            else:
                k = (ctx.qual[len(self.prefix):] if self.prefix and ctx.qual.startswith(self.prefix) else ctx.qual, fn.name, p)
                if k in NONNULL_ARGS:
                    self.used_nonnull.add(k)
                    out[p] = False
        return out

    def method_call(self, ctx, kind, name, where, after=None, call=None):
        """Call of method `name` on an object of role `kind`"""
        ckey = self.class_of_kind(ctx, kind)
        names = [name]
        if kind == TAG and after is None and name in self.aliases:
            names += sorted(self.aliases[name])
        out = None
        for nm in names:
            r = self.w.find(ckey, nm, after=after)
            if r is None or not isinstance(r[1][0], ast.FunctionDef):
                raise SkelError('%s: method %s of %s.%s not found' % ((where, nm) + ckey))
            fn = r[1][0]
            if is_property(fn):
                raise SkelError('%s: call of property %s' % (where, nm))
            c = ('Call', self.want(kind, ckey, r[0], fn, nullness=self.call_nullness(ctx, fn, call)))
            out = c if out is None else choice(out, c)
        return out

    def instantiate(self, ctx, k, where):
        """effects of K(...): __init__ along the mro"""
        if k == self.w.resolve_class('__init__', 'Tag.NDEF') or k[1].endswith('.NDEF'):
            kind, ckey = NDEF, k
        elif k in MEMREADERS:
            kind, ckey = MEM, k
        elif k == DEP:
            kind, ckey = DEPK, k
        elif k in DATA_CLASSES:
            kind, ckey = None, k
        else:
            raise SkelError('%s: instantiation of %s.%s outside activate()' % ((where,) + k))
        r = self.w.find(ckey, '__init__')
        if r is None:
            return SKIP
        if kind is None:
            # plain data class: its __init__ must be free of calls
            sub = Ctx(k[0], None, None, k, 'data', r[1][0])
            if self.body(sub, r[1][0].body) != SKIP:
                raise SkelError('%s: data class %s.%s has an __init__ with effects' % ((where,) + k))
            return SKIP
        return ('Call', self.want(kind, ckey, r[0], r[1][0]))

    def call(self, ctx, e):
        f = e.func
        d = dotted(f)
        args = self.args_eff(ctx, e)
        where = '%s:%d' % (ctx.modname, e.lineno)
        # super(Cls, self).m(...)
        if isinstance(f, ast.Attribute) and isinstance(f.value, ast.Call) and dotted(f.value.func) == 'super':
            return seq(args, self.super_call(ctx, f.value, f.attr, where))
        if d is None:
            if isinstance(f, ast.Attribute):
                recv = self.eff(ctx, f.value)
                rd = dotted(f.value.func) if isinstance(f.value, ast.Call) else None
                if rd == 'triple_des' and f.attr in ('encrypt', 'decrypt'):
                    return seq(recv, args, ('Prim', 'pyDes.%s@%s' % (f.attr, where), ['ValueError']))
                if f.attr == 'encode' and e.args:
                    return seq(recv, args, ('Prim', 'str.encode@' + where, ['UnicodeError']))
                if f.attr in PURE_METHODS or f.attr == 'encode':
                    return seq(recv, args)
            if isinstance(f, ast.Subscript) and dotted(f.value) == 'VERSION_MAP':
                return seq(args, self.version_map_call(ctx, where))
            raise SkelError(where + ': call through an expression that is not understood')
        if d in ctx.nested:
            return seq(args, ('Call', ctx.nested[d]))
        if ctx.env.get(d) == 'lambda':
            return args          # the lambda's body was checked to be free of calls where it is defined
        if d in ('hasattr', 'super'):
            return args
        if d == 'triple_des':
            return seq(args, ('Prim', 'pyDes.triple_des@' + where, ['ValueError']))
        if d in ('message_decoder', 'message_encoder'):
            return seq(args, ('Prim', 'ndef.%s@%s' % (d, where), ['NdefError']))
        if d in PURE_DOTTED or d in PURE_FUNCS:
            return args
        parts = d.split('.')
        # exception class instantiation
        if self.exc_class(ctx, f) is not None:
            return args
        if len(parts) >= 2 and parts[-1] == 'from_status' and self.exc_class(ctx, f.value) is not None:
            return args
        recv_kind = self.kind(ctx, f.value) if isinstance(f, ast.Attribute) else None
        if isinstance(recv_kind, tuple) and recv_kind[0] == 'super':
            role = ctx.role
            ckey = ctx.selfkey
            r = self.w.find(ckey, f.attr, after=recv_kind[1])
            if r is None:
                raise SkelError(where + ': super().%s not found' % f.attr)
            return seq(args, ('Call', self.want(role, ckey, r[0], r[1][0])))
        if recv_kind == CLF:
            pre = self.eff(ctx, f.value)
            if f.attr == 'exchange':
                return seq(pre, args, ('Prim', 'clf.exchange@' + where, 'EXCH'))
            if f.attr == 'sense':
                return seq(pre, args, ('Prim', 'clf.sense@' + where, []))
            raise SkelError(where + ': clf.%s not classified' % f.attr)
        if recv_kind in (TAG, NDEF, MEM, DEPK):
            pre = self.eff(ctx, f.value)
            if recv_kind == TAG and f.attr == 'NDEF':
                return seq(pre, args, self.instantiate(ctx, self.ndefkey, where))
            return seq(pre, args, self.method_call(ctx, recv_kind, f.attr, where, call=e))
        # class instantiation / module function
        k = self.w.resolve_class(ctx.modname, d)
        if k is not None:
            return seq(args, self.instantiate(ctx, k, where))
        mod = self.w.mods[ctx.modname]
        if len(parts) == 1 and d in mod.funcs:
            return seq(args, ('Call', self.want_function(ctx.modname, mod.funcs[d])))
        for pre in ('nfc.tag.', ''):
            if d.startswith(pre):
                rest = d[len(pre):].split('.')
                if len(rest) == 2 and rest[0] in self.w.mods and rest[1] in self.w.mods[rest[0]].funcs:
                    return seq(args, ('Call', self.want_function(rest[0], self.w.mods[rest[0]].funcs[rest[1]])))
        # explicit base-class call  nfc.tag.Tag.__str__(self) is a dunder: not reachable from entries
        # methods of plain values
        if parts[0] not in MODULE_NAMES and len(parts) >= 2:
            m = parts[-1]
            if m == 'encode' and e.args:
                return seq(args, ('Prim', 'str.encode@' + where, ['UnicodeError']))
            if m in PURE_METHODS or m == 'encode':
                return args
        raise SkelError(where + ': call %s not classified' % d)

    def super_call(self, ctx, scall, name, where):
        sargs = scall.args
        if len(sargs) != 2 or dotted(sargs[1]) != 'self':
            raise SkelError(where + ': unusual super() call')
        after = self.w.resolve_class(ctx.modname, dotted(sargs[0]))
        if after is None:
            raise SkelError(where + ': super() class not resolved')
        role = ctx.role
        ckey = ctx.selfkey
        r = self.w.find(ckey, name, after=after)
        if r is None:
            if name == '__init__':
                return SKIP
            raise SkelError(where + ': super().%s not found' % name)
        fn = r[1][0]
        if not isinstance(fn, ast.FunctionDef):
            raise SkelError(where + ': super().%s is not a method' % name)
        return ('Call', self.want(role, ckey, r[0], fn))

    def version_map_call(self, ctx, where):
        raise SkelError(where + ': VERSION_MAP call outside activate()')

    # ---- statements
    def mentions(self, node, name):
        return any(isinstance(n, ast.Name) and n.id == name for n in ast.walk(node))

    def infer_env(self, ctx, stmts):
        for s in ast.walk(ast.Module(body=list(stmts), type_ignores=[])):
            if isinstance(s, ast.Assign) and len(s.targets) == 1 and isinstance(s.targets[0], ast.Name):
                k = 'lambda' if isinstance(s.value, ast.Lambda) else self.kind(ctx, s.value)
                if k is not None:
                    nm = s.targets[0].id
                    if nm in ctx.env and ctx.env[nm] != k:
                        raise SkelError('%s: local %s has two kinds' % (ctx.qual, nm))
                    ctx.env[nm] = k

    def body(self, ctx, stmts):
        for _ in range(2):          # kinds may depend on earlier locals
            self.infer_env(ctx, stmts)
        for s in stmts:
            if isinstance(s, ast.FunctionDef):
                q = ctx.qual + '.<locals>.' + s.name
                ctx.nested[s.name] = q
        for s in stmts:
            if isinstance(s, ast.FunctionDef):
                q = ctx.nested[s.name]
                if q not in self.funcs:
                    self.funcs[q] = None
                    sub = Ctx(ctx.modname, ctx.role, ctx.selfkey, ctx.defkey, q, s)
                    sub.nested = dict(ctx.nested)
                    sub.env = dict(ctx.env)
                    self.funcs[q] = self.body(sub, s.body)
        return seq(*[self.stmt(ctx, s) for s in self.live(ctx, stmts)])

    def always_exits(self, ctx, s):
        """statement s never completes normally (decided syntactically): what follows it is dead code"""
        if isinstance(s, (ast.Return, ast.Raise)):
            return True
        if isinstance(s, ast.If):
            sh = self.static_test(ctx, s)
            if sh is True:
                return bool(s.body) and self.always_exits(ctx, s.body[-1])
            if sh is False:
                return bool(s.orelse) and self.always_exits(ctx, s.orelse[-1])
        return False

    def live(self, ctx, stmts):
        out = []
        for x in stmts:
            out.append(x)
            if self.always_exits(ctx, x):
                break
        return out

    def body2(self, ctx, stmts):
        return seq(*[self.stmt(ctx, x) for x in self.live(ctx, stmts)]) if stmts else SKIP

    def target_eff(self, ctx, t):
        if isinstance(t, ast.Attribute):
            return self.attr_store(ctx, t)
        if isinstance(t, ast.Subscript):
            inner = seq(self.eff(ctx, t.value), self.eff(ctx, t.slice))
            if self.kind(ctx, t.value) == MEM:
                r = self.w.find(self.class_of_kind(ctx, MEM), '__setitem__')
                return seq(inner, ('Call', self.want(MEM, self.class_of_kind(ctx, MEM), r[0], r[1][0])))
            return inner
        if isinstance(t, (ast.Tuple, ast.List)):
            return seq(*[self.target_eff(ctx, x) for x in t.elts])
        if isinstance(t, (ast.Name, ast.Starred)):
            return SKIP
        raise SkelError('%s:%d: assignment target not supported' % (ctx.modname, t.lineno))

    def static_hasattr(self, ctx, test):
        """hasattr(self, "<name>") on a tag object: decided along the class hierarchy"""
        if isinstance(test, ast.Call) and dotted(test.func) == 'hasattr' and len(test.args) == 2 \
                and dotted(test.args[0]) == 'self' and isinstance(test.args[1], ast.Constant) and ctx.role == TAG:
            name = test.args[1].value
            if name.startswith('_') and not name.startswith('__'):
                r = self.w.find(self.T, name)
                if r is not None:
                    return True
                # instance attributes such as _product are set in __init__ : not decidable here
                if name in ('_format', '_protect', '_authenticate'):
                    return False
        return None

    def static_test(self, ctx, s):
        """True / False when the test of the if-statement s is decided statically, else None"""
        sh = self.static_hasattr(ctx, s.test)
        if sh is None and isinstance(s.test, ast.Compare) and len(s.test.ops) == 1 and isinstance(s.test.left, ast.Name) \
                and isinstance(s.test.ops[0], (ast.Is, ast.IsNot)) and isinstance(s.test.comparators[0], ast.Constant) \
                and s.test.comparators[0].value is None and s.test.left.id in ctx.nullness \
                and not any(isinstance(n, (ast.Assign, ast.AugAssign)) and any(
                    isinstance(t_, ast.Name) and t_.id == s.test.left.id for t_ in (n.targets if isinstance(n, ast.Assign) else [n.target]))
                    for n in ast.walk(ctx.node) if getattr(n, 'lineno', 10 ** 9) < s.lineno):
            sh = ctx.nullness[s.test.left.id] == isinstance(s.test.ops[0], ast.Is)
        return sh

    def stmt(self, ctx, s):
        if isinstance(ctx.node, ast.FunctionDef):
            for note in unbound_reads(ctx.node):
                note = '%s.py: %s' % (ctx.modname, note)
                if note not in self.asserts:
                    self.asserts.append(note)
        ub = []
        for nm in getattr(s, '_c16_unbound', None) or []:
            k = (ctx.modname, ctx.node.name, nm)
            if k in KNOWN_UNBOUND:
                note = 'NOT SAFE, %s (local `%s` in %s.py %s())' % (KNOWN_UNBOUND[k], nm, ctx.modname, ctx.node.name)
                if note not in self.asserts:
                    self.asserts.append(note)
            elif k in GUARDED_READS:
                note = 'guarded read of local `%s` in %s.py %s(): %s' % (nm, ctx.modname, ctx.node.name, GUARDED_READS[k])
                if note not in self.asserts:
                    self.asserts.append(note)
            else:
                ub.append(nm)
        if ub:
            # a local that is not assigned on every path to this read: CPython raises UnboundLocalError here
            return seq(choice(SKIP, ('Raise', 'UnboundLocalError', 0)), self.stmt1(ctx, s))
        return self.stmt1(ctx, s)

    def stmt1(self, ctx, s):
        t = type(s)
        where = '%s:%d' % (ctx.modname, s.lineno)
        if t is ast.FunctionDef:
            return SKIP
        if t is ast.Expr:
            return self.eff(ctx, s.value)
        if t is ast.Assign:
            return seq(self.eff(ctx, s.value), *[self.target_eff(ctx, x) for x in s.targets])
        if t is ast.AugAssign:
            load = self.eff(ctx, s.target) if not isinstance(s.target, ast.Name) else SKIP
            return seq(load, self.eff(ctx, s.value), self.target_eff(ctx, s.target))
        if t in (ast.Pass, ast.Global, ast.Nonlocal, ast.Import, ast.ImportFrom):
            return SKIP
        if t is ast.Delete:
            for x in s.targets:
                if isinstance(x, ast.Subscript) and self.kind(ctx, x.value) == MEM:
                    raise SkelError(where + ': del on a memory reader')
            return SKIP
        if t is ast.Return:
            return seq(self.eff(ctx, s.value), ('Return',))
        if t in (ast.Break, ast.Continue):
            return ('Break',)
        if t is ast.Assert:
            if any(self.mentions(s.test, nm) for nm in ctx.handler_names):
                return seq(self.eff(ctx, s.test), choice(SKIP, ('Raise', 'AssertionError', 0)))
            self.asserts.append('assert at %s.py:%d holds (argument precondition)' % (ctx.modname, s.lineno))
            return seq(self.eff(ctx, s.test), ('Prim', 'assert@' + where, []))
        if t is ast.If:
            sh = self.static_test(ctx, s)
            if sh is True:
                return self.body2(ctx, s.body)
            if sh is False:
                return self.body2(ctx, s.orelse)
            return seq(self.eff(ctx, s.test), choice(self.body2(ctx, s.body), self.body2(ctx, s.orelse)))
        if t is ast.While:
            loop = ('Loop', seq(self.eff(ctx, s.test), self.body2(ctx, s.body)))
            # the else-clause runs only when the loop was not left by break: Choice keeps both continuations
            return seq(loop, self.eff(ctx, s.test), choice(self.body2(ctx, s.orelse), SKIP))
        if t is ast.For:
            return seq(self.eff(ctx, s.iter), ('Loop', seq(self.target_eff(ctx, s.target), self.body2(ctx, s.body))),
                       choice(self.body2(ctx, s.orelse), SKIP))
        if t is ast.Raise:
            return self.raise_(ctx, s)
        if t is ast.Try:
            return self.try_(ctx, s)
        raise SkelError(where + ': statement %s not supported' % t.__name__)

    def raise_(self, ctx, s):
        where = '%s:%d' % (ctx.modname, s.lineno)
        if s.cause is not None:
            raise SkelError(where + ': raise ... from not supported')
        if s.exc is None:
            if not ctx.handler_names:
                raise SkelError(where + ': bare raise outside a handler')
            return ('Reraise',)
        if isinstance(s.exc, ast.Name) and ctx.handler_names and s.exc.id == ctx.handler_names[-1]:
            return ('Reraise',)
        if isinstance(s.exc, ast.Call):
            f = s.exc.func
            c = self.exc_class(ctx, f)
            if c is None and isinstance(f, ast.Attribute) and f.attr == 'from_status':
                c = self.exc_class(ctx, f.value)
            if c is not None:
                return seq(self.args_eff(ctx, s.exc), ('Raise', c, 0))
        c = self.exc_class(ctx, s.exc)
        if c is not None:
            return ('Raise', c, 0)
        raise SkelError(where + ': raise of something that is not a known exception class')

    def try_(self, ctx, s):
        body = self.body2(ctx, s.body)
        hs = []
        for h in s.handlers:
            if h.type is None:
                pat = sorted(CLASSES)
            else:
                types = h.type.elts if isinstance(h.type, ast.Tuple) else [h.type]
                pat = []
                for ty in types:
                    d = dotted(ty)
                    if d in ('Exception', 'BaseException'):
                        pat += sorted(CLASSES)
                    else:
                        c = self.exc_class(ctx, ty)
                        if c is None:
                            raise SkelError('%s:%d: unknown exception class %s in except clause' % (ctx.modname, h.lineno, d))
                        pat += with_subclasses(c)
            ctx.handler_names.append(h.name or '<anonymous handler>')
            try:
                hb = self.body2(ctx, h.body)
            finally:
                ctx.handler_names.pop()
            hs.append((pat, hb))
        out = ('Try', body, hs) if hs else body
        if s.orelse:
            out = seq(out, self.body2(ctx, s.orelse))
        if s.finalbody:
            out = ('Finally', out, self.body2(ctx, s.finalbody))
        return out

    # ---- entries
    def entries(self):
        """[(entry name, function key)] for every public method / property of T and of its NDEF class"""
        out = []
        for kind, ckey, pre in ((TAG, self.T, ''), (NDEF, self.ndefkey, 'NDEF.')):
            seen = set()
            for k in self.w.mro(ckey):
                for n in self.w.cls(k).body:
                    if not isinstance(n, ast.FunctionDef) or n.name.startswith('_') or n.name in seen:
                        continue
                    seen.add(n.name)
                    r = self.w.find(ckey, n.name)
                    fns = r[1]
                    if 'staticmethod' in decorators(fns[0]) or 'classmethod' in decorators(fns[0]):
                        # static helpers take no self: translated with the tag role for their callees
                        out.append((pre + n.name, self.want(kind, ckey, r[0], fns[0])))
                        continue
                    g, st = getter_of(fns), setter_of(fns)
                    if g is not None:
                        out.append((pre + n.name, self.want(kind, ckey, r[0], g)))
                        if st is not None:
                            out.append((pre + n.name + '=', self.want(kind, ckey, r[0], st, '=')))
                    else:
                        names = [n.name] + (sorted(self.aliases.get(n.name, ())) if kind == TAG else [])
                        if len(names) == 1:
                            out.append((pre + n.name, self.want(kind, ckey, r[0], fns[0])))
                        else:
                            # the attribute may have been rebound on the instance: entry = choice of all
                            key = self.prefix + 'entry.' + n.name
                            st_ = None
                            for nm in names:
                                rr = self.w.find(ckey, nm)
                                c = ('Call', self.want(kind, ckey, rr[0], rr[1][0]))
                                st_ = c if st_ is None else choice(st_, c)
                            self.funcs[key] = st_
                            out.append((pre + n.name, key))
        return out


class ActivateTranslator(Translator):
    """nfc.tag.activate(): the dispatch functions and the constructors of all tag classes"""

    def __init__(self, world):
        Translator.__init__(self, world, None, '')
        self.subs = {}

    def sub(self, T):
        if T not in self.subs:
            tr = Translator(self.w, T, prefix='%s.%s|' % T)
            tr.funcs = self.funcs          # one program
            tr.todo = self.todo
            tr.asserts = self.asserts
            tr.spec = self.spec
            tr.used_nonnull = self.used_nonnull
            self.subs[T] = tr
        return self.subs[T]

    def instantiate(self, ctx, k, where):
        if k in self.w.tag_classes():
            tr = self.sub(k)
            r = self.w.find(k, '__init__')
            key = tr.want(TAG, k, r[0], r[1][0])
            self.todo_tr[key] = tr
            return ('Call', key)
        return Translator.instantiate(self, ctx, k, where)

    def version_map_call(self, ctx, where):
        vm = self.w.mods[ctx.modname].consts.get('VERSION_MAP')
        if not isinstance(vm, ast.Dict):
            raise SkelError(where + ': VERSION_MAP not found')
        out = None
        for v in vm.values:
            k = self.w.resolve_class(ctx.modname, dotted(v))
            if k is None:
                raise SkelError(where + ': VERSION_MAP value not a class')
            c = self.instantiate(ctx, k, where)
            out = c if out is None else choice(out, c)
        return out

    def run(self):
        self.todo_tr = {}
        fn = self.w.mods['__init__'].funcs['activate']
        self.entry = self.want_function('__init__', fn)
        while self.todo:
            key, modname, role, selfkey, defkey, node = self.todo.pop(0)
            tr = self.todo_tr.get(key, None)
            if tr is None:
                # functions scheduled by a sub-translator carry its prefix
                tr = self
                for T, s in self.subs.items():
                    if key.startswith(s.prefix):
                        tr = s
            ctx = Ctx(modname, role, selfkey, defkey, key, node)
            ctx.nullness = self.spec.get(key, {})
            ctx.env.update({'clf': CLF})
            tr.bind_params(ctx, node)
            self.funcs[key] = tr.body(ctx, node.body)
        return self.funcs


# ---------------------------------------------------------------- Coq output
def coq_stmt16(s, ind=0):
    """coq_stmt of skel_c13 with the exchange raise-set as a variable"""
    k = s[0]
    if k == 'Prim' and s[2] == 'EXCH':
        return '(Prim %s exch)' % coq_string(s[1])
    if k in ('Seq', 'Choice'):
        return '(%s %s\n%s%s)' % (k, coq_stmt16(s[1], ind + 1), ' ' * (ind + 1), coq_stmt16(s[2], ind + 1))
    if k == 'Loop':
        return '(Loop %s)' % coq_stmt16(s[1], ind + 1)
    if k == 'Try':
        hs = 'HNil'
        for pat, hb in reversed(s[2]):
            hs = '(HCons [%s] %s\n%s%s)' % ('; '.join('C_' + c for c in pat), coq_stmt16(hb, ind + 2), ' ' * (ind + 1), hs)
        return '(Try %s\n%s%s)' % (coq_stmt16(s[1], ind + 1), ' ' * (ind + 1), hs)
    if k == 'Finally':
        return '(Finally %s\n%s%s)' % (coq_stmt16(s[1], ind + 1), ' ' * (ind + 1), coq_stmt16(s[2], ind + 1))
    if k == 'Raise':
        return '(Raise C_%s (Some 0))' % s[1]
    return coq_stmt(s, ind)


def coq_ident(T):
    return 'prog_%s_%s' % (T[0].strip('_') or 'tag', T[1])


def extract(repo):
    world = World(repo)
    out = {}
    asserts = []
    for T in world.tag_classes():
        tr = Translator(world, T)
        ents = tr.entries()
        tr.drain()
        out[T] = (tr.funcs, ents)
        for a in tr.asserts + ['call-site fact %s -> %s(%s is not None): %s' % (k + (NONNULL_ARGS[k],))
                               for k in sorted(tr.used_nonnull)]:
            if a not in asserts:
                asserts.append(a)
    act = ActivateTranslator(world)
    afuncs = act.run()
    for a in act.asserts:
        if a not in asserts:
            asserts.append(a)
    digests = {m: hashlib.sha1(world.mods[m].src.encode()).hexdigest()[:12] for m in MODULES}
    return world, out, (afuncs, act.entry), asserts, digests


def generate(repo):
    world, progs, (afuncs, aentry), asserts, digests = extract(repo)
    o = ['(* GENERATED by translate/skel_c16.py from %s{%s}.py - do not edit.' % (TAGDIR, ','.join(MODULES)),
         '   source digests: ' + ' '.join('%s=%s' % kv for kv in sorted(digests.items())),
         '   ASSUMPTIONS (explicit, see the module docstring of the extractor):']
    o += ['     - ' + a for a in ASSUMPTIONS + asserts]
    o += ['   LEFT OUT:'] + ['     - %s: %s' % lo for lo in LEFT_OUT]
    o += ['*)', 'From Coq Require Import ZArith List String.', 'From NV Require Import Skel.ExnSyntax.',
          'Import ListNotations.', 'Open Scope Z_scope.', 'Open Scope string_scope.', '']
    for n, (i, _p) in sorted(CLASSES.items(), key=lambda kv: kv[1][0]):
        o.append('Definition C_%s : cls := %d.' % (n, i))
    o.append('Definition class_names : list (cls * string) :=\n  [%s].' % '; '.join(
        '(C_%s, %s)' % (n, coq_string(n)) for n, _ in sorted(CLASSES.items(), key=lambda kv: kv[1][0])))
    o.append('Definition exch_named : list cls := [%s].' % '; '.join('C_' + c for c in EXCH_NAMED))
    o.append('Definition exch_any : list cls := [%s].' % '; '.join('C_' + c for c in EXCH_ANY))
    o.append('')
    names = []
    for T, (funcs, ents) in progs.items():
        ident = coq_ident(T)
        items = ['  (%s,\n   %s)' % (coq_string(q), coq_stmt16(funcs[q], 3)) for q in funcs]
        o.append('Definition %s (exch : list cls) : program := [\n%s\n].\n' % (ident, ';\n'.join(items)))
        o.append('Definition entries_%s : list (string * string) :=\n  [%s].\n' % (
            ident[5:], ';\n   '.join('(%s, %s)' % (coq_string(a), coq_string(b)) for a, b in ents)))
        names.append((T, ident))
    items = ['  (%s,\n   %s)' % (coq_string(q), coq_stmt16(afuncs[q], 3)) for q in afuncs]
    o.append('Definition prog_activate (exch : list cls) : program := [\n%s\n].\n' % ';\n'.join(items))
    o.append('Definition entry_activate : string := %s.\n' % coq_string(aentry))
    o.append('(* (module.class, family, program, entries) *)')
    o.append('Definition tag_programs : list (string * string * (list cls -> program) * list (string * string)) :=\n  [%s].' %
             ';\n   '.join('(%s, %s, %s, entries_%s)' % (coq_string('%s.%s' % T), coq_string(T[0][:3]), ident, ident[5:])
                           for T, ident in names))
    return '\n'.join(o) + '\n'


generate.SOURCE = TAGDIR + '{' + ','.join(MODULES) + '}.py'

if __name__ == '__main__':
    sys.stdout.write(generate(sys.argv[1] if len(sys.argv) > 1 else '/repo'))
