"""C01-C03 (Type 3 / Type 4 tags, Type 3 emulation) kernels regenerated from src/nfc/tag/tt3.py and tt4.py
on every run -> coq/Gen/BlkK.v

The NDEF methods of Type3Tag / Type4Tag and Type3TagEmulation.read/write_without_encryption talk to the tag,
keep dictionaries and mutate bytearrays; as whole functions they are outside the py2coq subset.  What the
C01-C03 theorems depend on are the *expressions, tests and packing statements* inside them: attribute block
field extraction / checksum / packing, block counts and batch bounds, capacity expressions, CC field
extraction and clamps, offset packing, chunk sizes, the single-command decision, NLEN packing, the emulation's
block list decoding, limits and status flags.  This generator cuts exactly those out of the syntax trees,
checks that the methods still have the expected shape (fail closed: anything else raises and leaves a Gen
file that cannot compile), replaces non-arithmetic leaves (`attributes['ln']`, `self._max_le`, ...) by
parameters and hands the resulting pure function to py2coq.  coq/Bridge/Blk.v proves that every kernel is the
expression Model/T3T.v / Model/T4T.v compute with.

Readings that are made here (and therefore trusted like the translator itself):
  * struct.unpack(FMT, e) with a literal big-endian FMT of B/H/I/Ns/9p fields is the field-wise big-endian
    reading of e (total: Python raises struct.error unless len(e) is exactly the size of FMT);
  * bytearray(n) for an int n and n * b"\\0" are n zero bytes;  x[i] = e  /  x[a:b] = e  on a bytearray with
    constant indices are  x = x[:i] + bytearray([e]) + x[i+1:]  /  x = x[:a] + e + x[b:];
  * `e in ((a, b), ..)` / `e not in (a, ..)` over int constants are the corresponding (in)equalities;
    bool(e) is the truth of e;  int(math.floor(len(x)/16))  is  len(x) // 16;
  * range(a, b, step) loops are only checked for their shape (bounds and step expressions are kernels).
"""
import ast
import copy
import os
import sys
import textwrap

sys.path.insert(0, os.path.dirname(os.path.abspath(__file__)))
import py2coq  # noqa: E402

I, B, BO = 'int', 'bytes', 'bool'
Unsupported = py2coq.Unsupported

HELPERS = """(* helpers of this generated file (readings listed in translate/kspec_tags_blk.py) *)
Definition py_zeros (n : Z) : list Z := repeat 0 (Z.to_nat n).

"""


# ------------------------------------------------------------------------------ struct formats
def parse_fmt(fmt):
    """big-endian format -> [(kind, size, count)] with kind in B H I s p x"""
    if not fmt or fmt[0] not in '>!':
        raise Unsupported('struct format without big-endian prefix: %r' % fmt)
    out, i = [], 1
    while i < len(fmt):
        j = i
        while j < len(fmt) and fmt[j].isdigit():
            j += 1
        n = int(fmt[i:j]) if j > i else 1
        if j >= len(fmt) or fmt[j] not in 'BHIspx':
            raise Unsupported('struct format character in %r' % fmt)
        c = fmt[j]
        if c in 'sp':
            out.append((c, n))
        elif c == 'x':
            out += [('x', 1)] * n
        else:
            out += [(c, {'B': 1, 'H': 2, 'I': 4}[c])] * n
        i = j + 1
    return out


class Fn2(py2coq.Fn):
    """py2coq.Fn plus the readings listed in the module docstring"""

    def expr(self, e, env):
        # unpack(FMT, x)[k]
        if isinstance(e, ast.Subscript) and isinstance(e.value, ast.Call) and ast.unparse(e.value.func) in ('unpack', 'struct.unpack') \
                and isinstance(e.slice, ast.Constant) and isinstance(e.slice.value, int):
            c = e.value
            if c.keywords or len(c.args) != 2 or not isinstance(c.args[0], ast.Constant) or not isinstance(c.args[0].value, str):
                raise Unsupported('unpack form')
            fields = parse_fmt(c.args[0].value)
            a, ta = self.expr(c.args[1], env)
            if ta != B:
                raise Unsupported('unpack of non-bytes')
            vals = [f for f in fields if f[0] != 'x']
            k = e.slice.value
            if not 0 <= k < len(vals):
                raise Unsupported('unpack field index')
            off, seen = 0, -1
            for kind, size in fields:
                if kind != 'x':
                    seen += 1
                    if seen == k:
                        break
                off += size
            if kind == 'B':
                return '(pyidx %s %d)' % (a, off), I
            if kind in 'HI':
                t = '(pyidx %s %d)' % (a, off)
                for d in range(1, size):
                    t = '(Z.add (Z.mul %s 256) (pyidx %s %d))' % (t, a, off + d)
                return t, I
            if kind == 's':
                return '(pyslice %s %d %d)' % (a, off, off + size), B
            if kind == 'p':
                return '(pyslice %s %d (Z.add %d (Z.min (pyidx %s %d) %d)))' % (a, off + 1, off + 1, a, off, size - 1), B
        if isinstance(e, ast.Call) and isinstance(e.func, ast.Name) and e.func.id == 'bytearray' and len(e.args) == 1 \
                and not e.keywords and not isinstance(e.args[0], ast.List):
            a, ta = self.expr(e.args[0], env)
            if ta == I:
                return '(py_zeros %s)' % a, B
            if ta == B:
                return a, B
            raise Unsupported('bytearray of %s' % ta)
        if isinstance(e, ast.BinOp) and isinstance(e.op, ast.Mult) and isinstance(e.right, ast.Constant) and e.right.value == b'\0':
            a, ta = self.expr(e.left, env)
            if ta != I:
                raise Unsupported('repetition count')
            return '(py_zeros %s)' % a, B
        if isinstance(e, ast.Compare) and len(e.ops) == 1 and isinstance(e.ops[0], (ast.In, ast.NotIn)) \
                and isinstance(e.comparators[0], ast.Tuple):
            alts = []
            for alt in e.comparators[0].elts:
                if isinstance(e.left, ast.Tuple):
                    if not (isinstance(alt, ast.Tuple) and len(alt.elts) == len(e.left.elts)):
                        raise Unsupported('membership alternatives')
                    conj = [self.expr(ast.Compare(left=l, ops=[ast.Eq()], comparators=[r]), env)[0] for l, r in zip(e.left.elts, alt.elts)]
                    alts.append('(' + ' && '.join(conj) + ')')
                else:
                    alts.append(self.expr(ast.Compare(left=e.left, ops=[ast.Eq()], comparators=[alt]), env)[0])
            t = '(' + ' || '.join(alts) + ')'
            return (t if isinstance(e.ops[0], ast.In) else '(negb %s)' % t), BO
        if isinstance(e, ast.Call) and isinstance(e.func, ast.Name) and e.func.id == 'bool' and len(e.args) == 1 and not e.keywords:
            a, ta = self.expr(e.args[0], env)
            return self.truth(a, ta), BO
        if isinstance(e, ast.Call) and ast.unparse(e.func) == 'int' and len(e.args) == 1 and isinstance(e.args[0], ast.Call) \
                and ast.unparse(e.args[0].func) == 'math.floor' and len(e.args[0].args) == 1:
            q = e.args[0].args[0]
            if isinstance(q, ast.BinOp) and isinstance(q.op, ast.Div) and isinstance(q.right, ast.Constant) and q.right.value == 16 \
                    and isinstance(q.left, ast.Call) and ast.unparse(q.left.func) == 'len':
                a, ta = self.expr(q.left, env)
                return '(Z.div %s 16)' % a, I
            raise Unsupported('int(math.floor(..)) of unexpected shape')
        return super().expr(e, env)


class Subst(ast.NodeTransformer):
    def __init__(self, table):
        self.table = table

    def visit(self, node):
        if isinstance(node, ast.expr):
            src = ast.unparse(node)
            if src in self.table:
                return ast.Name(id=self.table[src], ctx=ast.Load())
        return self.generic_visit(node)


def sub(node, table):
    """copy of an ast node (expression or statement) with the leaves of table replaced by names"""
    return Subst(table).visit(copy.deepcopy(node))


def fun(coqname, params, stmts):
    """python statements (ast nodes or source text) as function body -> Coq definition"""
    body = []
    for s in stmts:
        body.append(s if isinstance(s, str) else ast.unparse(s))
    src = 'def k(%s):\n%s\n' % (', '.join(p for p, _ in params), textwrap.indent('\n'.join(body), '    '))
    node = ast.parse(src).body[0]
    return Fn2(node, dict(params), coqname=coqname).translate()


def ret(coqname, params, expr_node, table=None):
    e = sub(expr_node, table or {})
    return fun(coqname, params, ['return ' + ast.unparse(e)])


def nodes(fn, cls, pred=lambda n: True):
    return sorted([n for n in ast.walk(fn) if isinstance(n, cls) and pred(n)], key=lambda n: (n.lineno, n.col_offset))


def expect(what, got, n):
    if len(got) != n:
        raise Unsupported('%s: expected %d occurrence(s), found %d' % (what, n, len(got)))
    return got


def one(what, got):
    return expect(what, got, 1)[0]


def assigns(fn, target):
    """assignments (in source order) whose single target unparses to `target`"""
    return nodes(fn, ast.Assign, lambda n: len(n.targets) == 1 and ast.unparse(n.targets[0]) == target)


def tuple_assign(fn, names):
    return one('assignment to ' + ', '.join(names), nodes(
        fn, ast.Assign, lambda n: len(n.targets) == 1 and isinstance(n.targets[0], ast.Tuple) and
        [ast.unparse(t) for t in n.targets[0].elts] == names))


def unpack_field(call, k):
    return ast.Subscript(value=call, slice=ast.Constant(k), ctx=ast.Load())


def is_unpack(e, fmt=None):
    return (isinstance(e, ast.Call) and ast.unparse(e.func) in ('unpack', 'struct.unpack') and len(e.args) == 2 and
            isinstance(e.args[0], ast.Constant) and (fmt is None or e.args[0].value == fmt))


def ifs_with(fn, text):
    return nodes(fn, ast.If, lambda n: ast.unparse(n.test) == text)


def returns_none(stmts):
    return any(isinstance(s, ast.Return) and (s.value is None or ast.unparse(s.value) in ('None', 'False')) for s in stmts)


def strip_logs(stmts):
    return [s for s in stmts if not (isinstance(s, ast.Expr) and isinstance(s.value, ast.Call) and ast.unparse(s.value.func).startswith('log.'))
            and not (isinstance(s, ast.Expr) and isinstance(s.value, ast.Constant))]


def for_range3(fn, var, lo, hi, step):
    """the single `for var in range(lo, hi, step)` loop of fn"""
    loops = nodes(fn, ast.For, lambda n: isinstance(n.target, ast.Name) and n.target.id == var)
    lp = one('for %s loop' % var, loops)
    if ast.unparse(lp.iter) != 'range(%s, %s, %s)' % (lo, hi, step):
        raise Unsupported('loop over %s instead of range(%s, %s, %s)' % (ast.unparse(lp.iter), lo, hi, step))
    return lp


# ------------------------------------------------------------------------------ tt3.py Type3Tag.NDEF
ATTR = ['ver', 'nbr', 'nbw', 'nmaxb', 'writef', 'rwflag', 'ln']
ATTR_T = {"attributes['%s']" % k: k for k in ATTR}


def subscript_assign_to_functional(stmts, var):
    """x[i] = e -> x = x[:i] + bytearray([e]) + x[i+1:];  x[a:b] = e -> x = x[:a] + e + x[b:]  (constant indices)"""
    out = []
    for s in stmts:
        if isinstance(s, ast.Assign) and len(s.targets) == 1 and isinstance(s.targets[0], ast.Subscript) and \
                ast.unparse(s.targets[0].value) == var:
            sl = s.targets[0].slice
            v = ast.unparse(s.value)
            if isinstance(sl, ast.Constant) and isinstance(sl.value, int) and sl.value >= 0:
                i = sl.value
                out.append('%s = %s[:%d] + bytearray([%s]) + %s[%d:]' % (var, var, i, v, var, i + 1))
            elif isinstance(sl, ast.Slice) and sl.step is None and isinstance(sl.lower, ast.Constant) and isinstance(sl.upper, ast.Constant) \
                    and isinstance(sl.lower.value, int) and isinstance(sl.upper.value, int) and 0 <= sl.lower.value <= sl.upper.value:
                out.append('%s = %s[:%d] + %s + %s[%d:]' % (var, var, sl.lower.value, v, var, sl.upper.value))
            else:
                raise Unsupported('subscript assignment with non-constant index: ' + ast.unparse(s))
        else:
            out.append(ast.unparse(s))
    return out


def gen_tt3_ndef(tree, out):
    P7 = [(k, I) for k in ATTR]

    # ---- _read_attribute_data
    f = py2coq.find_function(tree, 'Type3Tag.NDEF._read_attribute_data')
    src = one('_read_attribute_data: data = ...read_from_ndef_service(0)', assigns(f, 'data'))
    if ast.unparse(src.value) != 'self._tag.read_from_ndef_service(0)':
        raise Unsupported('_read_attribute_data reads ' + ast.unparse(src.value))
    ck = one('_read_attribute_data: checksum test', nodes(f, ast.If, lambda n: 'sum(' in ast.unparse(n.test)))
    if not returns_none(ck.body) or ck.orelse:
        raise Unsupported('_read_attribute_data: checksum failure does not return None')
    out.append(ret('gen_t3_attr_cksum_bad', [('data', B)], ck.test))
    a1 = tuple_assign(f, ['ver', 'nbr', 'nbw', 'nmaxb'])
    a2 = tuple_assign(f, ['writef', 'rwflag'])
    a3 = one('_read_attribute_data: length', assigns(f, 'length'))
    if not (is_unpack(a1.value) and is_unpack(a2.value)):
        raise Unsupported('_read_attribute_data: field extraction is not unpack')
    for k, nm in enumerate(['ver', 'nbr', 'nbw', 'nmaxb']):
        out.append(ret('gen_t3_attr_' + nm, [('data', B)], unpack_field(a1.value, k)))
    for k, nm in enumerate(['writef', 'rwflag']):
        out.append(ret('gen_t3_attr_' + nm, [('data', B)], unpack_field(a2.value, k)))
    out.append(ret('gen_t3_attr_ln', [('data', B)], a3.value))
    d = one('_read_attribute_data: attributes dict', assigns(f, 'attributes'))
    want = "{'ver': ver, 'nbr': nbr, 'nbw': nbw, 'nmaxb': nmaxb, 'writef': writef, 'rwflag': rwflag, 'ln': length}"
    if ast.unparse(d.value) != want:
        raise Unsupported('_read_attribute_data: attributes dictionary changed: ' + ast.unparse(d.value))
    if not (isinstance(f.body[-1], ast.Return) and ast.unparse(f.body[-1].value) == 'attributes'):
        raise Unsupported('_read_attribute_data does not return attributes')
    out.append(ret('gen_t3_capacity', [('nmaxb', I)], one('self._capacity', assigns(f, 'self._capacity')).value))
    out.append(ret('gen_t3_writeable', [('rwflag', I), ('nbw', I)], one('self._writeable', assigns(f, 'self._writeable')).value))
    out.append(ret('gen_t3_readable', [('writef', I), ('nbr', I)], one('self._readable', assigns(f, 'self._readable')).value))

    # ---- _write_attribute_data
    f = py2coq.find_function(tree, 'Type3Tag.NDEF._write_attribute_data')
    body = strip_logs(f.body)
    if not (isinstance(body[0], ast.Assign) and ast.unparse(body[0]) == 'attribute_data = bytearray(16)'):
        raise Unsupported('_write_attribute_data does not start from bytearray(16)')
    last = body[-1]
    if not (isinstance(last, ast.Expr) and ast.unparse(last.value) == 'self._tag.write_to_ndef_service(attribute_data, 0)'):
        raise Unsupported('_write_attribute_data does not end by writing attribute_data to block 0')
    mid = [sub(s, ATTR_T) for s in body[1:-1]]
    out.append(fun('gen_t3_attr_pack', P7, ['attribute_data = bytearray(16)'] +
                   subscript_assign_to_functional(mid, 'attribute_data') + ['return attribute_data']))

    # ---- _read_ndef_data
    f = py2coq.find_function(tree, 'Type3Tag.NDEF._read_ndef_data')
    guards = nodes(f, ast.If, lambda n: "attributes['" in ast.unparse(n.test))
    expect('_read_ndef_data: guards on the attributes', guards, 3)
    for g in guards:
        if not returns_none(g.body) or g.orelse:
            raise Unsupported('_read_ndef_data: guard does not return None: ' + ast.unparse(g.test))
    out.append(ret('gen_t3_rd_ver_bad', [('ver', I)], guards[0].test, ATTR_T))
    out.append(ret('gen_t3_rd_nbr_zero', [('nbr', I)], guards[1].test, ATTR_T))
    out.append(ret('gen_t3_rd_ln_over', [('ln', I), ('nmaxb', I)], guards[2].test, ATTR_T))
    out.append(ret('gen_t3_rd_last_block', [('ln', I)], one('_read_ndef_data: last_block_number', assigns(f, 'last_block_number')).value, ATTR_T))
    out.append(ret('gen_t3_rd_nbr', [('nbr', I)], one('_read_ndef_data: nbr', assigns(f, 'nbr')).value, ATTR_T))
    lp = for_range3(f, 'i', '1', 'last_block_number', 'nbr')
    out.append(ret('gen_t3_rd_batch_end', [('i', I), ('nbr', I), ('last_block_number', I)],
                   one('_read_ndef_data: last_block', assigns(lp, 'last_block')).value))
    bl = one('_read_ndef_data: block_list', assigns(lp, 'block_list'))
    if ast.unparse(bl.value) != 'range(i, last_block)':
        raise Unsupported('_read_ndef_data: block list is ' + ast.unparse(bl.value))
    rd = nodes(lp, ast.AugAssign, lambda n: ast.unparse(n.target) == 'data')
    if len(rd) != 1 or not isinstance(rd[0].op, ast.Add):
        raise Unsupported('_read_ndef_data: the batch is not appended to data')
    if ast.unparse(rd[0].value) != 'self.tag.read_from_ndef_service(*block_list)':
        # since fix 72d9c42: block_data = self.tag.read_from_ndef_service(*block_list); a None result (MAC verification
        # failed on an authenticated FeliCa Lite) returns None; otherwise data += block_data
        bd = assigns(lp, 'block_data')
        nn = nodes(lp, ast.If, lambda n: ast.unparse(n.test) == 'block_data is None')
        if ast.unparse(rd[0].value) != 'block_data' or len(bd) != 1 \
                or ast.unparse(bd[0].value) != 'self.tag.read_from_ndef_service(*block_list)' \
                or len(nn) != 1 or nn[0].orelse or not returns_none(nn[0].body) \
                or not (bd[0].lineno < nn[0].lineno < rd[0].lineno):
            raise Unsupported('_read_ndef_data: the batch is not appended to data')
    trims = [a for a in assigns(f, 'data') if isinstance(a.value, ast.Subscript)]
    out.append(ret('gen_t3_rd_trim', [('data', B), ('ln', I)], one('_read_ndef_data: data = data[0:ln]', trims).value, ATTR_T))

    # ---- _write_ndef_data
    f = py2coq.find_function(tree, 'Type3Tag.NDEF._write_ndef_data')
    wf = assigns(f, "attributes['writef']")
    expect("_write_ndef_data: assignments to attributes['writef']", wf, 2)
    for nm, a in zip(('busy', 'done'), wf):
        if not (isinstance(a.value, ast.Constant) and isinstance(a.value.value, int)):
            raise Unsupported('_write_ndef_data: WriteF value is not a constant')
        out.append('Definition gen_t3_writef_%s : Z := %d.\n' % (nm, a.value.value))
    ln = one("_write_ndef_data: attributes['ln']", assigns(f, "attributes['ln']"))
    pad = one('_write_ndef_data: padding', [a for a in assigns(f, 'data')])
    lb = one('_write_ndef_data: last_block_number', assigns(f, 'last_block_number'))
    calls = nodes(f, ast.Call, lambda n: ast.unparse(n.func) == 'self._write_attribute_data')
    expect('_write_ndef_data: _write_attribute_data calls', calls, 2)
    if any(ast.unparse(c) != 'self._write_attribute_data(attributes)' for c in calls):
        raise Unsupported('_write_ndef_data: _write_attribute_data argument changed')
    lp = for_range3(f, 'i', '1', 'last_block_number', 'nbw')
    # order: WriteF=busy, attribute write, .. Ln := len(data) before padding .. loop .. WriteF=done, attribute write
    order = [wf[0].lineno, calls[0].lineno, ln.lineno, pad.lineno, lp.lineno, wf[1].lineno, calls[1].lineno]
    if order != sorted(order) or not (lb.lineno < pad.lineno):
        raise Unsupported('_write_ndef_data: statement order changed')
    out.append(ret('gen_t3_wr_ln', [('data', B)], ln.value))
    out.append(ret('gen_t3_wr_last_block', [('data', B)], lb.value))
    out.append(ret('gen_t3_wr_pad', [('data', B)], pad.value))
    mx = one('_write_ndef_data: max_nbw', assigns(f, 'max_nbw'))
    nb = one('_write_ndef_data: nbw', assigns(f, 'nbw'))
    out.append(fun('gen_t3_wr_nbw', [('nbw_attr', I), ('last_block_number', I)],
                   [ast.unparse(mx), ast.unparse(sub(nb, {"attributes['nbw']": 'nbw_attr'})), 'return nbw']))
    out.append(ret('gen_t3_wr_batch_end', [('i', I), ('nbw', I), ('last_block_number', I)],
                   one('_write_ndef_data: last_block', assigns(lp, 'last_block')).value))
    out.append(ret('gen_t3_wr_batch_data', [('data', B), ('i', I), ('last_block', I)],
                   one('_write_ndef_data: block_data', assigns(lp, 'block_data')).value))
    wc = one('_write_ndef_data: write call', nodes(lp, ast.Call, lambda n: ast.unparse(n.func) == 'self._tag.write_to_ndef_service'))
    if ast.unparse(wc) != 'self._tag.write_to_ndef_service(block_data, *range(i, last_block))':
        raise Unsupported('_write_ndef_data: write call changed: ' + ast.unparse(wc))
    ra = one('_write_ndef_data: attribute read', assigns(f, 'attributes'))
    if ast.unparse(ra.value) != 'self._read_attribute_data()' or ra.lineno > wf[0].lineno:
        raise Unsupported('_write_ndef_data: attributes are not read first')


# ------------------------------------------------------------------------------ tt3.py Type3TagEmulation
def gen_tt3_emu(tree, out):
    for meth, pre in (('read_without_encryption', 'rd'), ('write_without_encryption', 'wr')):
        f = py2coq.find_function(tree, 'Type3TagEmulation.' + meth)
        T = {'cmd_data[0]': 'c0', 'cmd_data[1]': 'c1', 'cmd_data[2]': 'c2'}
        sc = expect(meth + ': service_code', assigns(f, 'service_code'), 3)
        out.append(ret('gen_emu_%s_service_code' % pre, [('c0', I), ('c1', I)], sc[0].value, T))
        sel = one(meth + ': service list index', assigns(f, 'service_list_item'))
        if not (isinstance(sel.value, ast.Subscript) and ast.unparse(sel.value.value) == 'service_list'):
            raise Unsupported(meth + ': service list item selection changed')
        out.append(ret('gen_emu_%s_service_index' % pre, [('c0', I)], sel.value.slice, T))
        br = one(meth + ': block element size test', nodes(f, ast.If, lambda n: 'cmd_data[0]' in ast.unparse(n.test)))
        out.append(ret('gen_emu_%s_elem2' % pre, [('c0', I)], br.test, T))
        bn = expect(meth + ': block_number', assigns(br, 'block_number'), 2)
        out.append(ret('gen_emu_%s_bn2' % pre, [('c1', I)], bn[0].value, T))
        out.append(ret('gen_emu_%s_bn3' % pre, [('c1', I), ('c2', I)], bn[1].value, T))
        dels = [ast.unparse(s) for s in nodes(br, ast.Delete)]
        if dels != ['del cmd_data[0:2]', 'del cmd_data[0:3]']:
            raise Unsupported(meth + ': block list element sizes changed: %s' % dels)
        rets = nodes(f, ast.Return, lambda n: n.value is not None)
        texts = [ast.unparse(r.value) for r in rets]
        if pre == 'rd':
            expect(meth + ': return statements', rets, 5)
            lim = one(meth + ': block count limit', nodes(f, ast.If, lambda n: ast.unparse(n.test).startswith('len(service_block_list)')))
            if lim.body != [rets[1]] or lim.orelse:
                raise Unsupported(meth + ': block count limit shape')
            out.append(ret('gen_emu_rd_too_many', [('n', I)], lim.test, {'len(service_block_list)': 'n'}))
            names = ['svc_unknown', 'too_many', 'bad_index', 'no_block']
        else:
            expect(meth + ': return statements', rets, 5)
            sz = one(meth + ': data size test', nodes(f, ast.If, lambda n: ast.unparse(n.test).startswith('len(block_data)')))
            if sz.body != [rets[2]] or sz.orelse:
                raise Unsupported(meth + ': data size test shape')
            out.append(ret('gen_emu_wr_bad_size', [('n', I)], sz.test, {'len(block_data)': 'n'}))
            wr = one(meth + ': write_func call', nodes(f, ast.Call, lambda n: ast.unparse(n.func) == 'write_func'))
            if ast.unparse(wr) != 'write_func(block_number, block_data[i * 16:(i + 1) * 16], wb, we)':
                raise Unsupported(meth + ': write_func call changed: ' + ast.unparse(wr))
            out.append(ret('gen_emu_wr_block_data', [('block_data', B), ('i', I)], wr.args[1]))
            names = ['svc_unknown', 'bad_index', 'bad_size', 'no_block']
        for nm, r in zip(names, rets[:4]):
            out.append(ret('gen_emu_%s_status_%s' % (pre, nm), [('i', I)], r.value))
        if pre == 'rd':
            out.append(ret('gen_emu_rd_ok', [('block_data', B)], rets[4].value))
        else:
            out.append(ret('gen_emu_wr_ok', [], rets[4].value))
        del texts


# ------------------------------------------------------------------------------ tt4.py Type4Tag.NDEF
def gen_tt4(tree, out):
    S = {'self._max_le': 'max_le', 'self._max_lc': 'max_lc', 'self._nlen_size': 'nlen_size', 'self._capacity': 'capacity'}

    # ---- _read_binary / _update_binary
    f = py2coq.find_function(tree, 'Type4Tag.NDEF._read_binary')
    p = tuple_assign(f, ['p1', 'p2'])
    out.append(ret('gen_t4_rd_offset', [('offset', I)], p.value))
    md = one('_read_binary: max_data', assigns(f, 'max_data'))
    out.append(ret('gen_t4_rd_size', [('max_le', I), ('size', I)], md.value, S))
    call = one('_read_binary: send_apdu', nodes(f, ast.Call, lambda n: ast.unparse(n.func) == 'self.tag.send_apdu'))
    if ast.unparse(call) != 'self.tag.send_apdu(0, 176, p1, p2, mrl=max_data)':
        raise Unsupported('_read_binary: APDU changed: ' + ast.unparse(call))
    ex = one('_read_binary: excess test', nodes(f, ast.If, lambda n: 'len(data)' in ast.unparse(n.test)))
    if not any(isinstance(s, ast.Raise) for s in ex.body):
        raise Unsupported('_read_binary: excess data does not raise')
    out.append(ret('gen_t4_rd_excess', [('n', I), ('max_data', I)], ex.test, {'len(data)': 'n'}))

    f = py2coq.find_function(tree, 'Type4Tag.NDEF._update_binary')
    p = tuple_assign(f, ['p1', 'p2'])
    out.append(ret('gen_t4_up_offset', [('offset', I)], p.value))
    md = one('_update_binary: max_data', assigns(f, 'max_data'))
    out.append(ret('gen_t4_up_size', [('max_lc', I), ('data', B)], md.value, S))
    call = one('_update_binary: send_apdu', nodes(f, ast.Call, lambda n: ast.unparse(n.func) == 'self.tag.send_apdu'))
    if ast.unparse(call) != 'self.tag.send_apdu(0, 214, p1, p2, data[:max_data])':
        raise Unsupported('_update_binary: APDU changed: ' + ast.unparse(call))
    out.append(ret('gen_t4_up_chunk', [('data', B), ('max_data', I)], call.args[4]))
    if not (isinstance(f.body[-1], ast.Return) and ast.unparse(f.body[-1].value) == 'max_data'):
        raise Unsupported('_update_binary does not return max_data')

    # ---- _discover_ndef
    f = py2coq.find_function(tree, 'Type4Tag.NDEF._discover_ndef')
    cl = assigns(f, 'cclen')
    expect('_discover_ndef: cclen', cl, 2)
    if ast.unparse(cl[0].value) != 'self._read_binary(0, 2)':
        raise Unsupported('_discover_ndef: CCLEN read changed')
    out.append(ret('gen_t4_cclen', [('cclen', B)], cl[1].value))
    cp = one('_discover_ndef: capabilities', assigns(f, 'capabilities'))
    if not (isinstance(cp.value, ast.Call) and ast.unparse(cp.value.func) == 'self._read_binary' and
            ast.unparse(cp.value.args[0]) == '2' and len(cp.value.args) == 2):
        raise Unsupported('_discover_ndef: capability read changed')
    out.append(ret('gen_t4_cc_read_size', [('cclen', I)], cp.value.args[1]))
    short = one('_discover_ndef: capability length test', nodes(f, ast.If, lambda n: 'len(capabilities)' in ast.unparse(n.test)))
    t = short.test
    if not (isinstance(t, ast.BoolOp) and isinstance(t.op, ast.Or) and ast.unparse(t.values[0]) == 'capabilities is None' and len(t.values) == 2):
        raise Unsupported('_discover_ndef: capability length test shape')
    out.append(ret('gen_t4_cc_short', [('n', I)], t.values[1], {'len(capabilities)': 'n'}))
    padst = one('_discover_ndef: padding', nodes(f, ast.AugAssign, lambda n: ast.unparse(n.target) == 'capabilities'))
    if not isinstance(padst.op, ast.Add):
        raise Unsupported('_discover_ndef: padding statement')
    out.append(fun('gen_t4_cc_pad', [('capabilities', B)], ['capabilities = capabilities + ' + ast.unparse(padst.value), 'return capabilities']))
    up = tuple_assign(f, ['ver', 'mle', 'mlc', 'tag', 'val'])
    if not is_unpack(up.value) or ast.unparse(up.value.args[1]) != 'capabilities':
        raise Unsupported('_discover_ndef: capability unpack changed')
    for k, nm in enumerate(['ver', 'mle', 'mlc', 'tag', 'val']):
        out.append(ret('gen_t4_cc_' + nm, [('capabilities', B)], unpack_field(up.value, k)))
    vb = one('_discover_ndef: version test', nodes(f, ast.If, lambda n: ast.unparse(n.test).startswith('ver >> 4')))
    out.append(ret('gen_t4_cc_ver_bad', [('ver', I)], vb.test))
    tb = one('_discover_ndef: control tlv test', nodes(f, ast.If, lambda n: 'len(val)' in ast.unparse(n.test)))
    out.append(ret('gen_t4_cc_tlv_bad', [('tag', I), ('val', B)], tb.test))
    for g in (vb, tb, short):
        if not returns_none(g.body):
            raise Unsupported('_discover_ndef: guard does not return False')
    fm = one('_discover_ndef: control tlv format', assigns(f, 'ndef_control_tlv_format'))
    if ast.unparse(fm.value) != "'>2sHBB' if tag == 4 else '>2sIBB'":
        raise Unsupported('_discover_ndef: control tlv format changed: ' + ast.unparse(fm.value))
    tl = tuple_assign(f, ['ndef_file', 'mfs', 'rf', 'wf'])
    if ast.unparse(tl.value) != 'unpack(ndef_control_tlv_format, val)':
        raise Unsupported('_discover_ndef: control tlv unpack changed')
    for k, nm in enumerate(['fid', 'mfs', 'rf', 'wf']):
        u4 = unpack_field(ast.parse("unpack('>2sHBB', val)", mode='eval').body, k)
        u6 = unpack_field(ast.parse("unpack('>2sIBB', val)", mode='eval').body, k)
        out.append(fun('gen_t4_tlv_' + nm, [('tag', I), ('val', B)],
                       ['return (%s) if tag == 4 else (%s)' % (ast.unparse(u4), ast.unparse(u6))]))
    ext = one('_discover_ndef: extended length test', ifs_with(f, 'not self.tag._extended_length_support'))
    cm = expect('_discover_ndef: clamps', [s for s in ext.body if isinstance(s, ast.Assign)], 2)
    if [ast.unparse(c.targets[0]) for c in cm] != ['mle', 'mlc']:
        raise Unsupported('_discover_ndef: clamp targets changed')
    out.append(ret('gen_t4_mle_clamp', [('mle', I)], cm[0].value))
    out.append(ret('gen_t4_mlc_clamp', [('mlc', I)], cm[1].value))
    for tgt, val in (('self._max_le', 'mle'), ('self._max_lc', 'mlc'), ('self._ndef_file', 'ndef_file')):
        a = [x for x in assigns(f, tgt) if x.lineno > ext.lineno]
        if len(a) != 1 or ast.unparse(a[0].value) != val:
            raise Unsupported('_discover_ndef: %s is not set from %s after the clamp' % (tgt, val))
    out.append(ret('gen_t4_capacity', [('mfs', I), ('tag', I)], one('self._capacity', assigns(f, 'self._capacity')).value))
    out.append(ret('gen_t4_readable', [('rf', I)], one('self._readable', assigns(f, 'self._readable')).value))
    out.append(ret('gen_t4_writeable', [('wf', I)], one('self._writeable', assigns(f, 'self._writeable')).value))
    out.append(ret('gen_t4_nlen_size', [('tag', I)], one('self._nlen_size', assigns(f, 'self._nlen_size')).value))

    # ---- _read_ndef_data
    f = py2coq.find_function(tree, 'Type4Tag.NDEF._read_ndef_data')
    lf = one('_read_ndef_data: lfmt', assigns(f, 'lfmt'))
    if ast.unparse(lf.value) != "'>I' if self._nlen_size == 4 else '>H'":
        raise Unsupported('_read_ndef_data: NLEN format changed')
    nl = assigns(f, 'nlen')
    expect('_read_ndef_data: nlen', nl, 2)
    if ast.unparse(nl[0].value) != 'self._read_binary(0, self._nlen_size)' or ast.unparse(nl[1].value) != 'unpack(lfmt, nlen)[0]':
        raise Unsupported('_read_ndef_data: NLEN read changed')
    out.append(fun('gen_t4_nlen_unpack', [('nlen_size', I), ('nlen', B)],
                   ["return unpack('>I', nlen)[0] if nlen_size == 4 else unpack('>H', nlen)[0]"]))
    g1 = one('_read_ndef_data: NLEN length test', nodes(f, ast.If, lambda n: ast.unparse(n.test).startswith('len(nlen)')))
    g2 = one('_read_ndef_data: NLEN capacity test', nodes(f, ast.If, lambda n: ast.unparse(n.test).startswith('nlen >')))
    g3 = one('_read_ndef_data: empty part test', nodes(f, ast.If, lambda n: ast.unparse(n.test).startswith('len(part)')))
    for g in (g1, g2, g3):
        if not returns_none(g.body) or g.orelse:
            raise Unsupported('_read_ndef_data: guard does not return None')
    out.append(ret('gen_t4_nlen_short', [('n', I), ('nlen_size', I)], g1.test, dict(S, **{'len(nlen)': 'n'})))
    out.append(ret('gen_t4_nlen_over', [('nlen', I), ('capacity', I)], g2.test, S))
    out.append(ret('gen_t4_rd_empty', [('n', I)], g3.test, {'len(part)': 'n'}))
    wl = one('_read_ndef_data: while loop', nodes(f, ast.While))
    out.append(ret('gen_t4_rd_more', [('n', I), ('nlen', I)], wl.test, {'len(data)': 'n'}))
    off = one('_read_ndef_data: offset', assigns(wl, 'offset'))
    out.append(ret('gen_t4_rd_next_offset', [('nlen_size', I), ('n', I)], off.value, dict(S, **{'len(data)': 'n'})))
    pt = one('_read_ndef_data: part', assigns(wl, 'part'))
    if not (isinstance(pt.value, ast.Call) and ast.unparse(pt.value.func) == 'self._read_binary' and ast.unparse(pt.value.args[0]) == 'offset'):
        raise Unsupported('_read_ndef_data: part read changed')
    out.append(ret('gen_t4_rd_next_size', [('nlen', I), ('n', I)], pt.value.args[1], {'len(data)': 'n'}))

    # ---- _write_ndef_data
    f = py2coq.find_function(tree, 'Type4Tag.NDEF._write_ndef_data')
    lf = one('_write_ndef_data: lfmt', assigns(f, 'lfmt'))
    if ast.unparse(lf.value) != "'>I' if self._nlen_size == 4 else '>H'":
        raise Unsupported('_write_ndef_data: NLEN format changed')
    nl = [a for a in assigns(f, 'nlen') if ast.unparse(a.value) != 'None']
    if len(nl) != 1 or ast.unparse(nl[0].value) != 'bytearray(pack(lfmt, len(data)))':
        raise Unsupported('_write_ndef_data: NLEN packing changed')
    out.append(fun('gen_t4_nlen_pack', [('nlen_size', I), ('n', I)], ["return pack('>I', n) if nlen_size == 4 else pack('>H', n)"]))
    dec = one('_write_ndef_data: single command decision', nodes(f, ast.If, lambda n: 'self._max_lc' in ast.unparse(n.test)))
    out.append(ret('gen_t4_single', [('nlen_len', I), ('data_len', I), ('max_lc', I)], dec.test,
                   dict(S, **{'len(nlen)': 'nlen_len', 'len(data)': 'data_len'})))
    b1 = [ast.unparse(s) for s in dec.body]
    b2 = [ast.unparse(s) for s in dec.orelse]
    if b1 != ['data = bytearray(nlen) + data', 'nlen = None'] or b2 != ['data = bytearray(len(nlen)) + data']:
        raise Unsupported('_write_ndef_data: branches of the single command decision changed: %s / %s' % (b1, b2))
    out.append(fun('gen_t4_payload_single', [('nlen', B), ('data', B)], [b1[0], 'return data']))
    out.append(fun('gen_t4_payload_zeroed', [('nlen', B), ('data', B)], [b2[0], 'return data']))
    wls = nodes(f, ast.While)
    expect('_write_ndef_data: while loops', wls, 2)
    if ast.unparse(wls[0].test) != 'offset < len(data)' or [ast.unparse(s) for s in wls[0].body] != ['offset += self._update_binary(offset, data[offset:])']:
        raise Unsupported('_write_ndef_data: data loop changed')
    if ast.unparse(wls[1].test) != 'offset < len(nlen)' or [ast.unparse(s) for s in wls[1].body] != ['offset += self._update_binary(offset, nlen[offset:])']:
        raise Unsupported('_write_ndef_data: NLEN loop changed')
    fin = one('_write_ndef_data: final NLEN test', ifs_with(f, 'nlen'))
    if wls[1] not in fin.body or not (dec.lineno < wls[0].lineno < fin.lineno):
        raise Unsupported('_write_ndef_data: order of data loop and NLEN update changed')
    out.append(fun('gen_t4_up_rest', [('data', B), ('offset', I)], ['return data[offset:]']))


def generate(repo):
    out = [py2coq.PRELUDE % {'src': 'src/nfc/tag/{tt3,tt4}.py (translate/kspec_tags_blk.py)'}, HELPERS]
    t3 = ast.parse(open(os.path.join(repo, 'src/nfc/tag/tt3.py')).read())
    t4 = ast.parse(open(os.path.join(repo, 'src/nfc/tag/tt4.py')).read())
    gen_tt3_ndef(t3, out)
    gen_tt3_emu(t3, out)
    gen_tt4(t4, out)
    return '\n'.join(out)


generate.SOURCE = 'src/nfc/tag/{tt3,tt4}.py'
KERNELS = {'BlkK': generate}

if __name__ == '__main__':
    sys.stdout.write(generate(sys.argv[1] if len(sys.argv) > 1 else '/repo'))
