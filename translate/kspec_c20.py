"""C20 kernels regenerated from the source on every run -> coq/Gen/AuthK.v

The authentication / MAC methods of the tag classes talk to the tag and call pyDes, so they are outside
the py2coq subset as whole functions.  What the C20 theorems depend on is the pure byte manipulation around
those calls.  This generator cuts exactly those statements and expressions out of the methods' syntax trees,
checks that the methods still have the expected shape (fail closed: anything else raises and leaves a Gen
file that cannot compile), replaces attribute leaves (`self._sk`, ..) by parameters and hands the result to
py2coq (wrapped, not edited: class Fn20 adds the few constructs these methods need).  pyDes is an
uninterpreted function: the generated definitions live in a Section with
`Variable des3_cbc : list Z -> list Z -> list Z -> list Z`  (key, iv, text -> cipher text), which
coq/Bridge/Auth.v instantiates with the DES model.

  tt3_sony.py  FelicaLite.generate_mac      gen_mac_assert, gen_generate_mac
               FelicaLite._authenticate     gen_auth_pw_bad, gen_auth_key, gen_auth_rc_block(no), gen_auth_sk,
                                            gen_auth_read_blocks, gen_auth_mac_ok, gen_auth_iv
               FelicaLite.read_with_mac     gen_rmac_mac_block, gen_rmac_data, gen_rmac_reject
               FelicaLiteS.write_with_mac   gen_wmac_flip, gen_wmac_wcnt(_block), gen_wmac_plain, gen_wmac_maca,
                                            gen_wmac_payload, gen_wmac_maca_block
               FelicaLite._protect          gen_protect_key, gen_protect_ck_block(no)
               FelicaLiteS._protect         gen_lites_protect_key, gen_lites_protect_ck_block(no), gen_lites_ckv_block(no)
  tt3.py       BlockCode.pack, ServiceCode.pack, the service codes used by read/write_without_mac
  tt2_nxp.py   NTAG21x._authenticate        gen_ntag_pw_bad, gen_ntag_key, gen_ntag_auth_cmd, gen_ntag_auth_ok
               NTAG21x._protect_with_password  gen_ntag_protect_key, gen_ntag_cfg_edit, gen_ntag_cfg_count,
                                            gen_ntag_cfg_page, gen_ntag_cfg_slice, gen_ntag_cc_cond, gen_ntag_cc_test,
                                            gen_ntag_cc_edit
"""
import ast
import copy
import os
import sys

sys.path.insert(0, os.path.dirname(os.path.abspath(__file__)))
import py2coq  # noqa: E402

Unsupported = py2coq.Unsupported
I, B, BO = 'int', 'bytes', 'bool'
DES3 = 'des3_cbc'


# ---------------------------------------------------------------- py2coq with the constructs needed here
def _is_minus_one(n):
    return isinstance(n, ast.UnaryOp) and isinstance(n.op, ast.USub) and isinstance(n.operand, ast.Constant) \
        and n.operand.value == 1 and not isinstance(n.operand.value, bool)


class Fn20(py2coq.Fn):
    """adds:  s[a:b:-1]   bytes-constant * int-constant   2 ** e   bool(e) as 0/1
              triple_des(k, CBC, iv).encrypt(t)  ->  des3_cbc k iv t
              b''.join([<elt> for x in zip(*[iter(s)] * K)])  ->  concat (map (fun x => elt) (pychunks K s))
              struct.pack('{}B'.format(len(x)), *reversed(x)) -> rev x ;  isinstance(x[0], int) -> True (x is a
              tuple of the integers a bytes object yields in Python 3)"""

    def expr(self, e, env):
        if isinstance(e, ast.Subscript) and isinstance(e.slice, ast.Slice) and e.slice.step is not None:
            if not _is_minus_one(e.slice.step):
                raise Unsupported('slice step other than -1')
            a, ta = self.expr(e.value, env)
            if ta != B:
                raise Unsupported('stepped slice of non-bytes')

            def bound(b):
                if b is None:
                    return 'None'
                t, ty = self.expr(b, env)
                if ty != I:
                    raise Unsupported('slice bound type')
                return '(Some %s)' % t
            return '(pyslice_neg %s %s %s)' % (a, bound(e.slice.lower), bound(e.slice.upper)), B
        if isinstance(e, ast.BinOp) and isinstance(e.op, ast.Mult) and isinstance(e.left, ast.Constant) \
                and isinstance(e.right, ast.Constant):
            lv, rv = e.left.value, e.right.value
            if isinstance(lv, bytes) and type(rv) is int and 0 <= rv <= 64:
                return self.expr(ast.Constant(lv * rv), env)
            if isinstance(rv, bytes) and type(lv) is int and 0 <= lv <= 64:
                return self.expr(ast.Constant(lv * rv), env)
        if isinstance(e, ast.BinOp) and isinstance(e.op, ast.Pow):
            if not (isinstance(e.left, ast.Constant) and type(e.left.value) is int and e.left.value >= 0):
                raise Unsupported('power with a non-constant base')
            r, tr = self.expr(e.right, env)
            if tr != I:
                raise Unsupported('power exponent type')
            return '(Z.pow %d %s)' % (e.left.value, r), I
        if isinstance(e, ast.Call) and isinstance(e.func, ast.Attribute) and e.func.attr == 'encrypt' \
                and isinstance(e.func.value, ast.Call) and isinstance(e.func.value.func, ast.Name) \
                and e.func.value.func.id == 'triple_des':
            ctor = e.func.value
            if e.keywords or ctor.keywords or len(e.args) != 1 or len(ctor.args) != 3 \
                    or not (isinstance(ctor.args[1], ast.Name) and ctor.args[1].id == 'CBC'):
                raise Unsupported('triple_des(...).encrypt(...) form')
            k, tk = self.expr(ctor.args[0], env)
            v, tv = self.expr(ctor.args[2], env)
            t, tt = self.expr(e.args[0], env)
            if (tk, tv, tt) != (B, B, B):
                raise Unsupported('triple_des argument types')
            return '(%s %s %s %s)' % (DES3, k, v, t), B
        if isinstance(e, ast.Call) and isinstance(e.func, ast.Attribute) and e.func.attr == 'join' \
                and isinstance(e.func.value, ast.Constant) and e.func.value.value == b'':
            return self.join_groups(e, env)
        if isinstance(e, ast.Call) and isinstance(e.func, ast.Name) and e.func.id == 'bool' and len(e.args) == 1 \
                and not e.keywords:
            a, ta = self.expr(e.args[0], env)
            return '(if %s then 1 else 0)' % self.truth(a, ta), I
        if isinstance(e, ast.Subscript) and isinstance(e.value, ast.Call) and ast.unparse(e.value.func) in ('unpack', 'struct.unpack'):
            c = e.value
            if c.keywords or len(c.args) != 2 or not (isinstance(c.args[0], ast.Constant) and c.args[0].value in ('<H', '>H')) \
                    or not (isinstance(e.slice, ast.Constant) and e.slice.value == 0 and type(e.slice.value) is int):
                raise Unsupported('unpack form (only unpack("<H"|">H", x)[0])')
            a, ta = self.expr(c.args[1], env)
            if ta != B:
                raise Unsupported('unpack of non-bytes')
            return '(%s %s)' % ('unpack_le16' if c.args[0].value == '<H' else 'unpack_be16', a), I
        if isinstance(e, ast.IfExp) and ast.unparse(e.test).startswith('isinstance('):
            t = e.test
            if not (isinstance(t, ast.Call) and len(t.args) == 2 and isinstance(t.args[0], ast.Subscript)
                    and isinstance(t.args[0].value, ast.Name) and env.get(t.args[0].value.id, (None,))[0] == B
                    and isinstance(t.args[1], ast.Name) and t.args[1].id == 'int'):
                raise Unsupported('isinstance test')
            return self.expr(e.body, env)
        return super(Fn20, self).expr(e, env)

    def struct_pack(self, e, env):
        if len(e.args) == 2 and not e.keywords and isinstance(e.args[1], ast.Starred):
            f, s = e.args[0], e.args[1].value
            if isinstance(f, ast.Call) and isinstance(f.func, ast.Attribute) and f.func.attr == 'format' \
                    and isinstance(f.func.value, ast.Constant) and f.func.value.value == '{}B' and len(f.args) == 1 \
                    and isinstance(s, ast.Call) and isinstance(s.func, ast.Name) and s.func.id == 'reversed' and len(s.args) == 1 \
                    and ast.unparse(f.args[0]) == 'len(%s)' % ast.unparse(s.args[0]):
                a, ta = self.expr(s.args[0], env)
                if ta != B:
                    raise Unsupported('reversed() of non-bytes')
                return '(rev %s)' % a, B
            raise Unsupported('struct.pack with starred arguments')
        return super(Fn20, self).struct_pack(e, env)

    def join_groups(self, e, env):
        if e.keywords or len(e.args) != 1 or not isinstance(e.args[0], ast.ListComp):
            raise Unsupported("b''.join form")
        lc = e.args[0]
        if len(lc.generators) != 1:
            raise Unsupported('comprehension generators')
        g = lc.generators[0]
        if g.ifs or g.is_async or not isinstance(g.target, ast.Name):
            raise Unsupported('comprehension form')
        it = g.iter
        ok = isinstance(it, ast.Call) and isinstance(it.func, ast.Name) and it.func.id == 'zip' and len(it.args) == 1 \
            and not it.keywords and isinstance(it.args[0], ast.Starred) and isinstance(it.args[0].value, ast.BinOp) \
            and isinstance(it.args[0].value.op, ast.Mult)
        if not ok:
            raise Unsupported('comprehension iterable is not zip(*[iter(s)] * k)')
        lst, k = it.args[0].value.left, it.args[0].value.right
        if not (isinstance(k, ast.Constant) and type(k.value) is int and k.value > 0 and isinstance(lst, ast.List)
                and len(lst.elts) == 1 and isinstance(lst.elts[0], ast.Call) and isinstance(lst.elts[0].func, ast.Name)
                and lst.elts[0].func.id == 'iter' and len(lst.elts[0].args) == 1):
            raise Unsupported('grouping idiom')
        s, ts = self.expr(lst.elts[0].args[0], env)
        if ts != B:
            raise Unsupported('grouping of non-bytes')
        x = g.target.id
        if x in env:
            raise Unsupported('comprehension variable shadows %s' % x)
        env2 = dict(env)
        env2[x] = (B, True)
        elt, te = self.expr(lc.elt, env2)
        if te != B:
            raise Unsupported('joined elements are not bytes')
        return '(concat (map (fun %s => %s) (pychunks %d %s)))' % (x, elt, k.value, s), B


# ---------------------------------------------------------------- syntax tree helpers
def find(tree, qualname):
    return py2coq.find_function(tree, qualname)


class Subst(ast.NodeTransformer):
    """replace expressions (by their source text) with names"""

    def __init__(self, table):
        self.table = table

    def visit(self, node):
        if isinstance(node, ast.expr):
            src = ast.unparse(node)
            if src in self.table:
                return ast.Name(id=self.table[src], ctx=ast.Load())
        return self.generic_visit(node)


class MethodCalls(ast.NodeTransformer):
    """self.generate_mac(d, k, iv[, flip_key]) with positional or keyword arguments -> generate_mac(d, k, iv, flip)"""

    def visit_Call(self, node):
        node = self.generic_visit(node)
        if isinstance(node.func, ast.Attribute) and node.func.attr == 'generate_mac' \
                and isinstance(node.func.value, ast.Name) and node.func.value.id == 'self':
            names = ['data', 'key', 'iv', 'flip_key']
            args = dict(zip(names, node.args))
            for kw in node.keywords:
                if kw.arg not in names or kw.arg in args:
                    raise Unsupported('generate_mac call arguments')
                args[kw.arg] = kw.value
            if len(node.args) > 4 or not all(n in args for n in names[:3]):
                raise Unsupported('generate_mac call arguments')
            args.setdefault('flip_key', ast.Constant(False))
            return ast.Call(func=ast.Name(id='generate_mac', ctx=ast.Load()), args=[args[n] for n in names], keywords=[])
        return node


def norm(node, table=None):
    node = copy.deepcopy(node)
    node = MethodCalls().visit(node)
    if table:
        node = Subst(table).visit(node)
    return ast.fix_missing_locations(node)


def synth(name, args, body):
    fn = ast.FunctionDef(name=name, args=ast.arguments(posonlyargs=[], args=[ast.arg(arg=a) for a in args], vararg=None,
                                                       kwonlyargs=[], kw_defaults=[], kwarg=None, defaults=[]),
                         body=body, decorator_list=[])
    return ast.fix_missing_locations(fn)


GM_CALL = {'generate_mac': ('gen_generate_mac', [B, B, B, BO], B)}


def kernel(coqname, expr, args, table=None, calls=None):
    """one expression -> Definition coqname args := expr"""
    e = norm(expr, table)
    fn = synth('k', [a for a, _ in args], [ast.Return(value=e)])
    return Fn20(fn, dict(args), coqname=coqname, calls=calls).translate()


def stmts_kernel(coqname, stmts, ret, args, table=None, calls=None):
    """statements followed by `return ret`"""
    body = [norm(s, table) for s in stmts] + [ast.Return(value=norm(ret, table))]
    fn = synth('k', [a for a, _ in args], rewrite_stores(body))
    return Fn20(fn, dict(args), coqname=coqname, calls=calls).translate()


def const_int(coqname, node):
    if not (isinstance(node, ast.Constant) and type(node.value) is int):
        raise Unsupported('%s: integer constant expected, found %s' % (coqname, ast.unparse(node)))
    return 'Definition %s : Z := %d.\n' % (coqname, node.value)


def const_ints(coqname, nodes_):
    for n in nodes_:
        if not (isinstance(n, ast.Constant) and type(n.value) is int):
            raise Unsupported('%s: integer constants expected' % coqname)
    return 'Definition %s : list Z := [%s].\n' % (coqname, '; '.join(str(n.value) for n in nodes_))


def rewrite_stores(stmts):
    """x[a:b] = e  ->  x = x[:a] + e + x[b:]     x[i] = e  ->  x = x[:i] + bytearray([e]) + x[i+1:]
       x[i] op= e  ->  x[i] = x[i] op e           (constant indices only; the bridge lemmas carry the lengths)"""
    out = []
    for s in stmts:
        if isinstance(s, ast.AugAssign) and isinstance(s.target, ast.Subscript):
            load = copy.deepcopy(s.target)
            load.ctx = ast.Load()
            s = ast.Assign(targets=[s.target], value=ast.BinOp(left=load, op=s.op, right=s.value))
        if isinstance(s, ast.Assign) and len(s.targets) == 1 and isinstance(s.targets[0], ast.Subscript):
            t = s.targets[0]
            if not isinstance(t.value, ast.Name):
                raise Unsupported('store into %s' % ast.unparse(t.value))
            x = t.value.id

            def name():
                return ast.Name(id=x, ctx=ast.Load())

            def sl(lo, hi):
                return ast.Subscript(value=name(), slice=ast.Slice(lower=lo, upper=hi, step=None), ctx=ast.Load())
            if isinstance(t.slice, ast.Slice):
                lo, hi = t.slice.lower, t.slice.upper
                if t.slice.step is not None or not all(isinstance(b, ast.Constant) and type(b.value) is int and b.value >= 0 for b in (lo, hi)):
                    raise Unsupported('slice store bounds')
                mid = s.value
            else:
                if not (isinstance(t.slice, ast.Constant) and type(t.slice.value) is int and t.slice.value >= 0):
                    raise Unsupported('index store with a non-constant index')
                lo, hi = t.slice, ast.Constant(t.slice.value + 1)
                mid = ast.Call(func=ast.Name(id='bytearray', ctx=ast.Load()), args=[ast.List(elts=[s.value], ctx=ast.Load())], keywords=[])
            val = ast.BinOp(left=ast.BinOp(left=sl(None, lo), op=ast.Add(), right=mid), op=ast.Add(), right=sl(hi, None))
            s = ast.Assign(targets=[ast.Name(id=x, ctx=ast.Store())], value=val)
        out.append(ast.fix_missing_locations(s))
    return out


def split_tuple_assign(s, rename=None):
    """a, b = e1, e2  ->  [a = e1, b = e2] when no right hand side mentions a target (after renaming the
    names in `rename` on the right hand side: they then denote the values before the assignment)"""
    if not (isinstance(s, ast.Assign) and len(s.targets) == 1 and isinstance(s.targets[0], ast.Tuple)
            and isinstance(s.value, ast.Tuple) and len(s.targets[0].elts) == len(s.value.elts)
            and all(isinstance(t, ast.Name) for t in s.targets[0].elts)):
        raise Unsupported('tuple assignment form')
    names = [t.id for t in s.targets[0].elts]
    if rename:
        s = copy.deepcopy(s)
        s.value = Subst(rename).visit(s.value)
    used = {n.id for v in s.value.elts for n in ast.walk(v) if isinstance(n, ast.Name)}
    if used & set(names):
        raise Unsupported('tuple assignment reads its own targets')
    return [ast.Assign(targets=[ast.Name(id=n, ctx=ast.Store())], value=v) for n, v in zip(names, s.value.elts)]


def nodes(fn, cls, pred=lambda n: True):
    return sorted([n for n in ast.walk(fn) if isinstance(n, cls) and pred(n)], key=lambda n: (n.lineno, n.col_offset))


def expect1(what, got):
    if len(got) != 1:
        raise Unsupported('%s: expected exactly one occurrence, found %d' % (what, len(got)))
    return got[0]


def is_assign_to(s, name):
    return isinstance(s, ast.Assign) and len(s.targets) == 1 and isinstance(s.targets[0], ast.Name) and s.targets[0].id == name


def raises(stmts, exc):
    return len(stmts) == 1 and isinstance(stmts[0], ast.Raise) and isinstance(stmts[0].exc, ast.Call) \
        and ast.unparse(stmts[0].exc.func) == exc


def calls_of(fn, text):
    return nodes(fn, ast.Call, lambda n: ast.unparse(n.func) == text)


def service_code(call):
    if not (isinstance(call, ast.Call) and ast.unparse(call.func) == 'tt3.ServiceCode' and len(call.args) == 2 and not call.keywords):
        raise Unsupported('ServiceCode constructor')
    return call.args


def sc_list_of(fn, what):
    a = expect1(what + ': service list', [s for s in fn.body if isinstance(s, ast.Assign) and len(s.targets) == 1
                                          and ast.unparse(s.targets[0]) in ('service_list', 'sc_list')])
    if not (isinstance(a.value, ast.List) and len(a.value.elts) == 1):
        raise Unsupported(what + ': service list shape')
    return service_code(a.value.elts[0])


# ---------------------------------------------------------------- the kernels
def felica(repo, out):
    tree = ast.parse(open(os.path.join(repo, 'src/nfc/tag/tt3_sony.py')).read())

    # ---- generate_mac: assert, key flip, group reversal, 3DES-CBC, MAC = last eight bytes reversed
    gm = find(tree, 'FelicaLite.generate_mac')
    if [a.arg for a in gm.args.args] != ['data', 'key', 'iv', 'flip_key'] or len(gm.args.defaults) != 1 \
            or ast.unparse(gm.args.defaults[0]) != 'False':
        raise Unsupported('generate_mac signature')
    body = [s for s in gm.body if not (isinstance(s, ast.Expr) and isinstance(s.value, ast.Constant))]
    if len(body) != 4 or not isinstance(body[0], ast.Assert) or not is_assign_to(body[1], 'key') \
            or not is_assign_to(body[2], 'txt') or not isinstance(body[3], ast.Return):
        raise Unsupported('generate_mac: expected assert / key = / txt = / return')
    A4 = [('data', B), ('key', B), ('iv', B), ('flip_key', BO)]
    out.append(kernel('gen_mac_assert', body[0].test, A4[:3]))
    fn = synth('generate_mac', [a for a, _ in A4], [norm(s) for s in body[1:]])
    out.append(Fn20(fn, dict(A4), coqname='gen_generate_mac').translate())

    # ---- FelicaLite._authenticate
    au = find(tree, 'FelicaLite._authenticate')
    first = au.body[0]
    if not (isinstance(first, ast.If) and raises(first.body, 'ValueError') and not first.orelse):
        raise Unsupported('_authenticate: password length check')
    out.append(kernel('gen_auth_pw_bad', first.test, [('password', B)]))
    out.append(kernel('gen_auth_key', expect1('_authenticate: key =', [s for s in au.body if is_assign_to(s, 'key')]).value, [('password', B)]))
    rc = expect1('_authenticate: rc =', [s for s in au.body if is_assign_to(s, 'rc')])
    if ast.unparse(rc.value) != 'os.urandom(16)':
        raise Unsupported('_authenticate: challenge is not os.urandom(16)')
    wr = expect1('_authenticate: write_without_mac', calls_of(au, 'self.write_without_mac'))
    if len(wr.args) != 2 or wr.keywords:
        raise Unsupported('_authenticate: write_without_mac arguments')
    out.append(kernel('gen_auth_rc_block', wr.args[0], [('rc', B)]))
    out.append(const_int('gen_auth_rc_blockno', wr.args[1]))
    out.append(kernel('gen_auth_sk', expect1('_authenticate: sk =', [s for s in au.body if is_assign_to(s, 'sk')]).value,
                      [('key', B), ('rc', B)]))
    rd = expect1('_authenticate: data = read_without_mac', [s for s in au.body if is_assign_to(s, 'data')])
    if not (isinstance(rd.value, ast.Call) and ast.unparse(rd.value.func) == 'self.read_without_mac' and not rd.value.keywords):
        raise Unsupported('_authenticate: data is not read_without_mac(..)')
    out.append(const_ints('gen_auth_read_blocks', rd.value.args))
    # order of the protocol steps: challenge write, session key, read, comparison
    order = [au.body.index(s) for s in (rc, expect1('wr stmt', [s for s in au.body if isinstance(s, ast.Expr) and s.value is wr]), rd)]
    if order != sorted(order):
        raise Unsupported('_authenticate: order of challenge write / read changed')
    test = expect1('_authenticate: MAC comparison', [s for s in au.body if isinstance(s, ast.If) and 'generate_mac' in ast.unparse(s.test)])
    if au.body.index(test) < au.body.index(rd):
        raise Unsupported('_authenticate: comparison before the read')
    out.append(kernel('gen_auth_mac_ok', test.test, [('data', B), ('sk', B), ('rc', B)], calls=GM_CALL))
    sets = {ast.unparse(s.targets[0]): s.value for s in test.body if isinstance(s, ast.Assign) and len(s.targets) == 1}
    if ast.unparse(sets.get('self._sk', ast.Constant(0))) != 'sk' or 'self._iv' not in sets \
            or ast.unparse(sets.get('self._authenticated', ast.Constant(0))) != 'True':
        raise Unsupported('_authenticate: session state is not set in the accepting branch')
    if any(isinstance(s, ast.Assign) and ast.unparse(s.targets[0]) in ('self._sk', 'self._iv', 'self._authenticated') for s in test.orelse):
        raise Unsupported('_authenticate: rejecting branch sets session state')
    out.append(kernel('gen_auth_iv', sets['self._iv'], [('rc', B)]))
    last = au.body[-1]
    if not (isinstance(last, ast.Return) and ast.unparse(last.value) == 'self._authenticated'):
        raise Unsupported('_authenticate: return value')

    # ---- FelicaLite.read_with_mac: split of the response, MAC comparison, what is returned
    rm = find(tree, 'FelicaLite.read_with_mac')
    ap = expect1('read_with_mac: block_list.append', calls_of(rm, 'block_list.append'))
    if not (len(ap.args) == 1 and isinstance(ap.args[0], ast.Call) and ast.unparse(ap.args[0].func) == 'tt3.BlockCode' and len(ap.args[0].args) == 1):
        raise Unsupported('read_with_mac: MAC block appended to the block list')
    out.append(const_int('gen_rmac_mac_block', ap.args[0].args[0]))
    idx_read = [i for i, s in enumerate(rm.body) if is_assign_to(s, 'data') and 'read_without_encryption' in ast.unparse(s.value)]
    if len(idx_read) != 1:
        raise Unsupported('read_with_mac: data = read_without_encryption(..)')
    tail = rm.body[idx_read[0] + 1:]
    # everything after the read decides: <statements>; if <reject>: (no return) else: return data
    if not tail or not isinstance(tail[-1], ast.If):
        raise Unsupported('read_with_mac: final if')
    fin = tail[-1]
    if any(isinstance(n, ast.Return) for s in fin.body for n in ast.walk(s)) or len(fin.orelse) != 1 \
            or not isinstance(fin.orelse[0], ast.Return) or ast.unparse(fin.orelse[0].value) != 'data':
        raise Unsupported('read_with_mac: `if <mismatch>: warn else: return data` shape')
    # the first statement splits the raw response (`data`, called rsp here) into data and mac
    if not (tail[:-1] and isinstance(tail[0], ast.Assign) and isinstance(tail[0].targets[0], ast.Tuple)):
        raise Unsupported('read_with_mac: `data, mac = ..` after the read')
    ren = split_tuple_assign(tail[0], {'data': 'rsp'}) + list(tail[1:-1])
    T = {'self._sk': 'sk', 'self._iv': 'iv'}
    A = [('rsp', B), ('sk', B), ('iv', B)]
    out.append(stmts_kernel('gen_rmac_data', ren, ast.Name(id='data', ctx=ast.Load()), A, T, GM_CALL))
    out.append(stmts_kernel('gen_rmac_reject', ren, fin.test, A, T, GM_CALL))

    # ---- FelicaLiteS.write_with_mac
    wm = find(tree, 'FelicaLiteS.write_with_mac')
    fl = expect1('write_with_mac: flip()', [s for s in wm.body if isinstance(s, ast.FunctionDef) and s.name == 'flip'])
    out.append(Fn20(fl, {'sk': B}, coqname='gen_wmac_flip').translate())
    wc = expect1('write_with_mac: wcnt =', [s for s in wm.body if is_assign_to(s, 'wcnt')])
    if not (isinstance(wc.value, ast.Subscript) and isinstance(wc.value.value, ast.Call)
            and ast.unparse(wc.value.value.func) == 'self.read_without_mac' and len(wc.value.value.args) == 1):
        raise Unsupported('write_with_mac: wcnt = read_without_mac(..)[..]')
    out.append(const_int('gen_wmac_wcnt_block', wc.value.value.args[0]))
    out.append(kernel('gen_wmac_wcnt', ast.Subscript(value=ast.Name(id='w', ctx=ast.Load()), slice=wc.value.slice, ctx=ast.Load()), [('w', B)]))
    pl = expect1('write_with_mac: data =', [s for s in wm.body if is_assign_to(s, 'data')])
    out.append(kernel('gen_wmac_plain', pl.value, [('wcnt', B), ('block', I), ('data', B)]))
    ma = expect1('write_with_mac: maca =', [s for s in wm.body if is_assign_to(s, 'maca')])
    W = {'self._sk': 'sk', 'self._iv': 'iv'}
    out.append(kernel('gen_wmac_maca', ma.value, [('data', B), ('sk', B), ('iv', B), ('wcnt', B)], W,
                      dict(GM_CALL, flip=('gen_wmac_flip', [B], B))))
    we = expect1('write_with_mac: write_without_encryption', calls_of(wm, 'self.write_without_encryption'))
    if len(we.args) != 3 or ast.unparse(we.args[0]) != 'sc_list' or ast.unparse(we.args[1]) != 'bc_list':
        raise Unsupported('write_with_mac: write_without_encryption arguments')
    out.append(kernel('gen_wmac_payload', we.args[2], [('data', B), ('maca', B)]))
    bl = expect1('write_with_mac: bc_list =', [s for s in wm.body if is_assign_to(s, 'bc_list')])
    if not (isinstance(bl.value, ast.List) and len(bl.value.elts) == 2 and ast.unparse(bl.value.elts[0]) == 'tt3.BlockCode(block)'
            and isinstance(bl.value.elts[1], ast.Call) and ast.unparse(bl.value.elts[1].func) == 'tt3.BlockCode' and len(bl.value.elts[1].args) == 1):
        raise Unsupported('write_with_mac: block list')
    out.append(const_int('gen_wmac_maca_block', bl.value.elts[1].args[0]))
    if not (wm.body.index(wc) < wm.body.index(pl) < wm.body.index(ma)):
        raise Unsupported('write_with_mac: statement order')

    # ---- FelicaLite._protect: the key and how it is laid out in the CK block
    pr = find(tree, 'FelicaLite._protect')
    ks = nodes(pr, ast.Assign, lambda s: is_assign_to(s, 'key'))
    out.append(kernel('gen_protect_key', expect1('_protect: key =', ks).value, [('password', B)]))
    wr = [c for c in calls_of(pr, 'self.write_without_mac') if 'key' in ast.unparse(c.args[0])]
    wr = expect1('_protect: write of the card key', wr)
    out.append(kernel('gen_protect_ck_block', wr.args[0], [('key', B)]))
    out.append(const_int('gen_protect_ck_blockno', wr.args[1]))

    # ---- FelicaLiteS._protect: same key layout; the key is provisioned exactly when a password is given
    ps = find(tree, 'FelicaLiteS._protect')
    for fn_, what in ((pr, 'FelicaLite._protect'), (ps, 'FelicaLiteS._protect')):
        wrs = [c for c in calls_of(fn_, 'self.write_without_mac') if 'key' in ast.unparse(c.args[0])]
        guards = [s for s in fn_.body if isinstance(s, ast.If) and any(c in wrs for c in nodes(s, ast.Call))]
        g = expect1(what + ': if guarding the key write', guards)
        if ast.unparse(g.test) != 'password is not None':
            raise Unsupported(what + ': the key write is not guarded by `password is not None`')
    g = [s for s in ps.body if isinstance(s, ast.If) and ast.unparse(s.test) == 'password is not None'][0]
    k0 = [s for s in g.body if is_assign_to(s, 'key')]
    if not k0:
        raise Unsupported('FelicaLiteS._protect: key =')
    out.append(kernel('gen_lites_protect_key', k0[0].value, [('password', B)]))
    wr = expect1('FelicaLiteS._protect: write of the card key',
                 [c for c in calls_of(ps, 'self.write_without_mac') if 'key' in ast.unparse(c.args[0])])
    out.append(kernel('gen_lites_protect_ck_block', wr.args[0], [('key', B)]))
    out.append(const_int('gen_lites_protect_ck_blockno', wr.args[1]))
    # the card key version: read block 86h, increment (clamped to the 16-bit maximum), write back -
    # before the card key is written
    ckw = expect1('FelicaLiteS._protect: write of the card key version',
                  [c for c in calls_of(ps, 'self.write_without_mac') if 'ckv' in ast.unparse(c.args[0])])
    if len(ckw.args) != 2 or ckw.keywords:
        raise Unsupported('FelicaLiteS._protect: card key version write arguments')
    out.append(const_int('gen_lites_ckv_blockno', ckw.args[1]))
    cks = [s_ for s_ in g.body if is_assign_to(s_, 'ckv')]
    if not cks:
        raise Unsupported('FelicaLiteS._protect: ckv =')
    reads = [c for s_ in cks for c in nodes(s_, ast.Call) if ast.unparse(c.func) == 'self.read_without_mac']
    rdc = expect1('FelicaLiteS._protect: read of the card key version', reads)
    if len(rdc.args) != 1 or rdc.keywords or ast.unparse(rdc.args[0]) != ast.unparse(ckw.args[1]):
        raise Unsupported('FelicaLiteS._protect: card key version is not read from the block that is written')
    if cks[0].value is rdc:
        # ckv = read(86h); ckv = f(ckv): the first assignment names the block, later ones compute on it
        if len(cks) < 2:
            raise Unsupported('FelicaLiteS._protect: card key version is not incremented')
        rest = [copy.deepcopy(cks[1])] + [copy.deepcopy(x) for x in cks[2:]]
        rest[0].value = Subst({'ckv': 'blk'}).visit(rest[0].value)
    else:
        rest = [copy.deepcopy(x) for x in cks]
        rest[0].value = Subst({ast.unparse(rdc): 'blk'}).visit(rest[0].value)
    wstmt = expect1('ckv write statement', [s_ for s_ in g.body if isinstance(s_, ast.Expr) and s_.value is ckw])
    kstmt = expect1('ck write statement', [s_ for s_ in g.body if isinstance(s_, ast.Expr) and s_.value is wr])
    if not (max(g.body.index(x) for x in cks) < g.body.index(wstmt) < g.body.index(kstmt)):
        raise Unsupported('FelicaLiteS._protect: order of card key version / card key writes')
    out.append(stmts_kernel('gen_lites_ckv_block', rest, ckw.args[0], [('blk', B)]))

    # ---- service codes of the four access methods
    for meth, nm in (('FelicaLite.read_without_mac', 'gen_sc_read'), ('FelicaLite.read_with_mac', 'gen_sc_read_mac'),
                     ('FelicaLite.write_without_mac', 'gen_sc_write'), ('FelicaLiteS.write_with_mac', 'gen_sc_write_mac')):
        n, a = sc_list_of(find(tree, meth), meth)
        if not all(isinstance(x, ast.Constant) and type(x.value) is int for x in (n, a)):
            raise Unsupported(meth + ': service code constants')
        out.append('Definition %s : list Z := gen_servicecode_pack %d %d.\n' % (nm, n.value, a.value))


def tt3_codes(repo, out):
    tree = ast.parse(open(os.path.join(repo, 'src/nfc/tag/tt3.py')).read())
    for cls, attrs, nm in (('BlockCode', ['number', 'access', 'service'], 'gen_blockcode_pack'),
                           ('ServiceCode', ['number', 'attribute'], 'gen_servicecode_pack')):
        init = find(tree, cls + '.__init__')
        if [a.arg for a in init.args.args][1:] != attrs:
            raise Unsupported(cls + '.__init__ arguments')
        for a in attrs:
            if not any(isinstance(s, ast.Assign) and ast.unparse(s.targets[0]) == 'self.' + a and ast.unparse(s.value) == a for s in init.body):
                raise Unsupported('%s.__init__ does not store %s' % (cls, a))
        pk = find(tree, cls + '.pack')
        body = []
        for s in pk.body:
            if isinstance(s, ast.Expr) and isinstance(s.value, ast.Constant):
                continue
            body += split_tuple_assign(s) if (isinstance(s, ast.Assign) and isinstance(s.targets[0], ast.Tuple)) else [s]
        T = {'self.' + a: a for a in attrs}
        fn = synth('pack', attrs, [norm(s, T) for s in body])
        out.append(Fn20(fn, {a: I for a in attrs}, coqname=nm).translate())
    bc = find(tree, 'BlockCode.__init__')
    if [ast.unparse(d) for d in bc.args.defaults] != ['0', '0']:
        raise Unsupported('BlockCode defaults')


def ntag(repo, out):
    tree = ast.parse(open(os.path.join(repo, 'src/nfc/tag/tt2_nxp.py')).read())
    au = find(tree, 'NTAG21x._authenticate')
    first = au.body[0]
    if not (isinstance(first, ast.If) and raises(first.body, 'ValueError') and not first.orelse):
        raise Unsupported('NTAG21x._authenticate: password length check')
    out.append(kernel('gen_ntag_pw_bad', first.test, [('password', B)]))
    out.append(kernel('gen_ntag_key', expect1('NTAG21x._authenticate: key =', [s for s in au.body if is_assign_to(s, 'key')]).value,
                      [('password', B)]))
    tr = expect1('NTAG21x._authenticate: try', [s for s in au.body if isinstance(s, ast.Try)])
    if len(tr.body) != 2 or not is_assign_to(tr.body[0], 'rsp') or not isinstance(tr.body[1], ast.Return):
        raise Unsupported('NTAG21x._authenticate: try body is not `rsp = transceive(..); return <comparison>`')
    tc = tr.body[0].value
    if not (isinstance(tc, ast.Call) and ast.unparse(tc.func) == 'self.transceive' and len(tc.args) == 1 and not tc.keywords):
        raise Unsupported('NTAG21x._authenticate: transceive call')
    out.append(kernel('gen_ntag_auth_cmd', tc.args[0], [('key', B)]))
    out.append(kernel('gen_ntag_auth_ok', tr.body[1].value, [('rsp', B), ('key', B)]))
    if len(tr.handlers) != 1 or ast.unparse(tr.handlers[0].type) != 'tt2.Type2TagCommandError' \
            or len(tr.handlers[0].body) != 1 or ast.unparse(tr.handlers[0].body[0]) != 'return False':
        raise Unsupported('NTAG21x._authenticate: error handler')

    pp = find(tree, 'NTAG21x._protect_with_password')
    first = pp.body[0]
    if not (isinstance(first, ast.If) and raises(first.body, 'ValueError') and not first.orelse):
        raise Unsupported('_protect_with_password: password length check')
    out.append(kernel('gen_ntag_protect_pw_bad', first.test, [('password', B)]))
    out.append(kernel('gen_ntag_protect_key', expect1('_protect_with_password: key =', [s for s in pp.body if is_assign_to(s, 'key')]).value,
                      [('password', B)]))
    rd = expect1('_protect_with_password: cfg = read', [s for s in pp.body if is_assign_to(s, 'cfg')])
    if ast.unparse(rd.value) != 'self.read(self._cfgpage)':
        raise Unsupported('_protect_with_password: configuration read')
    loop = expect1('_protect_with_password: write loop', [s for s in pp.body if isinstance(s, ast.For)])
    edits = pp.body[pp.body.index(rd) + 1:pp.body.index(loop)]
    if not edits or not all(isinstance(s, ast.Assign) and isinstance(s.targets[0], ast.Subscript) and ast.unparse(s.targets[0].value) == 'cfg'
                            for s in edits):
        raise Unsupported('_protect_with_password: statements between read and write loop')
    out.append(stmts_kernel('gen_ntag_cfg_edit', edits, ast.Name(id='cfg', ctx=ast.Load()),
                            [('cfg', B), ('key', B), ('read_protect', BO), ('protect_from', I)]))
    if not (isinstance(loop.iter, ast.Call) and ast.unparse(loop.iter.func) == 'range' and len(loop.iter.args) == 1
            and isinstance(loop.target, ast.Name) and len(loop.body) == 1 and isinstance(loop.body[0], ast.Expr)):
        raise Unsupported('_protect_with_password: write loop shape')
    out.append(const_int('gen_ntag_cfg_count', loop.iter.args[0]))
    wcall = loop.body[0].value
    if not (isinstance(wcall, ast.Call) and ast.unparse(wcall.func) == 'self.write' and len(wcall.args) == 2):
        raise Unsupported('_protect_with_password: write call')
    C = {'self._cfgpage': 'cfgpage'}
    out.append(kernel('gen_ntag_cfg_page', wcall.args[0], [('cfgpage', I), (loop.target.id, I)], C))
    out.append(kernel('gen_ntag_cfg_slice', wcall.args[1], [('cfg', B), (loop.target.id, I)], C))
    cc = expect1('_protect_with_password: capability container update',
                 [s for s in pp.body if isinstance(s, ast.If) and 'protect_from' in ast.unparse(s.test)])
    out.append(kernel('gen_ntag_cc_cond', cc.test, [('protect_from', I)]))
    if len(cc.body) != 2 or not is_assign_to(cc.body[0], 'ndef_cc') or ast.unparse(cc.body[0].value) != 'self.read(3)[0:4]' \
            or not isinstance(cc.body[1], ast.If) or cc.body[1].orelse:
        raise Unsupported('_protect_with_password: capability container block')
    inner = cc.body[1]
    out.append(kernel('gen_ntag_cc_test', inner.test, [('ndef_cc', B)]))
    if len(inner.body) != 2 or ast.unparse(inner.body[1]) != 'self.write(3, ndef_cc)':
        raise Unsupported('_protect_with_password: capability container write')
    out.append(stmts_kernel('gen_ntag_cc_edit', [inner.body[0]], ast.Name(id='ndef_cc', ctx=ast.Load()),
                            [('ndef_cc', B), ('read_protect', BO)]))
    last = pp.body[-1]
    if ast.unparse(last) != 'return self.authenticate(key) if self.target else False':
        raise Unsupported('_protect_with_password: final authenticate')


PRELUDE = """(* GENERATED by translate/kspec_c20.py (py2coq) from %(src)s -- do not edit *)
From Coq Require Import ZArith List Bool.
From NV Require Import Base.Bytes Base.PyPrims Base.PyAuth.
Import ListNotations.
Open Scope Z_scope.

Section AuthK.
(* triple_des(key, CBC, iv).encrypt(text) of pyDes, uninterpreted *)
Variable des3_cbc : list Z -> list Z -> list Z -> list Z.

"""


def generate(repo):
    out = [PRELUDE % {'src': 'src/nfc/tag/{tt3_sony,tt3,tt2_nxp}.py (statements around the crypto calls)'}]
    tt3_codes(repo, out)
    felica(repo, out)
    ntag(repo, out)
    out.append('End AuthK.\n')
    return '\n'.join(out)


generate.SOURCE = 'src/nfc/tag/{tt3_sony,tt3,tt2_nxp}.py'
KERNELS = {'AuthK': generate}
