#!/usr/bin/env python3
"""py2coq - fail-closed translator of small pure Python kernels to Gallina.

Whitelisted subset (anything else raises Unsupported, i.e. the translation --
and with it a proof obligation -- fails):

  def f(args): body           args typed by the caller's spec ('int' | 'bytes' | 'bool')
  x = e ; x op= e             simple names only
  if / elif / else            bodies of assignments; `return` only in tail position
  for v in range(a[, b]): ..  for v in <bytes expr>: ..      (no break/continue/else)
  return e
  e ::= int | name | e binop e (+ - * // % & | ^ << >>) | ~e | -e | not e
      | e cmp e (single comparator) | e and e | e or e | e if c else e
      | len(e) | e[i] (bytes, total: 0 outside) | e[a:b] e[:b] e[a:] | (e, e, ..)
      | bytearray([e, ..]) / bytes([e, ..]) / b'..' | e + e on bytes | sum(e)
      | min(e, e) | max(e, e) | int(e) on ints

Loops become fold_left over a state tuple made of the variables assigned in the
body; a variable first assigned inside a loop gets initial value 0 (ints) and must
be assigned before use inside the body (checked).  Output is Coq text built from
plain strings.
"""
import ast
import sys
import textwrap


class Unsupported(Exception):
    pass


INT, BYTES, BOOL = 'int', 'bytes', 'bool'
COQTY = {INT: 'Z', BYTES: 'list Z', BOOL: 'bool'}

BINOPS = {
    ast.Add: 'Z.add', ast.Sub: 'Z.sub', ast.Mult: 'Z.mul', ast.FloorDiv: 'Z.div',
    ast.Mod: 'Z.modulo', ast.BitAnd: 'Z.land', ast.BitOr: 'Z.lor', ast.BitXor: 'Z.lxor',
    ast.LShift: 'Z.shiftl', ast.RShift: 'Z.shiftr',
}
CMPOPS = {
    ast.Eq: '(%s =? %s)', ast.NotEq: '(negb (%s =? %s))', ast.Lt: '(%s <? %s)',
    ast.LtE: '(%s <=? %s)', ast.Gt: '(%s >? %s)', ast.GtE: '(%s >=? %s)',
}


class Fn:
    def __init__(self, node, argtypes, consts=None, coqname=None, calls=None):
        self.calls = calls or {}
        self.node = node
        self.argtypes = argtypes
        self.consts = consts or {}
        self.coqname = coqname or ('gen_' + node.name)

    def caller_owned(self, name, lineno):
        """may `name` at `lineno` still be the object the caller passed in?  (conservative, lexical: a bytes-typed
        parameter, or a name bound to one by a bare `x = y`, is caller-owned until a top-level statement of the
        function body rebinds it to a freshly built value before that line)"""
        owned = {a for a, t in self.argtypes.items() if t in ('bytes', BYTES)}
        for n in ast.walk(self.node):
            if isinstance(n, ast.Assign) and len(n.targets) == 1 and isinstance(n.targets[0], ast.Name) \
                    and isinstance(n.value, ast.Name) and n.value.id in owned:
                owned.add(n.targets[0].id)
        if name not in owned:
            return False
        for st in self.node.body:
            if st.lineno >= lineno:
                break
            if isinstance(st, ast.Assign) and len(st.targets) == 1 and isinstance(st.targets[0], ast.Name) \
                    and st.targets[0].id == name and not isinstance(st.value, ast.Name):
                return False
        return True

    # ---- expressions -------------------------------------------------------
    def expr(self, e, env):
        """return (coq_text, type)"""
        if isinstance(e, ast.Constant):
            if isinstance(e.value, bool):
                return ('true' if e.value else 'false'), BOOL
            if isinstance(e.value, int):
                return ('%d' % e.value if e.value >= 0 else '(%d)' % e.value), INT
            if isinstance(e.value, bytes):
                return '[' + '; '.join(str(b) for b in e.value) + ']', BYTES
            raise Unsupported('constant %r' % (e.value,))
        if isinstance(e, ast.Name):
            if e.id in env:
                return e.id if env[e.id][1] else self.undefined(e.id), env[e.id][0]
            if e.id in self.consts:
                v = self.consts[e.id]
                return self.expr(ast.Constant(v), env)
            raise Unsupported('unknown name %s' % e.id)
        if isinstance(e, ast.Attribute) and isinstance(e.value, ast.Name) and e.value.id == 'self':
            key = 'self.' + e.attr
            if key in env:
                return key.replace('.', '_'), env[key][0]
            if key in self.consts:
                return self.expr(ast.Constant(self.consts[key]), env)
            raise Unsupported('unknown attribute %s' % key)
        if isinstance(e, ast.BinOp):
            a, ta = self.expr(e.left, env)
            b, tb = self.expr(e.right, env)
            if ta == BYTES and tb == BYTES and isinstance(e.op, ast.Add):
                return '(%s ++ %s)' % (a, b), BYTES
            if ta == INT and tb == INT and type(e.op) in BINOPS:
                return '(%s %s %s)' % (BINOPS[type(e.op)], a, b), INT
            raise Unsupported('binop %s on %s,%s' % (type(e.op).__name__, ta, tb))
        if isinstance(e, ast.UnaryOp):
            a, ta = self.expr(e.operand, env)
            if isinstance(e.op, ast.Invert) and ta == INT:
                return '(Z.lnot %s)' % a, INT
            if isinstance(e.op, ast.USub) and ta == INT:
                return '(Z.opp %s)' % a, INT
            if isinstance(e.op, ast.Not):
                return '(negb %s)' % self.truth(a, ta), BOOL
            raise Unsupported('unaryop')
        if isinstance(e, ast.Compare):
            if len(e.ops) != 1:
                raise Unsupported('chained comparison')
            a, ta = self.expr(e.left, env)
            b, tb = self.expr(e.comparators[0], env)
            if ta == INT and tb == INT and type(e.ops[0]) in CMPOPS:
                return CMPOPS[type(e.ops[0])] % (a, b), BOOL
            if ta == BYTES and tb == BYTES and isinstance(e.ops[0], ast.Eq):
                return '(list_eqb %s %s)' % (a, b), BOOL
            if ta == BYTES and tb == BYTES and isinstance(e.ops[0], ast.NotEq):
                return '(negb (list_eqb %s %s))' % (a, b), BOOL
            if ta.startswith('tuple') and ta == tb and isinstance(e.ops[0], ast.Eq):
                return '(list_eqb %s %s)' % (a, b), BOOL
            raise Unsupported('compare %s on %s,%s' % (type(e.ops[0]).__name__, ta, tb))
        if isinstance(e, ast.BoolOp):
            parts = [self.truth(*self.expr(v, env)) for v in e.values]
            op = ' && ' if isinstance(e.op, ast.And) else ' || '
            return '(' + op.join(parts) + ')', BOOL
        if isinstance(e, ast.IfExp):
            c = self.truth(*self.expr(e.test, env))
            a, ta = self.expr(e.body, env)
            b, tb = self.expr(e.orelse, env)
            if ta != tb:
                raise Unsupported('ifexp branches differ in type')
            return '(if %s then %s else %s)' % (c, a, b), ta
        if isinstance(e, ast.Tuple):
            items = [self.expr(x, env) for x in e.elts]
            if any(t != INT for _, t in items):
                raise Unsupported('non-int tuple')
            return '[' + '; '.join(a for a, _ in items) + ']', 'tuple%d' % len(items)
        if isinstance(e, ast.Call) and isinstance(e.func, ast.Name) and e.func.id in self.calls:
            cn, argt, rt = self.calls[e.func.id]
            if e.keywords or len(e.args) != len(argt):
                raise Unsupported('call arity %s' % e.func.id)
            args = [self.expr(a, env) for a in e.args]
            if [t for _, t in args] != list(argt):
                raise Unsupported('call argument types %s' % e.func.id)
            return '(%s %s)' % (cn, ' '.join(a for a, _ in args)), rt
        if isinstance(e, ast.Call) and ((isinstance(e.func, ast.Name) and e.func.id == 'pack') or
                                        (isinstance(e.func, ast.Attribute) and e.func.attr == 'pack' and
                                         isinstance(e.func.value, ast.Name) and e.func.value.id == 'struct')):
            return self.struct_pack(e, env)
        if isinstance(e, ast.Call) and isinstance(e.func, ast.Name):
            f = e.func.id
            if e.keywords:
                raise Unsupported('keyword arguments')
            if f in ('bytearray', 'bytes') and len(e.args) == 1 and isinstance(e.args[0], ast.List):
                items = [self.expr(x, env) for x in e.args[0].elts]
                if any(t != INT for _, t in items):
                    raise Unsupported('non-int in bytes literal')
                return '[' + '; '.join(a for a, _ in items) + ']', BYTES
            args = [self.expr(a, env) for a in e.args]
            if f == 'len' and len(args) == 1 and args[0][1] == BYTES:
                return '(len %s)' % args[0][0], INT
            if f == 'sum' and len(args) == 1 and args[0][1] == BYTES:
                return '(sum %s)' % args[0][0], INT
            if f in ('min', 'max') and len(args) == 2 and all(t == INT for _, t in args):
                return '(Z.%s %s %s)' % (f, args[0][0], args[1][0]), INT
            if f == 'int' and len(args) == 1 and args[0][1] == INT:
                return args[0]
            if f in ('bytearray', 'bytes') and len(e.args) == 1 and isinstance(e.args[0], ast.List):
                items = [self.expr(x, env) for x in e.args[0].elts]
                if any(t != INT for _, t in items):
                    raise Unsupported('non-int in bytes literal')
                return '[' + '; '.join(a for a, _ in items) + ']', BYTES
            if f in ('bytearray', 'bytes') and len(args) == 1 and args[0][1] == BYTES:
                return args[0]
            if f in ('bytearray', 'bytes') and len(args) == 0:
                return '[]', BYTES
            raise Unsupported('call %s' % f)
        if isinstance(e, ast.Subscript):
            a, ta = self.expr(e.value, env)
            if ta != BYTES:
                raise Unsupported('subscript of non-bytes')
            s = e.slice
            if isinstance(s, ast.Slice):
                if s.step is not None:
                    raise Unsupported('slice step')
                lo = self.expr(s.lower, env) if s.lower is not None else ('0', INT)
                if s.upper is not None:
                    hi = self.expr(s.upper, env)
                else:
                    hi = ('(len %s)' % a, INT)
                if lo[1] != INT or hi[1] != INT:
                    raise Unsupported('slice bounds')
                return '(pyslice %s %s %s)' % (a, lo[0], hi[0]), BYTES
            i, ti = self.expr(s, env)
            if ti != INT:
                raise Unsupported('index type')
            return '(pyidx %s %s)' % (a, i), INT
        raise Unsupported('expression %s' % ast.dump(e)[:80])

    def struct_pack(self, e, env):
        """struct.pack with a literal format made of B, H, I and an optional byte order prefix; the Coq
        functions are total (Python raises struct.error outside the field range: bridge lemmas carry the range)"""
        if e.keywords or not e.args or not isinstance(e.args[0], ast.Constant) or not isinstance(e.args[0].value, str):
            raise Unsupported('struct.pack format')
        fmt = e.args[0].value
        order = '>'
        if fmt and fmt[0] in '<>!=@':
            order = {'!': '>', '=': '<', '@': '<'}.get(fmt[0], fmt[0])
            fmt = fmt[1:]
        fields = []
        i = 0
        while i < len(fmt):
            j = i
            while j < len(fmt) and fmt[j].isdigit():
                j += 1
            n = int(fmt[i:j]) if j > i else 1
            if j >= len(fmt) or fmt[j] not in 'BHI':
                raise Unsupported('struct.pack format character')
            fields += [fmt[j]] * n
            i = j + 1
        args = [self.expr(a, env) for a in e.args[1:]]
        if len(args) != len(fields) or any(t != INT for _, t in args):
            raise Unsupported('struct.pack arguments')
        fn = {('B', '>'): 'pack_u8', ('B', '<'): 'pack_u8', ('H', '>'): 'pack_be16', ('H', '<'): 'pack_le16',
              ('I', '>'): 'pack_be32', ('I', '<'): 'pack_le32'}
        parts = ['(%s %s)' % (fn[(f, order)], a) for f, (a, _) in zip(fields, args)]
        return '(' + ' ++ '.join(parts) + ')', BYTES

    def undefined(self, name):
        raise Unsupported('variable %s used before assignment' % name)

    def truth(self, a, t):
        if t == BOOL:
            return a
        if t == INT:
            return '(negb (%s =? 0))' % a
        if t == BYTES:
            return '(negb (len %s =? 0))' % a
        raise Unsupported('truth of %s' % t)

    # ---- statements ---------------------------------------------------------
    @staticmethod
    def assigned(stmts):
        out = []

        def visit(ss):
            for s in ss:
                if isinstance(s, ast.Assign):
                    for t in s.targets:
                        if isinstance(t, ast.Name) and t.id not in out:
                            out.append(t.id)
                elif isinstance(s, ast.AugAssign):
                    if isinstance(s.target, ast.Name) and s.target.id not in out:
                        out.append(s.target.id)
                elif isinstance(s, ast.If):
                    visit(s.body)
                    visit(s.orelse)
                elif isinstance(s, ast.For):
                    visit(s.body)
        visit(stmts)
        return out

    def tup(self, names):
        if len(names) == 1:
            return names[0]
        return '(' + ', '.join(names) + ')'

    def pat(self, names):
        if len(names) == 1:
            return names[0]
        return "'" + self.tup(names)

    def block(self, stmts, env, k):
        """translate stmts followed by continuation text produced by k(env)."""
        if not stmts:
            return k(env)
        s, rest = stmts[0], stmts[1:]
        if isinstance(s, ast.Expr) and isinstance(s.value, ast.Constant) and isinstance(s.value.value, str):
            return self.block(rest, env, k)  # docstring
        if isinstance(s, ast.Assign):
            if len(s.targets) != 1 or not isinstance(s.targets[0], ast.Name):
                raise Unsupported('assignment target')
            v = s.targets[0].id
            a, ta = self.expr(s.value, env)
            if v in env and env[v][0] != ta:
                raise Unsupported('variable %s changes type' % v)
            env2 = dict(env)
            env2[v] = (ta, True)
            return 'let %s := %s in\n%s' % (v, a, self.block(rest, env2, k))
        if isinstance(s, ast.AugAssign):
            if not isinstance(s.target, ast.Name):
                raise Unsupported('augassign target')
            if s.target.id in env and env[s.target.id][0] == BYTES and self.caller_owned(s.target.id, s.lineno):
                # bytearray `x += y` mutates the object in place: on a buffer the caller still holds this is a side
                # effect the pure translation would hide
                raise Unsupported('in-place += on caller-owned buffer %s' % s.target.id)
            new = ast.Assign(targets=[s.target], value=ast.BinOp(left=ast.Name(id=s.target.id, ctx=ast.Load()), op=s.op, right=s.value))
            return self.block([new] + rest, env, k)
        if isinstance(s, ast.Return):
            if rest:
                raise Unsupported('code after return')
            if s.value is None:
                raise Unsupported('bare return')
            a, ta = self.expr(s.value, env)
            self.ret_types.add(ta)
            return a
        if isinstance(s, ast.If):
            c = self.truth(*self.expr(s.test, env))
            if self.ends_in_return(s.body) or (s.orelse and self.ends_in_return(s.orelse)):
                # tail position: both branches continue with `rest`
                tb = self.block(s.body + ([] if self.ends_in_return(s.body) else rest), env, k)
                eb = self.block((s.orelse or []) + ([] if (s.orelse and self.ends_in_return(s.orelse)) else rest), env, k)
                return '(if %s\n then %s\n else %s)' % (c, tb, eb)
            vs = self.assigned([s])
            newtypes = {}
            for v in vs:
                if v not in env:
                    # allowed only when both branches definitely assign it (at their top level) with one type
                    tb_t = self.def_type(s.body, v, env)
                    te_t = self.def_type(s.orelse or [], v, env)
                    if tb_t is None or tb_t != te_t:
                        raise Unsupported('variable %s first assigned inside an if' % v)
                    newtypes[v] = tb_t
            if not vs:
                raise Unsupported('if without effect')
            tb = self.block(s.body, env, lambda e: self.tup(vs))
            eb = self.block(s.orelse or [], env, lambda e: self.tup(vs))
            env2 = dict(env)
            for v in vs:
                env2[v] = (newtypes[v] if v in newtypes else env[v][0], True)
            return 'let %s := (if %s\n then %s\n else %s) in\n%s' % (self.pat(vs), c, tb, eb, self.block(rest, env2, k))
        if isinstance(s, ast.For):
            if s.orelse or not isinstance(s.target, ast.Name):
                raise Unsupported('for form')
            for n in ast.walk(s):
                if isinstance(n, (ast.Break, ast.Continue, ast.Return)):
                    raise Unsupported('break/continue/return in loop')
            it = s.iter
            if isinstance(it, ast.Call) and isinstance(it.func, ast.Name) and it.func.id == 'range' and 1 <= len(it.args) <= 2:
                args = [self.expr(a, env) for a in it.args]
                if any(t != INT for _, t in args):
                    raise Unsupported('range bounds')
                lo, hi = ('0', args[0][0]) if len(args) == 1 else (args[0][0], args[1][0])
                seq = '(zrange %s %s)' % (lo, hi)
            else:
                a, ta = self.expr(it, env)
                if ta != BYTES:
                    raise Unsupported('iteration over non-bytes')
                seq = a
            lv = s.target.id
            vs = [v for v in self.assigned(s.body) if v != lv]
            if not vs:
                raise Unsupported('loop without effect')
            # type of first-assigned-inside variables: int, initial 0, must be defined before use
            envb = dict(env)
            inits = []
            for v in vs:
                if v in env and env[v][1]:
                    inits.append(v)
                else:
                    ty = env[v][0] if v in env else INT
                    if ty != INT:
                        raise Unsupported('loop-local %s of type %s' % (v, ty))
                    envb[v] = (INT, False)
                    inits.append('0')
            envb[lv] = (INT, True)
            body = self.block(s.body, envb, lambda e: self.tup(vs))
            env2 = dict(env)
            for v in vs:
                env2[v] = (envb[v][0], v in env and env[v][1])
            # after the loop a variable first assigned inside is only usable if it was defined before
            for v in vs:
                if not (v in env and env[v][1]):
                    env2[v] = (INT, False)
            if lv not in env2:
                env2[lv] = (INT, False)
            fun = '(fun %s %s =>\n%s)' % (self.pat(vs), lv, body)
            return 'let %s := fold_left %s %s %s in\n%s' % (self.pat(vs), fun, seq, self.tup(inits), self.block(rest, env2, k))
        if isinstance(s, ast.Pass):
            return self.block(rest, env, k)
        raise Unsupported('statement %s' % type(s).__name__)

    def def_type(self, stmts, v, env):
        """type of variable v after the first top-level assignment to it in stmts (None if not definitely assigned)"""
        e = dict(env)
        for st in stmts:
            if isinstance(st, ast.Assign) and len(st.targets) == 1 and isinstance(st.targets[0], ast.Name):
                try:
                    _, t = self.expr(st.value, e)
                except Unsupported:
                    return None
                if st.targets[0].id == v:
                    return t
                e[st.targets[0].id] = (t, True)
        return None

    @staticmethod
    def ends_in_return(stmts):
        if not stmts:
            return False
        last = stmts[-1]
        if isinstance(last, ast.Return):
            return True
        if isinstance(last, ast.If):
            return Fn.ends_in_return(last.body) and bool(last.orelse) and Fn.ends_in_return(last.orelse)
        return False

    def translate(self):
        args = [a.arg for a in self.node.args.args if a.arg != 'self']
        if self.node.args.vararg or self.node.args.kwarg or self.node.args.kwonlyargs:
            raise Unsupported('argument form')
        env = {}
        binders = []
        for a in args:
            if a not in self.argtypes:
                raise Unsupported('no type given for argument %s' % a)
            env[a] = (self.argtypes[a], True)
            binders.append('(%s : %s)' % (a, COQTY[self.argtypes[a]]))
        for key, ty in self.argtypes.items():
            if key.startswith('self.'):
                env[key] = (ty, True)
                binders.append('(%s : %s)' % (key.replace('.', '_'), COQTY[ty]))
        self.ret_types = set()

        def nok(e):
            raise Unsupported('function may end without return')
        body = self.block(self.node.body, env, nok)
        if len(self.ret_types) != 1:
            raise Unsupported('return types %s' % self.ret_types)
        rt = COQTY[self.ret_types.pop()]
        return 'Definition %s %s : %s :=\n%s.\n' % (self.coqname, ' '.join(binders), rt, textwrap.indent(body, '  '))


PRELUDE = """(* GENERATED by translate/py2coq.py from %(src)s -- do not edit *)
From Coq Require Import ZArith List Bool.
From NV Require Import Base.Result Base.Bytes Base.PyPrims.
Import ListNotations.
Open Scope Z_scope.

"""


def find_function(tree, qualname):
    parts = qualname.split('.')
    scope = tree.body
    node = None
    for p in parts:
        node = None
        for n in scope:
            if isinstance(n, (ast.FunctionDef, ast.ClassDef)) and n.name == p:
                node = n
                break
        if node is None:
            raise Unsupported('%s not found' % qualname)
        scope = node.body
    if not isinstance(node, ast.FunctionDef):
        raise Unsupported('%s is not a function' % qualname)
    return node


def translate_file(src_path, specs):
    """specs: list of dict(name=qualname, args={..}, consts={..}, coqname=..)"""
    tree = ast.parse(open(src_path).read())
    out = [PRELUDE % {'src': src_path}]
    for sp in specs:
        node = find_function(tree, sp['name'])
        out.append(Fn(node, sp['args'], sp.get('consts'), sp.get('coqname'), sp.get('calls')).translate())
        out.append('\n')
    return ''.join(out)


if __name__ == '__main__':
    import json
    src, spec = sys.argv[1], json.loads(sys.argv[2])
    sys.stdout.write(translate_file(src, spec))
