"""C09: the wait/notify skeleton of nfc.llcp.tco (socket classes) and nfc.llcp.llc.ServiceDiscovery is
regenerated on every run by the custom (non-py2coq) generator translate/skel_c09.py -> coq/Gen/TcoSkel.v"""
import os
import sys

sys.path.insert(0, os.path.dirname(os.path.abspath(__file__)))
import skel_c09  # noqa: E402

KERNELS = {'TcoSkel': skel_c09.generate}
